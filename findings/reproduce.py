"""Minimal reproducers of the genuine defects found by the checks (fixed ones and
known ones).  Each function returns (holds: bool, detail: str) — `holds` is
whether the property holds on the tree imported from $VERIF_REPO (default /repo).

    VERIF_REPO=/tmp/wt /venv/bin/python findings/reproduce.py          # all
    /venv/bin/python findings/reproduce.py F02 F12                      # some
"""
import os
import sys
import io
import contextlib
import warnings

REPO = os.environ.get("VERIF_REPO", "/repo")
sys.path.insert(0, REPO)
warnings.filterwarnings("ignore")
import numpy as np  # noqa: E402
import artlib  # noqa: E402
from artlib import *  # noqa: E402,F401,F403

assert os.path.realpath(artlib.__file__).startswith(os.path.realpath(REPO))


def cc(X):
    return np.hstack([X, 1 - X])


@contextlib.contextmanager
def quiet():
    o = sys.stdout
    sys.stdout = io.StringIO()
    try:
        yield
    finally:
        sys.stdout = o


def F01():
    X = np.array([[0.25, 0.5], [0.75, 0.5], [0.25, 0.5]])
    try:
        GaussianART(0.5, np.array([0.5, 0.5])).fit(X)
        BayesianART(0.5, np.eye(2) * 0.25).fit(X)
        return True, "Gaussian/Bayesian fit ok"
    except TypeError as e:
        return False, f"fit raises {e!r}"


def F02():
    # the second sample equals the first category's centre
    X = np.array([[0.5, 0.5], [0.5, 0.5], [0.25, 0.5]])
    m = HypersphereART(0.5, 0.25, 1.0, 1.0).fit(X)
    e = EllipsoidART(0.5, 0.25, 1.0, 0.5, 2.0).fit(np.array([[0.5, 0.5], [0.75, 0.5], [0.625, 0.5], [0.625, 0.5]]))
    bad = [n for n, mm in (("Hypersphere", m), ("Ellipsoid", e)) if not all(np.all(np.isfinite(w)) for w in mm.W)]
    return (not bad), (f"NaN weights in {bad}" if bad else "weights finite")


def F03():
    X = cc(np.array([[0.0, 0.25], [1.0, 0.75], [0.25, 0.25]]))
    m = FuzzyART(0.75, 0.25, 1.0)
    m.fit(X)
    m.fit(X)
    hist = np.bincount(m.labels_, minlength=m.n_clusters).tolist()
    ok = list(m.weight_sample_counter_) == hist and m.sample_counter_ == len(X)
    return ok, f"after re-fit counters={list(m.weight_sample_counter_)} total={m.sample_counter_} histogram={hist}"


def F04():
    X = cc(np.array([[0.0, 0.25], [1.0, 0.75]]))
    m = SimpleARTMAP(FuzzyART(0.5, 0.25, 1.0))
    m.fit(X, np.array([0, 1]))
    try:
        m.fit(X, np.array([1, 0]))
    except AssertionError:
        return False, "re-fit with other labels raises AssertionError (stale map)"
    f = SimpleARTMAP(FuzzyART(0.5, 0.25, 1.0)).fit(X, np.array([1, 0]))
    return m.map == f.map, f"re-fit map {m.map} vs fresh {f.map}"


def F05():
    X = cc(np.array([[0.0, 0.0], [1.0, 1.0], [0.5, 0.5], [0.0, 1.0]]))
    m = DualVigilanceART(FuzzyART(0.9, 0.25, 1.0), 0.25)
    m.fit(X)
    m.fit(X[:1])
    f = DualVigilanceART(FuzzyART(0.9, 0.25, 1.0), 0.25).fit(X[:1])
    return m.map == f.map and m.n_clusters == f.n_clusters, f"re-fit map {m.map} n_clusters {m.n_clusters}; fresh {f.map} {f.n_clusters}"


def F06():
    X = cc(np.array([[0.25], [0.25]]))
    m = FusionART([FuzzyART(0.0, 0.25, 1.0)], [1.0], [2])
    try:
        m.fit(X, match_reset_func=lambda i, w, c, params, cache: False)
        return True, f"labels {m.labels_.tolist()}"
    except KeyError as e:
        return False, f"veto of a matching category raises KeyError({e})"


def F08():
    X = cc(np.array([[0.0], [1.0], [0.5], [0.25]]))
    y = cc(np.array([[0.0], [1.0], [0.0], [1.0]]))
    m = ARTMAP(FuzzyART(0.5, 0.25, 1.0), FuzzyART(0.75, 0.25, 1.0))
    try:
        m.partial_fit(X[:2], y[:2])
        m.partial_fit(X[2:], y[2:])
    except ValueError as e:
        return False, f"second partial_fit batch raises {str(e)[:80]}"
    f = ARTMAP(FuzzyART(0.5, 0.25, 1.0), FuzzyART(0.75, 0.25, 1.0)).fit(X, y)
    return m.labels_a.tolist() == f.labels_a.tolist() and m.map == f.map, "batched == fit"


def F09():
    from artlib.elementary.FuzzyART import get_bounding_box
    w = np.array([0.25, 0.5, 0.375, 0.125])       # box [0.25,0.625] x [0.5,0.875]
    ref, wid = get_bounding_box(w, n=1)
    return wid == [0.375], f"width of leading dimension: {wid} (expected [0.375])"


def F10():
    m = ART1(0.5, 2.0)
    m.dim_ = 5
    x = np.array([1.0, 0.0, 0.0, 0.0, 0.0])
    w = m.new_weight(x, m.params)
    want = 2.0 / (2.0 - 1 + x.sum()) * x
    return np.allclose(w[:5], want), f"new_weight bottom-up {w[:5].tolist()} expected {want.tolist()}"


def F07():
    X = np.hstack([np.array([[0.25, 0.5], [0.75, 0.5], [0.25, 0.25]]), cc(np.array([[0.0], [1.0], [0.5]]))])
    try:
        m = FusionART([HypersphereART(0.5, 0.25, 1.0, 1.0), FuzzyART(0.5, 0.25, 1.0)], [0.5, 0.5], [2, 2]).fit(X)
    except Exception as e:
        return False, f"fit raised {e!r}"
    lens = [len(w) for w in m.modules[0].W]
    return all(t == 3 for t in lens), f"Hypersphere channel weight lengths {lens} (own new_weight has length 3)"


def F12():
    r = np.random.RandomState(3)
    Xs = [cc(r.randint(0, 5, size=(12, 2)) / 4.0) for _ in range(3)]
    mk = lambda: DeepARTMAP([FuzzyART(0.25, 0.25, 1.0), FuzzyART(0.5, 0.25, 1.0), FuzzyART(0.625, 0.25, 1.0)])  # noqa
    a = mk().fit(Xs)
    b = mk().partial_fit(Xs)
    ok = a.labels_deep_.tolist() == b.labels_deep_.tolist()
    return ok, "fit vs one-batch partial_fit labels_deep_ " + ("equal" if ok else "differ")


def F14():
    X = cc(np.array([[0.0, 0.0], [1.0, 1.0]]))
    with quiet():
        t = TopoART(FuzzyART(1.0, 2.0 ** -10, 1.0), 0.5, 2, 2).fit(X)
        try:
            p = t.predict(X[:1]).tolist()
        except Exception as e:
            return False, f"|W|={len(t.W)}: predict raised {e!r}"
    return p == [-1], f"|W|={len(t.W)}: predict -> {p}"


def F15():
    try:
        HypersphereART(0.875, 0.0, 1.0, 0.0)
        GaussianART(0.5, np.array([0.0, 0.0]))
        return False, "r_hat = 0 and sigma_init = 0 pass validate_params (training then divides by them)"
    except AssertionError:
        return True, "rejected by validate_params"


def F17():
    X = np.hstack([cc(np.array([[0.0], [1.0]])), cc(np.array([[1.0], [0.0]]))])
    m = FusionART([FuzzyART(0.5, 0.25, 1.0), FuzzyART(0.5, 0.25, 1.0)], [0.25, 0.75], [2, 2]).fit(X)
    q = np.hstack([cc(np.array([[0.0]])), cc(np.array([[0.0]]))])   # channel 1 says category 1, channel 0 says 0
    p_pos = m.predict(q, skip_channels=[1]).tolist()
    p_neg = m.predict(q, skip_channels=[-1]).tolist()
    return p_pos == p_neg, f"skip [1] -> {p_pos}, skip [-1] -> {p_neg}"


def F23():
    X = cc(np.array([[0.25, 0.5], [0.75, 0.5]]))
    y = np.array([0, 1])
    m = SimpleARTMAP(FuzzyART(0.9, 0.25, 1.0)).fit(X, y)
    W0 = [w.copy() for w in m.module_a.W]
    l0 = m.labels_.tolist()
    X[:] = 0.5
    y[:] = 7
    ok = all(np.array_equal(a, b) for a, b in zip(W0, m.module_a.W)) and m.labels_.tolist() == l0
    return ok, "weights/labels_ " + ("unchanged" if ok else "changed") + " after the caller overwrote X and y"


def F24():
    X = cc(np.array([[0.25, 0.5], [0.75, 0.5], [0.25, 0.25]]))
    with quiet():
        a = CVIART(FuzzyART(0.5, 0.25, 1.0), CVIART.CALINSKIHARABASZ)
        ra = a.fit(X)
        b = iCVIFuzzyART(0.5, 0.25, 1.0, iCVIFuzzyART.CALINSKIHARABASZ)
        rb = b.fit(X)
    return ra is a and rb is b, f"CVIART.fit -> {type(ra).__name__}, iCVIFuzzyART.fit -> {type(rb).__name__}"


def F27():
    X = cc(np.array([[1.0], [1.0], [0.0]]))
    with quiet():
        t = TopoART(FuzzyART(0.625, 1e-3, 1.0), 1.0, 8, 1)
        t.fit(X, match_reset_func=lambda i, w, c, params, cache: c != 0, match_tracking="MT-", epsilon=1e-6)
    bad = [w.tolist() for w in t.W if w.sum() < 0.625 * 1 - 1e-9]
    return not bad, f"weights below rho*d: {bad}"


def F28():
    X = np.hstack([cc(np.array([[0.0], [1.0]])), cc(np.array([[0.25], [0.75]])), cc(np.array([[1.0], [0.0]]))])
    m = FusionART([FuzzyART(0.5, 0.25, 1.0) for _ in range(3)], [0.5, 0.25, 0.25], [2, 2, 2])
    for mod in m.modules:
        mod.prepare_data(np.array([[0.0], [1.0]]))
    m.fit(X)
    try:
        out = m.predict_regression(X, target_channels=[1, 2])
    except Exception as e:
        return False, f"predict_regression(target_channels=[1,2]) raised {e!r}"
    want1 = np.array([m.get_channel_centers(1)[c] for c in m.predict(X, skip_channels=[1, 2])])
    return np.array_equal(out[0], want1), "multi-target regression returns the target channels' centres"


def F29():
    f = FusionART([FuzzyART(0.5, 0.25, 1.0), FuzzyART(0.5, 0.25, 1.0)], [0.5, 0.5], [2, 2])
    raw = np.array([[0.0], [1.0], [0.5]])
    P = f.prepare_data([None, raw], skip_channels=[0])
    try:
        out = f.restore_data(P, skip_channels=[0])
    except Exception as e:
        return False, f"restore_data(skip_channels=[0]) raised {e!r}"
    return np.allclose(out[0], raw), "restore(prepare(.)) round trip with the first channel skipped"


def F34():
    r = np.random.default_rng(0)
    X = cc(r.random((20, 2)))
    d = DualVigilanceART(FuzzyART(0.8, 0.01, 1.0), 0.5)
    with quiet():
        d.fit(X)
        d.fit(X[:5])
    cnt = [int(t) for t in d.base_module.weight_sample_counter_]
    own = [int(t) for t in d.weight_sample_counter_]
    return (len(cnt) == len(d.W) and sum(cnt) == 5 and own == cnt,
            f"after a second fit on 5 rows: {len(d.W)} categories, base-module counters {cnt}, wrapper counters {own}")


def F36():
    with quiet():
        b = BARTMAP(FuzzyART(0.5, 0.01, 1.0), FuzzyART(0.5, 0.01, 1.0), 0.0)
    try:
        b.set_params(eta=1)
        return False, "set_params(eta=1) accepted an int"
    except AssertionError:
        pass
    if b.eta != 0.0:
        return False, f"set_params(eta=1) raised but eta is now {b.eta!r}"
    try:
        b.set_params(module_b__rho=0.7)
    except Exception as e:
        return False, f"set_params(module_b__rho=0.7) raised {e!r}"
    return b.module_b.params["rho"] == 0.7, "rejected value does not stay; a call without eta is accepted"


def F38():
    X = cc(np.array([[0.1, 0.2], [0.8, 0.9], [0.15, 0.25], [0.5, 0.5]]))
    m = SimpleARTMAP(FuzzyART(0.5, 0.01, 1.0))
    with quiet():
        m.partial_fit(X[:2], np.array([0, 1], dtype=np.int8))
        m.partial_fit(X[2:], np.array([0, 258], dtype=np.int16))
    lb = [int(t) for t in m.labels_b]
    mapped = [int(t) for t in m.map_a2b(m.labels_a)]
    return lb == [0, 1, 0, 258] and mapped == lb, f"targets [0, 1, 0, 258] (int8 batch then int16 batch): labels_b {lb}, map_a2b(labels_a) {mapped}"


def F39():
    A = np.array([[10, 200], [50, 100], [30, 150]], dtype=np.uint8)
    B = np.array([[5, 220], [60, 90]], dtype=np.uint8)
    m = HypersphereART(0.5, 0.01, 1.0, 2.0)
    with quiet():
        m.prepare_data(A)
        P = np.asarray(m.prepare_data(B), dtype=float)
        R = np.asarray(m.restore_data(P), dtype=float)
    want = (B.astype(float) - [10, 100]) / [40, 100]
    return bool(np.allclose(P, want) and np.allclose(R, B)), f"later uint8 batch {B.tolist()}: prepared {P.tolist()} (first call's map gives {want.tolist()}), restored {R.tolist()}"


def F41():
    with quiet():
        m = GaussianART(rho=0.5, sigma_init=np.array([16, 16], dtype=np.uint8), alpha=1e-10)
        m.partial_fit(np.array([[0.25, 0.5]]))
        w = np.asarray(m.W[0], dtype=float)
        ok1 = bool(np.all(np.isfinite(w))) and abs(w[4] - 1 / 256) < 1e-15 and abs(w[6] - 256) < 1e-9
        try:
            BayesianART(rho=0.5, cov_init=np.eye(2, dtype=np.longdouble)).fit(np.array([[0.25, 0.5], [0.75, 0.5]]))
            ok2, d2 = True, "trains"
        except Exception as e:
            ok2, d2 = False, repr(e)
    return ok1 and ok2, f"GaussianART(sigma_init=uint8 [16,16]) first weight {w.tolist()}; BayesianART(cov_init=longdouble eye): {d2}"


def F43():
    with quiet():
        b = BARTMAP(FuzzyART(0.5, 0.01, 1.0), FuzzyART(0.5, 0.01, 1.0), 0.5)
        n = FuzzyART(0.9, 0.01, 1.0)
        b.get_params()
        b.set_params(module_a=n)
        f = FusionART([FuzzyART(0.5, 0.01, 1.0), FuzzyART(0.5, 0.01, 1.0)], [0.5, 0.5], [2, 2])
        f.get_params()
        polluted = sorted(k for k in f.params if k.startswith("module_"))
    return b.module_a is n and not polluted, f"after get_params(); set_params(module_a=new): module_a is the new one: {b.module_a is n}; FusionART.params polluted with {polluted}"


def F44():
    X = cc(np.array([[.1, .2], [.8, .9], [.15, .25], [.7, .95]]))
    y = np.array([0, 1, 0, 1]).reshape(-1, 1)
    try:
        with quiet():
            s_ = SimpleARTMAP(FuzzyART(0.5, 0.01, 1.0)).fit(X, y)
            p = [int(t) for t in s_.predict(X)]
            d = DeepARTMAP([FuzzyART(0.5, 0.01, 1.0)]).fit([X], y)
            q = [np.asarray(t).tolist() for t in d.predict([X])]
    except Exception as e:
        return False, f"targets given as an (n,1) column: {e!r}"
    return p == [0, 1, 0, 1] and q == [[0, 1, 0, 1], [0, 1, 0, 1]], f"targets given as an (n,1) column: predict {p}, DeepARTMAP.predict {q}"


def F45():
    import tempfile
    import matplotlib
    matplotlib.use("Agg")
    X = cc(np.random.default_rng(0).random((12, 2)))
    with quiet(), tempfile.TemporaryDirectory() as d:
        m = FuzzyART(0.7, 0.01, 1.0).fit(X)
        m.fit_gif(X, filename=d + "/f.gif", n_cluster_estimate=24, fps=50)
    cnt = [int(t) for t in m.weight_sample_counter_]
    hist = np.bincount(m.labels_, minlength=len(m.W)).tolist()
    return cnt == hist and m.sample_counter_ == 12, f"fit then fit_gif: counters {cnt}, label histogram {hist}, sample_counter_ {m.sample_counter_} for 12 samples"


def F46():
    from artlib import FALCON
    f = FALCON(FuzzyART(0.5, 0.01, 1.0), FuzzyART(0.5, 0.01, 1.0), FuzzyART(0.5, 0.01, 1.0), channel_dims=[2, 2, 2])
    s_, a = cc(np.array([[0.2], [0.8]])), cc(np.array([[0.25], [0.75]]))
    r = cc(np.array([[0.0], [0.0]]))
    try:
        with quiet():
            f.prepare_data(*[np.array([[0.0], [1.0]])] * 3)
            f.fit(s_, a, r)
            np.random.seed(0)
            act = f.get_probabilistic_action(s_[0])
    except Exception as e:
        return False, f"all predicted rewards 0: get_probabilistic_action raised {e!r}"
    return bool(np.all(np.isfinite(act))), f"all predicted rewards 0: get_probabilistic_action returned {np.asarray(act).tolist()}"


def F47():
    from artlib import DualVigilanceART
    X = cc(np.random.default_rng(0).random((20, 2)))
    with quiet():
        m = FuzzyART(0.7, 0.01, 1.0).fit(X)
        before = [int(t) for t in m.weight_sample_counter_]
        DualVigilanceART(m, 0.1)
        after = [int(t) for t in m.weight_sample_counter_]
    return before == after, f"fitted module's counters before / after wrapping it in a DualVigilanceART: {before} / {after}"


def F48():
    from artlib import ARTMAP
    X, Y = cc(np.array([[.1], [.9], [.5]])), cc(np.array([[.2], [.8], [.2]]))
    with quiet():
        a, b = FuzzyART(.9, 1e-3, 1.), FuzzyART(.9, 1e-3, 1.)
        b.fit(cc(np.array([[.5], [.6]])))
        h = ARTMAP(a, b).partial_fit(X[:2], Y[:2]).partial_fit(X[2:], Y[2:])
    got = (len(h.module_b.W), [int(t) for t in h.labels_])
    return got == (2, [0, 1, 0]), f"ARTMAP over a previously used module_b, two partial_fit batches: (B categories, labels) = {got}, one fit gives (2, [0, 1, 0])"


ALL = {k: v for k, v in list(globals().items()) if k[0] == "F" and k[1:3].isdigit()}

if __name__ == "__main__":
    names = sys.argv[1:] or sorted(ALL)
    bad = 0
    for n in names:
        try:
            ok, detail = ALL[n]()
        except Exception as e:  # noqa
            ok, detail = False, f"reproducer raised {e!r}"
        print(f"{n}: {'holds' if ok else 'FAILS'} — {detail}")
        bad += (not ok)
    sys.exit(1 if bad else 0)
