import ArtProps.C01
