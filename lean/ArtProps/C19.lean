/-
C19 — property theorems (stub; see DESIGN.md §6).
-/
import ArtModel.Basic

namespace Art.C19

end Art.C19
