/-
C19 — Estimator protocol; a model owns its state.  Property theorems about the
model `ArtModel/Params.lean` of `BaseART.{__init__, __getattr__, __setattr__,
get_params, set_params}` and of the eight elementary `validate_params`.

Scope, stated plainly
* PROVED here, for every store / every class description (and instantiated on
  the class table that the check re-extracts from the source on every run):
  `set_params(**get_params())` is a no-op; after an accepted `set_params` the
  new values are what `get_params` returns and nothing else moved; constructing
  with `p'` equals constructing with `p` and then `set_params(**p')`; unknown
  names raise `ValueError`; a float outside a declared range raises
  `AssertionError` and changes nothing; attribute reads/writes mirror `params`; a model whose
  weights are all owned is not affected by `mutateRow` on a caller array.
* F25 (`set_params` assigned before it validated) was repaired in /repo 41ad083;
  the model mirrors the new order and `set_rejection_leaves_state` proves, for
  every class and every call, that a rejected call (unknown name, or any
  exception of `validate_params`) leaves the estimator exactly as it was.  What
  remains false of model and code is documented by
  `set_nested_attr_error_after_assign_counterexample` (a nested name on a value
  that is no estimator fails only after the plain names were assigned).
* NOT modelled, hence NOT proved — covered by `harness/artv/checks/C19.py` on
  the implementation only: anything about Python object graphs
  (`copy.deepcopy`, `pickle`, `sklearn.base.clone`, `fit(...) is est`,
  independence of two instances, identity of the dict returned by
  `get_params`), nested estimators (`module_a__rho` routing is only recorded as
  a delegated call), and the compound classes' own `get_params`/`set_params`.
  In a pure functional model "a copy behaves identically" is `congrArg` and
  says nothing about Python; it is deliberately not stated as a theorem.
-/
import ArtProofs.Params

namespace Art.C19

open Art.Params

/-! ### facts about the class table (finite: `decide`) -/

/-- every class of the table: constructor argument names are distinct, contain no `__`,
do not collide with the attributes `BaseART.__init__` creates, and each is required by a
`assert "k" in params` line of `validate_params` -/
theorem table_wf : ∀ c ∈ classTable, c.args.Nodup ∧ (∀ a ∈ c.args, Plain a) ∧
    (∀ a ∈ c.args, get? initAttrs a = none) ∧ (∀ a ∈ c.args, Check.has a ∈ c.checks) := by
  decide

/-- every class but BayesianART declares `1.0 >= rho >= 0.0`; BayesianART declares `rho > 0` -/
theorem table_rho_range : ∀ c ∈ classTable,
    (c.name ≠ "BayesianART" → Check.range "rho" ge0 le1 ∈ c.checks) ∧
    (c.name = "BayesianART" → Check.range "rho" gt0 none ∈ c.checks) := by
  decide

/-! ### get / set -/

/-- `est.set_params(**est.get_params())` returns normally and leaves a valid estimator unchanged. -/
theorem set_get_noop (checks : List Check) (e : Est) (hwf : e.WF)
    (hv : validate checks e.params = none) :
    setParams checks e (getParams e) = ⟨e, none, []⟩ := by
  by_cases hne : e.params = []
  · simp [setParams, getParams, hne]
  · have hpk : ∀ kv ∈ e.params, Plain kv.1 ∧ kv.1 ∈ keys e.params := by
      intro kv hm
      have : kv.1 ∈ keys e.params := List.mem_map.mpr ⟨kv, hm, rfl⟩
      exact ⟨hwf.plain _ this, this⟩
    have hid : applyAll e.params e.params = e.params :=
      applyAll_id (fun kv hm => get?_of_mem_nodup hwf.nodup hm)
    simp only [getParams]
    rw [setParams_plain checks e e.params hne hpk, hid, hv]

/-- An unknown name anywhere in the call raises `ValueError`. -/
theorem set_rejects_unknown (checks : List Check) (e : Est) (kvs : List (String × Val))
    (h : ∃ kv ∈ kvs, (partitionKey kv.1).1 ∉ keys e.params) :
    (setParams checks e kvs).err = some .value := by
  have hne : kvs.isEmpty = false := by
    obtain ⟨kv, hm, _⟩ := h
    cases kvs with
    | nil => simp at hm
    | cons a r => rfl
  have hu := setLoop_unknown e.params ⟨e.params, [], []⟩ kvs h
  simp only [setParams, hne]
  generalize setLoop e.params ⟨e.params, [], []⟩ kvs = L at hu
  obtain ⟨st, err⟩ := L
  simp only at hu
  subst hu
  rfl

/-- After an accepted `set_params` of plain names, `get_params` returns the new values,
every other parameter is unchanged, and no parameter was added or removed. -/
theorem set_then_get (checks : List Check) (e : Est) (kvs : List (String × Val))
    (hp : ∀ kv ∈ kvs, Plain kv.1) (hn : (keys kvs).Nodup)
    (hok : (setParams checks e kvs).err = none) :
    (∀ kv ∈ kvs, get? (getParams (setParams checks e kvs).est) kv.1 = some kv.2) ∧
    (∀ k, k ∉ keys kvs → get? (getParams (setParams checks e kvs).est) k = get? (getParams e) k) ∧
    keys (getParams (setParams checks e kvs).est) = keys (getParams e) := by
  by_cases hne : kvs = []
  · subst hne
    simp [setParams, getParams]
  · have hknown : ∀ kv ∈ kvs, kv.1 ∈ keys e.params := by
      intro kv hm
      apply Classical.byContradiction
      intro hnot
      have hpl : partitionKey kv.1 = (kv.1, none) := hp kv hm
      have := set_rejects_unknown checks e kvs ⟨kv, hm, by rw [hpl]; exact hnot⟩
      rw [this] at hok
      cases hok
    have hpk : ∀ kv ∈ kvs, Plain kv.1 ∧ kv.1 ∈ keys e.params := fun kv hm => ⟨hp kv hm, hknown kv hm⟩
    rw [setParams_plain checks e kvs hne hpk] at hok ⊢
    cases hv : validate checks (applyAll e.params kvs) with
    | some err => simp [hv] at hok
    | none =>
      simp only [getParams]
      refine ⟨?_, ?_, keys_applyAll _ _⟩
      · intro kv hm
        exact applyAll_get_of_mem hn hm (hknown kv hm)
      · intro k hk
        exact applyAll_get_other hk

/-- For every class of the table: an estimator constructed with `p`, then
`set_params(**p')` with a full set of arguments, is exactly (class, parameter store,
attributes) the estimator constructed with `p'`, and the call returns normally. -/
theorem set_params_eq_construct : ∀ c ∈ classTable, ∀ (p p' : Store) (e e' : Est),
    construct c p = .ok e → construct c p' = .ok e' → (keys p').Nodup →
    (∀ a ∈ c.args, (get? p' a).isSome) →
    setParams c.checks e p' = ⟨e', none, []⟩ := by
  intro c hc p p' e e' h h' hn' htot
  obtain ⟨hnd, hpl, _, _⟩ := table_wf c hc
  exact setParams_eq_construct_generic c hnd hpl p p' e e' h h' hn' htot

/-- A float outside a range that `validate_params` declares raises `AssertionError`
(for every list of checks, in particular every class of the table) — and the estimator
is exactly what it was. -/
theorem set_rejects_out_of_range (checks : List Check) (e : Est) (k : String) (lo hi : Option Bound)
    (q : Rat) (hm : Check.range k lo hi ∈ checks) (hv : validate checks e.params = none)
    (hp : Plain k) (hout : inRange lo hi q = false) :
    (setParams checks e [(k, .flt q)]).err = some .assert ∧ (setParams checks e [(k, .flt q)]).est = e := by
  have hk : k ∈ keys e.params := by
    have := evalCheck_none_of_validate hv hm
    simp only [evalCheck] at this
    apply get?_isSome_iff.mp
    cases hg : get? e.params k with
    | none => simp [hg] at this
    | some v => rfl
  have hpk : ∀ kv ∈ [(k, Val.flt q)], Plain kv.1 ∧ kv.1 ∈ keys e.params := by
    intro kv hmem
    simp only [List.mem_singleton] at hmem
    subst hmem
    exact ⟨hp, hk⟩
  rw [setParams_plain checks e _ (by simp) hpk]
  simp only [applyAll, List.foldl_cons, List.foldl_nil]
  have hfail : evalCheck (assign e.params k (.flt q)) (.range k lo hi) ≠ none := by
    simp [evalCheck, get?_assign_same _ hk, Val.numView, hout]
  rcases validate_assign_flt q hk hv with h | h
  · exact absurd h (validate_ne_none_of_mem hm hfail)
  · simp [h]

/-- Instantiation on the table: `rho` outside `[0, 1]` is rejected by every class that
declares the unit range (all but BayesianART), `rho ≤ 0` by BayesianART. -/
theorem rho_out_of_range_rejected : ∀ c ∈ classTable, ∀ (e : Est) (q : Rat),
    validate c.checks e.params = none →
    (if c.name = "BayesianART" then q ≤ 0 else (q < 0 ∨ 1 < q)) →
    (setParams c.checks e [("rho", .flt q)]).err = some .assert ∧
    (setParams c.checks e [("rho", .flt q)]).est = e := by
  intro c hc e q hv hq
  have hpl : Plain "rho" := by decide
  obtain ⟨h1, h2⟩ := table_rho_range c hc
  by_cases hb : c.name = "BayesianART"
  · simp only [hb, if_true] at hq
    apply set_rejects_out_of_range c.checks e "rho" gt0 none q (h2 hb) hv hpl
    simp only [inRange, gt0, Bound.okLo, if_true, Bool.true_and, decide_eq_false_iff_not]
    intro hlt
    have : ((0 : Int) : Rat) = 0 := rfl
    rw [this] at hlt
    exact absurd hlt (Rat.not_lt.mpr hq)
  · simp only [hb, if_false] at hq
    apply set_rejects_out_of_range c.checks e "rho" ge0 le1 q (h1 hb) hv hpl
    simp only [inRange, ge0, le1, Bound.okLo, Bound.okHi, Bool.and_eq_false_iff]
    have h0 : ((0 : Int) : Rat) = 0 := rfl
    have h1' : ((1 : Int) : Rat) = 1 := rfl
    simp only [Bool.false_eq_true, if_false, h0, h1']
    rcases hq with hq | hq
    · right; exact decide_eq_false (Rat.not_le.mpr hq)
    · left; exact decide_eq_false (Rat.not_le.mpr hq)

/-! ### a rejected call changes nothing (F25 repaired in /repo 41ad083)

`set_params` now collects the names, validates `local_params`, and only then assigns. -/

/-- A call that is REJECTED — `ValueError` for an unknown name anywhere in the call, or any
exception of `validate_params` (out-of-range value, wrong type, …) — leaves the estimator
exactly as it was and delegates nothing.  (The only other exception the call can raise is the
`AttributeError` of routing a nested name `k__sub` to a value that is no estimator; see
`set_nested_attr_error_after_assign_counterexample`.) -/
theorem set_rejection_leaves_state (checks : List Check) (e : Est) (kvs : List (String × Val))
    (x : Err) (hx : (setParams checks e kvs).err = some x) (hna : x ≠ .attr) :
    (setParams checks e kvs).est = e ∧ (setParams checks e kvs).delegated = [] :=
  setParams_rejected_unchanged checks e kvs x hx hna

/-- Full strength for calls without nested names: whatever a call with plain names raises,
the estimator is exactly what it was. -/
theorem set_raises_leaves_state_plain (checks : List Check) (e : Est) (kvs : List (String × Val))
    (hp : ∀ kv ∈ kvs, Plain kv.1) (hx : (setParams checks e kvs).err ≠ none) :
    (setParams checks e kvs).est = e := by
  by_cases hknown : ∀ kv ∈ kvs, kv.1 ∈ keys e.params
  · by_cases hne : kvs = []
    · subst hne; simp [setParams]
    · have hpk : ∀ kv ∈ kvs, Plain kv.1 ∧ kv.1 ∈ keys e.params := fun kv hm => ⟨hp kv hm, hknown kv hm⟩
      rw [setParams_plain checks e kvs hne hpk] at hx ⊢
      cases hv : validate checks (applyAll e.params kvs) with
      | some err => simp
      | none => simp [hv] at hx
  · have hu : ∃ kv ∈ kvs, (partitionKey kv.1).1 ∉ keys e.params := by
      apply Classical.byContradiction
      intro hno
      apply hknown
      intro kv hm
      apply Classical.byContradiction
      intro hnot
      have hpl : partitionKey kv.1 = (kv.1, none) := hp kv hm
      exact hno ⟨kv, hm, by rw [hpl]; exact hnot⟩
    have := set_rejects_unknown checks e kvs hu
    exact (set_rejection_leaves_state checks e kvs .value this (by decide)).1

/-- a valid FuzzyART(rho=1/2, alpha=0, beta=1) -/
def fuzzyHalf : Est :=
  ⟨"FuzzyART", [("rho", .flt (mkRat 1 2)), ("alpha", .flt 0), ("beta", .flt 1)], initAttrs⟩

/-- What does NOT hold of the faithful model (and of the code): "every call that raises leaves
the estimator unchanged".  `FuzzyART(0.5, 0.0, 1.0).set_params(rho=0.25, alpha__x=1.0)` passes
validation, assigns `rho`, and then raises `AttributeError` ('float' object has no attribute
'set_params') while routing `alpha__x` — `rho` stays `0.25`.  The statement of C19 ("rejects
unknown names or out-of-range values") is not concerned; `set_rejection_leaves_state` and
`set_raises_leaves_state_plain` are the `_partial`s with the explicit hypotheses. -/
theorem set_nested_attr_error_after_assign_counterexample :
    (setParams fuzzyART.checks fuzzyHalf [("rho", .flt (mkRat 1 4)), ("alpha__x", .flt 1)]).err = some .attr ∧
    (setParams fuzzyART.checks fuzzyHalf [("rho", .flt (mkRat 1 4)), ("alpha__x", .flt 1)]).est ≠ fuzzyHalf := by
  decide

/-- The two rejections that used to leave traces (F25) no longer do: a rejected value, and a
valid name that precedes an unknown one. -/
theorem set_rejected_examples_unchanged :
    (setParams fuzzyART.checks fuzzyHalf [("rho", .flt 2)]).err = some .assert ∧
    (setParams fuzzyART.checks fuzzyHalf [("rho", .flt 2)]).est = fuzzyHalf ∧
    (setParams fuzzyART.checks fuzzyHalf [("alpha", .flt (mkRat 1 4)), ("bogus", .flt 1)]).err = some .value ∧
    (setParams fuzzyART.checks fuzzyHalf [("alpha", .flt (mkRat 1 4)), ("bogus", .flt 1)]).est = fuzzyHalf := by
  decide

/-! ### attributes mirror the parameters -/

/-- Reading a parameter name as an attribute gives the value `get_params` holds. -/
theorem attr_mirrors (e : Est) (hwf : e.WF) (k : String) (hk : k ∈ keys (getParams e)) :
    ∃ v, get? (getParams e) k = some v ∧ getAttr e k = .ok v := by
  have hs := get?_isSome_iff.mpr hk
  cases hg : get? e.params k with
  | none => simp [getParams, hg] at hs
  | some v =>
    refine ⟨v, hg, ?_⟩
    simp only [getAttr, hwf.disjoint k hk, hg]

/-- Writing a parameter name as an attribute writes `params`: `get_params` and the
attribute both show the new value, no other parameter moves, `__dict__` is untouched. -/
theorem attr_write_mirrors (e : Est) (hwf : e.WF) (k : String) (v : Val) (hk : k ∈ keys (getParams e)) :
    get? (getParams (setAttr e k v)) k = some v ∧ getAttr (setAttr e k v) k = .ok v ∧
    (∀ k', k' ≠ k → get? (getParams (setAttr e k v)) k' = get? (getParams e) k') ∧
    (setAttr e k v).attrs = e.attrs := by
  have hk' : k ∈ keys e.params := hk
  rw [setAttr_param v hk']
  simp only [getParams]
  refine ⟨get?_assign_same v hk', ?_, fun k' hne => get?_assign_other v hne, ?_⟩
  · simp only [getAttr, hwf.disjoint k hk', get?_assign_same v hk']
  · trivial

/-- Any other name is an ordinary attribute: `params` is untouched and the attribute reads back. -/
theorem attr_non_param (e : Est) (k : String) (v : Val) (hk : k ∉ keys (getParams e)) :
    getParams (setAttr e k v) = getParams e ∧ getAttr (setAttr e k v) k = .ok v := by
  have hn : (get? e.params k).isSome = false := by
    cases hg : get? e.params k with
    | none => rfl
    | some x =>
      have : (get? e.params k).isSome = true := by rw [hg]; rfl
      exact absurd (get?_isSome_iff.mp this) hk
  have hu : get? (upsert e.attrs k v) k = some v := get?_upsert_same e.attrs k v
  simp [setAttr, hn, getParams, getAttr, hu]

/-- A name that is neither a parameter nor an attribute raises `AttributeError`. -/
theorem attr_unknown (e : Est) (k : String) (h1 : get? e.attrs k = none) (h2 : k ∉ keys (getParams e)) :
    getAttr e k = .error .attr := by
  have h2' : get? e.params k = none := get?_eq_none_iff.mpr h2
  simp only [getAttr, h1, h2']

/-- The well-formedness the mirror theorems assume holds for every estimator the table
constructs and is preserved by attribute writes and by `set_params` (also when it raises). -/
theorem wf_invariant :
    (∀ c ∈ classTable, ∀ kw e, construct c kw = .ok e → e.WF) ∧
    (∀ e : Est, e.WF → ∀ k v, (setAttr e k v).WF) ∧
    (∀ checks (e : Est), e.WF → ∀ kvs, (setParams checks e kvs).est.WF) := by
  refine ⟨?_, fun e h k v => setAttr_WF h k v, ?_⟩
  · intro c hc kw e h
    obtain ⟨hnd, hpl, hdis, _⟩ := table_wf c hc
    obtain ⟨s, hs, _, he⟩ := construct_ok h
    obtain ⟨hks, _, _⟩ := bindArgs_spec hs
    subst he
    exact ⟨by simpa [hks] using hnd, by simpa [hks] using hpl, by simpa [hks] using hdis⟩
  · intro checks e h kvs
    obtain ⟨h1, h2, _⟩ := setParams_inv checks e kvs
    exact ⟨by rw [h1]; exact h.nodup, by rw [h1]; exact h.plain, by rw [h1, h2]; exact h.disjoint⟩

/-! ### ownership -/

/-- A model whose weights are all `Own` is unchanged, as observed, by any in-place
mutation of any caller array. -/
theorem owns_state (h : Heap) (W : List Wt) (a i : Nat) (r : List Rat)
    (hown : ∀ w ∈ W, w.isOwn = true) :
    observe (h.mutateRow a i r) W = observe h W := by
  simp only [observe]
  exact List.map_congr_left (fun w hw => read_own_mutate h a i r (hown w hw))

/-- Committing categories with `new_weight = np.copy(i)` (the code now) yields owned
weights, hence a model unaffected by later mutation of the training array. -/
theorem copied_weights_unaffected (h : Heap) (a n a' i : Nat) (r : List Rat) :
    observe (h.mutateRow a' i r) (commitRows true h a n) = observe h (commitRows true h a n) :=
  owns_state h _ a' i r (commitRows_copy_own h a n)

/-- Without the copy (`return i`, the code before the F23 fix) the fitted model changes
when the caller overwrites the training array. -/
theorem aliased_weights_counterexample :
    let h : Heap := [[[mkRat 1 2, mkRat 1 2], [mkRat 1 4, mkRat 3 4]]]
    observe (h.mutateRow 0 0 [0, 0]) (commitRows false h 0 2) ≠ observe h (commitRows false h 0 2) := by
  decide

/-! ### non-vacuity -/

/-- the table constructs the estimator used in the counterexamples, and it is valid -/
example : construct fuzzyART [("rho", .flt (mkRat 1 2)), ("alpha", .flt 0), ("beta", .flt 1)] = .ok fuzzyHalf := by
  rfl

example : validate fuzzyART.checks fuzzyHalf.params = none := by decide

/-- keyword order does not matter, defaults are filled in -/
example : construct gaussianART [("sigma_init", .arr [mkRat 1 2, mkRat 1 2]), ("rho", .flt (mkRat 1 2))] =
    .ok ⟨"GaussianART", [("rho", .flt (mkRat 1 2)), ("sigma_init", .arr [mkRat 1 2, mkRat 1 2]),
                          ("alpha", .flt tenToMinus10)], initAttrs⟩ := by
  rfl

/-- an accepted `set_params` with new values: hypotheses of `set_then_get` are satisfiable -/
example : (setParams fuzzyART.checks fuzzyHalf [("beta", .flt (mkRat 1 2)), ("rho", .flt (mkRat 3 4))]).err = none ∧
    getParams (setParams fuzzyART.checks fuzzyHalf [("beta", .flt (mkRat 1 2)), ("rho", .flt (mkRat 3 4))]).est =
      [("rho", .flt (mkRat 3 4)), ("alpha", .flt 0), ("beta", .flt (mkRat 1 2))] := by
  decide

/-- the different exception kinds of `validate_params` are all reachable -/
example : (setParams fuzzyART.checks fuzzyHalf [("rho", .int 1)]).err = some .assert ∧
    (setParams fuzzyART.checks fuzzyHalf [("rho", .lst [1])]).err = some .type ∧
    (setParams fuzzyART.checks fuzzyHalf [("rho", .arr [1, 2])]).err = some .value ∧
    (setParams fuzzyART.checks fuzzyHalf [("rho__x", .flt 1)]).err = some .attr ∧
    (setParams fuzzyART.checks fuzzyHalf [("bogus", .flt 1)]).err = some .value := by
  decide

/-- `str.partition("__")` -/
example : partitionKey "module_a__rho" = ("module_a", some "rho") ∧
    partitionKey "a___b__c" = ("a", some "_b__c") ∧ partitionKey "r_hat" = ("r_hat", none) := by
  decide

/-- a nested name on an estimator-valued parameter is delegated, not interpreted -/
example : (setParams [] ⟨"SimpleARTMAP", [("module_a", .mod 7)], []⟩
      [("module_a__rho", .flt 1), ("module_a__beta", .flt 1)]).delegated =
    [(7, [("rho", .flt 1), ("beta", .flt 1)])] := by
  decide

/-- attribute mirror on a concrete object, and an `Own` model under mutation -/
example : getAttr fuzzyHalf "rho" = .ok (.flt (mkRat 1 2)) ∧ getAttr fuzzyHalf "sample_counter_" = .ok (.int 0) ∧
    getAttr fuzzyHalf "foo" = .error .attr := by
  refine ⟨rfl, rfl, rfl⟩

example : fuzzyHalf.WF :=
  wf_invariant.1 fuzzyART (by decide) [("rho", .flt (mkRat 1 2)), ("alpha", .flt 0), ("beta", .flt 1)] _ rfl

example :
    let h : Heap := [[[mkRat 1 2, mkRat 1 2], [mkRat 1 4, mkRat 3 4]]]
    observe (h.mutateRow 0 0 [0, 0]) (commitRows true h 0 2) = [some [mkRat 1 2, mkRat 1 2], some [mkRat 1 4, mkRat 3 4]] := by
  decide

end Art.C19
