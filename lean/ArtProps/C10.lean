/-
C10 — Fusion ART is the channel-wise conjunction of its modules.

Model: `ArtModel/Fusion.lean` (`fusionKernel`, `fusionCfg` on top of the generic
`Kernel` / `search` / `stepFit`).  A channel is `(K, width, gamma, wlen)`;
`slice (widths chans) k x` is the Python slice `x[_channel_indices[k][0] : _channel_indices[k][1]]`
of a sample, `slice (wlens chans) k w` the slice `w[_weight_indices[k][0] : _weight_indices[k][1]]`
of a fused weight (`wlen` = the length of the module's own weight vector, which may exceed
the channel width: HypersphereART d+1, EllipsoidART 2d+1, ART1 2d, …).

What is proved, for every number type that is a linearly ordered field (ℚ as executed, ℝ),
every number of channels, all widths and weight lengths, all gammas, every stream, every
batching (`partialFit_flatten`), every match-tracking mode / epsilon / reset function:
  * activation = left-to-right sum of `a_k * gamma_k`, resonance = every channel's own test,
    tracking = every channel tracks;
  * learning is channel-wise and every channel stores, category by category, its own rule
    folded over the channel slices of the category's members — for modules of **any**
    weight length (`Chan.LenOK`: the module's weight vectors have the constant length `wlen`,
    true of every artlib module);
  * the training loop as the code runs it — on the list of module states (`modsRun`) — yields
    exactly the projections of the fused run; hence all channels hold the same number of
    categories and `W` is the concatenation of the module weights;
  * one channel with gamma = 1 = the bare module, state for state;
  * swapping two neighbouring channels (with gammas, widths, vigilances, data columns)
    leaves labels and counters unchanged and permutes the weights.

History: until /repo 9bccfb4 the fused weight was cut with the *data* ranges, so a module
with `wlen > width` was stored truncated (finding F07, found by this slice's oracle and its
`fusion_long_weight_counterexample`); the code was repaired, the model follows the repaired
code and the former counterexample is now the positive example `fusion_long_weight_example`.
-/
import ArtProofs.Fusion
import ArtProofs.Kernels

namespace Art.C10
open Art Art.Fusion

set_option linter.unusedSectionVars false

section Core
variable {α : Type} [Field α] [LinearOrder α] [IsStrictOrderedRing α]

/-- **Activation.**  `category_choice` is Python's `sum` of `a_k * gamma_k` over the
channels, left to right from `0` (and NaN as soon as one channel activation is NaN). -/
theorem fusion_choice_def (chans : List (Chan α)) (W : List (List α)) (x w : List α) :
    (fusionKernel chans).choice W x w =
      osum (chans.zipIdx.map (fun ck =>
        (ck.1.K.choice (W.map (slice (wlens chans) ck.2)) (slice (widths chans) ck.2 x)
          (slice (wlens chans) ck.2 w)).map (· * ck.1.gamma))) := by
  show osum (chanTerms chans noSkip W x w) = _
  unfold chanTerms
  congr 1

/-- … hence, when every channel activation `T k` is a number, the gamma-weighted sum `Σ_k T_k γ_k`. -/
theorem fusion_choice_sum (chans : List (Chan α)) (W : List (List α)) (x w : List α) (T : Nat → α)
    (hT : ∀ k c, chans[k]? = some c →
      c.K.choice (W.map (slice (wlens chans) k)) (slice (widths chans) k x) (slice (wlens chans) k w) =
        some (T k)) :
    (fusionKernel chans).choice W x w = some ((chans.zipIdx.map (fun ck => T ck.2 * ck.1.gamma)).sum) := by
  rw [fusion_choice_def]
  have : chans.zipIdx.map (fun ck =>
        (ck.1.K.choice (W.map (slice (wlens chans) ck.2)) (slice (widths chans) ck.2 x)
          (slice (wlens chans) ck.2 w)).map (· * ck.1.gamma)) =
      (chans.zipIdx.map (fun ck => T ck.2 * ck.1.gamma)).map some := by
    rw [List.map_map]
    apply List.map_congr_left
    intro ck hck
    have hk : chans[ck.2]? = some ck.1 := by
      obtain ⟨j, hj⟩ := List.getElem?_of_mem hck
      rw [List.getElem?_zipIdx] at hj
      cases hc : chans[j]? with
      | none => simp [hc] at hj
      | some c =>
        simp only [hc, Option.map_some, Option.some.injEq] at hj
        subst hj; simpa using hc
    simp [hT ck.2 ck.1 hk]
  rw [this, osum, foldl_oadd_some, zero_add]

/-- **Resonance.**  The fused vigilance test passes iff every channel's own test passes
(`th` = the channels' `rho`, one per channel). -/
theorem fusion_match_all (chans : List (Chan α)) (mode : MT) (adjP adjM : α → α) (top : α)
    (th : List α) (x w : List α) :
    (fusionCfg mode adjP adjM top).passes th ((fusionKernel chans).matchv x w) = true ↔
      ∀ (k : Nat) (c : Chan α) (rho : α), chans[k]? = some c → th[k]? = some rho →
        passesScalar mode false rho
          (c.K.matchv (slice (widths chans) k x) (slice (wlens chans) k w)) = true := by
  show (List.zip th (matchVec chans x w)).all _ = true ↔ _
  rw [List.all_eq_true]
  constructor
  · intro h k c rho hc hr
    apply h (rho, c.K.matchv (slice (widths chans) k x) (slice (wlens chans) k w))
    apply List.mem_of_getElem? (i := k)
    rw [List.getElem?_zip_eq_some]
    exact ⟨hr, by rw [matchVec, zipIdx_map_getElem?, hc]; rfl⟩
  · intro h tv htv
    obtain ⟨k, hk⟩ := List.getElem?_of_mem htv
    rw [List.getElem?_zip_eq_some] at hk
    obtain ⟨h1, h2⟩ := hk
    rw [matchVec, zipIdx_map_getElem?] at h2
    cases hc : chans[k]? with
    | none => simp [hc] at h2
    | some c =>
      simp only [hc, Option.map_some, Option.some.injEq] at h2
      have := h k c tv.1 hc h1
      rw [h2] at this
      exact this

/-- match tracking lets every channel track: the new threshold vector is the channel-wise
`_match_tracking` of the old one -/
theorem fusion_track_all (mode : MT) (adjP adjM : α → α) (top : α) (th m : List α) (k : Nat) :
    ((fusionCfg mode adjP adjM top).track th m)[k]? =
      (th[k]?).bind (fun t => (m[k]?).map (fun v => trackScalar mode adjP adjM top t v)) := by
  show ((List.zip th m).map _)[k]? = _
  rw [List.getElem?_map, List.zip, List.getElem?_zipWith']
  cases th[k]? <;> cases m[k]? <;> rfl

/-- **Learning is channel-wise** (modules of any weight length): channel `k` of the
updated / new fused weight is module `k`'s own rule on the `k`-slices of sample and weight. -/
theorem fusion_update_channelwise (chans : List (Chan α)) (hl : ∀ c ∈ chans, c.LenOK) (x w : List α)
    (hx : x.length = total chans) (hw : w.length = wtotal chans) (k : Nat) (c : Chan α)
    (hc : chans[k]? = some c) :
    slice (wlens chans) k ((fusionKernel chans).update x w) =
      c.K.update (slice (widths chans) k x) (slice (wlens chans) k w) ∧
    slice (wlens chans) k ((fusionKernel chans).newW x) = c.K.newW (slice (widths chans) k x) :=
  ⟨fusion_update_slice chans hl x w hx hw k c hc, fusion_new_slice chans hl x hx k c hc⟩

/-- **Every channel stores exactly what its module alone would compute.**  After any
stream `xs` (any mode, epsilon, reset function), for every channel `k` and every category
index `j`: `modules[k].W[j]` is module `k`'s rule folded over the channel-`k` slices of the
samples labelled `j` (in presentation order, starting from its new-category rule) — and
there is no such weight iff no sample is labelled `j`. -/
theorem fusion_channel_states {θ : Type} (chans : List (Chan α)) (hl : ∀ c ∈ chans, c.LenOK)
    (cfg : SearchCfg (List α) θ) (th0 : θ) (veto : ArtState (List α) → List α → Nat → Bool)
    (xs : List (List α)) (hx : ∀ x ∈ xs, x.length = total chans) (k : Nat) (c : Chan α)
    (hc : chans[k]? = some c) (j : Nat) :
    (chanState (wlens chans) k (partialFit (fusionKernel chans) cfg th0 veto {} xs)).W[j]? =
      foldMembers c.K (members (xs.map (slice (widths chans) k))
        (partialFit (fusionKernel chans) cfg th0 veto {} xs).labels j) := by
  obtain ⟨_, hW⟩ := weights_are_member_folds (fusionKernel chans) cfg th0 veto xs
  show ((partialFit (fusionKernel chans) cfg th0 veto {} xs).W.map (slice (wlens chans) k))[j]? = _
  rw [List.getElem?_map, hW j, members_map]
  exact foldMembers_slice chans hl k c hc _
    (fun m hm => hx m (members_subset xs _ j m hm))

/-- **The modules are the projections of the fused run.**  `modsRun` is the training loop as
the code executes it — on the list of module states, reading the `W` property (re-assembled
from the modules) and writing through `add_weight` / `set_weight`.  After any stream its module
states are exactly the slices of the fused state of `partialFit (fusionKernel chans)`, and the
labels agree.  (Reset function: any function of sample and category.) -/
theorem fusion_modules_are_projections {θ : Type} (chans : List (Chan α)) (hne : chans ≠ [])
    (cfg : SearchCfg (List α) θ) (th0 : θ) (veto : List α → Nat → Bool) (xs : List (List α)) :
    modsRun chans cfg th0 veto (chanStates chans {}, []) xs =
      (chanStates chans (partialFit (fusionKernel chans) cfg th0 (fun _ x c => veto x c) {} xs),
       (partialFit (fusionKernel chans) cfg th0 (fun _ x c => veto x c) {} xs).labels) :=
  modsRun_chanStates chans hne cfg th0 veto {} (by simp) xs

/-- **All channels always hold the same number of categories**: after any stream every module
list of the code-level run has exactly `n_clusters` weights and `n_clusters` counters, and there
is one module state per channel. -/
theorem fusion_counts_equal {θ : Type} (chans : List (Chan α)) (hne : chans ≠ [])
    (cfg : SearchCfg (List α) θ) (th0 : θ) (veto : List α → Nat → Bool) (xs : List (List α)) :
    (modsRun chans cfg th0 veto (chanStates chans {}, []) xs).1.length = chans.length ∧
    ∀ m ∈ (modsRun chans cfg th0 veto (chanStates chans {}, []) xs).1,
      m.W.length = (partialFit (fusionKernel chans) cfg th0 (fun _ x c => veto x c) {} xs).W.length ∧
      m.cnt.length = (partialFit (fusionKernel chans) cfg th0 (fun _ x c => veto x c) {} xs).W.length := by
  rw [fusion_modules_are_projections chans hne cfg th0 veto xs]
  refine ⟨chanStates_length _ _, ?_⟩
  intro m hm
  simp only [chanStates, List.mem_map] at hm
  obtain ⟨k, _, rfl⟩ := hm
  exact ⟨by simp [chanState],
    (partialFit_consistent _ cfg th0 _ {} xs consistent_empty).cnt_len⟩

/-- **`W` is the concatenation of the module weights**: reading the `W` property back
from the modules returns the fused list — for every kind of module (no `LenOK` needed). -/
theorem fusion_W_concat {θ : Type} (chans : List (Chan α)) (hne : chans ≠ [])
    (cfg : SearchCfg (List α) θ) (th0 : θ) (veto : ArtState (List α) → List α → Nat → Bool)
    (xs : List (List α)) :
    fusedW (chanStates chans (partialFit (fusionKernel chans) cfg th0 veto {} xs)) =
      (partialFit (fusionKernel chans) cfg th0 veto {} xs).W := by
  apply fusedW_chanStates chans hne
  apply partialFit_W_inv (fusionKernel chans) cfg th0 veto (fun w => w.length ≤ wtotal chans) (fun _ => True)
  · intro x w _ _; exact stored_length_le _ _
  · intro x _; exact stored_length_le _ _
  · simp
  · simp

/-- **One channel, gamma = 1**: `partial_fit` of the FusionART is, state for state (weights,
counters, labels), `partial_fit` of the bare module — any mode, epsilon, reset function,
starting state and stream. -/
theorem fusion_single_channel (c : Chan α) (hγ : c.gamma = 1) (hl : c.LenOK) (mode : MT)
    (adjP adjM : α → α) (top rho : α) (veto : ArtState (List α) → List α → Nat → Bool)
    (s : ArtState (List α)) (xs : List (List α)) (hs : ∀ w ∈ s.W, w.length = c.wlen)
    (hx : ∀ x ∈ xs, x.length = c.width) :
    partialFit (fusionKernel [c]) (fusionCfg mode adjP adjM top) [rho] veto s xs =
      partialFit c.K (scalarCfg mode false adjP adjM top) rho veto s xs :=
  single_partialFit c hγ hl mode adjP adjM top rho veto s xs hs hx

/-- … and so are its predictions -/
theorem fusion_single_channel_predict (c : Chan α) (hγ : c.gamma = 1) (W : List (List α)) (x : List α)
    (hW : ∀ w ∈ W, w.length = c.wlen) (hx : x.length = c.width) :
    stepPred (fusionKernel [c]) W x = stepPred c.K W x := by
  unfold stepPred activations
  congr 1
  apply List.map_congr_left
  intro w hw
  exact single_choice c hγ W x w hW hx hw


/-- **Permuting channels.**  Swapping two neighbouring channels together with their gammas,
widths, vigilances and data columns (and handing the reset function the permuted view)
gives the same labels and counters; the weights are the same up to the column swap.  Every
permutation is a product of such swaps.  Ordered field: uses commutativity of the sum. -/
theorem fusion_perm_channels (chans : List (Chan α)) (i : Nat) (hi : i + 1 < chans.length)
    (hl : ∀ c ∈ chans, c.LenOK) (mode : MT) (adjP adjM : α → α) (top : α)
    (th : List α) (hth : th.length = chans.length)
    (veto veto' : ArtState (List α) → List α → Nat → Bool)
    (hv : ∀ s x c, veto' (mapState (swapCols (wlens chans) i) s) (swapCols (widths chans) i x) c = veto s x c)
    (xs : List (List α)) (hx : ∀ x ∈ xs, x.length = total chans) :
    (partialFit (fusionKernel (swapAt i chans)) (fusionCfg mode adjP adjM top) (swapAt i th) veto' {}
        (xs.map (swapCols (widths chans) i))).labels =
      (partialFit (fusionKernel chans) (fusionCfg mode adjP adjM top) th veto {} xs).labels ∧
    (partialFit (fusionKernel (swapAt i chans)) (fusionCfg mode adjP adjM top) (swapAt i th) veto' {}
        (xs.map (swapCols (widths chans) i))).cnt =
      (partialFit (fusionKernel chans) (fusionCfg mode adjP adjM top) th veto {} xs).cnt ∧
    (partialFit (fusionKernel (swapAt i chans)) (fusionCfg mode adjP adjM top) (swapAt i th) veto' {}
        (xs.map (swapCols (widths chans) i))).W =
      (partialFit (fusionKernel chans) (fusionCfg mode adjP adjM top) th veto {} xs).W.map
        (swapCols (wlens chans) i) := by
  have h := perm_partialFit chans i hi hl mode adjP adjM top th hth veto veto' hv {} xs (by simp) hx
  have h0 : mapState (swapCols (wlens chans) i) ({} : ArtState (List α)) = {} := rfl
  rw [h0] at h
  rw [h]
  exact ⟨rfl, rfl, rfl⟩

/-- … and the permuted model predicts the same category for the permuted query -/
theorem fusion_perm_predict (chans : List (Chan α)) (i : Nat) (hi : i + 1 < chans.length)
    (hl : ∀ c ∈ chans, c.LenOK) (W : List (List α)) (x : List α)
    (hW : ∀ w ∈ W, w.length = wtotal chans) (hx : x.length = total chans) :
    stepPred (fusionKernel (swapAt i chans)) (W.map (swapCols (wlens chans) i)) (swapCols (widths chans) i x) =
      stepPred (fusionKernel chans) W x := by
  unfold stepPred
  rw [(perm_sim chans i hi hl MT.plus id id 0).activations W x hW hx]

end Core

/-! ### a module whose weight is longer than its channel (the former F07 counterexample) -/

/-- a module in the style of HypersphereART: weight = centre ++ [radius] -/
def longKernel : Kernel (List Rat) (List Rat) Rat Rat :=
  { choice := fun _ _ _ => some 0, matchv := fun _ _ => 0, update := fun _ w => w, newW := fun x => x ++ [0] }

def longChans : List (Chan Rat) := [⟨longKernel, 2, 1/2, 3⟩, ⟨fuzzyKernel (1/4) 1 1, 2, 1/2, 2⟩]

/-- Sample `[1/4, 1/2 | 1/10, 9/10]`: channel 0 stores the module's own weight `[1/4, 1/2, 0]`
(three entries for a channel of width two) and channel 1 the FuzzyART weight `[1/10, 9/10]`.
(Before /repo 9bccfb4 the code stored `[1/4, 1/2]` and `[0, 1/10]`: finding F07.) -/
theorem fusion_long_weight_example :
    slice (wlens longChans) 0 ((fusionKernel longChans).newW [1/4, 1/2, 1/10, 9/10]) = [1/4, 1/2, 0] ∧
    slice (wlens longChans) 1 ((fusionKernel longChans).newW [1/4, 1/2, 1/10, 9/10]) = [1/10, 9/10] ∧
    (fusionKernel longChans).newW [1/4, 1/2, 1/10, 9/10] = [1/4, 1/2, 0, 1/10, 9/10] := by
  decide +kernel

/-- the long module satisfies the hypothesis of the channel-wise theorems with `wlen = 3` -/
theorem fusion_long_weight_LenOK : (⟨longKernel, 2, 1/2, 3⟩ : Chan Rat).LenOK := by
  constructor
  · intro x w _ hw; simpa [longKernel] using hw
  · intro x hx; simp [longKernel, hx]

/-! ### FuzzyART, ART2-A and ART1 channels satisfy `LenOK` -/
section LenOK
variable {α : Type} [Field α] [LinearOrder α] [IsStrictOrderedRing α]

theorem fuzzy_LenOK (alpha beta d gamma : α) (width : Nat) :
    (⟨fuzzyKernel alpha beta d, width, gamma, width⟩ : Chan α).LenOK := by
  constructor
  · intro x w hx hw
    simp [fuzzyKernel, fuzzyUpdate, vadd, smul, vmin, hx, hw]
  · intro x hx
    simpa [fuzzyKernel, fuzzyNew] using hx

theorem art2_LenOK (alpha beta gamma : α) (width : Nat) :
    (⟨art2Kernel alpha beta, width, gamma, width⟩ : Chan α).LenOK := by
  constructor
  · intro x w hx hw
    simp [art2Kernel, art2Update, vadd, smul, hx, hw]
  · intro x hx
    simpa [art2Kernel] using hx

/-- ART1: weight = bottom-up ++ top-down, twice the channel width -/
theorem art1_LenOK (L gamma : α) (dim : Nat) :
    (⟨art1Kernel L dim, dim, gamma, 2 * dim⟩ : Chan α).LenOK := by
  constructor
  · intro x w hx hw
    simp only at hx hw
    simp [art1Kernel, art1Update, band', smul, hx, hw]
    omega
  · intro x hx
    simp only at hx
    simp [art1Kernel, art1New, smul, hx]
    omega

end LenOK

/-! ### Non-vacuity: concrete runs over ℚ (FuzzyART channels, rho = 3/4, alpha = 1/4, beta = 1) -/
private def cA : Chan Rat := ⟨fuzzyKernel (1/4) 1 1, 2, 1/4, 2⟩
private def cB : Chan Rat := ⟨fuzzyKernel (1/4) 1 1, 2, 3/4, 2⟩
private def cfgQ : SearchCfg (List Rat) (List Rat) := fusionCfg .plus (· + 0) (· - 0) 0
private def data : List (List Rat) := [[0, 1, 0, 1], [1, 0, 1, 0], [1/4, 3/4, 0, 1], [0, 1, 1, 0], [1/8, 7/8, 1/8, 7/8]]
private def runAB := partialFit (fusionKernel [cA, cB]) cfgQ [3/4, 3/4] noVeto {} data
private def runBA := partialFit (fusionKernel [cB, cA]) cfgQ [3/4, 3/4] noVeto {} (data.map (swapCols [2, 2] 0))

-- three categories; the last sample is absorbed by category 0; both channels learn their own slices
example : runAB.labels = [0, 1, 0, 2, 0] := by decide +kernel
example : (chanState [2, 2] 0 runAB).W = [[0, 3/4], [1, 0], [0, 1]] := by decide +kernel
example : (chanState [2, 2] 1 runAB).W = [[0, 7/8], [1, 0], [1, 0]] := by decide +kernel
example : fusedW (chanStates [cA, cB] runAB) = runAB.W := by decide +kernel
-- the code-level run on the module lists: two module states with three categories each
example : ((modsRun [cA, cB] cfgQ [3/4, 3/4] (fun _ _ => false) (chanStates [cA, cB] {}, []) data).1.map
    (fun m => m.W.length)) = [3, 3] := by decide +kernel
example : (modsRun [cA, cB] cfgQ [3/4, 3/4] (fun _ _ => false) (chanStates [cA, cB] {}, []) data).2 =
    [0, 1, 0, 2, 0] := by decide +kernel
-- the permuted FusionART on the permuted columns gives the same labels
example : runBA.labels = runAB.labels := by decide +kernel
example : runBA.W = runAB.W.map (swapCols [2, 2] 0) := by decide +kernel
-- hypotheses of the theorems are satisfiable: widths, gammas summing to 1, LenOK
example : ∀ c ∈ [cA, cB], c.LenOK := by
  intro c hc
  simp only [List.mem_cons, List.mem_nil_iff, or_false] at hc
  rcases hc with rfl | rfl <;> exact fuzzy_LenOK _ _ _ _ _
example : ∀ x ∈ data, x.length = total [cA, cB] := by decide
-- one channel with gamma = 1 against the bare module
example : (partialFit (fusionKernel [⟨fuzzyKernel (1/4 : Rat) 1 1, 2, 1, 2⟩]) cfgQ [3/4] noVeto {}
    [[0, 1], [1, 0], [1/4, 3/4]]).labels =
    (partialFit (fuzzyKernel (1/4 : Rat) 1 1) (scalarCfg .plus false (· + 0) (· - 0) 0) (3/4) noVeto {}
      [[0, 1], [1, 0], [1/4, 3/4]]).labels := by decide +kernel
-- an ART1 channel (weight 2·2 = 4 entries) next to a FuzzyART channel: W is the concatenation
example : (partialFit (fusionKernel [⟨art1Kernel (2 : Rat) 2, 2, 1/2, 4⟩, cB]) cfgQ [1/2, 3/4] noVeto {}
    [[1, 0, 0, 1], [1, 1, 0, 1], [0, 1, 1, 0]]).W = [[1, 0, 1, 0, 0, 1], [0, 1, 0, 1, 1, 0]] := by decide +kernel
-- the fused activation is the gamma-weighted sum: 1/4 * (1/(1/4+1)) + 3/4 * (1/(1/4+1)) = 4/5
example : (fusionKernel [cA, cB]).choice [] [0, 1, 0, 1] [0, 1, 0, 1] = some (4/5) := by decide +kernel

end Art.C10
