/-
C10 — property theorems (stub; see DESIGN.md §6).
-/
import ArtModel.Basic

namespace Art.C10

end Art.C10
