/-
C09 — Supervised maps are functional and consistent with every training label.

`MapInv s` (ArtProofs/Map.lean): the map has exactly one entry per A-side
category, every entry is defined (total), and zipping the stored A-side labels
with the supplied targets, each A-label maps to its target.  It holds after any
history of `fit` / `partial_fit` calls, for every A-side kernel, all five modes,
every epsilon, arbitrary (also contradictory) label sequences.
-/
import ArtProofs.Predict

namespace Art.C09

variable {X Wt α μ θ : Type} [LinearOrder α]

/-- one supervised step keeps the invariant, never overwrites an entry, and
encodes the sample by a category of its own class -/
theorem step_inv (K : Kernel X Wt α μ) (cfg : SearchCfg μ θ) (th0 : θ)
    (s : SMapState Wt) (xy : X × Nat) (h : MapInv s) :
    MapInv (smapStep K cfg th0 s xy) ∧
    (∀ c y, mapGet s.map c = some y → mapGet (smapStep K cfg th0 s xy).map c = some y) ∧
    (∃ c, (smapStep K cfg th0 s xy).a.labels = s.a.labels ++ [c] ∧
      mapGet (smapStep K cfg th0 s xy).map c = some xy.2) :=
  smapStep_inv K cfg th0 s xy h

/-- **map_inv** after `partial_fit` on any batch, from any state satisfying it;
entries present before are still there with the same class (functional for the
whole history). -/
theorem map_inv_partial_fit (K : Kernel X Wt α μ) (cfg : SearchCfg μ θ) (th0 : θ)
    (s : SMapState Wt) (xys : List (X × Nat)) (h : MapInv s) :
    MapInv (smapPartialFit K cfg th0 s xys) ∧
    (∀ c y, mapGet s.map c = some y → mapGet (smapPartialFit K cfg th0 s xys).map c = some y) :=
  smapPartialFit_inv K cfg th0 s xys h

/-- **map_inv** after `fit` -/
theorem map_inv_fit (K : Kernel X Wt α μ) (cfg : SearchCfg μ θ) (th0 : θ)
    (s : SMapState Wt) (xys : List (X × Nat)) : MapInv (smapFit K cfg th0 s xys) :=
  smapFit_inv K cfg th0 s xys

/-- **map_inv** after `fit` with any number of epochs (`max_iter`) -/
theorem map_inv_fit_epochs (K : Kernel X Wt α μ) (cfg : SearchCfg μ θ) (th0 : θ) (epochs : Nat)
    (xys : List (X × Nat)) : MapInv (smapFitEpochs K cfg th0 epochs xys) :=
  smapFitEpochs_inv K cfg th0 epochs xys

/-- mapping the stored A-side labels reproduces the supplied targets exactly
(so the implementation's `assert self.map[c_a] == c_b` is unreachable) -/
theorem map_a2b_reproduces_targets (K : Kernel X Wt α μ) (cfg : SearchCfg μ θ) (th0 : θ)
    (s : SMapState Wt) (xys : List (X × Nat)) :
    mapA2B (smapFit K cfg th0 s xys).map (smapFit K cfg th0 s xys).a.labels =
      (xys.map (·.2)).map some := by
  have h := mapInv_mapA2B (smapFit_inv K cfg th0 s xys)
  rw [h]
  have := smapPartialFit_labelsB K cfg th0 ({} : SMapState Wt) xys
  simp only [smapFit]
  rw [this]
  simp

/-- predictions are the map of the A-side prediction and are classes seen in training -/
theorem predict_eq_map_of_predict_a (K : Kernel X Wt α μ) (cfg : SearchCfg μ θ) (th0 : θ)
    (s0 : SMapState Wt) (xys : List (X × Nat)) (x : X)
    (hne : (smapFit K cfg th0 s0 xys).a.W ≠ []) :
    ∃ c y, stepPred K (smapFit K cfg th0 s0 xys).a.W x = some c ∧
      mapGet (smapFit K cfg th0 s0 xys).map c = some y ∧
      smapStepPred K (smapFit K cfg th0 s0 xys) x = some (c, y) ∧ y ∈ xys.map (·.2) := by
  have hm := smapFit_inv K cfg th0 s0 xys
  have hc : Consistent (smapFit K cfg th0 s0 xys).a :=
    smapPartialFit_consistent K cfg th0 {} xys consistent_empty
  obtain ⟨c, y, h1, h2, h3, h4⟩ := smapStepPred_spec K hm hc x hne
  refine ⟨c, y, h1, h2, h3, ?_⟩
  have := smapPartialFit_labelsB K cfg th0 ({} : SMapState Wt) xys
  simp only [smapFit] at h4
  rw [this] at h4
  simpa using h4

/-! Non-vacuity: contradictory labels on identical rows force a second category. -/
private def K0 : Kernel Int Int Int Int :=
  { choice := fun _ x w => some (-(x - w).natAbs), matchv := fun x w => -(x - w).natAbs,
    update := fun _ w => w, newW := fun x => x }
private def cfg0 : SearchCfg Int Int := scalarCfg .plus false (· + 1) (· - 1) 1000

example : (smapFit K0 cfg0 (-5) {} [(3, 0), (3, 1), (3, 0)]).a.labels = [0, 1, 0] := by decide
example : (smapFit K0 cfg0 (-5) {} [(3, 0), (3, 1), (3, 0)]).map = [some 0, some 1] := by decide

end Art.C09
