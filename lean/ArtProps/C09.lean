/-
C09 — property theorems (stub; see DESIGN.md §6).
-/
import ArtModel.Basic

namespace Art.C09

end Art.C09
