/-
C07 — Hyper-parameters are invariant under learning (match tracking is transient).

`ArtModel/Restore.lean` threads the module's vigilance slot through the step the
way the code does (save, mutate while tracking, restore on every exit).  The
theorems say: whatever the search did to the slot, after the step it holds the
configured value again — on all four exits — hence over any history; and the
state/labels produced are those of the pure step judged against the configured
value, so consecutive samples are always judged against the configured values.
-/
import ArtProofs.Fit
import ArtModel.Restore

namespace Art.C07

variable {X Wt α μ θ : Type} [LinearOrder α]

/-- One step restores the slot, whichever exit is taken. -/
theorem step_params_restored (K : Kernel X Wt α μ) (cfg : SearchCfg μ θ) (veto : Nat → Bool)
    (m : Module θ Wt) (x : X) : (stepFitP K cfg veto m x).1.rho = m.rho := by
  unfold stepFitP
  split
  · rfl
  · simp only
    split <;> rfl

/-- … although the slot really was overwritten while tracking: the value at the
end of the loop is the search's final threshold. -/
theorem step_slot_was_mutated (K : Kernel X Wt α μ) (cfg : SearchCfg μ θ) (veto : Nat → Bool)
    (m : Module θ Wt) (x : X) (h : m.st.W.isEmpty = false) :
    (stepFitP K cfg veto m x).2.2.2 = (stepSearch K cfg m.rho veto m.st.W x).th := by
  unfold stepFitP
  rw [if_neg (by simp [h])]
  simp only
  cases (stepSearch K cfg m.rho veto m.st.W x).winner <;> rfl

/-- The step with the threaded slot computes exactly the pure step judged
against the configured threshold. -/
theorem step_eq_pure (K : Kernel X Wt α μ) (cfg : SearchCfg μ θ) (veto : Nat → Bool)
    (m : Module θ Wt) (x : X) :
    ((stepFitP K cfg veto m x).1.st, (stepFitP K cfg veto m x).2.1) =
      stepFit K cfg m.rho veto m.st x := by
  unfold stepFitP stepFit
  split
  · rfl
  · simp only
    split <;> rename_i h <;> simp [h]

/-- Over any stream the slot never changes and the training state is the pure
fold at the configured threshold. -/
theorem history_params_invariant (K : Kernel X Wt α μ) (cfg : SearchCfg μ θ)
    (veto : ArtState Wt → X → Nat → Bool) (m : Module θ Wt) (xs : List X) :
    (partialFitP K cfg veto m xs).rho = m.rho ∧
    (partialFitP K cfg veto m xs).st = partialFit K cfg m.rho veto m.st xs := by
  unfold partialFitP partialFit
  induction xs generalizing m with
  | nil => exact ⟨rfl, rfl⟩
  | cons x xs ih =>
    simp only [List.foldl_cons]
    have h1 : (trainStepP K cfg veto m x).rho = m.rho := by
      simp [trainStepP, step_params_restored]
    have h2 : (trainStepP K cfg veto m x).st = trainStep K cfg m.rho veto m.st x := by
      have := step_eq_pure K cfg (veto m.st x) m x
      simp only [trainStepP, trainStep]
      rw [← this]
    obtain ⟨i1, i2⟩ := ih (trainStepP K cfg veto m x)
    rw [h1] at i1 i2
    rw [h2] at i2
    exact ⟨i1, i2⟩

/-- The first category visited for any sample is judged against the configured value. -/
theorem first_visit_sees_configured (cfg : SearchCfg μ θ) (M : Nat → μ) (veto : Nat → Bool)
    (T : List (Option α)) (th : θ) (v : Visit θ)
    (h : (search cfg M veto T.length T th).visits.head? = some v) : v.th = th := by
  have := search_threshold_trace cfg M veto T.length T th (liveCount_le_length T)
  cases hv : (search cfg M veto T.length T th).visits with
  | nil => simp [hv] at h
  | cons v' vs =>
    rw [hv] at this h
    simp only [List.head?_cons, Option.some.injEq] at h
    subst h
    exact this.1

/-! Non-vacuity: MT+ with a vetoed best match really moves the slot (5 → 7)
and the step still hands back 5. -/
private def K0 : Kernel Int Int Int Int :=
  { choice := fun _ x w => some (-(x - w).natAbs), matchv := fun _ _ => 6,
    update := fun _ w => w, newW := fun x => x }
private def cfg0 : SearchCfg Int Int := scalarCfg .plus false (· + 1) (· - 1) 1000
private def m0 : Module Int Int := ⟨5, { W := [0, 10], cnt := [1, 1], n := 2, labels := [0, 1] }⟩

example : (stepFitP K0 cfg0 (fun c => c == 0) m0 1).2.2.2 = 7 := by decide
example : (stepFitP K0 cfg0 (fun c => c == 0) m0 1).1.rho = 5 := by decide
example : (stepFitP K0 cfg0 (fun c => c == 0) m0 1).2.2.1 = .newCategory := by decide

end Art.C07
