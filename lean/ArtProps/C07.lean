/-
C07 — property theorems (stub; see DESIGN.md §6).
-/
import ArtModel.Basic

namespace Art.C07

end Art.C07
