/-
C02 — property theorems (stub; see DESIGN.md §6).
-/
import ArtModel.Basic

namespace Art.C02

end Art.C02
