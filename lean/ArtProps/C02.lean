/-
C02 — Categories summarise exactly their members and respect the vigilance bound.

Field theorems hold over every linearly ordered field (ℚ as executed, ℝ as the
literature means it); float rounding is outside the theorem (the correspondence
measures it).  The Euclidean containment clause of Hypersphere ART ("each new
sphere contains the old one") is stated on the radius rule together with the
centre displacement identity `‖c' − c‖ = R' − R` in squared form; see the notes
at `sphere_contains_old_sq`.
-/
import ArtProofs.Kernels
import ArtProofs.Sphere

namespace Art.C02

variable {X Wt μ θ : Type}

section Generic
variable {α : Type} [LinearOrder α]

/-- **Exact summary, any module.**  After one training pass from an empty model
(any mode, epsilon, reset function), the weight stored at index `k` is the
module's learning rule folded over the samples labelled `k`, in presentation
order, started from the new-category rule on the first of them; and an index
holds no weight iff no sample carries that label. -/
theorem categories_are_member_folds (K : Kernel X Wt α μ) (cfg : SearchCfg μ θ) (th0 : θ)
    (veto : ArtState Wt → X → Nat → Bool) (xs : List X) (k : Nat) :
    (partialFit K cfg th0 veto {} xs).W[k]? =
      foldMembers K (members xs (partialFit K cfg th0 veto {} xs).labels k) :=
  (weights_are_member_folds K cfg th0 veto xs).2 k

end Generic

section Field
variable {α : Type} [Field α] [LinearOrder α] [IsStrictOrderedRing α]

/-- meet (component-wise minimum) of a non-empty list of vectors: the bounding
box of complement-coded samples -/
def meetAll : List (List α) → Option (List α)
  | [] => none
  | m :: ms => some (ms.foldl (fun w x => vmin x w) m)

/-- With fast learning the Fuzzy ART fold over members is their meet. -/
theorem fuzzy_fold_is_meet (alpha d : α) (L : Nat) (ms : List (List α)) (hL : ∀ m ∈ ms, m.length = L) :
    foldMembers (fuzzyKernel alpha 1 d) ms = meetAll ms := by
  cases ms with
  | nil => rfl
  | cons m ms =>
    simp only [foldMembers, meetAll, fuzzyKernel, fuzzyNew, Option.some.injEq]
    have hm : m.length = L := hL m (by simp)
    have hrest : ∀ x ∈ ms, x.length = L := fun x hx => hL x (by simp [hx])
    clear hL
    induction ms generalizing m with
    | nil => rfl
    | cons x xs ih =>
      simp only [List.foldl_cons]
      have hx : x.length = L := hrest x (by simp)
      rw [fuzzyUpdate_one x m (by rw [hx, hm])]
      exact ih (vmin x m) (by rw [vmin_len x m (by rw [hx, hm]), hm])
        (fun y hy => hrest y (by simp [hy]))

/-- **Fuzzy ART box = bounding box of its members** (learning rate 1, one pass). -/
theorem fuzzy_box_exact (alpha d : α) (cfg : SearchCfg α θ) (th0 : θ)
    (veto : ArtState (List α) → List α → Nat → Bool) (L : Nat) (xs : List (List α))
    (hL : ∀ x ∈ xs, x.length = L) (k : Nat) :
    (partialFit (fuzzyKernel alpha 1 d) cfg th0 veto {} xs).W[k]? =
      meetAll (members xs (partialFit (fuzzyKernel alpha 1 d) cfg th0 veto {} xs).labels k) := by
  rw [categories_are_member_folds]
  apply fuzzy_fold_is_meet alpha d L
  intro m hm
  simp only [members, List.mem_map, List.mem_filter] at hm
  obtain ⟨p, ⟨hp, _⟩, rfl⟩ := hm
  exact hL _ (List.of_mem_zip hp).1

/-- the meet is a lower bound of every member … -/
theorem meetAll_le (L : Nat) (ms : List (List α)) (w : List α) (hL : ∀ m ∈ ms, m.length = L)
    (h : meetAll ms = some w) : ∀ m ∈ ms, vle w m := by
  cases ms with
  | nil => simp [meetAll] at h
  | cons m0 ms =>
    simp only [meetAll, Option.some.injEq] at h
    subst h
    have key : ∀ (ms : List (List α)) (a : List α), a.length = L → (∀ x ∈ ms, x.length = L) →
        vle (ms.foldl (fun w x => vmin x w) a) a ∧
        (ms.foldl (fun w x => vmin x w) a).length = L ∧
        ∀ x ∈ ms, vle (ms.foldl (fun w x => vmin x w) a) x := by
      intro ms
      induction ms with
      | nil => intro a ha _; exact ⟨vle_refl a, ha, by simp⟩
      | cons x xs ih =>
        intro a ha hx
        have hxl : x.length = L := hx x (by simp)
        have hlen : (vmin x a).length = L := by rw [vmin_len x a (by rw [hxl, ha]), ha]
        obtain ⟨h1, h2, h3⟩ := ih (vmin x a) hlen (fun y hy => hx y (by simp [hy]))
        refine ⟨vle_trans h1 (vminLeRight x a (by rw [hxl, ha])), h2, ?_⟩
        intro y hy
        simp only [List.mem_cons] at hy
        rcases hy with rfl | hy
        · exact vle_trans h1 (vminLeLeft y a (by rw [hxl, ha]))
        · exact h3 y hy
    obtain ⟨h1, _, h3⟩ := key ms m0 (hL m0 (by simp)) (fun x hx => hL x (by simp [hx]))
    intro m hm
    simp only [List.mem_cons] at hm
    rcases hm with rfl | hm
    · exact h1
    · exact h3 m hm

/-- … and the greatest one: the box is the *smallest* box containing the members. -/
theorem meetAll_greatest (ms : List (List α)) (w z : List α)
    (h : meetAll ms = some w) (hz : ∀ m ∈ ms, vle z m) : vle z w := by
  cases ms with
  | nil => simp [meetAll] at h
  | cons m0 ms =>
    simp only [meetAll, Option.some.injEq] at h
    subst h
    have hz0 := hz m0 (by simp)
    have hzr : ∀ x ∈ ms, vle z x := fun x hx => hz x (by simp [hx])
    clear hz
    induction ms generalizing m0 with
    | nil => exact hz0
    | cons x xs ih =>
      simp only [List.foldl_cons]
      exact ih (vmin x m0) (le_vmin (hzr x (by simp)) hz0) (fun y hy => hzr y (by simp [hy]))

/-- **Weights only shrink** (regions only grow): one Fuzzy ART step leaves every
weight component-wise ≤ its previous value, for every learning rate in `[0,1]`. -/
theorem fuzzy_weights_antitone (alpha β d : α) (hβ0 : 0 ≤ β) (hβ1 : β ≤ 1)
    (cfg : SearchCfg α θ) (th0 : θ) (veto : Nat → Bool) (s : ArtState (List α)) (x : List α)
    (hlen : ∀ w ∈ s.W, w.length = x.length) (k : Nat) (w : List α) (hk : s.W[k]? = some w) :
    ∃ w', (stepFit (fuzzyKernel alpha β d) cfg th0 veto s x).1.W[k]? = some w' ∧ vle w' w := by
  obtain ⟨_, _, h | h⟩ := stepFit_frame (fuzzyKernel alpha β d) cfg th0 veto s x
  · obtain ⟨hlt, w0, hw0, hW, _⟩ := h
    rw [hW]
    by_cases e : (stepFit (fuzzyKernel alpha β d) cfg th0 veto s x).2 = k
    · rw [e] at hw0 hW ⊢
      rw [hk] at hw0
      obtain rfl := Option.some.inj hw0
      have hkl : k < s.W.length := (List.getElem?_eq_some_iff.mp hk).1
      refine ⟨_, List.getElem?_set_self hkl, ?_⟩
      exact fuzzyUpdate_le β hβ0 hβ1 x w (hlen w (List.mem_of_getElem? hk)).symm
    · exact ⟨w, by rw [List.getElem?_set_ne e]; exact hk, vle_refl w⟩
  · obtain ⟨_, hW, _⟩ := h
    rw [hW]
    have hkl : k < s.W.length := (List.getElem?_eq_some_iff.mp hk).1
    exact ⟨w, by rw [List.getElem?_append_left hkl]; exact hk, vle_refl w⟩

/-- A sample once enclosed (`w ≤ x` component-wise on the complement-coded row,
equivalently `x ∧ w = w`) is never expelled: later weights are ≤ the old one. -/
theorem enclosed_stays_enclosed (x w w' : List α) (henc : vle w x) (hshrink : vle w' w) :
    vle w' x ∧ vmin x w' = w' :=
  ⟨vle_trans hshrink henc, vmin_eq_right_of_vle (vle_trans hshrink henc)⟩

/-- **Vigilance bound** `|w| ≥ rho·d` is an invariant of training in every mode that
never lowers the threshold (no reset function, MT+, MT0, MT1, MT~ with `eps ≥ 0`):
if all stored weights satisfy it and the sample has `|x| = d` (exact complement
coding) then so do all weights after the step. -/
theorem fuzzy_size_bound_step (alpha β d ρ eps top : α) (hβ0 : 0 ≤ β) (hβ1 : β ≤ 1) (hd : 0 < d)
    (hρ1 : ρ ≤ 1) (heps : 0 ≤ eps) (htop : ρ ≤ top) (mode : MT) (hmode : mode ≠ .minus)
    (veto : Nat → Bool) (s : ArtState (List α)) (x : List α)
    (hx : vsum x = d) (hlen : ∀ w ∈ s.W, w.length = x.length)
    (hinv : ∀ w ∈ s.W, ρ * d ≤ vsum w) :
    ∀ w ∈ (stepFit (fuzzyKernel alpha β d)
        (scalarCfg mode false (· + eps) (· - eps) top) ρ veto s x).1.W, ρ * d ≤ vsum w := by
  set K := fuzzyKernel alpha β d
  set cfg : SearchCfg α α := scalarCfg mode false (· + eps) (· - eps) top
  -- thresholds in force never drop below rho
  have hQ : ∀ th m, ρ ≤ th → cfg.passes th m = true → ρ ≤ cfg.track th m := by
    intro th m hth hp
    cases mode <;>
      simp only [cfg, scalarCfg, trackScalar, passesScalar, mtStrict, decide_eq_true_eq] at hp ⊢
    · linarith
    · exact absurd rfl hmode
    · exact le_of_lt (lt_of_le_of_lt hth hp)
    · exact htop
    · exact hth
  intro w' hw'
  unfold stepFit at hw'
  split at hw'
  · -- first sample: new category = x
    simp only [applyWinner, List.mem_append, List.mem_singleton] at hw'
    rcases hw' with h | h
    · exact hinv _ h
    · have : vsum w' = d := by rw [h]; exact hx
      rw [this]; nlinarith
  · cases hwin : (stepSearch K cfg ρ veto s.W x).winner with
    | none =>
      rw [hwin] at hw'
      simp only [applyWinner, List.mem_append, List.mem_singleton] at hw'
      rcases hw' with h | h
      · exact hinv _ h
      · have : vsum w' = d := by rw [h]; exact hx
        rw [this]; nlinarith
    | some c =>
      rw [hwin] at hw'
      have hlt := stepSearch_winner_lt K cfg ρ veto s.W x c hwin
      obtain ⟨th, hth, hp⟩ := stepSearch_winner_passes K cfg ρ veto s.W x c (fun t => ρ ≤ t) le_rfl hQ hwin
      have hwc : s.W[c]? = some s.W[c] := List.getElem?_eq_getElem hlt
      simp only [applyWinner, hwc] at hw'
      obtain ⟨i, hi⟩ := List.getElem?_of_mem hw'
      by_cases e : c = i
      · subst e
        rw [List.getElem?_set_self hlt] at hi
        simp only [Option.some.injEq] at hi
        subst hi
        have hwmem : s.W[c] ∈ s.W := List.getElem_mem hlt
        have hmatch : matchAt K s.W x c = fuzzyMatch d x s.W[c] := by
          simp [matchAt, hwc, K, fuzzyKernel]
        rw [hmatch] at hp
        have hpass : ρ ≤ fuzzyMatch d x s.W[c] := by
          cases mode <;>
            simp only [cfg, scalarCfg, passesScalar, mtStrict, decide_eq_true_eq] at hp
          · linarith
          · exact absurd rfl hmode
          · exact le_of_lt (lt_of_le_of_lt hth hp)
          · linarith
          · exact le_of_lt (lt_of_le_of_lt hth hp)
        rw [fuzzyMatch_ge_iff d ρ hd] at hpass
        exact fuzzy_size_step β (ρ * d) hβ0 hβ1 x s.W[c] (hlen _ hwmem).symm hpass (hinv _ hwmem)
      · rw [List.getElem?_set_ne e] at hi
        exact hinv _ (List.mem_of_getElem? hi)

/-- **MT− may break the bound** (finding F20, by design of MT−): the tracking
rule lowers the threshold below the configured vigilance.  Witness over ℚ: with
`rho = 1/2`, `eps = 1/2`, a vetoed best match `M = 1/2` drops the threshold to 0. -/
theorem mt_minus_lowers_threshold_counterexample :
    (scalarCfg (α := ℚ) .minus false (· + 1/2) (· - 1/2) 10).track (1/2) (1/2) < 1/2 := by
  norm_num [scalarCfg, trackScalar]

/-! ### Hypersphere ART radius rule -/

/-- radii never decrease and never exceed the largest distance seen at the step -/
theorem sphere_radius_monotone (β R dist : α) (hβ0 : 0 ≤ β) (hβ1 : β ≤ 1) :
    R ≤ R + β / (1 + 1) * (max R dist - R) ∧ R + β / (1 + 1) * (max R dist - R) ≤ max R dist :=
  sphere_radius_between β R dist hβ0 hβ1

/-- **Radius bound, one step**: if the category passed the vigilance test
`M ≥ rho` then its new radius is at most `r̂(1 − rho)`. -/
theorem sphere_radius_bound_step (β rhat ρ R dist : α) (hβ0 : 0 ≤ β) (hβ1 : β ≤ 1) (hr : 0 < rhat)
    (hpass : ρ ≤ 1 - max R (max R dist) / rhat) :
    R + β / (1 + 1) * (max R dist - R) ≤ rhat * (1 - ρ) :=
  le_trans (sphere_radius_between β R dist hβ0 hβ1).2 ((sphere_match_ge_iff rhat ρ R dist hr).mp hpass)

/-- the stored radius of an updated Hypersphere weight is the radius rule applied to the old radius -/
theorem sphUpdate_radius [Transc α] (β : α) (x w : List α) :
    sphRadius (sphUpdate β x w) =
      sphRadius w + β / (1 + 1) * (max (sphRadius w) (sphDist x w) - sphRadius w) := by
  unfold sphUpdate sphRadius
  simp

/-- **Radius bound as an invariant of training** (Hypersphere ART, every mode that never lowers the
threshold: no reset function, MT+, MT0, MT1, MT~ with `eps ≥ 0`): if every stored radius is at most
`r̂(1 − rho)` then so is every radius after the step — new categories start at radius 0. -/
theorem sphere_radius_bound_invariant [Transc α] (alpha β rhat ρ eps top : α) (hβ0 : 0 ≤ β) (hβ1 : β ≤ 1)
    (hr : 0 < rhat) (hρ1 : ρ ≤ 1) (heps : 0 ≤ eps) (htop : ρ ≤ top) (mode : MT) (hmode : mode ≠ .minus)
    (veto : Nat → Bool) (s : ArtState (List α)) (x : List α)
    (hinv : ∀ w ∈ s.W, sphRadius w ≤ rhat * (1 - ρ)) :
    ∀ w ∈ (stepFit (sphKernel alpha β rhat)
        (scalarCfg mode false (· + eps) (· - eps) top) ρ veto s x).1.W, sphRadius w ≤ rhat * (1 - ρ) := by
  set K := sphKernel alpha β rhat
  set cfg : SearchCfg α α := scalarCfg mode false (· + eps) (· - eps) top
  have hQ : ∀ th m, ρ ≤ th → cfg.passes th m = true → ρ ≤ cfg.track th m := by
    intro th m hth hp
    cases mode <;>
      simp only [cfg, scalarCfg, trackScalar, passesScalar, mtStrict, decide_eq_true_eq] at hp ⊢
    · linarith
    · exact absurd rfl hmode
    · exact le_of_lt (lt_of_le_of_lt hth hp)
    · exact htop
    · exact hth
  have hnew : sphRadius (sphNew x) ≤ rhat * (1 - ρ) := by
    have : sphRadius (sphNew x) = 0 := by simp [sphRadius, sphNew]
    rw [this]
    exact mul_nonneg (le_of_lt hr) (by linarith)
  intro w' hw'
  unfold stepFit at hw'
  split at hw'
  · simp only [applyWinner, List.mem_append, List.mem_singleton] at hw'
    rcases hw' with h | h
    · exact hinv _ h
    · rw [h]; exact hnew
  · cases hwin : (stepSearch K cfg ρ veto s.W x).winner with
    | none =>
      rw [hwin] at hw'
      simp only [applyWinner, List.mem_append, List.mem_singleton] at hw'
      rcases hw' with h | h
      · exact hinv _ h
      · rw [h]; exact hnew
    | some c =>
      rw [hwin] at hw'
      have hlt := stepSearch_winner_lt K cfg ρ veto s.W x c hwin
      obtain ⟨th, hth, hp⟩ := stepSearch_winner_passes K cfg ρ veto s.W x c (fun t => ρ ≤ t) le_rfl hQ hwin
      have hwc : s.W[c]? = some s.W[c] := List.getElem?_eq_getElem hlt
      simp only [applyWinner, hwc] at hw'
      obtain ⟨i, hi⟩ := List.getElem?_of_mem hw'
      by_cases e : c = i
      · subst e
        rw [List.getElem?_set_self hlt] at hi
        simp only [Option.some.injEq] at hi
        subst hi
        have hmatch : matchAt K s.W x c = sphMatch rhat x s.W[c] := by
          simp [matchAt, hwc, K, sphKernel]
        rw [hmatch] at hp
        have hpass : ρ ≤ sphMatch rhat x s.W[c] := by
          cases mode <;>
            simp only [cfg, scalarCfg, passesScalar, mtStrict, decide_eq_true_eq] at hp
          · linarith
          · exact absurd rfl hmode
          · exact le_of_lt (lt_of_le_of_lt hth hp)
          · linarith
          · exact le_of_lt (lt_of_le_of_lt hth hp)
        show sphRadius (sphUpdate β x s.W[c]) ≤ rhat * (1 - ρ)
        rw [sphUpdate_radius]
        exact sphere_radius_bound_step β rhat ρ _ _ hβ0 hβ1 hr hpass
      · rw [List.getElem?_set_ne e] at hi
        exact hinv _ (List.mem_of_getElem? hi)

/-- Ellipsoid ART has the same radius rule with `M = 1 − (R + max(R,dist))/r̂`:
passing `M ≥ rho` bounds the new radius by `r̂(1 − rho)/2`. -/
theorem ellipsoid_radius_bound_step (β rhat ρ R dist : α) (hβ0 : 0 ≤ β) (hβ1 : β ≤ 1) (hr : 0 < rhat)
    (hpass : ρ ≤ 1 - (R + max R dist) / rhat) :
    R + β / (1 + 1) * (max R dist - R) ≤ rhat * (1 - ρ) / (1 + 1) := by
  have h1 : (R + max R dist) / rhat ≤ 1 - ρ := by linarith
  rw [div_le_iff₀ hr] at h1
  have h2 := (sphere_radius_between β R dist hβ0 hβ1).2
  have h3 : R ≤ max R dist := le_max_left R dist
  have h4 : (0:α) ≤ β / (1 + 1) := by positivity
  have h5 : β / (1 + 1) ≤ 1 / (1 + 1) := by
    apply div_le_div_of_nonneg_right hβ1; norm_num
  rw [le_div_iff₀ (by norm_num : (0:α) < 1 + 1)]
  have h6 : 0 ≤ max R dist - R := sub_nonneg.mpr h3
  nlinarith

/-- **Each new hypersphere contains the old one**, in the form that needs no
square root: the centre moves along `x − c` by the factor `t = β/2·(1 − min(R,dist)/dist)`,
so `‖c' − c‖ = t·dist`, and `t·dist = R' − R`; hence `‖c' − c‖ + R = R'` — the old
sphere is internally tangent to (inside) the new one. -/
theorem sphere_contains_old_sq (β R dist : α) (hd : 0 < dist) :
    β / (1 + 1) * (1 - min R dist / dist) * dist = (R + β / (1 + 1) * (max R dist - R)) - R := by
  have hne : dist ≠ 0 := ne_of_gt hd
  rcases le_total R dist with h | h
  · rw [min_eq_left h, max_eq_right h]; field_simp; ring
  · rw [min_eq_right h, max_eq_left h]; field_simp; ring

/-! ### Hypersphere ART in a real normed space (the Euclidean clauses) -/

end Field

section Euclid
variable {V : Type} [NormedAddCommGroup V] [NormedSpace ℝ V]
open Art.Sphere

/-- **Each new hypersphere contains the old one**: every point within `R` of the old centre is
within `R'` of the new centre — for every learning rate `β ≥ 0`, any sample `x`, in any real
normed space (`EuclideanSpace ℝ (Fin d)` is the one the code computes in). -/
theorem sphere_contains_old (β R : ℝ) (c x y : V) (hβ : 0 ≤ β) (hR : 0 ≤ R) (hy : ‖y - c‖ ≤ R) :
    ‖y - newCentre β R c x‖ ≤ newRadius β R ‖x - c‖ :=
  new_sphere_contains_old β R c x y hβ hR hy

/-- With fast learning the new sphere contains the absorbed sample … -/
theorem sphere_contains_sample (R : ℝ) (c x : V) (hR : 0 ≤ R) :
    ‖x - newCentre 1 R c x‖ ≤ newRadius 1 R ‖x - c‖ :=
  new_sphere_contains_sample R c x hR

/-- … hence **a Hypersphere ART sphere contains all its members** (β = 1): the inductive step over
the stream of a category's members. -/
theorem sphere_contains_members (R : ℝ) (c x : V) (members : List V) (hR : 0 ≤ R)
    (h : ∀ m ∈ members, ‖m - c‖ ≤ R) :
    (∀ m ∈ x :: members, ‖m - newCentre 1 R c x‖ ≤ newRadius 1 R ‖x - c‖) ∧ 0 ≤ newRadius 1 R ‖x - c‖ :=
  ⟨sphere_contains_members_step R c x members hR h, newRadius_nonneg 1 R _ zero_le_one hR⟩

end Euclid

section Field
variable {α : Type} [Field α] [LinearOrder α] [IsStrictOrderedRing α]

/-! ### Gaussian / Bayesian ART: exact mean and count -/

/-- scalar running-moment fold: `(mean, n)` after absorbing the members one by one -/
def meanCountFold : List α → Option (α × α)
  | [] => none
  | m :: ms => some (ms.foldl (fun (p : α × α) x => ((1 - 1 / (p.2 + 1)) * p.1 + 1 / (p.2 + 1) * x, p.2 + 1)) (m, 1))

/-- **Exact mean and count**: the running update holds exactly `(Σ members / #members, #members)`. -/
theorem mean_count_exact (ms : List α) (m : α) :
    meanCountFold (m :: ms) = some ((m + ms.sum) / ((ms.length : α) + 1), (ms.length : α) + 1) := by
  simp only [meanCountFold, Option.some.injEq]
  have key : ∀ (ms : List α) (S n : α), 0 < n →
      ms.foldl (fun (p : α × α) x => ((1 - 1 / (p.2 + 1)) * p.1 + 1 / (p.2 + 1) * x, p.2 + 1)) (S / n, n)
        = ((S + ms.sum) / (n + ms.length), n + ms.length) := by
    intro ms
    induction ms with
    | nil => intro S n _; simp
    | cons x xs ih =>
      intro S n hn
      simp only [List.foldl_cons, List.sum_cons, List.length_cons, Nat.cast_add, Nat.cast_one]
      rw [running_mean_scalar n S x hn, ih (S + x) (n + 1) (by positivity)]
      congr 1 <;> ring
  have := key ms m 1 one_pos
  simp only [div_one] at this
  rw [this]
  congr 1 <;> ring

/-! ### Non-vacuity -/

example : meetAll [[(1:ℚ)/4, 1/2, 3/4, 1/2], [1/2, 1/4, 1/2, 3/4]] = some [1/4, 1/4, 1/2, 1/2] := by
  norm_num [meetAll, vmin]
example : meanCountFold [(1:ℚ), 2, 6] = some (3, 3) := by
  norm_num [meanCountFold]

end Field

end Art.C02
