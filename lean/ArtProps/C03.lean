/-
C03 — property theorems (stub; see DESIGN.md §6).
-/
import ArtModel.Basic

namespace Art.C03

end Art.C03
