/-
C03 — Kernel functions compute the published activation, match and learning rules.

`ArtModel/Kernels.lean` *is* the published equations, one definition per
equation; the correspondence (`kern` operations) ties each Python kernel
function to its definition on reachable and arbitrary well-formed weights.  The
theorems here pin the definitions to their published closed forms, give the
decision table of the binary match test, and prove the statements about the
derived geometry accessors (bounding box for any number of leading dimensions,
cluster centre, shrink_clusters).
-/
import ArtProofs.Kernels

namespace Art.C03

set_option linter.unusedSectionVars false

section Table
variable {α : Type} [LinearOrder α]

/-- The binary match test thresholds the match value against `rho` with the
operator of the selected mode: `≥` for MT+, MT−, MT1; `>` for MT0, MT~; with the
operands swapped for BayesianART (`inverted`). -/
theorem match_bin_table (rho m : α) :
    (passesScalar .plus false rho m = true ↔ m ≥ rho) ∧
    (passesScalar .minus false rho m = true ↔ m ≥ rho) ∧
    (passesScalar .one false rho m = true ↔ m ≥ rho) ∧
    (passesScalar .zero false rho m = true ↔ m > rho) ∧
    (passesScalar .tilde false rho m = true ↔ m > rho) ∧
    (passesScalar .plus true rho m = true ↔ rho ≥ m) ∧
    (passesScalar .minus true rho m = true ↔ rho ≥ m) ∧
    (passesScalar .one true rho m = true ↔ rho ≥ m) ∧
    (passesScalar .zero true rho m = true ↔ rho > m) ∧
    (passesScalar .tilde true rho m = true ↔ rho > m) := by
  simp [passesScalar, mtStrict]

end Table

section Field
variable {α : Type} [Field α] [LinearOrder α] [IsStrictOrderedRing α]

/-! ### Published closed forms (definitional) -/

/-- Fuzzy ART: `T = |x ∧ w| / (alpha + |w|)`, `M = |x ∧ w| / d`, `w' = beta (x ∧ w) + (1 − beta) w`. -/
theorem fuzzy_rules (alpha beta d : α) (x w : List α) :
    fuzzyChoice alpha x w = vsum (vmin x w) / (alpha + vsum w) ∧
    fuzzyMatch d x w = vsum (vmin x w) / d ∧
    fuzzyUpdate beta x w = vadd (smul beta (vmin x w)) (smul (1 - beta) w) :=
  ⟨rfl, rfl, rfl⟩

/-- ART1: template AND and bottom-up scaling `L / (L − 1 + |t'|) · t'`. -/
theorem art1_update_rule (L : α) (dim : Nat) (x w : List α) :
    art1Update L dim x w =
      smul (L / (L - 1 + vsum (band' x (w.drop dim)))) (band' x (w.drop dim)) ++ band' x (w.drop dim) := rfl

/-- the top-down half of an updated ART1 weight is the AND of sample and old template -/
theorem art1_template_and (L : α) (dim : Nat) (x w : List α) (hx : x.length = dim)
    (hw : w.length = 2 * dim) :
    (art1Update L dim x w).drop dim = band' x (w.drop dim) := by
  unfold art1Update
  have : (band' x (w.drop dim)).length = dim := by
    simp [band', hx, hw]; omega
  simp only
  rw [List.drop_append_of_le_length (by simp [smul, this])]
  simp [smul, this]

/-- ART2-A: dot-product choice; the match value is the activation unless it falls
below the uncommitted-node activation `alpha · Σx`, in which case it is −1. -/
theorem art2_match_suppressed (alpha : α) (x w : List α) :
    (dot x w < alpha * vsum x → art2Match alpha x w = -1) ∧
    (¬ dot x w < alpha * vsum x → art2Match alpha x w = dot x w) := by
  unfold art2Match
  constructor
  · intro h; simp [h]
  · intro h; simp [h]

/-! ### Bounding boxes, for any number of leading dimensions -/

/-- `get_bounding_box(w, n)`: for every requested `i < n ≤ d` the reference point is
`w[i]` and the width is `(1 − w[d+i]) − w[i]`, with `d = len(w)/2`. -/
theorem bounding_box_agrees (w : List α) (d n i : Nat) (hw : w.length = 2 * d) (hn : n ≤ d) (hi : i < n) :
    (fuzzyBBox w n).1[i]? = w[i]? ∧
    (fuzzyBBox w n).2[i]? = some ((1 - w[d + i]'(by omega)) - w[i]'(by omega)) := by
  have hd : w.length / 2 = d := by omega
  unfold fuzzyBBox
  simp only [hd]
  constructor
  · simp [List.getElem?_take, hi]
  · have h1 : i < (w.take n).length := by simp; omega
    have h2 : i < ((w.drop d).take n).length := by simp; omega
    rw [List.getElem?_zipWith]
    simp only [List.getElem?_take, hi, if_true, List.getElem?_drop]
    rw [List.getElem?_eq_getElem (by omega), List.getElem?_eq_getElem (by omega)]

/-! ### shrink_clusters: same centre, contained in the old box -/

/-- one coordinate of `shrink_clusters`: lower corner `u`, complemented upper
corner `vc = 1 − v`; both move by `ratio · width` with `width = (1 − vc) − u`. -/
theorem shrink_coordinate (u vc r : α) (hr0 : 0 ≤ r) (hr : r ≤ 1 / (1 + 1)) (hbox : u ≤ 1 - vc) :
    let width := (1 - vc) - u
    let u' := u + r * width
    let vc' := vc + r * width
    -- same centre
    (u' + (1 - vc')) / (1 + 1) = (u + (1 - vc)) / (1 + 1) ∧
    -- contained in the old box, and still a box
    u ≤ u' ∧ (1 - vc') ≤ (1 - vc) ∧ u' ≤ 1 - vc' := by
  intro width u' vc'
  have hw : 0 ≤ width := by simp only [width]; linarith
  have h2 : (1:α) / (1 + 1) * (1 + 1) = 1 := by norm_num
  refine ⟨by simp only [u', vc']; ring, ?_, ?_, ?_⟩
  · simp only [u']; nlinarith
  · simp only [vc']; nlinarith
  · simp only [u', vc', width]
    have : r * ((1 - vc) - u) ≤ 1 / (1 + 1) * ((1 - vc) - u) := by
      apply mul_le_mul_of_nonneg_right hr; linarith
    nlinarith

/-! ### Hypersphere update: inside ⇒ unchanged; outside ⇒ `R' = R + beta/2 (dist − R)` -/

theorem sphere_update_cases (β R dist : α) :
    (dist ≤ R → R + β / (1 + 1) * (max R dist - R) = R) ∧
    (R ≤ dist → R + β / (1 + 1) * (max R dist - R) = R + β / (1 + 1) * (dist - R)) ∧
    (0 < dist → dist ≤ R → (1 - min R dist / dist) = 0) := by
  refine ⟨?_, ?_, ?_⟩
  · intro h; rw [max_eq_left h]; ring
  · intro h; rw [max_eq_right h]
  · intro hd h; rw [min_eq_right h, div_self (ne_of_gt hd)]; ring

/-- Gaussian / Bayesian ART mean update is the running mean -/
theorem gaussian_update_is_running_mean (n S x : α) (hn : 0 < n) :
    (1 - 1 / (n + 1)) * (S / n) + 1 / (n + 1) * x = (S + x) / (n + 1) :=
  running_mean_scalar n S x hn

end Field

/-! Non-vacuity over ℚ: the repaired bounding box of `w = [1/4, 1/2, 3/8, 1/8]`
(box `[1/4, 5/8] × [1/2, 7/8]`) for one leading dimension has width `3/8`. -/
example : fuzzyBBox [(1:ℚ)/4, 1/2, 3/8, 1/8] 1 = ([1/4], [3/8]) := by
  norm_num [fuzzyBBox]
example : fuzzyShrink ((1:ℚ)/4) [0, 0, 0, 0] = [1/4, 1/4, 1/4, 1/4] := by
  norm_num [fuzzyShrink, smul, vadd]

end Art.C03
