/-
C16 — property theorems (stub; see DESIGN.md §6).
-/
import ArtModel.Basic

namespace Art.C16

end Art.C16
