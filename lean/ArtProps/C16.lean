/-
C16 — FALCON / TD-FALCON.

Model: `ArtModel/Falcon.lean` on top of `ArtModel/Fusion.lean` with the channels
state | action | reward.  Proved for every ordered field, every channel layout and
trained weight list:
  * `falcon_fit_is_fusion_fit` — training is FusionART training on the joined rows;
  * `get_rewards_is_centre` — `get_rewards` = reward-channel centre of the category chosen
    with the reward channel withheld (which reads only the state and action columns);
  * `get_action_greedy` — `get_action` returns the member of the action space at the first
    arg-max (arg-min on request) of the predicted scalar reward;
  * `sarsa_target_formula`, `sarsa_target_count`, `sarsa_untrained`, `sarsa_single_transition`,
    `sarsa_target_valid` — TD-FALCON's learning targets.
Standing assumptions (named in the statements): the reward centre is one number (reward
channel = one complement-coded scalar; for wider reward channels `np.argmax` runs over the
flattened array and the flat index is used for the action space — outside the theorem);
"`r` alone before any training" is read as `Q ≡ 0` in the formula, so the untrained target is
`clip(td_alpha · r)` (which is `r` for the default `td_alpha = 1`).
-/
import ArtProofs.Falcon

namespace Art.C16
open Art Art.Fusion Art.Falcon

set_option linter.unusedSectionVars false

section Core
variable {α : Type} [Field α] [LinearOrder α] [IsStrictOrderedRing α]

/-- **FALCON training is FusionART training on the joined state|action|reward rows**
(`fit` and `partial_fit`), and the joined row is what `join_channel_data` builds. -/
theorem falcon_fit_is_fusion_fit {θ : Type} (chans : List (Chan α)) (cfg : SearchCfg (List α) θ) (th0 : θ)
    (st : ArtState (List α)) (S A R : List (List α)) :
    falconFit chans cfg th0 st S A R = fit (fusionKernel chans) cfg th0 noVeto st (falconRows S A R) ∧
    falconPartialFit chans cfg th0 st S A R =
      partialFit (fusionKernel chans) cfg th0 noVeto st (falconRows S A R) ∧
    ∀ (w0 w1 w2 : Nat) (s a r : List α),
      joinRow [w0, w1, w2] noSkip (half : α) [s, a, r] = some (falconRow s a r) := by
  refine ⟨rfl, rfl, ?_⟩
  intro w0 w1 w2 s a r
  simp [joinRow, joinFrom, noSkip, falconRow]

/-- TD-FALCON's `partial_fit` is FusionART `partial_fit` on the joined SARSA rows -/
theorem td_partial_fit_is_fusion_fit {θ : Type} (chans : List (Chan α)) (cfg : SearchCfg (List α) θ) (th0 : θ)
    (centreR : List α → List α) (al la : α) (trained : Bool) (st : ArtState (List α))
    (S A R : List (List α)) (ssr : Option α) :
    tdPartialFit chans cfg th0 centreR al la trained st S A R ssr =
      partialFit (fusionKernel chans) cfg th0 noVeto st
        (falconRows (calcSarsa al la trained (qValue chans centreR st.W) S A R ssr).1
          (calcSarsa al la trained (qValue chans centreR st.W) S A R ssr).2.1
          (calcSarsa al la trained (qValue chans centreR st.W) S A R ssr).2.2) := rfl

/-- **`get_rewards`** returns the reward-channel centre of the category selected with the
reward channel withheld; that category does not depend on what stands in the reward columns
of the query (the code writes `0.5` there). -/
theorem get_rewards_is_centre (chans : List (Chan α)) (centreR : List α → List α) (W : List (List α))
    (s a : List α) :
    getReward chans centreR W s a =
      (rewardCategory chans W s a).bind (fun c => (W[c]?).map (fun w => centreR (slice (wlens chans) 2 w))) ∧
    ∀ x' : List α,
      (∀ k, skipReward k = false → slice (widths chans) k (queryRow chans s a) = slice (widths chans) k x') →
      rewardCategory chans W s a = stepPredSkip chans skipReward W x' :=
  ⟨getReward_eq chans centreR W s a,
   fun x' h => stepPredSkip_indep chans skipReward W (queryRow chans s a) x' h⟩

/-- … and that category is the first arg-max of the state and action channels' gamma-weighted
activations (C11) -/
theorem get_rewards_category (chans : List (Chan α)) (W : List (List α)) (s a : List α) :
    rewardCategory chans W s a =
      argmaxNp (W.map (restChoice chans skipReward W (queryRow chans s a))) :=
  stepPredSkip_eq_rest chans skipReward W (queryRow chans s a)

/-- **`get_action` is greedy, first on ties.**  `vs` = the predicted scalar rewards of the
members of the action space (supplied, or the action-channel centres).  The action returned is
the member at the first index of the maximal (minimal, for `optimality="min"`) reward. -/
theorem get_action_greedy (chans : List (Chan α)) (centreA centreR prepA : List α → List α)
    (W : List (List α)) (state : List α) (space : Option (List (List α))) (vs : List α)
    (hvs : actionRewards chans centreA centreR prepA W state space = vs.map (fun v => some [v]))
    (a : List α) :
    (getAction chans centreA centreR prepA W state space true = some a →
      ∃ i v, (actionSpace chans centreA W space)[i]? = some a ∧ IsFirstMax (vs.map some) i v) ∧
    (getAction chans centreA centreR prepA W state space false = some a →
      ∃ i v, (actionSpace chans centreA W space)[i]? = some a ∧ IsFirstMin vs i v) := by
  constructor
  · intro h
    rw [getAction_scalar chans centreA centreR prepA W state space true vs hvs] at h
    simp only [if_true] at h
    cases hi : argmaxFirst vs with
    | none => simp [hi] at h
    | some i =>
      obtain ⟨v, hv⟩ := argmaxFirst_first hi
      exact ⟨i, v, by simpa [hi] using h, hv⟩
  · intro h
    rw [getAction_scalar chans centreA centreR prepA W state space false vs hvs] at h
    simp only [Bool.false_eq_true, if_false] at h
    cases hi : argminFirst vs with
    | none => simp [hi] at h
    | some i =>
      obtain ⟨v, hv⟩ := argminFirst_first hi
      exact ⟨i, v, by simpa [hi] using h, hv⟩

/-- a non-empty action space with scalar rewards always yields an action -/
theorem get_action_defined (chans : List (Chan α)) (centreA centreR prepA : List α → List α)
    (W : List (List α)) (state : List α) (space : Option (List (List α))) (maximize : Bool) (vs : List α)
    (hvs : actionRewards chans centreA centreR prepA W state space = vs.map (fun v => some [v]))
    (hne : vs ≠ []) :
    (getAction chans centreA centreR prepA W state space maximize).isSome := by
  rw [getAction_scalar chans centreA centreR prepA W state space maximize vs hvs]
  have hlen : (actionSpace chans centreA W space).length = vs.length := by
    have := congrArg List.length hvs
    simpa [actionRewards] using this
  cases maximize with
  | true =>
    simp only [if_true]
    cases hi : argmaxFirst vs with
    | none =>
      have := nanargmax_eq_none_iff.mp hi
      cases vs with
      | nil => exact absurd rfl hne
      | cons v vs => simpa using this (some v) (by simp)
    | some i =>
      have hlt : i < vs.length := by simpa using nanargmax_lt_length hi
      simp [List.getElem?_eq_getElem (hlen ▸ hlt)]
  | false =>
    simp only [Bool.false_eq_true, if_false]
    cases hi : argminFirst vs with
    | none =>
      simp only [argminFirst, Option.map_eq_none_iff] at hi
      exact absurd (argminV_nil_iff.mp hi) hne
    | some i =>
      obtain ⟨v, hv⟩ := argminFirst_first hi
      have hlt : i < vs.length := (List.getElem?_eq_some_iff.mp hv.at_k).1
      simp [List.getElem?_eq_getElem (hlen ▸ hlt)]

/-- **SARSA targets.**  For an episode of `n > 1` transitions, the `i`-th learning target
(`i + 1 < n`) is the complement code of
`clip(Q_i + td_alpha·(r_i + td_lambda·Q_{i+1} − Q_i), 0, 1)`, where `r_i` is the de-complemented
reward, `Q_i = Q(s_i, a_i)` from the current model when it is trained and `0` otherwise; the
states and actions kept are all but the last. -/
theorem sarsa_target_formula (al la : α) (trained : Bool) (Q : List α → List α → α)
    (S A R : List (List α)) (ssr : Option α) (hn : 1 < S.length) (hA : A.length = S.length)
    (hR : R.length = S.length) (i : Nat) (hi : i + 1 < S.length) :
    let Qs := if trained then List.zipWith Q S A else (R.map deccScalar).map (fun _ => (0 : α))
    (calcSarsa al la trained Q S A R ssr).1 = S.dropLast ∧
    (calcSarsa al la trained Q S A R ssr).2.1 = A.dropLast ∧
    (calcSarsa al la trained Q S A R ssr).2.2[i]? =
      some (ccScalar (clip01 (Qs.getD i 0 + al * (deccScalar (R.getD i []) + la * Qs.getD (i + 1) 0 - Qs.getD i 0)))) := by
  intro Qs
  have hQl : Qs.length = S.length := by
    simp only [Qs]; split <;> simp [hA, hR]
  simp only [calcSarsa, hn, if_true, true_and]
  rw [List.getElem?_map]
  have := sarsaList_getElem? al la Qs (R.map deccScalar) i (by omega) (by simp; omega)
  simp only [Qs] at this ⊢
  rw [this]
  simp only [Option.map_some, sarsaScalar, Option.some.injEq]
  congr 3
  have hiR : i < R.length := by omega
  simp [List.getD_eq_getElem?_getD, List.getElem?_map, List.getElem?_eq_getElem hiR]

/-- one target for every transition but the last -/
theorem sarsa_target_count (al la : α) (trained : Bool) (Q : List α → List α → α)
    (S A R : List (List α)) (ssr : Option α) (hn : 1 < S.length) (hA : A.length = S.length)
    (hR : R.length = S.length) :
    (calcSarsa al la trained Q S A R ssr).2.2.length = S.length - 1 := by
  simp only [calcSarsa, hn, if_true, List.length_map, sarsaList_length]
  split <;> simp [hA, hR]

/-- before any training (`Q ≡ 0`) the target is `clip(td_alpha · r)` — `r` itself for `td_alpha = 1` -/
theorem sarsa_untrained (al la r : α) :
    sarsaScalar al la 0 r 0 = clip01 (al * r) ∧ (0 ≤ r → r ≤ 1 → sarsaScalar 1 la 0 r 0 = r) := by
  constructor
  · unfold sarsaScalar; congr 1; ring
  · intro h0 h1
    unfold sarsaScalar
    rw [show (0 : α) + 1 * (r + la * 0 - 0) = r by ring]
    exact clip01_of_mem r h0 h1

/-- **A single-transition episode yields `r`**: the supplied reward row unchanged (or the
complement code of `single_sample_reward`), states and actions unchanged. -/
theorem sarsa_single_transition (al la : α) (trained : Bool) (Q : List α → List α → α)
    (s a r : List α) (v : α) :
    calcSarsa al la trained Q [s] [a] [r] none = ([s], [a], [r]) ∧
    calcSarsa al la trained Q [s] [a] [r] (some v) = ([s], [a], [ccScalar v]) := by
  simp [calcSarsa]

/-- **Targets are valid reward-channel inputs**: every SARSA target lies in `[0,1]`, its row is
`[t, 1 − t]` (sums to 1) and passes the reward module's validator (any tolerance `≥ 0`; the code
uses `0.01`). -/
theorem sarsa_target_valid (tol al la : α) (htol : 0 ≤ tol) (trained : Bool) (Q : List α → List α → α)
    (S A R : List (List α)) (ssr : Option α) (hn : 1 < S.length) :
    ∀ row ∈ (calcSarsa al la trained Q S A R ssr).2.2,
      validRewardRow tol row = true ∧ ∃ t, 0 ≤ t ∧ t ≤ 1 ∧ row = [t, 1 - t] := by
  intro row hrow
  simp only [calcSarsa, hn, if_true, List.mem_map] at hrow
  obtain ⟨t, ht, rfl⟩ := hrow
  have hmem : ∀ Qs rs : List α, ∀ t ∈ sarsaList al la Qs rs, 0 ≤ t ∧ t ≤ 1 := by
    intro Qs rs
    induction rs generalizing Qs with
    | nil =>
      match Qs with
      | [] => simp [sarsaList]
      | [_] => simp [sarsaList]
      | _ :: _ :: _ => simp [sarsaList]
    | cons r rs ih =>
      match Qs with
      | [] => simp [sarsaList]
      | [_] => simp [sarsaList]
      | q :: q' :: Qs =>
        intro t ht
        simp only [sarsaList, List.mem_cons] at ht
        rcases ht with rfl | ht
        · exact clip01_mem _
        · exact ih (q' :: Qs) t ht
  obtain ⟨h0, h1⟩ := hmem _ _ t ht
  exact ⟨validRewardRow_cc tol t htol h0 h1, t, h0, h1, rfl⟩

/-- the single-transition target with `single_sample_reward ∈ [0,1]` is valid too -/
theorem sarsa_single_valid (tol v : α) (htol : 0 ≤ tol) (h0 : 0 ≤ v) (h1 : v ≤ 1) :
    validRewardRow tol (ccScalar v) = true := validRewardRow_cc tol v htol h0 h1

end Core

/-! ### Non-vacuity (ℚ; Fuzzy channels, alpha = 1/4, beta = 1, rho = 3/4 each; identity bounds) -/
private def ch : List (Chan Rat) :=
  [⟨fuzzyKernel (1/4) 1 1, 2, 1/4, 2⟩, ⟨fuzzyKernel (1/4) 1 1, 2, 1/4, 2⟩, ⟨fuzzyKernel (1/4) 1 1, 2, 1/2, 2⟩]
private def cfgQ : SearchCfg (List Rat) (List Rat) := fusionCfg .plus (· + 0) (· - 0) 0
private def ccQ (v : List Rat) : List Rat := v ++ vcompl v
private def S0 : List (List Rat) := [[0, 1], [1, 0], [0, 1]]
private def A0 : List (List Rat) := [[0, 1], [0, 1], [1, 0]]
private def R0 : List (List Rat) := [[1/4, 3/4], [1, 0], [1/2, 1/2]]
private def st0 := falconFit ch cfgQ [3/4, 3/4, 3/4] {} S0 A0 R0

example : st0.labels = [0, 1, 2] := by decide +kernel
-- rewards of the three training pairs are the reward centres of their categories
example : getRewards ch fuzzyCentre st0.W S0 A0 = [some [1/4], some [1], some [1/2]] := by decide +kernel
-- greedy action in state [0,1] over the action space {0, 1}: action 1 pays 1/2 > 1/4
example : getAction ch fuzzyCentre fuzzyCentre ccQ st0.W [0, 1] (some [[0], [1]]) true = some [1] := by decide +kernel
example : getAction ch fuzzyCentre fuzzyCentre ccQ st0.W [0, 1] (some [[0], [1]]) false = some [0] := by decide +kernel
-- ties go to the first member
example : getAction ch fuzzyCentre fuzzyCentre ccQ st0.W [0, 1] (some [[1], [1], [0]]) true = some [1] := by decide +kernel
-- default action space = action-channel centres of the three categories
example : getAction ch fuzzyCentre fuzzyCentre ccQ st0.W [1, 0] none true = some [0] := by decide +kernel
-- SARSA on the same episode with the trained model, td_alpha = 1/2, td_lambda = 1/2:
-- Q = [1/4, 1, 1/2], r = [1/4, 1, 1/2]; t0 = 1/4 + 1/2 (1/4 + 1/2 - 1/4) = 1/2, t1 = 1 + 1/2 (1 + 1/4 - 1) = 9/8 -> 1
example : calcSarsa (1/2) (1/2) true (qValue ch fuzzyCentre st0.W) S0 A0 R0 none =
    ([[0, 1], [1, 0]], [[0, 1], [0, 1]], [[1/2, 1/2], [1, 0]]) := by decide +kernel
-- untrained: clip(alpha * r)
example : (calcSarsa (1/2 : Rat) 1 false (fun _ _ => 0) S0 A0 R0 none).2.2 = [[1/8, 7/8], [1/2, 1/2]] := by
  decide +kernel

end Art.C16
