/-
C20 — property theorems (stub; see DESIGN.md §6).
-/
import ArtModel.Basic

namespace Art.C20

end Art.C20
