/-
C20 — VAT: the returned index vector is a permutation of all samples that starts
at an endpoint of a largest dissimilarity and then repeatedly appends an
unvisited sample closest to the visited set; the returned matrix is the input
re-ordered by that permutation (hence symmetric with zero diagonal when the
input is).

Property theorems only; helper lemmas live in `ArtProofs.VAT`, the model in
`ArtModel.VAT`, namespace `Art.VAT` (`vat D = (indices, D[np.ix_(indices, indices)])`).
All statements hold for every linearly ordered entry type, every `n`
(`n ≥ 1` where a first index is mentioned) and every `n × n` matrix `D`
(symmetric or not, with or without ties / duplicates).  `ent D i j : Option α`
is `D[i][j]` (`some` exactly on the positions of `D`), so
`∀ i' j' u, ent D i' j' = some u → …` ranges over all entries of `D`.
-/
import Mathlib.Data.Nat.Basic
import ArtProofs.VAT

namespace Art.C20
open Art.VAT

variable {α : Type} [LinearOrder α] {n : Nat} {D : List (List α)}

omit [LinearOrder α] in
/-- On an `n × n` matrix every position `(i, j)` with `i, j < n` holds an entry:
the `ent … = some …` premises/conclusions below are never vacuous. -/
theorem entries_defined (hsq : Square n D) {i j : Nat} (hi : i < n) (hj : j < n) :
    ∃ v, ent D i j = some v :=
  Option.isSome_iff_exists.mp (ent_isSome_of_square hsq hi hj)

/-- The returned indices are a permutation of all samples `0 … n-1`
(every sample exactly once) — for every `n`, including `0` and `1`. -/
theorem vat_perm (hsq : Square n D) : (vat D).1.Perm (List.range n) :=
  vatOrder_perm hsq

/-- The first index is an endpoint of a largest dissimilarity: its row holds an
entry `v = D[i0][j]` that dominates every entry of `D`. -/
theorem vat_seed_is_max_endpoint (hsq : Square n D) (hn : 1 ≤ n) :
    ∃ i0 j v, (vat D).1[0]? = some i0 ∧ ent D i0 j = some v ∧
      ∀ i' j' u, ent D i' j' = some u → u ≤ v := by
  obtain ⟨ix, h0, j, v, hv, hge, _⟩ := (vatOrder_spec hsq hn).2.1
  exact ⟨ix, j, v, h0, hv, hge⟩

/-- Tie rule of the seed (numpy's first `argmax` in row-major order): every row
before the seed row lies strictly below the maximum. -/
theorem vat_seed_first_max_row (hsq : Square n D) (hn : 1 ≤ n) :
    ∃ i0 j v, (vat D).1[0]? = some i0 ∧ ent D i0 j = some v ∧
      ∀ i' j' u, i' < i0 → ent D i' j' = some u → u < v := by
  obtain ⟨ix, h0, j, v, hv, _, hgt⟩ := (vatOrder_spec hsq hn).2.1
  exact ⟨ix, j, v, h0, hv, hgt⟩

/-- Every later position `k` (for every prefix of the order): the appended index
`nxt` is unvisited, and it is closest to the visited set among all unvisited
samples — some visited `i` has `D[i][nxt] ≤ D[i'][j']` for all visited `i'` and
unvisited `j'`. -/
theorem vat_prim_step (hsq : Square n D) (k : Nat) (hk : 1 ≤ k) (hkn : k < n) :
    ∃ nxt, (vat D).1[k]? = some nxt ∧ nxt ∉ (vat D).1.take k ∧ nxt < n ∧
      ∃ i ∈ (vat D).1.take k, ∃ v, ent D i nxt = some v ∧
        ∀ i' ∈ (vat D).1.take k, ∀ j', j' < n → j' ∉ (vat D).1.take k →
          ∀ u, ent D i' j' = some u → v ≤ u := by
  obtain ⟨nxt, hnxt, hnot, hlt, r, i, v, hr, hv, hmin, _, _⟩ :=
    (vatOrder_spec hsq (by omega)).2.2 k hk hkn
  exact ⟨nxt, hnxt, hnot, hlt, i, List.mem_of_getElem? hr, v, hv, hmin⟩

/-- Tie rule of a step (numpy's first `argmin` of `D[np.ix_(visited, remaining)]` in
row-major order, `remaining` ascending) — together with `vat_prim_step` this pins the
appended sample down uniquely, also among equidistant / duplicate points:
`v = D[i][nxt]` is the minimal visited–unvisited distance, `i = idx[r]` is the
*earliest visited* sample that attains it (every sample visited before `i` is strictly
farther than `v` from all unvisited ones) and `nxt` is the *lowest-numbered* unvisited
sample at distance `v` from `i`. -/
theorem vat_prim_step_first_min (hsq : Square n D) (k : Nat) (hk : 1 ≤ k) (hkn : k < n) :
    ∃ nxt r i v, (vat D).1[k]? = some nxt ∧ r < k ∧ (vat D).1[r]? = some i ∧
      ent D i nxt = some v ∧
      (∀ i' ∈ (vat D).1.take k, ∀ j', j' < n → j' ∉ (vat D).1.take k →
        ∀ u, ent D i' j' = some u → v ≤ u) ∧
      (∀ (r' i' : Nat), r' < r → (vat D).1[r']? = some i' → ∀ j', j' < n →
        j' ∉ (vat D).1.take k → ∀ u, ent D i' j' = some u → v < u) ∧
      (∀ j', j' < nxt → j' ∉ (vat D).1.take k → ∀ u, ent D i j' = some u → v < u) := by
  obtain ⟨nxt, hnxt, _, _, r, i, v, hr, hv, hmin, hrow, hcol⟩ :=
    (vatOrder_spec hsq (by omega)).2.2 k hk hkn
  have hrk : r < k := by
    have := (List.getElem?_eq_some_iff.mp hr).1
    simp only [List.length_take] at this
    omega
  refine ⟨nxt, r, i, v, hnxt, hrk, ?_, hv, hmin, ?_, hcol⟩
  · rw [List.getElem?_take_of_lt hrk] at hr; exact hr
  · intro r' i' hr' hi'
    exact hrow r' i' hr' (by rw [List.getElem?_take_of_lt (by omega)]; exact hi')

/-- The returned matrix is `n × n` and is exactly the input re-ordered by the
returned permutation: `out[a][b] = D[idx[a]][idx[b]]`. -/
theorem vat_matrix_reordered (hsq : Square n D) :
    Square n (vat D).2 ∧
    ∀ a b, a < n → b < n → ∃ ia ib, (vat D).1[a]? = some ia ∧ (vat D).1[b]? = some ib ∧
      ent (vat D).2 a b = ent D ia ib := by
  have hp := vatOrder_perm hsq
  have hlen : (vatOrder D).length = n := by simpa using hp.length_eq
  have hb : ∀ i ∈ vatOrder D, i < n := fun i hi => List.mem_range.mp (hp.mem_iff.mp hi)
  refine ⟨ixSub_square hsq hlen hb, fun a b ha hb' => ?_⟩
  have ha' : a < (vatOrder D).length := hlen ▸ ha
  have hb'' : b < (vatOrder D).length := hlen ▸ hb'
  refine ⟨(vatOrder D)[a], (vatOrder D)[b], List.getElem?_eq_getElem ha',
    List.getElem?_eq_getElem hb'', ?_⟩
  show ent (ixSub D (vatOrder D) (vatOrder D)) a b = _
  rw [ent_ixSub hsq hb hb, List.getElem?_eq_getElem ha', List.getElem?_eq_getElem hb'']
  rfl

/-- Symmetric input with constant diagonal `z` (`z = 0` for a metric) gives a
symmetric output with the same constant diagonal. -/
theorem vat_symmetric_zero_diag (hsq : Square n D) (z : α)
    (hsym : ∀ i, i < n → ∀ j, j < n → ent D i j = ent D j i)
    (hdiag : ∀ i, i < n → ent D i i = some z) :
    (∀ a b, ent (vat D).2 a b = ent (vat D).2 b a) ∧ ∀ a, a < n → ent (vat D).2 a a = some z := by
  have hp := vatOrder_perm hsq
  have hlen : (vatOrder D).length = n := by simpa using hp.length_eq
  have hb : ∀ i ∈ vatOrder D, i < n := fun i hi => List.mem_range.mp (hp.mem_iff.mp hi)
  have key : ∀ a b, ent (vat D).2 a b =
      ((vatOrder D)[a]?).bind (fun i => ((vatOrder D)[b]?).bind (fun j => ent D i j)) :=
    fun a b => ent_ixSub hsq hb hb a b
  constructor
  · intro a b
    rw [key, key]
    cases ha : (vatOrder D)[a]? with
    | none => cases (vatOrder D)[b]? <;> simp
    | some i =>
      cases hb' : (vatOrder D)[b]? with
      | none => simp
      | some j =>
        simp only [Option.bind_some]
        exact hsym i (hb i (List.mem_of_getElem? ha)) j (hb j (List.mem_of_getElem? hb'))
  · intro a ha
    have ha' : a < (vatOrder D).length := hlen ▸ ha
    rw [key, List.getElem?_eq_getElem ha']
    exact hdiag _ (hb _ (List.getElem_mem ha'))

/-! ### non-vacuity: concrete matrices with ties -/

/-- symmetric, zero diagonal; the maximum 9 occurs at (0,1),(1,0),(1,3),(3,1); in the
second step the minimum 4 of `D[[0,2] × [1,3]] = [[9,4],[4,7]]` is tied between
(0,1) and (1,0) — row-major order picks column 1, i.e. sample 3. -/
def M : List (List Nat) := [[0, 9, 1, 4], [9, 0, 4, 9], [1, 4, 0, 7], [4, 9, 7, 0]]

example : Square 4 M := by decide

example : vat M = ([0, 2, 3, 1], [[0, 1, 4, 9], [1, 0, 7, 4], [4, 7, 0, 9], [9, 4, 9, 0]]) := by
  decide

/-- the hypotheses of `vat_symmetric_zero_diag` hold for `M` … -/
example : (∀ i, i < 4 → ∀ j, j < 4 → ent M i j = ent M j i) ∧ ∀ i, i < 4 → ent M i i = some 0 := by
  decide

/-- … and so does its conclusion on the concrete output -/
example : (∀ a, a < 4 → ∀ b, b < 4 → ent (vat M).2 a b = ent (vat M).2 b a) ∧
    ∀ a, a < 4 → ent (vat M).2 a a = some 0 := by
  decide

/-- the general theorems instantiated on `M` (hypotheses are satisfiable for `n = 4 ≥ 2`) -/
example := vat_prim_step (D := M) (n := 4) (by decide) 2 (by omega) (by omega)
example := vat_seed_is_max_endpoint (D := M) (n := 4) (by decide) (by omega)

/-- not symmetric; the first maximum in row-major order is in row 2 (not row 0), the
all-equal remainder makes every later step a tie (first remaining column wins). -/
def N : List (List Nat) := [[0, 3, 3, 3], [3, 0, 3, 3], [3, 7, 0, 7], [3, 3, 3, 0]]

example : Square 4 N := by decide

example : vat N = ([2, 0, 1, 3], [[0, 3, 7, 7], [3, 0, 3, 3], [3, 3, 0, 3], [3, 3, 3, 0]]) := by
  decide

/-- duplicates (samples 0 and 2 coincide: distance 0 off the diagonal) -/
example : (vat [[0, 5, 0], [5, 0, 5], [0, 5, 0]]).1 = [0, 2, 1] := by decide

/-- `n = 1` and `n = 0` -/
example : vat [[(0 : Nat)]] = ([0], [[0]]) := by decide
example : vat ([] : List (List Nat)) = ([], []) := by decide

end Art.C20
