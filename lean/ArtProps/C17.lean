/-
C17 — BARTMAP checkerboard.

"After BARTMAP.fit on any data matrix, rows_ and columns_ have one row per
(row-cluster, column-cluster) pair and widths equal to the numbers of matrix
rows and columns respectively, and every matrix cell belongs to exactly one
bicluster.  Bicluster membership agrees with row_labels_ and column_labels_, and
the column clustering equals what the column module alone produces on the
transposed matrix."

Property theorems only; helper lemmas live in ArtProofs.Bartmap.  The model is
`ArtModel/Bartmap.lean`; the Pearson-correlation reset function is an oracle
parameter `veto`, so every theorem holds for *every* answer pattern of that
test.  Outside the theorems (typed model cannot raise): the real test raises on
non-square matrices and on column clusters of width 1 (finding F13, recorded by
the check as C17-a / C17-b); whenever `fit` returns, the statements below apply.
-/
import ArtProofs.Bartmap

namespace Art.C17
open Art.Bartmap

/-- **Shapes.**  `rows_` and `columns_` have one row per (row-cluster,
column-cluster) pair; every row of `rows_` is as wide as the number of matrix
rows (= number of row labels), every row of `columns_` as wide as the number of
matrix columns. -/
theorem bartmap_shapes (na nb : Nat) (rowLabels colLabels : List Nat) :
    (rowsOf na nb rowLabels).length = na * nb ∧
    (columnsOf na nb colLabels).length = na * nb ∧
    (∀ r ∈ rowsOf na nb rowLabels, r.length = rowLabels.length) ∧
    (∀ c ∈ columnsOf na nb colLabels, c.length = colLabels.length) := by
  refine ⟨rowsOf_length na nb rowLabels, columnsOf_length na nb colLabels, ?_, ?_⟩
  · intro r hr
    rw [rowsOf_eq] at hr
    simp only [List.mem_map] at hr
    obtain ⟨k, _, rfl⟩ := hr
    simp
  · intro c hc
    rw [columnsOf_eq] at hc
    simp only [List.mem_map] at hc
    obtain ⟨k, _, rfl⟩ := hc
    simp

/-- **Membership agrees with the labels.**  Bicluster `(a, b)` sits at index
`a·nb + b`; matrix row `i` is in it iff `row_labels_[i] = a`, matrix column `j`
iff `column_labels_[j] = b` (indices outside the matrix are in no bicluster). -/
theorem bartmap_membership_agrees (na nb : Nat) (rowLabels colLabels : List Nat)
    (a b : Nat) (ha : a < na) (hb : b < nb) :
    (∀ i, memberAt (rowsOf na nb rowLabels) (a * nb + b) i = true ↔ rowLabels[i]? = some a) ∧
    (∀ j, memberAt (columnsOf na nb colLabels) (a * nb + b) j = true ↔ colLabels[j]? = some b) := by
  obtain ⟨h1, h2, h3⟩ := pair_index ha hb
  constructor
  · intro i; simp [memberAt_rowsOf, h1, h2]
  · intro j; simp [memberAt_columnsOf, h1, h3]

/-- **Partition.**  If every row label is below the number of row clusters and
every column label below the number of column clusters (C05, discharged for the
fitted model in `bartmap_fit_partition`), every matrix cell `(i, j)` lies in
exactly one bicluster: the one at index `row_labels_[i]·nb + column_labels_[j]`. -/
theorem bartmap_partition (na nb : Nat) (rowLabels colLabels : List Nat)
    (hr : ∀ l ∈ rowLabels, l < na) (hc : ∀ l ∈ colLabels, l < nb)
    (i j : Nat) (hi : i < rowLabels.length) (hj : j < colLabels.length) :
    cellBiclusters (rowsOf na nb rowLabels) (columnsOf na nb colLabels) i j =
      [rowLabels[i] * nb + colLabels[j]] := by
  have ha := hr _ (List.getElem_mem hi)
  have hb := hc _ (List.getElem_mem hj)
  obtain ⟨h1, h2, h3⟩ := pair_index ha hb
  unfold cellBiclusters
  rw [rowsOf_length]
  apply filter_range_unique _ _ _ h1
  intro k hk
  simp only [memberAt_rowsOf, memberAt_columnsOf, hk, decide_true, Bool.true_and,
    Bool.and_eq_true, decide_eq_true_eq, List.getElem?_eq_getElem hi, List.getElem?_eq_getElem hj,
    Option.some.injEq]
  obtain ⟨_, _, d3⟩ := pair_decode hk
  constructor
  · rintro ⟨e1, e2⟩; rw [e1, e2]; exact d3
  · intro e; subst e; exact ⟨h2.symm, h3.symm⟩

/-- The range hypothesis of `bartmap_partition` is needed: a row whose label is
not below `na` belongs to no bicluster at all. -/
theorem bartmap_partition_needs_range (na nb : Nat) (rowLabels colLabels : List Nat)
    (i j : Nat) (hi : i < rowLabels.length) (hbad : na ≤ rowLabels[i]) :
    cellBiclusters (rowsOf na nb rowLabels) (columnsOf na nb colLabels) i j = [] := by
  unfold cellBiclusters
  rw [rowsOf_length]
  apply filter_range_none
  intro k hk
  obtain ⟨d1, _, _⟩ := pair_decode hk
  have : ¬ rowLabels[i] = k / nb := by omega
  simp [memberAt_rowsOf, hk, List.getElem?_eq_getElem hi, this]

section
variable {Xa Wa Xb Wb α μa θa β μb θb : Type} [LinearOrder α] [LinearOrder β]

/-- **The column clustering is the column module alone.**  The `module_b` part
of the fitted BARTMAP is `fit` of the column kernel, without any reset function,
on the (prepared) transposed matrix — whatever the row side, `eta` or the veto
do, and whatever state the module was in before.  This is *definitional* in the
model (`rfl`): `bartmapFit` trains the column module first and never touches it
again, exactly as `BARTMAP.fit` does; that the code really does so is what the
correspondence check ties down (fresh copy of the column module fitted alone). -/
theorem bartmap_columns_alone (Ka : Kernel Xa Wa α μa) (cfga : SearchCfg μa θa) (tha : θa)
    (Kb : Kernel Xb Wb β μb) (cfgb : SearchCfg μb θb) (thb : θb)
    (veto : Xa → Nat → Bool) (rowsX : List Xa) (colsX : List Xb) (s0 : ArtState Wb) :
    (bartmapFit Ka cfga tha Kb cfgb thb veto rowsX colsX).b = fit Kb cfgb thb noVeto s0 colsX ∧
    (bartmapFit Ka cfga tha Kb cfgb thb veto rowsX colsX).cols =
      columnsOf (bartmapFit Ka cfga tha Kb cfgb thb veto rowsX colsX).a.W.length
        (fit Kb cfgb thb noVeto s0 colsX).W.length (fit Kb cfgb thb noVeto s0 colsX).labels :=
  ⟨rfl, rfl⟩

/-- **The row clustering is the generic search under the correlation veto.**
The `module_a` part is the generic training fold (`fit` = fold of `stepFit`,
ArtModel.Search) with the veto as reset function, so the C01 theorems apply to
every row step and the C05 label invariant holds: one label per matrix row,
every label below the number of row categories, at most one category per row. -/
theorem bartmap_rows_are_generic_search (Ka : Kernel Xa Wa α μa) (cfga : SearchCfg μa θa)
    (tha : θa) (Kb : Kernel Xb Wb β μb) (cfgb : SearchCfg μb θb) (thb : θb)
    (veto : Xa → Nat → Bool) (rowsX : List Xa) (colsX : List Xb) (s0 : ArtState Wa) :
    let r := bartmapFit Ka cfga tha Kb cfgb thb veto rowsX colsX
    r.a = fit Ka cfga tha (fun _ x c => veto x c) s0 rowsX ∧
    (∀ l ∈ r.a.labels, l < r.a.W.length) ∧
    r.a.labels.length = rowsX.length ∧
    r.a.W.length ≤ rowsX.length := by
  intro r
  obtain ⟨h1, h2, h3⟩ := fit_labels_lt Ka cfga tha (fun _ x c => veto x c) s0 rowsX
  exact ⟨rfl, h1, h2, h3⟩

/-- **C17 for the fitted model, no side hypotheses.**  For every pair of
kernels, configurations, veto oracle and data: `rows_`/`columns_` have
`na·nb` rows of widths (#matrix rows, #matrix columns), and every matrix cell
lies in exactly one bicluster, the one its two labels name. -/
theorem bartmap_fit_partition (Ka : Kernel Xa Wa α μa) (cfga : SearchCfg μa θa) (tha : θa)
    (Kb : Kernel Xb Wb β μb) (cfgb : SearchCfg μb θb) (thb : θb)
    (veto : Xa → Nat → Bool) (rowsX : List Xa) (colsX : List Xb) :
    let r := bartmapFit Ka cfga tha Kb cfgb thb veto rowsX colsX
    r.rows.length = r.a.W.length * r.b.W.length ∧
    r.cols.length = r.a.W.length * r.b.W.length ∧
    (∀ m ∈ r.rows, m.length = rowsX.length) ∧
    (∀ m ∈ r.cols, m.length = colsX.length) ∧
    ∀ i j (hi : i < r.a.labels.length) (hj : j < r.b.labels.length),
      i < rowsX.length ∧ j < colsX.length ∧
      cellBiclusters r.rows r.cols i j = [r.a.labels[i] * r.b.W.length + r.b.labels[j]] := by
  intro r
  obtain ⟨a1, a2, _⟩ := fit_labels_lt Ka cfga tha (fun _ x c => veto x c) {} rowsX
  obtain ⟨b1, b2, _⟩ := fit_labels_lt Kb cfgb thb (noVeto (S := ArtState Wb)) {} colsX
  obtain ⟨s1, s2, s3, s4⟩ := bartmap_shapes r.a.W.length r.b.W.length r.a.labels r.b.labels
  refine ⟨s1, s2, ?_, ?_, ?_⟩
  · intro m hm; rw [s3 m hm]; exact a2
  · intro m hm; rw [s4 m hm]; exact b2
  · intro i j hi hj
    refine ⟨a2 ▸ hi, b2 ▸ hj, ?_⟩
    exact bartmap_partition r.a.W.length r.b.W.length r.a.labels r.b.labels a1 b1 i j hi hj

end

/-! ### Non-vacuity: 2 row clusters × 3 column clusters on a 4 × 5 matrix -/

/-- `rows_` for row labels `[0,1,1,0]`: 6 masks of width 4, `a`-major -/
example : rowsOf 2 3 [0, 1, 1, 0] =
    [[true, false, false, true], [true, false, false, true], [true, false, false, true],
     [false, true, true, false], [false, true, true, false], [false, true, true, false]] := by
  decide

/-- `columns_` for column labels `[0,1,2,1,0]`: 6 masks of width 5 -/
example : columnsOf 2 3 [0, 1, 2, 1, 0] =
    [[true, false, false, false, true], [false, true, false, true, false],
     [false, false, true, false, false],
     [true, false, false, false, true], [false, true, false, true, false],
     [false, false, true, false, false]] := by
  decide

/-- cell (2,3): row cluster 1, column cluster 1 → exactly bicluster 1·3+1 = 4 -/
example : cellBiclusters (rowsOf 2 3 [0, 1, 1, 0]) (columnsOf 2 3 [0, 1, 2, 1, 0]) 2 3 = [4] := by
  decide

/-- every one of the 20 cells lies in exactly one bicluster, the predicted one -/
example : ∀ i ∈ List.range 4, ∀ j ∈ List.range 5,
    cellBiclusters (rowsOf 2 3 [0, 1, 1, 0]) (columnsOf 2 3 [0, 1, 2, 1, 0]) i j =
      [[0, 1, 1, 0][i]! * 3 + [0, 1, 2, 1, 0][j]!] := by
  decide

/-- the hypotheses of `bartmap_partition` are satisfiable on that instance -/
example : cellBiclusters (rowsOf 2 3 [0, 1, 1, 0]) (columnsOf 2 3 [0, 1, 2, 1, 0]) 3 2 = [0 * 3 + 2] :=
  bartmap_partition 2 3 [0, 1, 1, 0] [0, 1, 2, 1, 0] (by decide) (by decide) 3 2 (by decide) (by decide)

/-- an out-of-range label (row label 2 with only 2 row clusters) leaves its cells uncovered -/
example : cellBiclusters (rowsOf 2 3 [0, 2, 1, 0]) (columnsOf 2 3 [0, 1, 2, 1, 0]) 1 0 = [] := by
  decide

/-- A toy one-dimensional kernel: a category is a prototype, the activation is
`100 − |x − w|`, the match value is `|x − w|`, vigilance accepts distance ≤ 2. -/
private def toyK : Kernel Nat Nat Nat Nat :=
  { choice := fun _ x w => some (100 - (x - w) - (w - x))
    matchv := fun x w => (x - w) + (w - x)
    update := fun _ w => w
    newW := fun x => x }

private def toyCfg : SearchCfg Nat Nat :=
  { passes := fun th m => decide (m ≤ th), track := fun _ m => m, keep := true, tilde := false }

/-- `bartmapFit` end to end: 4 matrix rows (prepared: 10, 11, 30, 12), 5 matrix
columns (prepared: 5, 50, 90, 51, 6); the veto forbids every resonance of the
row `12`, so it opens a third row cluster although it matches cluster 0. -/
example :
    let r := bartmapFit toyK toyCfg 2 toyK toyCfg 2 (fun x _ => x == 12) [10, 11, 30, 12] [5, 50, 90, 51, 6]
    r.a.labels = [0, 0, 1, 2] ∧ r.b.labels = [0, 1, 2, 1, 0] ∧ r.rows.length = 9 ∧
    cellBiclusters r.rows r.cols 3 3 = [2 * 3 + 1] := by
  decide

end Art.C17
