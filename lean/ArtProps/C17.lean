/-
C17 — property theorems (stub; see DESIGN.md §6).
-/
import ArtModel.Basic

namespace Art.C17

end Art.C17
