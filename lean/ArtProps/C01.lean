/-
C01 — Resonance search: best vigilance-passing category wins, else one new category.
Property theorems only; helper lemmas live in ArtProofs.
-/
import ArtProofs.Search

namespace Art.C01

variable {α μ θ : Type} [LinearOrder α]

/-- The loop terminates: any fuel ≥ the number of live candidates gives the same result. -/
theorem search_terminates (cfg : SearchCfg μ θ) (M : Nat → μ) (veto : Nat → Bool)
    (f₁ f₂ : Nat) (T : List (Option α)) (th : θ) (h₁ : liveCount T ≤ f₁) (h₂ : liveCount T ≤ f₂) :
    search cfg M veto f₁ T th = search cfg M veto f₂ T th :=
  search_fuel_irrelevant cfg M veto f₁ f₂ T th h₁ h₂

/-- A winner is a live candidate that passed the threshold in force at its visit and was not vetoed. -/
theorem winner_sound (cfg : SearchCfg μ θ) (M : Nat → μ) (veto : Nat → Bool)
    (T : List (Option α)) (th : θ) (c : Nat)
    (h : (search cfg M veto T.length T th).winner = some c) :
    (∃ v, T[c]? = some (some v)) ∧
    ∃ th', (search cfg M veto T.length T th).visits.getLast? = some ⟨c, th', true, true⟩ ∧
      cfg.passes th' (M c) = true ∧ (cfg.tilde || !veto c) = true :=
  search_winner_sound cfg M veto T.length T th (liveCount_le_length T) c h

/-- Without a reset function: the winner is exactly the first index of maximal
activation among the vigilance-passing candidates; a new category iff none. -/
theorem no_reset_best_passing_wins (cfg : SearchCfg μ θ) (M : Nat → μ)
    (T : List (Option α)) (th : θ) :
    (search cfg M (fun _ => false) T.length T th).winner = nanargmax (qualifying cfg M th T) :=
  search_no_veto cfg M T.length T th (liveCount_le_length T)

end Art.C01
