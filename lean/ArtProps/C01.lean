/-
C01 — Resonance search: best vigilance-passing category wins, else one new category.

Property theorems only; helper lemmas live in ArtProofs.  Everything here holds
for every linear order `α` of activations, every match-value type `μ`, every
threshold type `θ` (a number for a bare module, a per-channel vector for
FusionART), every configuration `cfg` (mode × epsilon: which comparison,
how a vetoed match moves the threshold, abandon or not, MT~), every activation
list `T` (with NaNs), match function `M` and veto pattern.
-/
import ArtProofs.Fit

namespace Art.C01

variable {X Wt α μ θ : Type} [LinearOrder α]

/-- The loop terminates: any fuel ≥ the number of live candidates gives the same
result (each iteration strikes one candidate).  `stepSearch` uses `T.length`. -/
theorem search_terminates (cfg : SearchCfg μ θ) (M : Nat → μ) (veto : Nat → Bool)
    (f₁ f₂ : Nat) (T : List (Option α)) (th : θ) (h₁ : liveCount T ≤ f₁) (h₂ : liveCount T ≤ f₂) :
    search cfg M veto f₁ T th = search cfg M veto f₂ T th :=
  search_fuel_irrelevant cfg M veto f₁ f₂ T th h₁ h₂

/-- A winner is a live candidate that passed the threshold in force at its visit
and was not vetoed; it is the last category visited. -/
theorem winner_sound (cfg : SearchCfg μ θ) (M : Nat → μ) (veto : Nat → Bool)
    (T : List (Option α)) (th : θ) (c : Nat)
    (h : (search cfg M veto T.length T th).winner = some c) :
    (∃ v, T[c]? = some (some v)) ∧
    ∃ th', (search cfg M veto T.length T th).visits.getLast? = some ⟨c, th', true, true⟩ ∧
      cfg.passes th' (M c) = true ∧ (cfg.tilde || !veto c) = true :=
  search_winner_sound cfg M veto T.length T th (liveCount_le_length T) c h

/-- Categories are visited by decreasing activation, ties to the oldest; only
live candidates are visited, each at most once. -/
theorem visiting_order (cfg : SearchCfg μ θ) (M : Nat → μ) (veto : Nat → Bool)
    (T : List (Option α)) (th : θ) :
    ((search cfg M veto T.length T th).visits.map (·.c)).Pairwise (Before T) ∧
    ∀ v ∈ (search cfg M veto T.length T th).visits, ∃ a, T[v.c]? = some (some a) :=
  search_visit_order cfg M veto T.length T th (liveCount_le_length T)

/-- Maximality: every category visited before the winner (all visited ones, if
there is no winner) failed the vigilance test in force at its visit or was
vetoed; the recorded bits are exactly the test results. -/
theorem winner_maximal (cfg : SearchCfg μ θ) (M : Nat → μ) (veto : Nat → Bool)
    (T : List (Option α)) (th : θ) :
    ∀ v ∈ (search cfg M veto T.length T th).visits,
      v.m = cfg.passes v.th (M v.c) ∧ v.ok = (cfg.tilde || !veto v.c) ∧
      ((v.m && v.ok) = true → (search cfg M veto T.length T th).winner = some v.c) :=
  search_visits_faithful cfg M veto T.length T th (liveCount_le_length T)

/-- A new category is created only after every live candidate was visited and
rejected — unless the mode abandons the search (MT1). -/
theorem new_only_if_exhausted (cfg : SearchCfg μ θ) (hkeep : cfg.keep = true) (M : Nat → μ)
    (veto : Nat → Bool) (T : List (Option α)) (th : θ)
    (hnone : (search cfg M veto T.length T th).winner = none) :
    ∀ c a, T[c]? = some (some a) → c ∈ (search cfg M veto T.length T th).visits.map (·.c) :=
  search_exhaustive cfg M veto hkeep T.length T th (liveCount_le_length T) hnone

/-- Threshold trace: the first visit sees the configured threshold; it changes
only after a visit that *passed and was vetoed*, and then to exactly
`cfg.track th (M c)` (MT+: M+eps, MT-: M-eps, MT0: M, MT~: unchanged). -/
theorem threshold_trace (cfg : SearchCfg μ θ) (M : Nat → μ) (veto : Nat → Bool)
    (T : List (Option α)) (th : θ) :
    ThreadsFrom cfg M th (search cfg M veto T.length T th).visits
      (search cfg M veto T.length T th).th :=
  search_threshold_trace cfg M veto T.length T th (liveCount_le_length T)

/-- The five scalar modes do what the statement says. -/
theorem modes_table (adjP adjM : α → α) (top rho m : α) :
    (scalarCfg .plus false adjP adjM top).track rho m = adjP m ∧
    (scalarCfg .minus false adjP adjM top).track rho m = adjM m ∧
    (scalarCfg .zero false adjP adjM top).track rho m = m ∧
    (scalarCfg .tilde false adjP adjM top).track rho m = rho ∧
    (scalarCfg (α := α) .one false adjP adjM top).keep = false ∧
    (scalarCfg (α := α) .tilde false adjP adjM top).tilde = true ∧
    ((scalarCfg .plus false adjP adjM top).passes rho m = true ↔ rho ≤ m) ∧
    ((scalarCfg .minus false adjP adjM top).passes rho m = true ↔ rho ≤ m) ∧
    ((scalarCfg .one false adjP adjM top).passes rho m = true ↔ rho ≤ m) ∧
    ((scalarCfg .zero false adjP adjM top).passes rho m = true ↔ rho < m) ∧
    ((scalarCfg .tilde false adjP adjM top).passes rho m = true ↔ rho < m) := by
  simp [scalarCfg, trackScalar, passesScalar, mtStrict]

/-- Without a reset function: the winner is exactly the first index of maximal
activation among the vigilance-passing candidates; a new category iff none. -/
theorem no_reset_best_passing_wins (cfg : SearchCfg μ θ) (M : Nat → μ)
    (T : List (Option α)) (th : θ) :
    (search cfg M (fun _ => false) T.length T th).winner = nanargmax (qualifying cfg M th T) :=
  search_no_veto cfg M T.length T th (liveCount_le_length T)

/-- MT~: vetoed categories are never candidates and the threshold never moves —
the winner is the first index of maximal activation among the candidates that
are *not vetoed* and pass the configured vigilance; a new category iff none. -/
theorem tilde_best_allowed_passing_wins (cfg : SearchCfg μ θ) (htilde : cfg.tilde = true) (M : Nat → μ)
    (veto : Nat → Bool) (T : List (Option α)) (th : θ) :
    (search cfg M veto (strikeVetoed true veto T).length (strikeVetoed true veto T) th).winner =
      nanargmax (qualifying cfg M th (strikeVetoed true veto T)) := by
  rw [search_tilde_ignores_veto cfg M veto htilde]
  exact search_no_veto cfg M _ _ th (liveCount_le_length _)

/-- In every mode (MT~ included) the category a training step resonates with was
not vetoed by the reset function and indexes an existing category. -/
theorem step_winner_allowed (K : Kernel X Wt α μ) (cfg : SearchCfg μ θ) (th0 : θ)
    (veto : Nat → Bool) (W : List Wt) (x : X) (c : Nat)
    (h : (stepSearch K cfg th0 veto W x).winner = some c) : veto c = false ∧ c < W.length :=
  ⟨stepSearch_winner_not_vetoed K cfg th0 veto W x c h, stepSearch_winner_lt K cfg th0 veto W x c h⟩

/-- Frame: a training step rewrites exactly the winner's weight (with `update`)
or appends exactly one category initialised from the sample (`newW x`); no other
weight and no other counter changes. -/
theorem step_frame (K : Kernel X Wt α μ) (cfg : SearchCfg μ θ) (th0 : θ)
    (veto : Nat → Bool) (s : ArtState Wt) (x : X) :
    (stepFit K cfg th0 veto s x).1.n = s.n + 1 ∧
    (stepFit K cfg th0 veto s x).1.labels = s.labels ∧
    (((stepFit K cfg th0 veto s x).2 < s.W.length ∧
        ∃ w, s.W[(stepFit K cfg th0 veto s x).2]? = some w ∧
        (stepFit K cfg th0 veto s x).1.W = s.W.set (stepFit K cfg th0 veto s x).2 (K.update x w) ∧
        (stepFit K cfg th0 veto s x).1.cnt =
          s.cnt.set (stepFit K cfg th0 veto s x).2 (s.cnt.getD (stepFit K cfg th0 veto s x).2 0 + 1)) ∨
     ((stepFit K cfg th0 veto s x).2 = s.W.length ∧
        (stepFit K cfg th0 veto s x).1.W = s.W ++ [K.newW x] ∧
        (stepFit K cfg th0 veto s x).1.cnt = s.cnt ++ [1])) :=
  stepFit_frame K cfg th0 veto s x

/-! ### Non-vacuity: concrete searches over `Int` with ties, threshold equality,
vetoes under each mode, and exhaustion. -/

private def cfgI (mode : MT) : SearchCfg Int Int := scalarCfg mode false (· + 1) (· - 1) 1000

-- exact tie between categories 0 and 2 (activation 7): the oldest wins; match = threshold passes (≥)
example : (search (cfgI .plus) (fun _ => 5) (fun _ => false) 3 [some 7, some 3, some 7] 5).winner = some 0 := by
  decide
-- MT0 uses a strict test: match = threshold fails everywhere, new category
example : (search (cfgI .zero) (fun _ => 5) (fun _ => false) 3 [some 7, some 3, some 7] 5).winner = none := by
  decide
-- MT+: best (cat 0, match 6) vetoed -> threshold 7; cat 2 (match 6) now fails; cat 1 (match 9) wins
example : (search (cfgI .plus) (fun c => if c = 1 then 9 else 6) (fun c => c == 0) 3
    [some 7, some 3, some 5] 5).winner = some 1 := by decide
-- MT-: same veto lowers the threshold to 5: cat 2 (match 6) wins
example : (search (cfgI .minus) (fun c => if c = 1 then 9 else 6) (fun c => c == 0) 3
    [some 7, some 3, some 5] 5).winner = some 2 := by decide
-- MT1: abandon after the first vetoed match
example : (search (cfgI .one) (fun c => if c = 1 then 9 else 6) (fun c => c == 0) 3
    [some 7, some 3, some 5] 5).winner = none := by decide
-- MT~: the vetoed category was struck before the loop, threshold never moves
example : (search (cfgI .tilde) (fun c => if c = 1 then 9 else 6) (fun c => c == 0) 3
    (strikeVetoed true (fun c => c == 0) [some 7, some 3, some 5]) 5).winner = some 2 := by decide
-- NaN activation is never a candidate
example : (search (cfgI .plus) (fun _ => 9) (fun _ => false) 2 [none, some 1] 5).winner = some 1 := by
  decide

end Art.C01
