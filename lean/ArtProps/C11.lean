/-
C11 — Partial-channel inference; channel joins round-trip.

Model: `ArtModel/Fusion.lean` — `choiceSkip` / `stepPredSkip` / `predictSkip` (a skipped
channel contributes `1·gamma_k`, `predict` normalises negative indices once),
`predictRegression` (as written, incl. the double normalisation and the list of centres
indexed by channel number), `joinRow` / `splitRow`, `prepareRow` / `restoreRow` (as written).

Proved for every ordered field, every channel layout, every trained weight list `W`, every
query and every filler:
  * `skip_independent`, `skip_is_argmax_of_rest`, `skip_index_normalised`;
  * `regression_is_target_centre` (one target channel — the documented use);
  * `split_join`, `join_split`.
Two clauses are false of the code as written and therefore of the faithful model:
  * several target channels: `centers[k]` is read with the channel number instead of the
    position (finding C11-b): `regression_multi_counterexample`, `regression_multi_as_written`,
    `regression_multi_partial` (targets sitting at their own positions, e.g. `[0,1]`);
  * `restore_data` with a skipped channel in front of a kept one indexes the list of kept
    channels with the channel number (finding C11-a): `restore_prepare_counterexample`,
    `restore_prepare_partial` (skipped channels form a suffix, e.g. `[-1]`).
The inverse law of a single module's `prepare_data` / `restore_data` is C18's; here it is
the hypothesis `hinv`.
-/
import ArtProofs.Fusion
import ArtProofs.Kernels

namespace Art.C11
open Art Art.Fusion

set_option linter.unusedSectionVars false

section Core
variable {α : Type} [Field α] [LinearOrder α] [IsStrictOrderedRing α]

/-- **Only the supplied channels matter.**  Two queries that agree on every channel that is
not skipped are given the same category — whatever stands in the skipped columns. -/
theorem skip_independent (chans : List (Chan α)) (ks : List Int) (W : List (List α)) (x x' : List α)
    (h : ∀ k, skipSet chans.length ks k = false → slice (widths chans) k x = slice (widths chans) k x') :
    predictSkip chans ks W [x] = predictSkip chans ks W [x'] := by
  simp only [predictSkip, List.map_cons, List.map_nil]
  rw [stepPredSkip_indep chans _ W x x' h]

/-- with channels skipped the fused activation is the remaining channels' gamma-weighted sum
plus the constant `Σ_{k skipped} gamma_k` (the same for every category) -/
theorem skip_adds_constant (chans : List (Chan α)) (skip : Nat → Bool) (W : List (List α)) (x w : List α) :
    choiceSkip chans skip W x w = (restChoice chans skip W x w).map (· + skipConst chans skip) :=
  choiceSkip_eq_rest_add chans skip W x w

/-- adding one constant to every activation changes neither `np.argmax` nor its tie rule -/
theorem argmax_add_const (c : α) (T : List (Option α)) : argmaxNp (T.map (Option.map (· + c))) = argmaxNp T :=
  argmaxNp_map_add c T

/-- **The predicted category is the (first) arg-max of the gamma-weighted activations of the
remaining channels.** -/
theorem skip_is_argmax_of_rest (chans : List (Chan α)) (ks : List Int) (W : List (List α)) (x : List α) :
    predictSkip chans ks W [x] =
      [argmaxNp (W.map (restChoice chans (skipSet chans.length ks) W x))] := by
  simp only [predictSkip, List.map_cons, List.map_nil]
  rw [stepPredSkip_eq_rest]

/-- **Negative indices** are normalised: `-(m+1)` denotes channel `n-(m+1)`, and predicting
with either spelling is the same function. -/
theorem skip_index_normalised (chans : List (Chan α)) (m : Nat) (h : m < chans.length) (ks : List Int)
    (W : List (List α)) (xs : List (List α)) :
    normIdx chans.length (-((m : Int) + 1)) = ((chans.length - (m + 1) : Nat) : Int) ∧
    predictSkip chans (-((m : Int) + 1) :: ks) W xs =
      predictSkip chans (((chans.length - (m + 1) : Nat) : Int) :: ks) W xs := by
  refine ⟨normIdx_neg _ m h, ?_⟩
  unfold predictSkip
  rw [skipSet_neg chans.length m h ks]

/-- **Regression, one target channel**: the value returned for a row is exactly the
target-channel centre of the category predicted with that channel skipped. -/
theorem regression_is_target_centre (chans : List (Chan α)) (centre : Nat → List α → List α) (t : Int)
    (W : List (List α)) (x : List α) (ht : 0 ≤ normIdx chans.length t) (c : Nat)
    (hc : predictSkip chans [t] W [x] = [some c]) :
    ∃ w, W[c]? = some w ∧
      predictRegression chans centre [t] W x =
        some [centre (normIdx chans.length t).toNat (slice (wlens chans) (normIdx chans.length t).toNat w)] := by
  simp only [predictSkip, List.map_cons, List.map_nil, List.cons.injEq, and_true] at hc
  have hlt : c < W.length := by
    have := argmaxNp_lt_length hc
    simpa using this
  refine ⟨W[c], List.getElem?_eq_getElem hlt, ?_⟩
  rw [predictRegression_single chans centre t W x ht c hc, List.getElem?_eq_getElem hlt]
  rfl

/-- **Regression, several targets, as written**: the entry for target `k` is taken from
position `k` of the list of centres, i.e. it is the centre of channel `tn[k]`
(`tn` = the normalised targets); `none` = the `IndexError` when there is no such position. -/
theorem regression_multi_as_written (chans : List (Chan α)) (centre : Nat → List α → List α)
    (targets : List Int) (W : List (List α)) (x : List α) (hl : targets.length ≠ 1)
    (hnn : ∀ t ∈ targets, 0 ≤ normIdx chans.length t) (c : Nat)
    (hc : predictSkip chans targets W [x] = [some c]) :
    predictRegression chans centre targets W x =
      allSome ((targets.map (normIdx chans.length)).map (fun k =>
        (((targets.map (normIdx chans.length))[k.toNat]?).bind (fun k' =>
          (W[c]?).map (fun w => centre k'.toNat (slice (wlens chans) k'.toNat w)))))) := by
  simp only [predictSkip, List.map_cons, List.map_nil, List.cons.injEq, and_true] at hc
  exact predictRegression_multi chans centre targets W x hl hnn c hc

/-- **Regression, several targets** — partial: when every target sits at its own position
in the list (`[0,1]`, `[0,1,2]`, …) the result is the list of target-channel centres of the
predicted category.  (Full statement — any list of targets — is false of the code, see the
counterexample.) -/
theorem regression_multi_partial (chans : List (Chan α)) (centre : Nat → List α → List α)
    (targets : List Int) (W : List (List α)) (x : List α) (hl : targets.length ≠ 1)
    (hnn : ∀ t ∈ targets, 0 ≤ normIdx chans.length t)
    (hpos : ∀ k ∈ targets.map (normIdx chans.length),
      (targets.map (normIdx chans.length))[k.toNat]? = some k)
    (c : Nat) (hc : predictSkip chans targets W [x] = [some c]) :
    predictRegression chans centre targets W x =
      (W[c]?).map (fun w => (targets.map (normIdx chans.length)).map
        (fun k => centre k.toNat (slice (wlens chans) k.toNat w))) := by
  simp only [predictSkip, List.map_cons, List.map_nil, List.cons.injEq, and_true] at hc
  exact predictRegression_multi_pos chans centre targets W x hl hnn hpos c hc

end Core

section Join
variable {β : Type}

/-- **split ∘ join = id** on the supplied channels: rows of the kept channels' widths come
back unchanged (and the joined row has the full width). -/
theorem split_join (filler : β) (skip : Nat → Bool) (ws : List Nat) (data : List (List β))
    (h : Fit (keptWidths skip 0 ws) data) :
    ∃ v, joinRow ws skip filler data = some v ∧ splitRow ws skip v = data ∧ v.length = ws.sum :=
  split_join_from filler skip 0 ws data h

/-- **join ∘ split** returns the row with the skipped blocks overwritten by the filler; on every
supplied channel it agrees with the row. -/
theorem join_split (filler : β) (skip : Nat → Bool) (ws : List Nat) (v : List β) (hv : ws.sum ≤ v.length) :
    joinRow ws skip filler (splitRow ws skip v) = some (maskFrom filler skip 0 ws v) ∧
    ∀ j, skip j = false → slice ws j (maskFrom filler skip 0 ws v) = slice ws j v :=
  ⟨join_split_from filler skip 0 ws v,
   fun j hj => slice_maskFrom filler skip 0 ws v hv j (by simpa using hj)⟩

/-- **restore ∘ prepare** — partial: when the skipped channels are the last ones (`m` kept
channels in front), every module's `restore_data` inverts its `prepare_data` (`hinv`, C18) and
prepared rows have the channel width, the supplied channels come back.  (Full statement —
any skipped subset — is false of the code, see the counterexample.) -/
theorem restore_prepare_partial (prep rest : Nat → List β → List β) (ws : List Nat) (skip : Nat → Bool)
    (filler : β) (data : List (List β)) (m : Nat) (hm : m ≤ ws.length) (hd : data.length = ws.length)
    (hskip : ∀ i, i < ws.length → skip i = decide (m ≤ i))
    (hwid : ∀ i, i < m → (prep i (data.getD i [])).length = ws.getD i 0)
    (hinv : ∀ i, i < m → rest i (prep i (data.getD i [])) = data.getD i []) :
    ∃ v, prepareRow prep ws skip filler data = some v ∧
      restoreRow rest ws skip v = some ((List.range m).map (fun i => data.getD i [])) :=
  restore_prepare_suffix prep rest ws skip filler data m hm hd hskip hwid hinv

end Join

/-! ### Counterexamples (ℚ, FuzzyART channels alpha = 1/4, beta = 1) and non-vacuity -/

private def ch3 : List (Chan Rat) :=
  [⟨fuzzyKernel (1/4) 1 1, 2, 1/2, 2⟩, ⟨fuzzyKernel (1/4) 1 1, 2, 1/4, 2⟩, ⟨fuzzyKernel (1/4) 1 1, 2, 1/4, 2⟩]
private def W3 : List (List Rat) :=
  [[0, 1, 0, 1, 0, 1], [1, 0, 1, 0, 1, 0], [1/4, 3/4, 1/2, 1/2, 3/4, 1/4]]
private def cen : Nat → List Rat → List Rat := fun _ => fuzzyCentre
private def q3 : List Rat := [1/4, 3/4, 1/2, 1/2, 3/4, 1/4]

/-- **Counterexample (finding C11-b).**  Three channels, query = the third category.  Targets
`[1, 0]`: the code returns channel 0's centre `[1/4]` first and channel 1's centre `[1/2]`
second (it should be the other way round); targets `[1, 2]`: `IndexError`. -/
theorem regression_multi_counterexample :
    predictRegression ch3 cen [1, 0] W3 q3 = some [[1/4], [1/2]] ∧
    (channelCentres ch3 cen W3 1)[2]? = some [1/2] ∧ (channelCentres ch3 cen W3 0)[2]? = some [1/4] ∧
    predictRegression ch3 cen [1, 2] W3 q3 = none := by
  decide +kernel

private def ccR (v : List Rat) : List Rat := v ++ vcompl v

/-- **Counterexample (finding C11-a).**  Two Fuzzy channels, channel 0 skipped: `prepare_data`
works, `restore_data` on its result raises `IndexError` (`none`) instead of returning `[[1/2]]`. -/
theorem restore_prepare_counterexample :
    prepareRow (fun _ => ccR) [2, 2] (skipSet 2 [0]) (1/2 : Rat) [[], [1/2]] = some [1/2, 1/2, 1/2, 1/2] ∧
    restoreRow (fun _ => fuzzyCentre) [2, 2] (skipSet 2 [0]) ([1/2, 1/2, 1/2, 1/2] : List Rat) = none ∧
    fuzzyCentre (ccR [1/2]) = [1/2] := by
  decide +kernel

-- skipping the last channel with index -1 or 2, any filler: same category, the third one
example : predictSkip ch3 [-1] W3 [[1/4, 3/4, 1/2, 1/2, 1/2, 1/2]] = [some 2] := by decide +kernel
example : predictSkip ch3 [2] W3 [[1/4, 3/4, 1/2, 1/2, 0, 1]] = [some 2] := by decide +kernel
-- regression on the last channel (the default `target_channels=[-1]`)
example : predictRegression ch3 cen [-1] W3 q3 = some [[3/4]] := by decide +kernel
-- two targets at their own positions are right
example : predictRegression ch3 cen [0, 1] W3 q3 = some [[1/4], [1/2]] := by decide +kernel
-- join / split with the middle channel skipped
example : joinRow [2, 2, 2] (skipSet 3 [1]) (1/2 : Rat) [[0, 1], [1/4, 3/4]] = some [0, 1, 1/2, 1/2, 1/4, 3/4] := by
  decide +kernel
example : splitRow [2, 2, 2] (skipSet 3 [-2]) ([0, 1, 1/2, 1/2, 1/4, 3/4] : List Rat) = [[0, 1], [1/4, 3/4]] := by
  decide +kernel
-- prepare / restore with the last channel skipped
example : (prepareRow (fun _ => ccR) [2, 2] (skipSet 2 [-1]) (1/2 : Rat) [[1/4], []]).bind
    (restoreRow (fun _ => fuzzyCentre) [2, 2] (skipSet 2 [-1])) = some [[1/4]] := by decide +kernel

end Art.C11
