/-
C11 — Partial-channel inference; channel joins round-trip.

Model: `ArtModel/Fusion.lean` — `choiceSkip` / `stepPredSkip` / `predictSkip` (a skipped
channel contributes `1·gamma_k`, `predict` normalises negative indices once),
`predictRegression` (incl. the double normalisation), `joinRow` / `splitRow`,
`prepareRow` / `restoreRow`.

Proved for every ordered field, every channel layout, every trained weight list `W`, every
query and every filler:
  * `skip_independent`, `skip_is_argmax_of_rest`, `skip_index_normalised`;
  * `regression_is_target_centre` (one target channel — the documented use) and
    `regression_multi_is_target_centres` (any list of target channels, positive or negative
    indices, any order);
  * `split_join`, `join_split`, `restore_prepare` (any set of skipped channels).
History: until /repo f0de10c the multi-target branch read `centers[k]` with the channel number
instead of the position, and until aea0d0b `restore_data` indexed the list of kept channels
with the channel number (findings C11-b, C11-a of this slice, with `_counterexample` /
`_partial` theorems); both were repaired, the model follows the repaired code and the former
counterexamples are now positive examples.
The inverse law of a single module's `prepare_data` / `restore_data` is C18's; here it is
the hypothesis `hinv`.
-/
import ArtProofs.Fusion
import ArtProofs.Kernels

namespace Art.C11
open Art Art.Fusion

set_option linter.unusedSectionVars false

section Core
variable {α : Type} [Field α] [LinearOrder α] [IsStrictOrderedRing α]

/-- **Only the supplied channels matter.**  Two queries that agree on every channel that is
not skipped are given the same category — whatever stands in the skipped columns. -/
theorem skip_independent (chans : List (Chan α)) (ks : List Int) (W : List (List α)) (x x' : List α)
    (h : ∀ k, skipSet chans.length ks k = false → slice (widths chans) k x = slice (widths chans) k x') :
    predictSkip chans ks W [x] = predictSkip chans ks W [x'] := by
  simp only [predictSkip, List.map_cons, List.map_nil]
  rw [stepPredSkip_indep chans _ W x x' h]

/-- with channels skipped the fused activation is the remaining channels' gamma-weighted sum
plus the constant `Σ_{k skipped} gamma_k` (the same for every category) -/
theorem skip_adds_constant (chans : List (Chan α)) (skip : Nat → Bool) (W : List (List α)) (x w : List α) :
    choiceSkip chans skip W x w = (restChoice chans skip W x w).map (· + skipConst chans skip) :=
  choiceSkip_eq_rest_add chans skip W x w

/-- adding one constant to every activation changes neither `np.argmax` nor its tie rule -/
theorem argmax_add_const (c : α) (T : List (Option α)) : argmaxNp (T.map (Option.map (· + c))) = argmaxNp T :=
  argmaxNp_map_add c T

/-- **The predicted category is the (first) arg-max of the gamma-weighted activations of the
remaining channels.** -/
theorem skip_is_argmax_of_rest (chans : List (Chan α)) (ks : List Int) (W : List (List α)) (x : List α) :
    predictSkip chans ks W [x] =
      [argmaxNp (W.map (restChoice chans (skipSet chans.length ks) W x))] := by
  simp only [predictSkip, List.map_cons, List.map_nil]
  rw [stepPredSkip_eq_rest]

/-- **Negative indices** are normalised: `-(m+1)` denotes channel `n-(m+1)`, and predicting
with either spelling is the same function. -/
theorem skip_index_normalised (chans : List (Chan α)) (m : Nat) (h : m < chans.length) (ks : List Int)
    (W : List (List α)) (xs : List (List α)) :
    normIdx chans.length (-((m : Int) + 1)) = ((chans.length - (m + 1) : Nat) : Int) ∧
    predictSkip chans (-((m : Int) + 1) :: ks) W xs =
      predictSkip chans (((chans.length - (m + 1) : Nat) : Int) :: ks) W xs := by
  refine ⟨normIdx_neg _ m h, ?_⟩
  unfold predictSkip
  rw [skipSet_neg chans.length m h ks]

/-- **Regression, one target channel**: the value returned for a row is exactly the
target-channel centre of the category predicted with that channel skipped. -/
theorem regression_is_target_centre (chans : List (Chan α)) (centre : Nat → List α → List α) (t : Int)
    (W : List (List α)) (x : List α) (ht : 0 ≤ normIdx chans.length t) (c : Nat)
    (hc : predictSkip chans [t] W [x] = [some c]) :
    ∃ w, W[c]? = some w ∧
      predictRegression chans centre [t] W x =
        some [centre (normIdx chans.length t).toNat (slice (wlens chans) (normIdx chans.length t).toNat w)] := by
  simp only [predictSkip, List.map_cons, List.map_nil, List.cons.injEq, and_true] at hc
  obtain ⟨w, hw, h⟩ := predictRegression_eq chans centre [t] W x (by simpa using ht) c hc
  exact ⟨w, hw, by simpa using h⟩

/-- **Regression, any list of target channels** (positive or negative indices, any order, any
number): the `j`-th returned value is the centre of channel `targets[j]` (normalised) of the
category predicted with all targets skipped. -/
theorem regression_multi_is_target_centres (chans : List (Chan α)) (centre : Nat → List α → List α)
    (targets : List Int) (W : List (List α)) (x : List α)
    (hnn : ∀ t ∈ targets, 0 ≤ normIdx chans.length t) (c : Nat)
    (hc : predictSkip chans targets W [x] = [some c]) :
    ∃ w, W[c]? = some w ∧
      predictRegression chans centre targets W x =
        some ((targets.map (normIdx chans.length)).map
          (fun k => centre k.toNat (slice (wlens chans) k.toNat w))) := by
  simp only [predictSkip, List.map_cons, List.map_nil, List.cons.injEq, and_true] at hc
  exact predictRegression_eq chans centre targets W x hnn c hc

end Core

section Join
variable {β : Type}

/-- **split ∘ join = id** on the supplied channels: rows of the kept channels' widths come
back unchanged (and the joined row has the full width). -/
theorem split_join (filler : β) (skip : Nat → Bool) (ws : List Nat) (data : List (List β))
    (h : Fit (keptWidths skip 0 ws) data) :
    ∃ v, joinRow ws skip filler data = some v ∧ splitRow ws skip v = data ∧ v.length = ws.sum :=
  split_join_from filler skip 0 ws data h

/-- **join ∘ split** returns the row with the skipped blocks overwritten by the filler; on every
supplied channel it agrees with the row. -/
theorem join_split (filler : β) (skip : Nat → Bool) (ws : List Nat) (v : List β) (hv : ws.sum ≤ v.length) :
    joinRow ws skip filler (splitRow ws skip v) = some (maskFrom filler skip 0 ws v) ∧
    ∀ j, skip j = false → slice ws j (maskFrom filler skip 0 ws v) = slice ws j v :=
  ⟨join_split_from filler skip 0 ws v,
   fun j hj => slice_maskFrom filler skip 0 ws v hv j (by simpa using hj)⟩

/-- **restore ∘ prepare = id on the supplied channels**, for ANY set of skipped channels: when
every kept module's `restore_data` inverts its `prepare_data` (`hinv`, C18) and prepared rows
have the channel width, `restore_data(prepare_data(data, skip), skip)` returns the supplied
channels in order (`data` has one entry per channel). -/
theorem restore_prepare (prep rest : Nat → List β → List β) (ws : List Nat) (skip : Nat → Bool)
    (filler : β) (data : List (List β)) (hd : data.length = ws.length)
    (hwid : ∀ i, i < ws.length → skip i = false → (prep i (data.getD i [])).length = ws.getD i 0)
    (hinv : ∀ i, i < ws.length → skip i = false → rest i (prep i (data.getD i [])) = data.getD i []) :
    ∃ v, prepareRow prep ws skip filler data = some v ∧
      restoreRow rest ws skip v = some ((kept ws.length skip).map (fun i => data.getD i [])) :=
  restore_prepare_any prep rest ws skip filler data hd hwid hinv

end Join

/-! ### Non-vacuity (ℚ, FuzzyART channels alpha = 1/4, beta = 1); the first two were the
counterexamples of findings C11-b / C11-a before the repairs -/

private def ch3 : List (Chan Rat) :=
  [⟨fuzzyKernel (1/4) 1 1, 2, 1/2, 2⟩, ⟨fuzzyKernel (1/4) 1 1, 2, 1/4, 2⟩, ⟨fuzzyKernel (1/4) 1 1, 2, 1/4, 2⟩]
private def W3 : List (List Rat) :=
  [[0, 1, 0, 1, 0, 1], [1, 0, 1, 0, 1, 0], [1/4, 3/4, 1/2, 1/2, 3/4, 1/4]]
private def cen : Nat → List Rat → List Rat := fun _ => fuzzyCentre
private def q3 : List Rat := [1/4, 3/4, 1/2, 1/2, 3/4, 1/4]
private def ccR (v : List Rat) : List Rat := v ++ vcompl v

-- targets [1, 0]: channel 1's centre first, then channel 0's; [1, 2], [0, 2], [-1, -2] work
example : predictRegression ch3 cen [1, 0] W3 q3 = some [[1/2], [1/4]] := by decide +kernel
example : predictRegression ch3 cen [1, 2] W3 q3 = some [[1/2], [3/4]] := by decide +kernel
example : predictRegression ch3 cen [0, 2] W3 q3 = some [[1/4], [3/4]] := by decide +kernel
example : predictRegression ch3 cen [-1, -2] W3 q3 = some [[3/4], [1/2]] := by decide +kernel
-- channel 0 skipped (not a suffix): prepare then restore returns the supplied channel
example : prepareRow (fun _ => ccR) [2, 2] (skipSet 2 [0]) (1/2 : Rat) [[], [1/2]] = some [1/2, 1/2, 1/2, 1/2] ∧
    restoreRow (fun _ => fuzzyCentre) [2, 2] (skipSet 2 [0]) ([1/2, 1/2, 1/2, 1/2] : List Rat) = some [[1/2]] := by
  decide +kernel
-- middle channel skipped
example : (prepareRow (fun _ => ccR) [2, 2, 2] (skipSet 3 [1]) (1/2 : Rat) [[1/4], [], [3/4]]).bind
    (restoreRow (fun _ => fuzzyCentre) [2, 2, 2] (skipSet 3 [1])) = some [[1/4], [3/4]] := by decide +kernel
-- skipping the last channel with index -1 or 2, any filler: same category, the third one
example : predictSkip ch3 [-1] W3 [[1/4, 3/4, 1/2, 1/2, 1/2, 1/2]] = [some 2] := by decide +kernel
example : predictSkip ch3 [2] W3 [[1/4, 3/4, 1/2, 1/2, 0, 1]] = [some 2] := by decide +kernel
-- regression on the last channel (the default `target_channels=[-1]`)
example : predictRegression ch3 cen [-1] W3 q3 = some [[3/4]] := by decide +kernel
-- join / split with the middle channel skipped
example : joinRow [2, 2, 2] (skipSet 3 [1]) (1/2 : Rat) [[0, 1], [1/4, 3/4]] = some [0, 1, 1/2, 1/2, 1/4, 3/4] := by
  decide +kernel
example : splitRow [2, 2, 2] (skipSet 3 [-2]) ([0, 1, 1/2, 1/2, 1/4, 3/4] : List Rat) = [[0, 1], [1/4, 3/4]] := by
  decide +kernel

end Art.C11
