/-
C11 — property theorems (stub; see DESIGN.md §6).
-/
import ArtModel.Basic

namespace Art.C11

end Art.C11
