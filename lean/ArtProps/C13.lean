/-
C13 — property theorems (stub; see DESIGN.md §6).
-/
import ArtModel.Basic

namespace Art.C13

end Art.C13
