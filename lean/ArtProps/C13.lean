/-
C13 — Dual vigilance.

"For each sample DualVigilanceART visits categories in decreasing activation:
the first one passing the upper vigilance absorbs the sample; otherwise the first
one passing only the lower vigilance spawns a new category carrying the same
cluster label; otherwise a new category with a brand-new cluster label is
created.  The category-to-cluster map is total, its values are exactly
0..n_clusters-1, every returned or predicted label is such a cluster label, and
each underlying category still obeys the base module's upper-vigilance bound."

Reading adopted (DESIGN.md §6 C13, the published DVFA rule and the code's single
pass): the FIRST visited, non-vetoed category that passes the upper test in force
or the lower test decides — absorb if it passes the upper one, else spawn.

Where the faithful model departs from the sentence (counterexample + partial):
  * F18 / C13-a  "visited" = activation > 0 (`while any(T > 0)`):
      `dual_zero_activation_counterexample`, `dual_statement_partial`;
  * C13-b  `fit` on an empty batch keeps the previous map:
      `dual_refit_empty_counterexample`, `dual_map_total_fit_partial`;
  * C13-d  the wrapper's match tracking is the non-inverted rule also for a base module
      with an inverted test (BayesianART), so tracking can relax the threshold in force
      below the configured one: `dual_inverted_tracking_counterexample`; partials
      `dual_upper_bound_configured` (explicit hypothesis: tracking only tightens —
      `dual_scalar_tracking_tightens` proves it for the seven non-inverted modules in
      every mode but MT-) and `dual_upper_bound_no_reset_partial`.
  (C13-c / F27 — tracking after a vetoed category that FAILED the upper test — was
   repaired in /repo 1d1ae6e; the model tracks only after a vetoed visit with `m1`.)

Property theorems only; helper lemmas live in ArtProofs.DualVig.
-/
import ArtProofs.DualVig
import ArtModel.Kernels

namespace Art.C13

variable {X Wt α μ θ : Type} [LinearOrder α]

/-! ### The search of one step -/

/-- The loop terminates: any fuel ≥ the number of non-NaN activations gives the same result. -/
theorem dual_terminates (cfg : SearchCfg μ θ) (lb : θ) (pos : α → Bool) (M : Nat → μ)
    (veto : Nat → Bool) (f₁ f₂ : Nat) (T : List (Option α)) (th : θ)
    (h₁ : liveCount T ≤ f₁) (h₂ : liveCount T ≤ f₂) :
    dualSearch cfg lb pos M veto f₁ T th = dualSearch cfg lb pos M veto f₂ T th :=
  dualSearch_fuel_irrelevant cfg lb pos M veto f₁ f₂ T th h₁ h₂

/-- **Visiting order.**  Categories are visited by decreasing activation, ties to
the oldest (`Before`), each at most once; *only categories whose activation is
positive are ever visited* (this is the code's `any(T > 0)`, F18); nobody that
comes before a visited category is skipped. -/
theorem dual_visit_order (cfg : SearchCfg μ θ) (lb : θ) (pos : α → Bool) (hm : PosMono pos)
    (M : Nat → μ) (veto : Nat → Bool) (T : List (Option α)) (th : θ) :
    ((dualSearch cfg lb pos M veto T.length T th).visits.map (·.c)).Pairwise (Before T) ∧
    (∀ v ∈ (dualSearch cfg lb pos M veto T.length T th).visits,
      ∃ a, T[v.c]? = some (some a) ∧ pos a = true) ∧
    (∀ v ∈ (dualSearch cfg lb pos M veto T.length T th).visits, ∀ j, Before T j v.c →
      j ∈ (dualSearch cfg lb pos M veto T.length T th).visits.map (·.c)) :=
  dualSearch_visit_order cfg lb pos M veto hm T.length T th (liveCount_le_length T)

/-- Every visit records the tests of its category: upper test against the
threshold in force, lower test against `rho_lower_bound`, veto of the reset function. -/
theorem dual_visits_faithful (cfg : SearchCfg μ θ) (lb : θ) (pos : α → Bool) (M : Nat → μ)
    (veto : Nat → Bool) (T : List (Option α)) (th : θ) :
    ∀ v ∈ (dualSearch cfg lb pos M veto T.length T th).visits,
      v.m1 = cfg.passes v.th (M v.c) ∧ v.m2 = cfg.passes lb (M v.c) ∧ v.ok = !veto v.c :=
  dualSearch_visits_faithful cfg lb pos M veto T.length T th (liveCount_le_length T)

/-- **The three-way rule.**  With `r` the result of the loop on activations `T`
(visiting order: `dual_visit_order`):
* `r.outcome` is the reference fold `dualRef` over the visited categories: walk
  them in order; a vetoed one that passed the upper test moves the threshold
  (`track`) — or ends the search with a fresh label under MT1 —, a vetoed one that
  failed it is just skipped; the first non-vetoed one passing the upper test
  in force absorbs, passing only the lower test spawns; none → fresh label;
* `absorb c`: `c` is the last visit, not vetoed, passed the upper test in force;
* `spawn c`: `c` is the last visit, not vetoed, failed the upper test in force
  and passed the lower one;
* `fresh`: no visit was a non-vetoed category passing either test;
* a visit that decides is the last one (the loop stops at the first decider). -/
theorem dual_decision (cfg : SearchCfg μ θ) (lb : θ) (pos : α → Bool) (M : Nat → μ)
    (veto : Nat → Bool) (T : List (Option α)) (th : θ) :
    (dualSearch cfg lb pos M veto T.length T th).outcome =
      dualRef cfg lb M veto ((dualSearch cfg lb pos M veto T.length T th).visits.map (·.c)) th ∧
    (∀ c, (dualSearch cfg lb pos M veto T.length T th).outcome = .absorb c →
      ∃ th', (dualSearch cfg lb pos M veto T.length T th).visits.getLast? =
          some ⟨c, th', true, cfg.passes lb (M c), true⟩ ∧
        cfg.passes th' (M c) = true ∧ veto c = false) ∧
    (∀ c, (dualSearch cfg lb pos M veto T.length T th).outcome = .spawn c →
      ∃ th', (dualSearch cfg lb pos M veto T.length T th).visits.getLast? =
          some ⟨c, th', false, true, true⟩ ∧
        cfg.passes th' (M c) = false ∧ cfg.passes lb (M c) = true ∧ veto c = false) ∧
    ((dualSearch cfg lb pos M veto T.length T th).outcome = .fresh →
      ∀ v ∈ (dualSearch cfg lb pos M veto T.length T th).visits, v.decides = false) ∧
    (∀ v ∈ (dualSearch cfg lb pos M veto T.length T th).visits, v.decides = true →
      (dualSearch cfg lb pos M veto T.length T th).visits.getLast? = some v ∧
      (dualSearch cfg lb pos M veto T.length T th).outcome =
        (if v.m1 then .absorb v.c else .spawn v.c)) := by
  have hf := liveCount_le_length T
  obtain ⟨h1, h2, h3⟩ := dualSearch_sound cfg lb pos M veto T.length T th hf
  exact ⟨dualSearch_eq_ref cfg lb pos M veto T.length T th hf, h1, h2, h3,
    dualSearch_decider cfg lb pos M veto T.length T th hf⟩

/-- **Fresh label ⇒ everybody was asked.**  If the sample gets a brand-new cluster
label and the search was not abandoned (MT1 after a vetoed category that passed the
upper test), every category with a positive activation was visited — and none of
them qualified (`dual_decision`). -/
theorem dual_fresh_exhaustive (cfg : SearchCfg μ θ) (lb : θ) (pos : α → Bool) (M : Nat → μ)
    (veto : Nat → Bool) (T : List (Option α)) (th : θ)
    (hfresh : (dualSearch cfg lb pos M veto T.length T th).outcome = .fresh)
    (hkeep : cfg.keep = true ∨
      ∀ v ∈ (dualSearch cfg lb pos M veto T.length T th).visits, v.ok = true ∨ v.m1 = false) :
    ∀ c a, T[c]? = some (some a) → pos a = true →
      c ∈ (dualSearch cfg lb pos M veto T.length T th).visits.map (·.c) :=
  dualSearch_exhaustive cfg lb pos M veto T.length T th (liveCount_le_length T) hfresh hkeep

/-- **Threshold trace.**  The first visit sees the configured upper threshold; it
changes only after a vetoed visit that passed the upper test, to `track th (M c)`
(`dNextTh`). -/
theorem dual_threshold_trace (cfg : SearchCfg μ θ) (lb : θ) (pos : α → Bool) (M : Nat → μ)
    (veto : Nat → Bool) (T : List (Option α)) (th : θ) :
    DThreadsFrom cfg M th (dualSearch cfg lb pos M veto T.length T th).visits
      (dualSearch cfg lb pos M veto T.length T th).th :=
  dualSearch_threshold_trace cfg lb pos M veto T.length T th (liveCount_le_length T)

/-- **No reset function.**  The sample is settled by the first index of maximal
activation among the positive-activation categories passing the upper or the
lower vigilance: absorbed if it passes the upper one, else a category is spawned
under its label; a fresh label iff no such category exists. -/
theorem dual_decision_no_reset (cfg : SearchCfg μ θ) (lb : θ) (pos : α → Bool) (hm : PosMono pos)
    (M : Nat → μ) (T : List (Option α)) (th : θ) :
    (dualSearch cfg lb pos M (fun _ => false) T.length T th).outcome =
      match nanargmax (dualQualifying cfg lb pos M th T) with
      | some c => if cfg.passes th (M c) then .absorb c else .spawn c
      | none => .fresh :=
  dualSearch_no_veto cfg lb pos M hm T.length T th (liveCount_le_length T)

/-- **No reset function, `rho_lower_bound ≤ rho`** (any test for which passing the
upper threshold implies passing the lower one; `passesScalar_of_le` shows this for
every non-inverted scalar test): *the first category passing the lower vigilance
decides* — absorbed if it also passes the upper one, else spawn; fresh label iff
nobody with a positive activation passes the lower vigilance. -/
theorem dual_first_lower_decides (cfg : SearchCfg μ θ) (lb : θ) (pos : α → Bool) (hm : PosMono pos)
    (M : Nat → μ) (T : List (Option α)) (th : θ)
    (himp : ∀ m, cfg.passes th m = true → cfg.passes lb m = true) :
    (dualSearch cfg lb pos M (fun _ => false) T.length T th).outcome =
      match nanargmax (lowerQualifying cfg lb pos M T) with
      | some c => if cfg.passes th (M c) then .absorb c else .spawn c
      | none => .fresh := by
  rw [← dualQualifying_eq_lower cfg lb pos M th T himp]
  exact dualSearch_no_veto cfg lb pos M hm T.length T th (liveCount_le_length T)

/-- the hypothesis of `dual_first_lower_decides` holds for the scalar vigilance test
of the seven non-inverted modules whenever `rho_lower_bound ≤ rho` -/
theorem dual_scalar_upper_implies_lower (mode : MT) (adjP adjM : α → α) (top lb rho : α)
    (h : lb ≤ rho) (m : α)
    (hp : (scalarCfg mode false adjP adjM top).passes rho m = true) :
    (scalarCfg mode false adjP adjM top).passes lb m = true :=
  passesScalar_of_le mode h m hp

/-! ### F18: "visited" means "positive activation" -/

/-- Fuzzy ART over ℚ, `alpha = 2⁻¹⁰`, `beta = 1`, two raw dimensions -/
def fzK : Kernel (List Rat) (List Rat) Rat Rat := fuzzyKernel (1 / 1024) 1 2
/-- MT+ with `epsilon = 0` -/
def fzCfg : SearchCfg Rat Rat := scalarCfg .plus false (· + 0) (· - 0) 0
/-- complement-coded rows `[0,0]`, `[1,1]`, `[0,0]` -/
def fzX : List (List Rat) := [[0, 0, 1, 1], [1, 1, 0, 0], [0, 0, 1, 1]]

/- Full statement (fails): for every stream the model's decision equals the
   decision of the loop that visits *every* category by decreasing activation
   (`pos := fun _ => true`). -/

/-- **F18 (counterexample to the literal statement).**  `rho = 3/4`,
`rho_lower_bound = 0`: the second sample `[1,1]` has `x ∧ w₀ = 0`, activation 0
and match value `0 ≥ rho_lower_bound`.  The statement (every category is visited)
spawns a category under cluster 0: labels `[0,0,0]`.  The implementation's loop
`while any(T > 0)` never looks at category 0 and opens cluster 1: labels `[0,1,0]`. -/
theorem dual_zero_activation_counterexample :
    (dualFit fzK fzCfg (3 / 4) 0 (posOf 0) noVeto {} fzX).base.labels = [0, 1, 0] ∧
    (dualFit fzK fzCfg (3 / 4) 0 (posOf 0) noVeto {} fzX).map = [0, 1] ∧
    (dualFit fzK fzCfg (3 / 4) 0 (fun _ => true) noVeto {} fzX).base.labels = [0, 0, 0] ∧
    (dualFit fzK fzCfg (3 / 4) 0 (fun _ => true) noVeto {} fzX).map = [0, 0] := by
  decide +kernel

/-- **Partial (explicit hypothesis): all non-NaN activations positive.**  Then the
loop of the implementation is the loop of the statement, for every configuration,
veto pattern and fuel. -/
theorem dual_statement_partial (cfg : SearchCfg μ θ) (lb : θ) (pos : α → Bool) (M : Nat → μ)
    (veto : Nat → Bool) (fuel : Nat) (T : List (Option α)) (th : θ)
    (hall : ∀ t ∈ T, ∀ a, t = some a → pos a = true) :
    dualSearch cfg lb pos M veto fuel T th = dualSearch cfg lb (fun _ => true) M veto fuel T th :=
  dualSearch_all_positive cfg lb pos M veto fuel T th hall

/-! ### The map: total, values exactly `0 … n_clusters − 1` -/

variable (K : Kernel X Wt α μ) (cfg : SearchCfg μ θ) (th0 lb : θ) (pos : α → Bool)

/-- **Totality.**  From the initial state, or any consistent state, every
sequence of `partial_fit` batches keeps exactly one map entry per category. -/
theorem dual_map_total (veto : DualState Wt → X → Nat → Bool) (s : DualState Wt) (xs : List X)
    (hi : DualInv s) :
    (dualPartialFit K cfg th0 lb pos veto s xs).map.length =
      (dualPartialFit K cfg th0 lb pos veto s xs).base.W.length :=
  (dualPartialFit_inv K cfg th0 lb pos veto s xs hi).total

/- Full statement (fails for `fit` on an empty batch, C13-b): after `fit` from ANY
   state the map has one entry per category. -/

/-- **Counterexample (C13-b).**  `fit(X)` then `fit` on an empty batch: `W` is
discarded, the map is only replaced when a first sample arrives, so two stale
entries — and `n_clusters = 2` — remain for a model with no category. -/
theorem dual_refit_empty_counterexample :
    (dualFit fzK fzCfg (3 / 4) 0 (posOf 0) noVeto
      (dualFit fzK fzCfg (3 / 4) 0 (posOf 0) noVeto {} fzX) []).base.W.length = 0 ∧
    (dualFit fzK fzCfg (3 / 4) 0 (posOf 0) noVeto
      (dualFit fzK fzCfg (3 / 4) 0 (posOf 0) noVeto {} fzX) []).map = [0, 1] ∧
    nClusters (dualFit fzK fzCfg (3 / 4) 0 (posOf 0) noVeto
      (dualFit fzK fzCfg (3 / 4) 0 (posOf 0) noVeto {} fzX) []).map = 2 := by
  decide +kernel

/-- **Partial: `fit` on a non-empty stream**, from any previous state whatsoever
(stale map included), ends with exactly one map entry per category. -/
theorem dual_map_total_fit_partial (veto : DualState Wt → X → Nat → Bool) (s : DualState Wt)
    (xs : List X) (hne : xs ≠ []) :
    (dualFit K cfg th0 lb pos veto s xs).map.length =
      (dualFit K cfg th0 lb pos veto s xs).base.W.length :=
  (dualFit_inv K cfg th0 lb pos veto s xs hne).total

/-- **Range.**  After any training history (batches of `partial_fit` from a
consistent state, or `fit` on a non-empty stream from any state) the set of map
values is exactly `{0, …, n_clusters − 1}`: every value is `< n_clusters` and every
`j < n_clusters` occurs. -/
theorem dual_map_range (veto : DualState Wt → X → Nat → Bool) (s : DualState Wt) (xs : List X) :
    (DualInv s →
      (∀ v ∈ (dualPartialFit K cfg th0 lb pos veto s xs).map,
        v < nClusters (dualPartialFit K cfg th0 lb pos veto s xs).map) ∧
      (∀ j, j < nClusters (dualPartialFit K cfg th0 lb pos veto s xs).map →
        j ∈ (dualPartialFit K cfg th0 lb pos veto s xs).map)) ∧
    (xs ≠ [] →
      (∀ v ∈ (dualFit K cfg th0 lb pos veto s xs).map,
        v < nClusters (dualFit K cfg th0 lb pos veto s xs).map) ∧
      (∀ j, j < nClusters (dualFit K cfg th0 lb pos veto s xs).map →
        j ∈ (dualFit K cfg th0 lb pos veto s xs).map)) :=
  ⟨fun hi => nClusters_spec (dualPartialFit_inv K cfg th0 lb pos veto s xs hi).contig,
   fun hne => nClusters_spec (dualFit_inv K cfg th0 lb pos veto s xs hne).contig⟩

omit [LinearOrder α] in
/-- **New labels are `max + 1 = n_clusters`.**  On a consistent non-empty model a
`fresh` decision returns the label `n_clusters` and raises `n_clusters` by one;
`absorb` and `spawn` return an existing label and leave `n_clusters` unchanged. -/
theorem dual_new_label_is_next (s : DualState Wt) (x : X) (hi : DualInv s) (hne : s.base.W ≠ []) :
    (dualApply K s x (some .fresh)).2 = nClusters s.map ∧
    nClusters (dualApply K s x (some .fresh)).1.map = nClusters s.map + 1 ∧
    (∀ c, (dualApply K s x (some (.spawn c))).2 ∈ s.map ∧
      nClusters (dualApply K s x (some (.spawn c))).1.map = nClusters s.map) ∧
    (∀ c, (dualApply K s x (some (.absorb c))).2 ∈ s.map ∧
      (dualApply K s x (some (.absorb c))).1.map = s.map) := by
  have hm : s.map ≠ [] := by
    intro h
    have := hi.total; rw [h] at this
    exact hne (List.length_eq_zero_iff.mp this.symm)
  have hk := nClusters_eq hi.contig hm
  have hfresh : Contig (s.map ++ [mapMax s.map + 1]) := contig_append_succ_max hi.contig hm
  refine ⟨by simp [dualApply, hk], ?_, ?_, ?_⟩
  · have : mapMax (s.map ++ [mapMax s.map + 1]) = mapMax s.map + 1 := by
      apply Nat.le_antisymm
      · have := mapMax_mem (m := s.map ++ [mapMax s.map + 1]) (by simp)
        simp only [List.mem_append, List.mem_singleton] at this
        rcases this with h | h
        · exact Nat.le_succ_of_le (le_mapMax h)
        · exact Nat.le_of_eq h
      · exact le_mapMax (by simp)
    simp only [dualApply, dualAdd]
    rw [nClusters_eq hfresh (by simp), this, hk]
  · intro c
    have hmem := getD_mem_of_contig hi.contig hm c
    refine ⟨by simpa [dualApply] using hmem, ?_⟩
    have hc' : Contig (s.map ++ [s.map.getD c 0]) := contig_append_mem hi.contig hmem
    have : mapMax (s.map ++ [s.map.getD c 0]) = mapMax s.map := by
      apply Nat.le_antisymm
      · have := mapMax_mem (m := s.map ++ [s.map.getD c 0]) (by simp)
        simp only [List.mem_append, List.mem_singleton] at this
        rcases this with h | h
        · exact le_mapMax h
        · rw [h]; exact le_mapMax hmem
      · exact le_mapMax (List.mem_append_left _ (mapMax_mem hm))
    simp only [dualApply, dualAdd]
    rw [nClusters_eq hc' (by simp), this, hk]
  · intro c
    have hmem := getD_mem_of_contig hi.contig hm c
    constructor
    · simp only [dualApply]; split <;> exact hmem
    · simp only [dualApply]; split <;> rfl

/-- **Returned labels are cluster labels.**  Every entry of `labels_` is a value
of the map and `< n_clusters`. -/
theorem dual_returns_cluster_label (veto : DualState Wt → X → Nat → Bool) (s : DualState Wt)
    (xs : List X) :
    (DualInv s → ∀ l ∈ (dualPartialFit K cfg th0 lb pos veto s xs).base.labels,
      l ∈ (dualPartialFit K cfg th0 lb pos veto s xs).map ∧
      l < nClusters (dualPartialFit K cfg th0 lb pos veto s xs).map) ∧
    (xs ≠ [] → ∀ l ∈ (dualFit K cfg th0 lb pos veto s xs).base.labels,
      l ∈ (dualFit K cfg th0 lb pos veto s xs).map ∧
      l < nClusters (dualFit K cfg th0 lb pos veto s xs).map) := by
  constructor
  · intro hi l hl
    have inv := dualPartialFit_inv K cfg th0 lb pos veto s xs hi
    exact ⟨inv.labels l hl, (nClusters_spec inv.contig).1 _ (inv.labels l hl)⟩
  · intro hne l hl
    have inv := dualFit_inv K cfg th0 lb pos veto s xs hne
    exact ⟨inv.labels l hl, (nClusters_spec inv.contig).1 _ (inv.labels l hl)⟩

/-- **Predicted labels are cluster labels**, and a consistent non-empty model
answers for every sample. -/
theorem dual_predict_in_range (s : DualState Wt) (hi : DualInv s) (xs : List X) :
    (∀ o ∈ dualPredict K s xs, ∀ l, o = some l → l ∈ s.map ∧ l < nClusters s.map) ∧
    (s.base.W ≠ [] → ∀ o ∈ dualPredict K s xs, ∃ l, o = some l) := by
  constructor
  · intro o ho l hl
    simp only [dualPredict, List.mem_map] at ho
    obtain ⟨x, _, hx⟩ := ho
    have hmem := dualStepPred_mem K s x l (hx.trans hl)
    exact ⟨hmem, (nClusters_spec hi.contig).1 _ hmem⟩
  · intro hne o ho
    simp only [dualPredict, List.mem_map] at ho
    obtain ⟨x, _, hx⟩ := ho
    obtain ⟨l, hl⟩ := dualStepPred_isSome K s x hi hne
    exact ⟨l, hx ▸ hl⟩

/-! ### The base module's upper-vigilance bound -/

/-- **Frame / upper bound.**  In one step on a non-empty model either exactly the
category `new_weight x` is appended (no existing weight changes, the old map is a
prefix of the new one), or one weight `W[c]` changes, to `update x W[c]`, the map is
untouched, and `c` was not vetoed and passed the UPPER test against the threshold
in force at its visit.  Spawned and fresh categories are `new_weight x`. -/
theorem dual_upper_bound_respected (vetoL : Nat → Bool) (s : DualState Wt) (x : X)
    (hne : s.base.W ≠ []) :
    ((dualStepFit K cfg th0 lb pos vetoL s x).1.base.W = s.base.W ++ [K.newW x] ∧
      (dualStepFit K cfg th0 lb pos vetoL s x).1.map.length = s.map.length + 1 ∧
      (dualStepFit K cfg th0 lb pos vetoL s x).1.map.take s.map.length = s.map ∧
      ∀ c, (dualStepSearch K cfg th0 lb pos vetoL s x).outcome ≠ .absorb c) ∨
    (∃ c w th', (dualStepSearch K cfg th0 lb pos vetoL s x).outcome = .absorb c ∧
      s.base.W[c]? = some w ∧
      (dualStepFit K cfg th0 lb pos vetoL s x).1.base.W = s.base.W.set c (K.update x w) ∧
      (dualStepFit K cfg th0 lb pos vetoL s x).1.map = s.map ∧
      (dualStepSearch K cfg th0 lb pos vetoL s x).visits.getLast? =
        some ⟨c, th', true, cfg.passes lb (K.matchv x w), true⟩ ∧
      cfg.passes th' (K.matchv x w) = true ∧ vetoL (s.map.getD c 0) = false) :=
  dualStepFit_frame K cfg th0 lb pos vetoL s x hne

/-- **Upper bound against the CONFIGURED threshold**, with or without a reset
function, whenever match tracking only tightens the test (`TrackTightens`): the
category that absorbs a sample passed the configured upper vigilance `th0`, and its
weight becomes `update x W[c]`. -/
theorem dual_upper_bound_configured (ht : TrackTightens cfg) (vetoL : Nat → Bool)
    (s : DualState Wt) (x : X) (hne : s.base.W ≠ []) (c : Nat)
    (ho : (dualStepSearch K cfg th0 lb pos vetoL s x).outcome = .absorb c) :
    ∃ w, s.base.W[c]? = some w ∧
      (dualStepFit K cfg th0 lb pos vetoL s x).1.base.W = s.base.W.set c (K.update x w) ∧
      cfg.passes th0 (K.matchv x w) = true :=
  dualStepFit_absorb_configured K cfg th0 lb pos ht vetoL s x hne c ho

/-- `TrackTightens` holds for the scalar test of the seven non-inverted modules under
MT+, MT0, MT1, MT~ with `M + epsilon ≥ M`.  (MT- lowers the threshold by design, F20.) -/
theorem dual_scalar_tracking_tightens (mode : MT) (hmode : mode ≠ .minus) (adjP adjM : α → α)
    (top : α) (hadj : ∀ m, m ≤ adjP m) : TrackTightens (scalarCfg mode false adjP adjM top) :=
  scalar_track_tightens mode hmode adjP adjM top hadj

/-- Every threshold in force during a search is at least as strict as the configured
one when tracking only tightens. -/
theorem dual_threshold_tightens (cfg : SearchCfg μ θ) (lb : θ) (pos : α → Bool) (M : Nat → μ)
    (veto : Nat → Bool) (ht : TrackTightens cfg) (T : List (Option α)) (th : θ) :
    ∀ v ∈ (dualSearch cfg lb pos M veto T.length T th).visits,
      ∀ m, cfg.passes v.th m = true → cfg.passes th m = true :=
  dualSearch_tightens cfg lb pos M veto ht T.length T th (liveCount_le_length T)

/- Full statement (fails for an inverted base module, C13-d): an absorbing category
   passes the CONFIGURED upper threshold `th0`, for every configuration. -/

/-- MT+ with `epsilon = 0` on integers: `passes th m = (th ≤ m)`, `track _ m = m`. -/
def intCfg : SearchCfg Int Int := scalarCfg .plus false (· + 0) (· - 0) 1000

/-- inverted vigilance test (`m ≤ th`, BayesianART) with the wrapper's non-inverted MT+ tracking,
`epsilon = 2` -/
def invCfg : SearchCfg Int Int :=
  { passes := passesScalar .plus true, track := trackScalar .plus (· + 2) (· - 2) 1000,
    keep := true, tilde := false }

/-- **Counterexample (C13-d), inverted base module.**  Configured `rho = 5`: category 0
(match 4) PASSES `4 ≤ 5` and is vetoed; the non-inverted rule sets `rho := 4 + 2 = 6`,
relaxing the inverted test; category 1 (match 6) passes `6 ≤ 6` and absorbs the sample
although `6 > 5`. -/
theorem dual_inverted_tracking_counterexample :
    (dualSearch invCfg 0 (posOf 0) (fun c => [4, 6].getD c 0) (fun c => [true, false].getD c false)
      2 [some 3, some 2] 5).outcome = .absorb 1 ∧
    invCfg.passes 5 ((fun c => [4, 6].getD c 0) 0) = true ∧
    invCfg.passes 5 ((fun c => [4, 6].getD c 0) 1) = false := by
  decide

/-- **Partial: no reset function.**  The threshold in force is the configured one
at every visit, so a category that absorbs a sample passed the configured upper
vigilance. -/
theorem dual_upper_bound_no_reset_partial (s : DualState Wt) (x : X) (hne : s.base.W ≠ []) (c : Nat)
    (ho : (dualStepSearch K cfg th0 lb pos (fun _ => false) s x).outcome = .absorb c) :
    ∃ w, s.base.W[c]? = some w ∧
      (dualStepFit K cfg th0 lb pos (fun _ => false) s x).1.base.W = s.base.W.set c (K.update x w) ∧
      cfg.passes th0 (K.matchv x w) = true := by
  rcases dualStepFit_frame K cfg th0 lb pos (fun _ => false) s x hne with h | h
  · exact absurd ho (h.2.2.2 c)
  · obtain ⟨c', w, th', ho', hw, hW, _, hl, hp, _⟩ := h
    rw [ho] at ho'
    simp only [DualOutcome.absorb.injEq] at ho'
    subst ho'
    have hth := dualSearch_no_veto_threshold cfg lb pos (matchAt K s.base.W x)
      (activations K s.base.W x).length (activations K s.base.W x) th0 (liveCount_le_length _)
      _ (List.mem_of_getLast? hl)
    simp only at hth
    exact ⟨w, hw, hW, hth ▸ hp⟩

/-! ### Parameters -/

/-- **Parameters restored.**  The configured thresholds `th0`, `lb` are arguments
of the step: each sample of a fold is searched with the same configured values
(the fold over `xs ++ [x]` is the fold over `xs` followed by one step with the
same `th0`, `lb`), and the first visit of every search sees exactly `th0`,
whatever threshold the previous search ended with. -/
theorem dual_params_restored (veto : DualState Wt → X → Nat → Bool) (s : DualState Wt)
    (xs : List X) (x : X) :
    dualPartialFit K cfg th0 lb pos veto s (xs ++ [x]) =
      dualTrainStep K cfg th0 lb pos veto (dualPartialFit K cfg th0 lb pos veto s xs) x ∧
    ∀ (vetoL : Nat → Bool) (s' : DualState Wt) (x' : X) (v : DVisit θ),
      (dualStepSearch K cfg th0 lb pos vetoL s' x').visits.head? = some v → v.th = th0 := by
  constructor
  · simp [dualPartialFit, List.foldl_append]
  · intro vetoL s' x' v hv
    have ht := dualSearch_threshold_trace cfg lb pos (matchAt K s'.base.W x')
      (fun c => vetoL (s'.map.getD c 0)) (activations K s'.base.W x').length
      (activations K s'.base.W x') th0 (liveCount_le_length _)
    unfold dualStepSearch at hv
    simp only at hv
    cases hvis : (dualSearch cfg lb pos (matchAt K s'.base.W x') (fun c => vetoL (s'.map.getD c 0))
        (activations K s'.base.W x').length (activations K s'.base.W x') th0).visits with
    | nil => rw [hvis] at hv; simp at hv
    | cons v' vs =>
      rw [hvis] at hv ht
      simp only [List.head?_cons, Option.some.injEq] at hv
      subst hv
      exact ht.1

/-! ### Non-vacuity -/

/-- the first sample: category 0, cluster 0, `map = [0]` -/
example : (dualFit fzK fzCfg (3 / 4) (1 / 4) (posOf 0) noVeto {} [[0, 0, 1, 1]]).map = [0] ∧
    (dualFit fzK fzCfg (3 / 4) (1 / 4) (posOf 0) noVeto {} [[0, 0, 1, 1]]).base.labels = [0] := by
  decide +kernel

/-- Fuzzy ART over ℚ on one raw dimension -/
def fzK1 : Kernel (List Rat) (List Rat) Rat Rat := fuzzyKernel (1 / 1024) 1 1
/-- raw points `.25, .5, 1, .25`, complement coded -/
def fzX1 : List (List Rat) := [[1 / 4, 3 / 4], [1 / 2, 1 / 2], [1, 0], [1 / 4, 3 / 4]]

/-- all three branches on one stream (`rho = 7/8`, `rho_lower_bound = 5/8`): spawn under
cluster 0, fresh cluster 1, absorb into category 0 -/
example :
    (dualFit fzK1 fzCfg (7 / 8) (5 / 8) (posOf 0) noVeto {} fzX1).base.labels = [0, 0, 1, 0] ∧
    (dualFit fzK1 fzCfg (7 / 8) (5 / 8) (posOf 0) noVeto {} fzX1).map = [0, 0, 1] ∧
    nClusters (dualFit fzK1 fzCfg (7 / 8) (5 / 8) (posOf 0) noVeto {} fzX1).map = 2 ∧
    (dualFit fzK1 fzCfg (7 / 8) (5 / 8) (posOf 0) noVeto {} fzX1).base.cnt = [2, 1, 1] ∧
    (dualFit fzK1 fzCfg (7 / 8) (5 / 8) (posOf 0) noVeto {} fzX1).base.W.length = 3 := by
  decide +kernel

/-- an exact activation tie goes to the oldest category; match equal to the
threshold passes under MT+ (`≥`) -/
example :
    (dualSearch intCfg 1 (posOf 0) (fun c => [9, 9].getD c 0) (fun _ => false)
      2 [some 4, some 4] 9).outcome = .absorb 0 := by
  decide

/-- only the lower test passes (match exactly `rho_lower_bound`): spawn under the best category -/
example :
    (dualSearch intCfg 1 (posOf 0) (fun c => [0, 1].getD c 0) (fun _ => false)
      2 [some 4, some 5] 9).outcome = .spawn 1 := by
  decide

/-- a vetoed best category is skipped, the threshold tracks, the next one decides -/
example :
    (dualSearch intCfg 1 (posOf 0) (fun c => [9, 9].getD c 0) (fun c => [true, false].getD c false)
      2 [some 5, some 4] 9).outcome = .absorb 1 := by
  decide

/-- F27 regression: a vetoed category that FAILED the upper test (match 5 < 9) no longer
tracks; category 1 (match 7) is judged against the configured 9, fails it, passes the lower
bound 1 and spawns (before the fix it was absorbed against a threshold lowered to 5) -/
example :
    (dualSearch intCfg 1 (posOf 0) (fun c => [5, 7].getD c 0) (fun c => [true, false].getD c false)
      2 [some 3, some 2] 9).outcome = .spawn 1 := by
  decide

/-- the hypothesis of `dual_upper_bound_configured` is satisfiable: MT+ on integers -/
example : TrackTightens intCfg :=
  dual_scalar_tracking_tightens .plus (by decide) (· + 0) (· - 0) 1000 (fun m => by simp)

/-- MT1: the first vetoed match abandons the search — fresh label although category 1 qualifies -/
example :
    (dualSearch (scalarCfg .one false (· + 0) (· - 0) (1000 : Int)) 1 (posOf 0)
      (fun c => [9, 9].getD c 0) (fun c => [true, false].getD c false)
      2 [some 5, some 4] 9).outcome = .fresh := by
  decide

/-- the hypotheses of `dual_first_lower_decides` are satisfiable: MT+ on integers, `1 ≤ 9` -/
example : PosMono (posOf (0 : Int)) ∧
    ∀ m, intCfg.passes 9 m = true → intCfg.passes 1 m = true :=
  ⟨posOf_mono 0, fun m h => dual_scalar_upper_implies_lower .plus (· + 0) (· - 0) 1000 1 9 (by decide) m h⟩

/-- the initial state is consistent (hypothesis of `dual_map_total` / `dual_map_range`) -/
example : DualInv ({} : DualState (List Rat)) := dualInv_init

end Art.C13
