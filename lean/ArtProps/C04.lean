/-
C04 — property theorems (stub; see DESIGN.md §6).
-/
import ArtModel.Basic

namespace Art.C04

end Art.C04
