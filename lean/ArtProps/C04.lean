/-
C04 — Training is total and numerically well-defined on every valid data set.

In an ordered field "finite" is automatic; what can go wrong is a division by
zero (Python raises `ZeroDivisionError` on float/float, numpy yields inf/NaN).
The theorems show that under each model's own validation and the property's
standing guards every denominator the kernels divide by is strictly positive
for every weight that training can produce — the proofs *use* C02's vigilance
bounds.  Overflow/underflow of `exp`, `1/σ²`, LAPACK conditioning are float-only
and outside these theorems (named in the trusted base; probed by the check).
-/
import ArtProofs.Kernels

namespace Art.C04

set_option linter.unusedSectionVars false

variable {α : Type} [Field α] [LinearOrder α] [IsStrictOrderedRing α]

/-- entries of a valid sample / weight lie in `[0,1]` -/
def InUnit (v : List α) : Prop := ∀ t ∈ v, 0 ≤ t ∧ t ≤ 1

theorem vsum_nonneg_of_inUnit (v : List α) (h : InUnit v) : 0 ≤ vsum v := by
  induction v with
  | nil => simp [vsum]
  | cons a v ih =>
    simp only [vsum]
    have h1 := (h a (by simp)).1
    have h2 := ih (fun t ht => h t (by simp [ht]))
    linarith

/-- **Fuzzy ART activation is defined**: the denominator `alpha + |w|` is positive
whenever the weight respects the vigilance bound `|w| ≥ rho·d` (C02) and either
`rho > 0`, or `alpha > 0` with non-negative weights (the literature's standing
assumption for `rho = 0`). -/
theorem fuzzy_choice_defined (alpha ρ d : α) (w : List α) (hα : 0 ≤ alpha) (hd : 0 < d)
    (hbound : ρ * d ≤ vsum w) (hguard : 0 < ρ ∨ (0 < alpha ∧ 0 ≤ vsum w)) :
    0 < alpha + vsum w := by
  rcases hguard with h | ⟨h1, h2⟩
  · have : 0 < ρ * d := mul_pos h hd
    linarith
  · linarith

/-- Fuzzy ART match value divides by the original dimension `d ≥ 1`. -/
theorem fuzzy_match_defined (d : Nat) (hd : 1 ≤ d) : (0 : α) < (d : α) := by
  exact_mod_cast hd

/-- **ART1 match and update are defined**: `|x| > 0` for non-zero binary rows, and
`L − 1 + |t'| > 0` because the new template covers at least a `rho` fraction of
`x` (`|t'| ≥ rho |x| > 0`) or `L > 1`. -/
theorem art1_update_defined (L ρ nx nt : α) (hL : 1 ≤ L) (hx : 0 < nx) (hcover : ρ * nx ≤ nt)
    (hnt : 0 ≤ nt) (hguard : 0 < ρ ∨ 1 < L) : 0 < L - 1 + nt := by
  rcases hguard with h | h
  · have : 0 < ρ * nx := mul_pos h hx
    linarith
  · linarith

/-- ART1 new-category scaling `L / (L − 1 + |x|)` is defined for non-zero binary rows. -/
theorem art1_new_defined (L nx : α) (hL : 1 ≤ L) (hx : 0 < nx) : 0 < L - 1 + nx := by
  linarith

/-- **Hypersphere ART activation is defined**: `r̂ − R + alpha > 0` for every radius
within the vigilance bound `R ≤ r̂(1 − rho)` (C02), given `r̂ > 0` and `rho > 0`
or `alpha > 0`. -/
theorem sphere_choice_defined (alpha ρ rhat R : α) (hα : 0 ≤ alpha) (hr : 0 < rhat) (hρ0 : 0 ≤ ρ)
    (hbound : R ≤ rhat * (1 - ρ)) (hguard : 0 < ρ ∨ 0 < alpha) : 0 < rhat - R + alpha := by
  rcases hguard with h | h
  · have : 0 < rhat * ρ := mul_pos hr h
    nlinarith
  · have : 0 ≤ rhat * ρ := mul_nonneg (le_of_lt hr) hρ0
    nlinarith

/-- **Ellipsoid ART activation is defined**: `r̂ − 2R + alpha > 0` for `R ≤ r̂(1 − rho)/2`. -/
theorem ellipsoid_choice_defined (alpha ρ rhat R : α) (hα : 0 ≤ alpha) (hr : 0 < rhat) (hρ0 : 0 ≤ ρ)
    (hbound : R ≤ rhat * (1 - ρ) / (1 + 1)) (hguard : 0 < ρ ∨ 0 < alpha) :
    0 < rhat - (1 + 1) * R + alpha := by
  have h2 : (1 + 1) * R ≤ rhat * (1 - ρ) := by
    have := mul_le_mul_of_nonneg_left hbound (by norm_num : (0:α) ≤ 1 + 1)
    rwa [mul_div_cancel₀ _ (by norm_num : (1 + 1 : α) ≠ 0)] at this
  rcases hguard with h | h
  · have : 0 < rhat * ρ := mul_pos hr h
    nlinarith
  · have : 0 ≤ rhat * ρ := mul_nonneg (le_of_lt hr) hρ0
    nlinarith

/-- **Hypersphere / Ellipsoid centre update never divides 0/0** (repaired defect
F02): the shrink factor is taken as 0 exactly when the distance is not positive,
so the only division `min(R,dist)/dist` happens with `dist > 0`; and when the
distance is 0 the centre provably does not move. -/
theorem sphere_update_defined (β : α) (x w : List α) [Transc α]
    (h : ¬ 0 < sphDist x w) :
    sphUpdate β x w =
      vadd (sphCentre w) (smul 0 (smul (β / (1 + 1)) (vsub x (sphCentre w)))) ++
        [sphRadius w + β / (1 + 1) * (max (sphRadius w) (sphDist x w) - sphRadius w)] := by
  unfold sphUpdate
  simp [h]

/-- **Gaussian ART variances stay positive**: `σ'² = (1 − 1/n')σ² + (1/n')(μ' − x)²`
with `n' = n + 1 ≥ 2` keeps `σ'² ≥ (1 − 1/n')σ² > 0`, so `1/σ'²` is defined. -/
theorem gaussian_sigma_positive (n σ2 dev2 : α) (hn : 1 ≤ n) (hσ : 0 < σ2) (hdev : 0 ≤ dev2) :
    0 < (1 - 1 / (n + 1)) * σ2 + 1 / (n + 1) * dev2 := by
  have hn1 : 0 < n + 1 := by linarith
  have h1 : 0 < 1 - 1 / (n + 1) := by
    rw [sub_pos, div_lt_one hn1]; linarith
  have h2 : 0 ≤ 1 / (n + 1) * dev2 := mul_nonneg (by positivity) hdev
  have h3 : 0 < (1 - 1 / (n + 1)) * σ2 := mul_pos h1 hσ
  linarith

/-- The Gaussian/Bayesian prior `n_j / Σ n` divides by a positive count. -/
theorem prior_defined (counts : List α) (h : ∀ c ∈ counts, 1 ≤ c) (hne : counts ≠ []) : 0 < counts.sum := by
  cases counts with
  | nil => exact absurd rfl hne
  | cons c cs =>
    have hc := h c (by simp)
    have : 0 ≤ cs.sum := List.sum_nonneg (fun t ht => by have := h t (by simp [ht]); linarith)
    simp only [List.sum_cons]; linarith

/-- Without the guard the denominator can vanish: `rho = 0`, `alpha = 0` and an
all-zero weight (the literature's excluded case), shown over ℚ. -/
example : (0 : ℚ) + vsum ([0, 0] : List ℚ) = 0 := by norm_num [vsum]

end Art.C04
