/-
C08 — Prediction is a pure, row-wise arg-max of activation.

In the model `predict` is `List.map` of `step_pred` over the rows and returns no
state: purity and row-independence are structural.  The theorems spell out the
consequences the property names and the arg-max rule (`np.argmax`: first index
of the maximal activation; `none` only for an empty model).
-/
import ArtProofs.Predict

namespace Art.C08

variable {X Wt α μ θ : Type} [LinearOrder α]

/-- each row is labelled independently of the rest of the batch -/
theorem predict_pointwise (K : Kernel X Wt α μ) (W : List Wt) (xs : List X) (i : Nat) :
    (predict K W xs)[i]? = (xs[i]?).map (stepPred K W) :=
  predict_getElem? K W xs i

/-- batching -/
theorem predict_batching (K : Kernel X Wt α μ) (W : List Wt) (xs ys : List X) :
    predict K W (xs ++ ys) = predict K W xs ++ predict K W ys :=
  predict_append K W xs ys

/-- row permutation -/
theorem predict_permutation (K : Kernel X Wt α μ) (W : List Wt) {xs ys : List X} (h : xs.Perm ys) :
    (predict K W xs).Perm (predict K W ys) :=
  predict_perm K W h

/-- repetition -/
theorem predict_repetition (K : Kernel X Wt α μ) (W : List Wt) (x : X) (n : Nat) :
    predict K W (List.replicate n x) = List.replicate n (stepPred K W x) :=
  predict_replicate K W x n

/-- with finite activations, each row receives the oldest category of maximal activation -/
theorem predict_is_first_argmax (K : Kernel X Wt α μ) (W : List Wt) (x : X) (k : Nat)
    (hfin : ∀ w ∈ W, K.choice W x w ≠ none) (h : stepPred K W x = some k) :
    ∃ v, IsFirstMax (activations K W x) k v :=
  stepPred_first_max K W x k hfin h

/-- no prediction is outside the trained range, and a non-empty model always predicts -/
theorem predict_in_range (K : Kernel X Wt α μ) (W : List Wt) (x : X) :
    (∀ k, stepPred K W x = some k → k < W.length) ∧ (W ≠ [] → (stepPred K W x).isSome) :=
  ⟨fun k h => stepPred_lt K W x k h, stepPred_isSome K W x⟩

/-- SimpleARTMAP / ARTMAP (after any training history, hence `MapInv` and
`Consistent`): the prediction is the map of the A-side prediction and is a class
seen in training. -/
theorem smap_predict_spec (K : Kernel X Wt α μ) {s : SMapState Wt} (hm : MapInv s)
    (hc : Consistent s.a) (x : X) (hne : s.a.W ≠ []) :
    ∃ c y, stepPred K s.a.W x = some c ∧ mapGet s.map c = some y ∧
      smapStepPred K s x = some (c, y) ∧ y ∈ s.labelsB :=
  smapStepPred_spec K hm hc x hne

/-! Non-vacuity -/
private def K0 : Kernel Int Int Int Int :=
  { choice := fun _ x w => some (-(x - w).natAbs), matchv := fun _ _ => 0,
    update := fun _ w => w, newW := fun x => x }
-- tie between categories 0 and 2 (both at distance 1 from 1): the oldest wins
example : predict K0 [0, 7, 2] [1, 7, 100] = [some 0, some 1, some 1] := by decide

end Art.C08
