/-
C08 — property theorems (stub; see DESIGN.md §6).
-/
import ArtModel.Basic

namespace Art.C08

end Art.C08
