/-
C15 — property theorems (stub; see DESIGN.md §6).
-/
import ArtModel.Basic

namespace Art.C15

end Art.C15
