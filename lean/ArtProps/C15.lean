/-
C15 — the incrementally maintained Calinski-Harabasz value equals the batch index
of the current labelled data; a sample joins an existing cluster only if that
strictly improves the validity index.
Property theorems only; the algebra lives in `ArtProofs/ICVI.lean`.

Everything is stated for an arbitrary ordered field `α` (characteristic 0 follows),
any dimension `d`, any data, any history.  Floating-point rounding is outside the
theorems (finding F26: the `WGSS == 0` test on a float with rounding residue).
-/
import Mathlib.Algebra.Order.Field.Rat
import Mathlib.Tactic.NormNum
import ArtProofs.ICVI

namespace Art.C15

open Art.ICVI

set_option linter.unusedSectionVars false

variable {α : Type} [Field α] [LinearOrder α] [IsStrictOrderedRing α] {d : Nat}

/-! ### incremental = batch -/

/-- The freshly constructed object describes the empty data set. -/
theorem init_inv : Inv d (init d : State α) [] := Art.ICVI.init_inv

/-- `add_sample(x, l)` followed by `update` keeps the invariant: the record then
describes the data with the labelled point `(x, l)` added — for a new label and for
an existing one. -/
theorem add_preserves_inv {st : State α} {D : List (List α × Nat)} {x : List α} {l : Nat}
    (hwf : WF d D) (hx : x.length = d) (hI : Inv d st D) :
    Inv d (update st (addSample st x l)) ((x, l) :: D) :=
  add_inv hwf hx hI

/-- `switch_label(x, lo, ln)` followed by `update`, under the API's precondition
(the sample `(x, lo)` is in the data; for `lo ≠ ln` its cluster has ≥ 2 members):
the call does not raise and the record then describes the data with that one
sample relabelled — to a new label or to an existing one, or to itself. -/
theorem switch_preserves_inv {st : State α} {D₁ D₂ : List (List α × Nat)} {x : List α}
    {lo ln : Nat} (hwf : WF d (D₁ ++ (x, lo) :: D₂)) (hI : Inv d st (D₁ ++ (x, lo) :: D₂))
    (hpre : lo ≠ ln → 2 ≤ (members (D₁ ++ (x, lo) :: D₂) lo).length) :
    ∃ p, switchLabel st x lo ln = some p ∧ Inv d (update st p) (D₁ ++ (x, ln) :: D₂) :=
  switch_inv hwf hI hpre

/-- **Invariant.**  After any permitted interleaving of add-sample and
switch-label operations (`Reach`), the record describes the labelled data `D`:
`n = |D|`, `mu = mean D`, one entry per label present with
`(n_l, v_l, CP_l, G_l) = (|D_l|, mean D_l, Σ‖x − v_l‖², 0)`, `WGSS = Σ_l CP_l`, and
`criterion_value` is the batch index. -/
theorem icvi_inv {st : State α} {D : List (List α × Nat)} (h : Reach d st D) : Inv d st D :=
  (reach_inv h).2

/-- What the invariant says about one dictionary entry, spelled out. -/
theorem inv_entry {st : State α} {D : List (List α × Nat)} (hI : Inv d st D) {l : Nat} {c : Clu α}
    (hc : (l, c) ∈ st.CD) :
    l ∈ D.map (·.2) ∧ c.n = (members D l).length ∧ c.v = vmean d (members D l) ∧
      c.CP = ssq (members D l) (vmean d (members D l)) ∧ c.G = vzero d := by
  have hk : l ∈ st.CD.map (·.1) := List.mem_map.mpr ⟨(l, c), hc, rfl⟩
  rw [hI.entries, List.mem_map] at hc
  obtain ⟨k, _, he⟩ := hc
  simp only [Prod.mk.injEq] at he
  obtain ⟨rfl, rfl⟩ := he
  exact ⟨(hI.keys_mem k).mp hk, rfl, rfl, rfl, rfl⟩

/-- `WGSS` is the sum of the compactness values stored in the dictionary. -/
theorem inv_wgss_sum {st : State α} {D : List (List α × Nat)} (hI : Inv d st D) :
    st.WGSS = (st.CD.map (fun e => e.2.CP)).sum := by
  rw [hI.wgss_eq, wgssB_keys hI.keys_nodup hI.keys_mem]
  conv_rhs => rw [hI.entries]
  simp [List.map_map, Function.comp_def]

/-- **Incremental = batch.**  After any permitted sequence of operations the
tracked `criterion_value` is the Calinski-Harabasz index of the current labelled
data (0 while that is undefined). -/
theorem criterion_eq_batch {st : State α} {D : List (List α × Nat)} (h : Reach d st D) :
    st.crit = chBatch D := by
  obtain ⟨hwf, hI⟩ := reach_inv h
  rw [chBatch_eq hwf]
  exact hI.crit_eq

/-- The candidate value returned by `add_sample` (before any `update`) is already
the batch index of the data with the sample added: what `iCVI_match` compares in
online mode. -/
theorem add_candidate_eq_batch {st : State α} {D : List (List α × Nat)} (h : Reach d st D)
    {x : List α} (hx : x.length = d) (l : Nat) :
    (addSample st x l).crit = chBatch ((x, l) :: D) := by
  rw [← update_crit st]
  exact criterion_eq_batch (Reach.add x l h hx)

/-- The candidate value returned by `switch_label` is the batch index of the
relabelled data: what `iCVI_match` compares in offline mode. -/
theorem switch_candidate_eq_batch {st : State α} {D₁ D₂ : List (List α × Nat)} {x : List α}
    {lo ln : Nat} (h : Reach d st (D₁ ++ (x, lo) :: D₂))
    (hpre : lo ≠ ln → 2 ≤ (members (D₁ ++ (x, lo) :: D₂) lo).length) {p : Cand α}
    (hp : switchLabel st x lo ln = some p) :
    p.crit = chBatch (D₁ ++ (x, ln) :: D₂) := by
  rw [← update_crit st]
  exact criterion_eq_batch (Reach.switch x lo ln p h hpre hp)

/-- The batch index depends on the labelled data only as a multiset. -/
theorem chBatch_perm {D D' : List (List α × Nat)} (p : D.Perm D') (hwf : WF d D) :
    chBatch D = chBatch D' := by
  rw [chBatch_eq hwf, chBatch_eq (hwf.perm p)]
  exact chBatchD_perm p hwf

/-! ### iCVIFuzzyART training: the tracked value is the index of `(X, labels_)` -/

/-- **Online mode.**  Whatever labels `cs` the search returned, after
`add_sample(x_i, c_i)` + `update` for every sample the tracked value is the batch
index of `(X, labels_)`. -/
theorem icvifuzzy_tracks_online (X : List (List α)) (cs : List Nat) (hX : Rows d X) :
    (trackOnline d X cs).crit = chBatch (X.zip cs) :=
  track_online X cs hX

/-- **Offline mode.**  All samples are first added with label 0, then sample `i` is
switched from 0 to the returned label `c_i`.  Whatever the search returned — the
first sample necessarily gets label 0 (`first_label_zero`) — no `switch_label` call
raises, and after training the tracked value is the batch index of `(X, labels_)`. -/
theorem icvifuzzy_tracks_offline (X : List (List α)) (cs : List Nat) (hX : Rows d X)
    (hl : cs.length = X.length) (h0 : ∀ c, cs.head? = some c → c = 0) :
    ∃ st, trackOffline d X cs = some st ∧ st.crit = chBatch (X.zip cs) :=
  track_offline X cs hX hl h0

/-- `step_fit` on a model without categories returns label 0 (so `cs[0] = 0`). -/
theorem first_label_zero {X' Wt β μ θ : Type} [LinearOrder β] (K : Kernel X' Wt β μ)
    (cfg : SearchCfg μ θ) (th0 : θ) (veto : Nat → Bool) (s : ArtState Wt) (x : X')
    (h : s.W = []) : (stepFit K cfg th0 veto s x).2 = 0 := by
  simp [stepFit, h, applyWinner]

/-! ### the gates -/

section gates
variable {X Wt β μ θ : Type} [LinearOrder β]

/-- **iCVIFuzzyART gate.**  If a training step assigns the sample to an *existing*
category `c` (`step_fit` returned `c < len(W)`), then the reset function answered
`True` for `c`: the user function (if any) agreed, the iCVI call did not raise, and
the candidate criterion is strictly larger than the current one. -/
theorem icvi_gate (K : Kernel X Wt β μ) (cfg : SearchCfg μ θ) (th0 : θ) (s : ArtState Wt) (x : X)
    (offline : Bool) (st : State α) (xv : List α) (cur : Nat) (user : Nat → Bool) (c : Nat)
    (h : (stepFit K cfg th0 (gateVeto user (icviMatch offline st xv cur)) s x).2 = c)
    (hc : c < s.W.length) :
    user c = true ∧
      ∃ p, (if offline then switchLabel st xv cur c else some (addSample st xv c)) = some p ∧
        st.crit < p.crit := by
  have hw := stepFit_existing K cfg th0 _ s x c h hc
  have hv := stepSearch_winner_allowed K cfg th0 _ s.W x c hw
  simp only [gateVeto, Bool.not_eq_false', Bool.and_eq_true] at hv
  refine ⟨hv.1, ?_⟩
  have hm := hv.2
  unfold icviMatch at hm
  split at hm
  · rename_i p hp
    exact ⟨p, hp, by simpa using hm⟩
  · simp at hm

/-- Online mode, in terms of the index itself: a sample joins an existing cluster
`c` only if the Calinski-Harabasz index of the data *with* `(x, c)` is strictly
larger than the index of the data before the step. -/
theorem icvi_gate_online (K : Kernel X Wt β μ) (cfg : SearchCfg μ θ) (th0 : θ) (s : ArtState Wt)
    (x : X) {st : State α} {D : List (List α × Nat)} (hR : Reach d st D) {xv : List α}
    (hx : xv.length = d) (user : Nat → Bool) (c : Nat)
    (h : (stepFit K cfg th0 (gateVeto user (icviMatch false st xv 0)) s x).2 = c)
    (hc : c < s.W.length) :
    chBatch D < chBatch ((xv, c) :: D) := by
  obtain ⟨_, p, hp, hlt⟩ := icvi_gate K cfg th0 s x false st xv 0 user c h hc
  simp only [Bool.false_eq_true, if_false, Option.some.injEq] at hp
  subst hp
  rwa [criterion_eq_batch hR, add_candidate_eq_batch hR hx] at hlt

/-- Offline mode: the sample `(x, cur)` is relabelled to an existing cluster `c`
only if the index of the relabelled data is strictly larger than the current one. -/
theorem icvi_gate_offline (K : Kernel X Wt β μ) (cfg : SearchCfg μ θ) (th0 : θ) (s : ArtState Wt)
    (x : X) {st : State α} {D₁ D₂ : List (List α × Nat)} {xv : List α} {cur : Nat}
    (hR : Reach d st (D₁ ++ (xv, cur) :: D₂)) (user : Nat → Bool) (c : Nat)
    (hpre : cur ≠ c → 2 ≤ (members (D₁ ++ (xv, cur) :: D₂) cur).length)
    (h : (stepFit K cfg th0 (gateVeto user (icviMatch true st xv cur)) s x).2 = c)
    (hc : c < s.W.length) :
    chBatch (D₁ ++ (xv, cur) :: D₂) < chBatch (D₁ ++ (xv, c) :: D₂) := by
  obtain ⟨_, p, hp, hlt⟩ := icvi_gate K cfg th0 s x true st xv cur user c h hc
  simp only [if_true] at hp
  rwa [criterion_eq_batch hR, switch_candidate_eq_batch hR hpre hp] at hlt

/-- **CVIART gate.**  `vi` is the chosen sklearn score (an oracle), `old` the
labelling before the step, `cand c` the labelling with the current sample set to
`c`.  If the step assigns the sample to an existing category `c`, then the user
function agreed and either fewer than two categories exist, or the candidate
labelling's index is strictly better (`<` for Davies-Bouldin, `>` otherwise). -/
theorem cvi_gate {L : Type} (K : Kernel X Wt β μ) (cfg : SearchCfg μ θ) (th0 : θ)
    (s : ArtState Wt) (x : X) (db : Bool) (vi : L → α) (old : L) (cand : Nat → L)
    (user : Nat → Bool) (c : Nat)
    (h : (stepFit K cfg th0 (gateVeto user (cviMatch s.W.length db vi old cand)) s x).2 = c)
    (hc : c < s.W.length) :
    user c = true ∧
      (s.W.length < 2 ∨ (if db then vi (cand c) < vi old else vi old < vi (cand c))) := by
  have hw := stepFit_existing K cfg th0 _ s x c h hc
  have hv := stepSearch_winner_allowed K cfg th0 _ s.W x c hw
  simp only [gateVeto, Bool.not_eq_false', Bool.and_eq_true] at hv
  refine ⟨hv.1, ?_⟩
  have hm := hv.2
  unfold cviMatch at hm
  by_cases h2 : s.W.length < 2
  · exact Or.inl h2
  · right
    cases db <;> simpa [h2] using hm

end gates

/-! ### outside the property: `remove_sample`'s own mean

`remove_sample` is only used by `switch_label`, which ignores its `mu` (it keeps the
unchanged mean, and `switch_preserves_inv` shows that is right).  Called on its own,
its `mu` update `mu - (mu - x)/(n - 1)` has the wrong sign: -/

/-- the reachable state after `add_sample([0], 0)`, `add_sample([2], 0)` -/
def exSt : State ℚ :=
  let s1 := update (init 1) (addSample (init 1) [0] 0)
  update s1 (addSample s1 [2] 0)

/-- `remove_sample([2], 0)` on `{0, 2}` reports the mean `[2]`; the mean of what
remains is `[0]`. -/
theorem remove_mean_counterexample :
    Reach 1 exSt [([2], 0), ([0], 0)] ∧
      (removeSample exSt [2] 0).map (·.mu) = some [2] ∧ vmean 1 [[(0 : ℚ)]] = [0] := by
  refine ⟨.add [2] 0 (.add [0] 0 .init rfl) rfl, ?_, ?_⟩
  · norm_num [exSt, init, update, addSample, cluAdd, setCD, removeSample, lookup, deltaRemove,
      deltaAdd, vdivs, vsub, vadd, vzero, smul, dot, vmul, vsum, l2sq, chValue, sepTerm]
  · norm_num [vmean, vsumAll, vadd, vzero, vdivs]

/-! ### non-vacuity -/

/-- two clusters on the line: `{0, 1}` and `{4, 6}` (data in reverse insertion order) -/
def exD : List (List ℚ × Nat) := [([6], 1), ([4], 1), ([1], 0), ([0], 0)]

/-- a permitted history producing `exD` exists … -/
example : ∃ st : State ℚ, Reach 1 st exD :=
  ⟨_, .add [6] 1 (.add [4] 1 (.add [1] 0 (.add [0] 0 .init rfl) rfl) rfl) rfl⟩

/-- … and its batch index is a non-trivial number: `81/5`. -/
example : chBatch exD = 81 / 5 := by
  norm_num [exD, chBatch, chBatchD, dimOf, labelsOf, dedupL, wgssB, bgssB, members, ssq, vmean,
    vsumAll, vdivs, vzero, l2sq, dot, vmul, vsub, vadd, vsum]

/-- hence the tracked value after that history is `81/5` -/
example (st : State ℚ) (h : Reach 1 st exD) : st.crit = 81 / 5 := by
  rw [criterion_eq_batch h]
  norm_num [exD, chBatch, chBatchD, dimOf, labelsOf, dedupL, wgssB, bgssB, members, ssq, vmean,
    vsumAll, vdivs, vzero, l2sq, dot, vmul, vsub, vadd, vsum]

/-- the precondition of `switch_label` is satisfiable: relabel `4` from cluster 1 to a
new cluster 2 (cluster 1 has two members) — the history is permitted and does not raise -/
example (st : State ℚ) (h : Reach 1 st exD) :
    ∃ st' : State ℚ, Reach 1 st' [([6], 1), ([4], 2), ([1], 0), ([0], 0)] := by
  have hpre : (1 : Nat) ≠ 2 →
      2 ≤ (members (α := ℚ) ([([6], 1)] ++ ([4], 1) :: [([1], 0), ([0], 0)]) 1).length := by
    intro _; simp [members]
  obtain ⟨p, hp, _⟩ := switch_preserves_inv (α := ℚ) (d := 1) (D₁ := [([6], 1)]) (x := [4]) (lo := 1) (ln := 2)
    (D₂ := [([1], 0), ([0], 0)]) (reach_inv h).1 (icvi_inv h) hpre
  have := Reach.switch (D₁ := [([6], 1)]) (D₂ := [([1], 0), ([0], 0)]) [4] 1 2 p h hpre hp
  exact ⟨_, this⟩

/-- offline training on that data (returned labels `0,0,1,1`, first label 0): does not
raise, and ends with the same non-trivial value -/
example : ∃ st : State ℚ, trackOffline 1 [[0], [1], [4], [6]] [0, 0, 1, 1] = some st ∧
    st.crit = 81 / 5 := by
  obtain ⟨st, h, hc⟩ := icvifuzzy_tracks_offline (α := ℚ) (d := 1) [[0], [1], [4], [6]] [0, 0, 1, 1]
    (by intro x hx; simp at hx; rcases hx with rfl | rfl | rfl | rfl <;> rfl) rfl
    (by intro c hc; simp at hc; exact hc.symm)
  refine ⟨st, h, ?_⟩
  rw [hc]
  norm_num [chBatch, chBatchD, dimOf, labelsOf, dedupL, wgssB, bgssB, members, ssq, vmean,
    vsumAll, vdivs, vzero, l2sq, dot, vmul, vsub, vadd, vsum]

/-- the reachable state after `{0, 1} → 0`, `{4} → 1` (criterion 49/3) -/
def exSt3 : State ℚ :=
  let s1 := update (init 1) (addSample (init 1) [0] 0)
  let s2 := update s1 (addSample s1 [1] 0)
  update s2 (addSample s2 [4] 1)

/-- the iCVI gate allows `4 → cluster 1` (index 49/3 → 49) … -/
theorem ex_gate_allows : icviMatch false exSt3 [4] 0 1 = true := by
  norm_num [icviMatch, exSt3, init, update, addSample, cluAdd, setCD, lookup, deltaAdd, vdivs, vsub,
    vadd, vzero, smul, dot, vmul, vsum, l2sq, chValue, sepTerm]

/-- … and vetoes `6 → cluster 1` (49/3 → 81/5) and `6 → cluster 0` -/
theorem ex_gate_vetoes : icviMatch false exSt3 [6] 0 1 = false ∧ icviMatch false exSt3 [6] 0 0 = false := by
  constructor <;>
  norm_num [icviMatch, exSt3, init, update, addSample, cluAdd, setCD, lookup, deltaAdd, vdivs, vsub,
    vadd, vzero, smul, dot, vmul, vsum, l2sq, chValue, sepTerm]

/-- a two-category module whose activations are its weights, vigilance always passing -/
def exK : Kernel Unit Int Int Unit :=
  { choice := fun _ _ w => some w, matchv := fun _ _ => (), update := fun _ w => w, newW := fun _ => 0 }
def exCfg : SearchCfg Unit Unit :=
  { passes := fun _ _ => true, track := fun t _ => t, keep := true, tilde := false }

/-- the hypotheses of `icvi_gate` are satisfiable: the step joins existing category 1 … -/
example : (stepFit exK exCfg () (gateVeto (fun _ => true) (icviMatch false exSt3 [4] 0))
    ⟨[0, 1], [1, 1], 2, [0, 1]⟩ ()).2 = 1 := by
  simp [stepFit, stepSearch, activations, strikeVetoed, exCfg, exK, search, nanargmax, nanargmaxV,
    gateVeto, ex_gate_allows, applyWinner]

/-- … and when the gate vetoes every category the search goes on and a new cluster (label 2) is created -/
example : (stepFit exK exCfg () (gateVeto (fun _ => true) (icviMatch false exSt3 [6] 0))
    ⟨[0, 1], [1, 1], 2, [0, 1]⟩ ()).2 = 2 := by
  simp [stepFit, stepSearch, activations, strikeVetoed, exCfg, exK, search, nanargmax, nanargmaxV,
    gateVeto, ex_gate_vetoes.1, ex_gate_vetoes.2, applyWinner]

/-- the CVIART gate both allows and vetoes -/
example : cviMatch 3 false (fun l : List Nat => (l.sum : ℚ)) [0, 0] (fun c => [0, c]) 1 = true := by
  simp [cviMatch]
example : cviMatch 3 true (fun l : List Nat => (l.sum : ℚ)) [0, 0] (fun c => [0, c]) 1 = false := by
  simp [cviMatch]
example : cviMatch 1 true (fun l : List Nat => (l.sum : ℚ)) [0, 0] (fun c => [0, c]) 1 = true := by
  simp [cviMatch]

/-- the numeric classes the driver executes at `Rat` are the ones the theorems are about -/
example : (inferInstance : NatCast ℚ) = (Rat.instNatCast) := rfl
example : (inferInstance : Div ℚ) = (Rat.instDiv) := rfl

end Art.C15
