/-
C12 — property theorems (stub; see DESIGN.md §6).
-/
import ArtModel.Basic

namespace Art.C12

end Art.C12
