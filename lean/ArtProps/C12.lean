/-
C12 — Hierarchies are nested and navigable (DeepARTMAP, SMART).

A hierarchy is a list of SimpleARTMAP layers (`ArtModel/Deep.lean`); layer `l+1`
is supervised by the A-side labels of layer `l` — all of them in `fit`, those of
the current batch in `partial_fit`.  `DeepInv layers` (`ArtProofs/Deep.lean`)
says: every layer satisfies `MapInv` (C09) and the bookkeeping invariant
`Consistent` (C05), and the targets stored by layer `l+1` are *exactly*
`labels_a` of layer `l`.  It holds after `fit` and after every `partial_fit`
batch, supervised or not; everything the property claims about
`labels_deep_`, `map_deep` and `predict` follows from it, because column `l` of
`labels_deep_` is the image of column `l+1` under the map of layer `l`.

Quantifiers: every linear order of activations, every kernel and match-tracking
configuration *per level* (so: every level-model class, every mode, every
epsilon, any vigilance values — the ladder is not even needed for nesting, it
only makes deeper levels finer *before* match tracking has to intervene), any
number of levels, any data, any labels.  Standing assumption = what
`validate_data` asserts: every data matrix of a call has as many rows as there
are labels (`ValidBatch`); unsupervised needs two modules.

An unsupervised hierarchy is an ARTMAP (B-side = module 0 clustering `X[0]`) on
top of the same chain: its layers *are* the supervised chain on `modules[1:]`
with the B-side labels as `y` (`unsup_is_chain_on_B_labels`), so the unsupervised
case is proved in full, as is SMART (`smart_ladder`: definitional).
-/
import ArtProofs.Deep

namespace Art.C12

variable {X Wt α μ θ : Type} [LinearOrder α]

/-! ### histories -/

/-- a supervised training call -/
inductive SupCall (X : Type) where
  | fit (Xs : List (List X)) (y : List Nat)
  | pfit (Xs : List (List X)) (y : List Nat)

def SupCall.Valid (k : Nat) : SupCall X → Prop
  | .fit Xs y => ValidBatch k Xs y
  | .pfit Xs y => ValidBatch k Xs y

def supStep (Ls : List (Level X Wt α μ θ)) (st : List (SMapState Wt)) : SupCall X → List (SMapState Wt)
  | .fit Xs y => deepFitSup Ls Xs y
  | .pfit Xs y => deepPartialFitSup Ls st Xs y

/-- an unsupervised training call -/
inductive UnsupCall (X : Type) where
  | fit (Xs : List (List X))
  | pfit (Xs : List (List X))

/-- the data of a call (valid when `UnsupValid`: at least two matrices, all with the same number of rows) -/
def UnsupCall.data : UnsupCall X → List (List X)
  | .fit Xs => Xs
  | .pfit Xs => Xs

def unsupStep (Ls : List (Level X Wt α μ θ)) (st : Option (DeepUnsup Wt)) : UnsupCall X → Option (DeepUnsup Wt)
  | .fit Xs => deepFitUnsup Ls Xs
  | .pfit Xs => deepPartialFitUnsup Ls st Xs

/-! ### the layer invariant -/

/-- what `DeepInv` says, index by index: every layer has a functional, total map
that reproduces its targets (`MapInv`), consistent bookkeeping, and the targets
of layer `l+1` are the A-side labels of layer `l`. -/
theorem deep_inv_meaning {layers : List (SMapState Wt)} (h : DeepInv layers) :
    (∀ (l : Nat) (s : SMapState Wt), layers[l]? = some s → MapInv s ∧ Consistent s.a) ∧
    (∀ (l : Nat) (s t : SMapState Wt), layers[l]? = some s → layers[l + 1]? = some t → t.labelsB = s.a.labels) :=
  ⟨fun _ _ hs => deepInv_getElem? h hs, fun _ _ _ hs ht => deepInv_link h hs ht⟩

/-- **deep_layer_inv**, supervised: after *any* history of valid `fit` /
`partial_fit` calls (any batching, re-fits included), on any number of levels,
every layer satisfies `MapInv` and is supervised by exactly the A-side labels of
the previous layer. -/
theorem deep_layer_inv (Ls : List (Level X Wt α μ θ)) (calls : List (SupCall X))
    (hv : ∀ c ∈ calls, c.Valid Ls.length) :
    DeepInv (calls.foldl (supStep Ls) []) := by
  suffices H : ∀ st : List (SMapState Wt), DeepInv st → DeepInv (calls.foldl (supStep Ls) st) from
    H [] trivial
  induction calls with
  | nil => intro st h; exact h
  | cons c cs ih =>
    intro st h
    apply ih (fun c' hc' => hv c' (by simp [hc']))
    have hc := hv c (by simp)
    cases c with
    | fit Xs y => exact deepFitSup_inv Ls Xs y hc.2
    | pfit Xs y => exact deepPartialFitSup_inv Ls st Xs y h hc.2

/-- one valid unsupervised call from a state in good standing (or from no layers) -/
theorem unsup_step_inv (L0 L1 : Level X Wt α μ θ) (Ls : List (Level X Wt α μ θ))
    (st : Option (DeepUnsup Wt)) (c : UnsupCall X) (hst : ∀ d, st = some d → UnsupInv d)
    (hc : UnsupValid c.data) :
    ∃ d, unsupStep (L0 :: L1 :: Ls) st c = some d ∧ UnsupInv d := by
  cases c with
  | fit Xs =>
    match Xs, hc with
    | X0 :: X1 :: Xs, hc => exact deepFitUnsup_inv L0 L1 Ls X0 X1 Xs hc
  | pfit Xs =>
    match Xs, hc with
    | X0 :: X1 :: Xs, hc => exact deepPartialFitUnsup_inv L0 L1 Ls st X0 X1 Xs hst hc

/-- **deep_layer_inv**, unsupervised (≥ 2 modules): after any non-empty history of
valid calls the estimator has layers, they are in good standing, and the
`labels_` of the ARTMAP layer are the labels of its B-side module. -/
theorem deep_layer_inv_unsup (L0 L1 : Level X Wt α μ θ) (Ls : List (Level X Wt α μ θ))
    (c : UnsupCall X) (cs : List (UnsupCall X)) (hv : ∀ c' ∈ c :: cs, UnsupValid c'.data) :
    ∃ d, (c :: cs).foldl (unsupStep (L0 :: L1 :: Ls)) none = some d ∧ UnsupInv d := by
  suffices H : ∀ (cs : List (UnsupCall X)) (st : Option (DeepUnsup Wt)) (c : UnsupCall X),
      (∀ d, st = some d → UnsupInv d) → (∀ c' ∈ c :: cs, UnsupValid c'.data) →
      ∃ d, (c :: cs).foldl (unsupStep (L0 :: L1 :: Ls)) st = some d ∧ UnsupInv d from
    H cs none c (by simp) hv
  intro cs
  induction cs with
  | nil =>
    intro st c hst hv
    exact unsup_step_inv L0 L1 Ls st c hst (hv c (by simp))
  | cons c' cs ih =>
    intro st c hst hv
    obtain ⟨d, hd, hinv⟩ := unsup_step_inv L0 L1 Ls st c hst (hv c (by simp))
    simp only [List.foldl_cons] at ih ⊢
    rw [hd]
    exact ih (some d) c' (by intro d' e; cases e; exact hinv) (fun c'' h => hv c'' (by simp [h]))

/-- An unsupervised hierarchy is the supervised chain on `modules[1:]`, supervised
by the B-side clustering of `X[0]`. -/
theorem unsup_is_chain_on_B_labels (L0 L1 : Level X Wt α μ θ) (Ls : List (Level X Wt α μ θ))
    (X0 X1 : List X) (Xs : List (List X)) :
    ∃ d, deepFitUnsup (L0 :: L1 :: Ls) (X0 :: X1 :: Xs) = some d ∧
      d.top.b = fit L0.K L0.cfg L0.th noVeto {} X0 ∧
      d.layers = deepFitSup (L1 :: Ls) (X1 :: Xs) (fit L0.K L0.cfg L0.th noVeto {} X0).labels :=
  deepFitUnsup_layers L0 L1 Ls X0 X1 Xs

/-! ### `labels_deep_` -/

/-- **deep_columns_are_layer_labels.**  `labels_deep_` has one column per layer
plus one; column `l` is `labels_` of layer `l`, column `l+1` is `labels_a` of
layer `l` (the labels of that layer's own module) — for *every* layer, not only
the last one. -/
theorem deep_columns_are_layer_labels {layers : List (SMapState Wt)} (h : DeepInv layers)
    (hne : layers ≠ []) :
    (labelsDeep layers).length = layers.length + 1 ∧
    ∀ (l : Nat) (s : SMapState Wt), layers[l]? = some s →
      (labelsDeep layers)[l]? = some s.labelsB ∧ (labelsDeep layers)[l + 1]? = some s.a.labels :=
  ⟨labelsDeep_length layers hne,
    fun l s hs => ⟨labelsDeep_getElem?_labelsB layers l s hs, labelsDeep_getElem?_labelsA h l s hs⟩⟩

/-- supervised: column 0 is the supplied label vector (after `fit`) -/
theorem deep_top_column_is_y (L : Level X Wt α μ θ) (Ls : List (Level X Wt α μ θ))
    (xs : List X) (Xs : List (List X)) (y : List Nat) (hx : xs.length = y.length) :
    (labelsDeep (deepFitSup (L :: Ls) (xs :: Xs) y))[0]? = some y := by
  have e : (deepFitSup (L :: Ls) (xs :: Xs) y)[0]? = some (smapFit L.K L.cfg L.th {} (xs.zip y)) := rfl
  rw [labelsDeep_getElem?_labelsB _ 0 _ e]
  have := smapPartialFit_labelsB L.K L.cfg L.th ({} : SMapState Wt) (xs.zip y)
  simp only [smapFit]
  rw [this, map_snd_zip_of_length _ _ (by omega)]
  rfl

/-- unsupervised: column 0 is `module_b.labels_` of the ARTMAP layer -/
theorem deep_top_column_is_B_labels {d : DeepUnsup Wt} (h : UnsupInv d) :
    (labelsDeep d.layers)[0]? = some d.top.b.labels := by
  rw [labelsDeep_getElem?_labelsB d.layers 0 d.top.s rfl, h.top_labels]

/-- **deep_nested.**  For every level `l` and all samples `i`, `j`: sharing the
label of the finer column `l+1` implies sharing the label of the coarser column
`l` (and both columns have the same length).  `labels_deep_` describes a tree. -/
theorem deep_nested {layers : List (SMapState Wt)} (h : DeepInv layers) (l : Nat)
    (cc cf : List Nat) (hc : (labelsDeep layers)[l]? = some cc)
    (hf : (labelsDeep layers)[l + 1]? = some cf) :
    cf.length = cc.length ∧ ∀ i j : Nat, cf[i]? = cf[j]? → cc[i]? = cc[j]? := by
  obtain ⟨s, hs, rfl, hcc, hmap⟩ := labelsDeep_cols h l cf hf
  rw [hcc] at hc; cases hc
  refine ⟨?_, fun i j => nested_of_map_eq hmap i j⟩
  have := congrArg List.length hmap
  simpa [mapA2B] using this

/-- nestedness across any number of levels: a finer column determines every coarser one -/
theorem deep_nested_trans {layers : List (SMapState Wt)} (h : DeepInv layers) (l k : Nat)
    (cc cf : List Nat) (hc : (labelsDeep layers)[l]? = some cc)
    (hf : (labelsDeep layers)[l + k]? = some cf) :
    ∀ i j : Nat, cf[i]? = cf[j]? → cc[i]? = cc[j]? := by
  induction k generalizing cf with
  | zero =>
    simp only [Nat.add_zero] at hf
    rw [hc] at hf; cases hf
    exact fun _ _ e => e
  | succ k ih =>
    have hf' : (labelsDeep layers)[l + k + 1]? = some cf := by simpa [Nat.add_assoc] using hf
    obtain ⟨s, hs, rfl, hcc, hmap⟩ := labelsDeep_cols h (l + k) cf hf'
    intro i j e
    exact ih s.labelsB hcc i j (nested_of_map_eq hmap i j e)

/-- **deep_counts_monotone.**  The number of distinct labels never decreases with depth. -/
theorem deep_counts_monotone {layers : List (SMapState Wt)} (h : DeepInv layers) (l : Nat)
    (cc cf : List Nat) (hc : (labelsDeep layers)[l]? = some cc)
    (hf : (labelsDeep layers)[l + 1]? = some cf) :
    cc.toFinset.card ≤ cf.toFinset.card := by
  obtain ⟨s, hs, rfl, hcc, hmap⟩ := labelsDeep_cols h l cf hf
  rw [hcc] at hc; cases hc
  exact card_le_of_map_eq hmap

/-- … and neither does the number of categories of the modules: the distinct
labels of a module's column are exactly its categories. -/
theorem deep_category_counts_monotone {layers : List (SMapState Wt)} (h : DeepInv layers) (l : Nat)
    (s t : SMapState Wt) (hs : layers[l]? = some s) (ht : layers[l + 1]? = some t) :
    s.a.labels.toFinset.card = s.a.W.length ∧ s.a.W.length ≤ t.a.W.length := by
  have hs' := (deepInv_getElem? h hs).2
  have ht' := (deepInv_getElem? h ht)
  refine ⟨distinct_labels_eq_categories hs', ?_⟩
  rw [← distinct_labels_eq_categories hs', ← distinct_labels_eq_categories ht'.2,
    ← deepInv_link h hs ht]
  exact card_le_of_map_eq (mapInv_mapA2B ht'.1)

/-! ### `map_deep` -/

/-- the level `map_deep` works at after normalising a negative index -/
def normLevel (n : Nat) (level : Int) : Nat := (if level < 0 then level + n else level).toNat

/-- **map_deep_consistent.**  For every level in `-n_layers ≤ level < n_layers`
(negative = counted from the last layer), `map_deep(level, ·)` carries the column
below that layer to the stored TOP-level labels (column 0) — exactly what
`map_deep` returns. -/
theorem map_deep_consistent {layers : List (SMapState Wt)} (h : DeepInv layers) (level : Int)
    (hlo : -(layers.length : Int) ≤ level) (hhi : level < layers.length)
    (cf c0 : List Nat) (hf : (labelsDeep layers)[normLevel layers.length level + 1]? = some cf)
    (h0 : (labelsDeep layers)[0]? = some c0) :
    mapDeep layers level cf = some c0 := by
  obtain ⟨s, hs, rfl, _, _⟩ := labelsDeep_cols h _ cf hf
  have hne : layers ≠ [] := by intro e; rw [e] at hs; simp at hs
  obtain ⟨top, htop⟩ : ∃ top, layers[0]? = some top :=
    ⟨layers[0]'(List.length_pos_iff.mpr hne), List.getElem?_eq_getElem _⟩
  rw [labelsDeep_getElem?_labelsB layers 0 top htop] at h0; cases h0
  have key := mapDeepNat_column h _ s hs top htop
  by_cases hneg : level < 0
  · obtain ⟨k, rfl⟩ : ∃ k : Nat, level = -(k : Int) := ⟨(-level).toNat, by omega⟩
    have hk : 0 < k := by omega
    have hkl : k ≤ layers.length := by omega
    rw [mapDeep_neg layers k hk hkl]
    have : normLevel layers.length (-(k : Int)) = layers.length - k := by
      unfold normLevel; simp only [hneg, if_true]; omega
    rw [this] at key; exact key
  · obtain ⟨k, rfl⟩ : ∃ k : Nat, level = (k : Int) := ⟨level.toNat, by omega⟩
    rw [mapDeep_nonneg]
    have : normLevel layers.length (k : Int) = k := by
      unfold normLevel; simp only [hneg, if_false]; omega
    rw [this] at key; exact key

/-- `map_deep` on a scalar label: the label that sample `i` carries below the
layer is sent to the top-level label of sample `i`. -/
theorem map_deep_consistent_label {layers : List (SMapState Wt)} (h : DeepInv layers) (level : Int)
    (hlo : -(layers.length : Int) ≤ level) (hhi : level < layers.length)
    (cf c0 : List Nat) (hf : (labelsDeep layers)[normLevel layers.length level + 1]? = some cf)
    (h0 : (labelsDeep layers)[0]? = some c0) (i c y : Nat) (hc : cf[i]? = some c) (hy : c0[i]? = some y) :
    mapDeepLabel layers level c = some y := by
  obtain ⟨s, hs, rfl, _, _⟩ := labelsDeep_cols h _ cf hf
  have hne : layers ≠ [] := by intro e; rw [e] at hs; simp at hs
  obtain ⟨top, htop⟩ : ∃ top, layers[0]? = some top :=
    ⟨layers[0]'(List.length_pos_iff.mpr hne), List.getElem?_eq_getElem _⟩
  rw [labelsDeep_getElem?_labelsB layers 0 top htop] at h0; cases h0
  have key := mapDeepNat_label h _ s hs top htop i c y hc hy
  unfold mapDeepLabel
  by_cases hneg : level < 0
  · obtain ⟨k, rfl⟩ : ∃ k : Nat, level = -(k : Int) := ⟨(-level).toNat, by omega⟩
    have hk : 0 < k := by omega
    have hkl : k ≤ layers.length := by omega
    rw [mapDeep_neg layers k hk hkl]
    have : normLevel layers.length (-(k : Int)) = layers.length - k := by
      unfold normLevel; simp only [hneg, if_true]; omega
    rw [this] at key; rw [key]; rfl
  · obtain ⟨k, rfl⟩ : ∃ k : Nat, level = (k : Int) := ⟨level.toNat, by omega⟩
    rw [mapDeep_nonneg]
    have : normLevel layers.length (k : Int) = k := by
      unfold normLevel; simp only [hneg, if_false]; omega
    rw [this] at key; rw [key]; rfl

/-! ### `predict` -/

/-- **predict_nested.**  When the last module has a category, `predict` returns
`n_layers + 1` vectors with one label per query; the prediction at level `l` is
the image of the prediction at level `l+1` under the map of layer `l` — the same
maps that link the training columns — hence the predictions are nested exactly
like `labels_deep_`, and every label predicted at level `l` occurs in column `l`
of the training labels. -/
theorem predict_nested (K : Kernel X Wt α μ) {layers : List (SMapState Wt)} (h : DeepInv layers)
    (last : SMapState Wt) (hlast : layers.getLast? = some last) (hne : last.a.W ≠ []) (xs : List X) :
    ∃ cols, deepPredict K layers xs = some cols ∧ cols.length = layers.length + 1 ∧
      (∀ p ∈ cols, p.length = xs.length) ∧
      (∀ (l : Nat) (s : SMapState Wt), layers[l]? = some s → ∃ pf pc, cols[l + 1]? = some pf ∧
        cols[l]? = some pc ∧ mapA2B s.map pf = pc.map some ∧
        ∀ i j : Nat, pf[i]? = pf[j]? → pc[i]? = pc[j]?) ∧
      (∀ (l : Nat) (p : List Nat), cols[l]? = some p →
        ∃ tc, (labelsDeep layers)[l]? = some tc ∧ ∀ c ∈ p, c ∈ tc) := by
  obtain ⟨cols, h1, h2, h3, h4, h5⟩ := deepPredict_spec K h last hlast hne xs
  refine ⟨cols, h1, h2, h3, ?_, h5⟩
  intro l s hs
  obtain ⟨pf, pc, a, b, c⟩ := h4 l s hs
  exact ⟨pf, pc, a, b, c, fun i j => nested_of_map_eq c i j⟩

/-! ### batching -/

/-- **deep_partial_fit_eq_fit**, supervised: two `partial_fit` batches on an
estimator without layers equal `fit` on the concatenated data — every layer's
weights, labels and map. -/
theorem deep_partial_fit_eq_fit (Ls : List (Level X Wt α μ θ)) (Xs₁ Xs₂ : List (List X))
    (y₁ y₂ : List Nat) (h₁ : ValidBatch Ls.length Xs₁ y₁) (h₂ : ValidBatch Ls.length Xs₂ y₂) :
    deepPartialFitSup Ls (deepPartialFitSup Ls [] Xs₁ y₁) Xs₂ y₂ =
      deepFitSup Ls (List.zipWith (· ++ ·) Xs₁ Xs₂) (y₁ ++ y₂) := by
  rw [deepPartialFitSup_two_batches Ls [] Xs₁ Xs₂ y₁ y₂ (Or.inl rfl) h₁ h₂]
  apply deepPartialFitSup_fresh
  have := zipWith_append_length y₁.length y₂.length Xs₁ Xs₂ h₁.2 h₂.2
  simpa using this

/-- from any state: two batches equal one batch of the concatenation -/
theorem deep_two_batches (Ls : List (Level X Wt α μ θ)) (st : List (SMapState Wt))
    (Xs₁ Xs₂ : List (List X)) (y₁ y₂ : List Nat) (hst : st = [] ∨ st.length = Ls.length)
    (h₁ : ValidBatch Ls.length Xs₁ y₁) (h₂ : ValidBatch Ls.length Xs₂ y₂) :
    deepPartialFitSup Ls (deepPartialFitSup Ls st Xs₁ y₁) Xs₂ y₂ =
      deepPartialFitSup Ls st (List.zipWith (· ++ ·) Xs₁ Xs₂) (y₁ ++ y₂) :=
  deepPartialFitSup_two_batches Ls st Xs₁ Xs₂ y₁ y₂ hst h₁ h₂

/-- **deep_partial_fit_eq_fit**, unsupervised. -/
theorem deep_partial_fit_eq_fit_unsup (L0 L1 : Level X Wt α μ θ) (Ls : List (Level X Wt α μ θ))
    (X0 X1 Y0 Y1 : List X) (Xs Ys : List (List X))
    (hX : ∀ xs ∈ X1 :: Xs, xs.length = X0.length) (hY : ∀ xs ∈ Y1 :: Ys, xs.length = Y0.length) :
    deepPartialFitUnsup (L0 :: L1 :: Ls)
      (deepPartialFitUnsup (L0 :: L1 :: Ls) none (X0 :: X1 :: Xs)) (Y0 :: Y1 :: Ys) =
    deepFitUnsup (L0 :: L1 :: Ls) (List.zipWith (· ++ ·) (X0 :: X1 :: Xs) (Y0 :: Y1 :: Ys)) := by
  rw [deepPartialFitUnsup_two_batches L0 L1 Ls none X0 X1 Y0 Y1 Xs Ys hX hY]
  simp only [List.zipWith_cons_cons]
  apply deepPartialFitUnsup_fresh
  intro xs hxs
  simp only [List.mem_cons] at hxs
  rcases hxs with rfl | hxs
  · simp [hX X1 (by simp), hY Y1 (by simp)]
  · have := zipWith_append_length X0.length Y0.length Xs Ys
      (fun xs h => hX xs (by simp [h])) (fun xs h => hY xs (by simp [h])) xs hxs
    simpa using this

/-- **Any batching**, supervised: any non-empty sequence of valid `partial_fit`
batches on an estimator without layers equals `fit` on the concatenated data
(`mergeXs` concatenates matrix by matrix). -/
theorem deep_batching_irrelevant (Ls : List (Level X Wt α μ θ))
    (b : List (List X) × List Nat) (bs : List (List (List X) × List Nat))
    (hv : ∀ b' ∈ b :: bs, ValidBatch Ls.length b'.1 b'.2) :
    (b :: bs).foldl (fun st b' => deepPartialFitSup Ls st b'.1 b'.2) [] =
      deepFitSup Ls (bs.foldl (fun a c => (mergeXs a.1 c.1, a.2 ++ c.2)) b).1
        (bs.foldl (fun a c => (mergeXs a.1 c.1, a.2 ++ c.2)) b).2 := by
  suffices H : ∀ (bs : List (List (List X) × List Nat)) (b : List (List X) × List Nat)
      (st : List (SMapState Wt)), (st = [] ∨ st.length = Ls.length) →
      (∀ b' ∈ b :: bs, ValidBatch Ls.length b'.1 b'.2) →
      (b :: bs).foldl (fun st b' => deepPartialFitSup Ls st b'.1 b'.2) st =
        deepPartialFitSup Ls st (bs.foldl (fun a c => (mergeXs a.1 c.1, a.2 ++ c.2)) b).1
          (bs.foldl (fun a c => (mergeXs a.1 c.1, a.2 ++ c.2)) b).2 ∧
      ValidBatch Ls.length (bs.foldl (fun a c => (mergeXs a.1 c.1, a.2 ++ c.2)) b).1
          (bs.foldl (fun a c => (mergeXs a.1 c.1, a.2 ++ c.2)) b).2 by
    obtain ⟨h1, h2⟩ := H bs b [] (Or.inl rfl) hv
    rw [h1]
    exact deepPartialFitSup_fresh Ls _ _ h2.2
  intro bs
  induction bs with
  | nil => intro b st _ hv; exact ⟨rfl, hv b (by simp)⟩
  | cons b' bs ih =>
    intro b st hst hv
    have hb := hv b (by simp)
    have hb' := hv b' (by simp)
    have hm := validBatch_merge Ls.length b.1 b'.1 b.2 b'.2 hb hb'
    have := ih (mergeXs b.1 b'.1, b.2 ++ b'.2) st hst (by
      intro c hc
      simp only [List.mem_cons] at hc
      rcases hc with rfl | hc
      · exact hm
      · exact hv c (by simp [hc]))
    simp only [List.foldl_cons] at this ⊢
    rw [deepPartialFitSup_two_batches Ls st b.1 b'.1 b.2 b'.2 hst hb hb']
    exact this

/-- **Any batching**, unsupervised. -/
theorem deep_batching_irrelevant_unsup (L0 L1 : Level X Wt α μ θ) (Ls : List (Level X Wt α μ θ))
    (b : List (List X)) (bs : List (List (List X))) (hv : ∀ b' ∈ b :: bs, UnsupValid b') :
    (b :: bs).foldl (deepPartialFitUnsup (L0 :: L1 :: Ls)) none =
      deepFitUnsup (L0 :: L1 :: Ls) (bs.foldl mergeXs b) := by
  suffices H : ∀ (bs : List (List (List X))) (b : List (List X)) (st : Option (DeepUnsup Wt)),
      (∀ b' ∈ b :: bs, UnsupValid b') →
      (b :: bs).foldl (deepPartialFitUnsup (L0 :: L1 :: Ls)) st =
        deepPartialFitUnsup (L0 :: L1 :: Ls) st (bs.foldl mergeXs b) ∧ UnsupValid (bs.foldl mergeXs b) by
    obtain ⟨h1, h2⟩ := H bs b none hv
    rw [h1]
    exact deepPartialFitUnsup_fresh' L0 L1 Ls _ h2
  intro bs
  induction bs with
  | nil => intro b st hv; exact ⟨rfl, hv b (by simp)⟩
  | cons b' bs ih =>
    intro b st hv
    have hb := hv b (by simp)
    have hb' := hv b' (by simp)
    have := ih (mergeXs b b') st (by
      intro c hc
      simp only [List.mem_cons] at hc
      rcases hc with rfl | hc
      · exact unsupValid_merge b b' hb hb'
      · exact hv c (by simp [hc]))
    simp only [List.foldl_cons] at this ⊢
    rw [deepPartialFitUnsup_merge L0 L1 Ls st b b' hb hb']
    exact this

/-! ### SMART -/

/-- **smart_ladder.**  SMART is the unsupervised hierarchy on `[X] * n_modules`
whose modules differ only in their vigilance (definitional). -/
theorem smart_ladder (K : Kernel X Wt α μ) (cfg : SearchCfg μ θ) (rhos : List θ) (xs : List X) :
    smartFit K cfg rhos xs =
      deepFitUnsup (rhos.map (fun rho => ({ K := K, cfg := cfg, th := rho } : Level X Wt α μ θ)))
        (List.replicate rhos.length xs) ∧
    ∀ st, smartPartialFit K cfg rhos st xs =
      deepPartialFitUnsup (rhos.map (fun rho => ({ K := K, cfg := cfg, th := rho } : Level X Wt α μ θ)))
        st (List.replicate rhos.length xs) :=
  ⟨rfl, fun _ => rfl⟩

/-- hence a fitted SMART (≥ 2 vigilance values, any values) is in good standing:
all of the above applies to it. -/
theorem smart_inv (K : Kernel X Wt α μ) (cfg : SearchCfg μ θ) (r0 r1 : θ) (rs : List θ) (xs : List X) :
    ∃ d, smartFit K cfg (r0 :: r1 :: rs) xs = some d ∧ UnsupInv d := by
  have := deepFitUnsup_inv (⟨K, cfg, r0⟩ : Level X Wt α μ θ) ⟨K, cfg, r1⟩
    (smartLevels K cfg rs) xs xs (List.replicate rs.length xs) (by
      intro ys hy
      simp only [List.mem_cons, List.mem_replicate] at hy
      rcases hy with rfl | ⟨_, rfl⟩ <;> rfl)
  simpa [smartFit, smartLevels, List.replicate_succ] using this

/-! ### Non-vacuity: 3 levels, 5 samples, a 1-D "nearest centre" kernel on ℤ with
match value −distance; vigilance ladder −4 < −1 < 0 (coarse to fine). -/

private def K0 : Kernel Int Int Int Int :=
  { choice := fun _ x w => some (-(x - w).natAbs), matchv := fun x w => -(x - w).natAbs,
    update := fun _ w => w, newW := fun x => x }
private def cfg0 : SearchCfg Int Int := scalarCfg .plus false (· + 1) (· - 1) 1000
private def Ls0 : List (Level Int Int Int Int Int) := [⟨K0, cfg0, -4⟩, ⟨K0, cfg0, -1⟩, ⟨K0, cfg0, 0⟩]
private def X0 : List Int := [0, 1, 3, 10, 11]

/-- supervised, classes 0/1: the class boundary splits the coarse cluster {0,1,3} -/
example : labelsDeep (deepFitSup Ls0 [X0, X0, X0] [0, 0, 1, 1, 1]) =
    [[0, 0, 1, 1, 1], [0, 0, 1, 2, 2], [0, 0, 1, 2, 2], [0, 1, 2, 3, 4]] := by decide
example : (deepFitSup Ls0 [X0, X0, X0] [0, 0, 1, 1, 1]).map (·.map) =
    [[some 0, some 1, some 1], [some 0, some 1, some 2], [some 0, some 0, some 1, some 2, some 2]] := by
  decide
example : mapDeep (deepFitSup Ls0 [X0, X0, X0] [0, 0, 1, 1, 1]) (-1) [0, 1, 2, 3, 4] = some [0, 0, 1, 1, 1] := by
  decide
example : mapDeepLabel (deepFitSup Ls0 [X0, X0, X0] [0, 0, 1, 1, 1]) 2 3 = some 1 := by decide
example : deepPredict K0 (deepFitSup Ls0 [X0, X0, X0] [0, 0, 1, 1, 1]) [2, 12] =
    some [[0, 1], [0, 2], [0, 2], [1, 4]] := by decide
/-- two batches (2 + 3 samples) give the same hierarchy as `fit` -/
example : (deepPartialFitSup Ls0 (deepPartialFitSup Ls0 [] [[0, 1], [0, 1], [0, 1]] [0, 0])
      [[3, 10, 11], [3, 10, 11], [3, 10, 11]] [1, 1, 1]).map (fun s => (s.a.W, s.a.labels, s.map, s.labelsB)) =
    (deepFitSup Ls0 [X0, X0, X0] [0, 0, 1, 1, 1]).map (fun s => (s.a.W, s.a.labels, s.map, s.labelsB)) := by
  decide
/-- SMART / unsupervised on the same data: 3 modules = 3 levels -/
example : (smartFit K0 cfg0 [-4, -1, 0] X0).map (fun d => labelsDeep d.layers) =
    some [[0, 0, 0, 1, 1], [0, 0, 1, 2, 2], [0, 1, 2, 3, 4]] := by decide
example : ValidBatch Ls0.length [X0, X0, X0] [0, 0, 1, 1, 1] := ⟨rfl, by decide⟩

end Art.C12
