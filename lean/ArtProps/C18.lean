/-
C18 — Data preparation is invertible; validation is atomic.
Property theorems only; helper lemmas live in ArtProofs.Prep.

Statement (given): for any finite data with non-constant columns, prepare_data
returns values in [0,1] (complement-coded to double width for Fuzzy-based
models) that the same estimator's validation accepts, re-uses the first call's
column bounds for later data, and restore_data inverts it to numerical
precision, as do normalisation and complement coding individually.  Data that is
out of range, of the wrong width, non-binary for ART1 or not complement-coded
for Fuzzy ART is rejected by fit, partial_fit and predict of the clustering
estimators with an error before any model state changes.

All theorems hold over every linearly ordered field (ℚ executed, ℝ intended);
"to numerical precision" in floats is outside the theorems and measured by the
check.  Hypotheses: `Rect X d` (numpy matrices are rectangular), `X ≠ []`
(`np.min` raises on zero rows) and `NonConst X` (no column is constant, i.e. no
divisor `d_max - d_min` is zero) — kept explicit, see
`normalize_constant_column_counterexample`.
-/
import ArtProofs.Prep

namespace Art.C18

open List Art.Prep

set_option linter.unusedSectionVars false

variable {α : Type} [Field α] [LinearOrder α] [IsStrictOrderedRing α]

/-! ### normalisation and complement coding individually -/

/-- The non-constant hypothesis in terms of the data: if every column holds two
different values then no divisor `d_max - d_min` is zero. -/
theorem nonconst_of_cols_vary (X : Mat α) (d : Nat) (hX : Rect X d) (hne : X ≠ [])
    (hv : ColsVary X d) : NonConst X :=
  nonConst_of_colsVary hX hv hne

/-- First call (no bounds remembered): the bounds returned are the column maxima
and minima of the data, and every normalised entry lies in [0,1]. -/
theorem normalize_in_unit (X : Mat α) (d : Nat) (hX : Rect X d) (hc : NonConst X) :
    (normalize X none none).2 = (colMax X, colMin X) ∧
    ∀ r ∈ (normalize X none none).1, ∀ v ∈ r, 0 ≤ v ∧ v ≤ 1 :=
  ⟨rfl, normWith_in_unit hX hc⟩

/-- `de_normalize ∘ normalize = id` on the first call, for non-constant columns. -/
theorem denorm_norm (X : Mat α) (d : Nat) (hX : Rect X d) (hne : X ≠ []) (hc : NonConst X) :
    deNormalize (normalize X none none).1 (normalize X none none).2.1 (normalize X none none).2.2 = X :=
  deNormalize_normWith hX (nonConst_goodBounds hX hne hc)

/-- `de_normalize ∘ normalize = id` with remembered bounds (any bounds of the
right width with `d_max ≠ d_min` per column — the data need not lie inside them). -/
theorem denorm_norm_remembered (X : Mat α) (d : Nat) (dmax dmin : List α) (hX : Rect X d)
    (hb : GoodBounds dmax dmin d) :
    deNormalize (normalize X (some dmax) (some dmin)).1 dmax dmin = X :=
  deNormalize_normWith hX hb

/-- Wherever no divisor is zero the total field division of the model is the
division numpy performs: the IEEE-aware normalisation has no non-finite entry
and equals the plain one. -/
theorem normalize_finite (X : Mat α) (dmax dmin : List α) (hb : Forall₂ (· ≠ ·) dmax dmin) :
    normWithChk dmax dmin X = (normWith dmax dmin X).map (fun r => r.map some) :=
  normWithChk_eq hb

/-- `de_compliment_code ∘ compliment_code = id` (no hypothesis at all). -/
theorem decc_cc (X : Mat α) : deComplementCode (complementCode X) = some X :=
  deComplementCode_complementCode X

/-- Every complement-coded row has double width and sums to `d` exactly. -/
theorem cc_rowsum (X : Mat α) (d : Nat) (hX : Rect X d) :
    ∀ r ∈ complementCode X, r.length = 2 * d ∧ vsum r = (d : α) := by
  intro r hr
  refine ⟨complementCode_rect hX r hr, ?_⟩
  simp only [complementCode, List.mem_map] at hr
  obtain ⟨q, hq, rfl⟩ := hr
  rw [vsum_ccRow, hX q hq]

/-! ### prepare_data / restore_data pairs -/

/-- `BaseART`: `restore_data(prepare_data(X)) = X` on a fresh module. -/
theorem restore_prepare_base (X : Mat α) (d : Nat) (hX : Rect X d) (hne : X ≠ []) (hc : NonConst X) :
    restoreBase (prepareBase {} X).2 (prepareBase {} X).1 = some X := by
  simp only [prepareBase, restoreBase, Option.some.injEq]
  exact denorm_norm X d hX hne hc

/-- `BaseART`, later calls: with remembered bounds the pair still round-trips. -/
theorem restore_prepare_base_later (X : Mat α) (d : Nat) (dmax dmin : List α) (hX : Rect X d)
    (hb : GoodBounds dmax dmin d) :
    let s : PrepState α := { dmax := some dmax, dmin := some dmin }
    restoreBase (prepareBase s X).2 (prepareBase s X).1 = some X := by
  simp only [prepareBase, restoreBase, Option.some.injEq]
  exact denorm_norm_remembered X d dmax dmin hX hb

/-- `FuzzyART`: `restore_data(prepare_data(X)) = X` on a fresh module. -/
theorem restore_prepare_fuzzy (X : Mat α) (d : Nat) (hX : Rect X d) (hne : X ≠ []) (hc : NonConst X) :
    restoreFuzzy (prepareFuzzy {} X).2 (prepareFuzzy {} X).1 = some X := by
  simp only [prepareFuzzy, restoreFuzzy, decc_cc]
  exact restore_prepare_base X d hX hne hc

/-- `FuzzyART`, later calls. -/
theorem restore_prepare_fuzzy_later (X : Mat α) (d : Nat) (dmax dmin : List α) (hX : Rect X d)
    (hb : GoodBounds dmax dmin d) :
    let s : PrepState α := { dmax := some dmax, dmin := some dmin }
    restoreFuzzy (prepareFuzzy s X).2 (prepareFuzzy s X).1 = some X := by
  simp only [prepareFuzzy, restoreFuzzy, decc_cc]
  exact restore_prepare_base_later X d dmax dmin hX hb

/-- Compound estimators (SimpleARTMAP, ARTMAP, DeepARTMAP, SMART, FusionART
before the channel join, TopoART, DualVigilanceART, CVIART, FALCON): every
module prepares and restores its own matrix with its own bounds, so the compound
pair round-trips whenever every channel is fresh, rectangular, non-empty and
non-constant. -/
theorem restore_prepare_compound (cs : List (Chan α))
    (h : ∀ c ∈ cs, c.2.1 = {} ∧ c.2.2 ≠ [] ∧ NonConst c.2.2 ∧ ∃ d, Rect c.2.2 d) :
    restoreChans (prepareChans cs) = cs.map (fun c => some c.2.2) := by
  simp only [restoreChans, prepareChans, List.map_map]
  apply List.map_congr_left
  intro c hc
  obtain ⟨hs, hne, hnc, d, hX⟩ := h c hc
  obtain ⟨k, s, X⟩ := c
  simp only at hs hne hnc hX
  subst hs
  cases k
  · exact restore_prepare_base X d hX hne hnc
  · exact restore_prepare_fuzzy X d hX hne hnc

/-! ### prepared data is accepted by the same class's validation -/

/-- `BaseART`: the first `prepare_data` output passes `validate_data`, on a module
that has not seen a width yet and on one that remembers the data width; the
accepting call records `dim_ = d`. -/
theorem prepare_passes_validate_base (X : Mat α) (d : Nat) (hX : Rect X d) (hne : X ≠ [])
    (hc : NonConst X) :
    validBase none (prepareBase {} X).1 = true ∧ validBase (some d) (prepareBase {} X).1 = true ∧
    runValidate validBase {} (prepareBase {} X).1 = ({ dim := some d }, true) := by
  have hu : inUnit (prepareBase {} X).1 = true := inUnit_iff.mpr (normWith_in_unit hX hc)
  have hr : Rect (prepareBase {} X).1 d :=
    normWith_rect hX (colMax_spec hX hne).1 (colMin_spec hX hne).1
  have hw : width (prepareBase {} X).1 = d :=
    width_of_rect hr (by simpa [prepareBase, normalize, normWith] using hne)
  have h1 : validBase none (prepareBase {} X).1 = true := by simp [validBase, hu, widthOk]
  refine ⟨h1, by simp [validBase, hu, widthOk, hw], ?_⟩
  simp [runValidate, h1, hw]

/-- `FuzzyART`: the first `prepare_data` output has width `2d`, lies in [0,1],
has row sums `d` and passes `FuzzyART.validate_data`; the accepting call records
`dim_ = 2d`. -/
theorem prepare_passes_validate_fuzzy (X : Mat α) (d : Nat) (hX : Rect X d) (hne : X ≠ [])
    (hc : NonConst X) :
    validFuzzy none (prepareFuzzy {} X).1 = true ∧
    validFuzzy (some (2 * d)) (prepareFuzzy {} X).1 = true ∧
    runValidate validFuzzy {} (prepareFuzzy {} X).1 = ({ dim := some (2 * d) }, true) := by
  have hr : Rect (prepareBase {} X).1 d :=
    normWith_rect hX (colMax_spec hX hne).1 (colMin_spec hX hne).1
  have hne' : (prepareBase {} X).1 ≠ [] := by simpa [prepareBase, normalize, normWith] using hne
  have hu : inUnit (prepareFuzzy {} X).1 = true :=
    inUnit_complementCode (inUnit_iff.mpr (normWith_in_unit hX hc))
  have hw : width (prepareFuzzy {} X).1 = 2 * d :=
    width_of_rect (complementCode_rect hr) (by simpa [prepareFuzzy, complementCode] using hne')
  have hs : rowSumsOk (prepareFuzzy {} X).1 = true := rowSumsOk_complementCode hr hne'
  have h1 : validFuzzy none (prepareFuzzy {} X).1 = true := by simp [validFuzzy, hu, hs, hw, widthOk]
  refine ⟨h1, by simp [validFuzzy, hu, hs, hw, widthOk], ?_⟩
  simp [runValidate, h1, hw]

/-- `ART2A` (BaseART's pair): the prepared data passes `ART2A`'s validation exactly
when the `alpha` bound holds for the data width. -/
theorem prepare_passes_validate_art2a (alpha : α) (X : Mat α) (d : Nat) (hX : Rect X d)
    (hne : X ≠ []) (hc : NonConst X) (ha : alpha * alpha * (d : α) ≤ 1) :
    runValidateART2A alpha {} (prepareBase {} X).1 = ({ dim := some d }, true) := by
  have hu : inUnit (prepareBase {} X).1 = true := inUnit_iff.mpr (normWith_in_unit hX hc)
  have hr : Rect (prepareBase {} X).1 d :=
    normWith_rect hX (colMax_spec hX hne).1 (colMin_spec hX hne).1
  have hw : width (prepareBase {} X).1 = d :=
    width_of_rect hr (by simpa [prepareBase, normalize, normWith] using hne)
  simp [runValidateART2A, hu, hw, art2AlphaOk, ha]

/-! ### later calls re-use the first call's bounds -/

/-- After a first `prepare_data(X₁)`, a second call on any `X₂` leaves the
remembered bounds unchanged and returns the affine map with the bounds of `X₁`
(never those of `X₂`), for BaseART and, complement-coded, for FuzzyART. -/
theorem bounds_reused (X₁ X₂ : Mat α) :
    let s₁ := (prepareBase {} X₁).2
    s₁ = { dmax := some (colMax X₁), dmin := some (colMin X₁) } ∧
    prepareBase s₁ X₂ = (normWith (colMax X₁) (colMin X₁) X₂, s₁) ∧
    prepareFuzzy (prepareFuzzy {} X₁).2 X₂ =
      (complementCode (normWith (colMax X₁) (colMin X₁) X₂), s₁) :=
  ⟨rfl, rfl, rfl⟩

/-! ### rejection is atomic -/

/-- `validate_data` of BaseART, FuzzyART and ART1 (`runValidate` of any
acceptance predicate) leaves no trace when it rejects. -/
theorem validate_pure_on_reject (valid : Option Nat → Mat α → Bool) :
    PureOnReject (runValidate valid) := by
  intro s X h
  unfold runValidate at h ⊢
  split at h
  · simp at h
  · rename_i hv
    simp [hv]

/-- Entry points `fit` / `partial_fit` / `predict` = `validate_data` first, then
the body: if validation leaves no trace when it rejects, a rejected call raises
the assertion error and returns the state it was given — whatever the body
would have done, whatever the rest of the state (weights, labels, counters,
maps) is, at any point of a history. -/
theorem reject_is_noop {X τ ρ : Type} (validate : DimState → X → DimState × Bool)
    (hp : PureOnReject validate) (body : DimState × τ → X → (DimState × τ) × ρ)
    (s : DimState × τ) (x : X) (hrej : (validate s.1 x).2 = false) :
    checked validate body s x = (s, .error .assert) := by
  simp only [checked, hrej, Bool.false_eq_true, if_false, hp s.1 x hrej]

/-- Conversely a call that does not raise went through validation. -/
theorem ok_only_if_valid {X τ ρ : Type} (validate : DimState → X → DimState × Bool)
    (body : DimState × τ → X → (DimState × τ) × ρ) (s : DimState × τ) (x : X) (r : ρ)
    (h : (checked validate body s x).2 = .ok r) : (validate s.1 x).2 = true := by
  cases hv : (validate s.1 x).2 with
  | true => rfl
  | false => simp [checked, hv] at h

/-- BaseART / FuzzyART / ART1 entry points: data out of range, of the wrong
width, non-binary (ART1) or not complement-coded (FuzzyART) is rejected before
any model state changes. -/
theorem reject_is_noop_elementary {τ ρ : Type} (valid : Option Nat → Mat α → Bool)
    (body : DimState × τ → Mat α → (DimState × τ) × ρ) (s : DimState × τ) (X : Mat α)
    (hrej : valid s.1.dim X = false) :
    checked (runValidate valid) body s X = (s, .error .assert) :=
  reject_is_noop _ (validate_pure_on_reject valid) body s X (by simp [runValidate, hrej])

/-- Each kind of malformed matrix named in the property is rejected by the
corresponding predicate: an entry above 1 or below 0 (BaseART, FuzzyART), a
width different from the remembered one (all), an entry other than 0/1 (ART1),
an odd width or a row whose sum is off by more than 0.01 (FuzzyART). -/
theorem malformed_is_rejected (dim? : Option Nat) (X : Mat α) :
    ((∃ r ∈ X, ∃ v ∈ r, v < 0 ∨ 1 < v) → validBase dim? X = false ∧ validFuzzy dim? X = false) ∧
    ((∃ d, dim? = some d ∧ width X ≠ d) →
      validBase dim? X = false ∧ validFuzzy dim? X = false ∧ validART1 dim? X = false) ∧
    ((∃ r ∈ X, ∃ v ∈ r, v ≠ 0 ∧ v ≠ 1) → validART1 dim? X = false) ∧
    (width X % 2 = 1 → validFuzzy dim? X = false) ∧
    ((∃ r ∈ X, ccTol < vsum r - ((width X / 2 : Nat) : α) ∨
        ccTol < ((width X / 2 : Nat) : α) - vsum r) → validFuzzy dim? X = false) := by
  refine ⟨?_, ?_, ?_, ?_, ?_⟩
  · rintro ⟨r, hr, v, hv, h⟩
    have : inUnit X = false := by
      rw [Bool.eq_false_iff]
      intro hu
      have := inUnit_iff.mp hu r hr v hv
      rcases h with h | h
      · exact absurd this.1 (not_le.mpr h)
      · exact absurd this.2 (not_le.mpr h)
    simp [validBase, validFuzzy, this]
  · rintro ⟨d, rfl, hw⟩
    simp [validBase, validFuzzy, validART1, widthOk, hw]
  · rintro ⟨r, hr, v, hv, h0, h1⟩
    have : isBinary X = false := by
      rw [Bool.eq_false_iff]
      intro hb
      simp only [isBinary, List.all_eq_true, Bool.or_eq_true, decide_eq_true_eq] at hb
      rcases hb r hr v hv with h | h
      · exact h0 h
      · exact h1 h
    simp [validART1, this]
  · intro h
    simp [validFuzzy, h]
  · rintro ⟨r, hr, h⟩
    have : rowSumsOk X = false := by
      rw [Bool.eq_false_iff]
      intro hs
      simp only [rowSumsOk, List.all_eq_true, Bool.and_eq_true, decide_eq_true_eq] at hs
      have := hs r hr
      rcases h with h | h
      · exact absurd this.1 (not_le.mpr h)
      · exact absurd this.2 (not_le.mpr h)
    simp [validFuzzy, this]

/-- `ART2A.validate_data` (range test, then the `alpha` bound, then the
assignment of `dim_`) leaves no trace when it rejects: it is `runValidate` of
the predicate `validART2A`. -/
theorem validate_art2a_eq (alpha : α) (s : DimState) (X : Mat α) :
    runValidateART2A alpha s X = runValidate (validART2A alpha) s X := by
  unfold runValidateART2A runValidate validART2A
  cases hd : s.dim with
  | none =>
    by_cases hu : inUnit X = true <;> by_cases ha : art2AlphaOk alpha (width X) = true <;>
      simp [hu, ha]
  | some d =>
    by_cases hu : inUnit X = true <;> by_cases hw : (width X == d) = true <;> simp [hu, hw]

/-- ART2A entry points: a matrix that is out of range, of a width other than
the remembered one, or — on the first call — too wide for `alpha`
(`alpha²·width > 1`) is rejected before any model state changes (full strength
since /repo 9901844; the former `…_counterexample` is gone with the defect). -/
theorem reject_is_noop_art2a {τ ρ : Type} (alpha : α)
    (body : DimState × τ → Mat α → (DimState × τ) × ρ) (s : DimState × τ) (X : Mat α)
    (hrej : (runValidateART2A alpha s.1 X).2 = false) :
    checked (runValidateART2A alpha) body s X = (s, .error .assert) := by
  refine reject_is_noop _ ?_ body s X hrej
  intro s' X' h
  rw [validate_art2a_eq] at h ⊢
  exact validate_pure_on_reject (validART2A alpha) s' X' h

/-- non-vacuity: fresh ART2A, one row of width 4.  `alpha = 9/10` (`alpha²·4 > 1`):
rejected and `dim_` still absent; `alpha = 1/2` (`alpha²·4 = 1`, the boundary):
accepted and `dim_ = 4` recorded. -/
example :
    runValidateART2A (9/10 : Rat) {} [[1/2, 1, 0, 0]] = ({}, false) ∧
    runValidateART2A (1/2 : Rat) {} [[1/2, 1, 0, 0]] = ({ dim := some 4 }, true) := by
  norm_num [runValidateART2A, inUnit, art2AlphaOk, width]

/-! ### constant columns: what the code does -/

/-- A constant column makes `d_max - d_min = 0`: the code divides 0 by 0 there
(NaN in IEEE arithmetic, `none` in the IEEE-aware model), the hypothesis
`NonConst` fails, and the NaN output is rejected by every `validate_data`.
(The total division of a field would return 0 instead — which is why `NonConst`
is an explicit hypothesis of every theorem above that divides.) -/
theorem normalize_constant_column_counterexample :
    let X : Mat Rat := [[1, 2], [1, 3]]
    Rect X 2 ∧ ¬ NonConst X ∧
    normWithChk (colMax X) (colMin X) X = [[none, some 0], [none, some 1]] := by
  refine ⟨by simp [Rect], ?_, ?_⟩
  · norm_num [NonConst, colMax, colMin, vmax, vmin]
  · norm_num [normWithChk, normRowChk, colMax, colMin, vmax, vmin]

/-! ### non-vacuity: a concrete 3×2 matrix with negative entries -/

/-- the example matrix -/
def X₀ : Mat Rat := [[1, -2], [3, 4], [-1, 0]]

example : Rect X₀ 2 ∧ X₀ ≠ [] ∧ NonConst X₀ ∧ ColsVary X₀ 2 := by
  refine ⟨by simp [Rect, X₀], by simp [X₀], ?_, ?_⟩
  · norm_num [NonConst, X₀, colMax, colMin, vmax, vmin]
  · intro j hj
    have : j = 0 ∨ j = 1 := by omega
    rcases this with rfl | rfl
    · exact ⟨[1, -2], by simp [X₀], [3, 4], by simp [X₀], by norm_num⟩
    · exact ⟨[1, -2], by simp [X₀], [3, 4], by simp [X₀], by norm_num⟩

example : normalize X₀ none none = ([[1/2, 0], [1, 1], [0, 1/3]], [3, 4], [-1, -2]) := by
  norm_num [X₀, normalize, normWith, normRow, colMax, colMin, vmax, vmin]

example : (prepareFuzzy {} X₀).1 = [[1/2, 0, 1/2, 1], [1, 1, 0, 0], [0, 1/3, 1, 2/3]] := by
  norm_num [X₀, prepareFuzzy, prepareBase, complementCode, ccRow, vcompl, normalize, normWith, normRow,
    colMax, colMin, vmax, vmin]

example : restoreFuzzy (prepareFuzzy {} X₀).2 (prepareFuzzy {} X₀).1 = some X₀ :=
  restore_prepare_fuzzy X₀ 2 (by simp [Rect, X₀]) (by simp [X₀])
    (by norm_num [NonConst, X₀, colMax, colMin, vmax, vmin])

example : validFuzzy none (prepareFuzzy {} X₀).1 = true ∧ validBase none X₀ = false := by
  norm_num [X₀, validFuzzy, validBase, inUnit, rowSumsOk, widthOk, width, ccTol, vsum, prepareFuzzy,
    prepareBase, complementCode, ccRow, vcompl, normalize, normWith, normRow, colMax, colMin, vmax, vmin]

/-- second call: `[[2, 2], [0, 1]]` is mapped with the bounds of `X₀`, not its own -/
example : (prepareBase (prepareBase {} X₀).2 [[2, 2], [0, 1]]).1 = [[3/4, 2/3], [1/4, 1/2]] := by
  norm_num [X₀, prepareBase, normalize, normWith, normRow, colMax, colMin, vmax, vmin]

/-- a rejected `partial_fit` on a trained model: the state (here: `dim_ = 2` and
a list of weights) comes back unchanged -/
example :
    checked (runValidate validBase) (fun s (_ : Mat Rat) => ((s.1, ([] : List Nat)), ()))
      (({ dim := some 2 } : DimState), [7, 8]) [[1/2, 3/2]] =
    ((({ dim := some 2 } : DimState), [7, 8]), .error .assert) := by
  norm_num [checked, runValidate, validBase, inUnit, widthOk, width]

end Art.C18
