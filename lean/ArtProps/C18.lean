/-
C18 — property theorems (stub; see DESIGN.md §6).
-/
import ArtModel.Basic

namespace Art.C18

end Art.C18
