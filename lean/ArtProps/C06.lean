/-
C06 — Result depends only on hyper-parameters and the ordered sample stream.

In the model every `partial_fit` is a left fold of the training step over its
batch and `fit` is "forget, then fold"; the content of these theorems is that
*any* partition of a stream gives the same state, that a re-fit equals a fresh
fit, and that read-only operations are the identity on the state.  That the
implementation *is* such a fold is what the correspondence checks.
-/
import ArtProofs.Map

namespace Art.C06

variable {X Wt α μ θ : Type} [LinearOrder α]

/-- Any partition of the stream into `partial_fit` batches equals one batch. -/
theorem batching_irrelevant (K : Kernel X Wt α μ) (cfg : SearchCfg μ θ) (th0 : θ)
    (veto : ArtState Wt → X → Nat → Bool) (s : ArtState Wt) (batches : List (List X)) :
    batches.foldl (partialFit K cfg th0 veto) s = partialFit K cfg th0 veto s batches.flatten :=
  partialFit_flatten K cfg th0 veto s batches

/-- `fit` equals `partial_fit` batches on a fresh estimator, whatever the partition. -/
theorem fit_eq_partial_fits_fresh (K : Kernel X Wt α μ) (cfg : SearchCfg μ θ) (th0 : θ)
    (veto : ArtState Wt → X → Nat → Bool) (s : ArtState Wt) (batches : List (List X)) :
    batches.foldl (partialFit K cfg th0 veto) {} = fit K cfg th0 veto s batches.flatten := by
  rw [partialFit_flatten]; rfl

/-- `fit` on a previously used estimator equals `fit` on a fresh one. -/
theorem refit_eq_fresh (K : Kernel X Wt α μ) (cfg : SearchCfg μ θ) (th0 : θ)
    (veto : ArtState Wt → X → Nat → Bool) (s : ArtState Wt) (xs : List X) :
    fit K cfg th0 veto s xs = fit K cfg th0 veto {} xs := rfl

/-- SimpleARTMAP: batching is irrelevant (weights, labels, map). -/
theorem smap_batching_irrelevant (K : Kernel X Wt α μ) (cfg : SearchCfg μ θ) (th0 : θ)
    (s : SMapState Wt) (batches : List (List (X × Nat))) :
    batches.foldl (smapPartialFit K cfg th0) s = smapPartialFit K cfg th0 s batches.flatten := by
  induction batches generalizing s with
  | nil => simp [smapPartialFit]
  | cons b bs ih =>
    simp only [List.foldl_cons, List.flatten_cons, ih]
    simp [smapPartialFit, List.foldl_append]

theorem smap_refit_eq_fresh (K : Kernel X Wt α μ) (cfg : SearchCfg μ θ) (th0 : θ)
    (s : SMapState Wt) (xys : List (X × Nat)) :
    smapFit K cfg th0 s xys = smapFit K cfg th0 {} xys := rfl

section ARTMAP
variable {XA XB WtA WtB : Type}

/-- ARTMAP: two `partial_fit` batches equal one (the B-side never reads the
A-side, and the A-side is supervised by the B-labels of its own batch). -/
theorem artmap_two_batches (KA : Kernel XA WtA α μ) (KB : Kernel XB WtB α μ)
    (cfgA cfgB : SearchCfg μ θ) (thA thB : θ) (st : ArtmapState WtA WtB)
    (xs₁ xs₂ : List XA) (ys₁ ys₂ : List XB) (h₁ : xs₁.length = ys₁.length) :
    artmapPartialFit KA KB cfgA cfgB thA thB
      (artmapPartialFit KA KB cfgA cfgB thA thB st xs₁ ys₁) xs₂ ys₂ =
    artmapPartialFit KA KB cfgA cfgB thA thB st (xs₁ ++ xs₂) (ys₁ ++ ys₂) := by
  unfold artmapPartialFit
  simp only
  have hb := partialFit_append KB cfgB thB noVeto st.b ys₁ ys₂
  have hl₁ := partialFit_labels_length KB cfgB thB noVeto st.b ys₁
  -- labels only grow by appending
  have happ : ∀ (s : ArtState WtB) (ys : List XB),
      ∃ t, (partialFit KB cfgB thB noVeto s ys).labels = s.labels ++ t ∧ t.length = ys.length := by
    intro s ys
    induction ys generalizing s with
    | nil => exact ⟨[], by simp [partialFit], rfl⟩
    | cons y ys ih =>
      obtain ⟨t, ht, hlen⟩ := ih (trainStep KB cfgB thB noVeto s y)
      have hstep : ∃ c, (trainStep KB cfgB thB noVeto s y).labels = s.labels ++ [c] := by
        obtain ⟨_, hl, _⟩ := stepFit_frame KB cfgB thB (noVeto s y) s y
        exact ⟨(stepFit KB cfgB thB (noVeto s y) s y).2, by simp [trainStep, hl]⟩
      obtain ⟨c, hc⟩ := hstep
      refine ⟨c :: t, ?_, by simp [hlen]⟩
      simp only [partialFit, List.foldl_cons] at ht ⊢
      rw [ht, hc]; simp
  obtain ⟨t₁, ht₁, hlen₁⟩ := happ st.b ys₁
  obtain ⟨t₂, ht₂, hlen₂⟩ := happ (partialFit KB cfgB thB noVeto st.b ys₁) ys₂
  rw [hb]
  congr 1
  rw [ht₂, ht₁]
  simp only [List.length_append, List.drop_left', List.append_assoc]
  have e1 : List.drop st.b.labels.length (st.b.labels ++ (t₁ ++ t₂)) = t₁ ++ t₂ := by simp
  have e2 : List.drop (st.b.labels.length + t₁.length) (st.b.labels ++ (t₁ ++ t₂)) = t₂ := by
    rw [← List.append_assoc]
    have : st.b.labels.length + t₁.length = (st.b.labels ++ t₁).length := by simp
    rw [this, List.drop_left]
  have e3 : List.drop st.b.labels.length (st.b.labels ++ t₁) = t₁ := by simp
  simp only [e2]
  have hz : (xs₁ ++ xs₂).zip (t₁ ++ t₂) = xs₁.zip t₁ ++ xs₂.zip t₂ :=
    List.zip_append (by omega)
  rw [hz]
  simp [smapPartialFit, List.foldl_append]

end ARTMAP

/-- Read-only operations are functions of the state that return no new state:
`predict`, `get_params`, copying — by construction in the model. -/
theorem readonly_noop (K : Kernel X Wt α μ) (s : ArtState Wt) (xs : List X) :
    (fun st : ArtState Wt => (st, predict K st.W xs)) s = (s, predict K s.W xs) := rfl

end Art.C06
