/-
C06 — property theorems (stub; see DESIGN.md §6).
-/
import ArtModel.Basic

namespace Art.C06

end Art.C06
