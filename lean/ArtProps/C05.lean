/-
C05 — Labels, cluster count and per-category counters stay mutually consistent.

`Consistent s` (ArtProofs/Fit.lean) says, for the observable state `s` of a
BaseART-derived estimator using the generic search:
  * `cnt_len`   one counter per stored category (`n_clusters = |W| = |cnt|`),
  * `labels_lt` every label indexes an existing category,
  * `cnt_hist`  per-category counters equal the label histogram,
  * `n_eq`      the sample counter equals the number of labels,
  * `all_used`  no category is empty,
  * `ordered`   categories are numbered in order of creation.
It holds after every sequence of single-epoch `fit` / `partial_fit` calls with
any batch sizes, for every kernel, mode, epsilon and (stateful) reset function.
-/
import ArtProofs.Fit

namespace Art.C05

section Defs
variable {X Wt α μ θ : Type} [LT α] [DecidableRel (α := α) (· < ·)]

/-- a training call: `fit` or `partial_fit` on a batch -/
inductive Call (X : Type) where
  | fit (xs : List X)
  | pfit (xs : List X)

def Call.size : Call X → Nat
  | .fit xs => xs.length
  | .pfit xs => xs.length

def runCall (K : Kernel X Wt α μ) (cfg : SearchCfg μ θ) (th0 : θ)
    (veto : ArtState Wt → X → Nat → Bool) (s : ArtState Wt) : Call X → ArtState Wt
  | .fit xs => fit K cfg th0 veto s xs
  | .pfit xs => partialFit K cfg th0 veto s xs

def runHistory (K : Kernel X Wt α μ) (cfg : SearchCfg μ θ) (th0 : θ)
    (veto : ArtState Wt → X → Nat → Bool) (calls : List (Call X)) : ArtState Wt :=
  calls.foldl (runCall K cfg th0 veto) {}

/-- samples presented since the last `fit` -/
def sinceLastFit (calls : List (Call X)) : Nat :=
  calls.foldl (fun acc c => match c with
    | .fit xs => xs.length
    | .pfit xs => acc + xs.length) 0

end Defs

variable {X Wt α μ θ : Type} [LinearOrder α]

/-- **Main invariant**: every reachable state is consistent. -/
theorem history_consistent (K : Kernel X Wt α μ) (cfg : SearchCfg μ θ) (th0 : θ)
    (veto : ArtState Wt → X → Nat → Bool) (calls : List (Call X)) :
    Consistent (runHistory K cfg th0 veto calls) := by
  unfold runHistory
  suffices h : ∀ s : ArtState Wt, Consistent s →
      Consistent (calls.foldl (runCall K cfg th0 veto) s) from h {} consistent_empty
  induction calls with
  | nil => intro s hs; simpa
  | cons c cs ih =>
    intro s hs
    apply ih
    cases c with
    | fit xs => exact fit_consistent K cfg th0 veto s xs
    | pfit xs => exact partialFit_consistent K cfg th0 veto s xs hs

/-- `labels_` has one entry per sample presented by the call, on top of what was there
(`partial_fit`), or exactly the batch size (`fit`). -/
theorem labels_length (K : Kernel X Wt α μ) (cfg : SearchCfg μ θ) (th0 : θ)
    (veto : ArtState Wt → X → Nat → Bool) (s : ArtState Wt) (xs : List X) :
    (partialFit K cfg th0 veto s xs).labels.length = s.labels.length + xs.length ∧
    (fit K cfg th0 veto s xs).labels.length = xs.length := by
  refine ⟨partialFit_labels_length K cfg th0 veto s xs, ?_⟩
  have := partialFit_labels_length K cfg th0 veto ({} : ArtState Wt) xs
  simpa [fit] using this

/-- `labels_` has exactly one entry per sample presented since the last `fit`. -/
theorem labels_since_last_fit (K : Kernel X Wt α μ) (cfg : SearchCfg μ θ) (th0 : θ)
    (veto : ArtState Wt → X → Nat → Bool) (calls : List (Call X)) :
    (runHistory K cfg th0 veto calls).labels.length = sinceLastFit calls := by
  unfold runHistory sinceLastFit
  suffices h : ∀ (s : ArtState Wt) (acc : Nat), s.labels.length = acc →
      (calls.foldl (runCall K cfg th0 veto) s).labels.length =
        calls.foldl (fun acc c => match c with
          | .fit xs => xs.length
          | .pfit xs => acc + xs.length) acc from h {} 0 rfl
  induction calls with
  | nil => intro s acc h; simpa using h
  | cons c cs ih =>
    intro s acc h
    simp only [List.foldl_cons]
    apply ih
    cases c with
    | fit xs => exact (labels_length K cfg th0 veto s xs).2
    | pfit xs => rw [← h]; exact (labels_length K cfg th0 veto s xs).1

/-- the counters' total equals the number of samples presented since the last fit -/
theorem counters_total (s : ArtState Wt) (h : Consistent s) :
    s.n = s.labels.length ∧ ∀ k, k < s.W.length → s.cnt.getD k 0 = s.labels.count k :=
  ⟨h.n_eq, h.cnt_hist⟩

/-! Non-vacuity: a concrete history over `Int` activations (three samples, two categories). -/
private def K0 : Kernel Int Int Int Int :=
  { choice := fun _ x w => some (-(x - w).natAbs), matchv := fun x w => -(x - w).natAbs,
    update := fun _ w => w, newW := fun x => x }
private def cfg0 : SearchCfg Int Int := scalarCfg .plus false (· + 1) (· - 1) 1000

example : (runHistory K0 cfg0 (-2) noVeto [.fit [0, 10, 1], .pfit [11]]).labels = [0, 1, 0, 1] := by decide
example : (runHistory K0 cfg0 (-2) noVeto [.fit [0, 10, 1], .pfit [11]]).cnt = [2, 2] := by decide
example : (runHistory K0 cfg0 (-2) noVeto [.fit [0, 10, 1], .fit [5]]).cnt = [1] := by decide

end Art.C05
