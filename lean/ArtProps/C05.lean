/-
C05 — property theorems (stub; see DESIGN.md §6).
-/
import ArtModel.Basic

namespace Art.C05

end Art.C05
