/-
C14 — property theorems (stub; see DESIGN.md §6).
-/
import ArtModel.Basic

namespace Art.C14

end Art.C14
