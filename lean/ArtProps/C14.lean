/-
C14 — TopoART: two winners per sample, edge counts, pruning schedule, consistent
re-indexing, square zero-diagonal adjacency.  Property theorems only; helper
lemmas live in ArtProofs.Topo, the model in ArtModel.Topo.

Every theorem is for every linear order of activations `α`, every match-value
type `μ` and threshold type `θ` (scalar or per-channel), every kernel
`K : TopoKernel X Wt α μ` (any `choice`, `matchv`, `update`, `updateLower`,
`newW` — in particular every base module with a `beta` parameter at any
`beta ≥ beta_lower`), every search configuration (all five match-tracking
modes are instances), every reset function, every `tau`, `phi` and every
stream.  (`phi ≤ tau` and `beta_lower ≤ beta` are constructor checks of the
implementation; no theorem below needs them.)

Two clauses hold only with an extra hypothesis, because the code breaks them:
* "every `tau` samples … are removed" — true of `fit` (`topo_fit_schedule`), false of
  `partial_fit`, which never calls the pruning hook (finding F11,
  `topo_schedule_partial_fit_counterexample`);
* "the adjacency matrix is *always* square with one row per category" — true after
  every sample of every history (`topo_shape_inv`), false in the window between a
  `fit` call on zero rows and the next sample (`topo_shape_inv_counterexample`,
  `topo_shape_inv_calls_partial`).
-/
import ArtProofs.Topo

namespace Art.C14

variable {X Wt α μ θ : Type} [LinearOrder α]

/-! ### the two-winner search -/

/-- The loop terminates: any fuel ≥ the number of live candidates gives the same result. -/
theorem two_winner_search_terminates (cfg : SearchCfg μ θ) (M : Nat → μ) (veto : Nat → Bool)
    (f₁ f₂ : Nat) (T : List (Option α)) (th : θ) (best : Option Nat)
    (h₁ : liveCount T ≤ f₁) (h₂ : liveCount T ≤ f₂) :
    topoSearch cfg M veto f₁ T th best = topoSearch cfg M veto f₂ T th best :=
  topoSearch_fuel_irrelevant cfg M veto f₁ f₂ T th best h₁ h₂

/-- **What the search of one sample returns.**  Categories are visited by decreasing
activation (ties: lowest index), each live candidate at most once; every visit
records the vigilance test against the threshold *in force* and the answer of the
reset function; the threshold moves exactly after a visit that passed and was vetoed
(as in `BaseART.step_fit`; finding C14-c / F27, fixed); the visits that
passed and were not vetoed are exactly `[best, second]` in this order (so the best is
the first resonating category, the second the next one, and every other visited
category failed or was vetoed); best ≠ second, both are live candidates; there is no
second without a best; and unless the search was abandoned (MT1) a missing second
winner means every candidate was visited. -/
theorem two_winner_search_spec (cfg : SearchCfg μ θ) (M : Nat → μ) (veto : Nat → Bool)
    (T : List (Option α)) (th : θ) :
    let r := topoSearch cfg M veto T.length T th none
    resonantCs r = r.best.toList ++ r.second.toList ∧
    (r.best = none → r.second = none) ∧
    (∀ b c, r.best = some b → r.second = some c → b ≠ c) ∧
    (∀ b, r.best = some b → ∃ v, T[b]? = some (some v)) ∧
    (∀ c, r.second = some c → ∃ v, T[c]? = some (some v)) ∧
    (∀ v ∈ r.visits, v.m = cfg.passes v.th (M v.c) ∧ v.ok = !veto v.c) ∧
    (r.visits.map (·.c)).Pairwise (Before T) ∧
    TopoThreads cfg M th r.visits r.th ∧
    (cfg.keep = true → r.second = none →
      ∀ c a, T[c]? = some (some a) → c ∈ r.visits.map (·.c)) := by
  have hf := liveCount_le_length T
  obtain ⟨_, h2, h3, h4, h5⟩ := topoSearch_winners cfg M veto T.length T th none hf
  refine ⟨by simpa using topoSearch_resonant cfg M veto T.length T th none hf, h5, h4 rfl, h3 rfl,
    h2, topoSearch_faithful cfg M veto T.length T th none hf,
    (topoSearch_visit_order cfg M veto T.length T th none hf).1,
    topoSearch_threshold_trace cfg M veto T.length T th none hf,
    fun hk hn => topoSearch_exhaustive cfg M veto hk T.length T th none hf hn⟩

/-- **Without a reset function: best and second-best vigilance-passing category.**
The best winner is the first index of maximal activation among the candidates whose
match value passes the configured threshold, the second winner the first index of
maximal activation among the remaining passing candidates. -/
theorem two_winner_no_reset (cfg : SearchCfg μ θ) (M : Nat → μ) (T : List (Option α)) (th : θ) :
    let r := topoSearch cfg M (fun _ => false) T.length T th none
    r.best = nanargmax (qualifying cfg M th T) ∧
    r.second = r.best.bind (fun b => nanargmax (qualifying cfg M th (T.set b none))) :=
  (topoSearch_no_veto cfg M T.length T th none (liveCount_le_length T)).2 rfl

/-- **Winners pass a vigilance that tracking has only ever moved from passing values.**
Any invariant `Q` of the threshold that holds of the configured one and survives
`track` on a match value that *passed* holds of the threshold in force at every visit —
in particular at the visits of the two winners, which passed it.  (With `Q th := th0 ≤ th`
under MT+ / MT0 / MT1: the winners pass the configured vigilance.  Before the fix of
finding C14-c a vetoed non-matching category lowered the threshold and this failed.) -/
theorem two_winner_threshold_inv (cfg : SearchCfg μ θ) (M : Nat → μ) (veto : Nat → Bool)
    (Q : θ → Prop) (hQ : ∀ th m, Q th → cfg.passes th m = true → Q (cfg.track th m))
    (T : List (Option α)) (th : θ) (h0 : Q th) :
    ∀ v ∈ (topoSearch cfg M veto T.length T th none).visits, Q v.th :=
  topoSearch_threshold_inv cfg M veto Q hQ T.length T th none (liveCount_le_length T) h0

/-! ### one sample -/

/-- **The training step.**  On a non-empty model the step returns the best winner
of the search, or the index of a newly appended category when nothing resonated.
* nothing resonated: one weight `new_weight x` is appended with count 1, the
  adjacency matrix gets a zero row and column, the mask a `False`;
* only a best `b`: `W[b] := update x W[b]`, its counter + 1, nothing else changes;
* best `b` and second `c` (`b ≠ c`): additionally `W[c] := updateLower x W[c]`
  (the lower rate), its counter + 1, and exactly the cell `adjacency[b, c]` grows by one.
The sample counter grows by one and `labels_` is untouched by the step itself. -/
theorem topo_step_spec (K : TopoKernel X Wt α μ) (cfg : SearchCfg μ θ) (th0 : θ)
    (veto : Nat → Bool) (s : TopoState Wt) (x : X) (hs : ShapeInv s) (hne : s.W ≠ []) :
    let r := topoStepSearch K cfg th0 veto s.W x
    let s' := (topoStep K cfg th0 veto s x).1
    let lab := (topoStep K cfg th0 veto s x).2
    s'.n = s.n + 1 ∧ s'.labels = s.labels ∧
    (r.best = none →
      lab = s.W.length ∧ s'.W = s.W ++ [K.newW x] ∧ s'.cnt = s.cnt ++ [1] ∧
      s'.perm = s.perm ++ [false] ∧ s'.adj.length = s.adj.length + 1 ∧
      ∀ i j, adjAt s'.adj i j = adjAt s.adj i j) ∧
    (∀ b, r.best = some b → r.second = none →
      lab = b ∧ b < s.W.length ∧ s'.W = s.W.modify b (K.update x) ∧
      s'.cnt = s.cnt.modify b (· + 1) ∧ s'.adj = s.adj ∧ s'.perm = s.perm) ∧
    (∀ b c, r.best = some b → r.second = some c →
      lab = b ∧ b < s.W.length ∧ c < s.W.length ∧ b ≠ c ∧
      s'.W = (s.W.modify b (K.update x)).modify c (K.updateLower x) ∧
      (∀ k w, s.W[k]? = some w → s'.W[k]? =
        some (if k = b then K.update x w else if k = c then K.updateLower x w else w)) ∧
      s'.cnt = (s.cnt.modify b (· + 1)).modify c (· + 1) ∧ s'.perm = s.perm ∧
      ∀ i j, adjAt s'.adj i j = adjAt s.adj i j + if i = b ∧ j = c then 1 else 0) := by
  have hw := topoStepSearch_winners K cfg th0 veto s.W x
  have hE : s.W.isEmpty = false := by cases h : s.W <;> simp_all
  simp only [topoStep, hE, Bool.false_eq_true, ↓reduceIte]
  refine ⟨?_, ?_, ?_, ?_, ?_⟩
  · simp only [applyTopo]; split <;> [rfl; (split <;> rfl)]
  · simp only [applyTopo]; split <;> [rfl; (split <;> rfl)]
  · intro hb
    simp [applyTopo, hb, padAdj_length, adjAt_padAdj]
  · intro b hb hc
    simp [applyTopo, hb, hc, hw.1 b hb]
  · intro b c hb hc
    have hbc : b ≠ c := hw.2.2.1 b c hb hc
    have hbl := hw.1 b hb
    have hcl := hw.2.1 c hc
    simp only [applyTopo, hb, hc]
    refine ⟨by trivial, hbl, hcl, hbc, by trivial, ?_, by trivial, by trivial, ?_⟩
    · intro k w hk
      simp only [List.getElem?_modify, hk, Option.map_eq_map, Option.map_some]
      by_cases e1 : b = k
      · subst e1; simp [Ne.symm hbc]
      · by_cases e2 : c = k
        · subst e2; simp [e1, Ne.symm e1]
        · simp [e1, e2, Ne.symm e1, Ne.symm e2]
    · intro i j
      rw [adjAt_incAdj]
      have hrow : ((s.adj[b]?).getD []).length = s.W.length := by
        have hlt : b < s.adj.length := by rw [hs.adj_len]; exact hbl
        rw [List.getElem?_eq_getElem hlt]
        exact hs.row_len b _ (List.getElem?_eq_getElem hlt)
      simp [hrow, hcl]

/-- The first sample of an empty model: category 0 with count 1, a 1×1 zero
adjacency matrix and a non-permanent flag. -/
theorem topo_step_first (K : TopoKernel X Wt α μ) (cfg : SearchCfg μ θ) (th0 : θ)
    (veto : Nat → Bool) (s : TopoState Wt) (x : X) (hW : s.W = []) (hc : s.cnt = []) :
    topoStep K cfg th0 veto s x =
      ({ s with W := [K.newW x], cnt := [1], adj := [[0]], perm := [false], n := s.n + 1 }, 0) := by
  simp [topoStep, hW, hc]

/-- **A category is appended iff nothing resonated.** -/
theorem topo_step_new_iff (K : TopoKernel X Wt α μ) (cfg : SearchCfg μ θ) (th0 : θ)
    (veto : Nat → Bool) (s : TopoState Wt) (x : X) (hne : s.W ≠ []) :
    (topoStep K cfg th0 veto s x).1.W.length = s.W.length + 1 ↔
      resonantCs (topoStepSearch K cfg th0 veto s.W x) = [] := by
  have hE : s.W.isEmpty = false := by cases h : s.W <;> simp_all
  have hr := topoSearch_resonant cfg (topoMatchAt K s.W x) veto (topoActivations K s.W x).length
    (topoActivations K s.W x) th0 none (liveCount_le_length _)
  have hw := topoStepSearch_winners K cfg th0 veto s.W x
  simp only [topoStep, hE, applyTopo, Bool.false_eq_true, ↓reduceIte]
  unfold topoStepSearch at hw ⊢
  simp only at hr hw ⊢
  rw [hr]
  cases hb : (topoSearch cfg (topoMatchAt K s.W x) veto (topoActivations K s.W x).length
      (topoActivations K s.W x) th0 none).best with
  | none => simp [hw.2.2.2 hb]
  | some b =>
    cases hc : (topoSearch cfg (topoMatchAt K s.W x) veto (topoActivations K s.W x).length
      (topoActivations K s.W x) th0 none).second <;> simp

/-! ### shapes -/

/-- **Shape invariant, after every sample of every history.**  Take any history of
`fit` / `partial_fit` calls (any data, any batch sizes, zero-row calls included) on a
fresh instance, followed by one more call on any data: after *every sample* of that
call — i.e. after the step and, in `fit`, after the pruning round if one is due —
`adjacency`, counters, mask and weights have one row / entry per category, every
adjacency row has one column per category, and the diagonal is zero (best ≠ second:
the best is struck before the second is chosen). -/
theorem topo_shape_inv (K : TopoKernel X Wt α μ) (cfg : SearchCfg μ θ) (th0 : θ)
    (veto : TopoState Wt → X → Nat → Bool) (tau phi : Nat) (calls : List (TopoCall X))
    (xs : List X) :
    let s := topoRun K cfg th0 veto tau phi {} calls
    (∀ t ∈ topoFitTrace K cfg th0 veto tau phi s xs, ShapeInv t) ∧
    (∀ t ∈ topoPFitTrace K cfg th0 veto s xs, ShapeInv t) :=
  ⟨topoFitTrace_shape K cfg th0 veto tau phi _ xs,
   topoPFitTrace_shape K cfg th0 veto _ xs
     (topoRun_weak K cfg th0 veto tau phi {} calls shapeInv_empty.weak)⟩

/-- The transitions one by one: a step from any state satisfying the weak invariant
(counters match the weights; full invariant if non-empty) and a pruning round from a
state satisfying the invariant both end in a state satisfying the invariant. -/
theorem topo_shape_inv_transitions (K : TopoKernel X Wt α μ) (cfg : SearchCfg μ θ) (th0 : θ)
    (veto : Nat → Bool) (phi : Nat) (s : TopoState Wt) (x : X) (xs : List X) :
    (WeakInv s → ShapeInv (topoStep K cfg th0 veto s x).1) ∧
    (ShapeInv s → ShapeInv (prune K phi s xs)) :=
  ⟨topoStep_shape K cfg th0 veto s x, prune_shape K phi s xs⟩

/- Full statement that the code (and therefore the faithful model) violates:
     ∀ calls, ShapeInv (topoRun K cfg th0 veto tau phi {} calls)
   `fit` on zero rows resets `W` and the counters but not `adjacency` / `_permanent_mask`
   (finding C14-b). -/

/-- **Between calls, if no `fit` call had zero rows** the invariant holds after every call. -/
theorem topo_shape_inv_calls_partial (K : TopoKernel X Wt α μ) (cfg : SearchCfg μ θ) (th0 : θ)
    (veto : TopoState Wt → X → Nat → Bool) (tau phi : Nat) (calls : List (TopoCall X))
    (hc : FitsNonempty calls) : ShapeInv (topoRun K cfg th0 veto tau phi {} calls) :=
  topoRun_shape K cfg th0 veto tau phi {} calls shapeInv_empty hc

/-! ### pruning -/

/-- **Pruning keeps exactly the right set.**  Category `i` survives iff it was
permanent before or has been chosen at least `phi` times; there are as many
categories afterwards as survivors; all survivors are permanent afterwards. -/
theorem prune_keeps_exactly (K : TopoKernel X Wt α μ) (phi : Nat) (s : TopoState Wt)
    (xs : List X) (hs : ShapeInv s) :
    (∀ i, i ∈ pruneKeep phi s ↔
      i < s.W.length ∧ (s.perm[i]? = some true ∨ ∃ c, s.cnt[i]? = some c ∧ phi ≤ c)) ∧
    (prune K phi s xs).W.length = (pruneKeep phi s).length ∧
    (∀ b ∈ (prune K phi s xs).perm, b = true) := by
  refine ⟨?_, gather_length (pruneKeep_lt hs), prune_perm_all_true K phi s xs⟩
  intro i
  have hml : (pruneMask phi s).length = s.W.length := by
    rw [pruneMask_length, hs.perm_len, hs.cnt_len]; simp
  rw [pruneKeep, mem_keepIdx, hml]
  constructor
  · rintro ⟨hi, hm⟩
    have hp : i < s.perm.length := by rw [hs.perm_len]; exact hi
    have hc : i < s.cnt.length := by rw [hs.cnt_len]; exact hi
    rw [pruneMask_getElem? phi s i _ _ (List.getElem?_eq_getElem hp) (List.getElem?_eq_getElem hc)] at hm
    simp only [Option.some.injEq, Bool.or_eq_true, decide_eq_true_eq] at hm
    refine ⟨hi, ?_⟩
    rcases hm with h | h
    · exact Or.inl (by rw [List.getElem?_eq_getElem hp, h])
    · exact Or.inr ⟨_, List.getElem?_eq_getElem hc, h⟩
  · rintro ⟨hi, h⟩
    have hp : i < s.perm.length := by rw [hs.perm_len]; exact hi
    have hc : i < s.cnt.length := by rw [hs.cnt_len]; exact hi
    refine ⟨hi, ?_⟩
    rw [pruneMask_getElem? phi s i _ _ (List.getElem?_eq_getElem hp) (List.getElem?_eq_getElem hc)]
    rcases h with h | ⟨c, hcc, hphi⟩
    · rw [List.getElem?_eq_getElem hp] at h
      simp [Option.some.inj h]
    · rw [List.getElem?_eq_getElem hc] at hcc
      simp [Option.some.inj hcc, hphi]

/-- **Pruning re-indexes everything by one strictly monotone injection.**
`ι = pruneKeep phi s` lists the surviving old indices in strictly increasing order
(new index `j` ↦ old index `ι[j]`).  Weights, counters, the (updated) mask and the
adjacency sub-matrix of the pruned state are the `ι`-re-indexed old ones; the label of
every row of `X` whose category survives is mapped by `ι⁻¹`; an orphaned row is
re-predicted on the pruned model, or gets −1 when nothing survives; labels beyond the
rows of `X` and the sample counter are untouched. -/
theorem prune_reindex_consistent (K : TopoKernel X Wt α μ) (phi : Nat) (s : TopoState Wt)
    (xs : List X) (hs : ShapeInv s) :
    let ι := pruneKeep phi s
    let s' := prune K phi s xs
    ι.Pairwise (· < ·) ∧ (∀ i ∈ ι, i < s.W.length) ∧
    s'.W.length = ι.length ∧ s'.cnt.length = ι.length ∧ s'.perm.length = ι.length ∧
    s'.adj.length = ι.length ∧
    (∀ j (hj : j < ι.length),
      s'.W[j]? = s.W[ι[j]]? ∧ s'.cnt[j]? = s.cnt[ι[j]]? ∧ s'.perm[j]? = some true ∧
      ∀ k (hk : k < ι.length), adjAt s'.adj j k = adjAt s.adj ι[j] ι[k]) ∧
    (∀ (j : Nat) (hj : j < ι.length) (i : Nat) (x : X), s.labels[i]? = some (ι[j] : Int) →
      xs[i]? = some x →
      s'.labels[i]? = some (j : Int)) ∧
    (∀ (i : Nat) (l : Int) (x : X), s.labels[i]? = some l → xs[i]? = some x →
      ¬ (0 ≤ l ∧ l.toNat ∈ ι) →
      s'.labels[i]? = some (if s'.W ≠ [] then topoPredLabel K s'.W x else -1)) ∧
    (∀ i, xs.length ≤ i → s'.labels[i]? = s.labels[i]?) ∧
    s'.n = s.n := by
  unfold pruneKeep
  have hk : ∀ i ∈ keepIdx (pruneMask phi s), i < s.W.length := pruneKeep_lt (phi := phi) hs
  have hml : (pruneMask phi s).length = s.W.length := by
    rw [pruneMask_length, hs.perm_len, hs.cnt_len]; simp
  have hsorted := keepIdx_sorted (pruneMask phi s)
  have hnodup : (keepIdx (pruneMask phi s)).Nodup := hsorted.imp (fun h => Nat.ne_of_lt h)
  have hinv := prune_shape K phi s xs hs
  have hWlen : (prune K phi s xs).W.length = (keepIdx (pruneMask phi s)).length := gather_length hk
  refine ⟨hsorted, hk, hWlen, by rw [hinv.cnt_len, hWlen], by rw [hinv.perm_len, hWlen],
    by rw [hinv.adj_len, hWlen], ?_, ?_, ?_, ?_, rfl⟩
  · intro j hj
    refine ⟨?_, ?_, ?_, ?_⟩
    · simp only [prune]
      rw [gather_getElem? hk, List.getElem?_eq_getElem hj]
      rfl
    · simp only [prune]
      rw [gather_getElem? (by simpa [hs.cnt_len] using hk), List.getElem?_eq_getElem hj]
      rfl
    · have hlt : j < (prune K phi s xs).perm.length := by rw [hinv.perm_len, hWlen]; exact hj
      rw [List.getElem?_eq_getElem hlt]
      exact congrArg some (prune_perm_all_true K phi s xs _ (List.getElem_mem hlt))
    · intro k hk'
      exact adjAt_gather hk hs.adj_len hs.row_len j k hj hk'
  · intro j hj i x hl hx
    simp only [prune, List.getElem?_mapIdx, hl, hx, Option.map_some]
    have hmem : (keepIdx (pruneMask phi s))[j] ∈ keepIdx (pruneMask phi s) := List.getElem_mem hj
    have hidx := hnodup.idxOf_getElem j hj
    simp only [relabel]
    rw [if_pos ⟨by omega, by simp [hmem]⟩]
    simp only [Int.toNat_natCast]
    rw [hidx]
  · intro i l x hl hx hnot
    simp only [prune, List.getElem?_mapIdx, hl, hx, Option.map_some, relabel]
    rw [if_neg hnot]
    congr 1
    by_cases hW : gather (keepIdx (pruneMask phi s)) s.W = []
    · simp [hW]
    · have : (gather (keepIdx (pruneMask phi s)) s.W).isEmpty = false := by
        cases h : gather (keepIdx (pruneMask phi s)) s.W <;> simp_all
      simp [hW, this]
  · intro i hi
    simp only [prune, List.getElem?_mapIdx]
    cases h : s.labels[i]? with
    | none => rfl
    | some l => simp [List.getElem?_eq_none hi]

/-! ### the schedule -/

/-- **Every `tau` samples of a `fit` a pruning round has happened**: a state of the
fit trace whose sample counter is a multiple of `tau` is the result of `prune` —
all of its categories are permanent (together with `prune_keeps_exactly`: exactly the
never-permanent categories with fewer than `phi` samples were removed). -/
theorem topo_fit_schedule (K : TopoKernel X Wt α μ) (cfg : SearchCfg μ θ) (th0 : θ)
    (veto : TopoState Wt → X → Nat → Bool) (tau phi : Nat) (s : TopoState Wt) (xs : List X) :
    ∀ t ∈ topoFitTrace K cfg th0 veto tau phi s xs, t.n % tau = 0 → ∀ b ∈ t.perm, b = true :=
  topoFitTrace_schedule K cfg th0 veto tau phi s xs

/-! ### labels -/

/-- **Labels are in range after any history.**  After any sequence of `fit` and
`partial_fit` calls on a fresh instance every label is −1 or the index of an existing
category (and `fit` leaves exactly one label per row). -/
theorem topo_labels_in_range (K : TopoKernel X Wt α μ) (cfg : SearchCfg μ θ) (th0 : θ)
    (veto : TopoState Wt → X → Nat → Bool) (tau phi : Nat) (calls : List (TopoCall X)) :
    let s := topoRun K cfg th0 veto tau phi {} calls
    ∀ l ∈ s.labels, l = -1 ∨ (0 ≤ l ∧ l < (s.W.length : Int)) := by
  intro s l hl
  obtain ⟨i, hi⟩ := List.getElem?_of_mem hl
  have := topoRun_labels K cfg th0 veto tau phi {} calls (by intro i l hi; simp at hi)
  exact this i l (List.getElem?_eq_some_iff.mp hi).1 hi

theorem topo_fit_labels_length (K : TopoKernel X Wt α μ) (cfg : SearchCfg μ θ) (th0 : θ)
    (veto : TopoState Wt → X → Nat → Bool) (tau phi : Nat) (s : TopoState Wt) (xs : List X) :
    (topoFit K cfg th0 veto tau phi s xs).labels.length = xs.length :=
  (topoFit_labels K cfg th0 veto tau phi s xs).1

/-- **−1 only after a wipe-out.**  If no pruning round of a `fit` left the model
empty (every state of the trace whose counter is a multiple of `tau` has a category),
no label of the result is −1 (all are ≥ 0). -/
theorem topo_minus_one_only_after_wipeout (K : TopoKernel X Wt α μ) (cfg : SearchCfg μ θ)
    (th0 : θ) (veto : TopoState Wt → X → Nat → Bool) (tau phi : Nat) (s : TopoState Wt)
    (xs : List X)
    (hg : ∀ t ∈ topoFitTrace K cfg th0 veto tau phi s xs, t.n % tau = 0 → t.W ≠ []) :
    ∀ l ∈ (topoFit K cfg th0 veto tau phi s xs).labels, (0 : Int) ≤ l :=
  topoFit_nonneg K cfg th0 veto tau phi s xs hg

/-! ### non-vacuity: a concrete run -/

/-- 1-d toy module: activation and match value −|x − w|; the best winner moves onto
the sample (`beta = 1`), the second half-way (`beta_lower = 1/2`) -/
def exK : TopoKernel Int Int Int Int :=
  { choice := fun _ x w => some (-(x - w).natAbs)
    matchv := fun x w => -(x - w).natAbs
    update := fun x _ => x
    updateLower := fun x w => (x + w) / 2
    newW := fun x => x }

/-- vigilance: distance ≤ −threshold; tracking as MT+ with ε = 1 -/
def exCfg : SearchCfg Int Int :=
  { passes := fun th m => decide (th ≤ m), track := fun _ m => m + 1, keep := true, tilde := false }

def exVeto : TopoState Int → Int → Nat → Bool := fun _ _ _ => false

def exXs : List Int := [0, 10, 20, 20, 23, 21, 50, 21]

/-- tau = 2, phi = 2, rho = "distance ≤ 2".  Round 1 (after 0, 10) removes *every*
category: all eight labels (also of the rows not presented yet) become −1. -/
example : (topoFitTrace exK exCfg (-2) exVeto 2 2 {} exXs)[1]? =
    some { W := [], cnt := [], adj := [], perm := [], labels := [-1, -1, -1, -1, -1, -1, -1, -1], n := 2 } := by
  decide

/-- Round 2 (after 20, 20) keeps the single category (count 2 ≥ phi), makes it
permanent and re-predicts the rows orphaned by round 1. -/
example : (topoFitTrace exK exCfg (-2) exVeto 2 2 {} exXs)[3]? =
    some { W := [20], cnt := [2], adj := [[0]], perm := [true], labels := [0, 0, 0, 0, 0, 0, 0, 0], n := 4 } := by
  decide

/-- Sample 21 has two vigilance-passing categories (20 and 23): best 0 learns at the
full rate, second 1 at the lower rate, edge (0,1) is counted. -/
example : (topoStepSearch exK exCfg (-2) (fun _ => false) [20, 23] 21).best = some 0 ∧
    (topoStepSearch exK exCfg (-2) (fun _ => false) [20, 23] 21).second = some 1 := by decide

example : (topoFitTrace exK exCfg (-2) exVeto 2 2 {} exXs)[5]? =
    some { W := [21, 22], cnt := [3, 2], adj := [[0, 1], [0, 0]], perm := [true, true],
           labels := [0, 0, 0, 0, 1, 0, 0, 0], n := 6 } := by
  decide

/-- Round 4 removes category 2 (created by 50, count 1 < phi, never permanent), keeps
0 and 1 with their adjacency sub-matrix, and re-predicts row 6. -/
example : topoFit exK exCfg (-2) exVeto 2 2 {} exXs =
    { W := [21, 21], cnt := [4, 3], adj := [[0, 2], [0, 0]], perm := [true, true],
      labels := [0, 0, 0, 0, 1, 0, 0, 0], n := 8 } := by
  decide

/-- the hypotheses of the theorems are satisfiable on this run -/
example : ShapeInv (topoFit exK exCfg (-2) exVeto 2 2 {} exXs) :=
  ((topoFit_shape exK exCfg (-2) exVeto 2 2 {} exXs).1 (by decide))

/-- a reset function that vetoes category 0 on the sample 21: the threshold is tracked
to M + 1 = 0, category 1 (match value −2) now fails, nothing resonates (new category) -/
example : (topoStepSearch exK exCfg (-2) (fun c => c == 0) [20, 23] 21).best = none ∧
    (topoStepSearch exK exCfg (-2) (fun c => c == 0) [20, 23] 21).second = none ∧
    (topoStepSearch exK exCfg (-2) (fun c => c == 0) [20, 23] 21).th = 0 ∧
    (topoStepSearch exK exCfg (-2) (fun c => c == 0) [20, 23] 21).visits.map (·.c) = [0, 1] := by
  decide

/-- a reset function that vetoes category 1 only: 0 is the best, there is no second -/
example : (topoStepSearch exK exCfg (-2) (fun c => c == 1) [20, 23] 21).best = some 0 ∧
    (topoStepSearch exK exCfg (-2) (fun c => c == 1) [20, 23] 21).second = none := by decide

/-! ### counterexamples (the code violates these clauses; the model is faithful) -/

/- Full statement violated: "every tau samples the categories with fewer than phi
   samples that were never made permanent are removed" for incremental training. -/

/-- **F11.**  `partial_fit` never prunes: after 4 = 2·tau samples, four categories
with count 1 < phi = 2 are still there and none is permanent, whereas `fit` on the same
rows has removed every category. -/
theorem topo_schedule_partial_fit_counterexample :
    (topoPartialFit exK exCfg (-2) exVeto {} [0, 10, 20, 30]).cnt = [1, 1, 1, 1] ∧
    (topoPartialFit exK exCfg (-2) exVeto {} [0, 10, 20, 30]).perm = [false, false, false, false] ∧
    (topoPartialFit exK exCfg (-2) exVeto {} [0, 10, 20, 30]).n = 4 ∧
    (topoFit exK exCfg (-2) exVeto 2 2 {} [0, 10, 20, 30]).W = [] := by decide

/-- **`fit` on zero rows leaves a stale adjacency matrix** (finding C14-b): `W` is
empty but `adjacency` still has the two rows of the previous fit. -/
theorem topo_shape_inv_counterexample :
    let s := topoFit exK exCfg (-2) exVeto 2 2 (topoFit exK exCfg (-2) exVeto 2 2 {} exXs) []
    s.W = [] ∧ s.adj = [[0, 2], [0, 0]] ∧ s.perm = [true, true] ∧ ¬ ShapeInv s := by
  refine ⟨by decide, by decide, by decide, fun h => ?_⟩
  have := h.adj_len
  revert this
  decide

end Art.C14
