/-
ArtGenProofs.VATSpec — the definition `Art.Gen.VAT.VAT` that `harness/artv/vtrans.py` regenerates from
`artlib/common/VAT.py` on every run (ArtGen/VAT.lean) equals the hand-written model `Art.VAT.vat`
(ArtModel/VAT.lean) that the C20 theorems are stated about.

* `npArgmin_eq_argminFirst`, `npArgmax_eq_argmaxFirst`: numpy's left-to-right first-extremum scans (ImpVAT) are the
  model's right-to-left recursions, over every linear order;
* `npFancy2_eq_some`, `npFancy2_eq_ixSub`: `M[np.ix_(rows, cols)]` is the model's `ixSub` whenever numpy does not
  raise, and it does not raise on an `n × n` matrix with in-range indices;
* `body_spec`, `while_spec`: one iteration / the whole `while remaining:` loop is `vatLoop`, for every fuel that is at
  least the number of remaining samples (no bound on `n`);
* `VAT_spec`: for every `n ≥ 1`, every `n × n` matrix over a linear order, every fuel `≥ n - 1` and every external
  `squareform`:  `VAT squareform fuel D none = some ((vat D).2, (vat D).1)`;
  `VAT_empty` (n = 0: numpy's argmax raises), `VAT_metric` (the call with a metric = the call on the pre-computed
  matrix, under the one fact about scipy's `squareform` that the code relies on), `VAT_fuel_irrelevant`;
* the C20 theorems transported to the generated definition: `VAT_perm`, `VAT_seed_is_max_endpoint`, `VAT_prim_step`,
  `VAT_prim_step_first_min`, `VAT_matrix_reordered`;
* non-vacuity: the generated code run on the matrices of ArtProps/C20.lean.
-/
import Mathlib.Order.Basic
import Mathlib.Order.Defs.LinearOrder
import ArtGen.VAT
import ArtProofs.VAT
import ArtProps.C20

namespace Art.GenSpec.VAT
open Art Art.VAT Art.ImpVAT Art.Gen.VAT

section scans
variable {α : Type} [LinearOrder α]

theorem argminScan_eq (l : List α) : ∀ (best : α) (bi i : Nat),
    argminScan best bi i l =
      match argminV l with
      | none => bi
      | some (k, u) => if u < best then i + k else bi := by
  induction l with
  | nil => intro best bi i; simp [argminScan, argminV]
  | cons y ys ih =>
    intro best bi i
    simp only [argminScan, argminV]
    by_cases hyb : y < best
    · rw [if_pos hyb, ih]
      cases argminV ys with
      | none => simp [hyb]
      | some ku =>
        obtain ⟨k, u⟩ := ku
        simp only
        by_cases huy : u < y
        · simp [huy, lt_trans huy hyb]; rw [Nat.add_assoc, Nat.add_comm 1 k]
        · simp [huy, hyb]
    · rw [if_neg hyb, ih]
      cases argminV ys with
      | none => simp [hyb]
      | some ku =>
        obtain ⟨k, u⟩ := ku
        simp only
        by_cases huy : u < y
        · simp only [huy, if_true]
          by_cases hub : u < best
          · simp [hub]; omega
          · simp [hub]
        · have : ¬ u < best := fun h => huy (lt_of_lt_of_le h (not_lt.mp hyb))
          simp [huy, hyb, this]

theorem npArgmin_eq_argminFirst (l : List α) : npArgmin l = argminFirst l := by
  cases l with
  | nil => simp [npArgmin, argminFirst, argminV]
  | cons x xs =>
    simp only [npArgmin, argminFirst, argminV, argminScan_eq]
    cases argminV xs with
    | none => simp
    | some ku =>
      obtain ⟨k, u⟩ := ku
      by_cases h : u < x <;> simp [h, Nat.add_comm]

theorem argmaxScan_eq (l : List α) : ∀ (best : α) (bi i : Nat),
    argmaxScan best bi i l =
      match nanargmaxV (l.map some) with
      | none => bi
      | some (k, u) => if best < u then i + k else bi := by
  induction l with
  | nil => intro best bi i; simp [argmaxScan, nanargmaxV]
  | cons y ys ih =>
    intro best bi i
    simp only [argmaxScan, List.map_cons, nanargmaxV]
    by_cases hyb : best < y
    · rw [if_pos hyb, ih]
      cases nanargmaxV (ys.map some) with
      | none => simp [hyb]
      | some ku =>
        obtain ⟨k, u⟩ := ku
        simp only
        by_cases huy : y < u
        · simp [huy, lt_trans hyb huy]; rw [Nat.add_assoc, Nat.add_comm 1 k]
        · simp [huy, hyb]
    · rw [if_neg hyb, ih]
      cases nanargmaxV (ys.map some) with
      | none => simp [hyb]
      | some ku =>
        obtain ⟨k, u⟩ := ku
        simp only
        by_cases huy : y < u
        · simp only [huy, if_true]
          by_cases hub : best < u
          · simp [hub]; omega
          · simp [hub]
        · have : ¬ best < u := fun h => huy (lt_of_le_of_lt (not_lt.mp hyb) h)
          simp [huy, hyb, this]

theorem npArgmax_eq_argmaxFirst (l : List α) : npArgmax l = argmaxFirst l := by
  cases l with
  | nil => simp [npArgmax, argmaxFirst, nanargmax, nanargmaxV]
  | cons x xs =>
    simp only [npArgmax, argmaxFirst, nanargmax, List.map_cons, nanargmaxV, argmaxScan_eq]
    cases nanargmaxV (xs.map some) with
    | none => simp
    | some ku =>
      obtain ⟨k, u⟩ := ku
      by_cases h : x < u <;> simp [h, Nat.add_comm]

end scans
section plumbing
variable {β γ : Type}

theorem optMap_congr {f g : β → Option γ} : ∀ {l : List β}, (∀ x ∈ l, f x = g x) → optMap f l = optMap g l
  | [], _ => rfl
  | x :: xs, h => by
    have ih := optMap_congr (l := xs) (fun y hy => h y (by simp [hy]))
    simp only [optMap, h x (by simp), ih]

/-- a comprehension none of whose elements raises is `filterMap` -/
theorem optMap_of_all_some {f : β → Option γ} : ∀ {l : List β}, (∀ x ∈ l, (f x).isSome) →
    optMap f l = some (l.filterMap f)
  | [], _ => rfl
  | x :: xs, h => by
    obtain ⟨y, hy⟩ := Option.isSome_iff_exists.mp (h x (by simp))
    have ih := optMap_of_all_some (l := xs) (fun z hz => h z (by simp [hz]))
    simp only [optMap, hy, ih, List.filterMap_cons_some hy]

/-- whenever the comprehension does not raise, its value is `filterMap` (of any function that agrees with `f`
where `f` does not raise) -/
theorem optMap_eq_some {f g : β → Option γ} : ∀ {l : List β} {r : List γ}, optMap f l = some r →
    (∀ x ∈ l, ∀ y, f x = some y → g x = some y) → l.filterMap g = r
  | [], r, h, _ => by simpa [optMap] using h
  | x :: xs, r, h, hg => by
    simp only [optMap] at h
    cases hx : f x with
    | none => simp [hx] at h
    | some y =>
      cases hxs : optMap f xs with
      | none => simp [hx, hxs] at h
      | some ys =>
        simp only [hx, hxs, Option.some.injEq] at h
        rw [List.filterMap_cons_some (hg x (by simp) y hx),
          optMap_eq_some hxs (fun z hz => hg z (by simp [hz])), h]

/-- `M[np.ix_(rows, cols)]`, whenever numpy does not raise, is the model's `ixSub` (for every list of rows `M`) -/
theorem npFancy2_eq_some {M : List (List β)} {rows cols : List Nat} {R : List (List β)}
    (h : npFancy2 M (npIx rows cols) = some R) : R = ixSub M rows cols := by
  simp only [npFancy2, npIx] at h
  rw [ixSub, optMap_eq_some h]
  intro i _ row hrow
  cases hi : M[i]? with
  | none => simp [hi] at hrow
  | some r =>
    simp only [hi, Option.bind_some] at hrow
    simp only [Option.map_some, Option.some.injEq]
    exact optMap_eq_some hrow (fun _ _ _ h => h)

variable {n : Nat} {D : List (List β)}

/-- on an `n × n` matrix with in-range indices numpy does not raise -/
theorem npFancy2_eq_ixSub (hsq : Square n D) {rows cols : List Nat} (hr : ∀ i ∈ rows, i < n)
    (hc : ∀ j ∈ cols, j < n) : npFancy2 D (npIx rows cols) = some (ixSub D rows cols) := by
  have hg : ∀ i ∈ rows, (D[i]?).bind (fun r => optMap (fun j => r[j]?) cols)
      = (D[i]?).map (fun r => cols.filterMap (fun j => r[j]?)) := by
    intro i hi
    have hil : i < D.length := hsq.1 ▸ hr i hi
    have hl : D[i].length = n := hsq.2 _ (List.getElem_mem hil)
    have : optMap (fun j => D[i][j]?) cols = some (cols.filterMap (fun j => D[i][j]?)) := by
      apply optMap_of_all_some
      intro j hj
      have : j < D[i].length := hl ▸ hc j hj
      simp [List.getElem?_eq_getElem this]
    simp [List.getElem?_eq_getElem hil, this]
  simp only [npFancy2, npIx]
  rw [optMap_congr hg]
  exact optMap_of_all_some (ixSub_row_isSome hsq hr cols)

theorem npShape_rect {m : Nat} {M : List (List β)} (hne : M ≠ []) (h : ∀ r ∈ M, r.length = m) :
    npShape M = (M.length, m) := by
  cases M with
  | nil => exact absurd rfl hne
  | cons r rs => simp [npShape, h r (by simp)]

end plumbing
section loop
variable {α : Type} [LinearOrder α] {n : Nat} {D : List (List α)}

/-- one iteration of the generated loop body, in the model's vocabulary: with `p` the first minimal position of
the flattened `D[np.ix_(vis, rem)]`, the body appends `rem[p % len(rem)]` and pops that position. -/
theorem body_spec (hsq : Square n D) {vis rem : List Nat} (jx : Nat) (hne : vis ≠ [])
    (hv : ∀ i ∈ vis, i < n) (hr : ∀ j ∈ rem, j < n) {p : Nat}
    (hp : argminFirst (ixSub D vis rem).flatten = some p) (hjx : p % rem.length < rem.length) :
    VAT_while0_body D (jx, vis, rem) =
      some (p % rem.length, vis ++ [rem[p % rem.length]], rem.eraseIdx (p % rem.length)) := by
  have hrows := ixSub_row_length (rows := vis) hsq hr
  have hlen := ixSub_length (cols := rem) hsq hv
  have hflen := flatten_length_rect hrows
  rw [hlen] at hflen
  have hsubne : ixSub D vis rem ≠ [] := by
    intro h0
    rw [h0] at hlen
    exact hne (List.eq_nil_of_length_eq_zero hlen.symm)
  obtain ⟨v, hvmin⟩ := argminFirst_spec hp
  have hplt : p < vis.length * rem.length := by
    have := (List.getElem?_eq_some_iff.mp hvmin.at_k).1
    omega
  have hshape : npShape (ixSub D vis rem) = (vis.length, rem.length) := by
    rw [npShape_rect hsubne hrows, hlen]
  simp only [VAT_while0_body, npFancy2_eq_ixSub hsq hv hr, npRavel, npArgmin_eq_argminFirst, hp, hshape,
    npUnravel, hplt, if_true, List.getElem?_eq_getElem hjx, pyPop, hjx, Option.bind_eq_bind, Option.bind_some,
    Option.pure_def]

set_option linter.unusedSectionVars false in
theorem cond_spec (jx : Nat) (vis rem : List Nat) :
    VAT_while0_cond D (jx, vis, rem) = !rem.isEmpty := rfl

/-- the model's loop, one step (the `some` branches are the ones taken on a square matrix) -/
theorem vatLoop_step {f : Nat} {vis rem : List Nat} (hrem : rem ≠ []) {p : Nat}
    (hp : argminFirst (ixSub D vis rem).flatten = some p) (hjx : p % rem.length < rem.length) :
    vatLoop D (f + 1) vis rem
      = vatLoop D f (vis ++ [rem[p % rem.length]]) (rem.eraseIdx (p % rem.length)) := by
  rw [vatLoop]
  simp only [List.isEmpty_iff, hrem, if_false, hp, List.getElem?_eq_getElem hjx]

/-- **the generated `while remaining:` loop is `vatLoop`**: started from any visited / remaining lists with in-range
indices (visited non-empty), with any fuel that is at least the number of remaining samples, it ends with
`remaining = []` and `indicies = vatLoop D fuel' vis rem` (for any model fuel `fuel' ≥ len(rem)`). -/
theorem while_spec (hsq : Square n D) : ∀ (fuel fuel' jx : Nat) (vis rem : List Nat),
    rem.length ≤ fuel → rem.length ≤ fuel' → vis ≠ [] → (∀ i ∈ vis, i < n) → (∀ j ∈ rem, j < n) →
    ∃ jx', whileOpt (VAT_while0_cond D) (VAT_while0_body D) fuel (jx, vis, rem)
      = some (jx', vatLoop D fuel' vis rem, []) := by
  intro fuel
  induction fuel with
  | zero =>
    intro fuel' jx vis rem hf _ _ _ _
    have hrem : rem = [] := List.eq_nil_of_length_eq_zero (by omega)
    subst hrem
    exact ⟨jx, by simp [whileOpt, cond_spec, vatLoop_done]⟩
  | succ f ih =>
    intro fuel' jx vis rem hf hf' hne hv hr
    by_cases hrem : rem = []
    · subst hrem
      exact ⟨jx, by simp [whileOpt, cond_spec, vatLoop_done]⟩
    · have hm : 0 < rem.length := List.length_pos_iff.mpr hrem
      have hvl : 0 < vis.length := List.length_pos_iff.mpr hne
      obtain ⟨f', rfl⟩ : ∃ f', fuel' = f' + 1 := ⟨fuel' - 1, by omega⟩
      have hrows := ixSub_row_length (rows := vis) hsq hr
      have hlen := ixSub_length (cols := rem) hsq hv
      have hflen := flatten_length_rect hrows
      rw [hlen] at hflen
      have hfne : (ixSub D vis rem).flatten ≠ [] := by
        intro h0
        rw [h0] at hflen
        have := Nat.mul_pos hvl hm
        simp at hflen; omega
      obtain ⟨p, hp⟩ := argminFirst_isSome hfne
      have hjx : p % rem.length < rem.length := Nat.mod_lt _ hm
      have hcond : VAT_while0_cond D (jx, vis, rem) = true := by
        simp [cond_spec, hrem]
      rw [vatLoop_step hrem hp hjx]
      simp only [whileOpt, hcond, if_true, body_spec hsq jx hne hv hr hp hjx]
      apply ih
      · rw [List.length_eraseIdx_of_lt hjx]; omega
      · rw [List.length_eraseIdx_of_lt hjx]; omega
      · simp
      · intro i hi
        rcases List.mem_append.mp hi with h | h
        · exact hv i h
        · simp only [List.mem_singleton] at h
          exact h ▸ hr _ (List.getElem_mem hjx)
      · intro j hj
        exact hr j (List.mem_of_mem_eraseIdx hj)

end loop
section top
variable {α : Type} [LinearOrder α] {n : Nat} {D : List (List α)}

/-- **generated = model.**  For every `n ≥ 1`, every `n × n` matrix `D` over a linear order, every loop fuel
`≥ n - 1` and whatever `squareform` is, `VAT(D, distance_metric=None)` as regenerated from the Python source returns
(without raising) the pair `(D[np.ix_(idx, idx)], idx)` of the model `Art.VAT.vat`. -/
theorem VAT_spec (squareform : List α → List (List α)) (hsq : Square n D) (hn : 0 < n) {fuel : Nat}
    (hf : n ≤ fuel + 1) : VAT squareform fuel D none = some ((vat D).2, (vat D).1) := by
  have hflen := flatten_length_rect hsq.2
  rw [hsq.1] at hflen
  have hDne : D ≠ [] := by
    intro h0; rw [h0] at hsq; have := hsq.1; simp at this; omega
  have hfne : D.flatten ≠ [] := by
    intro h0
    rw [h0] at hflen
    have := Nat.mul_pos hn hn
    simp at hflen; omega
  obtain ⟨p, hp⟩ := argmaxFirst_isSome hfne
  obtain ⟨v, hat, _, _⟩ := argmaxFirst_spec hp
  have hplt : p < n * n := by
    have := (List.getElem?_eq_some_iff.mp hat).1
    omega
  have hrow : p / n < n := Nat.div_lt_of_lt_mul hplt
  have hshape : npShape D = (n, n) := by rw [npShape_rect hDne hsq.2, hsq.1]
  have hord : vatOrder D = vatLoop D n [p / n] ((List.range n).eraseIdx (p / n)) := by
    simp only [vatOrder, hp, hsq.1, ncols_of_square hsq hn]
  have hlenr : ((List.range n).eraseIdx (p / n)).length = n - 1 := by
    rw [List.length_eraseIdx_of_lt (by simpa using hrow)]; simp
  obtain ⟨jx', hloop⟩ := while_spec hsq fuel n (p % n) [p / n] ((List.range n).eraseIdx (p / n))
    (by omega) (by omega) (by simp) (by simpa using hrow)
    (fun j hj => List.mem_range.mp (List.mem_of_mem_eraseIdx hj))
  have hb : ∀ i ∈ vatOrder D, i < n := fun i hi =>
    List.mem_range.mp ((vatOrder_perm hsq).mem_iff.mp hi)
  rw [← hord] at hloop
  simp only [VAT, Option.isNone_none, if_true, npRavel, npArgmax_eq_argmaxFirst, hp, hshape, npUnravel, hplt,
    pyPop, List.length_range, hrow, List.nil_append, hloop, npFancy2_eq_ixSub hsq hb hb,
    Option.bind_eq_bind, Option.bind_some, Option.pure_def, vat]

/-- `n = 0`: `pairwise_dist.argmax()` raises (`ValueError: attempt to get an argmax of an empty sequence`); the model
returns `([], [])` there (`C20.vat_perm` covers `n = 0` for the model only). -/
theorem VAT_empty (squareform : List α → List (List α)) (fuel : Nat) :
    VAT squareform fuel ([] : List (List α)) none = none := by
  simp [VAT, npRavel, npArgmax]

/-- The call with a metric is the call on the pre-computed matrix `squareform(distance_metric(data))`, provided that
matrix has as many rows as `data` (the one fact about scipy's `squareform ∘ pdist` that the code relies on when it
takes `num_samples` from `data` and indexes `pairwise_dist` with it). -/
theorem VAT_metric (squareform : List α → List (List α)) (fuel : Nat) (X : List (List α))
    (f : List (List α) → List α) (h : (squareform (f X)).length = X.length) :
    VAT squareform fuel X (some f) = VAT squareform fuel (squareform (f X)) none := by
  simp [VAT, npShape, h]

/-- every fuel `≥ n - 1` gives the same answer -/
theorem VAT_fuel_irrelevant (squareform : List α → List (List α)) (hsq : Square n D) (hn : 0 < n)
    {fuel fuel' : Nat} (hf : n ≤ fuel + 1) (hf' : n ≤ fuel' + 1) :
    VAT squareform fuel D none = VAT squareform fuel' D none := by
  rw [VAT_spec squareform hsq hn hf, VAT_spec squareform hsq hn hf']

/-! ### the C20 theorems, about the generated definition -/

/-- C20 `vat_perm`, transported: the generated `VAT` returns (does not raise), and the returned index vector is a
permutation of `0 … n-1`. -/
theorem VAT_perm (squareform : List α → List (List α)) (hsq : Square n D) (hn : 0 < n) {fuel : Nat}
    (hf : n ≤ fuel + 1) :
    ∃ M idx, VAT squareform fuel D none = some (M, idx) ∧ idx.Perm (List.range n) :=
  ⟨_, _, VAT_spec squareform hsq hn hf, C20.vat_perm hsq⟩

/-- C20 `vat_seed_is_max_endpoint` + `vat_seed_first_max_row`, transported. -/
theorem VAT_seed_is_max_endpoint (squareform : List α → List (List α)) (hsq : Square n D) (hn : 0 < n)
    {fuel : Nat} (hf : n ≤ fuel + 1) :
    ∃ M idx, VAT squareform fuel D none = some (M, idx) ∧
      (∃ i0 j v, idx[0]? = some i0 ∧ ent D i0 j = some v ∧ ∀ i' j' u, ent D i' j' = some u → u ≤ v) ∧
      (∃ i0 j v, idx[0]? = some i0 ∧ ent D i0 j = some v ∧
        ∀ i' j' u, i' < i0 → ent D i' j' = some u → u < v) :=
  ⟨_, _, VAT_spec squareform hsq hn hf, C20.vat_seed_is_max_endpoint hsq hn,
    C20.vat_seed_first_max_row hsq hn⟩

/-- C20 `vat_prim_step`, transported: every later position of the index vector returned by the generated `VAT`
holds an unvisited sample that is closest to the visited set. -/
theorem VAT_prim_step (squareform : List α → List (List α)) (hsq : Square n D) (hn : 0 < n) {fuel : Nat}
    (hf : n ≤ fuel + 1) :
    ∃ M idx, VAT squareform fuel D none = some (M, idx) ∧
      ∀ k, 1 ≤ k → k < n →
        ∃ nxt, idx[k]? = some nxt ∧ nxt ∉ idx.take k ∧ nxt < n ∧
          ∃ i ∈ idx.take k, ∃ v, ent D i nxt = some v ∧
            ∀ i' ∈ idx.take k, ∀ j', j' < n → j' ∉ idx.take k →
              ∀ u, ent D i' j' = some u → v ≤ u :=
  ⟨_, _, VAT_spec squareform hsq hn hf, fun k hk hkn => C20.vat_prim_step hsq k hk hkn⟩

/-- C20 `vat_prim_step_first_min` (numpy's tie rule), transported. -/
theorem VAT_prim_step_first_min (squareform : List α → List (List α)) (hsq : Square n D) (hn : 0 < n)
    {fuel : Nat} (hf : n ≤ fuel + 1) :
    ∃ M idx, VAT squareform fuel D none = some (M, idx) ∧
      ∀ k, 1 ≤ k → k < n →
        ∃ nxt r i v, idx[k]? = some nxt ∧ r < k ∧ idx[r]? = some i ∧ ent D i nxt = some v ∧
          (∀ i' ∈ idx.take k, ∀ j', j' < n → j' ∉ idx.take k → ∀ u, ent D i' j' = some u → v ≤ u) ∧
          (∀ (r' i' : Nat), r' < r → idx[r']? = some i' → ∀ j', j' < n → j' ∉ idx.take k →
            ∀ u, ent D i' j' = some u → v < u) ∧
          (∀ j', j' < nxt → j' ∉ idx.take k → ∀ u, ent D i j' = some u → v < u) :=
  ⟨_, _, VAT_spec squareform hsq hn hf, fun k hk hkn => C20.vat_prim_step_first_min hsq k hk hkn⟩

/-- C20 `vat_matrix_reordered`, transported: the returned matrix is the input re-ordered by the returned index
vector. -/
theorem VAT_matrix_reordered (squareform : List α → List (List α)) (hsq : Square n D) (hn : 0 < n)
    {fuel : Nat} (hf : n ≤ fuel + 1) :
    ∃ M idx, VAT squareform fuel D none = some (M, idx) ∧ Square n M ∧
      ∀ a b, a < n → b < n → ∃ ia ib, idx[a]? = some ia ∧ idx[b]? = some ib ∧ ent M a b = ent D ia ib :=
  ⟨_, _, VAT_spec squareform hsq hn hf, C20.vat_matrix_reordered hsq⟩

end top

/-! ### non-vacuity: the generated code runs (kernel evaluation) -/

/-- the generated `VAT` on the tie-ridden matrix `M` of ArtProps/C20.lean (fuel = n - 1 = 3); same answer as the
model, pair in Python's order -/
example : VAT (fun _ => []) 3 C20.M none
    = some ([[0, 1, 4, 9], [1, 0, 7, 4], [4, 7, 0, 9], [9, 4, 9, 0]], [0, 2, 3, 1]) := by decide

/-- the non-symmetric `N` (first maximum in row 2, every later step a tie) -/
example : VAT (fun _ => []) 3 C20.N none
    = some ([[0, 3, 7, 7], [3, 0, 3, 3], [3, 3, 0, 3], [3, 3, 3, 0]], [2, 0, 1, 3]) := by decide

/-- too little fuel is `none`, never a wrong answer -/
example : VAT (fun _ => []) 2 C20.M none = none := by decide

/-- the metric branch: `data` = four 1-d points, a metric returning a condensed vector, `squareform` an external
function (here: the constant `M`) -/
example : VAT (fun _ => C20.M) 3 [[1], [2], [3], [4]] (some (fun _ => [9, 1, 4, 4, 9, 7]))
    = some ([[0, 1, 4, 9], [1, 0, 7, 4], [4, 7, 0, 9], [9, 4, 9, 0]], [0, 2, 3, 1]) := by decide

/-- a ragged matrix raises (numpy: `IndexError`); `n = 1` returns at once -/
example : VAT (fun _ => []) 3 [[0, 5], [5]] none = none := by decide
example : VAT (fun _ => []) 0 [[(7 : Nat)]] none = some ([[7]], [0]) := by decide

/-- the hypotheses of `VAT_spec` are satisfiable, and its instance on `M` -/
example : VAT (fun _ => []) 3 C20.M none = some ((vat C20.M).2, (vat C20.M).1) :=
  VAT_spec (n := 4) _ (by decide) (by omega) (by omega)

/-- numpy's tie rules, on the primitives: first maximum / first minimum win -/
example : npArgmax [1, 3, 2, 3] = some 1 ∧ npArgmin [2, 1, 3, 1] = some 1 ∧
    npUnravel 7 (3, 4) = some (1, 3) ∧ npUnravel 12 (3, 4) = none ∧
    npFancy2 [[1, 2, 3], [4, 5, 6]] (npIx [1, 0] [2, 0]) = some [[6, 4], [3, 1]] := by decide

end Art.GenSpec.VAT
