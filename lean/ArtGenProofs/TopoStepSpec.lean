/-
ArtGenProofs.TopoStepSpec — `TopoART.step_fit` (and `TopoART.update`), as translated from the Python source by
`harness/artv/ttrans2.py` (ArtGen/TopoStep.lean), computes the model's `topoStep` (ArtModel/Topo.lean: the two-winner
loop `topoSearch`, `topoStepSearch`, `applyTopo`) — for every state, sample, reset function, match-tracking mode and
epsilon, under the kernel contract `Contract` on the base module's methods; no bound on the number of categories.
The property theorems of `ArtProps/C14.lean` about one training step are transported to the generated code.
-/
import Mathlib.Order.Basic
import Mathlib.Order.Defs.LinearOrder
import ArtGen.TopoStep
import ArtProofs.Topo
import ArtProps.C14
import ArtGenProofs.GenSpec
import ArtGenProofs.ControlSpec
import ArtGenProofs.TopoSpec
import Mathlib.Algebra.Order.Field.Rat

namespace Art.GenSpec.TopoStep

open Art Art.Imp

set_option linter.unusedSectionVars false
set_option linter.unusedVariables false

/-! ### The translated `while any(~isnan(T))` loop against the model's `topoSearch` -/

section Loop
variable {P α μ θ : Type} [LinearOrder α]

/-- the best winner found so far (if any) is no longer a candidate of `T` (`T[resonant_c] = nan`) -/
def Struck (T : List (Option α)) (best : Option Nat) : Prop :=
  ∀ b, best = some b → ∀ v, T[b]? ≠ some (some v)

theorem Struck.ne {T : List (Option α)} {best : Option Nat} {c : Nat} (h : Struck T best)
    (hc : nanargmax T = some c) : ∀ b, best = some b → b ≠ c := by
  intro b hb e
  obtain ⟨v, hv⟩ := nanargmax_isSome_at hc
  exact h b hb v (e ▸ hv)

theorem Struck.set {T : List (Option α)} {best : Option Nat} (h : Struck T best) (c : Nat) :
    Struck (T.set c none) best := by
  intro b hb v hv
  exact h b hb v (live_of_live_set hv).1

theorem Struck.set_self (T : List (Option α)) (c : Nat) : Struck (T.set c none) (some c) := by
  intro b hb v hv
  cases hb
  exact (live_of_live_set hv).2 rfl

theorem whileFuel_stop {R S : Type} (cond : S → Bool) (body : S → Flow R S) (n : Nat) (s : S)
    (h : cond s = false) : whileFuel cond body n s = .next s := by
  cases n with
  | zero => rfl
  | succ n => simp [whileFuel, h]

theorem any_blank (T : List (Option α)) : (T.map (fun _ => (none : Option α))).any Option.isSome = false := by
  rw [List.any_eq_false]
  intro t ht
  simp only [List.mem_map] at ht
  obtain ⟨_, _, rfl⟩ := ht
  simp

/-- what one iteration of the translated loop body does, in the model's vocabulary (`pack p T best` is the tuple of
loop-carried variables when the base module's params are `p`, the activation vector is `T` and `resonant_c` encodes
`best`; `res b c` is what the body returns when `c` resonates after `b`) -/
structure BodySpec {R S : Type} (cfg : SearchCfg μ θ) (M : Nat → μ) (veto : Nat → Bool) (th : P → θ) (Good : P → Prop)
    (pack : P → List (Option α) → Option Nat → S) (res : Nat → Nat → R) (body : S → Flow R S) (L : Nat) : Prop where
  step : ∀ (p : P) (T : List (Option α)) (best : Option Nat) (c : Nat), T.length = L → nanargmax T = some c → Good p →
    (∀ b, best = some b → b ≠ c) →
    if cfg.passes (th p) (M c) then
      if veto c then
        ∃ p1, Good p1 ∧ th p1 = cfg.track (th p) (M c) ∧
          body (pack p T best) =
            .next (pack p1 (if cfg.keep then T.set c none else (T.set c none).map (fun _ => none)) best)
      else
        match best with
        | none => body (pack p T none) = .next (pack p (T.set c none) (some c))
        | some b => body (pack p T (some b)) = .ret (res b c)
    else body (pack p T best) = .next (pack p (T.set c none) best)

/-- **the translated two-winner loop follows the model's `topoSearch`**: it returns from inside the loop exactly when
the model finds a second winner (with the value the body computes for that pair), and otherwise falls through with
`resonant_c` = the model's `best` — for every fuel, every params state, every activation vector and every `best` handed
in (struck from `T`). -/
theorem loop_follows_topoSearch {R S : Type} (cfg : SearchCfg μ θ) (M : Nat → μ) (veto : Nat → Bool) (th : P → θ)
    (Good : P → Prop) (pack : P → List (Option α) → Option Nat → S) (res : Nat → Nat → R)
    (cond : S → Bool) (body : S → Flow R S)
    (hcond : ∀ p T b, cond (pack p T b) = T.any Option.isSome)
    (L : Nat) (hbody : BodySpec cfg M veto th Good pack res body L) :
    ∀ (fuel : Nat) (p : P) (T : List (Option α)) (best : Option Nat), T.length = L → Good p → Struck T best →
      match (topoSearch cfg M veto fuel T (th p) best).second with
      | some c => ∃ b, (topoSearch cfg M veto fuel T (th p) best).best = some b ∧
          whileFuel cond body fuel (pack p T best) = .ret (res b c)
      | none => ∃ p' T', whileFuel cond body fuel (pack p T best) =
          .next (pack p' T' (topoSearch cfg M veto fuel T (th p) best).best) := by
  intro fuel
  induction fuel with
  | zero =>
    intro p T best _ _ _
    simp only [topoSearch, whileFuel]
    exact ⟨p, T, rfl⟩
  | succ n ih =>
    intro p T best hL hg hst
    rw [topoSearch_succ]
    simp only [whileFuel, hcond]
    cases hn : nanargmax T with
    | none =>
      have : T.any Option.isSome = false := by
        cases h : T.any Option.isSome with
        | false => rfl
        | true =>
          obtain ⟨c, hc⟩ := (Control.any_isSome_iff T).mp h
          rw [hn] at hc; cases hc
      simp only [this]
      exact ⟨p, T, by simp⟩
    | some c =>
      have hany : T.any Option.isSome = true := (Control.any_isSome_iff T).mpr ⟨c, hn⟩
      simp only [hany, if_true]
      have hs := hbody.step p T best c hL hn hg (hst.ne hn)
      cases hm : cfg.passes (th p) (M c) with
      | false =>
        simp only [hm, Bool.false_eq_true, if_false, Bool.false_and] at hs ⊢
        rw [hs]
        simpa using ih p (T.set c none) best (by simp [hL]) hg (hst.set c)
      | true =>
        simp only [hm, if_true, Bool.true_and] at hs ⊢
        cases hv : veto c with
        | true =>
          simp only [hv, if_true, Bool.not_true, Bool.false_eq_true, if_false, Bool.not_false] at hs ⊢
          obtain ⟨p1, hg1, hp1, hb⟩ := hs
          rw [hb]
          cases hk : cfg.keep with
          | true =>
            simp only [if_true]
            have := ih p1 (T.set c none) best (by simp [hL]) hg1 (hst.set c)
            rw [hp1] at this
            simpa using this
          | false =>
            simp only [Bool.false_eq_true, if_false]
            exact ⟨p1, (T.set c none).map (fun _ => none),
              whileFuel_stop cond body n _ (by rw [hcond]; exact any_blank _)⟩
        | false =>
          simp only [hv, Bool.false_eq_true, if_false, Bool.not_false, if_true] at hs ⊢
          cases best with
          | none =>
            simp only at hs ⊢
            rw [hs]
            simpa using ih p (T.set c none) (some c) (by simp [hL]) hg (Struck.set_self T c)
          | some b =>
            simp only at hs ⊢
            rw [hs]
            exact ⟨b, rfl, rfl⟩

end Loop

/-! ### The kernel contract, `update`, and the loop body -/

section Step
variable {X Wt P C α μ θ : Type} [LinearOrder α]

/-- The kernel contract: how the base module's methods called by `TopoART.step_fit` (fields of `E`) relate to the
model's kernel `K` and search configuration `cfg`.  `th` reads the vigilance state out of a `params` dictionary;
`Good p` says that `p` is the base module's configured dictionary up to what match tracking may have done to it (so
that `update` with it learns at the configured `beta`); `own` is the wrapper's own dictionary (the one holding
`beta_lower`), `p0` the base module's dictionary when the step starts. -/
structure Contract (K : TopoKernel X Wt α μ) (cfg : SearchCfg μ θ) (E : ImpTopoStep.Ext X Wt P C α) (th : P → θ)
    (Good : P → Prop) (W : List Wt) (x : X) (own p0 : P) (is_none : Bool) (reset : X → Wt → Nat → P → C → Bool)
    (veto : Nat → Bool) (mt : MT) (eps : α) : Prop where
  good0 : Good p0
  /-- match tracking only moves the vigilance -/
  good_track : ∀ c p, Good p → Good (E.match_tracking c eps p mt).2
  /-- activations are computed with the configured parameters -/
  choice : ∀ w, (E.category_choice W x w p0).1 = K.choice W x w
  /-- the binary match test depends on `params` only through the vigilance state -/
  passes : ∀ w p c, (E.match_criterion_bin x w p c (E.operator mt)).1 = cfg.passes (th p) (K.matchv x w)
  /-- `_match_tracking` reads the match value from the cache `match_criterion_bin` returned -/
  track : ∀ w p c, th (E.match_tracking (E.match_criterion_bin x w p c (E.operator mt)).2 eps p mt).2
            = cfg.track (th p) (K.matchv x w)
  keep : ∀ c p, (E.match_tracking c eps p mt).1 = cfg.keep
  /-- with the base module's own dictionary `update` learns at the configured rate … -/
  update : ∀ w p c, Good p → E.update x w p c = K.update x w
  /-- … and with `dict(params, beta=self.params["beta_lower"])` at the lower rate -/
  updateLower : ∀ w p c, Good p →
    E.update x w (E.dict_with p "beta" (E.param own "beta_lower")) c = K.updateLower x w
  /-- `new_weight` is called with the wrapper's own dictionary -/
  newW : E.new_weight x own = K.newW x
  /-- the two integer keys written into the cache handed to `update` are read back -/
  cache_res : ∀ c r k, E.cache_int (E.cache_with (E.cache_with (E.cache_or_empty c) "resonant_c" r) "current_c" k)
    "resonant_c" = some r
  cache_cur : ∀ c r k, E.cache_int (E.cache_with (E.cache_with (E.cache_or_empty c) "resonant_c" r) "current_c" k)
    "current_c" = some k
  veto_none : is_none = true → ∀ c, veto c = false
  /-- the reset function's answer for category `c` does not depend on `params` / `cache` -/
  veto_some : is_none = false → ∀ c w p ch, W[c]? = some w → reset x w c p ch = !veto c

/-- the model state of a generated `self` -/
def toState (s : ImpTopoStep.Self Wt P) : TopoState Wt :=
  { W := s.W, cnt := s.cnt, adj := s.adj, perm := s.perm, labels := s.labels, n := s.n }

/-- a generated `self` whose model-visible attributes are replaced by those of `t` (both `params` dicts stay) -/
def withState (s : ImpTopoStep.Self Wt P) (t : TopoState Wt) : ImpTopoStep.Self Wt P :=
  { s with W := t.W, cnt := t.cnt, adj := t.adj, perm := t.perm, labels := t.labels, n := t.n }

theorem toState_withState (s : ImpTopoStep.Self Wt P) (t : TopoState Wt) : toState (withState s t) = t := rfl

/-- weights while the loop runs: the best winner (if found) has already learnt -/
def bestW (K : TopoKernel X Wt α μ) (x : X) (W0 : List Wt) : Option Nat → List Wt
  | none => W0
  | some b => W0.modify b (K.update x)

/-- counters while the loop runs -/
def bestCnt (cnt0 : List Nat) : Option Nat → List Nat
  | none => cnt0
  | some b => cnt0.modify b (· + 1)

/-- `resonant_c` -/
def bestInt : Option Nat → Int
  | none => -1
  | some b => (b : Int)

variable [Inhabited Wt] [Inhabited C]

/-- what `TopoART.update` does to the adjacency matrix, given the cache it is handed -/
def updAdj (E : ImpTopoStep.Ext X Wt P C α) (c : C) (adj : List (List Nat)) : List (List Nat) :=
  if 0 ≤ (E.cache_int c "resonant_c").getD (-1) then
    incAdj ((E.cache_int c "resonant_c").get!).toNat ((E.cache_int c "current_c").get!).toNat adj
  else adj

/-- **`TopoART.update` as a whole**: when the cache names a first winner (`resonant_c >= 0`) the edge
`(resonant_c, current_c)` of the adjacency matrix is incremented — the model's `incAdj` —, nothing else of the
estimator changes, and the new weight is the base module's `update` -/
theorem update_spec (E : ImpTopoStep.Ext X Wt P C α) (self : ImpTopoStep.Self Wt P) (i : X) (w : Wt) (p : P) (c : C) :
    Art.Gen.TopoARTStep.update E self i w p c = ({ self with adj := updAdj E c self.adj }, E.update i w p c) := by
  unfold Art.Gen.TopoARTStep.update updAdj
  simp only [Topo.npAddAt2_eq_incAdj, ge_iff_le, decide_eq_true_eq]

theorem getElem!_modify_ne (l : List Wt) (f : Wt → Wt) (b c : Nat) (h : b ≠ c) : (l.modify b f)[c]! = l[c]! := by
  simp [List.getElem!_eq_getElem?_getD, h]

/-- one iteration of the translated loop body, in the model's vocabulary -/
theorem body_spec (K : TopoKernel X Wt α μ) (cfg : SearchCfg μ θ) (E : ImpTopoStep.Ext X Wt P C α) (th : P → θ)
    (Good : P → Prop) (s : ImpTopoStep.Self Wt P) (W0 : List Wt) (x : X) (is_none : Bool)
    (reset : X → Wt → Nat → P → C → Bool) (veto : Nat → Bool) (mt : MT) (eps : α) (Tc : List C) (p0 : P)
    (hW0 : s.W = W0)
    (hC : Contract K cfg E th Good W0 x s.params p0 is_none reset veto mt eps) :
    BodySpec cfg (topoMatchAt K W0 x) veto th Good
      (fun p T best => (bestW K x W0 best, bestCnt s.cnt best, s.adj, s.perm, s.labels, s.n, s.params, p,
                        bestInt best, T))
      (fun b c => (({ s with W := (W0.modify b (K.update x)).modify c (K.updateLower x),
                             cnt := (s.cnt.modify b (· + 1)).modify c (· + 1),
                             adj := incAdj b c s.adj, bparams := p0 } : ImpTopoStep.Self Wt P), (b : Int)))
      (Art.Gen.TopoARTStep.step_fit_loop1_body E x mt eps p0 (E.operator mt) Tc is_none reset) W0.length := by
  constructor
  intro p T best c hL hn hg hne
  have hc : c < W0.length := hL ▸ nanargmax_lt_length hn
  have hWc : W0[c]? = some W0[c]! := by simp [hc]
  have aux : ∀ W' : List Wt, W'[c]! = W0[c]! →
      topoMatchAt K W0 x c = K.matchv x W'[c]! ∧
      ∀ (pp : P) (ch : C), (is_none || reset x W'[c]! c pp ch) = !veto c := by
    intro W' hw
    rw [hw]
    refine ⟨by simp only [topoMatchAt, hWc], ?_⟩
    intro pp ch
    cases hn' : is_none with
    | true => simp only [Bool.true_or, hC.veto_none hn' c, Bool.not_false]
    | false => simp only [Bool.false_or]; exact hC.veto_some hn' c _ pp ch hWc
  cases best with
  | none =>
    obtain ⟨hM, hok⟩ := aux W0 rfl
    have h1 : decide (bestInt none < 0) = true := by simp [bestInt]
    have h2 : ¬ (0 : Int) ≤ bestInt none := by simp [bestInt]
    rw [hM]
    unfold Art.Gen.TopoARTStep.step_fit_loop1_body
    simp only [bestW, bestCnt, hn, Option.getD_some, update_spec, updAdj, hC.passes, hok, hC.keep, hC.cache_res,
      hC.cache_cur, Option.getD_some, Option.get!_some, h1, h2, if_true, if_false, hC.update _ _ _ hg,
      Topo.set_getElem!_eq_modify s.cnt c (· + 1), Topo.set_getElem!_eq_modify W0 c (K.update x)]
    cases hm : cfg.passes (th p) (K.matchv x W0[c]!) with
    | false => simp only [Bool.false_and, Bool.false_eq_true, if_false]
    | true =>
      cases hv : veto c with
      | true =>
        simp only [Bool.not_true, Bool.and_false, Bool.false_eq_true, if_false, if_true, Bool.and_self,
          Bool.not_false]
        refine ⟨_, hC.good_track _ p hg, hC.track W0[c]! p Tc[c]!, ?_⟩
        cases cfg.keep <;> simp
      | false =>
        simp only [Bool.not_false, Bool.and_self, if_true, Bool.false_eq_true, if_false, bestInt,
          Int.ofNat_eq_natCast]
  | some b =>
    obtain ⟨hM, hok⟩ := aux (W0.modify b (K.update x)) (getElem!_modify_ne W0 _ b c (hne b rfl))
    have h1 : decide (bestInt (some b) < 0) = false := by
      have : ¬ ((b : Int) < 0) := by omega
      exact decide_eq_false this
    have h2 : (0 : Int) ≤ bestInt (some b) := by simp [bestInt]
    rw [hM]
    unfold Art.Gen.TopoARTStep.step_fit_loop1_body
    simp only [bestW, bestCnt, hn, Option.getD_some, update_spec, updAdj, hC.passes, hok, hC.keep, hC.cache_res,
      hC.cache_cur, Option.getD_some, Option.get!_some, h1, h2, if_true, Bool.false_eq_true, if_false,
      hC.updateLower _ _ _ hg,
      Topo.set_getElem!_eq_modify (s.cnt.modify b (· + 1)) c (· + 1),
      Topo.set_getElem!_eq_modify (W0.modify b (K.update x)) c (K.updateLower x)]
    cases hm : cfg.passes (th p) (K.matchv x (W0.modify b (K.update x))[c]!) with
    | false => simp only [Bool.false_and, Bool.false_eq_true, if_false]
    | true =>
      cases hv : veto c with
      | true =>
        simp only [Bool.not_true, Bool.and_false, Bool.false_eq_true, if_false, if_true, Bool.and_self,
          Bool.not_false]
        refine ⟨_, hC.good_track _ p hg, hC.track (W0.modify b (K.update x))[c]! p Tc[c]!, ?_⟩
        cases cfg.keep <;> simp
      | false =>
        simp only [Bool.not_false, Bool.and_self, if_true, Bool.false_eq_true, if_false, bestInt,
          Int.ofNat_eq_natCast, Int.toNat_natCast]

omit [Inhabited Wt] [Inhabited C] in
/-- the activation vector computed before the loop is the model's -/
theorem activations_spec (K : TopoKernel X Wt α μ) (cfg : SearchCfg μ θ) (E : ImpTopoStep.Ext X Wt P C α) (th : P → θ)
    (Good : P → Prop) (W : List Wt) (own p0 : P) (x : X) (is_none : Bool) (reset : X → Wt → Nat → P → C → Bool)
    (veto : Nat → Bool) (mt : MT) (eps : α) (hC : Contract K cfg E th Good W x own p0 is_none reset veto mt eps) :
    (W.map (fun w => E.category_choice W x w p0)).map Prod.fst = topoActivations K W x := by
  simp only [topoActivations, List.map_map]
  apply List.map_congr_left
  intro w _
  exact hC.choice w

/-- the first sample of an empty model: category 0, a 1×1 zero adjacency matrix, a non-permanent flag, label 0 —
whatever `adjacency` and `_permanent_mask` held before -/
theorem step_fit_first_sample (K : TopoKernel X Wt α μ) (cfg : SearchCfg μ θ) (E : ImpTopoStep.Ext X Wt P C α)
    (th : P → θ) (Good : P → Prop) (self : ImpTopoStep.Self Wt P) (x : X) (is_none : Bool)
    (reset : X → Wt → Nat → P → C → Bool) (veto : Nat → Bool) (mt : MT) (eps : α) (fuel : Nat)
    (hW : self.W = [])
    (hC : Contract K cfg E th Good self.W x self.params self.bparams is_none reset veto mt eps) :
    Art.Gen.TopoARTStep.step_fit E fuel self x is_none reset mt eps =
      (withState self (topoStep K cfg (th self.bparams) veto (toState self) x).1,
       ((topoStep K cfg (th self.bparams) veto (toState self) x).2 : Int)) := by
  unfold Art.Gen.TopoARTStep.step_fit topoStep
  simp [hW, toState, withState, hC.newW, ImpTopo.npZeros2]

/-- **The translated `TopoART.step_fit` computes the model's `topoStep`** — weights and counters of both winners, the
edge count, the padded adjacency matrix and mask of a new category, the sample counter, the returned label — and
leaves both `params` dictionaries exactly as it found them, for every state, sample, reset function, mode and epsilon
that satisfy the kernel contract.  `fuel = len(W)` iterations suffice. -/
theorem step_fit_spec (K : TopoKernel X Wt α μ) (cfg : SearchCfg μ θ) (E : ImpTopoStep.Ext X Wt P C α)
    (th : P → θ) (Good : P → Prop) (self : ImpTopoStep.Self Wt P) (x : X) (is_none : Bool)
    (reset : X → Wt → Nat → P → C → Bool) (veto : Nat → Bool) (mt : MT) (eps : α)
    (hC : Contract K cfg E th Good self.W x self.params self.bparams is_none reset veto mt eps) :
    Art.Gen.TopoARTStep.step_fit E self.W.length self x is_none reset mt eps =
      (withState self (topoStep K cfg (th self.bparams) veto (toState self) x).1,
       ((topoStep K cfg (th self.bparams) veto (toState self) x).2 : Int)) := by
  by_cases hW : self.W = []
  · exact step_fit_first_sample K cfg E th Good self x is_none reset veto mt eps _ hW hC
  · unfold Art.Gen.TopoARTStep.step_fit topoStep
    have hlen0 : (self.W.length == 0) = false := by simp [hW]
    have hemp : (toState self).W.isEmpty = false := by simp [toState, hW]
    simp only [hlen0, hemp, Bool.false_eq_true, if_false]
    rw [activations_spec K cfg E th Good self.W self.params self.bparams x is_none reset veto mt eps hC]
    have hTlen : (topoActivations K self.W x).length = self.W.length := by simp [topoActivations]
    have hloop := fun Tc => loop_follows_topoSearch cfg (topoMatchAt K self.W x) veto th Good
      (fun p T best => (bestW K x self.W best, bestCnt self.cnt best, self.adj, self.perm, self.labels, self.n + 1,
                        self.params, p, bestInt best, T))
      (fun b c => (({ self with W := (self.W.modify b (K.update x)).modify c (K.updateLower x),
                                cnt := (self.cnt.modify b (· + 1)).modify c (· + 1),
                                adj := incAdj b c self.adj, n := self.n + 1 } : ImpTopoStep.Self Wt P), (b : Int)))
      (Art.Gen.TopoARTStep.step_fit_loop1_cond E)
      (Art.Gen.TopoARTStep.step_fit_loop1_body E x mt eps self.bparams (E.operator mt) Tc is_none reset)
      (by intro p T b; rfl) self.W.length
      (body_spec K cfg E th Good { self with n := self.n + 1 } self.W x is_none reset veto mt eps Tc self.bparams rfl hC)
      self.W.length self.bparams (topoActivations K self.W x) none hTlen hC.good0 (by intro b hb; cases hb)
    unfold topoStepSearch
    simp only [hTlen, toState]
    cases hs : (topoSearch cfg (topoMatchAt K self.W x) veto self.W.length (topoActivations K self.W x)
        (th self.bparams) none).second with
    | some c =>
      have h1 := hloop
      simp only [hs] at h1
      obtain ⟨b, hb, h2⟩ := h1 (List.map Prod.snd (List.map (fun w => E.category_choice self.W x w self.bparams) self.W))
      simp only [bestW, bestCnt, bestInt] at h2
      rw [h2, hb]
      simp [applyTopo, withState]
    | none =>
      have h1 := hloop
      simp only [hs] at h1
      obtain ⟨p', T', h2⟩ := h1 (List.map Prod.snd (List.map (fun w => E.category_choice self.W x w self.bparams) self.W))
      simp only [bestW, bestCnt, bestInt] at h2
      rw [h2]
      cases hb : (topoSearch cfg (topoMatchAt K self.W x) veto self.W.length (topoActivations K self.W x)
          (th self.bparams) none).best with
      | none =>
        simp [applyTopo, withState, hC.newW, hlen0, Topo.npPad2_eq_padAdj, ImpTopo.npPad1]
      | some b =>
        have hlt : ¬ ((b : Int) < 0) := by omega
        simp [applyTopo, withState, hlt]

/-- **The hyper-parameters are restored**: whatever match tracking did to the base module's `rho` during the search,
the translated `step_fit` hands the base module back with the dictionary it had (`_set_params(base_params)` on every
path out of the loop), and never touches the wrapper's own dictionary or `labels_`. -/
theorem step_fit_restores_params (K : TopoKernel X Wt α μ) (cfg : SearchCfg μ θ) (E : ImpTopoStep.Ext X Wt P C α)
    (th : P → θ) (Good : P → Prop) (self : ImpTopoStep.Self Wt P) (x : X) (is_none : Bool)
    (reset : X → Wt → Nat → P → C → Bool) (veto : Nat → Bool) (mt : MT) (eps : α)
    (hC : Contract K cfg E th Good self.W x self.params self.bparams is_none reset veto mt eps) :
    (Art.Gen.TopoARTStep.step_fit E self.W.length self x is_none reset mt eps).1.bparams = self.bparams ∧
    (Art.Gen.TopoARTStep.step_fit E self.W.length self x is_none reset mt eps).1.params = self.params ∧
    (Art.Gen.TopoARTStep.step_fit E self.W.length self x is_none reset mt eps).1.labels = self.labels := by
  rw [step_fit_spec K cfg E th Good self x is_none reset veto mt eps hC]
  refine ⟨rfl, rfl, ?_⟩
  show (topoStep K cfg (th self.bparams) veto (toState self) x).1.labels = (toState self).labels
  unfold topoStep
  split
  · rfl
  · simp only [applyTopo]; split <;> [rfl; (split <;> rfl)]

/-! ### Property theorems of C14, transported to the generated code -/

/-- **C14 (`topo_step_spec`) on the generated code: the two-winner training step.**  On a non-empty model with the
shape invariant the translated `step_fit` returns the best winner of the search, or the index of a newly appended
category when nothing resonated:
* nothing resonated: one weight `new_weight x` is appended with count 1, the adjacency matrix gets a zero row and
  column, the mask a `False`;
* only a best `b`: `W[b] := update x W[b]` (rate `beta`), its counter + 1, nothing else changes;
* best `b` and second `c` (`b ≠ c`): additionally `W[c] := updateLower x W[c]` (rate `beta_lower`), its counter + 1, and
  exactly the cell `adjacency[b, c]` grows by one.
The sample counter grows by one; `labels_` and both `params` dictionaries are as before. -/
theorem gen_two_winner (K : TopoKernel X Wt α μ) (cfg : SearchCfg μ θ) (E : ImpTopoStep.Ext X Wt P C α)
    (th : P → θ) (Good : P → Prop) (self : ImpTopoStep.Self Wt P) (x : X) (is_none : Bool)
    (reset : X → Wt → Nat → P → C → Bool) (veto : Nat → Bool) (mt : MT) (eps : α)
    (hs : ShapeInv (toState self)) (hne : self.W ≠ [])
    (hC : Contract K cfg E th Good self.W x self.params self.bparams is_none reset veto mt eps) :
    let out := Art.Gen.TopoARTStep.step_fit E self.W.length self x is_none reset mt eps
    let r := topoStepSearch K cfg (th self.bparams) veto self.W x
    out.1.n = self.n + 1 ∧ out.1.labels = self.labels ∧ out.1.params = self.params ∧ out.1.bparams = self.bparams ∧
    (r.best = none →
      out.2 = (self.W.length : Int) ∧ out.1.W = self.W ++ [K.newW x] ∧ out.1.cnt = self.cnt ++ [1] ∧
      out.1.perm = self.perm ++ [false] ∧ out.1.adj.length = self.adj.length + 1 ∧
      ∀ i j, adjAt out.1.adj i j = adjAt self.adj i j) ∧
    (∀ b, r.best = some b → r.second = none →
      out.2 = (b : Int) ∧ b < self.W.length ∧ out.1.W = self.W.modify b (K.update x) ∧
      out.1.cnt = self.cnt.modify b (· + 1) ∧ out.1.adj = self.adj ∧ out.1.perm = self.perm) ∧
    (∀ b c, r.best = some b → r.second = some c →
      out.2 = (b : Int) ∧ b < self.W.length ∧ c < self.W.length ∧ b ≠ c ∧
      out.1.W = (self.W.modify b (K.update x)).modify c (K.updateLower x) ∧
      (∀ k w, self.W[k]? = some w → out.1.W[k]? =
        some (if k = b then K.update x w else if k = c then K.updateLower x w else w)) ∧
      out.1.cnt = (self.cnt.modify b (· + 1)).modify c (· + 1) ∧ out.1.perm = self.perm ∧
      ∀ i j, adjAt out.1.adj i j = adjAt self.adj i j + if i = b ∧ j = c then 1 else 0) := by
  intro out r
  have ho : out = _ := step_fit_spec K cfg E th Good self x is_none reset veto mt eps hC
  obtain ⟨h1, h2, h3, h4, h5⟩ := C14.topo_step_spec K cfg (th self.bparams) veto (toState self) x hs hne
  rw [ho]
  refine ⟨h1, h2, rfl, rfl, ?_, ?_, ?_⟩
  · intro hb
    obtain ⟨a1, a2, a3, a4, a5, a6⟩ := h3 hb
    exact ⟨congrArg Int.ofNat a1, a2, a3, a4, a5, a6⟩
  · intro b hb hc
    obtain ⟨a1, a2, a3, a4, a5, a6⟩ := h4 b hb hc
    exact ⟨congrArg Int.ofNat a1, a2, a3, a4, a5, a6⟩
  · intro b c hb hc
    obtain ⟨a1, a2, a3, a4, a5, a6, a7, a8, a9⟩ := h5 b c hb hc
    exact ⟨congrArg Int.ofNat a1, a2, a3, a4, a5, a6, a7, a8, a9⟩

/-- **C14 (`topo_step_first`) on the generated code**: the first sample of an empty model creates category 0 with
count 1, a 1×1 zero adjacency matrix and a non-permanent flag, and is labelled 0. -/
theorem gen_first_sample (K : TopoKernel X Wt α μ) (cfg : SearchCfg μ θ) (E : ImpTopoStep.Ext X Wt P C α)
    (th : P → θ) (Good : P → Prop) (self : ImpTopoStep.Self Wt P) (x : X) (is_none : Bool)
    (reset : X → Wt → Nat → P → C → Bool) (veto : Nat → Bool) (mt : MT) (eps : α)
    (hW : self.W = []) (hc : self.cnt = [])
    (hC : Contract K cfg E th Good self.W x self.params self.bparams is_none reset veto mt eps) :
    Art.Gen.TopoARTStep.step_fit E self.W.length self x is_none reset mt eps =
      ({ self with W := [K.newW x], cnt := [1], adj := [[0]], perm := [false], n := self.n + 1 }, 0) := by
  rw [step_fit_spec K cfg E th Good self x is_none reset veto mt eps hC,
    C14.topo_step_first K cfg (th self.bparams) veto (toState self) x hW hc]
  rfl

/-- **C14 (`topo_step_new_iff`) on the generated code: a category is appended iff nothing resonated.** -/
theorem gen_new_iff (K : TopoKernel X Wt α μ) (cfg : SearchCfg μ θ) (E : ImpTopoStep.Ext X Wt P C α)
    (th : P → θ) (Good : P → Prop) (self : ImpTopoStep.Self Wt P) (x : X) (is_none : Bool)
    (reset : X → Wt → Nat → P → C → Bool) (veto : Nat → Bool) (mt : MT) (eps : α) (hne : self.W ≠ [])
    (hC : Contract K cfg E th Good self.W x self.params self.bparams is_none reset veto mt eps) :
    (Art.Gen.TopoARTStep.step_fit E self.W.length self x is_none reset mt eps).1.W.length = self.W.length + 1 ↔
      resonantCs (topoStepSearch K cfg (th self.bparams) veto self.W x) = [] := by
  rw [step_fit_spec K cfg E th Good self x is_none reset veto mt eps hC]
  exact C14.topo_step_new_iff K cfg (th self.bparams) veto (toState self) x hne

/-- **C14 (`topo_shape_inv_transitions`) on the generated code**: from any state whose counters match the weights
(and which satisfies the full shape invariant when non-empty) the translated `step_fit` ends in a state where
adjacency, counters, mask and weights have one row / entry per category and the adjacency diagonal is zero. -/
theorem gen_shape (K : TopoKernel X Wt α μ) (cfg : SearchCfg μ θ) (E : ImpTopoStep.Ext X Wt P C α)
    (th : P → θ) (Good : P → Prop) (self : ImpTopoStep.Self Wt P) (x : X) (is_none : Bool)
    (reset : X → Wt → Nat → P → C → Bool) (veto : Nat → Bool) (mt : MT) (eps : α) (hw : WeakInv (toState self))
    (hC : Contract K cfg E th Good self.W x self.params self.bparams is_none reset veto mt eps) :
    ShapeInv (toState (Art.Gen.TopoARTStep.step_fit E self.W.length self x is_none reset mt eps).1) := by
  rw [step_fit_spec K cfg E th Good self x is_none reset veto mt eps hC]
  exact topoStep_shape K cfg (th self.bparams) veto (toState self) x hw

end Step

/-! ### The contract is met by every base module with a scalar, non-inverted vigilance and a `beta`-indexed update
rule — with the decision tables taken from the GENERATED `TopoART._match_tracking`, `_match_tracking_operator` and
`match_criterion_bin` (ArtGen/Kernels.lean) -/

section Scalar
variable {X Wt β : Type} [Field β] [LinearOrder β] [IsStrictOrderedRing β]

/-- externals of a wrapped elementary module: the numeric kernel `K` (choice, match value, new weight), its update
rule `upd` as a function of the learning rate, and for the decisions the generated tables.  A `params` dictionary is
abstracted to the pair `(rho, beta)` (the wrapper's own dictionary additionally answers `beta_lower = bl`), a cache to
the match value it carries and the two integer keys `resonant_c`, `current_c` (`none` = absent). -/
def scalarExt (K : Kernel X Wt β β) (upd : β → X → Wt → Wt) (inf bl : β) :
    ImpTopoStep.Ext X Wt (β × β) (β × Option Int × Option Int) β where
  category_choice := fun W x w _ => (K.choice W x w, (K.matchv x w, none, none))
  match_criterion_bin := fun x w p _ strict =>
    (Gen.BaseART.match_bin (fun a b => if strict then decide (b < a) else decide (b ≤ a)) (K.matchv x w) p.1,
     (K.matchv x w, none, none))
  update := fun x w p _ => upd p.2 x w
  new_weight := fun x _ => K.newW x
  match_tracking := fun c eps p mt =>
    ((Gen.TopoART.match_tracking inf mt c.1 eps p.1).2, ((Gen.TopoART.match_tracking inf mt c.1 eps p.1).1, p.2))
  operator := Gen.BaseART.strict
  noneC := (0, none, none)
  cache_int := fun c key => if key = "resonant_c" then c.2.1 else if key = "current_c" then c.2.2 else none
  dict_with := fun p key v => if key = "beta" then (p.1, v) else if key = "rho" then (v, p.2) else p
  param := fun p key => if key = "beta_lower" then bl else if key = "beta" then p.2 else p.1
  cache_with := fun c key v =>
    if key = "resonant_c" then (c.1, some v, c.2.2) else if key = "current_c" then (c.1, c.2.1, some v) else c
  cache_or_empty := id

/-- the model kernel of such a module wrapped by a TopoART with rates `beta ≥ beta_lower` -/
def scalarKernel (K : Kernel X Wt β β) (upd : β → X → Wt → Wt) (beta bl : β) : TopoKernel X Wt β β :=
  { choice := K.choice, matchv := K.matchv, update := upd beta, updateLower := upd bl, newW := K.newW }

theorem scalar_contract (K : Kernel X Wt β β) (upd : β → X → Wt → Wt) (W : List Wt) (inf bl beta rho eps : β) (own : β × β)
    (x : X) (mt : MT) (is_none : Bool) (veto : Nat → Bool) (hv : is_none = true → ∀ c, veto c = false) :
    Contract (scalarKernel K upd beta bl) (scalarCfg mt false (· + eps) (· - eps) inf) (scalarExt K upd inf bl) Prod.fst
      (fun p => p.2 = beta) W x own (rho, beta) is_none (fun _ _ c _ _ => !veto c) veto mt eps where
  good0 := rfl
  good_track := fun _ _ h => h
  choice := fun _ => rfl
  passes := fun w p _ => by
    simp only [scalarExt, scalarKernel]
    exact base_match_bin mt (K.matchv x w) p.1
  track := fun w p _ => by
    simp only [scalarExt, scalarKernel, topo_match_tracking, base_match_tracking]
  keep := fun _ p => by
    simp only [scalarExt, topo_match_tracking, base_match_tracking]
  update := fun _ p _ h => by
    simp only [scalarExt, scalarKernel, h]
  updateLower := fun _ _ _ _ => by
    simp [scalarExt, scalarKernel]
  newW := rfl
  cache_res := fun _ _ _ => by simp [scalarExt]
  cache_cur := fun _ _ _ => by simp [scalarExt]
  veto_none := hv
  veto_some := fun _ _ _ _ _ _ => rfl

/-- **`TopoART.step_fit`, as translated from the source and with the decision tables as translated from the source,
is the model's `topoStep` under the scalar configuration** — for every wrapped module with a scalar, non-inverted
vigilance, every state, sample, veto pattern, mode and epsilon. -/
theorem scalar_step_fit [Inhabited Wt] (K : Kernel X Wt β β) (upd : β → X → Wt → Wt) (inf bl beta eps : β)
    (self : ImpTopoStep.Self Wt (β × β)) (x : X) (mt : MT) (is_none : Bool) (veto : Nat → Bool)
    (hv : is_none = true → ∀ c, veto c = false) (hbeta : self.bparams.2 = beta) :
    letI : Inhabited β := ⟨0⟩
    Art.Gen.TopoARTStep.step_fit (scalarExt K upd inf bl) self.W.length self x is_none (fun _ _ c _ _ => !veto c) mt eps =
      (withState self (topoStep (scalarKernel K upd beta bl) (scalarCfg mt false (· + eps) (· - eps) inf)
          self.bparams.1 veto (toState self) x).1,
       ((topoStep (scalarKernel K upd beta bl) (scalarCfg mt false (· + eps) (· - eps) inf)
          self.bparams.1 veto (toState self) x).2 : Int)) := by
  let _ : Inhabited β := ⟨0⟩
  have hp : self.bparams = (self.bparams.1, beta) := by rw [← hbeta]
  have hC := scalar_contract K upd self.W inf bl beta self.bparams.1 eps self.params x mt is_none veto hv
  rw [← hp] at hC
  exact step_fit_spec _ _ (scalarExt K upd inf bl) Prod.fst _ self x is_none _ veto mt eps hC

end Scalar

/-! ### Non-vacuity: the generated code run on concrete data (a 1-d module over ℚ: activation and match value
`−|x − w|`, update `w + beta·(x − w)`, `beta = 1`, `beta_lower = 1/2`, vigilance "distance ≤ 2") -/

section Examples

private def exK : Kernel ℚ ℚ ℚ ℚ :=
  { choice := fun _ x w => some (if x ≤ w then x - w else w - x)
    matchv := fun x w => if x ≤ w then x - w else w - x
    update := fun x _ => x
    newW := fun x => x }

private def exUpd (b x w : ℚ) : ℚ := w + b * (x - w)

private def exE : ImpTopoStep.Ext ℚ ℚ (ℚ × ℚ) (ℚ × Option Int × Option Int) ℚ := scalarExt exK exUpd 1000 (1/2)

/-- two categories at 20 and 23; `rho = -2`, `beta = 1` in both dictionaries -/
private def exSelf : ImpTopoStep.Self ℚ (ℚ × ℚ) :=
  { W := [20, 23], cnt := [2, 1], adj := [[0, 0], [0, 0]], perm := [true, false], labels := [0, 0, 1], n := 3,
    params := (-2, 1), bparams := (-2, 1) }

/-- sample 21, no reset function, MT+: both categories pass; best 0 learns at the full rate (20 → 21), second 1 at the
lower rate (23 → 22), both counters grow, the edge (0, 1) is counted, label 0, `rho` untouched -/
example :
    letI : Inhabited ℚ := ⟨0⟩
    let r := Art.Gen.TopoARTStep.step_fit exE 2 exSelf 21 true (fun _ _ _ _ _ => true) MT.plus 0
    r.2 = 0 ∧ r.1.W = [21, 22] ∧ r.1.cnt = [3, 2] ∧ r.1.adj = [[0, 1], [0, 0]] ∧ r.1.perm = [true, false] ∧ r.1.n = 4 ∧
      r.1.bparams = (-2, 1) := by
  decide +kernel

/-- a reset function that vetoes category 0, MT+ with `epsilon = 1/1000`: category 0 passes and is refused, the
threshold tracks to −1 + 1/1000, category 1 (match value −2) now fails, a new category 2 is appended (padded
adjacency and mask), label 2 — and `rho` is back at −2 -/
example :
    letI : Inhabited ℚ := ⟨0⟩
    let r := Art.Gen.TopoARTStep.step_fit exE 2 exSelf 21 false (fun _ _ c _ _ => !(c == 0)) MT.plus (1/1000)
    r.2 = 2 ∧ r.1.W = [20, 23, 21] ∧ r.1.cnt = [2, 1, 1] ∧ r.1.adj = [[0, 0, 0], [0, 0, 0], [0, 0, 0]] ∧
      r.1.perm = [true, false, false] ∧ r.1.n = 4 ∧ r.1.bparams = (-2, 1) := by
  decide +kernel

/-- a reset function that vetoes category 1 only: 0 is the best, there is no second, no edge is counted -/
example :
    letI : Inhabited ℚ := ⟨0⟩
    let r := Art.Gen.TopoARTStep.step_fit exE 2 exSelf 21 false (fun _ _ c _ _ => !(c == 1)) MT.plus (1/1000)
    r.2 = 0 ∧ r.1.W = [21, 23] ∧ r.1.cnt = [3, 1] ∧ r.1.adj = [[0, 0], [0, 0]] ∧ r.1.bparams = (-2, 1) := by
  decide +kernel

/-- the first sample of an empty model (stale adjacency and mask are overwritten) -/
example :
    letI : Inhabited ℚ := ⟨0⟩
    let r := Art.Gen.TopoARTStep.step_fit exE 0 { exSelf with W := [], cnt := [] } 7 true (fun _ _ _ _ _ => true) MT.plus 0
    r.2 = 0 ∧ r.1.W = [7] ∧ r.1.cnt = [1] ∧ r.1.adj = [[0]] ∧ r.1.perm = [false] ∧ r.1.n = 4 := by
  decide +kernel

/-- and the contract holds there (so `scalar_step_fit` / `step_fit_spec` apply) -/
example : Contract (scalarKernel exK exUpd 1 (1/2)) (scalarCfg MT.plus false (· + 1/1000) (· - 1/1000) 1000) exE Prod.fst
    (fun p => p.2 = 1) exSelf.W 21 exSelf.params (-2, 1) false (fun _ _ c _ _ => !(c == 0)) (fun c => c == 0)
    MT.plus (1/1000) :=
  scalar_contract _ _ _ _ _ _ _ _ _ _ _ _ _ (by simp)

end Examples

end Art.GenSpec.TopoStep
