/-
ArtGenProofs.FitGifSpec — `BaseART.fit_gif`, the animated twin of `BaseART.fit`, as translated from the Python source
by `harness/artv/gftrans.py` (ArtGen/FitGif.lean: drawing statements removed by explicit rules, `labels_` over `Int`
and started from `-1`, the three hooks abstract).

  1. For EVERY hooks `H` (every receiver that overrides `pre_step_fit` / `post_step_fit` / `post_fit`): the loop bodies
     generated from `fit_gif` are the loop bodies generated from `fit`, and both calls are that loop, started from the
     `-1`-filled / `0`-filled label vector and finished by `post_fit` (`fit_gif_eq_fitFrom`, `fit_eq_fitFrom`).
  2. For BaseART's own hooks (translated from their bodies: the identity, `base_hooks_id`): `fit` as generated here is
     `Art.Gen.BaseART.fit` of ArtGen/Control.lean with the labels read as integers (`fit_eq_control_fit`), and `fit_gif`
     with `max_iter >= 1` returns exactly the same (`fit_gif_eq_fit`): the first epoch overwrites every entry of
     `labels_`, so the result does not depend on the initial fill (`labels_overwritten`, by induction over the rows:
     `epoch_sim`).  With `max_iter = 0` the two differ in `labels_` only: `-1`s against `0`s (`fit_gif_zero_epochs`).
     No kernel contract is needed for any of this: it holds for all externals `E`, data sets, reset functions, modes,
     epsilons.
  3. Under the kernel contract of ControlFit.lean, `fit_gif` therefore is the model's `fitEpochs` (`fit_gif_spec`), with
     the corollaries of C05 (`fit_gif_one_consistent`: counters = label histogram …), C07 (`fit_gif_restores_params`)
     and C06 (`fit_gif_history_independent`, which needs no contract and holds for every hooks).
The view through which `step_fit` is called leaves `labels_` out; `step_fit_labels_frame` proves, for the generated
`Art.Gen.BaseART.step_fit` and without any contract, that it neither reads nor writes them.
-/
import ArtGen.FitGif
import ArtGenProofs.ControlFit
import ArtProofs.Fit

namespace Art.GenSpec.FitGif

open Art Art.Imp Art.ImpFitGif

/-! ### `BaseART.step_fit` neither reads nor writes `labels_` -/

/-- apply `f` to a returned value -/
def mapRet {R R' S : Type} (f : R → R') : Flow R S → Flow R' S
  | .ret r => .ret (f r)
  | .next s => .next s

theorem whileFuel_mapRet {R R' S : Type} (f : R → R') (cond : S → Bool) (b : S → Flow R S) (b' : S → Flow R' S)
    (h : ∀ s, b' s = mapRet f (b s)) :
    ∀ (fuel : Nat) (s : S), whileFuel cond b' fuel s = mapRet f (whileFuel cond b fuel s) := by
  intro fuel
  induction fuel with
  | zero => intro s; rfl
  | succ n ih =>
    intro s
    simp only [whileFuel, h]
    cases cond s with
    | false => rfl
    | true =>
      simp only [if_true]
      cases b s with
      | ret r => rfl
      | next s' => simpa [mapRet] using ih s'

section Frame
variable {X Wt P C α : Type} [LT α] [DecidableRel (α := α) (· < ·)] [Inhabited Wt] [Inhabited C]

/-- replace the label vector of a returned estimator -/
def withLabels (l : List Nat) (r : Self Wt P × Nat) : Self Wt P × Nat := ({ r.1 with labels := l }, r.2)

/-- **The generated `BaseART.step_fit` neither reads nor writes `labels_`**: running it on an estimator whose label
vector has been replaced by `l` gives the same weights, counters, `params`, flag and returned label, and hands `l`
back.  No contract: for all externals, fuels, states, samples, reset functions, modes, epsilons. -/
theorem step_fit_labels_frame (E : Ext X Wt P C α) (fuel : Nat) (s : Self Wt P) (l : List Nat) (x : X) (is_none : Bool)
    (reset : X → Wt → Nat → P → C → Bool) (mt : MT) (eps : α) :
    Art.Gen.BaseART.step_fit E fuel { s with labels := l } x is_none reset mt eps =
      withLabels l (Art.Gen.BaseART.step_fit E fuel s x is_none reset mt eps) := by
  unfold Art.Gen.BaseART.step_fit
  simp only
  split
  · rfl
  · have hb : ∀ Tc, Art.Gen.BaseART.step_fit_loop1_body E (s.n + 1) l s.hasW x mt eps s.params (E.operator mt) Tc is_none reset =
        fun st => mapRet (withLabels l)
          (Art.Gen.BaseART.step_fit_loop1_body E (s.n + 1) s.labels s.hasW x mt eps s.params (E.operator mt) Tc is_none reset st) := by
      intro Tc
      funext st
      obtain ⟨cnt, W, p, T⟩ := st
      unfold Art.Gen.BaseART.step_fit_loop1_body
      simp only [apply_ite (mapRet (withLabels l))]
      rfl
    simp only [hb]
    rw [whileFuel_mapRet (withLabels l) _ _ _ (fun _ => rfl)]
    cases whileFuel _ _ fuel _ with
    | ret r => rfl
    | next st => rfl

end Frame

/-! ### 1. For every hooks: `fit_gif` is the loop of `fit`, started from `-1`s -/

section Skeleton
variable {X Wt P C α : Type} [LT α] [DecidableRel (α := α) (· < ·)] [Inhabited Wt] [Inhabited C]

/-- **The row loop body generated from `fit_gif` is the one generated from `fit`** — hook, `step_fit` with all its
arguments, label store, hook, in this order — for every hooks, externals and arguments. -/
theorem fit_gif_loop1_body_eq (E : Ext X Wt P C α) (H : Hooks X Wt P) (Xs : List X) (mt : MT) (eps : α) (is_none : Bool)
    (reset : X → Wt → Nat → P → C → Bool) :
    Art.Gen.FitGif.fit_gif_loop1_body E H Xs mt eps is_none reset = Art.Gen.FitGif.fit_loop1_body E H Xs mt eps is_none reset :=
  rfl

/-- **The epoch loop body generated from `fit_gif` is the one generated from `fit`.** -/
theorem fit_gif_loop2_body_eq (E : Ext X Wt P C α) (H : Hooks X Wt P) (Xs : List X) (mt : MT) (eps : α) (v : Bool)
    (is_none : Bool) (reset : X → Wt → Nat → P → C → Bool) :
    Art.Gen.FitGif.fit_gif_loop2_body E H Xs mt eps v is_none reset = Art.Gen.FitGif.fit_loop2_body E H Xs mt eps v is_none reset :=
  rfl

/-- the training call of `fit`, started from the label vector `lab0`: forget weights and counters, run the generated
epoch loop of `fit`, call `post_fit`.  Reads nothing of `self` but `params`. -/
def fitFrom (E : Ext X Wt P C α) (H : Hooks X Wt P) (lab0 : List Int) (self : SelfZ Wt P) (Xs : List X) (is_none : Bool)
    (reset : X → Wt → Nat → P → C → Bool) (max_iter : Nat) (mt : MT) (eps : α) (v : Bool) : SelfZ Wt P × Unit :=
  match forEach (Art.Gen.FitGif.fit_loop2_body E H Xs mt eps v is_none reset) (List.range max_iter)
      ([], [], 0, self.params, lab0, true) with
  | .ret r => r
  | .next (W, cnt, n, p, lab, hw) => (H.post_fit { W := W, cnt := cnt, n := n, params := p, labels := lab, hasW := hw } Xs, ())

/-- **`fit_gif` is the training loop of `fit`, started from `labels_ = [-1, …, -1]`** — same resets of `W`, the
per-category counters and the sample counter, same epochs, `post_fit` once after the last epoch — for every hooks. -/
theorem fit_gif_eq_fitFrom (E : Ext X Wt P C α) (H : Hooks X Wt P) (self : SelfZ Wt P) (Xs : List X) (is_none : Bool)
    (reset : X → Wt → Nat → P → C → Bool) (max_iter : Nat) (mt : MT) (eps : α) (v : Bool) :
    Art.Gen.FitGif.fit_gif E H self Xs is_none reset max_iter mt eps v =
      fitFrom E H (List.replicate Xs.length (-1)) self Xs is_none reset max_iter mt eps v :=
  rfl

/-- `fit` is the same loop, started from `labels_ = [0, …, 0]` -/
theorem fit_eq_fitFrom (E : Ext X Wt P C α) (H : Hooks X Wt P) (self : SelfZ Wt P) (Xs : List X) (is_none : Bool)
    (reset : X → Wt → Nat → P → C → Bool) (max_iter : Nat) (mt : MT) (eps : α) (v : Bool) :
    Art.Gen.FitGif.fit E H self Xs is_none reset max_iter mt eps v =
      fitFrom E H (List.replicate Xs.length 0) self Xs is_none reset max_iter mt eps v :=
  rfl

/-- **`fit_gif` forgets the earlier model** (C06 / F45, for every hooks and without any contract): the result depends
on the estimator it is called on only through its hyper-parameters — in particular not on its old per-category
counters or its old sample counter. -/
theorem fit_gif_history_independent (E : Ext X Wt P C α) (H : Hooks X Wt P) (self₁ self₂ : SelfZ Wt P)
    (hp : self₁.params = self₂.params) (Xs : List X) (is_none : Bool) (reset : X → Wt → Nat → P → C → Bool) (max_iter : Nat)
    (mt : MT) (eps : α) (v₁ v₂ : Bool) :
    Art.Gen.FitGif.fit_gif E H self₁ Xs is_none reset max_iter mt eps v₁ =
      Art.Gen.FitGif.fit_gif E H self₂ Xs is_none reset max_iter mt eps v₂ := by
  rw [fit_gif_eq_fitFrom, fit_gif_eq_fitFrom]
  unfold fitFrom
  rw [hp]
  cases v₁ <;> cases v₂ <;> rfl

omit [Inhabited Wt] in
/-- BaseART's own hooks, as translated from their bodies, do nothing -/
theorem base_hooks_id (s : SelfZ Wt P) (Xs : List X) :
    (Art.Gen.FitGif.base_hooks (Xt := X)).pre_step_fit s Xs = s ∧
    (Art.Gen.FitGif.base_hooks (Xt := X)).post_step_fit s Xs = s ∧
    (Art.Gen.FitGif.base_hooks (Xt := X)).post_fit s Xs = s :=
  ⟨rfl, rfl, rfl⟩

end Skeleton

/-! ### 2. BaseART's hooks: `fit` here is `fit` of ArtGen/Control.lean; `fit_gif` (at least one epoch) equals it -/

/-- `lz` (integers) and `ln` (naturals) have length `N` and agree on the first `K` positions -/
def LabRel (K N : Nat) (lz : List Int) (ln : List Nat) : Prop :=
  lz.length = N ∧ ln.length = N ∧ ∀ j, j < K → lz[j]? = ln[j]?.map Int.ofNat

/-- storing the same label at the same position keeps the agreement -/
theorem labRel_set {K N : Nat} {lz : List Int} {ln : List Nat} (h : LabRel K N lz ln) (i c : Nat) :
    LabRel K N (lz.set i (Int.ofNat c)) (ln.set i c) := by
  obtain ⟨h1, h2, h3⟩ := h
  refine ⟨by simpa using h1, by simpa using h2, ?_⟩
  intro j hj
  by_cases hij : i = j
  · subst hij
    by_cases hi : i < N
    · simp [h1, h2, hi]
    · simp [h1, h2, hi]
  · simp [hij, h3 j hj]

/-- storing at position `K` extends the agreement to `K + 1` positions: the entry of the initial fill is gone -/
theorem labRel_set_succ {K N : Nat} {lz : List Int} {ln : List Nat} (h : LabRel K N lz ln) (c : Nat) :
    LabRel (K + 1) N (lz.set K (Int.ofNat c)) (ln.set K c) := by
  obtain ⟨h1, h2, h3⟩ := h
  refine ⟨by simpa using h1, by simpa using h2, ?_⟩
  intro j hj
  by_cases hij : K = j
  · subst hij
    by_cases hi : K < N
    · simp [h1, h2, hi]
    · simp [h1, h2, hi]
  · have : j < K := by omega
    simp [hij, h3 j this]

/-- agreement on all positions: the integer vector is the natural one -/
theorem labRel_full {K N : Nat} {lz : List Int} {ln : List Nat} (h : LabRel K N lz ln) (hK : N ≤ K) :
    lz = ln.map Int.ofNat := by
  obtain ⟨h1, h2, h3⟩ := h
  apply List.ext_getElem?
  intro j
  by_cases hj : j < K
  · simpa using h3 j hj
  · have : N ≤ j := by omega
    rw [List.getElem?_eq_none (by omega), List.getElem?_eq_none (by simp; omega)]

theorem labRel_mono {K K' N : Nat} {lz : List Int} {ln : List Nat} (h : LabRel K N lz ln) (hK : K' ≤ K) :
    LabRel K' N lz ln :=
  ⟨h.1, h.2.1, fun j hj => h.2.2 j (by omega)⟩

section Base
variable {X Wt P C α : Type} [LT α] [DecidableRel (α := α) (· < ·)] [Inhabited Wt] [Inhabited C]

/-- one row of an epoch, generic in how the label vector stores a label: `step_fit` (which does not see the labels),
then `labels_[i] = c` -/
def row {L : Type} (setL : L → Nat → Nat → L) (E : Ext X Wt P C α) (mt : MT) (eps : α) (is_none : Bool)
    (reset : X → Wt → Nat → P → C → Bool) :
    List Wt × List Nat × Nat × P × L × Bool → X × Nat → List Wt × List Nat × Nat × P × L × Bool :=
  fun (W, cnt, n, p, l, hw) (x, i) =>
    let r := Art.Gen.BaseART.step_fit E W.length { W := W, cnt := cnt, n := n, params := p, labels := [], hasW := hw } x
      is_none reset mt eps
    (r.1.W, r.1.cnt, r.1.n, r.1.params, setL l i r.2, r.1.hasW)

/-- the store into an integer label vector / into a natural one -/
def setZ (l : List Int) (i c : Nat) : List Int := l.set i (Int.ofNat c)
def setN (l : List Nat) (i c : Nat) : List Nat := l.set i c

/-- the two estimators agree on everything but the label type; the labels agree on the first `K` positions -/
def Sim (K N : Nat) (z : List Wt × List Nat × Nat × P × List Int × Bool) (s : List Wt × List Nat × Nat × P × List Nat × Bool) :
    Prop :=
  ∃ W cnt n p hw lz ln, z = (W, cnt, n, p, lz, hw) ∧ s = (W, cnt, n, p, ln, hw) ∧ LabRel K N lz ln

/-- with BaseART's hooks, the row body generated here is `row` over the integers -/
theorem fitgif_row (E : Ext X Wt P C α) (Xs : List X) (mt : MT) (eps : α) (is_none : Bool)
    (reset : X → Wt → Nat → P → C → Bool) (z : List Wt × List Nat × Nat × P × List Int × Bool) (xi : X × Nat) :
    Art.Gen.FitGif.fit_loop1_body E Art.Gen.FitGif.base_hooks Xs mt eps is_none reset z xi =
      .next (row setZ E mt eps is_none reset z xi) :=
  rfl

/-- the row body of ArtGen/Control.lean is `row` over the naturals (`step_fit` does not see the labels) -/
theorem control_row (E : Ext X Wt P C α) (Xs : List X) (mt : MT) (eps : α) (is_none : Bool)
    (reset : X → Wt → Nat → P → C → Bool) (s : List Wt × List Nat × Nat × P × List Nat × Bool) (xi : X × Nat) :
    Art.Gen.BaseART.fit_loop1_body E Xs mt eps is_none reset s xi = .next (row setN E mt eps is_none reset s xi) := by
  obtain ⟨W, cnt, n, p, l, hw⟩ := s
  obtain ⟨x, i⟩ := xi
  have h := step_fit_labels_frame E W.length { W := W, cnt := cnt, n := n, params := p, labels := [], hasW := hw } l x
    is_none reset mt eps
  simp only at h
  unfold Art.Gen.BaseART.fit_loop1_body
  simp only [h]
  rfl

/-- one row keeps the agreement, and a row at position `K` extends it -/
theorem row_sim (E : Ext X Wt P C α) (mt : MT) (eps : α) (is_none : Bool) (reset : X → Wt → Nat → P → C → Bool)
    {K N : Nat} {z : List Wt × List Nat × Nat × P × List Int × Bool} {s : List Wt × List Nat × Nat × P × List Nat × Bool}
    (h : Sim K N z s) (x : X) (i : Nat) :
    Sim K N (row setZ E mt eps is_none reset z (x, i)) (row setN E mt eps is_none reset s (x, i)) ∧
    (i = K → Sim (K + 1) N (row setZ E mt eps is_none reset z (x, i)) (row setN E mt eps is_none reset s (x, i))) := by
  obtain ⟨W, cnt, n, p, hw, lz, ln, rfl, rfl, hl⟩ := h
  refine ⟨⟨_, _, _, _, _, _, _, rfl, rfl, labRel_set hl i _⟩, ?_⟩
  rintro rfl
  exact ⟨_, _, _, _, _, _, _, rfl, rfl, labRel_set_succ hl _⟩

/-- **One pass over the rows (induction over the rows)**: the two estimators stay in agreement, and a pass that starts
at row `k` with the labels agreeing on the first `k` positions ends with agreement on the first `k + len` positions —
every entry the pass has visited has been overwritten with the label `step_fit` returned. -/
theorem epoch_sim (E : Ext X Wt P C α) (mt : MT) (eps : α) (is_none : Bool) (reset : X → Wt → Nat → P → C → Bool) (N : Nat) :
    ∀ (xs : List X) (k K : Nat) (z : List Wt × List Nat × Nat × P × List Int × Bool)
      (s : List Wt × List Nat × Nat × P × List Nat × Bool), Sim K N z s →
      Sim K N ((xs.zipIdx k).foldl (row setZ E mt eps is_none reset) z) ((xs.zipIdx k).foldl (row setN E mt eps is_none reset) s) ∧
      (K = k → Sim (k + xs.length) N ((xs.zipIdx k).foldl (row setZ E mt eps is_none reset) z)
                ((xs.zipIdx k).foldl (row setN E mt eps is_none reset) s)) := by
  intro xs
  induction xs with
  | nil => intro k K z s h; exact ⟨h, fun hk => by simpa [hk] using h⟩
  | cons x xs ih =>
    intro k K z s h
    simp only [List.zipIdx_cons, List.foldl_cons, List.length_cons]
    obtain ⟨h1, h2⟩ := row_sim E mt eps is_none reset h x k
    refine ⟨(ih (k + 1) K _ _ h1).1, ?_⟩
    intro hk
    have := (ih (k + 1) (K + 1) _ _ (h2 hk.symm)).2 (by omega)
    rwa [show k + (xs.length + 1) = k + 1 + xs.length by omega]

/-- one epoch, as a fold of rows -/
def epoch {L : Type} (setL : L → Nat → Nat → L) (E : Ext X Wt P C α) (Xs : List X) (mt : MT) (eps : α) (is_none : Bool)
    (reset : X → Wt → Nat → P → C → Bool) (s : List Wt × List Nat × Nat × P × L × Bool) :
    List Wt × List Nat × Nat × P × L × Bool :=
  (Xs.zipIdx).foldl (row setL E mt eps is_none reset) s

theorem fitgif_epoch (E : Ext X Wt P C α) (Xs : List X) (mt : MT) (eps : α) (v : Bool) (is_none : Bool)
    (reset : X → Wt → Nat → P → C → Bool) (z : List Wt × List Nat × Nat × P × List Int × Bool) (e : Nat) :
    Art.Gen.FitGif.fit_loop2_body E Art.Gen.FitGif.base_hooks Xs mt eps v is_none reset z e =
      .next (epoch setZ E Xs mt eps is_none reset z) := by
  unfold Art.Gen.FitGif.fit_loop2_body epoch
  have h := Control.forEach_next (R := SelfZ Wt P × Unit) (row setZ E mt eps is_none reset)
    (Art.Gen.FitGif.fit_loop1_body E Art.Gen.FitGif.base_hooks Xs mt eps is_none reset)
    (fitgif_row E Xs mt eps is_none reset) Xs.zipIdx z
  cases v <;> simp [h]

theorem control_epoch (E : Ext X Wt P C α) (Xs : List X) (mt : MT) (eps : α) (v : Bool) (is_none : Bool)
    (reset : X → Wt → Nat → P → C → Bool) (s : List Wt × List Nat × Nat × P × List Nat × Bool) (e : Nat) :
    Art.Gen.BaseART.fit_loop2_body E Xs mt eps v is_none reset s e = .next (epoch setN E Xs mt eps is_none reset s) := by
  unfold Art.Gen.BaseART.fit_loop2_body epoch
  have h := Control.forEach_next (R := Self Wt P × Unit) (row setN E mt eps is_none reset)
    (Art.Gen.BaseART.fit_loop1_body E Xs mt eps is_none reset)
    (control_row E Xs mt eps is_none reset) Xs.zipIdx s
  cases v <;> simp [h]

/-- all epochs: the two estimators stay in agreement; if there is at least one epoch, the labels agree everywhere
afterwards, whatever the initial fill was -/
theorem loops_sim (E : Ext X Wt P C α) (Xs : List X) (mt : MT) (eps : α) (v : Bool) (is_none : Bool)
    (reset : X → Wt → Nat → P → C → Bool) :
    ∀ (es : List Nat) (K : Nat) (z : List Wt × List Nat × Nat × P × List Int × Bool)
      (s : List Wt × List Nat × Nat × P × List Nat × Bool), Sim K Xs.length z s →
      ∃ z' s', forEach (Art.Gen.FitGif.fit_loop2_body E Art.Gen.FitGif.base_hooks Xs mt eps v is_none reset) es z = .next z' ∧
        forEach (Art.Gen.BaseART.fit_loop2_body E Xs mt eps v is_none reset) es s = .next s' ∧
        Sim K Xs.length z' s' ∧ (es ≠ [] → K = 0 → Sim Xs.length Xs.length z' s') := by
  intro es
  induction es with
  | nil => intro K z s h; exact ⟨z, s, rfl, rfl, h, fun hne => absurd rfl hne⟩
  | cons e es ih =>
    intro K z s h
    simp only [forEach, fitgif_epoch, control_epoch]
    obtain ⟨h1, h2⟩ := epoch_sim E mt eps is_none reset Xs.length Xs 0 K z s h
    obtain ⟨z', s', hz, hs, h3, _⟩ := ih K _ _ h1
    refine ⟨z', s', hz, hs, h3, ?_⟩
    intro _ hK
    have h4 := h2 hK
    rw [Nat.zero_add] at h4
    obtain ⟨z'', s'', hz', hs', h5, _⟩ := ih Xs.length _ _ h4
    rw [hz] at hz'; rw [hs] at hs'
    cases hz'; cases hs'
    exact h5

/-- an estimator of ArtGen/Control.lean with its labels read as integers -/
def liftZ (s : Self Wt P) : SelfZ Wt P :=
  { W := s.W, cnt := s.cnt, n := s.n, params := s.params, labels := s.labels.map Int.ofNat, hasW := s.hasW }

/-- **The initial fill of `labels_` is irrelevant once there is an epoch**: started from ANY label vector of the
right length, at least one epoch of the generated training loop (BaseART's hooks) returns exactly what the generated
`BaseART.fit` of ArtGen/Control.lean returns — every entry has been overwritten. -/
theorem labels_overwritten (E : Ext X Wt P C α) (lab0 : List Int) (self : SelfZ Wt P) (sN : Self Wt P)
    (hp : self.params = sN.params) (Xs : List X) (hlen : lab0.length = Xs.length) (is_none : Bool)
    (reset : X → Wt → Nat → P → C → Bool) (m : Nat) (mt : MT) (eps : α) (v : Bool) :
    fitFrom E Art.Gen.FitGif.base_hooks lab0 self Xs is_none reset (m + 1) mt eps v =
      (liftZ (Art.Gen.BaseART.fit E sN Xs is_none reset (m + 1) mt eps v).1, ()) := by
  unfold fitFrom Art.Gen.BaseART.fit
  simp only [hp]
  obtain ⟨z', s', hz, hs, _, h2⟩ := loops_sim E Xs mt eps v is_none reset (List.range (m + 1)) 0
    ([], [], 0, sN.params, lab0, true) ([], [], 0, sN.params, List.replicate Xs.length 0, true)
    ⟨_, _, _, _, _, _, _, rfl, rfl, hlen, by simp, fun j hj => absurd hj (Nat.not_lt_zero j)⟩
  rw [hz, hs]
  obtain ⟨W, cnt, n, p, hw, lz, ln, rfl, rfl, hl⟩ := h2 (by simp) rfl
  simp only [liftZ, labRel_full hl (Nat.le_refl _)]
  rfl

/-- **`BaseART.fit` as generated here (labels over the integers, hooks through `self.`, `step_fit` through the view)
is `BaseART.fit` as generated by ctrans (ArtGen/Control.lean)**, for every number of epochs — which ControlFit.lean
proves equal to the model's `fitEpochs`. -/
theorem fit_eq_control_fit (E : Ext X Wt P C α) (self : SelfZ Wt P) (sN : Self Wt P) (hp : self.params = sN.params)
    (Xs : List X) (is_none : Bool) (reset : X → Wt → Nat → P → C → Bool) (m : Nat) (mt : MT) (eps : α) (v : Bool) :
    Art.Gen.FitGif.fit E Art.Gen.FitGif.base_hooks self Xs is_none reset m mt eps v =
      (liftZ (Art.Gen.BaseART.fit E sN Xs is_none reset m mt eps v).1, ()) := by
  rw [fit_eq_fitFrom]
  unfold fitFrom Art.Gen.BaseART.fit
  simp only [hp]
  obtain ⟨z', s', hz, hs, h1, _⟩ := loops_sim E Xs mt eps v is_none reset (List.range m) Xs.length
    ([], [], 0, sN.params, List.replicate Xs.length 0, true) ([], [], 0, sN.params, List.replicate Xs.length 0, true)
    ⟨_, _, _, _, _, _, _, rfl, rfl, by simp, by simp, fun j hj => by simp [hj]⟩
  rw [hz, hs]
  obtain ⟨W, cnt, n, p, hw, lz, ln, rfl, rfl, hl⟩ := h1
  simp only [liftZ, labRel_full hl (Nat.le_refl _)]
  rfl

/-- **`fit_gif` with at least one epoch returns exactly what `fit` returns** (weights, per-category counters, sample
counter, `params`, labels): `BaseART.fit_gif`, translated from its source with the drawing removed, against
`BaseART.fit` as translated by ctrans — for all externals, data sets, reset functions, modes, epsilons,
`max_iter = m + 1`, with or without progress bar, and whatever the two estimators held before (same `params`). -/
theorem fit_gif_eq_fit (E : Ext X Wt P C α) (self : SelfZ Wt P) (sN : Self Wt P) (hp : self.params = sN.params)
    (Xs : List X) (is_none : Bool) (reset : X → Wt → Nat → P → C → Bool) (m : Nat) (mt : MT) (eps : α) (v : Bool) :
    Art.Gen.FitGif.fit_gif E Art.Gen.FitGif.base_hooks self Xs is_none reset (m + 1) mt eps v =
      (liftZ (Art.Gen.BaseART.fit E sN Xs is_none reset (m + 1) mt eps v).1, ()) := by
  rw [fit_gif_eq_fitFrom]
  exact labels_overwritten E _ self sN hp Xs (by simp) is_none reset m mt eps v

/-- the same, between the two definitions generated here -/
theorem fit_gif_eq_generated_fit (E : Ext X Wt P C α) (self₁ self₂ : SelfZ Wt P) (hp : self₁.params = self₂.params)
    (Xs : List X) (is_none : Bool) (reset : X → Wt → Nat → P → C → Bool) (m : Nat) (mt : MT) (eps : α) (v : Bool) :
    Art.Gen.FitGif.fit_gif E Art.Gen.FitGif.base_hooks self₁ Xs is_none reset (m + 1) mt eps v =
      Art.Gen.FitGif.fit E Art.Gen.FitGif.base_hooks self₂ Xs is_none reset (m + 1) mt eps v := by
  rw [fit_gif_eq_fit E self₁ self₂.toBase hp, fit_eq_control_fit E self₂ self₂.toBase rfl]

/-- **`max_iter = 0`**: no row is presented; both calls empty `W`, the counters and the sample counter, and differ in
`labels_` only — `fit_gif` leaves `-1` in every position, `fit` leaves `0`. -/
theorem fit_gif_zero_epochs (E : Ext X Wt P C α) (H : Hooks X Wt P) (self : SelfZ Wt P) (sN : Self Wt P) (Xs : List X)
    (is_none : Bool) (reset : X → Wt → Nat → P → C → Bool) (mt : MT) (eps : α) (v : Bool) :
    Art.Gen.FitGif.fit_gif E H self Xs is_none reset 0 mt eps v =
      (H.post_fit { W := [], cnt := [], n := 0, params := self.params, labels := List.replicate Xs.length (-1), hasW := true } Xs, ()) ∧
    Art.Gen.FitGif.fit E H self Xs is_none reset 0 mt eps v =
      (H.post_fit { W := [], cnt := [], n := 0, params := self.params, labels := List.replicate Xs.length 0, hasW := true } Xs, ()) ∧
    Art.Gen.BaseART.fit E sN Xs is_none reset 0 mt eps v =
      ({ W := [], cnt := [], n := 0, params := sN.params, labels := List.replicate Xs.length 0, hasW := true }, ()) :=
  ⟨rfl, rfl, rfl⟩

/-- `labels_` keeps the length it is given, for every number of epochs -/
theorem fitFrom_labels_length (E : Ext X Wt P C α) (lab0 : List Int) (self : SelfZ Wt P) (Xs : List X)
    (hlen : lab0.length = Xs.length) (is_none : Bool) (reset : X → Wt → Nat → P → C → Bool) (m : Nat) (mt : MT) (eps : α)
    (v : Bool) :
    (fitFrom E Art.Gen.FitGif.base_hooks lab0 self Xs is_none reset m mt eps v).1.labels.length = Xs.length := by
  unfold fitFrom
  obtain ⟨z', s', hz, _, h1, _⟩ := loops_sim E Xs mt eps v is_none reset (List.range m) 0
    ([], [], 0, self.params, lab0, true) ([], [], 0, self.params, List.replicate Xs.length 0, true)
    ⟨_, _, _, _, _, _, _, rfl, rfl, hlen, by simp, fun j hj => absurd hj (Nat.not_lt_zero j)⟩
  rw [hz]
  obtain ⟨W, cnt, n, p, hw, lz, ln, rfl, rfl, hl⟩ := h1
  exact hl.1

/-- after `fit_gif` with at least one epoch `labels_` has one entry per row and no `-1` is left in it -/
theorem fit_gif_labels_nonneg (E : Ext X Wt P C α) (self : SelfZ Wt P) (Xs : List X) (is_none : Bool)
    (reset : X → Wt → Nat → P → C → Bool) (m : Nat) (mt : MT) (eps : α) (v : Bool) :
    (Art.Gen.FitGif.fit_gif E Art.Gen.FitGif.base_hooks self Xs is_none reset (m + 1) mt eps v).1.labels.length = Xs.length ∧
    ∀ l ∈ (Art.Gen.FitGif.fit_gif E Art.Gen.FitGif.base_hooks self Xs is_none reset (m + 1) mt eps v).1.labels, 0 ≤ l := by
  constructor
  · rw [fit_gif_eq_fitFrom]
    exact fitFrom_labels_length E _ self Xs (by simp) is_none reset (m + 1) mt eps v
  · rw [fit_gif_eq_fit E self self.toBase rfl]
    intro l hl
    simp only [liftZ, List.mem_map] at hl
    obtain ⟨k, _, rfl⟩ := hl
    exact Int.natCast_nonneg k

end Base

/-! ### 3. Transport: `fit_gif` is the model's `fitEpochs`, with the C05 / C07 corollaries -/

section Model
variable {X Wt P C α μ θ : Type} [LinearOrder α] [Inhabited Wt] [Inhabited C]

/-- **`fit_gif(X, max_iter = m + 1)` is the model's `fitEpochs`** (the theorem ControlFit.lean proves for `fit`,
transported): weights, per-category counters, sample counter and labels; `params` is handed back untouched. -/
theorem fit_gif_spec (K : Kernel X Wt α μ) (cfg : SearchCfg μ θ) (E : Ext X Wt P C α) (th : P → θ)
    (is_none : Bool) (reset : X → Wt → Nat → P → C → Bool) (vetoF : X → Nat → Bool) (mt : MT) (eps : α)
    (hG : Control.GContract K cfg E th is_none reset vetoF mt eps) (self : SelfZ Wt P) (Xs : List X) (m : Nat) (v : Bool) :
    Art.Gen.FitGif.fit_gif E Art.Gen.FitGif.base_hooks self Xs is_none reset (m + 1) mt eps v =
      (let r := fitEpochs K cfg (th self.params) (fun _ x c => vetoF x c) (m + 1) Xs
       ({ W := r.W, cnt := r.cnt, n := r.n, params := self.params, labels := r.labels.map Int.ofNat, hasW := true }, ())) := by
  rw [fit_gif_eq_fit E self self.toBase rfl,
      Control.fit_spec K cfg E th is_none reset vetoF mt eps hG self.toBase Xs (m + 1) v]
  rfl

/-- **After `fit_gif` (one epoch) labels, cluster count and per-category counters are mutually consistent** (C05's
`Consistent`, transported: one counter per category, every label indexes a category, counters = label histogram,
sample counter = number of labels, no empty category, categories numbered in order of creation) — the statement the
seeded fault F45 (`fit_gif` kept the previous model's counters) violated. -/
theorem fit_gif_one_consistent (K : Kernel X Wt α μ) (cfg : SearchCfg μ θ) (E : Ext X Wt P C α) (th : P → θ)
    (is_none : Bool) (reset : X → Wt → Nat → P → C → Bool) (vetoF : X → Nat → Bool) (mt : MT) (eps : α)
    (hG : Control.GContract K cfg E th is_none reset vetoF mt eps) (self : SelfZ Wt P) (Xs : List X) (v : Bool) :
    ∃ s : ArtState Wt, Consistent s ∧ s.labels.length = Xs.length ∧
      Art.Gen.FitGif.fit_gif E Art.Gen.FitGif.base_hooks self Xs is_none reset 1 mt eps v =
        ({ W := s.W, cnt := s.cnt, n := s.n, params := self.params, labels := s.labels.map Int.ofNat, hasW := true }, ()) := by
  refine ⟨fit K cfg (th self.params) (fun _ x c => vetoF x c) {} Xs, fit_consistent K cfg _ _ {} Xs, ?_, ?_⟩
  · have := partialFit_labels_length K cfg (th self.params) (fun _ x c => vetoF x c) ({} : ArtState Wt) Xs
    simpa [fit] using this
  · rw [fit_gif_spec K cfg E th is_none reset vetoF mt eps hG self Xs 0 v]
    simp only [Nat.zero_add]
    rw [Control.fitEpochs_one K cfg (th self.params) vetoF {} Xs]

/-- **`fit_gif` changes no hyper-parameter** (C07, transported) -/
theorem fit_gif_restores_params (K : Kernel X Wt α μ) (cfg : SearchCfg μ θ) (E : Ext X Wt P C α) (th : P → θ)
    (is_none : Bool) (reset : X → Wt → Nat → P → C → Bool) (vetoF : X → Nat → Bool) (mt : MT) (eps : α)
    (hG : Control.GContract K cfg E th is_none reset vetoF mt eps) (self : SelfZ Wt P) (Xs : List X) (m : Nat) (v : Bool) :
    (Art.Gen.FitGif.fit_gif E Art.Gen.FitGif.base_hooks self Xs is_none reset m mt eps v).1.params = self.params := by
  cases m with
  | zero => rfl
  | succ m => rw [fit_gif_spec K cfg E th is_none reset vetoF mt eps hG self Xs m v]

end Model

section ScalarFitGif
variable {X Wt β : Type} [Field β] [LinearOrder β] [IsStrictOrderedRing β]

/-- **`BaseART.fit_gif`, statements and decision tables all translated from the source, is the model's `fitEpochs`
under the scalar configuration** (every elementary module with a scalar, non-inverted vigilance). -/
theorem scalar_fit_gif [Inhabited Wt] (K : Kernel X Wt β β) (inf eps : β) (mt : MT) (is_none : Bool) (vetoF : X → Nat → Bool)
    (hv : is_none = true → ∀ x c, vetoF x c = false) (self : SelfZ Wt β) (Xs : List X) (m : Nat) (v : Bool) :
    letI : Inhabited β := ⟨0⟩
    Art.Gen.FitGif.fit_gif (Control.scalarExt K inf) Art.Gen.FitGif.base_hooks self Xs is_none (fun x _ c _ _ => !vetoF x c)
        (m + 1) mt eps v =
      (let r := fitEpochs K (scalarCfg mt false (· + eps) (· - eps) inf) self.params (fun _ x c => vetoF x c) (m + 1) Xs
       ({ W := r.W, cnt := r.cnt, n := r.n, params := self.params, labels := r.labels.map Int.ofNat, hasW := true }, ())) := by
  let _ : Inhabited β := ⟨0⟩
  exact fit_gif_spec K _ (Control.scalarExt K inf) id is_none _ vetoF mt eps
    (Control.scalar_gcontract K inf eps mt is_none vetoF hv) self Xs m v

end ScalarFitGif

/-! ### Non-vacuity: the generated `fit_gif`, run on a concrete Fuzzy ART over ℚ -/

private def exSelf : SelfZ (List ℚ) ℚ :=
  { W := [[1, 1, 1, 1]], cnt := [7], n := 7, params := 3/4, labels := [5] }

private def exX : List (List ℚ) := [[3/4, 1/4, 1/4, 3/4], [1/4, 3/4, 3/4, 1/4], [3/4, 1/4, 1/4, 3/4]]

/-- one epoch: two categories, the old counters (7) are gone, no `-1` is left -/
example :
    letI : Inhabited ℚ := ⟨0⟩
    (Art.Gen.FitGif.fit_gif (Control.scalarExt (fuzzyKernel (1/100 : ℚ) 1 2) 1000) Art.Gen.FitGif.base_hooks exSelf exX
      true (fun _ _ _ _ _ => true) 1 MT.plus (1/1000) false).1.labels = [0, 1, 0] := by
  decide +kernel

example :
    letI : Inhabited ℚ := ⟨0⟩
    (Art.Gen.FitGif.fit_gif (Control.scalarExt (fuzzyKernel (1/100 : ℚ) 1 2) 1000) Art.Gen.FitGif.base_hooks exSelf exX
      true (fun _ _ _ _ _ => true) 1 MT.plus (1/1000) false).1.cnt = [2, 1] := by
  decide +kernel

/-- no epoch: `-1` everywhere (where `fit` leaves `0`) -/
example :
    letI : Inhabited ℚ := ⟨0⟩
    (Art.Gen.FitGif.fit_gif (Control.scalarExt (fuzzyKernel (1/100 : ℚ) 1 2) 1000) Art.Gen.FitGif.base_hooks exSelf exX
      true (fun _ _ _ _ _ => true) 0 MT.plus (1/1000) false).1.labels = [-1, -1, -1] := by
  decide +kernel

end Art.GenSpec.FitGif
