/-
ArtGenProofs.GuardsSpec — the validation gates of artlib, as translated from the Python source by
`harness/artv/p2trans.py` (ArtGen/Guards.lean), compute their specifications for every matrix, every attribute record
and every held estimator, and the C18 atomicity theorems hold of the generated definitions.

A gate is generated in `Gd.Py (Self α μ)` (`ArtModel/ImpGuards.lean`): the attribute record *at the end of the call,
also when it raises*, is part of the result, so "rejected before any state change" is proved about the generated term.
An estimator held by `self` is a `Gd.Obj`: its state and its own gates, which are parameters here (contracts
`CleanV`, `CheckRedundant`; proved for the generated BaseART / BayesianART gates).

  check_dimensions_base_spec, validate_base_spec, inherited_gates_spec, topo_check_dimensions_spec
        BaseART's bodies (for BaseART, Hypersphere/Ellipsoid/Gaussian/QuadraticNeuronART, TopoART.check_dimensions)
        = runValidate widthOk / runValidate validBase of ArtModel/Prep.lean: answer and every attribute
  check_dimensions_bayes_spec, validate_bayes_spec                       = runValidate bayesDimOk / validBayes
  check_dimensions_bayes_first / _later    first call: accepted iff cov_init is d×d, d = X.shape[1], then dim_ = d stored, else
        nothing stored; later calls: accepted iff X.shape[1] = the remembered dim_, nothing stored, cov_init plays no role
  gen_check_bayes_atomic, gen_validate_bayes_atomic, gen_validate_inherited_atomic   a raising gate returns the record it got
  entry_eq_checked, gen_entry_rejects, gen_entry_ok_only_if_valid        generated `gate; body` = the model's `checked`;
        C18.reject_is_noop / ok_only_if_valid transported; gen_entry_rejects_bayes / gen_entry_ok_bayes: the instances
  fusion_check_dimensions_spec, fusion_validate_unfold, fusion_validate_spec, validateMods_first_reject / _all_ok / _noop
        FusionART: total width first, then module k on columns _channel_indices[k], k = 0 … n-1, until one raises
  fusion_reject_width_noop, fusion_validate_frame, fusion_validate_noop_warm, gen_entry_rejects_fusion_warm
        what a rejected FusionART.validate_data leaves behind (finding F19 made precise)
  simple_validate_spec, dual_check_spec, dual_validate_spec, topo_validate_spec, bartmap_validate_spec
        which held gate is called with what, in which order
  topo/dual/simple_validate_atomic, dual_validate_eq_topo, bartmap_reject_a_noop, bartmap_reject_b      atomicity from the contracts
  baseObj_clean, baseObj_check_redundant, bayesObj_clean, gen_entry_rejects_wrapped_base, gen_entry_rejects_simple_base
        the held estimator is a generated elementary gate: C18 through two layers of generated code
-/
import ArtGen.Guards
import ArtProps.C18

set_option linter.unusedSectionVars false
set_option linter.unusedSimpArgs false
set_option linter.unnecessarySeqFocus false

namespace Art.GenSpec.Guards
open Art Art.Gd Art.Gen.Guards

/-- what a gate returns: nothing, or `AssertionError` -/
def okIf (b : Bool) : Except Err Unit := if b then .ok () else .error .assertion

theorem shape_snd {β : Type} (X : List (List β)) : (Np.shape X).2 = width X := by
  cases X <;> rfl

theorem shape_fst {β : Type} (X : List (List β)) : (Np.shape X).1 = X.length := rfl

/-! ### the elementary classes -/

section Elementary
variable {α μ : Type} [Field α] [LinearOrder α] [IsStrictOrderedRing α]

/-- the two range assertions together are the model's `inUnit` -/
theorem inUnit_gen (X : Mat α) :
    (Np.all2 (Np.ew2 (fun x => decide (x ≥ (0 : α))) X) && Np.all2 (Np.ew2 (fun x => decide (x ≤ (1 : α))) X))
      = inUnit X := by
  rw [Bool.eq_iff_iff]
  simp only [Np.all2, Np.ew2, inUnit, List.all_map, List.all_eq_true, Bool.and_eq_true, Function.comp_def, id,
    decide_eq_true_eq, ge_iff_le]
  constructor
  · rintro ⟨h0, h1⟩ r hr v hv; exact ⟨h0 r hr v hv, h1 r hr v hv⟩
  · intro h; exact ⟨fun r hr v hv => (h r hr v hv).1, fun r hr v hv => (h r hr v hv).2⟩

/-- the answer and `dim_` after a gate are those of a model validator -/
def ranAs (v : DimState → Mat α → DimState × Bool) (s : Self α μ) (X : Mat α) : Except Err Unit × Self α μ :=
  (okIf (v ⟨s.dim_⟩ X).2, { s with dim_ := (v ⟨s.dim_⟩ X).1.dim })

/-- **`BaseART.check_dimensions`** = `runValidate widthOk` -/
theorem check_dimensions_base_spec (s : Self α μ) (X : Mat α) :
    BaseART.check_dimensions X s = ranAs (runValidate widthOk) s X := by
  obtain ⟨dim, mx, mn, n, ci, ms, ma, mb, bm⟩ := s
  cases dim <;>
    simp [ranAs, runValidate, BaseART.check_dimensions, bind, Py.bind, Py.get, Py.modify, Py.assert, Py.attr,
      shape_snd, okIf, widthOk] <;>
    split_ifs <;> simp_all

/-- `BayesianART.check_dimensions` as a predicate.  First call (`dim_` absent): `cov_init` is `w × w` for
`w = X.shape[1]`; later calls: `w` is the remembered `dim_` (`cov` = the shape of `params["cov_init"]`). -/
def bayesDimOk (cov : Nat × Nat) (dim? : Option Nat) (X : Mat α) : Bool :=
  match dim? with
  | none => cov.1 == width X && cov.2 == width X
  | some d => width X == d

/-- `BayesianART.validate_data` (BaseART's body, BayesianART's `check_dimensions`) as a predicate -/
def validBayes (cov : Nat × Nat) (dim? : Option Nat) (X : Mat α) : Bool := inUnit X && bayesDimOk cov dim? X

/-- **`BayesianART.check_dimensions` = `runValidate bayesDimOk`**: the answer and every attribute after the call.
In particular the two `cov_init` assertions come before the store of `dim_`. -/
theorem check_dimensions_bayes_spec (cov : Mat α) (s : Self α μ) (X : Mat α) :
    BayesianART.check_dimensions cov X s = ranAs (runValidate (bayesDimOk (Np.shape cov))) s X := by
  obtain ⟨dim, mx, mn, n, ci, ms, ma, mb, bm⟩ := s
  cases dim with
  | none =>
    by_cases h1 : (Np.shape cov).1 = width X <;> by_cases h2 : width cov = width X <;>
      simp [ranAs, runValidate, bayesDimOk, BayesianART.check_dimensions, bind, Py.bind, Py.get, Py.modify,
        Py.assert, Py.attr, shape_snd, okIf, h1, h2]
  | some d =>
    simp [ranAs, runValidate, bayesDimOk, BayesianART.check_dimensions, bind, Py.bind, Py.get, Py.modify, Py.assert,
      Py.attr, shape_snd, okIf] <;>
    split_ifs <;> simp_all

/-- a range check in front of a gate that runs as `runValidate p`: together they run as `runValidate (inUnit && p)` -/
theorem range_then (p : Option Nat → Mat α → Bool) (g : Py (Self α μ) Unit) (s : Self α μ) (X : Mat α)
    (hg : g s = ranAs (runValidate p) s X) :
    (do Py.assert (Np.all2 (Np.ew2 (fun x__ => decide (x__ ≥ (0 : α))) X))
        Py.assert (Np.all2 (Np.ew2 (fun x__ => decide (x__ ≤ (1 : α))) X))
        g : Py (Self α μ) Unit) s = ranAs (runValidate (fun d Y => inUnit Y && p d Y)) s X := by
  simp only [ranAs, runValidate, ← inUnit_gen, bind, Py.bind, Py.assert, hg]
  generalize Np.all2 (Np.ew2 (fun x => decide (x ≥ (0 : α))) X) = a
  generalize Np.all2 (Np.ew2 (fun x => decide (x ≤ (1 : α))) X) = b
  cases a <;> cases b <;> simp [ranAs, runValidate, okIf, hg]

/-- **`BayesianART.validate_data` = the model's `runValidate` of `validBayes`** -/
theorem validate_bayes_spec (cov : Mat α) (s : Self α μ) (X : Mat α) :
    BayesianART.validate_data cov X s = ranAs (runValidate (validBayes (Np.shape cov))) s X :=
  range_then (bayesDimOk (Np.shape cov)) _ s X (check_dimensions_bayes_spec cov s X)

/-- **first call**: accepted iff `cov_init` is `d × d` for `d = X.shape[1]`; then, and only then, `dim_ = d` is stored -/
theorem check_dimensions_bayes_first (cov : Mat α) (s : Self α μ) (X : Mat α) (h : s.dim_ = none) :
    BayesianART.check_dimensions cov X s =
      if cov.length = width X ∧ width cov = width X then (.ok (), { s with dim_ := some (width X) })
      else (.error .assertion, s) := by
  obtain ⟨dim, mx, mn, n, ci, ms, ma, mb, bm⟩ := s
  simp only at h
  subst h
  rw [check_dimensions_bayes_spec]
  simp only [ranAs, runValidate, bayesDimOk, shape_snd, shape_fst]
  by_cases h1 : cov.length = width X <;> by_cases h2 : width cov = width X <;> simp [h1, h2, okIf]

/-- **later calls**: accepted iff `X.shape[1]` is the *remembered* `dim_`; nothing is stored; the live `cov_init`
hyper-parameter plays no role (it may have been replaced by `set_params` since the first call) -/
theorem check_dimensions_bayes_later (cov cov' : Mat α) (s : Self α μ) (X : Mat α) (d : Nat) (h : s.dim_ = some d) :
    BayesianART.check_dimensions cov X s = (okIf (width X == d), s) ∧
    BayesianART.check_dimensions cov X s = BayesianART.check_dimensions cov' X s := by
  obtain ⟨dim, mx, mn, n, ci, ms, ma, mb, bm⟩ := s
  simp only at h
  subst h
  rw [check_dimensions_bayes_spec, check_dimensions_bayes_spec]
  refine ⟨?_, rfl⟩
  by_cases hw : width X = d <;> simp [ranAs, runValidate, bayesDimOk, okIf, hw]

/-- **`BaseART.validate_data`** (re-translated into this file's monad) `= runValidate validBase` -/
theorem validate_base_spec (s : Self α μ) (X : Mat α) :
    BaseART.validate_data X s = ranAs (runValidate validBase) s X :=
  range_then widthOk _ s X (check_dimensions_base_spec s X)

/-- HypersphereART, EllipsoidART, GaussianART and QuadraticNeuronART define neither gate: BaseART's bodies,
re-translated for each of them, run as `runValidate widthOk` / `runValidate validBase` -/
theorem inherited_gates_spec (s : Self α μ) (X : Mat α) :
    (HypersphereART.check_dimensions X s = ranAs (runValidate widthOk) s X ∧
     HypersphereART.validate_data X s = ranAs (runValidate validBase) s X) ∧
    (EllipsoidART.check_dimensions X s = ranAs (runValidate widthOk) s X ∧
     EllipsoidART.validate_data X s = ranAs (runValidate validBase) s X) ∧
    (GaussianART.check_dimensions X s = ranAs (runValidate widthOk) s X ∧
     GaussianART.validate_data X s = ranAs (runValidate validBase) s X) ∧
    (QuadraticNeuronART.check_dimensions X s = ranAs (runValidate widthOk) s X ∧
     QuadraticNeuronART.validate_data X s = ranAs (runValidate validBase) s X) :=
  ⟨⟨check_dimensions_base_spec s X, range_then widthOk _ s X (check_dimensions_base_spec s X)⟩,
   ⟨check_dimensions_base_spec s X, range_then widthOk _ s X (check_dimensions_base_spec s X)⟩,
   ⟨check_dimensions_base_spec s X, range_then widthOk _ s X (check_dimensions_base_spec s X)⟩,
   ⟨check_dimensions_base_spec s X, range_then widthOk _ s X (check_dimensions_base_spec s X)⟩⟩

/-- `TopoART.check_dimensions` is BaseART's body on TopoART's *own* `dim_` -/
theorem topo_check_dimensions_spec (s : Self α μ) (X : Mat α) :
    TopoART.check_dimensions X s = ranAs (runValidate widthOk) s X := check_dimensions_base_spec s X

/-! ### C18 atomicity for the generated elementary gates -/

/-- a gate that runs as a validator which leaves no trace when it rejects (`C18.validate_pure_on_reject`) returns
the attribute record it was given whenever it raises -/
theorem ranAs_atomic (v : DimState → Mat α → DimState × Bool) (hp : PureOnReject v) (g : Py (Self α μ) Unit)
    (s : Self α μ) (X : Mat α) (hg : g s = ranAs v s X) (hrej : (g s).1 ≠ .ok ()) :
    g s = (.error .assertion, s) := by
  rw [hg] at hrej ⊢
  cases hv : (v ⟨s.dim_⟩ X).2 with
  | true => simp [ranAs, hv, okIf] at hrej
  | false => simp only [ranAs, hv, okIf, hp ⟨s.dim_⟩ X hv]; rfl

/-- **`BayesianART.check_dimensions` is atomic**: when it raises, no attribute has changed (the assertions on
`cov_init` precede the store of `dim_`) -/
theorem gen_check_bayes_atomic (cov : Mat α) (s : Self α μ) (X : Mat α)
    (hrej : (BayesianART.check_dimensions cov X s).1 ≠ .ok ()) :
    BayesianART.check_dimensions cov X s = (.error .assertion, s) :=
  ranAs_atomic _ (C18.validate_pure_on_reject _) _ s X (check_dimensions_bayes_spec cov s X) hrej

/-- **`BayesianART.validate_data` is atomic** (transport of `C18.validate_pure_on_reject`) -/
theorem gen_validate_bayes_atomic (cov : Mat α) (s : Self α μ) (X : Mat α)
    (hrej : (BayesianART.validate_data cov X s).1 ≠ .ok ()) :
    BayesianART.validate_data cov X s = (.error .assertion, s) :=
  ranAs_atomic _ (C18.validate_pure_on_reject _) _ s X (validate_bayes_spec cov s X) hrej

/-- the same for the four classes that inherit both gates -/
theorem gen_validate_inherited_atomic (s : Self α μ) (X : Mat α) :
    ((HypersphereART.validate_data X s).1 ≠ .ok () → HypersphereART.validate_data X s = (.error .assertion, s)) ∧
    ((EllipsoidART.validate_data X s).1 ≠ .ok () → EllipsoidART.validate_data X s = (.error .assertion, s)) ∧
    ((GaussianART.validate_data X s).1 ≠ .ok () → GaussianART.validate_data X s = (.error .assertion, s)) ∧
    ((QuadraticNeuronART.validate_data X s).1 ≠ .ok () →
      QuadraticNeuronART.validate_data X s = (.error .assertion, s)) :=
  have h := inherited_gates_spec s X
  ⟨ranAs_atomic _ (C18.validate_pure_on_reject _) _ s X h.1.2,
   ranAs_atomic _ (C18.validate_pure_on_reject _) _ s X h.2.1.2,
   ranAs_atomic _ (C18.validate_pure_on_reject _) _ s X h.2.2.1.2,
   ranAs_atomic _ (C18.validate_pure_on_reject _) _ s X h.2.2.2.2⟩

/-! #### entry points: the generated gate followed by any body is the model's `checked` -/

/-- the attribute record with the model's `dim_` written into it -/
def withDim (t : Self α μ) (d : DimState) : Self α μ := { t with dim_ := d.dim }

/-- a generated body as a body of the model's `checked` (state = `dim_` × the whole record) -/
def bodyOf {ρ : Type} (body : Py (Self α μ) ρ) :
    DimState × Self α μ → Mat α → (DimState × Self α μ) × Except Err ρ :=
  fun st _ => ((⟨(body (withDim st.2 st.1)).2.dim_⟩, (body (withDim st.2 st.1)).2), (body (withDim st.2 st.1)).1)

/-- the result of `checked` read back as a result of the generated code -/
def unpack {ρ : Type} (r : (DimState × Self α μ) × Except PrepErr (Except Err ρ)) : Except Err ρ × Self α μ :=
  (match r.2 with
    | .ok e => e
    | .error _ => .error .assertion, withDim r.1.2 r.1.1)

/-- **`fit` / `partial_fit` / `predict` = gate, then body**: for a generated gate that runs as the model validator
`v`, the generated entry point *is* the model's `checked v` — so every theorem about `checked` is one about the
generated code -/
theorem entry_eq_checked {ρ : Type} (v : DimState → Mat α → DimState × Bool) (g : Mat α → Py (Self α μ) Unit)
    (hg : ∀ s X, g X s = ranAs v s X) (body : Py (Self α μ) ρ) (s : Self α μ) (X : Mat α) :
    (do g X; body) s = unpack (checked v (bodyOf body) (⟨s.dim_⟩, s) X) := by
  simp only [bind, Py.bind, hg, ranAs, checked, unpack, bodyOf, withDim]
  cases hv : (v ⟨s.dim_⟩ X).2 <;> simp [okIf]

/-- transport of `C18.reject_is_noop` -/
theorem gen_entry_rejects {ρ : Type} (v : DimState → Mat α → DimState × Bool) (hp : PureOnReject v)
    (g : Mat α → Py (Self α μ) Unit) (hg : ∀ s X, g X s = ranAs v s X) (body : Py (Self α μ) ρ) (s : Self α μ)
    (X : Mat α) (hrej : (v ⟨s.dim_⟩ X).2 = false) :
    (do g X; body) s = (.error .assertion, s) := by
  rw [entry_eq_checked v g hg, C18.reject_is_noop v hp (bodyOf body) (⟨s.dim_⟩, s) X hrej]
  rfl

/-- transport of `C18.ok_only_if_valid` -/
theorem gen_entry_ok_only_if_valid {ρ : Type} (v : DimState → Mat α → DimState × Bool)
    (g : Mat α → Py (Self α μ) Unit) (hg : ∀ s X, g X s = ranAs v s X) (body : Py (Self α μ) ρ) (s : Self α μ)
    (X : Mat α) (r : ρ) (h : ((do g X; body) s).1 = .ok r) : (v ⟨s.dim_⟩ X).2 = true := by
  rw [entry_eq_checked v g hg] at h
  cases hc : (checked v (bodyOf body) (⟨s.dim_⟩, s) X).2 with
  | ok e => exact C18.ok_only_if_valid v (bodyOf body) (⟨s.dim_⟩, s) X e hc
  | error e => simp [unpack, hc] at h

/-- **BayesianART entry points** (`C18.reject_is_noop` on the generated gate): a matrix with an entry outside [0,1],
of a width other than the remembered one, or — on the first call — of a width for which `cov_init` is not square of
that size, raises `AssertionError`, the body never runs and the attribute record is the one the call was given -/
theorem gen_entry_rejects_bayes {ρ : Type} (cov : Mat α) (body : Py (Self α μ) ρ) (s : Self α μ) (X : Mat α)
    (hbad : (∃ r ∈ X, ∃ v ∈ r, v < 0 ∨ 1 < v) ∨ (∃ d, s.dim_ = some d ∧ width X ≠ d) ∨
      (s.dim_ = none ∧ ¬ (cov.length = width X ∧ width cov = width X))) :
    (do BayesianART.validate_data cov X; body) s = (.error .assertion, s) := by
  refine gen_entry_rejects _ (C18.validate_pure_on_reject (validBayes (Np.shape cov)))
    (BayesianART.validate_data cov) (validate_bayes_spec cov) body s X ?_
  have hrej : validBayes (Np.shape cov) s.dim_ X = false := by
    rcases hbad with h | ⟨d, hd, hw⟩ | ⟨hd, hc⟩
    · have := ((C18.malformed_is_rejected s.dim_ X).1 h).1
      simp only [validBase, Bool.and_eq_false_iff] at this
      rcases this with hu | hw
      · simp [validBayes, hu]
      · cases hd : s.dim_ with
        | none => simp [widthOk, hd] at hw
        | some d => simp only [widthOk, hd] at hw; simp [validBayes, bayesDimOk, hd, hw]
    · simp [validBayes, bayesDimOk, hd, hw]
    · simp only [validBayes, bayesDimOk, hd, shape_fst, shape_snd, Bool.and_eq_false_iff]
      right
      by_cases h1 : cov.length = width X
      · right; simpa [h1] using hc
      · left; simpa using h1
  simp [runValidate, hrej]

/-- a BayesianART call that returns went through validation -/
theorem gen_entry_ok_bayes {ρ : Type} (cov : Mat α) (body : Py (Self α μ) ρ) (s : Self α μ) (X : Mat α) (r : ρ)
    (h : ((do BayesianART.validate_data cov X; body) s).1 = .ok r) :
    validBayes (Np.shape cov) s.dim_ X = true := by
  have := gen_entry_ok_only_if_valid _ (BayesianART.validate_data cov) (validate_bayes_spec cov) body s X r h
  by_contra hc
  simp [runValidate, hc] at this

end Elementary

/-! ### FusionART -/

section Fusion
variable {α μ : Type} [Field α] [LinearOrder α] [IsStrictOrderedRing α]

/-- **`FusionART.check_dimensions`**: one assertion on the total width against `dim_` (which `__init__` sets to
`sum(channel_dims)`); nothing is stored -/
theorem fusion_check_dimensions_spec (s : Self α μ) (X : Mat α) :
    FusionART.check_dimensions X s =
      (match s.dim_ with
        | none => .error .attribute
        | some d => okIf (width X == d), s) := by
  obtain ⟨dim, mx, mn, n, ci, ms, ma, mb, bm⟩ := s
  cases dim <;> simp [FusionART.check_dimensions, bind, Py.bind, Py.attr, Py.assert, shape_snd, okIf]

/-- one iteration of the loop of `FusionART.validate_data`: `_channel_indices[k]` (IndexError), `modules[k]`
(IndexError), then module `k` validates the columns `lo … hi-1` of `X` on its own state -/
def fusionStep (X : Mat α) (k : Nat) (s : Self α μ) : Except Err Unit × Self α μ :=
  match s._channel_indices[k]? with
  | none => (.error .index, s)
  | some (lo, hi) =>
    match s.modules[k]? with
    | none => (.error .index, s)
    | some m =>
      ((m.validate_data (Np.cols X lo (some hi)) m.st).1,
        { s with modules := s.modules.set k (m.withSt (m.validate_data (Np.cols X lo (some hi)) m.st).2) })

/-- the generated `FusionART.validate_data`: width assertion, then `fusionStep` for `k = 0 … n-1` -/
theorem fusion_validate_unfold (s : Self α μ) (X : Mat α) :
    FusionART.validate_data X s =
      match s.dim_ with
      | none => (.error .attribute, s)
      | some d => if width X = d then forList (fusionStep X) (List.range s.n) s else (.error .assertion, s) := by
  simp only [FusionART.validate_data, bind, Py.bind, fusion_check_dimensions_spec, Py.get, forRange]
  cases hd : s.dim_ with
  | none => rfl
  | some d =>
    by_cases hw : width X = d
    · simp only [hw, beq_self_eq_true, okIf, if_true]
      congr 1
      funext k t
      simp only [Py.bind, Py.get, Py.item, callItem, fusionStep]
      cases h1 : t._channel_indices[k]? with
      | none => simp [h1]
      | some p =>
        obtain ⟨lo, hi⟩ := p
        cases h2 : t.modules[k]? <;> simp [h1, h2]
    · simp [hw, okIf]

/-- the held estimators validate their column blocks in turn; the first one that raises ends the loop: the ones
before it keep whatever their accepting `validate_data` stored, the ones after it have not been called -/
def validateMods (X : Mat α) : List (Obj α μ × (Nat × Nat)) → Except Err Unit × List (Obj α μ)
  | [] => (.ok (), [])
  | (m, (lo, hi)) :: rest =>
    match m.validate_data (Np.cols X lo (some hi)) m.st with
    | (.ok _, st') => ((validateMods X rest).1, m.withSt st' :: (validateMods X rest).2)
    | (.error e, st') => (.error e, m.withSt st' :: rest.map (·.1))

theorem getElem?_mid {β : Type} (pre : List β) (x : β) (post : List β) : (pre ++ x :: post)[pre.length]? = some x := by
  simp

theorem set_mid {β : Type} (pre : List β) (x y : β) (post : List β) :
    (pre ++ x :: post).set pre.length y = pre ++ y :: post := by
  simp

/-- the loop over `range' a len` once the first `a` modules are done -/
theorem fusion_loop (X : Mat α) : ∀ (post : List (Obj α μ)) (ipost : List (Nat × Nat)) (pre : List (Obj α μ))
    (ipre : List (Nat × Nat)) (s : Self α μ), pre.length = ipre.length → post.length = ipost.length →
    s.modules = pre ++ post → s._channel_indices = ipre ++ ipost →
    forList (fusionStep X) (List.range' pre.length post.length) s =
      ((validateMods X (post.zip ipost)).1, { s with modules := pre ++ (validateMods X (post.zip ipost)).2 }) := by
  intro post
  induction post with
  | nil =>
    intro ipost pre ipre s _ _ hm _
    simp only [List.length_nil, List.range'_zero, forList, Py.pure, List.zip_nil_left, validateMods,
      List.append_nil] at hm ⊢
    rw [← hm]
  | cons m rest ih =>
    intro ipost pre ipre s hl hp hm hi
    cases ipost with
    | nil => simp at hp
    | cons p irest =>
      obtain ⟨lo, hi'⟩ := p
      simp only [List.length_cons, Nat.add_right_cancel_iff] at hp
      have hstep : fusionStep X pre.length s =
          ((m.validate_data (Np.cols X lo (some hi')) m.st).1,
            { s with modules := pre ++ m.withSt (m.validate_data (Np.cols X lo (some hi')) m.st).2 :: rest }) := by
        simp only [fusionStep, hi, hm, hl ▸ getElem?_mid ipre (lo, hi') irest, getElem?_mid pre m rest, set_mid]
      simp only [List.length_cons, List.range'_succ, forList, Py.bind, hstep, List.zip_cons_cons, validateMods]
      cases hv : m.validate_data (Np.cols X lo (some hi')) m.st with
      | mk r st' =>
        cases r with
        | error e => simp [List.map_fst_zip (Nat.le_of_eq hp)]
        | ok u =>
          have := ih irest (pre ++ [m.withSt st']) (ipre ++ [(lo, hi')])
            { s with modules := pre ++ m.withSt st' :: rest } (by simp [hl]) hp (by simp) (by simp [hi])
          simp only [List.length_append, List.length_cons, List.length_nil, Nat.zero_add, List.append_assoc,
            List.cons_append, List.nil_append] at this
          simp only [this]

/-- **`FusionART.validate_data`** on a FusionART whose `modules` and `_channel_indices` have the `n` entries
`__init__` gives them: the total width is asserted first (nothing has been touched when it fails); then module `k`
validates exactly the columns `_channel_indices[k][0] … _channel_indices[k][1]-1`, for `k = 0, 1, …` in this order,
until one raises.  FusionART's own attributes (`dim_`, `n`, `_channel_indices`, the remembered bounds, …) are never
written, accepted or rejected; what the held estimators store is their own contract (`Obj.validate_data`). -/
theorem fusion_validate_spec (s : Self α μ) (X : Mat α) (hm : s.modules.length = s.n)
    (hi : s._channel_indices.length = s.n) :
    FusionART.validate_data X s =
      match s.dim_ with
      | none => (.error .attribute, s)
      | some d =>
        if width X = d then
          ((validateMods X (s.modules.zip s._channel_indices)).1,
            { s with modules := (validateMods X (s.modules.zip s._channel_indices)).2 })
        else (.error .assertion, s) := by
  rw [fusion_validate_unfold]
  obtain ⟨dim, mx, mn, n, ci, ms, ma, mb, bm⟩ := s
  simp only at hm hi
  cases dim with
  | none => rfl
  | some d =>
    by_cases hw : width X = d
    · simp only [hw, if_true]
      have := fusion_loop X ms ci [] [] ⟨some d, mx, mn, n, ci, ms, ma, mb, bm⟩ rfl (hm.trans hi.symm) rfl rfl
      simpa [List.range_eq_range', hm] using this
    · simp [hw]

/-- a wrong total width is rejected before any held estimator is called: the record is the one the call was given
(no hypothesis on the record) -/
theorem fusion_reject_width_noop (s : Self α μ) (X : Mat α) (d : Nat) (hd : s.dim_ = some d) (hw : width X ≠ d) :
    FusionART.validate_data X s = (.error .assertion, s) := by
  rw [fusion_validate_unfold, hd]; simp [hw]

/-- **frame**: whatever the record and the answer, `FusionART.validate_data` writes no attribute of the FusionART
itself — the record after the call differs from the one before at most in (the states inside) `modules` -/
theorem fusion_validate_frame (s : Self α μ) (X : Mat α) :
    (FusionART.validate_data X s).2 = { s with modules := (FusionART.validate_data X s).2.modules } := by
  have hstep : ∀ k (t : Self α μ), (fusionStep X k t).2 = { t with modules := (fusionStep X k t).2.modules } := by
    intro k t
    unfold fusionStep
    split
    · rfl
    · split <;> rfl
  have hloop : ∀ (l : List Nat) (t : Self α μ),
      (forList (fusionStep X) l t).2 = { t with modules := (forList (fusionStep X) l t).2.modules } := by
    intro l
    induction l with
    | nil => intro t; rfl
    | cons k ks ih =>
      intro t
      simp only [forList, Py.bind]
      have h1 := hstep k t
      cases hr : fusionStep X k t with
      | mk r t' =>
        rw [hr] at h1
        cases r with
        | error e => exact h1
        | ok u =>
          simp only
          have h2 := ih t'
          rw [h2]
          simp only at h1
          rw [h1]
  rw [fusion_validate_unfold]
  obtain ⟨dim, mx, mn, n, ci, ms, ma, mb, bm⟩ := s
  cases dim with
  | none => rfl
  | some d =>
    by_cases hw : width X = d
    · simp only [hw, if_true]; exact hloop _ _
    · simp [hw]

theorem validateMods_length (X : Mat α) : ∀ (l : List (Obj α μ × (Nat × Nat))), (validateMods X l).2.length = l.length
  | [] => rfl
  | (m, (lo, hi)) :: rest => by
    unfold validateMods
    split <;> simp [validateMods_length X rest]

/-- held estimators whose `validate_data` leaves their state as it is (e.g. every estimator that has already
recorded its `dim_`: later calls of the elementary gates store nothing) come back unchanged -/
theorem validateMods_noop (X : Mat α) : ∀ (l : List (Obj α μ × (Nat × Nat))),
    (∀ p ∈ l, ∀ Y, (p.1.validate_data Y p.1.st).2 = p.1.st) → (validateMods X l).2 = l.map (·.1)
  | [], _ => rfl
  | (m, (lo, hi)) :: rest, h => by
    have hm := h (m, (lo, hi)) (by simp) (Np.cols X lo (some hi))
    have hr := validateMods_noop X rest (fun p hp => h p (by simp [hp]))
    unfold validateMods
    simp only at hm
    split <;> rename_i heq <;> rw [heq] at hm <;> simp only at hm <;> subst hm <;> simp [hr, Obj.withSt]

/-- what module `p.1` holds after validating its block `p.2` of `X` -/
def validated (X : Mat α) (p : Obj α μ × (Nat × Nat)) : Obj α μ :=
  p.1.withSt (p.1.validate_data (Np.cols X p.2.1 (some p.2.2)) p.1.st).2

/-- **order and first rejection**: if the modules before position `l₁.length` accept their blocks and the one at that
position raises `e`, the call raises `e`; the earlier modules hold what their accepting `validate_data` stored (on a
first call: their `dim_` — the call is *not* atomic across channels, finding F19), the rejecting one holds what it
had stored when it raised, the later ones have not been called -/
theorem validateMods_first_reject (X : Mat α) (e : Err) (p : Obj α μ × (Nat × Nat)) (l₂ : List (Obj α μ × (Nat × Nat))) :
    ∀ (l₁ : List (Obj α μ × (Nat × Nat))),
    (∀ q ∈ l₁, (q.1.validate_data (Np.cols X q.2.1 (some q.2.2)) q.1.st).1 = .ok ()) →
    (p.1.validate_data (Np.cols X p.2.1 (some p.2.2)) p.1.st).1 = .error e →
    validateMods X (l₁ ++ p :: l₂) = (.error e, l₁.map (validated X) ++ validated X p :: l₂.map (·.1))
  | [], _, hp => by
    obtain ⟨m, lo, hi⟩ := p
    simp only [List.nil_append, validateMods, List.map_nil, validated] at hp ⊢
    cases hv : m.validate_data (Np.cols X lo (some hi)) m.st with
    | mk r st' => rw [hv] at hp; simp only at hp; subst hp; rfl
  | (m, (lo, hi)) :: l₁, h, hp => by
    have h0 := h (m, (lo, hi)) (by simp)
    have ih := validateMods_first_reject X e p l₂ l₁ (fun q hq => h q (by simp [hq])) hp
    simp only [List.cons_append, validateMods, List.map_cons, validated] at h0 ⊢
    cases hv : m.validate_data (Np.cols X lo (some hi)) m.st with
    | mk r st' => rw [hv] at h0; simp only at h0; subst h0; simp only [ih]; rfl

/-- **all accept**: every module has validated its own block, in the order of `modules` -/
theorem validateMods_all_ok (X : Mat α) : ∀ (l : List (Obj α μ × (Nat × Nat))),
    (∀ q ∈ l, (q.1.validate_data (Np.cols X q.2.1 (some q.2.2)) q.1.st).1 = .ok ()) →
    validateMods X l = (.ok (), l.map (validated X))
  | [], _ => rfl
  | (m, (lo, hi)) :: l, h => by
    have h0 := h (m, (lo, hi)) (by simp)
    have ih := validateMods_all_ok X l (fun q hq => h q (by simp [hq]))
    simp only [validateMods, List.map_cons, validated] at h0 ⊢
    cases hv : m.validate_data (Np.cols X lo (some hi)) m.st with
    | mk r st' => rw [hv] at h0; simp only at h0; subst h0; simp only [ih]

/-- **C18 on a trained FusionART** ("at any point of a training history" after the first accepted call): when no
held estimator's `validate_data` changes its state any more, a rejected (or accepted) `FusionART.validate_data` leaves
the whole record — FusionART's attributes and every held estimator — exactly as it was -/
theorem fusion_validate_noop_warm (s : Self α μ) (X : Mat α) (hm : s.modules.length = s.n)
    (hi : s._channel_indices.length = s.n)
    (hwarm : ∀ m ∈ s.modules, ∀ Y, (m.validate_data Y m.st).2 = m.st) :
    (FusionART.validate_data X s).2 = s := by
  rw [fusion_validate_spec s X hm hi]
  obtain ⟨dim, mx, mn, n, ci, ms, ma, mb, bm⟩ := s
  simp only at hm hi hwarm
  cases dim with
  | none => rfl
  | some d =>
    by_cases hw : width X = d
    · simp only [hw, if_true]
      rw [validateMods_noop X _ (fun p hp => hwarm p.1 (List.of_mem_zip hp).1),
        List.map_fst_zip (by omega)]
    · simp [hw]

end Fusion

/-! ### SimpleARTMAP, DualVigilanceART, TopoART, BARTMAP: which held gate is called with what -/

section Compound
variable {α μ Υ : Type} [Field α] [LinearOrder α] [IsStrictOrderedRing α]

/-- **`SimpleARTMAP.validate_data`**: sklearn's `check_X_y(X, y, dtype=None)` first (a parameter; when it raises
nothing has been touched); then `module_a.validate_data` on the matrix *`check_X_y` returned*, on `module_a`'s state;
the pair `check_X_y` returned is the result.  No other attribute is written. -/
theorem simple_validate_spec (chk : Mat α → Υ → Except Err (Mat α × Υ)) (X : Mat α) (y : Υ) (s : Self α μ) :
    SimpleARTMAP.validate_data chk X y s =
      match chk X y with
      | .error e => (.error e, s)
      | .ok (X', y') =>
        (match (s.module_a.validate_data X' s.module_a.st).1 with
          | .ok _ => .ok (X', y')
          | .error e => .error e,
          { s with module_a := s.module_a.withSt (s.module_a.validate_data X' s.module_a.st).2 }) := by
  simp only [SimpleARTMAP.validate_data, bind, Py.bind, Py.lift, callObj, pure, Py.pure]
  cases chk X y with
  | error e => rfl
  | ok p =>
    obtain ⟨X', y'⟩ := p
    simp only
    cases (s.module_a.validate_data X' s.module_a.st).1 <;> rfl

/-- **`DualVigilanceART.check_dimensions`** = `base_module.check_dimensions(X)` -/
theorem dual_check_spec (s : Self α μ) (X : Mat α) :
    DualVigilanceART.check_dimensions X s =
      ((s.base_module.check_dimensions X s.base_module.st).1,
        { s with base_module := s.base_module.withSt (s.base_module.check_dimensions X s.base_module.st).2 }) := rfl

/-- **`DualVigilanceART.validate_data`** = `base_module.validate_data(X)`, then (when that returned)
`base_module.check_dimensions(X)` on the state the first call left -/
theorem dual_validate_spec (s : Self α μ) (X : Mat α) :
    DualVigilanceART.validate_data X s =
      match (s.base_module.validate_data X s.base_module.st).1 with
      | .error e =>
        (.error e, { s with base_module := s.base_module.withSt (s.base_module.validate_data X s.base_module.st).2 })
      | .ok _ =>
        ((s.base_module.check_dimensions X (s.base_module.validate_data X s.base_module.st).2).1,
          { s with
            base_module := s.base_module.withSt
              (s.base_module.check_dimensions X (s.base_module.validate_data X s.base_module.st).2).2 }) := by
  simp only [DualVigilanceART.validate_data, DualVigilanceART.check_dimensions, bind, Py.bind, callObj]
  cases (s.base_module.validate_data X s.base_module.st).1 <;> rfl

/-- **`TopoART.validate_data`** = `base_module.validate_data(X)` and nothing else: TopoART's own `dim_` is neither
read nor written by it -/
theorem topo_validate_spec (s : Self α μ) (X : Mat α) :
    TopoART.validate_data X s =
      ((s.base_module.validate_data X s.base_module.st).1,
        { s with base_module := s.base_module.withSt (s.base_module.validate_data X s.base_module.st).2 }) := rfl

/-- **`BARTMAP.validate_data`** = `module_a.validate_data(X_a)`, then (when that returned)
`module_b.validate_data(X_b)`: when `module_a` raises, `module_b` has not been called -/
theorem bartmap_validate_spec (s : Self α μ) (X_a X_b : Mat α) :
    BARTMAP.validate_data X_a X_b s =
      match (s.module_a.validate_data X_a s.module_a.st).1 with
      | .error e =>
        (.error e, { s with module_a := s.module_a.withSt (s.module_a.validate_data X_a s.module_a.st).2 })
      | .ok _ =>
        ((s.module_b.validate_data X_b s.module_b.st).1,
          { s with module_a := s.module_a.withSt (s.module_a.validate_data X_a s.module_a.st).2,
                   module_b := s.module_b.withSt (s.module_b.validate_data X_b s.module_b.st).2 }) := by
  simp only [BARTMAP.validate_data, bind, Py.bind, callObj]
  cases (s.module_a.validate_data X_a s.module_a.st).1 <;> rfl

/-! #### atomicity of the compound gates, given the held estimators' contract -/

/-- the contract of a held estimator: when its `validate_data` raises it has left its state as it was (what
`gen_validate_bayes_atomic`, `baseObj_clean`, PrepSpec's `gen_validate_*_atomic` prove of the elementary classes) -/
def CleanV (o : Obj α μ) : Prop := ∀ Y st, (o.validate_data Y st).1 ≠ .ok () → (o.validate_data Y st).2 = st

/-- `check_dimensions` has nothing to add on the state an accepting `validate_data(Y)` left (the elementary classes
call `check_dimensions` last in `validate_data`: the width is then the remembered one) -/
def CheckRedundant (o : Obj α μ) : Prop := ∀ Y st, (o.validate_data Y st).1 = .ok () →
  o.check_dimensions Y (o.validate_data Y st).2 = (.ok (), (o.validate_data Y st).2)

/-- **TopoART**: a rejected `validate_data` leaves the whole record as it was -/
theorem topo_validate_atomic (s : Self α μ) (X : Mat α) (hc : CleanV s.base_module)
    (hrej : (TopoART.validate_data X s).1 ≠ .ok ()) : (TopoART.validate_data X s).2 = s := by
  rw [topo_validate_spec] at hrej ⊢
  simp only [hc X s.base_module.st hrej]
  rfl

/-- **DualVigilanceART**: for a held estimator of an elementary class the trailing `check_dimensions` is redundant —
`validate_data` is `base_module.validate_data(X)`, as for TopoART -/
theorem dual_validate_eq_topo (s : Self α μ) (X : Mat α) (hr : CheckRedundant s.base_module) :
    DualVigilanceART.validate_data X s = TopoART.validate_data X s := by
  rw [dual_validate_spec, topo_validate_spec]
  cases hv : (s.base_module.validate_data X s.base_module.st).1 with
  | error e => rfl
  | ok u =>
    cases u
    simp only [hr X s.base_module.st hv]

/-- **DualVigilanceART**: a rejected `validate_data` leaves the whole record as it was -/
theorem dual_validate_atomic (s : Self α μ) (X : Mat α) (hc : CleanV s.base_module)
    (hr : CheckRedundant s.base_module) (hrej : (DualVigilanceART.validate_data X s).1 ≠ .ok ()) :
    (DualVigilanceART.validate_data X s).2 = s := by
  rw [dual_validate_eq_topo s X hr] at hrej ⊢
  exact topo_validate_atomic s X hc hrej

/-- **SimpleARTMAP**: when `validate_data` raises — in `check_X_y` or in `module_a` — the whole record is as it was -/
theorem simple_validate_atomic (chk : Mat α → Υ → Except Err (Mat α × Υ)) (X : Mat α) (y : Υ) (s : Self α μ)
    (hc : CleanV s.module_a) (hrej : ∀ r, (SimpleARTMAP.validate_data chk X y s).1 ≠ .ok r) :
    (SimpleARTMAP.validate_data chk X y s).2 = s := by
  rw [simple_validate_spec] at hrej ⊢
  cases hk : chk X y with
  | error e => rfl
  | ok p =>
    obtain ⟨X', y'⟩ := p
    simp only [hk] at hrej ⊢
    have : (s.module_a.validate_data X' s.module_a.st).1 ≠ .ok () := by
      intro h
      exact hrej (X', y') (by rw [h])
    rw [hc X' s.module_a.st this]
    rfl

/-- **BARTMAP**, `module_a` rejects: `module_b` is not called and the whole record is as it was -/
theorem bartmap_reject_a_noop (s : Self α μ) (X_a X_b : Mat α) (hc : CleanV s.module_a)
    (hrej : (s.module_a.validate_data X_a s.module_a.st).1 ≠ .ok ()) :
    (BARTMAP.validate_data X_a X_b s).2 = s ∧
    (BARTMAP.validate_data X_a X_b s).1 = (s.module_a.validate_data X_a s.module_a.st).1 := by
  rw [bartmap_validate_spec]
  cases hv : (s.module_a.validate_data X_a s.module_a.st).1 with
  | ok u => cases u; exact absurd hv hrej
  | error e =>
    have := hc X_a s.module_a.st hrej
    simp only [this]
    refine ⟨?_, ?_⟩ <;> first | rfl | trivial

/-- **BARTMAP**, `module_a` accepts and `module_b` rejects: `module_b` is as it was, but `module_a` keeps what its
accepting `validate_data` stored (on a first call: its `dim_`).  The call is atomic only up to that store — the same
pattern as FusionART's channels (finding F19). -/
theorem bartmap_reject_b (s : Self α μ) (X_a X_b : Mat α) (hc : CleanV s.module_b)
    (ha : (s.module_a.validate_data X_a s.module_a.st).1 = .ok ())
    (hrej : (s.module_b.validate_data X_b s.module_b.st).1 ≠ .ok ()) :
    BARTMAP.validate_data X_a X_b s =
      ((s.module_b.validate_data X_b s.module_b.st).1,
        { s with module_a := s.module_a.withSt (s.module_a.validate_data X_a s.module_a.st).2 }) := by
  rw [bartmap_validate_spec]
  simp only [ha, hc X_b s.module_b.st hrej]
  rfl

/-! #### the held estimator is an elementary one: C18 for the compound entry points -/

/-- a held estimator of no interest -/
def unitObj : Obj α Unit := ⟨(), fun _ => Py.pure (), fun _ => Py.pure ()⟩

/-- an attribute record with nothing in it but `dim_` -/
def elemSt (dim? : Option Nat) : Self α Unit := ⟨dim?, none, none, 0, [], [], unitObj, unitObj, unitObj⟩

/-- an elementary estimator held by a compound one: its state, and BaseART's two gates *as generated* (the gates of
FuzzyART / ART1 / ART2A in PrepSpec and of BayesianART above satisfy the same two contracts) -/
def baseObj (st : Self α Unit) : Obj α (Self α Unit) := ⟨st, BaseART.validate_data, BaseART.check_dimensions⟩

theorem baseObj_clean (st : Self α Unit) : CleanV (baseObj st) := by
  intro Y st' h
  have := ranAs_atomic _ (C18.validate_pure_on_reject validBase) (BaseART.validate_data Y) st' Y
    (validate_base_spec st' Y) h
  simp only [baseObj] at h ⊢
  rw [this]

theorem baseObj_check_redundant (st : Self α Unit) : CheckRedundant (baseObj st) := by
  intro Y st' h
  simp only [baseObj] at h ⊢
  rw [validate_base_spec] at h ⊢
  rw [check_dimensions_base_spec]
  obtain ⟨dim, mx, mn, n, ci, ms, ma, mb, bm⟩ := st'
  simp only [ranAs, runValidate, okIf] at h ⊢
  cases dim with
  | none =>
    by_cases hv : validBase none Y = true
    · simp [hv, widthOk]
    · simp [hv] at h
  | some d =>
    by_cases hv : validBase (some d) Y = true
    · have hw : widthOk (some d) Y = true := by
        simp only [validBase, Bool.and_eq_true] at hv
        exact hv.2
      simp [hv, hw]
    · simp [hv] at h

/-- **C18 for DualVigilanceART and TopoART around an elementary module** (transport of `C18.reject_is_noop` through
two layers of generated code): `validate_data(X)` followed by *any* body — `fit`, `partial_fit`, `predict` — with a
matrix that has an entry outside [0,1] or a width other than the one the held module remembers raises
`AssertionError`; the body never runs; the wrapper's attributes *and the held module's* are those the call was given -/
theorem gen_entry_rejects_wrapped_base {ρ : Type} (body : Py (Self α (Self α Unit)) ρ) (s : Self α (Self α Unit))
    (st : Self α Unit) (hs : s.base_module = baseObj st) (X : Mat α)
    (hbad : (∃ r ∈ X, ∃ v ∈ r, v < 0 ∨ 1 < v) ∨ (∃ d, st.dim_ = some d ∧ width X ≠ d)) :
    (do DualVigilanceART.validate_data X; body) s = (.error .assertion, s) ∧
    (do TopoART.validate_data X; body) s = (.error .assertion, s) := by
  have hm := C18.malformed_is_rejected st.dim_ X
  have hrej : validBase st.dim_ X = false := by
    rcases hbad with h | h
    · exact (hm.1 h).1
    · exact (hm.2.1 h).1
  have hb : BaseART.validate_data X st = (.error .assertion, st) := by
    refine ranAs_atomic _ (C18.validate_pure_on_reject validBase) _ st X (validate_base_spec st X) ?_
    rw [validate_base_spec]; simp [ranAs, runValidate, hrej, okIf]
  obtain ⟨dim, mx, mn, n, ci, ms, ma, mb, bm⟩ := s
  simp only at hs
  subst hs
  have ht : TopoART.validate_data X ⟨dim, mx, mn, n, ci, ms, ma, mb, baseObj st⟩ =
      (.error .assertion, ⟨dim, mx, mn, n, ci, ms, ma, mb, baseObj st⟩) := by
    rw [topo_validate_spec]
    simp only [baseObj, hb, Obj.withSt]
  have hd : DualVigilanceART.validate_data X ⟨dim, mx, mn, n, ci, ms, ma, mb, baseObj st⟩ =
      (.error .assertion, ⟨dim, mx, mn, n, ci, ms, ma, mb, baseObj st⟩) := by
    rw [dual_validate_eq_topo _ X (baseObj_check_redundant st)]; exact ht
  exact ⟨by simp only [bind, Py.bind, hd], by simp only [bind, Py.bind, ht]⟩

/-- a BayesianART held by a compound estimator (its gates as generated) honours the contract `CleanV` too -/
theorem bayesObj_clean (cov : Mat α) (st : Self α Unit) :
    CleanV (⟨st, BayesianART.validate_data cov, BayesianART.check_dimensions cov⟩ : Obj α (Self α Unit)) := by
  intro Y st' h
  simp only at h ⊢
  rw [gen_validate_bayes_atomic cov st' Y h]

/-- **C18 for SimpleARTMAP around an elementary module**: `validate_data(X, y)` followed by any body that uses the
validated pair; when the matrix `check_X_y` returns is out of range or of the wrong width, `AssertionError` is raised,
the body never runs, and SimpleARTMAP's attributes and `module_a`'s are those the call was given -/
theorem gen_entry_rejects_simple_base {ρ : Type} (chk : Mat α → Υ → Except Err (Mat α × Υ))
    (body : Mat α × Υ → Py (Self α (Self α Unit)) ρ) (s : Self α (Self α Unit)) (st : Self α Unit)
    (hs : s.module_a = baseObj st) (X X' : Mat α) (y y' : Υ) (hk : chk X y = .ok (X', y'))
    (hbad : (∃ r ∈ X', ∃ v ∈ r, v < 0 ∨ 1 < v) ∨ (∃ d, st.dim_ = some d ∧ width X' ≠ d)) :
    (do let r ← SimpleARTMAP.validate_data chk X y; body r) s = (.error .assertion, s) := by
  have hm := C18.malformed_is_rejected st.dim_ X'
  have hrej : validBase st.dim_ X' = false := by
    rcases hbad with h | h
    · exact (hm.1 h).1
    · exact (hm.2.1 h).1
  have hb : BaseART.validate_data X' st = (.error .assertion, st) := by
    refine ranAs_atomic _ (C18.validate_pure_on_reject validBase) _ st X' (validate_base_spec st X') ?_
    rw [validate_base_spec]; simp [ranAs, runValidate, hrej, okIf]
  obtain ⟨dim, mx, mn, n, ci, ms, ma, mb, bm⟩ := s
  simp only at hs
  subst hs
  simp only [bind, Py.bind, simple_validate_spec, hk, baseObj, hb, Obj.withSt]

/-- **C18 for a trained FusionART**: `validate_data(X)` followed by any body; once the held estimators' gates store
nothing any more, a rejected call — wrong total width, or any channel rejected by its module — raises, the body never
runs, and the whole record (FusionART's attributes and every held estimator) is the one the call was given -/
theorem gen_entry_rejects_fusion_warm {ρ : Type} (body : Py (Self α μ) ρ) (s : Self α μ) (X : Mat α)
    (hm : s.modules.length = s.n) (hi : s._channel_indices.length = s.n)
    (hwarm : ∀ m ∈ s.modules, ∀ Y, (m.validate_data Y m.st).2 = m.st) (e : Err)
    (hrej : (FusionART.validate_data X s).1 = .error e) :
    (do FusionART.validate_data X; body) s = (.error e, s) := by
  have h2 := fusion_validate_noop_warm s X hm hi hwarm
  cases hr : FusionART.validate_data X s with
  | mk r s' =>
    rw [hr] at hrej h2
    simp only at hrej h2
    subst hrej h2
    simp only [bind, Py.bind, hr]

end Compound

/-! ### non-vacuity: the generated code runs -/

section Examples

/-- BayesianART, fresh estimator: `cov_init` 2×2 and data of width 2 are accepted and `dim_ = 2` is recorded; data of
width 3 is rejected and `dim_` is still absent (the assertions precede the store) -/
example :
    let a := BayesianART.validate_data (μ := Unit) [[1, 0], [0, 1]] [[1/2, 1]] (elemSt (α := Rat) none)
    let b := BayesianART.validate_data (μ := Unit) [[1, 0], [0, 1]] [[1/2, 1, 0]] (elemSt (α := Rat) none)
    (a.1, a.2.dim_) = (.ok (), some 2) ∧ (b.1, b.2.dim_) = (.error .assertion, none) := by
  decide +kernel

/-- later calls compare with the remembered `dim_ = 2`, whatever `cov_init` is by now (here 3×3) -/
example :
    let a := BayesianART.validate_data (μ := Unit) [[1, 0, 0], [0, 1, 0], [0, 0, 1]] [[1/2, 1]] (elemSt (α := Rat) (some 2))
    let b := BayesianART.validate_data (μ := Unit) [[1, 0, 0], [0, 1, 0], [0, 0, 1]] [[1/2, 1, 0]] (elemSt (α := Rat) (some 2))
    (a.1, a.2.dim_) = (.ok (), some 2) ∧ (b.1, b.2.dim_) = (.error .assertion, some 2) := by
  decide +kernel

/-- a fresh FusionART over two BaseART modules, channels `[0,1)` and `[1,2)` -/
def fus₀ (d0 d1 : Option Nat) : Self Rat (Self Rat Unit) :=
  ⟨some 2, none, none, 2, [(0, 1), (1, 2)], [baseObj (elemSt d0), baseObj (elemSt d1)],
    baseObj (elemSt none), baseObj (elemSt none), baseObj (elemSt none)⟩

/-- accepted: both modules record the width of their own block -/
example :
    let r := FusionART.validate_data [[1/2, 1]] (fus₀ none none)
    (r.1, r.2.modules.map (·.st.dim_), r.2.dim_) = (.ok (), [some 1, some 1], some 2) := by
  decide +kernel

/-- **finding F19, executed on the generated code**: the second channel is out of range; the call raises, but the
first module has already recorded `dim_ = 1` -/
example :
    let r := FusionART.validate_data [[1/2, 3/2]] (fus₀ none none)
    (r.1, r.2.modules.map (·.st.dim_), r.2.dim_) = (.error .assertion, [some 1, none], some 2) := by
  decide +kernel

/-- the same call on a trained FusionART leaves everything as it was; a wrong total width touches no module -/
example :
    let r := FusionART.validate_data [[1/2, 3/2]] (fus₀ (some 1) (some 1))
    let q := FusionART.validate_data [[1/2, 1, 0]] (fus₀ none none)
    (r.1, r.2.modules.map (·.st.dim_)) = (.error .assertion, [some 1, some 1]) ∧
    (q.1, q.2.modules.map (·.st.dim_)) = (.error .assertion, [none, none]) := by
  decide +kernel

/-- an inconsistent record (`n = 3`, two modules): `IndexError` after the two modules ran -/
example :
    let r := FusionART.validate_data [[1/2, 1]] { fus₀ none none with n := 3 }
    (r.1, r.2.modules.map (·.st.dim_)) = (.error .index, [some 1, some 1]) := by
  decide +kernel

/-- SimpleARTMAP: `module_a` validates what `check_X_y` returned (here: the matrix without its last row);
BARTMAP: `module_a` accepted and stored, `module_b` rejected; DualVigilanceART / TopoART reject through the held module -/
example :
    let s := fus₀ none none
    let a := SimpleARTMAP.validate_data (Υ := List Nat) (fun X y => .ok (X.dropLast, y)) [[1/2, 1], [7, 7]] [0, 1] s
    let b := BARTMAP.validate_data [[1/2, 1]] [[2]] s
    let c := DualVigilanceART.validate_data [[1/2, 3]] s
    let d := TopoART.validate_data [[1/2, 1, 1]] s
    (a.1, a.2.module_a.st.dim_, a.2.module_b.st.dim_) = (.ok ([[1/2, 1]], [0, 1]), some 2, none) ∧
    (b.1, b.2.module_a.st.dim_, b.2.module_b.st.dim_) = (.error .assertion, some 2, none) ∧
    (c.1, c.2.base_module.st.dim_) = (.error .assertion, none) ∧
    (d.1, d.2.base_module.st.dim_, d.2.dim_) = (.ok (), some 3, some 2) := by
  decide +kernel

end Examples

end Art.GenSpec.Guards
