/-
ArtGenProofs.GateSpec — the validity-index gates of `iCVIFuzzyART` and `CVIART` and the training loops around them, as
translated from the Python source by `harness/artv/gtrans.py` (ArtGen/Gate.lean), compute the definitions of
`ArtModel/ICVI.lean` that the C15 property theorems are stated about — for every dimension, state, sample, kernel, reset
function, match-tracking mode and epsilon, no bounds.

The generated code calls two other generated files: `Art.Gen.ICVI.*` (the `iCVI_CH` object, tied to the model by
ICVISpec through the encoding `RepState` / `RepCand`) and `Art.Gen.BaseART.step_fit` (tied to the model's `stepFit` by
`ControlSpec.step_fit_refines` under the kernel contract).  This file composes those ties:

  iCVI_match_defined / iCVI_match_spec     the generated gate = `icviMatch` (a raise of `switch_label` = veto, as in the model;
                                           `iCVI_match_returns_online/offline`: it does not raise where training calls it)
  icvi_lambda_none_spec / _user_spec       the reset functions `fit` builds = the complement of `gateVeto user (icviMatch …)`
  step_fit_labels / step_fit_empty         the generated `step_fit` leaves `labels_` alone and answers 0 on an empty module
  icvi_step_unfold / icvi_step_spec        one generated training step: `step_fit` with the gate, commit `update st cand`, write the label
  icvi_loop, icvi_adds0, fit_unfold        the sample loop follows `offlineLoop` / the `trackOnline` fold on the labels it produces
  fit_online_spec / fit_offline_spec       the generated `fit` does not raise; its object represents `trackOnline` / `trackOffline`
  gen_fit_tracks_online / _offline         C15: after the generated fit, criterion_value = chBatch (X, labels_)
  gen_icvi_gate / _online / _offline       C15 `icvi_gate…`: the generated step joins an existing cluster only if the index strictly improves
  accessors_spec, CVI_match_few / _invalid / _raises / _spec     `CVIART.CVI_match` = `cviMatch` (sklearn scores abstract, Option-valued)
  cvi_lambda_none_spec / _user_spec, cvi_step_spec, gen_cvi_gate  C15 `cvi_gate` for the generated `CVIART.fit` step
  cvi_fit_labels_length                    `CVIART.fit`: labels_ has one entry per sample when the method returns (F35: it may raise)
-/
import Mathlib.Algebra.Order.Field.Rat
import Mathlib.Tactic.NormNum
import ArtGen.Gate
import ArtGenProofs.ICVISpec
import ArtGenProofs.ControlSpec
import ArtProps.C15

set_option linter.unusedSectionVars false
set_option linter.unusedVariables false
set_option linter.unusedSimpArgs false

namespace Art.GenSpec.Gate
open Art Art.ICVI Art.Imp Art.ImpGate Art.GenSpec.ICVI

/-! ### callbacks -/

/-- `a & b` inside a callback: both operands are evaluated, a raise of the gate counts as `False` -/
theorem callback_and (a : Bool) (m : Option Bool) :
    callback (do pure (a && (← m))) = (a && callback m) := by
  cases m <;> simp [callback]

/-- `a and b` inside a callback: the gate is evaluated only when the user function agrees -/
theorem callback_andalso (a : Bool) (m : Option Bool) :
    callback (do pure (← (if a then (do pure (← m)) else (do pure false)))) = (a && callback m) := by
  cases a <;> cases m <;> simp [callback]

theorem callback_bind_pure (m : Option Bool) : callback (do pure (← m)) = callback m := by
  cases m <;> simp [callback]

/-! ### `iCVIFuzzyART.iCVI_match` -/

section ICVIMatch
variable {Wt P C α : Type} [Field α] [LinearOrder α] [IsStrictOrderedRing α] [Inhabited Wt] [Inhabited C]

open Gen.Gate.iCVIFuzzyART in
/-- the generated gate returns exactly when the model's candidate exists, with the strict comparison of the
candidate criterion and the tracked one -/
theorem iCVI_match_defined {self : Gen.Gate.iCVIFuzzyART.Self Wt P α} {st : State α} (h : RepState self.iCVI st)
    (x : List α) (w : Wt) (c : Nat) (params : P) (cache : C) (cur : Nat)
    (hcur : self.offline = true → self.base.labels[self.index]? = some cur) :
    iCVI_match self x w c params cache =
      (if self.offline then switchLabel st x cur c else some (addSample st x c)).map
        (fun p => decide (st.crit < p.crit)) := by
  unfold iCVI_match
  cases hoff : self.offline with
  | false =>
    obtain ⟨p, hp, hc⟩ := add_sample_spec h x c
    have hcrit := hc.2.2.2.2.2.1
    simp [hp, hcrit, h.crit]
  | true =>
    have hl := hcur hoff
    cases hm : switchLabel st x cur c with
    | none =>
      have := switch_label_none h x cur c hm
      simp [hl, this]
    | some cand =>
      obtain ⟨p, hp, hc⟩ := switch_label_spec h x cur c cand hm
      have hcrit := hc.2.2.2.2.2.1
      simp [hl, hp, hcrit, h.crit]

open Gen.Gate.iCVIFuzzyART in
/-- **`iCVI_match` = the model's `icviMatch`** (as a callback: a raise of `switch_label` is the answer `False`, as in
the model), on every represented state, sample, category and mode. -/
theorem iCVI_match_spec {self : Gen.Gate.iCVIFuzzyART.Self Wt P α} {st : State α} (h : RepState self.iCVI st)
    (x : List α) (w : Wt) (c : Nat) (params : P) (cache : C) (cur : Nat)
    (hcur : self.offline = true → self.base.labels[self.index]? = some cur) :
    callback (iCVI_match self x w c params cache) = icviMatch self.offline st x cur c := by
  rw [iCVI_match_defined h x w c params cache cur hcur]
  unfold icviMatch
  cases (if self.offline then switchLabel st x cur c else some (addSample st x c)) <;> simp [callback]

end ICVIMatch

/-! ### the reset functions `iCVIFuzzyART.fit` hands to `step_fit` -/

section ICVILambda
variable {Wt P C α : Type} [Field α] [LinearOrder α] [IsStrictOrderedRing α] [Inhabited Wt] [Inhabited C]

open Gen.Gate.iCVIFuzzyART in
/-- `match_reset_func is None`: the bound method `self.iCVI_match`, as `step_fit` sees it, is the complement of the
model's veto `gateVeto (fun _ => true) (icviMatch …)` -/
theorem icvi_lambda_none_spec {self : Gen.Gate.iCVIFuzzyART.Self Wt P α} {st : State α} (h : RepState self.iCVI st)
    (cur : Nat) (hcur : self.offline = true → self.base.labels[self.index]? = some cur)
    (x : List α) (w : Wt) (c : Nat) (params : P) (cache : C) :
    (fun (a1 : List α) (a2 : Wt) (a3 : Nat) (a4 : P) (a5 : C) =>
        callback (do pure (← iCVI_match self a1 a2 a3 a4 a5))) x w c params cache
      = !(gateVeto (fun _ => true) (icviMatch self.offline st x cur) c) := by
  simp only [callback_bind_pure, iCVI_match_spec h x w c params cache cur hcur, gateVeto, Bool.true_and, Bool.not_not]

open Gen.Gate.iCVIFuzzyART in
/-- a user reset function: the lambda `match_reset_func(…) & self.iCVI_match(…)` is the complement of
`gateVeto user (icviMatch …)` -/
theorem icvi_lambda_user_spec {self : Gen.Gate.iCVIFuzzyART.Self Wt P α} {st : State α} (h : RepState self.iCVI st)
    (cur : Nat) (hcur : self.offline = true → self.base.labels[self.index]? = some cur)
    (user : List α → Wt → Nat → P → C → Bool) (x : List α) (w : Wt) (c : Nat) (params : P) (cache : C) :
    (fun (x : List α) (w : Wt) (c_ : Nat) (params : P) (cache : C) =>
        callback (do pure ((user x w c_ params cache) && (← iCVI_match self x w c_ params cache)))) x w c params cache
      = !(gateVeto (fun c' => user x w c' params cache) (icviMatch self.offline st x cur) c) := by
  simp only [callback_and, iCVI_match_spec h x w c params cache cur hcur, gateVeto, Bool.not_not]

end ICVILambda

/-! ### facts about the generated `BaseART.step_fit` that need no kernel contract -/

section StepFit
variable {X Wt P C α : Type} [LT α] [DecidableRel (α := α) (· < ·)] [Inhabited Wt] [Inhabited C]

theorem whileFuel_ret {R S : Type} (Q : R → Prop) (cond : S → Bool) (body : S → Flow R S)
    (hb : ∀ s r, body s = .ret r → Q r) : ∀ (fuel : Nat) (s : S) (r : R), whileFuel cond body fuel s = .ret r → Q r := by
  intro fuel
  induction fuel with
  | zero => intro s r h; simp [whileFuel] at h
  | succ n ih =>
    intro s r h
    unfold whileFuel at h
    split at h
    · cases hbs : body s with
      | ret r' => rw [hbs] at h; simp only [Flow.ret.injEq] at h; subst h; exact hb s r' hbs
      | next s' => rw [hbs] at h; exact ih s' r h
    · simp at h

theorem ite_ret {R S : Type} {c : Prop} [Decidable c] {a r : R} {b : S}
    (h : (if c then Flow.ret a else Flow.next b) = Flow.ret r) : a = r := by
  split at h <;> simp_all

theorem body_ret_labels (E : Ext X Wt P C α) (n : Nat) (lab : List Nat) (hw : Bool) (x : X) (mt : MT) (eps : α) (p0 : P)
    (op : Bool) (Tc : List C) (b : Bool) (f : X → Wt → Nat → P → C → Bool) (s) (r)
    (hs : Gen.BaseART.step_fit_loop1_body E n lab hw x mt eps p0 op Tc b f s = .ret r) : r.1.labels = lab := by
  obtain ⟨a, b', c, d⟩ := s
  simp only [Gen.BaseART.step_fit_loop1_body] at hs
  have := ite_ret hs
  subst this
  rfl

/-- `step_fit` does not touch `labels_` (the caller writes the returned label) -/
theorem step_fit_labels (E : Ext X Wt P C α) (fuel : Nat) (self : Imp.Self Wt P) (x : X) (b : Bool)
    (f : X → Wt → Nat → P → C → Bool) (mt : MT) (eps : α) :
    (Gen.BaseART.step_fit E fuel self x b f mt eps).1.labels = self.labels := by
  unfold Gen.BaseART.step_fit
  dsimp only
  split
  · rfl
  · repeat' split
    all_goals first
      | rfl
      | exact whileFuel_ret (fun r : Imp.Self Wt P × Nat => r.1.labels = self.labels) _ _
          (body_ret_labels E _ _ _ _ _ _ _ _ _ _ _) _ _ _ (by assumption)

/-- on a module without categories `step_fit` returns label 0 (and never calls the reset function) -/
theorem step_fit_empty (E : Ext X Wt P C α) (fuel : Nat) (self : Imp.Self Wt P) (x : X) (b : Bool)
    (f : X → Wt → Nat → P → C → Bool) (mt : MT) (eps : α) (h : self.W = []) :
    (Gen.BaseART.step_fit E fuel self x b f mt eps).2 = 0 := by
  simp [Gen.BaseART.step_fit, h]

end StepFit

/-! ### one training step of `iCVIFuzzyART.fit` (the body of its sample loop) -/

section ICVIStep
variable {Wt P C α : Type} [Field α] [LinearOrder α] [IsStrictOrderedRing α] [Inhabited Wt] [Inhabited C]

open Gen.Gate.iCVIFuzzyART

/-- the reset function the generated step hands to `step_fit` (the text of the two lambdas of ArtGen/Gate.lean) -/
def icviReset (self : Gen.Gate.iCVIFuzzyART.Self Wt P α) (is_none : Bool) (user : List α → Wt → Nat → P → C → Bool) :
    List α → Wt → Nat → P → C → Bool :=
  if is_none then
    (fun (a1 : List α) (a2 : Wt) (a3 : Nat) (a4 : P) (a5 : C) => callback (do pure (← iCVI_match self a1 a2 a3 a4 a5)))
  else
    (fun (x : List α) (w : Wt) (c_ : Nat) (params : P) (cache : C) =>
      callback (do pure ((user x w c_ params cache) && (← iCVI_match self x w c_ params cache))))

/-- the call of the generated `BaseART.step_fit` inside the generated step -/
def icviStepFit (E : Ext (List α) Wt P C α) (self : Gen.Gate.iCVIFuzzyART.Self Wt P α) (is_none : Bool)
    (user : List α → Wt → Nat → P → C → Bool) (x : List α) (i : Nat) (mt : MT) (eps : α) : Imp.Self Wt P × Nat :=
  Gen.BaseART.step_fit E self.base.W.length self.base x false (icviReset { self with index := i } is_none user) mt eps

/-- the generated loop body, read off: set `index`, run `step_fit` with the gate, commit the candidate, write the label -/
theorem icvi_step_unfold (E : Ext (List α) Wt P C α) (X : List (List α)) (is_none : Bool)
    (user : List α → Wt → Nat → P → C → Bool) (max_iter : Nat) (mt : MT) (eps : α)
    (self : Gen.Gate.iCVIFuzzyART.Self Wt P α) (x : List α) (i : Nat) :
    fit_loop2_body E X is_none user max_iter mt eps self (x, i) =
      (let r := icviStepFit E self is_none user x i mt eps
       do
        let params ← if self.offline then (do
            Gen.ICVI.switch_label self.iCVI x (← r.1.labels[i]?) r.2)
          else Gen.ICVI.add_sample self.iCVI x r.2
        let icvi ← Gen.ICVI.update self.iCVI params
        let labels ← npSet r.1.labels i r.2
        pure { self with index := i, base := { r.1 with labels := labels }, iCVI := icvi }) := by
  cases is_none <;> cases hoff : self.offline <;>
    simp [fit_loop2_body, icviStepFit, icviReset, hoff]

/-- **one generated training step**, against the model: with `c` the label the generated `step_fit` returned and `cur` the
sample's current label, the step raises exactly when the model's candidate (`switchLabel` offline, `addSample` online) is
`none`; otherwise it commits that candidate with the generated `update` (the new object represents `update st cand`),
writes `labels_[i] = c`, and leaves everything else to `step_fit`. -/
theorem icvi_step_spec (E : Ext (List α) Wt P C α) (X : List (List α)) (is_none : Bool)
    (user : List α → Wt → Nat → P → C → Bool) (max_iter : Nat) (mt : MT) (eps : α)
    (self : Gen.Gate.iCVIFuzzyART.Self Wt P α) {st : State α} (hrep : RepState self.iCVI st) (x : List α) (i cur : Nat)
    (hlab : self.base.labels[i]? = some cur) :
    match (if self.offline then switchLabel st x cur (icviStepFit E self is_none user x i mt eps).2
           else some (addSample st x (icviStepFit E self is_none user x i mt eps).2)) with
    | some cand => ∃ self', fit_loop2_body E X is_none user max_iter mt eps self (x, i) = some self' ∧
        self'.base = { (icviStepFit E self is_none user x i mt eps).1 with
          labels := self.base.labels.set i (icviStepFit E self is_none user x i mt eps).2 } ∧
        RepState self'.iCVI (update st cand) ∧ self'.offline = self.offline ∧ self'.index = i ∧
        self'.is_fitted_ = self.is_fitted_
    | none => fit_loop2_body E X is_none user max_iter mt eps self (x, i) = none := by
  rw [icvi_step_unfold]
  have hl : (icviStepFit E self is_none user x i mt eps).1.labels = self.base.labels := step_fit_labels ..
  have hi : i < self.base.labels.length := (List.getElem?_eq_some_iff.mp hlab).1
  generalize icviStepFit E self is_none user x i mt eps = r at hl ⊢
  cases hoff : self.offline with
  | false =>
    obtain ⟨p, hp, hc⟩ := add_sample_spec hrep x r.2
    obtain ⟨s', hs', hr'⟩ := update_spec hrep hc
    simp only [Bool.false_eq_true, if_false]
    exact ⟨{ self with index := i, base := { r.1 with labels := self.base.labels.set i r.2 }, iCVI := s' },
      by simp [hp, hs', npSet, hl, hi, hoff], rfl, hr', hoff, rfl, rfl⟩
  | true =>
    simp only [if_true]
    cases hm : switchLabel st x cur r.2 with
    | none =>
      have := switch_label_none hrep x cur r.2 hm
      simp [hl, hlab, this]
    | some cand =>
      obtain ⟨p, hp, hc⟩ := switch_label_spec hrep x cur r.2 cand hm
      obtain ⟨s', hs', hr'⟩ := update_spec hrep hc
      have hg : self.base.labels[i] = cur := (List.getElem?_eq_some_iff.mp hlab).2
      exact ⟨{ self with index := i, base := { r.1 with labels := self.base.labels.set i r.2 }, iCVI := s' },
        by simp [hl, hg, hp, hs', npSet, hi, hoff], rfl, hr', hoff, rfl, rfl⟩

end ICVIStep

/-! ### `iCVIFuzzyART.fit`: the sample loop and the whole method -/

section ICVIFit
variable {Wt P C α : Type} [Field α] [LinearOrder α] [IsStrictOrderedRing α] [Inhabited Wt] [Inhabited C]

open Gen.Gate.iCVIFuzzyART

/-- what the sample loop does to the model's object, for the labels `step_fit` returned: `offlineLoop` (switch every
sample from 0 to its label) or the fold of `trackOnline` -/
def modelLoop (offline : Bool) (st : State α) (L : List (List α × Nat)) : Option (State α) :=
  if offline then offlineLoop st L else some (L.foldl (fun st p => update st (addSample st p.1 p.2)) st)

theorem modelLoop_nil (offline : Bool) (st : State α) : modelLoop offline st [] = some st := by
  cases offline <;> rfl

theorem modelLoop_cons (offline : Bool) (st : State α) (x : List α) (c : Nat) (r : List (List α × Nat)) :
    modelLoop offline st ((x, c) :: r) =
      (if offline then switchLabel st x 0 c else some (addSample st x c)).bind
        (fun p => modelLoop offline (update st p) r) := by
  cases offline <;> simp [modelLoop, offlineLoop]

/-- **the generated sample loop** follows the model's loop on the labels it produces: it raises exactly when the model
says a `switch_label` call raises, and otherwise ends with `labels_` = those labels and an object that represents the
model's state.  No hypothesis on the kernel: whatever `step_fit` returns. -/
theorem icvi_loop (E : Ext (List α) Wt P C α) (X : List (List α)) (is_none : Bool)
    (user : List α → Wt → Nat → P → C → Bool) (max_iter : Nat) (mt : MT) (eps : α) :
    ∀ (Xs : List (List α)) (k : Nat) (done : List Nat) (self : Gen.Gate.iCVIFuzzyART.Self Wt P α) (st : State α),
      RepState self.iCVI st → self.base.labels = done ++ List.replicate Xs.length 0 → done.length = k →
      ∃ cs : List Nat, cs.length = Xs.length ∧ (self.base.W = [] → ∀ c, cs.head? = some c → c = 0) ∧
        match modelLoop self.offline st (Xs.zip cs) with
        | some st' => ∃ self', (Xs.zipIdx k).foldlM (fit_loop2_body E X is_none user max_iter mt eps) self = some self' ∧
            self'.base.labels = done ++ cs ∧ RepState self'.iCVI st' ∧ self'.offline = self.offline ∧
            self'.is_fitted_ = self.is_fitted_
        | none => (Xs.zipIdx k).foldlM (fit_loop2_body E X is_none user max_iter mt eps) self = none := by
  intro Xs
  induction Xs with
  | nil =>
    intro k done self st hrep hlab hk
    refine ⟨[], rfl, by simp, ?_⟩
    simp only [List.zip_nil_left, modelLoop_nil]
    exact ⟨self, rfl, by simpa using hlab, hrep, rfl, rfl⟩
  | cons x Xs ih =>
    intro k done self st hrep hlab hk
    have hl0 : self.base.labels[k]? = some 0 := by rw [hlab, ← hk]; simp
    have hstep := icvi_step_spec E X is_none user max_iter mt eps self hrep x k 0 hl0
    have hc0 : self.base.W = [] → (icviStepFit E self is_none user x k mt eps).2 = 0 :=
      fun hW => step_fit_empty _ _ _ _ _ _ _ _ hW
    generalize (icviStepFit E self is_none user x k mt eps) = r at hstep hc0
    cases hm : (if self.offline then switchLabel st x 0 r.2 else some (addSample st x r.2)) with
    | none =>
      rw [hm] at hstep
      refine ⟨r.2 :: List.replicate Xs.length 0, by simp, fun hW c' h => ?_, ?_⟩
      · simp only [List.head?_cons, Option.some.injEq] at h
        rw [← h]; exact hc0 hW
      · simp only [List.length_replicate, List.zip_cons_cons, modelLoop_cons, hm, Option.bind_none]
        simp [List.zipIdx_cons, hstep]
    | some cand =>
      rw [hm] at hstep
      obtain ⟨self1, hs1, hb1, hr1, ho1, _, hf1⟩ := hstep
      have hlab1 : self1.base.labels = (done ++ [r.2]) ++ List.replicate Xs.length 0 := by
        rw [hb1]; simp [hlab, ← hk, List.replicate_succ]
      obtain ⟨cs, hcl, _, hmatch⟩ := ih (k + 1) (done ++ [r.2]) self1 (update st cand) hr1 hlab1 (by simp [hk])
      refine ⟨r.2 :: cs, by simp [hcl], fun hW c' h => ?_, ?_⟩
      · simp only [List.head?_cons, Option.some.injEq] at h
        rw [← h]; exact hc0 hW
      · simp only [List.zip_cons_cons, modelLoop_cons, hm, Option.bind_some]
        have hfold : (List.zipIdx (x :: Xs) k).foldlM (fit_loop2_body E X is_none user max_iter mt eps) self
            = (Xs.zipIdx (k + 1)).foldlM (fit_loop2_body E X is_none user max_iter mt eps) self1 := by
          simp [List.zipIdx_cons, hs1]
        rw [hfold]
        rw [ho1] at hmatch
        cases hml : modelLoop self.offline (update st cand) (Xs.zip cs) with
        | none => rw [hml] at hmatch; exact hmatch
        | some st' =>
          rw [hml] at hmatch
          obtain ⟨self', h1, h2, h3, h4, h5⟩ := hmatch
          exact ⟨self', h1, by simp [h2], h3, h4, h5.trans hf1⟩

/-- the offline pre-labelling pass: every sample is added with label 0 -/
theorem icvi_adds0 (X : List (List α)) (is_none : Bool) (user : List α → Wt → Nat → P → C → Bool) (max_iter : Nat)
    (mt : MT) (eps : α) :
    ∀ (Xs : List (List α)) (self : Gen.Gate.iCVIFuzzyART.Self Wt P α) (st : State α), RepState self.iCVI st →
      ∃ self', Xs.foldlM (fit_loop1_body X is_none user max_iter mt eps) self = some self' ∧
        RepState self'.iCVI (Xs.foldl (fun st x => update st (addSample st x 0)) st) ∧ self'.base = self.base ∧
        self'.offline = self.offline ∧ self'.is_fitted_ = self.is_fitted_ := by
  intro Xs
  induction Xs with
  | nil => intro self st h; exact ⟨self, rfl, h, rfl, rfl, rfl⟩
  | cons x Xs ih =>
    intro self st h
    obtain ⟨p, hp, hc⟩ := add_sample_spec h x 0
    obtain ⟨s1, hs1, hr1⟩ := update_spec h hc
    obtain ⟨self', h1, h2, h3, h4, h5⟩ := ih { self with iCVI := s1 } _ hr1
    refine ⟨self', ?_, h2, h3, h4, h5⟩
    simp only [List.foldlM_cons, fit_loop1_body, hp, hs1, Option.bind_eq_bind, Option.bind_some, Option.pure_def]
    exact h1

/-- the generated `fit`, read off: reset the state, construct the object from the first row, the offline pass, the loop -/
theorem fit_unfold (E : Ext (List α) Wt P C α) (self : Gen.Gate.iCVIFuzzyART.Self Wt P α) (X : List (List α))
    (is_none : Bool) (user : List α → Wt → Nat → P → C → Bool) (max_iter : Nat) (mt : MT) (eps : α) :
    Gen.Gate.iCVIFuzzyART.fit E self X is_none user max_iter mt eps = (do
      let x0 ← X[0]?
      let s0 ← Gen.ICVI.init x0
      let self0 : Gen.Gate.iCVIFuzzyART.Self Wt P α :=
        { base := { W := [], cnt := [], n := 0, params := self.base.params, labels := List.replicate X.length 0, hasW := true },
          offline := self.offline, iCVI := s0, index := self.index, is_fitted_ := true }
      let self1 ← if self.offline then X.foldlM (fit_loop1_body X is_none user max_iter mt eps) self0 else pure self0
      (List.zipIdx X).foldlM (fit_loop2_body E X is_none user max_iter mt eps) self1) := by
  cases hoff : self.offline <;> simp [Gen.Gate.iCVIFuzzyART.fit, hoff]

end ICVIFit

section ICVIFitSpec
variable {Wt P C α : Type} [Field α] [LinearOrder α] [IsStrictOrderedRing α] [Inhabited Wt] [Inhabited C] {d : Nat}

open Gen.Gate.iCVIFuzzyART

theorem fit_start (X : List (List α)) (hX : Rows d X) (hne : X ≠ []) :
    ∃ x0 s0, X[0]? = some x0 ∧ Gen.ICVI.init x0 = some s0 ∧ RepState s0 (init d : State α) := by
  cases X with
  | nil => exact absurd rfl hne
  | cons x0 X' =>
    obtain ⟨s0, hs0, hr0⟩ := init_spec x0
    rw [hX x0 (by simp)] at hr0
    exact ⟨x0, s0, rfl, hs0, hr0⟩

/-- **`iCVIFuzzyART.fit`, online mode**: on non-empty data with rows of one dimension the generated method does not
raise, `labels_` has one entry per sample, and the `iCVI_CH` object it leaves behind represents the model's
`trackOnline d X labels_` — for every kernel, reset function, mode and epsilon. -/
theorem fit_online_spec (E : Ext (List α) Wt P C α) (self : Gen.Gate.iCVIFuzzyART.Self Wt P α) (X : List (List α))
    (is_none : Bool) (user : List α → Wt → Nat → P → C → Bool) (max_iter : Nat) (mt : MT) (eps : α)
    (hX : Rows d X) (hne : X ≠ []) (hoff : self.offline = false) :
    ∃ self', Gen.Gate.iCVIFuzzyART.fit E self X is_none user max_iter mt eps = some self' ∧
      self'.base.labels.length = X.length ∧ RepState self'.iCVI (trackOnline d X self'.base.labels) ∧
      self'.offline = false ∧ self'.is_fitted_ = true := by
  obtain ⟨x0, s0, h0, hs0, hr0⟩ := fit_start X hX hne
  rw [fit_unfold]
  simp only [h0, hs0, hoff, Option.bind_eq_bind, Option.bind_some, Bool.false_eq_true, if_false, Option.pure_def]
  obtain ⟨cs, hcl, _, hmatch⟩ := icvi_loop E X is_none user max_iter mt eps X 0 []
    { base := { W := [], cnt := [], n := 0, params := self.base.params, labels := List.replicate X.length 0, hasW := true },
      offline := false, iCVI := s0, index := self.index, is_fitted_ := true } (init d) hr0 (by simp) rfl
  simp only [modelLoop, Bool.false_eq_true, if_false] at hmatch
  obtain ⟨self', h1, h2, h3, h4, h5⟩ := hmatch
  refine ⟨self', h1, by simp [h2, hcl], ?_, h4, h5⟩
  simpa [h2, trackOnline] using h3

/-- **`iCVIFuzzyART.fit`, offline mode**: all samples are first added with label 0, then each is switched to the label
`step_fit` returns.  The generated method does not raise (no `switch_label` call raises: the first sample keeps label
0, so cluster 0 never loses its last member), and the object it leaves behind represents the model's
`trackOffline d X labels_`. -/
theorem fit_offline_spec (E : Ext (List α) Wt P C α) (self : Gen.Gate.iCVIFuzzyART.Self Wt P α) (X : List (List α))
    (is_none : Bool) (user : List α → Wt → Nat → P → C → Bool) (max_iter : Nat) (mt : MT) (eps : α)
    (hX : Rows d X) (hne : X ≠ []) (hoff : self.offline = true) :
    ∃ self' st, Gen.Gate.iCVIFuzzyART.fit E self X is_none user max_iter mt eps = some self' ∧
      self'.base.labels.length = X.length ∧ trackOffline d X self'.base.labels = some st ∧ RepState self'.iCVI st ∧
      st.crit = chBatch (X.zip self'.base.labels) ∧ self'.offline = true ∧ self'.is_fitted_ = true := by
  obtain ⟨x0, s0, h0, hs0, hr0⟩ := fit_start X hX hne
  rw [fit_unfold]
  simp only [h0, hs0, hoff, Option.bind_eq_bind, Option.bind_some, if_true]
  obtain ⟨self1, hf1, hr1, hb1, ho1, hi1⟩ := icvi_adds0 X is_none user max_iter mt eps X
    { base := { W := [], cnt := [], n := 0, params := self.base.params, labels := List.replicate X.length 0, hasW := true },
      offline := true, iCVI := s0, index := self.index, is_fitted_ := true } (init d) hr0
  rw [hf1]
  simp only [Option.bind_some]
  obtain ⟨cs, hcl, hhead, hmatch⟩ := icvi_loop E X is_none user max_iter mt eps X 0 [] self1 _ hr1
    (by rw [hb1]; simp) rfl
  have hW : self1.base.W = [] := by rw [hb1]
  obtain ⟨st, hst, hcrit⟩ := Art.ICVI.track_offline X cs hX hcl (fun c hc => hhead hW c hc)
  have hml : modelLoop self1.offline (X.foldl (fun st x => update st (addSample st x 0)) (init d)) (X.zip cs) = some st := by
    rw [ho1]; exact hst
  rw [hml] at hmatch
  obtain ⟨self', h1, h2, h3, h4, h5⟩ := hmatch
  simp only [List.nil_append] at h2
  exact ⟨self', st, h1, by simp [h2, hcl], by rw [h2]; exact hst, h3, by rw [h2]; exact hcrit, h4.trans ho1, h5.trans hi1⟩

/-- **C15 "after iCVIFuzzyART training the tracked value equals the index of (X, labels_)" for the generated `fit`,
online mode.** -/
theorem gen_fit_tracks_online (E : Ext (List α) Wt P C α) (self : Gen.Gate.iCVIFuzzyART.Self Wt P α) (X : List (List α))
    (is_none : Bool) (user : List α → Wt → Nat → P → C → Bool) (max_iter : Nat) (mt : MT) (eps : α)
    (hX : Rows d X) (hne : X ≠ []) (hoff : self.offline = false) :
    ∃ self', Gen.Gate.iCVIFuzzyART.fit E self X is_none user max_iter mt eps = some self' ∧
      self'.base.labels.length = X.length ∧ self'.iCVI.criterion_value = chBatch (X.zip self'.base.labels) := by
  obtain ⟨self', h1, h2, h3, _, _⟩ := fit_online_spec E self X is_none user max_iter mt eps hX hne hoff
  exact ⟨self', h1, h2, by rw [h3.crit]; exact Art.C15.icvifuzzy_tracks_online X _ hX⟩

/-- … and offline mode: the generated `fit` does not raise and the tracked value is the batch Calinski-Harabasz index of
`(X, labels_)`. -/
theorem gen_fit_tracks_offline (E : Ext (List α) Wt P C α) (self : Gen.Gate.iCVIFuzzyART.Self Wt P α) (X : List (List α))
    (is_none : Bool) (user : List α → Wt → Nat → P → C → Bool) (max_iter : Nat) (mt : MT) (eps : α)
    (hX : Rows d X) (hne : X ≠ []) (hoff : self.offline = true) :
    ∃ self', Gen.Gate.iCVIFuzzyART.fit E self X is_none user max_iter mt eps = some self' ∧
      self'.base.labels.length = X.length ∧ self'.iCVI.criterion_value = chBatch (X.zip self'.base.labels) := by
  obtain ⟨self', st, h1, h2, _, h4, h5, _, _⟩ := fit_offline_spec E self X is_none user max_iter mt eps hX hne hoff
  exact ⟨self', h1, h2, by rw [h4.crit]; exact h5⟩

end ICVIFitSpec

/-! ### the C15 gate theorems, transported to the generated `iCVIFuzzyART` step -/

section ICVIGate
variable {Wt P C α μ θ : Type} [Field α] [LinearOrder α] [IsStrictOrderedRing α] [Inhabited Wt] [Inhabited C] {d : Nat}

open Gen.Gate.iCVIFuzzyART

/-- **C15 `icvi_gate` for the generated step.**  `icviStepFit` is the call of the generated `BaseART.step_fit` with the
generated reset function inside the generated loop body (`icvi_step_unfold`).  Under the kernel contract of
`ControlSpec` (stated for the trivial reset function: it does not mention the gate), if that call assigns the sample to
an *existing* category `c`, then the user function (if any) agreed, the iCVI call did not raise, and the candidate
criterion is strictly larger than the tracked one. -/
theorem gen_icvi_gate (K : Kernel (List α) Wt α μ) (cfg : SearchCfg μ θ) (E : Ext (List α) Wt P C α) (th : P → θ)
    (self : Gen.Gate.iCVIFuzzyART.Self Wt P α) {st : State α} (hrep : RepState self.iCVI st) (is_none : Bool)
    (user : List α → Wt → Nat → P → C → Bool) (userB : Nat → Bool) (x : List α) (i cur : Nat) (mt : MT) (eps : α)
    (hlab : self.offline = true → self.base.labels[i]? = some cur)
    (huser : ∀ c w p ch, (if is_none then true else user x w c p ch) = userB c)
    (hC : Control.Contract K cfg E th self.base.W x self.base.params true (fun _ _ _ _ _ => true) (fun _ => false) mt eps)
    (c : Nat) (h : (icviStepFit E self is_none user x i mt eps).2 = c) (hc : c < self.base.W.length) :
    userB c = true ∧
      ∃ p, (if self.offline then switchLabel st x cur c else some (addSample st x c)) = some p ∧ st.crit < p.crit := by
  have hC' : Control.Contract K cfg E th self.base.W x self.base.params false
      (icviReset { self with index := i } is_none user) (gateVeto userB (icviMatch self.offline st x cur)) mt eps :=
    { choice := hC.choice, passes := hC.passes, track := hC.track, keep := hC.keep, update := hC.update,
      newW := hC.newW, tilde := hC.tilde, veto_none := (fun h => by cases h),
      veto_some := by
        intro _ c' w p ch _
        cases hn : is_none with
        | true =>
          have hu := huser c' w p ch
          rw [hn] at hu
          exact (icvi_lambda_none_spec (self := { self with index := i }) hrep cur hlab x w c' p ch).trans
            (by simp [gateVeto, ← hu])
        | false =>
          have hu := huser c' w p ch
          rw [hn] at hu
          simp only [Bool.false_eq_true, if_false] at hu
          exact (icvi_lambda_user_spec (self := { self with index := i }) hrep cur hlab user x w c' p ch).trans
            (by simp [gateVeto, hu]) }
  have href := Control.step_fit_refines K cfg E th self.base x false _ _ mt eps hC'
  unfold icviStepFit at h
  rw [href] at h
  exact Art.C15.icvi_gate K cfg (th self.base.params) ⟨self.base.W, self.base.cnt, self.base.n, self.base.labels⟩ x
    self.offline st x cur userB c h hc

/-- Online mode, in terms of the index itself, for the generated code all the way down: the object was produced by
generated `iCVI_CH` calls (`GenReach`), the step is the generated step — a sample joins an existing cluster `c` only if
the Calinski-Harabasz index of the data *with* `(x, c)` is strictly larger than the index before the step. -/
theorem gen_icvi_gate_online (K : Kernel (List α) Wt α μ) (cfg : SearchCfg μ θ) (E : Ext (List α) Wt P C α) (th : P → θ)
    (self : Gen.Gate.iCVIFuzzyART.Self Wt P α) {D : List (List α × Nat)} (hG : GenReach d self.iCVI D)
    (hoff : self.offline = false) (is_none : Bool)
    (user : List α → Wt → Nat → P → C → Bool) (userB : Nat → Bool) (x : List α) (hx : x.length = d) (i : Nat) (mt : MT) (eps : α)
    (huser : ∀ c w p ch, (if is_none then true else user x w c p ch) = userB c)
    (hC : Control.Contract K cfg E th self.base.W x self.base.params true (fun _ _ _ _ _ => true) (fun _ => false) mt eps)
    (c : Nat) (h : (icviStepFit E self is_none user x i mt eps).2 = c) (hc : c < self.base.W.length) :
    userB c = true ∧ chBatch D < chBatch ((x, c) :: D) := by
  obtain ⟨st, hr, hR⟩ := genReach_rep hG
  obtain ⟨hu, p, hp, hlt⟩ := gen_icvi_gate K cfg E th self hr is_none user userB x i 0 mt eps
    (fun h' => by rw [hoff] at h'; cases h') huser hC c h hc
  simp only [hoff, Bool.false_eq_true, if_false, Option.some.injEq] at hp
  subst hp
  rw [Art.C15.criterion_eq_batch hR, Art.C15.add_candidate_eq_batch hR hx] at hlt
  exact ⟨hu, hlt⟩

/-- Offline mode: the sample `(x, cur)` is relabelled to an existing cluster `c` only if the index of the relabelled
data is strictly larger than the current one. -/
theorem gen_icvi_gate_offline (K : Kernel (List α) Wt α μ) (cfg : SearchCfg μ θ) (E : Ext (List α) Wt P C α) (th : P → θ)
    (self : Gen.Gate.iCVIFuzzyART.Self Wt P α) {D₁ D₂ : List (List α × Nat)} {x : List α} {cur : Nat}
    (hG : GenReach d self.iCVI (D₁ ++ (x, cur) :: D₂)) (hoff : self.offline = true) (is_none : Bool)
    (user : List α → Wt → Nat → P → C → Bool) (userB : Nat → Bool) (i : Nat) (mt : MT) (eps : α)
    (hlab : self.base.labels[i]? = some cur)
    (huser : ∀ c w p ch, (if is_none then true else user x w c p ch) = userB c)
    (hC : Control.Contract K cfg E th self.base.W x self.base.params true (fun _ _ _ _ _ => true) (fun _ => false) mt eps)
    (c : Nat) (hpre : cur ≠ c → 2 ≤ (members (D₁ ++ (x, cur) :: D₂) cur).length)
    (h : (icviStepFit E self is_none user x i mt eps).2 = c) (hc : c < self.base.W.length) :
    userB c = true ∧ chBatch (D₁ ++ (x, cur) :: D₂) < chBatch (D₁ ++ (x, c) :: D₂) := by
  obtain ⟨st, hr, hR⟩ := genReach_rep hG
  obtain ⟨hu, p, hp, hlt⟩ := gen_icvi_gate K cfg E th self hr is_none user userB x i cur mt eps
    (fun _ => hlab) huser hC c h hc
  simp only [hoff, if_true] at hp
  rw [Art.C15.criterion_eq_batch hR, Art.C15.switch_candidate_eq_batch hR hpre hp] at hlt
  exact ⟨hu, hlt⟩

/-- the gate does not raise where training calls it, online: `add_sample` is total -/
theorem iCVI_match_returns_online (self : Gen.Gate.iCVIFuzzyART.Self Wt P α) {st : State α} (hrep : RepState self.iCVI st)
    (hoff : self.offline = false) (x : List α) (w : Wt) (c : Nat) (params : P) (cache : C) :
    iCVI_match self x w c params cache = some (decide (st.crit < (addSample st x c).crit)) := by
  rw [iCVI_match_defined hrep x w c params cache 0 (fun h => by rw [hoff] at h; cases h)]
  simp [hoff]

/-- … and offline, under the API's precondition of `switch_label` (the sample is in the data with its current label; if
it is to leave its cluster, the cluster has another member — in `fit` the first sample keeps label 0 and every
unprocessed sample has label 0, see `fit_offline_spec`): the raise-as-veto rendering of `Art.ImpGate.callback` is never
exercised on the states training reaches. -/
theorem iCVI_match_returns_offline (self : Gen.Gate.iCVIFuzzyART.Self Wt P α) {D₁ D₂ : List (List α × Nat)} {x : List α}
    {cur : Nat} (hG : GenReach d self.iCVI (D₁ ++ (x, cur) :: D₂)) (hoff : self.offline = true)
    (hlab : self.base.labels[self.index]? = some cur) (c : Nat)
    (hpre : cur ≠ c → 2 ≤ (members (D₁ ++ (x, cur) :: D₂) cur).length) (w : Wt) (params : P) (cache : C) :
    ∃ b, iCVI_match self x w c params cache = some b := by
  obtain ⟨st, hr, hR⟩ := genReach_rep hG
  obtain ⟨hwf, hI⟩ := reach_inv hR
  obtain ⟨p, hp, _⟩ := switch_inv hwf hI hpre
  rw [iCVI_match_defined hr x w c params cache cur (fun _ => hlab)]
  simp [hoff, hp]

end ICVIGate

/-! ### `CVIART`: accessors, `CVI_match`, the reset functions of `fit` -/

section CVI
variable {Xt Wt P C α : Type} [LinearOrder α] [Inhabited Wt] [Inhabited C]

open Gen.Gate.CVIART

/-- the score `CVI_match` selects for a validity code -/
def score (MET : Metrics Xt α) (v : Nat) : List Xt → List Nat → Option α :=
  if v = 1 then MET.calinski_harabasz_score else if v = 2 then MET.davies_bouldin_score else MET.silhouette_score

/-- `W`, `labels_` and their setters are the delegation to `base_module` -/
theorem accessors_spec (self : Gen.Gate.CVIART.Self Xt Wt P) (ws : List Wt) (ls : List Nat) :
    W self = some self.base_module.W ∧ labels_ self = some self.base_module.labels ∧
    W_set self ws = some { self with base_module := { self.base_module with W := ws, hasW := true } } ∧
    labels__set self ls = some { self with base_module := { self.base_module with labels := ls } } :=
  ⟨rfl, rfl, rfl, rfl⟩

/-- fewer than two categories: the gate is open, whatever the validity code (no score is computed) -/
theorem CVI_match_few (MET : Metrics Xt α) (self : Gen.Gate.CVIART.Self Xt Wt P) (x : Xt) (w : Wt) (c : Nat) (params : P)
    (ex : Extra) (cache : C) (h : self.base_module.W.length < 2) :
    CVI_match MET self x w c params ex cache = some true := by
  simp [CVI_match, W, h]

/-- an unknown validity code raises (`ValueError`) once two categories exist -/
theorem CVI_match_invalid (MET : Metrics Xt α) (self : Gen.Gate.CVIART.Self Xt Wt P) (x : Xt) (w : Wt) (c : Nat)
    (params : P) (ex : Extra) (cache : C) (h : ¬ self.base_module.W.length < 2)
    (hv : ex.validity ≠ 1 ∧ ex.validity ≠ 2 ∧ ex.validity ≠ 3) :
    CVI_match MET self x w c params ex cache = none := by
  simp [CVI_match, W, h, hv.1, hv.2.1, hv.2.2, CALINSKIHARABASZ, DAVIESBOULDIN, SILHOUETTE]

/-- finding F35, as the code has it: when sklearn raises on the labelling before the step, so does the gate -/
theorem CVI_match_raises (MET : Metrics Xt α) (self : Gen.Gate.CVIART.Self Xt Wt P) (x : Xt) (w : Wt) (c : Nat)
    (params : P) (ex : Extra) (cache : C) (h : ¬ self.base_module.W.length < 2)
    (hv : ex.validity = 1 ∨ ex.validity = 2 ∨ ex.validity = 3)
    (hs : score MET ex.validity self.data self.base_module.labels = none) :
    CVI_match MET self x w c params ex cache = none := by
  rcases hv with hv | hv | hv <;>
    simp [score, hv] at hs <;>
    simp [CVI_match, W, labels_, h, hv, hs, CALINSKIHARABASZ, DAVIESBOULDIN, SILHOUETTE]

/-- **`CVI_match` = the model's `cviMatch`**: `vi` is the value of the selected sklearn score on a labelling
(hypothesis `hvi`: it returns on the labelling before the step and on the candidate — it is not required when fewer than
two categories exist), `old` = `labels_`, `cand c` = `labels_` with entry `index` set to `c`. -/
theorem CVI_match_spec (MET : Metrics Xt α) (self : Gen.Gate.CVIART.Self Xt Wt P) (x : Xt) (w : Wt) (c : Nat) (params : P)
    (ex : Extra) (cache : C) (vi : List Nat → α)
    (hv : ex.validity = 1 ∨ ex.validity = 2 ∨ ex.validity = 3)
    (hidx : ex.index < self.base_module.labels.length)
    (hvi : ¬ self.base_module.W.length < 2 → ∀ l, l = self.base_module.labels ∨ l = self.base_module.labels.set ex.index c →
      score MET ex.validity self.data l = some (vi l)) :
    CVI_match MET self x w c params ex cache =
      some (cviMatch self.base_module.W.length (ex.validity == 2) vi self.base_module.labels
        (fun c' => self.base_module.labels.set ex.index c') c) := by
  by_cases h : self.base_module.W.length < 2
  · rw [CVI_match_few MET self x w c params ex cache h]; simp [cviMatch, h]
  · have h1 := hvi h _ (Or.inl rfl)
    have h2 := hvi h _ (Or.inr rfl)
    rcases hv with hv | hv | hv <;>
      simp [score, hv] at h1 h2 <;>
      simp [CVI_match, W, labels_, h, hv, h1, h2, npSet, hidx, cviMatch, CALINSKIHARABASZ, DAVIESBOULDIN, SILHOUETTE]

/-- `match_reset_func is None`: the lambda around `CVI_match`, as `step_fit` sees it -/
theorem cvi_lambda_none_spec (MET : Metrics Xt α) (self : Gen.Gate.CVIART.Self Xt Wt P) (index : Nat) (vi : List Nat → α)
    (hv : self.validity = 1 ∨ self.validity = 2 ∨ self.validity = 3) (hidx : index < self.base_module.labels.length)
    (x : Xt) (w : Wt) (c : Nat) (params : P) (cache : C)
    (hvi : ¬ self.base_module.W.length < 2 → ∀ l, l = self.base_module.labels ∨ l = self.base_module.labels.set index c →
      score MET self.validity self.data l = some (vi l)) :
    (fun (i : Xt) (w : Wt) (cluster_a : Nat) (params : P) (cache : C) =>
        callback (do pure (← CVI_match MET self i w cluster_a params ({ index := index, validity := self.validity } : Extra) cache)))
      x w c params cache
      = !(gateVeto (fun _ => true) (cviMatch self.base_module.W.length (self.validity == 2) vi self.base_module.labels
            (fun c' => self.base_module.labels.set index c')) c) := by
  simp only [callback_bind_pure]
  rw [CVI_match_spec MET self x w c params ⟨index, self.validity⟩ cache vi hv hidx hvi]
  simp [callback, gateVeto]

/-- a user reset function: the lambda `match_reset_func(…) and self.CVI_match(…)` -/
theorem cvi_lambda_user_spec (MET : Metrics Xt α) (self : Gen.Gate.CVIART.Self Xt Wt P) (index : Nat) (vi : List Nat → α)
    (hv : self.validity = 1 ∨ self.validity = 2 ∨ self.validity = 3) (hidx : index < self.base_module.labels.length)
    (user : Xt → Wt → Nat → P → C → Bool) (x : Xt) (w : Wt) (c : Nat) (params : P) (cache : C)
    (hvi : ¬ self.base_module.W.length < 2 → ∀ l, l = self.base_module.labels ∨ l = self.base_module.labels.set index c →
      score MET self.validity self.data l = some (vi l)) :
    (fun (i : Xt) (w : Wt) (cluster_a : Nat) (params : P) (cache : C) =>
        callback (do pure (← (if (user i w cluster_a params cache) then (do pure (← CVI_match MET self i w cluster_a params
          ({ index := index, validity := self.validity } : Extra) cache)) else (do pure false)))))
      x w c params cache
      = !(gateVeto (fun c' => user x w c' params cache) (cviMatch self.base_module.W.length (self.validity == 2) vi
            self.base_module.labels (fun c' => self.base_module.labels.set index c')) c) := by
  simp only [callback_andalso]
  rw [CVI_match_spec MET self x w c params ⟨index, self.validity⟩ cache vi hv hidx hvi]
  simp [callback, gateVeto]

end CVI

/-! ### `CVIART.fit`: the generated step, the gate, the labels -/

section CVIFit
variable {Xt Wt P C α μ θ : Type} [Field α] [LinearOrder α] [IsStrictOrderedRing α] [Inhabited Wt] [Inhabited C]

open Gen.Gate.CVIART

/-- the reset function the generated step hands to the base module's `step_fit` (the text of the two lambdas) -/
def cviReset (MET : Metrics Xt α) (self : Gen.Gate.CVIART.Self Xt Wt P) (index : Nat) (is_none : Bool)
    (user : Xt → Wt → Nat → P → C → Bool) : Xt → Wt → Nat → P → C → Bool :=
  if is_none then
    (fun (i : Xt) (w : Wt) (cluster_a : Nat) (params : P) (cache : C) =>
      callback (do pure (← CVI_match MET self i w cluster_a params ({ index := index, validity := self.validity } : Extra) cache)))
  else
    (fun (i : Xt) (w : Wt) (cluster_a : Nat) (params : P) (cache : C) =>
      callback (do pure (← (if (user i w cluster_a params cache) then (do pure (← CVI_match MET self i w cluster_a params
        ({ index := index, validity := self.validity } : Extra) cache)) else (do pure false)))))

/-- the call of the generated `BaseART.step_fit` inside the generated step -/
def cviStepFit (E : Ext Xt Wt P C α) (MET : Metrics Xt α) (self : Gen.Gate.CVIART.Self Xt Wt P) (is_none : Bool)
    (user : Xt → Wt → Nat → P → C → Bool) (x : Xt) (index : Nat) (mt : MT) (eps : α) : Imp.Self Wt P × Nat :=
  Gen.BaseART.step_fit E self.base_module.W.length self.base_module x false (cviReset MET self index is_none user) mt eps

/-- **one generated training step of `CVIART.fit`**: the base module's `step_fit` with the gate as reset function, then
`labels_[index] = c` written through the `labels_` property into the base module. -/
theorem cvi_step_spec (E : Ext Xt Wt P C α) (MET : Metrics Xt α) (X : List Xt) (is_none : Bool)
    (user : Xt → Wt → Nat → P → C → Bool) (max_iter : Nat) (mt : MT) (eps : α) (it_ : Nat)
    (self : Gen.Gate.CVIART.Self Xt Wt P) (x : Xt) (index : Nat) :
    fit_loop2_body E MET X is_none user max_iter mt eps it_ self (x, index) =
      (npSet (cviStepFit E MET self is_none user x index mt eps).1.labels index
          (cviStepFit E MET self is_none user x index mt eps).2).map
        (fun l => { self with base_module := { (cviStepFit E MET self is_none user x index mt eps).1 with labels := l } }) := by
  cases is_none <;>
    simp [fit_loop2_body, labels_, labels__set, cviStepFit, cviReset, Option.map_eq_bind]

/-- **C15 `cvi_gate` for the generated step.**  `vi` is the value of the selected sklearn score (hypothesis `hvi`: it
returns on the labelling before the step and on the candidate labellings of the existing categories; not needed while
fewer than two categories exist).  If the generated call of `step_fit` assigns the sample to an existing category `c`,
the user function agreed and either fewer than two categories exist or the candidate labelling's index is strictly
better (`<` for Davies-Bouldin, `>` otherwise). -/
theorem gen_cvi_gate (K : Kernel Xt Wt α μ) (cfg : SearchCfg μ θ) (E : Ext Xt Wt P C α) (th : P → θ) (MET : Metrics Xt α)
    (self : Gen.Gate.CVIART.Self Xt Wt P) (is_none : Bool) (user : Xt → Wt → Nat → P → C → Bool) (userB : Nat → Bool)
    (x : Xt) (index : Nat) (mt : MT) (eps : α) (vi : List Nat → α)
    (hv : self.validity = 1 ∨ self.validity = 2 ∨ self.validity = 3) (hidx : index < self.base_module.labels.length)
    (hvi : ¬ self.base_module.W.length < 2 → ∀ l, (l = self.base_module.labels ∨
      ∃ c' < self.base_module.W.length, l = self.base_module.labels.set index c') →
      score MET self.validity self.data l = some (vi l))
    (huser : ∀ c w p ch, (if is_none then true else user x w c p ch) = userB c)
    (hC : Control.Contract K cfg E th self.base_module.W x self.base_module.params true (fun _ _ _ _ _ => true)
      (fun _ => false) mt eps)
    (c : Nat) (h : (cviStepFit E MET self is_none user x index mt eps).2 = c) (hc : c < self.base_module.W.length) :
    userB c = true ∧ (self.base_module.W.length < 2 ∨
      (if (self.validity == 2) then vi (self.base_module.labels.set index c) < vi self.base_module.labels
       else vi self.base_module.labels < vi (self.base_module.labels.set index c))) := by
  have hC' : Control.Contract K cfg E th self.base_module.W x self.base_module.params false
      (cviReset MET self index is_none user)
      (gateVeto userB (cviMatch self.base_module.W.length (self.validity == 2) vi self.base_module.labels
        (fun c' => self.base_module.labels.set index c'))) mt eps :=
    { choice := hC.choice, passes := hC.passes, track := hC.track, keep := hC.keep, update := hC.update,
      newW := hC.newW, tilde := hC.tilde, veto_none := (fun h => by cases h),
      veto_some := by
        intro _ c' w p ch hw
        have hc' : c' < self.base_module.W.length := (List.getElem?_eq_some_iff.mp hw).1
        have hvi' : ¬ self.base_module.W.length < 2 → ∀ l, l = self.base_module.labels ∨
            l = self.base_module.labels.set index c' → score MET self.validity self.data l = some (vi l) := by
          intro h2 l hl
          rcases hl with hl | hl
          · exact hvi h2 l (Or.inl hl)
          · exact hvi h2 l (Or.inr ⟨c', hc', hl⟩)
        cases hn : is_none with
        | true =>
          have hu := huser c' w p ch
          rw [hn] at hu
          exact (cvi_lambda_none_spec MET self index vi hv hidx x w c' p ch hvi').trans
            (by simp [gateVeto, ← hu])
        | false =>
          have hu := huser c' w p ch
          rw [hn] at hu
          simp only [Bool.false_eq_true, if_false] at hu
          exact (cvi_lambda_user_spec MET self index vi hv hidx user x w c' p ch hvi').trans
            (by simp [gateVeto, hu]) }
  have href := Control.step_fit_refines K cfg E th self.base_module x false _ _ mt eps hC'
  unfold cviStepFit at h
  rw [href] at h
  exact Art.C15.cvi_gate K cfg (th self.base_module.params)
    ⟨self.base_module.W, self.base_module.cnt, self.base_module.n, self.base_module.labels⟩ x (self.validity == 2) vi
    self.base_module.labels (fun c' => self.base_module.labels.set index c') userB c h hc

theorem cvi_inner_loop (E : Ext Xt Wt P C α) (MET : Metrics Xt α) (X : List Xt) (is_none : Bool)
    (user : Xt → Wt → Nat → P → C → Bool) (max_iter : Nat) (mt : MT) (eps : α) (it_ : Nat) :
    ∀ (Xs : List Xt) (k : Nat) (self self' : Gen.Gate.CVIART.Self Xt Wt P),
      (Xs.zipIdx k).foldlM (fit_loop2_body E MET X is_none user max_iter mt eps it_) self = some self' →
      self'.base_module.labels.length = self.base_module.labels.length ∧ self'.data = self.data ∧
      self'.validity = self.validity ∧ self'.is_fitted_ = self.is_fitted_ := by
  intro Xs
  induction Xs with
  | nil => intro k self self' h; simp at h; subst h; exact ⟨rfl, rfl, rfl, rfl⟩
  | cons x Xs ih =>
    intro k self self' h
    rw [List.zipIdx_cons, List.foldlM_cons, cvi_step_spec] at h
    have hl : (cviStepFit E MET self is_none user x k mt eps).1.labels = self.base_module.labels := step_fit_labels ..
    generalize cviStepFit E MET self is_none user x k mt eps = r at h hl
    unfold npSet at h
    split at h
    · simp only [Option.map_some, Option.bind_eq_bind, Option.bind_some] at h
      obtain ⟨h1, h2, h3, h4⟩ := ih _ _ _ h
      exact ⟨by rw [h1]; simp [hl], h2, h3, h4⟩
    · simp at h

/-- **`CVIART.fit`**: when the generated method returns (the sklearn score may raise: F35), `labels_` has one entry per
sample, `data` is the training set, and the validity code is unchanged — for every number of epochs. -/
theorem cvi_fit_labels_length (E : Ext Xt Wt P C α) (MET : Metrics Xt α) (self self' : Gen.Gate.CVIART.Self Xt Wt P)
    (X : List Xt) (is_none : Bool) (user : Xt → Wt → Nat → P → C → Bool) (max_iter : Nat) (mt : MT) (eps : α)
    (h : Gen.Gate.CVIART.fit E MET self X is_none user max_iter mt eps = some self') :
    self'.base_module.labels.length = X.length ∧ self'.data = X ∧ self'.validity = self.validity ∧
      self'.is_fitted_ = true := by
  have key : ∀ (its : List Nat) (s s' : Gen.Gate.CVIART.Self Xt Wt P),
      its.foldlM (fit_loop1_body E MET X is_none user max_iter mt eps) s = some s' →
      s'.base_module.labels.length = s.base_module.labels.length ∧ s'.data = s.data ∧ s'.validity = s.validity ∧
        s'.is_fitted_ = s.is_fitted_ := by
    intro its
    induction its with
    | nil => intro s s' h; simp at h; subst h; exact ⟨rfl, rfl, rfl, rfl⟩
    | cons a its ih =>
      intro s s' h
      rw [List.foldlM_cons] at h
      cases h1 : fit_loop1_body E MET X is_none user max_iter mt eps s a with
      | none => simp [h1] at h
      | some s1 =>
        rw [h1] at h
        simp only [Option.bind_eq_bind, Option.bind_some] at h
        obtain ⟨a1, a2, a3, a4⟩ := ih _ _ h
        simp only [fit_loop1_body, Option.bind_eq_bind, Option.pure_def] at h1
        have h1' : (X.zipIdx 0).foldlM (fit_loop2_body E MET X is_none user max_iter mt eps a) s = some s1 := by
          simpa using h1
        obtain ⟨b1, b2, b3, b4⟩ := cvi_inner_loop E MET X is_none user max_iter mt eps a X 0 _ _ h1'
        exact ⟨a1.trans b1, a2.trans b2, a3.trans b3, a4.trans b4⟩
  simp only [Gen.Gate.CVIART.fit, W_set, labels__set, Option.pure_def, Option.bind_eq_bind, Option.bind_some] at h
  have h' : (List.range max_iter).foldlM (fit_loop1_body E MET X is_none user max_iter mt eps)
      ({ base_module := ({ W := [], cnt := [], n := 0, params := self.base_module.params,
                           labels := List.replicate X.length 0, hasW := true } : Imp.Self Wt P),
         validity := self.validity, data := X, is_fitted_ := true } : Gen.Gate.CVIART.Self Xt Wt P)
      = some self' := by
    simpa using h
  obtain ⟨c1, c2, c3, c4⟩ := key _ _ _ h'
  exact ⟨by simpa using c1, c2, c3, c4⟩

end CVIFit

/-! ### non-vacuity: the generated code runs -/

section Example

/-- a two-category module whose activations are the first weight coordinates, vigilance always passing -/
def exE : Ext (List ℚ) (List ℚ) Unit Unit ℚ :=
  { category_choice := fun _ _ w _ => (some (w.headD 0), ()), match_criterion_bin := fun _ _ _ _ _ => (true, ()),
    update := fun _ w _ _ => w, new_weight := fun x _ => x, match_tracking := fun _ _ p _ => (true, p),
    operator := fun _ => false, noneC := () }

/-- the generated `iCVI_CH` object after `{0, 1} → 0`, `{4} → 1` (criterion 49/3) -/
def exI : Option (Gen.ICVI.Self ℚ) := do
  let s ← Gen.ICVI.init [0]
  let s ← genAdd s [0] 0
  let s ← genAdd s [1] 0
  genAdd s [4] 1

def exSelf (off : Bool) (labels : List Nat) (s : Gen.ICVI.Self ℚ) : Gen.Gate.iCVIFuzzyART.Self (List ℚ) Unit ℚ :=
  { base := { W := [[0], [1]], cnt := [2, 1], n := 3, params := (), labels := labels }, offline := off, iCVI := s,
    index := 0, is_fitted_ := true }

/-- one generated training step (`labels_`, tracked criterion, number of categories afterwards) -/
def exRun (off : Bool) (labels : List Nat) (x : List ℚ) (i : Nat) (isn : Bool)
    (user : List ℚ → List ℚ → Nat → Unit → Unit → Bool) : Option (List Nat × ℚ × Nat) :=
  exI.bind (fun s => (Gen.Gate.iCVIFuzzyART.fit_loop2_body exE [] isn user 1 MT.plus 0 (exSelf off labels s) (x, i)).map
    (fun s => (s.base.labels, s.iCVI.criterion_value, s.base.W.length)))

/-- the generated gate allows `4 → cluster 1` (index 49/3 → 49) and vetoes `6 → cluster 1` -/
example : exI.map (fun s => (Gen.Gate.iCVIFuzzyART.iCVI_match (C := Unit) (exSelf false [0, 0, 1, 0] s) [4] [1] 1 () (),
    Gen.Gate.iCVIFuzzyART.iCVI_match (C := Unit) (exSelf false [0, 0, 1, 0] s) [6] [1] 1 () ())) =
    some (some true, some false) := by decide +kernel

/-- the generated step, online: the sample `4` joins the existing category 1 and the tracked value becomes 49 … -/
example : exRun false [0, 0, 1, 0] [4] 3 true (fun _ _ _ _ _ => true) = some ([0, 0, 1, 1], 49, 2) := by decide +kernel

/-- … `6` is vetoed for both categories: the search goes on and a new cluster (label 2) is created … -/
example : exRun false [0, 0, 1, 0] [6] 3 true (fun _ _ _ _ _ => true) = some ([0, 0, 1, 2], 89 / 4, 3) := by decide +kernel

/-- … and a user reset function that forbids category 1 sends `4` to a new cluster as well -/
example : exRun false [0, 0, 1, 0] [4] 3 false (fun _ _ c _ _ => c != 1) = some ([0, 0, 1, 2], 49 / 4, 3) := by
  decide +kernel

/-- offline mode (`switch_label`): the sample `1` (currently label 0) is vetoed for both categories — relabelling it does
not strictly improve the index — and moves to a new cluster 2 (three singletons: the index is 0 by convention) … -/
example : exRun true [0, 0, 1] [1] 1 true (fun _ _ _ _ _ => true) = some ([0, 2, 1], 0, 3) := by decide +kernel

/-- … while the sample `4`, the only member of cluster 1, cannot leave it: inside the gate the explicit `raise` of
`switch_label` counts as a veto, the search ends with a new category, and the commit `switch_label(x, 1, 2)` raises -/
example : exRun true [0, 0, 1] [4] 2 true (fun _ _ _ _ _ => true) = none := by decide +kernel

/-- five complement-coded points on the line -/
def exX : List (List ℚ) := [[0, 1], [1/10, 9/10], [1, 0], [9/10, 1/10], [1/2, 1/2]]

def exFresh (off : Bool) : Gen.Gate.iCVIFuzzyART.Self (List ℚ) ℚ ℚ :=
  { base := { W := [], cnt := [], n := 0, params := 1/2 }, offline := off, iCVI := ⟨0, 0, [], [], 0, 0⟩, index := 0,
    is_fitted_ := false }

/-- the whole generated `fit` with the Fuzzy ART kernel (rho = 1/2, alpha = 1/100, beta = 1), online and offline: the
labels, the tracked index and the number of categories are those `iCVIFuzzyART(0.5, 0.01, 1.0, 1, offline=…).fit(X)`
of the real library produces on this data (`[0, 1, 2, 2, 3]`, 54.33…, 4 and `[0, 1, 2, 2, 1]`, 8.647…, 3) -/
example : ((Gen.Gate.iCVIFuzzyART.fit (Control.scalarExt (fuzzyKernel (1/100 : ℚ) 1 1) 1000) (exFresh false) exX true
    (fun _ _ _ _ _ => true) 1 MT.plus 0).map (fun s => (s.base.labels, s.iCVI.criterion_value, s.base.W.length, s.is_fitted_)))
    = some ([0, 1, 2, 2, 3], 163 / 3, 4, true) := by decide +kernel
example : ((Gen.Gate.iCVIFuzzyART.fit (Control.scalarExt (fuzzyKernel (1/100 : ℚ) 1 1) 1000) (exFresh true) exX true
    (fun _ _ _ _ _ => true) 1 MT.plus 0).map (fun s => (s.base.labels, s.iCVI.criterion_value, s.base.W.length, s.is_fitted_)))
    = some ([0, 1, 2, 2, 1], 147 / 17, 3, true) := by decide +kernel

/-- an empty data set: `X[0]` raises -/
example : (Gen.Gate.iCVIFuzzyART.fit exE (exSelf true [] ⟨0, 0, [], [], 0, 0⟩) [] true (fun _ _ _ _ _ => true) 1
    MT.plus 0).isNone = true := by decide +kernel

/-- stand-ins for the sklearn scores; the silhouette raises on a single label (F35) -/
def exMET : Metrics (List ℚ) ℚ :=
  { calinski_harabasz_score := fun _ l => some (l.sum : ℚ), davies_bouldin_score := fun _ l => some (l.sum : ℚ),
    silhouette_score := fun _ l => if l.eraseDups.length < 2 then none else some (l.sum : ℚ) }

def exC (v : Nat) (labels : List Nat) : Gen.Gate.CVIART.Self (List ℚ) (List ℚ) Unit :=
  { base_module := { W := [[0], [1]], cnt := [1, 1], n := 2, params := (), labels := labels }, validity := v,
    data := [[0], [1], [4]], is_fitted_ := true }

/-- the generated CVIART gate allows (larger is better), vetoes (Davies-Bouldin: smaller is better), raises on an
unknown validity code, on an index past the end, and when sklearn raises -/
example : Gen.Gate.CVIART.CVI_match (C := Unit) exMET (exC 1 [0, 1, 0]) [4] [1] 1 () ⟨2, 1⟩ () = some true := by
  decide +kernel
example : Gen.Gate.CVIART.CVI_match (C := Unit) exMET (exC 2 [0, 1, 0]) [4] [1] 1 () ⟨2, 2⟩ () = some false := by
  decide +kernel
example : Gen.Gate.CVIART.CVI_match (C := Unit) exMET (exC 4 [0, 1, 0]) [4] [1] 1 () ⟨2, 4⟩ () = none := by
  decide +kernel
example : Gen.Gate.CVIART.CVI_match (C := Unit) exMET (exC 3 [0, 1, 0]) [4] [1] 1 () ⟨7, 3⟩ () = none := by
  decide +kernel
example : Gen.Gate.CVIART.CVI_match (C := Unit) exMET (exC 3 [0, 0, 0]) [4] [1] 1 () ⟨2, 3⟩ () = none := by
  decide +kernel

/-- the generated `CVIART.fit`, two epochs: while fewer than two categories exist the gate is open -/
example : ((Gen.Gate.CVIART.fit exE exMET (exC 1 []) [[0], [1], [4]] true (fun _ _ _ _ _ => true) 2 MT.plus 0).map
    (fun s => (s.base_module.labels, s.base_module.W.length, s.data.length))) = some ([0, 0, 0], 1, 3) := by
  decide +kernel

end Example

end Art.GenSpec.Gate
