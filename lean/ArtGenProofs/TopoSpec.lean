/-
ArtGenProofs.TopoSpec — the bookkeeping of `TopoART` (`prune`, `post_step_fit`, `add_weight`, `update`,
`step_pred`, the inherited `set_weight` and hooks), as translated from the Python source by
`harness/artv/ttrans.py` (ArtGen/Topo.lean), computes the model's definitions of `ArtModel/Topo.lean`
(`prune` with `pruneMask` / `keepIdx` / `gather` / `relabel` / `topoPredLabel`, `padAdj`, `incAdj`, the
counter / weight / adjacency updates of `applyTopo`, the pruning trigger of `topoFitStep`) — for every state
and every data matrix — and C14's pruning theorems hold of the *generated* `prune`.
-/
import Mathlib.Order.Basic
import Mathlib.Order.Defs.LinearOrder
import ArtGen.Topo
import ArtProofs.Topo
import ArtProps.C14

namespace Art.GenSpec.Topo

open Art Art.ImpTopo
open Art.Imp (Flow forEach)

/-! ## A. the numpy helpers of `ArtModel/ImpTopo.lean` against the model's list functions -/

section Helpers

theorem keepIdx_cons (b : Bool) (m : List Bool) :
    keepIdx (b :: m) = (if b then [0] else []) ++ (keepIdx m).map Nat.succ := by
  unfold keepIdx
  rw [List.length_cons, List.range_succ_eq_map, List.filter_cons, List.filter_map]
  have : ((fun i => (b :: m).getD i false) ∘ Nat.succ) = fun i => m.getD i false := by
    funext i; simp
  rw [this]
  cases b <;> simp

theorem whereFrom_eq (m : List Bool) : ∀ k, whereFrom k m = (keepIdx m).map (· + k) := by
  induction m with
  | nil => intro k; simp [whereFrom, keepIdx]
  | cons b m ih =>
    intro k
    rw [keepIdx_cons, whereFrom, ih (k + 1)]
    cases b
    · simp only [Bool.false_eq_true, if_false, List.nil_append, List.map_map]
      apply List.map_congr_left; intro i _; simp only [Function.comp]; omega
    · simp only [if_true, List.cons_append, List.nil_append, List.map_cons, List.map_map, Nat.zero_add]
      congr 1
      apply List.map_congr_left; intro i _; simp only [Function.comp]; omega

/-- `np.where(mask)[0]` is the model's `keepIdx` -/
theorem npWhere_eq (m : List Bool) : npWhere m = keepIdx m := by
  rw [npWhere, whereFrom_eq]; simp

/-- `_permanent_mask += (counter >= phi)` is the model's `pruneMask` -/
theorem npOr_npGe {Wt : Type} (phi : Nat) (s : TopoState Wt) :
    npOr s.perm (npGe s.cnt phi) = pruneMask phi s := by
  unfold npOr npGe pruneMask
  rw [List.zipWith_map_right]

theorem gather_nil {β : Type} (keep : List Nat) : gather keep ([] : List β) = [] := by
  induction keep with
  | nil => rfl
  | cons a t ih => simp [gather]

theorem gather_succ_cons {β : Type} (keep : List Nat) (w : β) (W : List β) :
    gather (keep.map Nat.succ) (w :: W) = gather keep W := by
  unfold gather
  rw [List.filterMap_map]
  congr 1

/-- `[w for w, pm in zip(W, mask) if pm]` is `W[np.where(mask)[0]]`, whatever the two lengths -/
theorem zip_filter_eq_gather {β : Type} (mask : List Bool) :
    ∀ W : List β, ((List.zip W mask).filter (fun (_, pm) => pm)).map (fun (w, _) => w) = gather (keepIdx mask) W := by
  induction mask with
  | nil => intro W; simp [keepIdx, gather]
  | cons b m ih =>
    intro W
    cases W with
    | nil => simp [gather_nil]
    | cons w W =>
      rw [keepIdx_cons, List.zip_cons_cons, List.filter_cons]
      cases b
      · simp only [Bool.false_eq_true, if_false, List.nil_append, gather_succ_cons]
        exact ih W
      · simp only [if_true, List.map_cons, List.cons_append, List.nil_append]
        rw [ih W]
        simp only [gather, List.filterMap_cons, List.getElem?_cons_zero]
        congr 1
        exact (gather_succ_cons (keepIdx m) w W).symm

/-- fancy indexing with in-range indices is the model's `gather` -/
theorem npTake_eq_gather {β : Type} [Inhabited β] (l : List β) (keep : List Nat) (h : ∀ i ∈ keep, i < l.length) :
    npTake l keep = gather keep l := by
  unfold npTake gather
  induction keep with
  | nil => rfl
  | cons a t ih =>
    have ha : a < l.length := h a (by simp)
    simp only [List.map_cons, List.filterMap_cons, List.getElem?_eq_getElem ha]
    rw [ih (fun i hi => h i (by simp [hi]))]
    simp [ha]

theorem mem_gather {β : Type} {keep : List Nat} {l : List β} {r : β} (h : r ∈ gather keep l) : r ∈ l := by
  simp only [gather, List.mem_filterMap] at h
  obtain ⟨a, _, ha⟩ := h
  exact List.mem_of_getElem? ha

/-- `adjacency[keep][:, keep]` is the model's sub-matrix when every kept index is a row and a column -/
theorem subMatrix_eq (adj : List (List Nat)) (keep : List Nat) (hr : ∀ i ∈ keep, i < adj.length)
    (hc : ∀ r ∈ adj, ∀ i ∈ keep, i < r.length) :
    npTakeCols (npTake adj keep) keep = (gather keep adj).map (gather keep) := by
  rw [npTake_eq_gather adj keep hr]
  unfold npTakeCols
  apply List.map_congr_left
  intro r hrm
  exact npTake_eq_gather r keep (hc r (mem_gather hrm))

/-- `label in perm_labels` -/
theorem npContains_iff (keep : List Nat) (l : Int) : npContains keep l = true ↔ 0 ≤ l ∧ l.toNat ∈ keep := by
  unfold npContains npEq
  simp only [List.any_map, List.any_eq_true, Function.comp, id, decide_eq_true_eq]
  constructor
  · rintro ⟨p, hp, rfl⟩
    exact ⟨Int.natCast_nonneg p, by simpa using hp⟩
  · rintro ⟨h0, hm⟩
    exact ⟨l.toNat, hm, by simp [Int.toNat_of_nonneg h0]⟩

/-- `np.where(perm_labels == label)[0][0]` is the position of `label` in `perm_labels` -/
theorem whereFrom_npEq_head (keep : List Nat) (a : Nat) (ha : a ∈ keep) :
    ∀ k, (whereFrom k (npEq keep (Int.ofNat a))).head? = some (k + keep.idxOf a) := by
  induction keep with
  | nil => simp at ha
  | cons p ps ih =>
    intro k
    by_cases hpa : p = a
    · subst hpa
      simp [npEq, whereFrom]
    · have hmem : a ∈ ps := by
        rcases List.mem_cons.mp ha with h | h
        · exact absurd h.symm hpa
        · exact h
      have hne : ¬ (Int.ofNat p = Int.ofNat a) := by
        intro h; exact hpa (Int.ofNat.inj h)
      have := ih hmem (k + 1)
      simp only [npEq] at this
      simp only [npEq, List.map_cons, whereFrom, hne, decide_false, Bool.false_eq_true, if_false, this]
      have hb : (p == a) = false := by simpa using hpa
      rw [List.idxOf_cons, hb]
      simp only [cond_false]
      congr 1; omega

theorem npWhere_npEq_first (keep : List Nat) (a : Nat) (ha : a ∈ keep) :
    (npWhere (npEq keep (Int.ofNat a)))[0]! = keep.idxOf a := by
  have := whereFrom_npEq_head keep a ha 0
  rw [npWhere, List.getElem!_eq_getElem?_getD, ← List.head?_eq_getElem?, this]
  simp

theorem mem_insertUniq (x a : Int) (l : List Int) : a ∈ insertUniq x l ↔ a = x ∨ a ∈ l := by
  induction l with
  | nil => simp [insertUniq]
  | cons y ys ih =>
    unfold insertUniq
    split
    · simp
    · split
      · rename_i _ hxy; subst hxy; simp
      · simp only [List.mem_cons, ih]
        constructor
        · rintro (h | h | h)
          · exact Or.inr (Or.inl h)
          · exact Or.inl h
          · exact Or.inr (Or.inr h)
        · rintro (h | h | h)
          · exact Or.inr (Or.inl h)
          · exact Or.inl h
          · exact Or.inr (Or.inr h)

/-- `np.unique` has the same members as its argument -/
theorem mem_npUnique (a : Int) (l : List Int) : a ∈ npUnique l ↔ a ∈ l := by
  unfold npUnique
  induction l with
  | nil => simp
  | cons x xs ih => simp only [List.foldr_cons, mem_insertUniq, ih, List.mem_cons]

/-- lookup in a dict whose values are a function of the key -/
theorem dictGet_map {ν : Type} (f : Int → ν) (ks : List Int) (q : Int) :
    dictGet (ks.map (fun k => (k, f k))) q = if q ∈ ks then some (f q) else none := by
  induction ks with
  | nil => simp [dictGet]
  | cons k ks ih =>
    simp only [List.map_cons, dictGet, ih]
    by_cases hq : q ∈ ks
    · simp [hq]
    · simp only [hq, if_false, List.mem_cons, or_false]
      by_cases hk : k = q
      · subst hk; simp
      · have : ¬ q = k := fun h => hk h.symm
        simp [hk, this]

/-- **the `label_map` dict of `prune`**: an old label is a key iff it occurs in `labels_` and its category survives;
its value is the category's new index -/
theorem label_map_get (labels : List Int) (keep : List Nat) (l : Int) :
    dictGet (((npUnique labels).filter (fun label => npContains keep label)).map
        (fun label => (label, (npWhere (npEq keep label))[0]!))) l
      = if l ∈ labels ∧ (0 ≤ l ∧ l.toNat ∈ keep) then some (keep.idxOf l.toNat) else none := by
  rw [dictGet_map (fun label => (npWhere (npEq keep label))[0]!)]
  simp only [List.mem_filter, mem_npUnique, npContains_iff]
  by_cases h : l ∈ labels ∧ (0 ≤ l ∧ l.toNat ∈ keep)
  · rw [if_pos h, if_pos h]
    obtain ⟨n, rfl⟩ : ∃ n : Nat, l = Int.ofNat n := ⟨l.toNat, by simp [Int.toNat_of_nonneg h.2.1]⟩
    have hn : n ∈ keep := by simpa using h.2.2
    rw [npWhere_npEq_first keep n hn]
    simp
  · rw [if_neg h, if_neg h]

theorem set_getElem!_eq_modify {β : Type} [Inhabited β] (l : List β) (i : Nat) (f : β → β) :
    l.set i (f l[i]!) = l.modify i f := by
  apply List.ext_getElem?
  intro j
  rw [List.getElem?_set, List.getElem?_modify]
  by_cases hij : i = j
  · subst hij
    by_cases hi : i < l.length
    · simp [hi]
    · simp [hi]
  · simp [hij]

/-- `adjacency[i, j] += 1` is the model's `incAdj` -/
theorem npAddAt2_eq_incAdj (a : List (List Nat)) (i j : Nat) : npAddAt2 a i j 1 = incAdj i j a := by
  unfold npAddAt2 incAdj
  rw [set_getElem!_eq_modify (a[i]!) j (· + 1)]
  exact set_getElem!_eq_modify a i (fun row => row.modify j (· + 1))

theorem npCols_eq_adjCols (a : List (List Nat)) : npCols a = adjCols a := by
  cases a <;> rfl

/-- `np.pad(adjacency, ((0, 1), (0, 1)), "constant")` is the model's `padAdj` -/
theorem npPad2_eq_padAdj (a : List (List Nat)) : npPad2 a 0 1 0 1 = padAdj a := by
  unfold npPad2 padAdj
  simp [npCols_eq_adjCols]

end Helpers

/-! ## B. the generated methods against the model -/

section Spec
variable {X Wt P C α μ : Type} [LinearOrder α] [Inhabited Wt] [Inhabited C]

/-- the model state of a generated `self` -/
def toState (s : Self Wt P) : TopoState Wt :=
  { W := s.W, cnt := s.cnt, adj := s.adj, perm := s.perm, labels := s.labels, n := s.n }

/-- a generated `self` whose model-visible attributes are replaced by those of `t` (`params`, `phi`, `tau` stay) -/
def withState (s : Self Wt P) (t : TopoState Wt) : Self Wt P :=
  { s with W := t.W, cnt := t.cnt, adj := t.adj, perm := t.perm, labels := t.labels, n := t.n }

/-- **the inherited hooks `pre_step_fit` and `post_fit` do nothing** -/
theorem hooks_spec (E : Ext X Wt P C α) (self : Self Wt P) (Xs : List X) :
    Art.Gen.TopoART.pre_step_fit E self Xs = (self, ()) ∧ Art.Gen.TopoART.post_fit E self Xs = (self, ()) :=
  ⟨rfl, rfl⟩

/-- **`set_weight`** (inherited from `BaseART`): the counter of the category is incremented (the model's
`cnt.modify b (· + 1)`) and its weight replaced; with the weight `f W[idx]` this is the model's `W.modify idx f` -/
theorem set_weight_spec (E : Ext X Wt P C α) (self : Self Wt P) (idx : Nat) (f : Wt → Wt) :
    Art.Gen.TopoART.set_weight E self idx (f self.W[idx]!) =
      ({ self with W := self.W.modify idx f, cnt := self.cnt.modify idx (· + 1) }, ()) := by
  unfold Art.Gen.TopoART.set_weight
  simp only [set_getElem!_eq_modify self.cnt idx (· + 1), set_getElem!_eq_modify self.W idx f]

/-- **`add_weight`**: weight and counter `1` appended, the mask padded with `False`, the adjacency matrix padded
with a zero row and column (`padAdj`) — or re-created as `[[0]]` when the model was empty -/
theorem add_weight_spec (E : Ext X Wt P C α) (self : Self Wt P) (w : Wt) :
    Art.Gen.TopoART.add_weight E self w =
      ({ self with W := self.W ++ [w], cnt := self.cnt ++ [1], perm := self.perm ++ [false],
                   adj := if self.W.length == 0 then [[0]] else padAdj self.adj }, ()) := by
  unfold Art.Gen.TopoART.add_weight
  simp only [npPad2_eq_padAdj, npPad1, npZeros2, List.replicate, List.nil_append]

omit [Inhabited Wt] [Inhabited C] in
theorem toState_withState (s : Self Wt P) (t : TopoState Wt) : toState (withState s t) = t := rfl

/-- **`add_weight` is the new-category branch of the model's `applyTopo`** (which also counts the sample: `n + 1`
is `step_fit`'s own `self.sample_counter_ += 1`) on a non-empty model -/
theorem add_weight_model (K : TopoKernel X Wt α μ) (E : Ext X Wt P C α) (self : Self Wt P) (x : X)
    (sec : Option Nat) (hne : self.W ≠ []) :
    toState (Art.Gen.TopoART.add_weight E self (K.newW x)).1 =
      { (applyTopo K (toState self) x none sec).1 with n := self.n } := by
  rw [add_weight_spec]
  have : (self.W.length == 0) = false := by
    cases h : self.W with
    | nil => exact absurd h hne
    | cons _ _ => simp
  simp only [this, toState, applyTopo]
  rfl

/-- **`update`**: when the cache names a first winner (`resonant_c >= 0`) the edge `(resonant_c, current_c)` of the
adjacency matrix is incremented — the model's `incAdj` — and the new weight is the base module's -/
theorem update_spec (E : Ext X Wt P C α) (self : Self Wt P) (i : X) (w : Wt) (p : P) (c : C) :
    Art.Gen.TopoART.update E self i w p c =
      (match E.cache_int c "resonant_c" with
        | some r => if 0 ≤ r then
            { self with adj := incAdj r.toNat ((E.cache_int c "current_c").get!).toNat self.adj } else self
        | none => self,
       E.update i w p c) := by
  unfold Art.Gen.TopoART.update
  simp only [npAddAt2_eq_incAdj]
  cases h : E.cache_int c "resonant_c" with
  | none => simp
  | some r =>
    by_cases hr : 0 ≤ r
    · simp [hr]
    · simp [hr]

/-- the part of the kernel contract that `prune` needs: activations are the model kernel's, with the estimator's
own `params` (what `BaseART.step_pred` passes) -/
def ChoiceContract (K : TopoKernel X Wt α μ) (E : Ext X Wt P C α) (p : P) : Prop :=
  ∀ (W : List Wt) (x : X) (w : Wt), (E.category_choice W x w p).1 = K.choice W x w

theorem argmaxNp_nil : argmaxNp ([] : List (Option α)) = none := by
  simp [argmaxNp, nanargmax, nanargmaxV]

/-- **`TopoART.step_pred`** (`-1` on an empty model, else `BaseART.step_pred`, whose `category_choice` calls are
forwarded to the base module) is the model's `topoPredLabel` and leaves the estimator unchanged -/
theorem step_pred_spec (K : TopoKernel X Wt α μ) (E : Ext X Wt P C α) (self : Self Wt P) (x : X)
    (hch : ChoiceContract K E self.params) :
    Art.Gen.TopoART.step_pred E self x = (self, topoPredLabel K self.W x) := by
  obtain ⟨W, cnt, adj, perm, labels, n, params, phi, tau⟩ := self
  unfold Art.Gen.TopoART.step_pred Art.Gen.TopoART.BaseART_step_pred topoPredLabel topoActivations
  simp only [List.map_map]
  have : (Prod.fst ∘ fun w => E.category_choice W x w params) = K.choice W x := by
    funext w; exact hch W x w
  rw [this]
  cases W with
  | nil => simp [argmaxNp_nil]
  | cons w0 ws =>
    obtain ⟨c, hc⟩ := argmaxNp_isSome (T := (w0 :: ws).map (K.choice (w0 :: ws) x)) (by simp)
    rw [List.map_cons] at hc
    simp [hc]

/-- the relabelling loop of `prune`, abstractly: a loop over `enumerate(X)` whose body rewrites `labels_[i]` from its
own old value leaves `labels_.mapIdx …` — as long as the body behaves so on every vector that still agrees with the
original one from position `i` on -/
theorem relabel_loop {R S' : Type} (g : X → Int → Int) (L0 : List Int) (r : S')
    (body : List Int × S' → X × Nat → Flow R (List Int × S'))
    (hbody : ∀ (L : List Int) (x : X) (i : Nat), (∀ j, i ≤ j → L[j]? = L0[j]?) →
        body (L, r) (x, i) = .next (L.set i (g x L[i]!), r)) :
    ∀ (xs : List X) (k : Nat) (L : List Int), (∀ j, k ≤ j → L[j]? = L0[j]?) →
      ∃ L', forEach body (xs.zipIdx k) (L, r) = .next (L', r) ∧
        ∀ j, L'[j]? = if k ≤ j then (match xs[j - k]? with
                                      | some x => (L[j]?).map (g x)
                                      | none => L[j]?) else L[j]? := by
  intro xs
  induction xs with
  | nil =>
    intro k L _
    refine ⟨L, rfl, ?_⟩
    intro j; simp
  | cons x xs ih =>
    intro k L hL
    rw [List.zipIdx_cons, forEach, hbody L x k hL]
    obtain ⟨L', hrun, hget⟩ := ih (k + 1) (L.set k (g x L[k]!)) (by
      intro j hj
      rw [List.getElem?_set_ne (by omega)]
      exact hL j (by omega))
    refine ⟨L', hrun, ?_⟩
    intro j
    rw [hget j]
    by_cases h1 : k + 1 ≤ j
    · have h2 : k ≤ j := by omega
      have h3 : j - k = (j - (k + 1)) + 1 := by omega
      rw [if_pos h1, if_pos h2, h3, List.getElem?_cons_succ, List.getElem?_set_ne (by omega)]
    · rw [if_neg h1]
      by_cases h2 : k ≤ j
      · have hjk : j = k := by omega
        subst hjk
        rw [if_pos h2, Nat.sub_self, List.getElem?_cons_zero]
        by_cases hlt : j < L.length
        · simp [hlt]
        · simp [hlt]
      · rw [if_neg h2, List.getElem?_set_ne (by omega)]

/-- one iteration of the generated relabelling loop writes the model's `relabel` of the row's old label — on every
label vector that still agrees with the original `labels0` from position `i` on (so that `labels_[i]`, when it
exists, is one of the keys `np.unique(labels_)` offered to `label_map`) -/
theorem prune_body_spec (K : TopoKernel X Wt α μ) (E : Ext X Wt P C α) (labels0 : List Int) (keep : List Nat)
    (W' : List Wt) (cnt' : List Nat) (adj' : List (List Nat)) (perm' : List Bool) (n : Nat) (params : P)
    (phi tau : Nat) (hch : ChoiceContract K E params)
    (L : List Int) (x : X) (i : Nat) (hL : ∀ j, i ≤ j → L[j]? = labels0[j]?) :
    Art.Gen.TopoART.prune_loop1_body E
        (((npUnique labels0).filter (fun label => npContains keep label)).map
          (fun label => (label, (npWhere (npEq keep label))[0]!)))
        (L, W', cnt', adj', perm', n, params, phi, tau) (x, i)
      = .next (L.set i (relabel K keep W' x L[i]!), W', cnt', adj', perm', n, params, phi, tau) := by
  have hsp := step_pred_spec K E
    { W := W', cnt := cnt', adj := adj', perm := perm', labels := L, n := n, params := params, phi := phi, tau := tau } x hch
  have hmem : i < L.length → L[i]! ∈ labels0 := by
    intro hi
    have h1 := hL i (Nat.le_refl i)
    rw [List.getElem?_eq_getElem hi] at h1
    have : L[i]! = L[i] := by simp [hi]
    rw [this]
    exact List.mem_of_getElem? h1.symm
  unfold Art.Gen.TopoART.prune_loop1_body relabel
  simp only [label_map_get, hsp]
  generalize L[i]! = l at *
  by_cases hi : i < L.length
  · have hm := hmem hi
    by_cases hc : 0 ≤ l ∧ l.toNat ∈ keep
    · simp [hm, hc]
    · simp only [hm, hc, and_false, if_false, Option.isSome_none, Bool.false_eq_true]
      cases W' with
      | nil => simp
      | cons w ws => simp
  · have hset : ∀ v : Int, L.set i v = L := fun v => List.set_eq_of_length_le (Nat.le_of_not_lt hi)
    simp only [hset]
    split <;> [skip; split] <;> simp

/-- the shape hypothesis under which `self.adjacency[perm_labels][:, perm_labels]` does not raise in Python: every
surviving index is a row and a column of the adjacency matrix (part of C14's `ShapeInv`) -/
def AdjCovers (phi : Nat) (s : TopoState Wt) : Prop :=
  (∀ i ∈ pruneKeep phi s, i < s.adj.length) ∧ (∀ r ∈ s.adj, ∀ i ∈ pruneKeep phi s, i < r.length)

omit [Inhabited Wt] in
theorem AdjCovers.of_shape {phi : Nat} {s : TopoState Wt} (hs : ShapeInv s) : AdjCovers phi s := by
  have hk := pruneKeep_lt (phi := phi) hs
  refine ⟨fun i hi => by rw [hs.adj_len]; exact hk i hi, ?_⟩
  intro r hr i hi
  obtain ⟨j, hj⟩ := List.getElem?_of_mem hr
  rw [hs.row_len j r hj]
  exact hk i hi

/-- **`TopoART.prune` as generated from the source is the model's `prune`** — for every state (whatever the lengths of
`W`, the counters, the mask and `labels_`), every data matrix and every `phi`, provided the sub-matrix selection is in
range (`AdjCovers`; implied by `ShapeInv`).  `params`, `phi`, `tau` are not touched. -/
theorem prune_spec (K : TopoKernel X Wt α μ) (E : Ext X Wt P C α) (self : Self Wt P) (Xs : List X)
    (hch : ChoiceContract K E self.params) (hadj : AdjCovers self.phi (toState self)) :
    Art.Gen.TopoART.prune E self Xs = (withState self (Art.prune K self.phi (toState self) Xs), ()) := by
  have hmask : npOr self.perm (npGe self.cnt self.phi) = pruneMask self.phi (toState self) :=
    npOr_npGe self.phi (toState self)
  have hml : (pruneMask self.phi (toState self)).length = min self.perm.length self.cnt.length :=
    pruneMask_length _ _
  have hkeep : ∀ i ∈ keepIdx (pruneMask self.phi (toState self)), i < min self.perm.length self.cnt.length := by
    intro i hi; rw [← hml]; exact (mem_keepIdx.mp hi).1
  have hcnt : (keepIdx (pruneMask self.phi (toState self))).map (fun i => self.cnt[i]!)
      = gather (keepIdx (pruneMask self.phi (toState self))) self.cnt :=
    npTake_eq_gather self.cnt _ (fun i hi => by have := hkeep i hi; omega)
  have hperm : npTake (pruneMask self.phi (toState self)) (keepIdx (pruneMask self.phi (toState self)))
      = gather (keepIdx (pruneMask self.phi (toState self))) (pruneMask self.phi (toState self)) :=
    npTake_eq_gather _ _ (fun i hi => (mem_keepIdx.mp hi).1)
  have hsub := subMatrix_eq self.adj (keepIdx (pruneMask self.phi (toState self))) hadj.1 hadj.2
  have hw : npWhere (pruneMask self.phi (toState self)) = keepIdx (pruneMask self.phi (toState self)) := npWhere_eq _
  unfold Art.Gen.TopoART.prune
  simp only [hmask, hw, zip_filter_eq_gather, hcnt, hperm, hsub]
  obtain ⟨L', hrun, hget⟩ := relabel_loop (R := Self Wt P × Unit)
    (fun x l => relabel K (keepIdx (pruneMask self.phi (toState self)))
      (gather (keepIdx (pruneMask self.phi (toState self))) self.W) x l) self.labels
    (gather (keepIdx (pruneMask self.phi (toState self))) self.W,
      gather (keepIdx (pruneMask self.phi (toState self))) self.cnt,
      (gather (keepIdx (pruneMask self.phi (toState self))) self.adj).map
        (gather (keepIdx (pruneMask self.phi (toState self)))),
      gather (keepIdx (pruneMask self.phi (toState self))) (pruneMask self.phi (toState self)),
      self.n, self.params, self.phi, self.tau)
    _ (fun L x i hL => prune_body_spec K E self.labels _ _ _ _ _ _ _ _ _ hch L x i hL) Xs 0 self.labels
    (fun _ _ => rfl)
  rw [hrun]
  have hL' : L' = self.labels.mapIdx (fun i l =>
      match Xs[i]? with
      | some x => relabel K (keepIdx (pruneMask self.phi (toState self)))
          (gather (keepIdx (pruneMask self.phi (toState self))) self.W) x l
      | none => l) := by
    apply List.ext_getElem?
    intro j
    rw [hget j, List.getElem?_mapIdx]
    simp only [Nat.zero_le, if_true, Nat.sub_zero]
    cases Xs[j]? <;> cases self.labels[j]? <;> rfl
  rw [hL']
  rfl

/-- `prune` does not touch `params`, `phi`, `tau` (and `sample_counter_`) -/
theorem prune_params (K : TopoKernel X Wt α μ) (E : Ext X Wt P C α) (self : Self Wt P) (Xs : List X)
    (hch : ChoiceContract K E self.params) (hadj : AdjCovers self.phi (toState self)) :
    (Art.Gen.TopoART.prune E self Xs).1.params = self.params ∧ (Art.Gen.TopoART.prune E self Xs).1.phi = self.phi ∧
    (Art.Gen.TopoART.prune E self Xs).1.tau = self.tau ∧ (Art.Gen.TopoART.prune E self Xs).1.n = self.n := by
  rw [prune_spec K E self Xs hch hadj]
  exact ⟨rfl, rfl, rfl, rfl⟩

/-- **`post_step_fit`**: the generated `prune` runs exactly when `sample_counter_ > 0` and
`sample_counter_ % tau == 0` (no hypothesis) -/
theorem post_step_fit_spec (E : Ext X Wt P C α) (self : Self Wt P) (Xs : List X) :
    Art.Gen.TopoART.post_step_fit E self Xs =
      (if 0 < self.n ∧ self.n % self.tau = 0 then (Art.Gen.TopoART.prune E self Xs).1 else self, ()) := by
  unfold Art.Gen.TopoART.post_step_fit
  by_cases h : 0 < self.n ∧ self.n % self.tau = 0
  · simp [h]
  · rw [if_neg h]
    have : (decide (self.n > 0) && (self.n % self.tau == 0)) = false := by
      simp only [Bool.and_eq_false_iff, decide_eq_false_iff_not, beq_eq_false_iff_ne]
      by_cases h0 : 0 < self.n
      · exact Or.inr (fun h1 => h ⟨h0, h1⟩)
      · exact Or.inl h0
    simp [this]

/-- **`post_step_fit` is the pruning trigger of the model's `topoFitStep`** (`if s.n % tau == 0 then prune … else s`)
once a sample has been counted (`step_fit` increments `sample_counter_` first, so `0 < n` always holds there; the
source's extra test `sample_counter_ > 0` is then redundant — the model omits it) -/
theorem post_step_fit_model (K : TopoKernel X Wt α μ) (E : Ext X Wt P C α) (self : Self Wt P) (Xs : List X)
    (hch : ChoiceContract K E self.params) (hadj : AdjCovers self.phi (toState self)) (hn : 0 < self.n) :
    toState (Art.Gen.TopoART.post_step_fit E self Xs).1 =
      (if (toState self).n % self.tau == 0 then Art.prune K self.phi (toState self) Xs else toState self) := by
  rw [post_step_fit_spec, prune_spec K E self Xs hch hadj]
  by_cases h : self.n % self.tau = 0
  · simp [hn, h, toState, withState]
  · simp [h, toState]

/-! ## C. C14's pruning theorems hold of the generated `prune` -/

/-- **the generated `prune` preserves the shape invariant**: afterwards the adjacency matrix is square with one row
and one column per surviving category, counters and mask have one entry per category, the diagonal is zero
(`ArtProofs.Topo.prune_shape` transported) -/
theorem gen_prune_shape (K : TopoKernel X Wt α μ) (E : Ext X Wt P C α) (self : Self Wt P) (Xs : List X)
    (hch : ChoiceContract K E self.params) (hs : ShapeInv (toState self)) :
    ShapeInv (toState (Art.Gen.TopoART.prune E self Xs).1) := by
  rw [prune_spec K E self Xs hch (AdjCovers.of_shape hs)]
  exact prune_shape K self.phi (toState self) Xs hs

/-- **the generated `prune` keeps exactly the right set** (`C14.prune_keeps_exactly` transported): category `i`
survives iff it was permanent or has at least `phi` samples; as many categories remain as survivors; all of them are
permanent afterwards -/
theorem gen_prune_keeps_exactly (K : TopoKernel X Wt α μ) (E : Ext X Wt P C α) (self : Self Wt P) (Xs : List X)
    (hch : ChoiceContract K E self.params) (hs : ShapeInv (toState self)) :
    (∀ i, i ∈ pruneKeep self.phi (toState self) ↔
      i < self.W.length ∧ (self.perm[i]? = some true ∨ ∃ c, self.cnt[i]? = some c ∧ self.phi ≤ c)) ∧
    (Art.Gen.TopoART.prune E self Xs).1.W.length = (pruneKeep self.phi (toState self)).length ∧
    (∀ b ∈ (Art.Gen.TopoART.prune E self Xs).1.perm, b = true) := by
  rw [prune_spec K E self Xs hch (AdjCovers.of_shape hs)]
  exact Art.C14.prune_keeps_exactly K self.phi (toState self) Xs hs

/-- **after the generated `prune` every label of a row of `X` indexes a surviving category or is `-1`**
(`ArtProofs.Topo.prune_labels_ok` transported) -/
theorem gen_prune_labels_ok (K : TopoKernel X Wt α μ) (E : Ext X Wt P C α) (self : Self Wt P) (Xs : List X)
    (hch : ChoiceContract K E self.params) (hs : ShapeInv (toState self)) (hlen : self.labels.length ≤ Xs.length) :
    ∀ (i : Nat) (l : Int), (Art.Gen.TopoART.prune E self Xs).1.labels[i]? = some l →
      l = -1 ∨ (0 ≤ l ∧ l < ((Art.Gen.TopoART.prune E self Xs).1.W.length : Int)) := by
  rw [prune_spec K E self Xs hch (AdjCovers.of_shape hs)]
  exact prune_labels_ok (K := K) (phi := self.phi) (toState self) Xs hs hlen

/-- **the generated `prune` re-indexes the adjacency matrix by the survivors** (`C14.prune_reindex_consistent`
transported): entry `(j, k)` of the new matrix is entry `(ι[j], ι[k])` of the old one, `ι` the ascending list of
surviving old indices; it has `|ι|` rows -/
theorem gen_prune_adj (K : TopoKernel X Wt α μ) (E : Ext X Wt P C α) (self : Self Wt P) (Xs : List X)
    (hch : ChoiceContract K E self.params) (hs : ShapeInv (toState self)) :
    let ι := pruneKeep self.phi (toState self)
    ι.Pairwise (· < ·) ∧ (Art.Gen.TopoART.prune E self Xs).1.adj.length = ι.length ∧
    ∀ j (hj : j < ι.length) k (hk : k < ι.length),
      adjAt (Art.Gen.TopoART.prune E self Xs).1.adj j k = adjAt self.adj ι[j] ι[k] := by
  rw [prune_spec K E self Xs hch (AdjCovers.of_shape hs)]
  have h := Art.C14.prune_reindex_consistent K self.phi (toState self) Xs hs
  simp only at h
  exact ⟨h.1, h.2.2.2.2.2.1, fun j hj k hk => (h.2.2.2.2.2.2.1 j hj).2.2.2 k hk⟩

end Spec

/-! ## D. non-vacuity: the generated code runs on concrete data -/

section Example

/-- a one-dimensional toy base module: activation `-|x - w|`, cache unused -/
def exE : Ext Int Int Unit Unit Int :=
  { category_choice := fun _ x w _ => (some (-(x - w).natAbs : Int), ()),
    match_criterion_bin := fun _ _ _ _ _ => (true, ()),
    update := fun x _ _ _ => x,
    new_weight := fun x _ => x,
    match_tracking := fun _ _ p _ => (true, p),
    operator := fun _ => false,
    noneC := (),
    cache_int := fun _ k => if k == "resonant_c" then some 0 else if k == "current_c" then some 2 else none }

/-- three categories (counts 3, 1, 2), an edge 0→1 and an edge 2→0; four rows labelled 0, 1, 2, 1 -/
def exSelf : Self Int Unit :=
  { W := [0, 10, 20], cnt := [3, 1, 2], adj := [[0, 1, 0], [0, 0, 0], [1, 0, 0]], perm := [false, false, false],
    labels := [0, 1, 2, 1], n := 4, params := (), phi := 2, tau := 4 }

/-- `prune` drops category 1 (one sample < phi = 2), keeps 0 and 2 (re-indexed 0 and 1), takes the sub-matrix, maps
labels 0 ↦ 0 and 2 ↦ 1 and re-predicts the two orphans (9 is nearest to 0, 18 nearest to 20) -/
example : toState (Art.Gen.TopoART.prune exE exSelf [1, 9, 21, 18]).1 =
    { W := [0, 20], cnt := [3, 2], adj := [[0, 0], [1, 0]], perm := [true, true], labels := [0, 0, 1, 1], n := 4 } := by
  decide +kernel

/-- `post_step_fit` prunes at `n = 4 = tau` and not at `n = 3` -/
example : (Art.Gen.TopoART.post_step_fit exE exSelf [1, 9, 21, 18]).1.W = [0, 20] ∧
    (Art.Gen.TopoART.post_step_fit exE { exSelf with n := 3 } [1, 9, 21, 18]).1.W = [0, 10, 20] := by decide +kernel

/-- `add_weight` pads, `update` increments the edge (0, 2) named by the cache -/
example : (Art.Gen.TopoART.add_weight exE exSelf 30).1.adj = [[0, 1, 0, 0], [0, 0, 0, 0], [1, 0, 0, 0], [0, 0, 0, 0]] ∧
    (Art.Gen.TopoART.add_weight exE exSelf 30).1.perm = [false, false, false, false] ∧
    (Art.Gen.TopoART.update exE exSelf 5 0 () ()).1.adj = [[0, 1, 1], [0, 0, 0], [1, 0, 0]] := by decide +kernel

end Example

end Art.GenSpec.Topo
