/-
ArtGenProofs.BartmapSpec — BARTMAP (`artlib/biclustering/BARTMAP.py`), as translated from the Python source by
`harness/artv/btrans.py` (ArtGen/Bartmap.lean), computes the definitions of `ArtModel/Bartmap.lean` that the C17
property theorems are stated about — for all matrices, all states of the two nested modules, every `eta`, every
`pearsonr` / `np.mean`.  The two nested ART modules are abstract objects (`ModOps`); what is assumed of them is the
structure `Tie` (their `fit` / `step_fit` / attribute reads and writes are the generic training functions of
ArtModel/Search on the state read off by `st`); `exTie` shows the assumptions satisfiable and the section
`Example` runs the generated code.

  get_x_cb_spec, average_pearson_corr_spec, match_criterion_bin_spec, match_reset_func_spec
        the translated correlation test = the reference definitions `selCols`, `avgCorr`, `critOf`, `resetOf` below
        (the model has no definition for it: the veto is an oracle parameter of `bartmapFit`)
  average_pearson_corr_nonsquare, gen_reset_nonsquare_raises
        finding F13 as a theorem about the generated code: the column mask indexes the *rows* of the matrix, so on a
        matrix with #rows ≠ #columns the correlation test raises whenever it is asked
  step_fit_spec         BARTMAP.step_fit = module_a.step_fit under the (row-index dependent, category independent) test
  properties_spec       row_labels_ / column_labels_ / n_row_clusters / n_column_clusters read the modules
  fit_epochs_spec       fit(X, max_iter) : module_b = fitEpochs alone, module_a = fitEpochs of the row kernel under the
                        veto `vetoOf (resetOf …)`, rows_ / columns_ = rowsOf / columnsOf
  fit_spec              fit(X, 1) = the model's `bartmapFit`
  gen_fit_shapes, gen_fit_partition, gen_fit_membership, gen_fit_columns_alone   C17 transported to the generated `fit`
Hypotheses of `fit_spec` (outside them the generated code is `none` = the Python code raises, where the model has no
exception): the matrix has at least one row and the prepared transpose at least one row (`np.vstack([])`); the
correlation test is defined for every row index (F13: it is not on non-square matrices, nor when `pearsonr` raises).
-/
import ArtGen.Bartmap
import ArtProps.C17
import Mathlib.Data.Nat.Basic

set_option linter.unusedSectionVars false

namespace Art.GenSpec.Bartmap
open Art Art.Bartmap Art.ImpBartmap Art.Gen.BARTMAP

/-! ### small facts about the target language -/

section Basics
variable {β γ : Type}

theorem mapM_some (f : β → γ) (l : List β) : l.mapM (fun a => (some (f a) : Option γ)) = some (l.map f) := by
  induction l with
  | nil => rfl
  | cons a l ih => simp [List.mapM_cons, ih]

theorem mapM_congr (f g : β → Option γ) (l : List β) (h : ∀ a ∈ l, f a = g a) : l.mapM f = l.mapM g := by
  induction l with
  | nil => rfl
  | cons a l ih =>
    simp only [List.mapM_cons]
    rw [h a (by simp), ih (fun b hb => h b (by simp [hb]))]

theorem npVstack_uniform (rows : List (List β)) (w : Nat) (hne : rows ≠ []) (h : ∀ r ∈ rows, r.length = w) :
    npVstack rows = some rows := by
  cases rows with
  | nil => exact absurd rfl hne
  | cons r rs =>
    have hr := h r (by simp)
    have : rs.all (fun r' => r'.length == r.length) = true := by
      rw [List.all_eq_true]
      intro r' hr'
      simp [h r' (by simp [hr']), hr]
    simp [npVstack, this]

end Basics

/-! ### the correlation test: reference definitions (hand-written) and `generated = reference` -/

section Ref
variable {α : Type} [LE α] [DecidableRel (α := α) (· ≤ ·)]

/-- `_get_x_cb`: the entries of `x` in the columns that carry label `c_b` -/
def selCols (colLabels : List Nat) (x : List α) (c_b : Nat) : Option (List α) :=
  npMask x (colLabels.map (· == c_b))

/-- `_average_pearson_corr(X, k, c_b)`: the mean, over the members of the cluster, of the correlation between row `k`
and the member, both restricted to the columns of cluster `c_b`.  As in the code (finding F13) the *members* are the
rows of `X` selected by the *column* mask. -/
def avgCorr (pearsonr : List α → List α → Option (α × α)) (mean : List α → α) (colLabels : List Nat)
    (X : List (List α)) (k c_b : Nat) : Option α :=
  match npMask X (colLabels.map (· == c_b)) with
  | none => none
  | some members =>
    if members.length = 0 then none
    else
      match X[k]? with
      | none => none
      | some xk =>
        match selCols colLabels xk c_b with
        | none => none
        | some xkc =>
          (members.mapM (fun xa => (selCols colLabels xa c_b).bind (fun xac => (pearsonr xkc xac).map (·.1)))).map mean

/-- `match_criterion_bin`: `M >= eta` -/
def critOf (pearsonr : List α → List α → Option (α × α)) (mean : List α → α) (eta : α) (colLabels : List Nat)
    (X : List (List α)) (k c_b : Nat) : Option Bool :=
  (avgCorr pearsonr mean colLabels X k c_b).map (fun M => decide (eta ≤ M))

/-- the loop of `match_reset_func`: the first column cluster that raises makes the call raise, the first one that
passes answers `True`; none passes: `False` -/
def anyCrit (crit : Nat → Option Bool) : List Nat → Option Bool
  | [] => some false
  | c :: cs =>
    match crit c with
    | none => none
    | some true => some true
    | some false => anyCrit crit cs

/-- `match_reset_func` with `extra = {"k": k}`, for `nb` column clusters -/
def resetOf (pearsonr : List α → List α → Option (α × α)) (mean : List α → α) (eta : α) (colLabels : List Nat)
    (nb : Nat) (X : List (List α)) (k : Nat) : Option Bool :=
  anyCrit (critOf pearsonr mean eta colLabels X k) (List.range nb)

variable {MA MB SA SB WA WB P C : Type}
variable (opsA : ModOps MA SA WA P C α) (opsB : ModOps MB SB WB P C α)
  (pearsonr : List α → List α → Option (α × α)) (mean : List α → α) (eta : α)

/-- **`_get_x_cb`** -/
theorem get_x_cb_spec (mb : MB) (x : List α) (c_b : Nat) :
    p_get_x_cb opsB mb x c_b = selCols (opsB.labels_ mb) x c_b := by
  unfold p_get_x_cb selCols npEqMask
  cases npMask x ((opsB.labels_ mb).map (· == c_b)) <;> rfl

/-- **`_average_pearson_corr`** = the reference `avgCorr` on the column labels of `module_b` -/
theorem average_pearson_corr_spec (mb : MB) (X : List (List α)) (k c_b : Nat) :
    p_average_pearson_corr opsB pearsonr mean mb X k c_b = avgCorr pearsonr mean (opsB.labels_ mb) X k c_b := by
  unfold p_average_pearson_corr avgCorr column_labels_ p_pearsonr
  simp only [get_x_cb_spec, npEqMask, Option.pure_def, Option.bind_eq_bind, Option.bind_some]
  cases npMask X ((opsB.labels_ mb).map (· == c_b)) with
  | none => rfl
  | some members =>
    simp only [Option.bind_some, pyRaiseIf]
    by_cases hm : members.length = 0
    · simp [hm]
    · simp only [hm, decide_false, Bool.false_eq_true, if_false, Option.bind_some]
      cases X[k]? with
      | none => rfl
      | some xk =>
        simp only [Option.bind_some]
        cases selCols (opsB.labels_ mb) xk c_b with
        | none => rfl
        | some xkc =>
          simp only [Option.bind_some]
          have : ∀ xa : List α,
              ((selCols (opsB.labels_ mb) xa c_b).bind fun a => (pearsonr xkc a).bind fun x => some x.1)
                = (selCols (opsB.labels_ mb) xa c_b).bind (fun xac => (pearsonr xkc xac).map (·.1)) := by
            intro xa
            cases selCols (opsB.labels_ mb) xa c_b with
            | none => rfl
            | some a => simp only [Option.bind_some]; cases pearsonr xkc a <;> rfl
          simp only [this]
          cases List.mapM (fun xa => (selCols (opsB.labels_ mb) xa c_b).bind
            fun xac => (pearsonr xkc xac).map (·.1)) members <;> rfl

/-- **F13 for the generated code**: the boolean mask `column_labels_ == c_b` (one entry per matrix *column*) indexes
the *rows* of `X`; when the matrix is not square this raises, for every row and every column cluster. -/
theorem average_pearson_corr_nonsquare (mb : MB) (X : List (List α)) (k c_b : Nat)
    (h : X.length ≠ (opsB.labels_ mb).length) :
    p_average_pearson_corr opsB pearsonr mean mb X k c_b = none := by
  rw [average_pearson_corr_spec]
  simp [avgCorr, npMask, h]

/-- **`match_criterion_bin`** = `avgCorr ≥ eta` -/
theorem match_criterion_bin_spec (mb : MB) (X : List (List α)) (k c_b : Nat) (params : P) :
    match_criterion_bin opsB pearsonr mean eta mb X k c_b params
      = critOf pearsonr mean eta (opsB.labels_ mb) X k c_b := by
  unfold match_criterion_bin critOf
  rw [average_pearson_corr_spec]
  cases avgCorr pearsonr mean (opsB.labels_ mb) X k c_b <;> rfl

theorem forRet_anyCrit (crit : Nat → Option Bool) (l : List Nat) :
    (forRet l (fun c => (crit c).bind fun b => if b = true then some (some true) else some none)).bind
        (fun r => match r with
          | some v => some v
          | none => some false)
      = anyCrit crit l := by
  induction l with
  | nil => rfl
  | cons c l ih =>
    simp only [forRet, anyCrit]
    cases hc : crit c with
    | none => rfl
    | some b =>
      cases b with
      | true => rfl
      | false => simpa using ih

/-- **`match_reset_func`**: independent of the sample, the weight, the row cluster, `params` and `cache`; with
`extra = {"k": k}` it is `resetOf … k` on the column labels and the number of weights of `module_b` -/
theorem match_reset_func_spec (mb : MB) (X : List (List α)) (i : SA) (w : WA) (cluster_a : Nat) (params : P)
    (extra : List (String × Nat)) (cache : Option C) :
    match_reset_func opsB pearsonr mean eta mb X i w cluster_a params extra cache
      = (dictGet extra "k").bind
          (resetOf pearsonr mean eta (opsB.labels_ mb) (opsB.W mb).length X) := by
  unfold match_reset_func resetOf
  cases dictGet extra "k" with
  | none => rfl
  | some k =>
    simp only [Option.bind_eq_bind, Option.bind_some, match_criterion_bin_spec, Option.pure_def]
    rw [← forRet_anyCrit]
    congr 1

/-- **`BARTMAP.step_fit`**: `module_a.step_fit` on row `k` of the prepared matrix, under a reset function that
answers `resetOf … k` whatever it is asked -/
theorem step_fit_spec (ma : MA) (mb : MB) (X : List (List α)) (Xa : List SA) (k : Nat) :
    step_fit opsA opsB pearsonr mean eta ma mb X Xa k
      = (Xa[k]?).bind (fun x => opsA.step_fit ma x
          (fun _ _ _ _ _ => resetOf pearsonr mean eta (opsB.labels_ mb) (opsB.W mb).length X k)) := by
  unfold step_fit
  simp only [match_reset_func_spec, dictGet, List.lookup, beq_self_eq_true, Option.bind_eq_bind, Option.bind_some,
    Option.pure_def]
  cases Xa[k]? with
  | none => rfl
  | some x =>
    simp only [Option.bind_some]
    cases opsA.step_fit ma x _ with
    | none => rfl
    | some r => rfl

/-- **the four properties** read the nested modules -/
theorem properties_spec (ma : MA) (mb : MB) :
    row_labels_ opsA ma = some (opsA.labels_ ma) ∧ column_labels_ opsB mb = some (opsB.labels_ mb) ∧
    n_row_clusters opsA ma = some (opsA.n_clusters ma) ∧ n_column_clusters opsB mb = some (opsB.n_clusters mb) :=
  ⟨rfl, rfl, rfl, rfl⟩

end Ref

/-! ### loops of the generated code against folds of the model -/

section Loops
variable {M σ A : Type}

/-- a monadic loop over abstract objects simulates a pure fold over the states read off them, as long as every step
does (on states that satisfy an invariant the step preserves) -/
theorem foldlM_sim (st : M → σ) (I : σ → Prop) (body : M → A → Option M) (step : σ → A → σ) (l : List A)
    (h : ∀ m a, a ∈ l → I (st m) → ∃ m', body m a = some m' ∧ st m' = step (st m) a ∧ I (st m'))
    (m : M) (hm : I (st m)) :
    ∃ m', l.foldlM body m = some m' ∧ st m' = l.foldl step (st m) ∧ I (st m') := by
  induction l generalizing m with
  | nil => exact ⟨m, rfl, rfl, hm⟩
  | cons a l ih =>
    obtain ⟨m1, hb, hs, hi⟩ := h m a (by simp) hm
    obtain ⟨m2, h2, hs2, hi2⟩ := ih (fun m a ha => h m a (by simp [ha])) m1 hi
    refine ⟨m2, ?_, ?_, hi2⟩
    · simp [List.foldlM_cons, hb, h2]
    · simp [List.foldl_cons, ← hs, hs2]

theorem foldl_congr_mem {β : Type} (f g : σ → β → σ) (l : List β) (h : ∀ s b, b ∈ l → f s b = g s b) (s : σ) :
    l.foldl f s = l.foldl g s := by
  induction l generalizing s with
  | nil => rfl
  | cons b l ih =>
    simp only [List.foldl_cons]
    rw [h s b (by simp)]
    exact ih (fun s b hb => h s b (by simp [hb])) _

/-- `for k in range(len(l)): … l[k] …` is a fold over the indexed list -/
theorem foldl_range_lookup {β : Type} (l : List β) (h : σ → β → Nat → σ) (s : σ) :
    (List.range l.length).foldl (fun s k => match l[k]? with
        | some x => h s x k
        | none => s) s
      = l.zipIdx.foldl (fun s xk => h s xk.1 xk.2) s := by
  have e : List.range l.length = l.zipIdx.map Prod.snd := by
    rw [List.zipIdx_map_snd, List.range_eq_range']
  rw [e, List.foldl_map]
  apply foldl_congr_mem
  intro s xk hxk
  obtain ⟨x, k⟩ := xk
  have := List.mk_mem_zipIdx_iff_getElem?.mp hxk
  simp only [this]

theorem zipIdx_zipIdx {β : Type} (l : List β) (n : Nat) :
    (l.zipIdx n).zipIdx n = (l.zipIdx n).map (fun xk => (xk, xk.2)) := by
  induction l generalizing n with
  | nil => rfl
  | cons a l ih => simp [List.zipIdx_cons, ih]

end Loops

/-! ### the model's training fold: facts the tie needs -/

section Model
variable {X Wt α μ θ : Type} [LinearOrder α]

/-- a sample that carries its row index: the kernel ignores the index (the veto reads it) -/
def liftK (K : Kernel X Wt α μ) : Kernel (X × Nat) Wt α μ :=
  { choice := fun W xk w => K.choice W xk.1 w
    matchv := fun xk w => K.matchv xk.1 w
    update := fun xk w => K.update xk.1 w
    newW := fun xk => K.newW xk.1 }

theorem stepFit_liftK (K : Kernel X Wt α μ) (cfg : SearchCfg μ θ) (th : θ) (v : Nat → Bool) (s : ArtState Wt)
    (x : X) (k : Nat) : stepFit (liftK K) cfg th v s (x, k) = stepFit K cfg th v s x := rfl

/-- the veto of the row module: the reset function of row `k` answered `False` (an undefined answer reads as "no
veto"; `fit_spec` assumes the answers defined) -/
def vetoOf (r : Nat → Option Bool) : X × Nat → Nat → Bool := fun xk _ => !((r xk.2).getD true)

theorem stepFit_with_labels (K : Kernel X Wt α μ) (cfg : SearchCfg μ θ) (th0 : θ) (veto : Nat → Bool)
    (m : ArtState Wt) (l : List Nat) (x : X) :
    stepFit K cfg th0 veto { m with labels := l } x =
      ({ (stepFit K cfg th0 veto m x).1 with labels := l }, (stepFit K cfg th0 veto m x).2) := by
  simp only [stepFit]
  split
  · simp [applyWinner]
  · cases (stepSearch K cfg th0 veto m.W x).winner with
    | none => simp [applyWinner]
    | some c =>
      simp only [applyWinner]
      split <;> simp

/-- writing labels into a pre-allocated vector (one epoch) is appending them (the `partialFit` fold) -/
theorem epoch_fold_eq_train_fold (K : Kernel X Wt α μ) (cfg : SearchCfg μ θ) (th0 : θ) (vetoF : X → Nat → Bool) :
    ∀ (xs : List X) (k : Nat) (m : ArtState Wt) (tail : List Nat), tail.length = xs.length → m.labels.length = k →
      (xs.zipIdx k).foldl (epochStep K cfg th0 (fun _ x c => vetoF x c)) { m with labels := m.labels ++ tail } =
        xs.foldl (trainStep K cfg th0 (fun _ x c => vetoF x c)) m := by
  intro xs
  induction xs with
  | nil =>
    intro k m tail ht _
    cases tail with
    | nil => simp
    | cons _ _ => simp at ht
  | cons x xs ih =>
    intro k m tail ht hl
    cases tail with
    | nil => simp at ht
    | cons t tail =>
      simp only [List.zipIdx_cons, List.foldl_cons]
      have hlab := (stepFit_label_lt K cfg th0 (vetoF x) m x).2.2.2
      have h1 : epochStep K cfg th0 (fun _ x c => vetoF x c) { m with labels := m.labels ++ t :: tail } (x, k) =
          { trainStep K cfg th0 (fun _ x c => vetoF x c) m x with
            labels := (trainStep K cfg th0 (fun _ x c => vetoF x c) m x).labels ++ tail } := by
        simp only [epochStep, trainStep, stepFit_with_labels, hlab]
        have : (m.labels ++ t :: tail).set k (stepFit K cfg th0 (vetoF x) m x).2 =
            m.labels ++ [(stepFit K cfg th0 (vetoF x) m x).2] ++ tail := by
          rw [← hl]; simp
        simp [this]
      rw [h1]
      exact ih (k + 1) _ tail (by simpa using ht) (by simp [trainStep, hlab]; omega)

/-- one epoch of `fitEpochs` is the model's `fit` -/
theorem fitEpochs_one (K : Kernel X Wt α μ) (cfg : SearchCfg μ θ) (th0 : θ) (vetoF : X → Nat → Bool)
    (s : ArtState Wt) (xs : List X) :
    fitEpochs K cfg th0 (fun _ x c => vetoF x c) 1 xs = Art.fit K cfg th0 (fun _ x c => vetoF x c) s xs := by
  unfold fitEpochs Art.fit partialFit
  simp only [List.range_one, List.foldl_cons, List.foldl_nil]
  have := epoch_fold_eq_train_fold K cfg th0 vetoF xs 0 {} (List.replicate xs.length 0) (by simp) rfl
  simpa using this

/-- training on at least one sample leaves at least one category -/
theorem fit_W_pos (K : Kernel X Wt α μ) (cfg : SearchCfg μ θ) (th0 : θ) (veto : ArtState Wt → X → Nat → Bool)
    (s0 : ArtState Wt) (xs : List X) (h : xs ≠ []) : 0 < (Art.fit K cfg th0 veto s0 xs).W.length := by
  obtain ⟨h1, h2, _⟩ := fit_labels_lt K cfg th0 veto s0 xs
  cases hl : (Art.fit K cfg th0 veto s0 xs).labels with
  | nil =>
    rw [hl] at h2
    cases xs with
    | nil => exact absurd rfl h
    | cons _ _ => simp at h2
  | cons l ls =>
    have := h1 l (by rw [hl]; simp)
    omega

end Model

/-! ### the tie of a nested module to the generic training functions, and `fit` -/

section TieSec

/-- what ties an abstract nested module to the model of an elementary ART module (`ArtModel/Search`): `st` reads the
observable training state off the object; the kernel, search configuration and threshold are the module's -/
structure Tie {M S Wt P C α β μ θ : Type} [LinearOrder β]
    (ops : ModOps M S Wt P C α) (st : M → ArtState Wt) (K : Kernel S Wt β μ) (cfg : SearchCfg μ θ) (th : θ) : Prop where
  /-- `prepare_data` works row by row -/
  prep_len : ∀ m X, (ops.prepare_data m X).length = X.length
  /-- `fit(X, max_iter)` without a reset function: the model's `fitEpochs`, whatever the estimator held before -/
  fit : ∀ m Xs it, st (ops.fit m Xs it) = fitEpochs K cfg th noVeto it Xs
  W : ∀ m, (ops.W m).length = (st m).W.length
  labels : ∀ m, ops.labels_ m = (st m).labels
  n_clusters : ∀ m, ops.n_clusters m = (st m).W.length
  set_W : ∀ m w, st (ops.set_W m w) = { st m with W := w }
  set_cnt : ∀ m c, st (ops.set_weight_sample_counter_ m c) = { st m with cnt := c }
  set_n : ∀ m n, st (ops.set_sample_counter_ m n) = { st m with n := n }
  set_labels : ∀ m l, st (ops.set_labels_ m l) = { st m with labels := l }
  setitem : ∀ m k c, k < (st m).labels.length →
    ∃ m', ops.labels_setitem m k c = some m' ∧ st m' = { st m with labels := (st m).labels.set k c }
  pre : ∀ m Xs, st (ops.pre_step_fit m Xs) = st m
  post : ∀ m Xs, st (ops.post_step_fit m Xs) = st m
  /-- `step_fit(x, match_reset_func=f)` with a reset function that never raises and answers `g c` for category `c`
  (whatever else it is given): the model's `stepFit` under the veto `¬ g c` -/
  step_fit : ∀ m x (f : S → Wt → Nat → P → Option C → Option Bool) (g : Nat → Bool),
    (∀ i w c p ca, f i w c p ca = some (g c)) →
    ∃ m', ops.step_fit m x f = some (m', (stepFit K cfg th (fun c => !g c) (st m) x).2) ∧
      st m' = (stepFit K cfg th (fun c => !g c) (st m) x).1

variable {MA MB SA SB WA WB P C α αa αb μa μb θa θb : Type} [LE α] [DecidableRel (α := α) (· ≤ ·)]
  [LinearOrder αa] [LinearOrder αb]
variable {opsA : ModOps MA SA WA P C α} {opsB : ModOps MB SB WB P C α}
  {stA : MA → ArtState WA} {stB : MB → ArtState WB}
  {Ka : Kernel SA WA αa μa} {cfga : SearchCfg μa θa} {tha : θa}
  {Kb : Kernel SB WB αb μb} {cfgb : SearchCfg μb θb} {thb : θb}

/-- one pass of the inner loop of `fit` (`for k in range(n)`) = one epoch of the model's `fitEpochs` on the indexed
prepared rows -/
theorem fit_inner_loop (TA : Tie opsA stA Ka cfga tha) (pearsonr : List α → List α → Option (α × α))
    (mean : List α → α) (eta : α) (mb : MB) (X : List (List α)) (Xa : List SA)
    (hdef : ∀ k, k < Xa.length →
      (resetOf pearsonr mean eta (opsB.labels_ mb) (opsB.W mb).length X k).isSome)
    (m : MA) (hm : (stA m).labels.length = Xa.length) :
    ∃ m', (List.range Xa.length).foldlM (fun module_a k =>
        (step_fit opsA opsB pearsonr mean eta (opsA.pre_step_fit module_a Xa) mb X Xa k).bind fun r =>
          (opsA.labels_setitem r.1 k r.2).bind fun module_a => some (opsA.post_step_fit module_a Xa)) m = some m' ∧
      stA m' = (Xa.zipIdx.zipIdx).foldl (epochStep (liftK Ka) cfga tha
        (fun _ xk c => vetoOf (resetOf pearsonr mean eta (opsB.labels_ mb) (opsB.W mb).length X) xk c)) (stA m) ∧
      (stA m').labels.length = Xa.length := by
  rw [zipIdx_zipIdx, List.foldl_map, ← foldl_range_lookup Xa (fun s x k => epochStep (liftK Ka) cfga tha
        (fun _ xk c => vetoOf (resetOf pearsonr mean eta (opsB.labels_ mb) (opsB.W mb).length X) xk c) s ((x, k), k))]
  apply foldlM_sim stA (fun s => s.labels.length = Xa.length)
  · intro m k hk hI
    have hk' : k < Xa.length := List.mem_range.mp hk
    obtain ⟨b, hb⟩ := Option.isSome_iff_exists.mp (hdef k hk')
    rw [step_fit_spec, List.getElem?_eq_getElem hk', hb]
    obtain ⟨m2, h2, hs2⟩ := TA.step_fit (opsA.pre_step_fit m Xa) Xa[k] (fun _ _ _ _ _ => some b) (fun _ => b)
      (fun _ _ _ _ _ => rfl)
    rw [TA.pre] at h2 hs2
    have hlab := (stepFit_label_lt Ka cfga tha (fun _ => !b) (stA m) Xa[k]).2.2.2
    obtain ⟨m3, h3, hs3⟩ := TA.setitem m2 k (stepFit Ka cfga tha (fun _ => !b) (stA m) Xa[k]).2
      (by rw [hs2, hlab, hI]; exact hk')
    refine ⟨opsA.post_step_fit m3 Xa, ?_, ?_, ?_⟩
    · simp only [Option.bind_some, h2, h3]
    · rw [TA.post, hs3, hs2]
      simp only [epochStep, vetoOf, hb, Option.getD_some, stepFit_liftK]
    · rw [TA.post, hs3, hs2]
      simp [hlab, hI]
  · exact hm

/-- **`BARTMAP.fit(X, max_iter)`**: the column module is `fitEpochs` alone on the prepared transpose; the row module,
emptied, is `fitEpochs` of the row kernel on the prepared rows (each carrying its index) under the veto that the
translated reset function computes from the fitted column module; `rows_` / `columns_` are the model's `rowsOf` /
`columnsOf`.  Hypotheses: the reset function is defined for every row index (F13), both modules end with at least one
category (`np.vstack([])` raises). -/
theorem fit_epochs_spec (TA : Tie opsA stA Ka cfga tha) (TB : Tie opsB stB Kb cfgb thb)
    (pearsonr : List α → List α → Option (α × α)) (mean : List α → α) (eta : α) (ma : MA) (mb : MB)
    (X : List (List α)) (it : Nat) :
    let Xa := opsA.prepare_data ma X
    let Xb := opsB.prepare_data mb (npT X)
    let b := fitEpochs Kb cfgb thb noVeto it Xb
    let r := resetOf pearsonr mean eta b.labels b.W.length X
    let a := fitEpochs (liftK Ka) cfga tha (fun _ xk c => vetoOf r xk c) it Xa.zipIdx
    (∀ k, k < X.length → (r k).isSome) → 0 < a.W.length → 0 < b.W.length →
    ∃ res, Art.Gen.BARTMAP.fit opsA opsB pearsonr mean eta ma mb X it = some res ∧
      stA res.module_a = a ∧ stB res.module_b = b ∧ res.X = X ∧
      res.rows_ = rowsOf a.W.length b.W.length a.labels ∧
      res.columns_ = columnsOf a.W.length b.W.length b.labels := by
  intro Xa Xb b r a hdef hna hnb
  have hXa : Xa.length = X.length := TA.prep_len ma X
  -- the fitted column module
  have hb : stB (opsB.fit mb Xb it) = b := TB.fit mb Xb it
  have hbl : opsB.labels_ (opsB.fit mb Xb it) = b.labels := by rw [TB.labels, hb]
  have hbw : (opsB.W (opsB.fit mb Xb it)).length = b.W.length := by rw [TB.W, hb]
  -- the emptied row module
  have h0 : stA (opsA.set_labels_ (opsA.set_sample_counter_ (opsA.set_weight_sample_counter_
      (opsA.set_W ma []) []) 0) (List.replicate X.length 0))
      = { W := [], cnt := [], n := 0, labels := List.replicate Xa.zipIdx.length 0 } := by
    rw [TA.set_labels, TA.set_n, TA.set_cnt, TA.set_W]; simp [hXa]
  -- the two loops
  have houter := foldlM_sim stA (fun s => s.labels.length = X.length)
    (fun module_a (_ : Nat) => (List.range X.length).foldlM (fun module_a k =>
        (step_fit opsA opsB pearsonr mean eta (opsA.pre_step_fit module_a Xa) (opsB.fit mb Xb it) X Xa k).bind fun r =>
          (opsA.labels_setitem r.1 k r.2).bind fun module_a => some (opsA.post_step_fit module_a Xa)) module_a)
    (fun s _ => (Xa.zipIdx.zipIdx).foldl (epochStep (liftK Ka) cfga tha (fun _ xk c => vetoOf r xk c)) s)
    (List.range it)
    (fun m _ _ hI => by
      have := fit_inner_loop (opsB := opsB) TA pearsonr mean eta (opsB.fit mb Xb it) X Xa
        (by intro k hk; rw [hbl, hbw]; exact hdef k (hXa ▸ hk)) m (hI.trans hXa.symm)
      rw [hbl, hbw, hXa] at this
      exact this)
    (opsA.set_labels_ (opsA.set_sample_counter_ (opsA.set_weight_sample_counter_
      (opsA.set_W ma []) []) 0) (List.replicate X.length 0))
    (by rw [h0]; simpa using hXa)
  obtain ⟨ma', hloop, hsa, _⟩ := houter
  rw [h0] at hsa
  have ha : stA ma' = a := hsa
  have hal : opsA.labels_ ma' = a.labels := by rw [TA.labels, ha]
  have han : opsA.n_clusters ma' = a.W.length := by rw [TA.n_clusters, ha]
  have hbn : opsB.n_clusters (opsB.fit mb Xb it) = b.W.length := by rw [TB.n_clusters, hb]
  -- rows_ and columns_
  have hrows : npVstack (rowsOf a.W.length b.W.length a.labels) = some (rowsOf a.W.length b.W.length a.labels) :=
    npVstack_uniform _ a.labels.length
      (by intro h; have := rowsOf_length a.W.length b.W.length a.labels; rw [h] at this
          have : 0 < a.W.length * b.W.length := Nat.mul_pos hna hnb
          simp at *; omega)
      (Art.C17.bartmap_shapes a.W.length b.W.length a.labels b.labels).2.2.1
  have hcols : npVstack (columnsOf a.W.length b.W.length b.labels)
      = some (columnsOf a.W.length b.W.length b.labels) :=
    npVstack_uniform _ b.labels.length
      (by intro h; have := columnsOf_length a.W.length b.W.length b.labels; rw [h] at this
          have : 0 < a.W.length * b.W.length := Nat.mul_pos hna hnb
          simp at *; omega)
      (Art.C17.bartmap_shapes a.W.length b.W.length a.labels b.labels).2.2.2
  refine ⟨⟨ma', opsB.fit mb Xb it, X, rowsOf a.W.length b.W.length a.labels,
    columnsOf a.W.length b.W.length b.labels⟩, ?_, ha, hb, rfl, rfl, rfl⟩
  unfold Art.Gen.BARTMAP.fit
  simp only [Option.bind_eq_bind, Option.pure_def] at hloop ⊢
  rw [hloop, show opsB.prepare_data mb (npT X) = Xb from rfl]
  simp only [Option.bind_some, row_labels_, column_labels_, Option.pure_def, hal, hbl, han, hbn, npEqMask, mapM_some,
    ← List.flatMap_def]
  have e1 : (List.range a.W.length).flatMap (fun label => (List.range b.W.length).map
      (fun _ => a.labels.map (· == label))) = rowsOf a.W.length b.W.length a.labels := rfl
  have e2 : (List.range a.W.length).flatMap (fun _ => (List.range b.W.length).map
      (fun label => b.labels.map (· == label))) = columnsOf a.W.length b.W.length b.labels := rfl
  rw [e1, e2, hrows, hcols]
  rfl

/-- the answers of the translated reset function, row index by row index, once the column module is fitted (one
epoch) on the prepared transpose -/
def rowReset (opsB : ModOps MB SB WB P C α) (Kb : Kernel SB WB αb μb) (cfgb : SearchCfg μb θb) (thb : θb)
    (pearsonr : List α → List α → Option (α × α)) (mean : List α → α) (eta : α) (mb : MB) (X : List (List α)) :
    Nat → Option Bool :=
  resetOf pearsonr mean eta (Art.fit Kb cfgb thb noVeto {} (opsB.prepare_data mb (npT X))).labels
    (Art.fit Kb cfgb thb noVeto {} (opsB.prepare_data mb (npT X))).W.length X

/-- the instance of the model's `bartmapFit` that the generated `fit` computes: row kernel on the indexed prepared
rows, column kernel on the prepared transpose, veto = the translated reset function answered `False` -/
def modelOf (opsA : ModOps MA SA WA P C α) (opsB : ModOps MB SB WB P C α)
    (Ka : Kernel SA WA αa μa) (cfga : SearchCfg μa θa) (tha : θa)
    (Kb : Kernel SB WB αb μb) (cfgb : SearchCfg μb θb) (thb : θb)
    (pearsonr : List α → List α → Option (α × α)) (mean : List α → α) (eta : α) (ma : MA) (mb : MB)
    (X : List (List α)) : BartState WA WB :=
  bartmapFit (liftK Ka) cfga tha Kb cfgb thb (vetoOf (rowReset opsB Kb cfgb thb pearsonr mean eta mb X))
    (opsA.prepare_data ma X).zipIdx (opsB.prepare_data mb (npT X))

/-- **`BARTMAP.fit(X)`** (one epoch, the default) **= the model's `bartmapFit`** on the indexed prepared rows and the
prepared transpose, with the veto that the translated reset function computes from the fitted column module.
Hypotheses: at least one matrix row and one prepared column sample; the reset function is defined for every row (F13). -/
theorem fit_spec (TA : Tie opsA stA Ka cfga tha) (TB : Tie opsB stB Kb cfgb thb)
    (pearsonr : List α → List α → Option (α × α)) (mean : List α → α) (eta : α) (ma : MA) (mb : MB)
    (X : List (List α)) (hX : X ≠ []) (hXb : opsB.prepare_data mb (npT X) ≠ [])
    (hdef : ∀ k, k < X.length → (rowReset opsB Kb cfgb thb pearsonr mean eta mb X k).isSome) :
    ∃ res, Art.Gen.BARTMAP.fit opsA opsB pearsonr mean eta ma mb X 1 = some res ∧
      stA res.module_a = (modelOf opsA opsB Ka cfga tha Kb cfgb thb pearsonr mean eta ma mb X).a ∧
      stB res.module_b = (modelOf opsA opsB Ka cfga tha Kb cfgb thb pearsonr mean eta ma mb X).b ∧
      res.X = X ∧
      res.rows_ = (modelOf opsA opsB Ka cfga tha Kb cfgb thb pearsonr mean eta ma mb X).rows ∧
      res.columns_ = (modelOf opsA opsB Ka cfga tha Kb cfgb thb pearsonr mean eta ma mb X).cols := by
  have eb : fitEpochs Kb cfgb thb noVeto 1 (opsB.prepare_data mb (npT X))
      = Art.fit Kb cfgb thb noVeto {} (opsB.prepare_data mb (npT X)) :=
    fitEpochs_one Kb cfgb thb (fun _ _ => false) {} _
  have ea : fitEpochs (liftK Ka) cfga tha
      (fun _ xk c => vetoOf (rowReset opsB Kb cfgb thb pearsonr mean eta mb X) xk c) 1 (opsA.prepare_data ma X).zipIdx
      = (modelOf opsA opsB Ka cfga tha Kb cfgb thb pearsonr mean eta ma mb X).a :=
    fitEpochs_one (liftK Ka) cfga tha (vetoOf (rowReset opsB Kb cfgb thb pearsonr mean eta mb X)) {} _
  have hXa : (opsA.prepare_data ma X).length = X.length := TA.prep_len ma X
  have hna : 0 < (modelOf opsA opsB Ka cfga tha Kb cfgb thb pearsonr mean eta ma mb X).a.W.length :=
    fit_W_pos (liftK Ka) cfga tha _ {} (opsA.prepare_data ma X).zipIdx (by
      intro h
      have := congrArg List.length h
      simp only [List.length_zipIdx, List.length_nil, hXa] at this
      exact hX (List.length_eq_zero_iff.mp this))
  have hnb : 0 < (Art.fit Kb cfgb thb noVeto {} (opsB.prepare_data mb (npT X))).W.length :=
    fit_W_pos Kb cfgb thb noVeto {} _ hXb
  have h := fit_epochs_spec TA TB pearsonr mean eta ma mb X 1
  dsimp only at h
  rw [eb] at h
  rw [show resetOf pearsonr mean eta (Art.fit Kb cfgb thb noVeto {} (opsB.prepare_data mb (npT X))).labels
      (Art.fit Kb cfgb thb noVeto {} (opsB.prepare_data mb (npT X))).W.length X
      = rowReset opsB Kb cfgb thb pearsonr mean eta mb X from rfl, ea] at h
  exact h hdef hna hnb

/-! ### the C17 property theorems, transported to the generated `fit` -/

/-- **Shapes of the generated `fit`** (transport of `C17.bartmap_fit_partition`, shape part): the call succeeds;
`rows_` / `columns_` have one row per (row cluster, column cluster) pair; every row of `rows_` is as wide as the matrix
has rows, every row of `columns_` as wide as the transposed matrix has rows. -/
theorem gen_fit_shapes (TA : Tie opsA stA Ka cfga tha) (TB : Tie opsB stB Kb cfgb thb)
    (pearsonr : List α → List α → Option (α × α)) (mean : List α → α) (eta : α) (ma : MA) (mb : MB)
    (X : List (List α)) (hX : X ≠ []) (hXb : opsB.prepare_data mb (npT X) ≠ [])
    (hdef : ∀ k, k < X.length → (rowReset opsB Kb cfgb thb pearsonr mean eta mb X k).isSome) :
    ∃ res, Art.Gen.BARTMAP.fit opsA opsB pearsonr mean eta ma mb X 1 = some res ∧
      res.rows_.length = opsA.n_clusters res.module_a * opsB.n_clusters res.module_b ∧
      res.columns_.length = opsA.n_clusters res.module_a * opsB.n_clusters res.module_b ∧
      (∀ row ∈ res.rows_, row.length = X.length) ∧
      (∀ row ∈ res.columns_, row.length = (npT X).length) := by
  obtain ⟨res, hres, ha, hb, _, hr, hc⟩ := fit_spec TA TB pearsonr mean eta ma mb X hX hXb hdef
  obtain ⟨p1, p2, p3, p4, _⟩ := Art.C17.bartmap_fit_partition (liftK Ka) cfga tha Kb cfgb thb
    (vetoOf (rowReset opsB Kb cfgb thb pearsonr mean eta mb X))
    (opsA.prepare_data ma X).zipIdx (opsB.prepare_data mb (npT X))
  refine ⟨res, hres, ?_, ?_, ?_, ?_⟩
  · rw [hr, TA.n_clusters, TB.n_clusters, ha, hb]; exact p1
  · rw [hc, TA.n_clusters, TB.n_clusters, ha, hb]; exact p2
  · intro row hrow; rw [hr] at hrow; rw [p3 row hrow, List.length_zipIdx, TA.prep_len]
  · intro row hrow; rw [hc] at hrow; rw [p4 row hrow, TB.prep_len]

/-- **Every cell in exactly one bicluster** (transport of `C17.bartmap_fit_partition`): after the generated `fit`,
cell `(i, j)` of the matrix lies in exactly the bicluster `row_labels_[i] · n_column_clusters + column_labels_[j]`. -/
theorem gen_fit_partition (TA : Tie opsA stA Ka cfga tha) (TB : Tie opsB stB Kb cfgb thb)
    (pearsonr : List α → List α → Option (α × α)) (mean : List α → α) (eta : α) (ma : MA) (mb : MB)
    (X : List (List α)) (hX : X ≠ []) (hXb : opsB.prepare_data mb (npT X) ≠ [])
    (hdef : ∀ k, k < X.length → (rowReset opsB Kb cfgb thb pearsonr mean eta mb X k).isSome)
    (i j : Nat) (hi : i < X.length) (hj : j < (npT X).length) :
    ∃ res la lb, Art.Gen.BARTMAP.fit opsA opsB pearsonr mean eta ma mb X 1 = some res ∧
      (opsA.labels_ res.module_a)[i]? = some la ∧ (opsB.labels_ res.module_b)[j]? = some lb ∧
      cellBiclusters res.rows_ res.columns_ i j = [la * opsB.n_clusters res.module_b + lb] := by
  obtain ⟨res, hres, ha, hb, _, hr, hc⟩ := fit_spec TA TB pearsonr mean eta ma mb X hX hXb hdef
  obtain ⟨_, _, _, _, p5⟩ := Art.C17.bartmap_fit_partition (liftK Ka) cfga tha Kb cfgb thb
    (vetoOf (rowReset opsB Kb cfgb thb pearsonr mean eta mb X))
    (opsA.prepare_data ma X).zipIdx (opsB.prepare_data mb (npT X))
  obtain ⟨_, _, q3, _⟩ := Art.C17.bartmap_rows_are_generic_search (liftK Ka) cfga tha Kb cfgb thb
    (vetoOf (rowReset opsB Kb cfgb thb pearsonr mean eta mb X))
    (opsA.prepare_data ma X).zipIdx (opsB.prepare_data mb (npT X)) {}
  have hbl := (fit_labels_lt Kb cfgb thb (noVeto (S := ArtState WB)) {} (opsB.prepare_data mb (npT X))).2.1
  have hi' : i < (modelOf opsA opsB Ka cfga tha Kb cfgb thb pearsonr mean eta ma mb X).a.labels.length := by
    show i < (bartmapFit _ _ _ _ _ _ _ _ _).a.labels.length
    rw [q3, List.length_zipIdx, TA.prep_len]; exact hi
  have hj' : j < (modelOf opsA opsB Ka cfga tha Kb cfgb thb pearsonr mean eta ma mb X).b.labels.length := by
    show j < (Art.fit Kb cfgb thb noVeto {} (opsB.prepare_data mb (npT X))).labels.length
    rw [hbl, TB.prep_len]; exact hj
  obtain ⟨_, _, p⟩ := p5 i j hi' hj'
  refine ⟨res, (modelOf opsA opsB Ka cfga tha Kb cfgb thb pearsonr mean eta ma mb X).a.labels[i],
    (modelOf opsA opsB Ka cfga tha Kb cfgb thb pearsonr mean eta ma mb X).b.labels[j], hres, ?_, ?_, ?_⟩
  · rw [TA.labels, ha]; exact List.getElem?_eq_getElem hi'
  · rw [TB.labels, hb]; exact List.getElem?_eq_getElem hj'
  · rw [hr, hc, TB.n_clusters, hb]; exact p

/-- **Membership agrees with the labels** (transport of `C17.bartmap_membership_agrees`): bicluster `(a, b)` of the
generated `fit` sits at index `a · n_column_clusters + b`; matrix row `i` is in it iff `row_labels_[i] = a`, matrix
column `j` iff `column_labels_[j] = b`. -/
theorem gen_fit_membership (TA : Tie opsA stA Ka cfga tha) (TB : Tie opsB stB Kb cfgb thb)
    (pearsonr : List α → List α → Option (α × α)) (mean : List α → α) (eta : α) (ma : MA) (mb : MB)
    (X : List (List α)) (hX : X ≠ []) (hXb : opsB.prepare_data mb (npT X) ≠ [])
    (hdef : ∀ k, k < X.length → (rowReset opsB Kb cfgb thb pearsonr mean eta mb X k).isSome) :
    ∃ res, Art.Gen.BARTMAP.fit opsA opsB pearsonr mean eta ma mb X 1 = some res ∧
      ∀ a b, a < opsA.n_clusters res.module_a → b < opsB.n_clusters res.module_b →
        (∀ i, memberAt res.rows_ (a * opsB.n_clusters res.module_b + b) i = true
            ↔ (opsA.labels_ res.module_a)[i]? = some a) ∧
        (∀ j, memberAt res.columns_ (a * opsB.n_clusters res.module_b + b) j = true
            ↔ (opsB.labels_ res.module_b)[j]? = some b) := by
  obtain ⟨res, hres, ha, hb, _, hr, hc⟩ := fit_spec TA TB pearsonr mean eta ma mb X hX hXb hdef
  refine ⟨res, hres, ?_⟩
  intro a b hlt_a hlt_b
  rw [TA.n_clusters, ha] at hlt_a
  rw [TB.n_clusters, hb] at hlt_b
  rw [hr, hc, TA.labels, TB.labels, TB.n_clusters, ha, hb]
  exact Art.C17.bartmap_membership_agrees _ _ _ _ a b hlt_a hlt_b

/-- **The column clustering is the column module alone** (transport of `C17.bartmap_columns_alone`): after the
generated `fit` the column module is in the state that `fit` of the column kernel — no reset function, any previous
state `s0` — reaches on the prepared transposed matrix, and `columns_` is built from its labels. -/
theorem gen_fit_columns_alone (TA : Tie opsA stA Ka cfga tha) (TB : Tie opsB stB Kb cfgb thb)
    (pearsonr : List α → List α → Option (α × α)) (mean : List α → α) (eta : α) (ma : MA) (mb : MB)
    (X : List (List α)) (hX : X ≠ []) (hXb : opsB.prepare_data mb (npT X) ≠ [])
    (hdef : ∀ k, k < X.length → (rowReset opsB Kb cfgb thb pearsonr mean eta mb X k).isSome) (s0 : ArtState WB) :
    ∃ res, Art.Gen.BARTMAP.fit opsA opsB pearsonr mean eta ma mb X 1 = some res ∧
      stB res.module_b = Art.fit Kb cfgb thb noVeto s0 (opsB.prepare_data mb (npT X)) ∧
      opsB.labels_ res.module_b = (Art.fit Kb cfgb thb noVeto s0 (opsB.prepare_data mb (npT X))).labels ∧
      res.columns_ = columnsOf (opsA.n_clusters res.module_a) (opsB.n_clusters res.module_b)
        (Art.fit Kb cfgb thb noVeto s0 (opsB.prepare_data mb (npT X))).labels := by
  obtain ⟨res, hres, ha, hb, _, _, hc⟩ := fit_spec TA TB pearsonr mean eta ma mb X hX hXb hdef
  obtain ⟨c1, c2⟩ := Art.C17.bartmap_columns_alone (liftK Ka) cfga tha Kb cfgb thb
    (vetoOf (rowReset opsB Kb cfgb thb pearsonr mean eta mb X))
    (opsA.prepare_data ma X).zipIdx (opsB.prepare_data mb (npT X)) s0
  refine ⟨res, hres, ?_, ?_, ?_⟩
  · rw [hb]; exact c1
  · rw [TB.labels, hb]; exact congrArg ArtState.labels c1
  · rw [hc, TA.n_clusters, TB.n_clusters, ha, hb]; exact c2

end TieSec

/-- **F13 for the generated reset function**: on a matrix whose number of rows differs from its number of columns
(= the number of column labels) the reset function raises for every row index, as soon as the column module has a
category to ask about. -/
theorem gen_reset_nonsquare_raises {MB SB WB SA WA P C α : Type} [LE α] [DecidableRel (α := α) (· ≤ ·)]
    (opsB : ModOps MB SB WB P C α) (pearsonr : List α → List α → Option (α × α)) (mean : List α → α) (eta : α)
    (mb : MB) (X : List (List α)) (i : SA) (w : WA) (cluster_a : Nat) (params : P) (k : Nat) (cache : Option C)
    (hsq : X.length ≠ (opsB.labels_ mb).length) (hnb : 0 < (opsB.W mb).length) :
    match_reset_func opsB pearsonr mean eta mb X i w cluster_a params [("k", k)] cache = none := by
  rw [match_reset_func_spec]
  simp only [dictGet, List.lookup, beq_self_eq_true, Option.bind_some, resetOf]
  obtain ⟨n, hn⟩ : ∃ n, (opsB.W mb).length = n + 1 := ⟨(opsB.W mb).length - 1, by omega⟩
  rw [hn, List.range_succ_eq_map]
  simp [anyCrit, critOf, avgCorr, npMask, hsq]

/-! ### the hypotheses are satisfiable, and the generated code runs: a toy one-dimensional module over an integer
matrix — the nested estimator is the model state itself, `prepare_data` = row sums -/
section Example

/-- a category is a prototype, the activation is `100 − |x − w|`, the match value is `|x − w|` -/
def toyK : Kernel Nat Nat Nat Nat :=
  { choice := fun _ x w => some (100 - (x - w) - (w - x))
    matchv := fun x w => (x - w) + (w - x)
    update := fun _ w => w
    newW := fun x => x }

/-- vigilance accepts a distance up to the threshold -/
def toyCfg : SearchCfg Nat Nat :=
  { passes := fun th m => decide (m ≤ th), track := fun _ m => m, keep := true, tilde := false }

/-- an elementary module as an object: its model state -/
def exOps : ModOps (ArtState Nat) Nat Nat Unit Unit Int :=
  { prepare_data := fun _ X => X.map (fun r => r.sum.toNat)
    fit := fun _ Xs it => fitEpochs toyK toyCfg 2 noVeto it Xs
    W := fun s => s.W
    labels_ := fun s => s.labels
    n_clusters := fun s => s.W.length
    set_W := fun s w => { s with W := w }
    set_weight_sample_counter_ := fun s c => { s with cnt := c }
    set_sample_counter_ := fun s n => { s with n := n }
    set_labels_ := fun s l => { s with labels := l }
    labels_setitem := fun s k c => if k < s.labels.length then some { s with labels := s.labels.set k c } else none
    pre_step_fit := fun s _ => s
    post_step_fit := fun s _ => s
    step_fit := fun s x f =>
      some (stepFit toyK toyCfg 2 (fun c => !((f x (s.W.getD c 0) c () none).getD true)) s x) }

/-- the toy module satisfies every assumption of `Tie` (it serves as row module and as column module) -/
theorem exTie : Tie exOps id toyK toyCfg 2 :=
  { prep_len := by intro m X; simp [exOps]
    fit := fun _ _ _ => rfl
    W := fun _ => rfl
    labels := fun _ => rfl
    n_clusters := fun _ => rfl
    set_W := fun _ _ => rfl
    set_cnt := fun _ _ => rfl
    set_n := fun _ _ => rfl
    set_labels := fun _ _ => rfl
    setitem := by
      intro m k c hk
      exact ⟨{ m with labels := m.labels.set k c }, by simp only [exOps, id] at hk ⊢; simp [hk], rfl⟩
    pre := fun _ _ => rfl
    post := fun _ _ => rfl
    step_fit := by
      intro m x f g h
      refine ⟨(stepFit toyK toyCfg 2 (fun c => !g c) m x).1, ?_, rfl⟩
      simp only [exOps, h, Option.getD_some, id] }

/-- a stand-in for scipy's `pearsonr`: the dot product (and a p-value that is dropped); vectors of different length raise -/
def exPearson (a b : List Int) : Option (Int × Int) :=
  if a.length = b.length then some ((List.zipWith (· * ·) a b).sum, 0) else none
def exMean (l : List Int) : Int := l.sum / (l.length : Int)

/-- rows sum to 6, 7, 26; columns to 11, 14, 14 -/
def exX : List (List Int) := [[1, 2, 3], [1, 3, 3], [9, 9, 8]]

/-- what an observer reads off the fitted estimator -/
def obs (r : Fitted (ArtState Nat) (ArtState Nat) Int) : List Nat × List Nat × List (List Bool) × List (List Bool) :=
  (r.module_a.labels, r.module_b.labels, r.rows_, r.columns_)

-- eta = 5: row 1 resonates with row cluster 0 and the correlation test lets it (column cluster 1 has mean "correlation" 34)
example : (Art.Gen.BARTMAP.fit exOps exOps exPearson exMean 5 {} {} exX 1).map obs
    = some ([0, 0, 1], [0, 1, 1],
        [[true, true, false], [true, true, false], [false, false, true], [false, false, true]],
        [[true, false, false], [false, true, true], [true, false, false], [false, true, true]]) := by decide +kernel
-- eta = 100: no column cluster passes, the reset function vetoes the resonance and row 1 opens its own cluster
example : (Art.Gen.BARTMAP.fit exOps exOps exPearson exMean 100 {} {} exX 1).map (fun r => (obs r).1)
    = some [0, 1, 2] := by decide +kernel
example : ((Art.Gen.BARTMAP.fit exOps exOps exPearson exMean 100 {} {} exX 1).map (fun r => r.rows_.length))
    = some 6 := by decide +kernel
-- the state the row module was in before does not matter (fit empties it); two epochs give the same labels here
example : (Art.Gen.BARTMAP.fit exOps exOps exPearson exMean 5 { W := [3, 4], cnt := [1, 1], n := 2, labels := [1, 0] } {} exX 2).map obs
    = (Art.Gen.BARTMAP.fit exOps exOps exPearson exMean 5 {} {} exX 1).map obs := by decide +kernel
-- the reset function of the generated code, asked about row 1 after the column module is fitted
example : match_reset_func exOps exPearson exMean 5 (exOps.fit {} (exOps.prepare_data {} (npT exX)) 1) exX
    (7 : Nat) (6 : Nat) 0 () [("k", 1)] none = some true := by decide +kernel
example : p_average_pearson_corr exOps exPearson exMean (exOps.fit {} (exOps.prepare_data {} (npT exX)) 1) exX 1 1
    = some 34 := by decide +kernel
-- F13 on a 2 x 3 matrix: the column mask (length 3) cannot index the 2 rows
example : match_reset_func exOps exPearson exMean 5 (exOps.fit {} (exOps.prepare_data {} (npT [[1, 2, 3], [1, 3, 3]])) 1)
    [[1, 2, 3], [1, 3, 3]] (7 : Nat) (6 : Nat) 0 () [("k", 1)] none = none := by decide +kernel
-- the hypotheses of `fit_spec` hold on the example: `gen_fit_partition` applies to it
example : ∃ res la lb, Art.Gen.BARTMAP.fit exOps exOps exPearson exMean 5 {} {} exX 1 = some res ∧
    (exOps.labels_ res.module_a)[2]? = some la ∧ (exOps.labels_ res.module_b)[1]? = some lb ∧
    cellBiclusters res.rows_ res.columns_ 2 1 = [la * exOps.n_clusters res.module_b + lb] :=
  gen_fit_partition exTie exTie exPearson exMean 5 {} {} exX (by decide) (by decide) (by decide +kernel) 2 1
    (by decide) (by decide)

end Example

end Art.GenSpec.Bartmap
