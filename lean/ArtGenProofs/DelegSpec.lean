/-
`generated = specification` for the delegating wrappers of the compound estimators (ArtGen/Deleg.lean, regenerated
from the Python sources by harness/artv/xtrans.py on every run), and the hosts' `restore_data ∘ prepare_data = id`
derived from the modules' round trip (C18: "every estimator's prepare/restore pair").

The specification of a wrapper says *which* held estimator, *which* of its methods, *which* argument and in which
order — written here by hand with the record fields of ArtModel/ImpDeleg.lean.  The wrappers are applied with named
arguments, so a renamed or reordered parameter in the source breaks the statement, not just the proof.
-/
import ArtGen.Deleg

namespace Art.GenSpec.Deleg
open Art.Deleg Art.Gen.Deleg

variable {A : Type}

/-! ### one-module hosts -/

theorem SimpleARTMAP_prepare (self : Host A) (X : A) (y : Option A) :
    SimpleARTMAP.prepare_data (self := self) (X := X) (y := y) = some (self.module_a.prepare_data X) := rfl

theorem SimpleARTMAP_restore (self : Host A) (X : A) (y : Option A) :
    SimpleARTMAP.restore_data (self := self) (X := X) (y := y) = some (self.module_a.restore_data X) := rfl

theorem Dual_prepare (self : Host A) (X : A) :
    DualVigilanceART.prepare_data (self := self) (X := X) = some (self.base_module.prepare_data X) := rfl

theorem Dual_restore (self : Host A) (X : A) :
    DualVigilanceART.restore_data (self := self) (X := X) = some (self.base_module.restore_data X) := rfl

theorem Dual_centers (self : Host A) :
    DualVigilanceART.get_cluster_centers (self := self) = some self.base_module.get_cluster_centers := rfl

theorem Topo_prepare (self : Host A) (X : A) :
    TopoART.prepare_data (self := self) (X := X) = some (self.base_module.prepare_data X) := rfl

theorem Topo_restore (self : Host A) (X : A) :
    TopoART.restore_data (self := self) (X := X) = some (self.base_module.restore_data X) := rfl

theorem Topo_match (self : Host A) (i w params : A) (cache : Option A) :
    TopoART.match_criterion (self := self) (i := i) (w := w) (params := params) (cache := cache)
      = some (self.base_module.match_criterion i w params cache) := rfl

theorem Topo_centers (self : Host A) :
    TopoART.get_cluster_centers (self := self) = some self.base_module.get_cluster_centers := rfl

theorem CVIART_validate (self : Host A) (X : A) :
    CVIART.validate_data (self := self) (X := X) = self.base_module.validate_data X := by
  unfold CVIART.validate_data
  cases self.base_module.validate_data X <;> rfl

theorem CVIART_check (self : Host A) (X : A) :
    CVIART.check_dimensions (self := self) (X := X) = self.base_module.check_dimensions X := by
  unfold CVIART.check_dimensions
  cases self.base_module.check_dimensions X <;> rfl

theorem CVIART_prepare (self : Host A) (X : A) :
    CVIART.prepare_data (self := self) (X := X) = some (self.base_module.prepare_data X) := rfl

theorem CVIART_restore (self : Host A) (X : A) :
    CVIART.restore_data (self := self) (X := X) = some (self.base_module.restore_data X) := rfl

theorem CVIART_step_pred (self : Host A) (x : A) :
    CVIART.step_pred (self := self) (x := x) = some (self.base_module.step_pred x) := rfl

theorem CVIART_centers (self : Host A) :
    CVIART.get_cluster_centers (self := self) = some self.base_module.get_cluster_centers := rfl

/-! ### ARTMAP: two modules, A side first -/

/-- both sides are validated, the A side first; the call raises iff one of them does -/
theorem ARTMAP_validate (self : Host A) (X y : A) :
    ARTMAP.validate_data (self := self) (X := X) (y := y)
      = (self.module_a.validate_data X).bind (fun _ => self.module_b.validate_data y) := by
  unfold ARTMAP.validate_data
  cases self.module_a.validate_data X with
  | none => rfl
  | some u => cases self.module_b.validate_data y <;> rfl

theorem ARTMAP_prepare (self : Host A) (X : A) (y : Option A) :
    ARTMAP.prepare_data (self := self) (X := X) (y := y)
      = y.map (fun y => (self.module_a.prepare_data X, self.module_b.prepare_data y)) := by
  cases y <;> rfl

theorem ARTMAP_restore (self : Host A) (X : A) (y : Option A) :
    ARTMAP.restore_data (self := self) (X := X) (y := y)
      = y.map (fun y => (self.module_a.restore_data X, self.module_b.restore_data y)) := by
  cases y <;> rfl

/-! ### DeepARTMAP / SMART: one module per channel -/

/-- the comprehension `[modules[i].f(X[i]) for i in range(n)]`: on lists of length `n` it is the zip -/
theorem comprehension_eq (f : Deleg.Mod A → A → A) (n : Nat) (ms : List (Deleg.Mod A)) (X : List A)
    (hm : n ≤ ms.length) (hx : n ≤ X.length) :
    (List.range n).mapM (fun i => do pure (f (← ms[i]?) (← X[i]?)))
      = some ((List.zipWith f ms X).take n) := by
  induction n with
  | zero => simp
  | succ n ih =>
    have hn : n < ms.length := by omega
    have hn' : n < X.length := by omega
    rw [List.range_succ, List.mapM_append, ih (by omega) (by omega)]
    simp only [List.mapM_cons, List.mapM_nil, List.getElem?_eq_getElem hn, List.getElem?_eq_getElem hn',
      Option.pure_def, Option.bind_eq_bind, Option.bind_some]
    rw [List.take_add_one]
    simp [List.getElem?_zipWith, List.getElem?_eq_getElem hn, List.getElem?_eq_getElem hn']

theorem DeepARTMAP_prepare (self : Host A) (X : List A) (y : Option A)
    (hm : self.n_modules = self.modules.length) (hx : self.n_modules = X.length) :
    DeepARTMAP.prepare_data (self := self) (X := X) (y := y)
      = some (List.zipWith (fun m x => m.prepare_data x) self.modules X, y) := by
  unfold DeepARTMAP.prepare_data
  have := comprehension_eq (fun m x => m.prepare_data x) self.n_modules self.modules X (by omega) (by omega)
  simp only [Option.pure_def, Option.bind_eq_bind] at this ⊢
  rw [this]
  simp only [Option.bind_some]
  rw [List.take_of_length_le (by simp [List.length_zipWith]; omega)]

theorem DeepARTMAP_restore (self : Host A) (X : List A) (y : Option A)
    (hm : self.n_modules = self.modules.length) (hx : self.n_modules = X.length) :
    DeepARTMAP.restore_data (self := self) (X := X) (y := y)
      = some (List.zipWith (fun m x => m.restore_data x) self.modules X, y) := by
  unfold DeepARTMAP.restore_data
  have := comprehension_eq (fun m x => m.restore_data x) self.n_modules self.modules X (by omega) (by omega)
  simp only [Option.pure_def, Option.bind_eq_bind] at this ⊢
  rw [this]
  simp only [Option.bind_some]
  rw [List.take_of_length_le (by simp [List.length_zipWith]; omega)]

theorem DeepARTMAP_labels (self : Host A) :
    DeepARTMAP.labels_ (self := self) = (self.layers[0]?).map (fun l => l.labels_) := by
  unfold DeepARTMAP.labels_
  cases self.layers[0]? <;> rfl

/-- SMART feeds the same matrix to every level and returns the first level's result -/
theorem SMART_prepare (self : Host A) (X : A) (y : Option A) (m : Deleg.Mod A) (ms : List (Deleg.Mod A))
    (hmods : self.modules = m :: ms) (hm : self.n_modules = self.modules.length) :
    SMART.prepare_data (self := self) (X := X) (y := y) = some (m.prepare_data X) := by
  unfold SMART.prepare_data
  rw [DeepARTMAP_prepare self _ none hm (by simp)]
  simp [hmods, hm, List.replicate_succ]

theorem SMART_restore (self : Host A) (X : A) (y : Option A) (m : Deleg.Mod A) (ms : List (Deleg.Mod A))
    (hmods : self.modules = m :: ms) (hm : self.n_modules = self.modules.length) :
    SMART.restore_data (self := self) (X := X) (y := y) = some (m.restore_data X) := by
  unfold SMART.restore_data
  rw [DeepARTMAP_restore self _ none hm (by simp)]
  simp [hmods, hm, List.replicate_succ]

/-! ### FALCON: states, actions, rewards are channels 0, 1, 2 of the fusion module -/

theorem FALCON_prepare (self : Host A) (s a r : A) (ms ma mr : Deleg.Mod A) (rest : List (Deleg.Mod A))
    (h : self.fusion_art.modules = ms :: ma :: mr :: rest) :
    FALCON.prepare_data (self := self) (states := s) (actions := a) (rewards := r)
      = some (ms.prepare_data s, ma.prepare_data a, mr.prepare_data r) := by
  simp [FALCON.prepare_data, h]

theorem FALCON_restore (self : Host A) (s a r : A) (ms ma mr : Deleg.Mod A) (rest : List (Deleg.Mod A))
    (h : self.fusion_art.modules = ms :: ma :: mr :: rest) :
    FALCON.restore_data (self := self) (states := s) (actions := a) (rewards := r)
      = some (ms.restore_data s, ma.restore_data a, mr.restore_data r) := by
  simp [FALCON.restore_data, h]

/-! ### C18 for the hosts: `restore_data (prepare_data X) = X` whenever the held estimators round-trip -/

theorem SimpleARTMAP_roundtrip (self : Host A) (X : A) (h : self.module_a.RoundTrips) :
    (SimpleARTMAP.prepare_data self X).bind (fun P => SimpleARTMAP.restore_data self P) = some X := by
  simp [SimpleARTMAP_prepare, SimpleARTMAP_restore, h X]

theorem Dual_roundtrip (self : Host A) (X : A) (h : self.base_module.RoundTrips) :
    (DualVigilanceART.prepare_data self X).bind (fun P => DualVigilanceART.restore_data self P) = some X := by
  simp [Dual_prepare, Dual_restore, h X]

theorem Topo_roundtrip (self : Host A) (X : A) (h : self.base_module.RoundTrips) :
    (TopoART.prepare_data self X).bind (fun P => TopoART.restore_data self P) = some X := by
  simp [Topo_prepare, Topo_restore, h X]

theorem CVIART_roundtrip (self : Host A) (X : A) (h : self.base_module.RoundTrips) :
    (CVIART.prepare_data self X).bind (fun P => CVIART.restore_data self P) = some X := by
  simp [CVIART_prepare, CVIART_restore, h X]

theorem ARTMAP_roundtrip (self : Host A) (X y : A) (ha : self.module_a.RoundTrips) (hb : self.module_b.RoundTrips) :
    (ARTMAP.prepare_data self X (some y)).bind (fun P => ARTMAP.restore_data self P.1 (some P.2)) = some (X, y) := by
  simp [ARTMAP_prepare, ARTMAP_restore, ha X, hb y]

theorem zipWith_roundtrip (ms : List (Deleg.Mod A)) (X : List A) (h : ∀ m ∈ ms, m.RoundTrips)
    (hl : ms.length = X.length) :
    List.zipWith (fun m x => m.restore_data x) ms (List.zipWith (fun m x => m.prepare_data x) ms X) = X := by
  induction ms generalizing X with
  | nil => cases X <;> simp_all
  | cons m ms ih =>
    cases X with
    | nil => simp at hl
    | cons x X =>
      simp only [List.zipWith_cons_cons, List.cons.injEq]
      exact ⟨h m (by simp) x, ih X (fun m' hm' => h m' (by simp [hm'])) (by simpa using hl)⟩

theorem DeepARTMAP_roundtrip (self : Host A) (X : List A) (y : Option A)
    (hm : self.n_modules = self.modules.length) (hx : self.n_modules = X.length)
    (h : ∀ m ∈ self.modules, m.RoundTrips) :
    (DeepARTMAP.prepare_data self X y).bind (fun P => DeepARTMAP.restore_data self P.1 P.2) = some (X, y) := by
  rw [DeepARTMAP_prepare self X y hm hx]
  simp only [Option.bind_some]
  rw [DeepARTMAP_restore self _ y hm (by simp [List.length_zipWith]; omega)]
  rw [zipWith_roundtrip self.modules X h (by omega)]

theorem SMART_roundtrip (self : Host A) (X : A) (m : Deleg.Mod A) (ms : List (Deleg.Mod A))
    (hmods : self.modules = m :: ms) (hm : self.n_modules = self.modules.length) (h : m.RoundTrips) :
    (SMART.prepare_data self X).bind (fun P => SMART.restore_data self P) = some X := by
  rw [SMART_prepare self X none m ms hmods hm]
  simp only [Option.bind_some]
  rw [SMART_restore self _ none m ms hmods hm, h X]

theorem FALCON_roundtrip (self : Host A) (s a r : A) (ms ma mr : Deleg.Mod A) (rest : List (Deleg.Mod A))
    (hmods : self.fusion_art.modules = ms :: ma :: mr :: rest)
    (h0 : ms.RoundTrips) (h1 : ma.RoundTrips) (h2 : mr.RoundTrips) :
    (FALCON.prepare_data self s a r).bind (fun P => FALCON.restore_data self P.1 P.2.1 P.2.2) = some (s, a, r) := by
  rw [FALCON_prepare self s a r ms ma mr rest hmods]
  simp only [Option.bind_some]
  rw [FALCON_restore self _ _ _ ms ma mr rest hmods, h0 s, h1 a, h2 r]

/-! ### non-vacuity: concrete hosts -/

/-- a module over `Int` that shifts by `k` -/
def shift (k : Int) : Deleg.Mod Int :=
  { prepare_data := (· + k), restore_data := (· - k), validate_data := fun x => if 0 ≤ x then some () else none,
    check_dimensions := fun _ => some (), get_cluster_centers := k, step_pred := id,
    match_criterion := fun i _ _ _ => i, labels_ := k }

theorem shift_roundTrips (k : Int) : (shift k).RoundTrips := by intro x; simp [shift]

def host₀ : Host Int :=
  { module_a := shift 1, module_b := shift 2, base_module := shift 3, modules := [shift 4, shift 5],
    layers := [shift 6], n_modules := 2, fusion_art := ⟨[shift 7, shift 8, shift 9]⟩ }

example : ARTMAP.prepare_data host₀ 10 (some 20) = some (11, 22) := by decide
example : ARTMAP.prepare_data host₀ 10 = none := by decide
example : ARTMAP.validate_data host₀ 1 (-1) = none := by decide
example : DeepARTMAP.prepare_data host₀ [10, 20] = some ([14, 25], none) := by decide
example : DeepARTMAP.prepare_data host₀ [10] = none := by decide
example : SMART.prepare_data host₀ 10 = some 14 := by decide
example : FALCON.restore_data host₀ 10 20 30 = some (3, 12, 21) := by decide
example : DeepARTMAP.labels_ host₀ = some 6 := by decide
example : (DeepARTMAP.prepare_data host₀ [10, 20]).bind (fun P => DeepARTMAP.restore_data host₀ P.1 P.2)
    = some ([10, 20], none) :=
  DeepARTMAP_roundtrip host₀ [10, 20] none rfl rfl (by
    intro m hm; simp [host₀] at hm; rcases hm with rfl | rfl <;> exact shift_roundTrips _)

end Art.GenSpec.Deleg
