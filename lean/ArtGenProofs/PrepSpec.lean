/-
ArtGenProofs.PrepSpec — the data-preparation and validation code of artlib, as translated from the Python source by
`harness/artv/ptrans.py` (ArtGen/Prep.lean), computes the definitions of `ArtModel/Prep.lean` that the C18 property
theorems are stated about — for every matrix size, every remembered state — and the C18 theorems hold of the
generated definitions.

A module-level function is generated in `Except PyErr`, a method in `Py (Self α)` (`ArtModel/ImpPrep.lean`): the
attribute record *at the end of the call, also when it raises*, is part of the result, so "rejected before any state
change" is proved about the generated term.  Shape hypotheses are those of the C18 theorems: `Rect X d` (numpy
matrices are rectangular), `X ≠ []` (`np.min(axis=0)` raises on zero rows, `normalize_empty_raises`), remembered
bounds of the data width (`BoundsFit`; numpy raises `ValueError` or stretches a length-1 axis otherwise, where the
model's `zipWith` truncates).

  normalize_spec / de_normalize_spec / compliment_code_spec / de_compliment_code_spec      utils.* = Art.normalize / deNormalize / complementCode / deComplementCode
  l1norm_spec / l2norm2_spec / fuzzy_and_spec                                              = vsum ∘ |·| / l2sq / vmin  (what ktrans renders a call of them as)
  prepare_base_spec / restore_base_spec / prepare_fuzzy_spec / restore_fuzzy_spec (_value) the methods = prepareBase / restoreBase / prepareFuzzy / restoreFuzzy, attributes written
  check_dimensions_base_spec, validate_{base,fuzzy,art1}_spec                              = runValidate valid{Base,Fuzzy,ART1}: answer and every attribute
  validate_art2a_spec                                                                      = runValidateART2A (sqrt a parameter: `SqrtOk`, alpha ≥ 0)
  gen_restore_prepare_{base,fuzzy}, gen_bounds_reused, gen_prepare_passes_validate_base    C18 round trip / [0,1] / bounds re-used / accepted by the same class, transported
  gen_validate_{base,fuzzy,art1,art2a}_atomic, gen_entry_rejects_{base,fuzzy}              C18 "rejects before any attribute changes", transported
-/
import ArtGen.Prep
import ArtProps.C18

set_option linter.unusedSectionVars false
set_option linter.unusedSimpArgs false
set_option linter.unnecessarySeqFocus false

namespace Art.GenSpec.Prep
open Art Art.Np Art.Prep Art.Gen.Prep

/-! ### the generic numpy helpers on well-shaped arguments -/

section Helpers
variable {β γ δ : Type}

theorem mapE_ok {f : β → Except PyErr γ} {g : β → γ} {l : List β} (h : ∀ a ∈ l, f a = .ok (g a)) :
    mapE f l = .ok (l.map g) := by
  induction l with
  | nil => rfl
  | cons a l ih =>
    simp only [mapE, h a (by simp), ih (fun b hb => h b (by simp [hb])), List.map_cons]

theorem zipE_ok {f : β → γ → Except PyErr δ} {g : β → γ → δ} :
    ∀ {x : List β} {y : List γ}, (∀ p ∈ x.zip y, f p.1 p.2 = .ok (g p.1 p.2)) →
      zipE f x y = .ok (List.zipWith g x y)
  | [], _, _ => by simp [zipE]
  | _ :: _, [], _ => by simp [zipE]
  | a :: x, b :: y, h => by
    have h0 := h (a, b) (by simp)
    have ih := zipE_ok (f := f) (g := g) (x := x) (y := y) (fun p hp => h p (by simp [hp]))
    simp only at h0
    simp only [zipE, h0, ih, List.zipWith_cons_cons]

theorem bcast1_ok (f : β → γ → δ) {x : List β} {y : List γ} (h : x.length = y.length) :
    bcast1 f x y = .ok (List.zipWith f x y) := by
  simp only [bcast1, bzip, h, if_true]
  exact zipE_ok (fun _ _ => rfl)

/-- matrix ∘ vector: every row has the vector's length -/
theorem bcast2_row_ok (f : β → γ → δ) {X : List (List β)} {v : List γ} (h : ∀ r ∈ X, r.length = v.length) :
    bcast2 f X [v] = .ok (X.map (fun r => List.zipWith f r v)) := by
  match X, h with
  | [], _ => simp [bcast2, bzip, mapE]
  | [r], h =>
    simp [bcast2, bzip, zipE, bcast1_ok f (h r (by simp))]
  | r :: q :: t, h =>
    have : (r :: q :: t).length ≠ [v].length := by simp
    simp only [bcast2, bzip, this, if_false]
    exact mapE_ok (fun a ha => bcast1_ok f (h a ha))

/-- matrix ∘ matrix of the same shape -/
theorem bcast2_ok (f : β → γ → δ) {X : List (List β)} {Y : List (List γ)} (hl : X.length = Y.length)
    (h : ∀ p ∈ X.zip Y, p.1.length = p.2.length) :
    bcast2 f X Y = .ok (List.zipWith (List.zipWith f) X Y) := by
  simp only [bcast2, bzip, hl, if_true]
  exact zipE_ok (fun p hp => bcast1_ok f (h p hp))

/-- matrix ∘ matrix, both computed row by row from the same rows -/
theorem bcast2_map_ok {ι : Type} (f : β → γ → δ) (X : List ι) (g : ι → List β) (h : ι → List γ)
    (hl : ∀ r ∈ X, (g r).length = (h r).length) :
    bcast2 f (X.map g) (X.map h) = .ok (X.map (fun r => List.zipWith f (g r) (h r))) := by
  simp only [bcast2, bzip, List.length_map, if_true]
  induction X with
  | nil => rfl
  | cons r X ih =>
    simp only [List.map_cons, zipE, bcast1_ok f (hl r (by simp)), ih (fun q hq => hl q (by simp [hq]))]

theorem shape_snd (X : List (List β)) : (shape X).2 = width X := by
  cases X <;> rfl

end Helpers

/-! ### `utils.py` -/

section Utils
variable {α : Type} [Field α] [LinearOrder α] [IsStrictOrderedRing α]

theorem reduceAxis0_min {X : Mat α} (hne : X ≠ []) : reduceAxis0 min X = .ok (colMin X) := by
  cases X with
  | nil => exact absurd rfl hne
  | cons r rs => rfl

theorem reduceAxis0_max {X : Mat α} (hne : X ≠ []) : reduceAxis0 max X = .ok (colMax X) := by
  cases X with
  | nil => exact absurd rfl hne
  | cons r rs => rfl

/-- the model's three-list recursion is the broadcast expression `(x - mn) / (mx - mn)` -/
theorem normRow_eq_zip : ∀ (x mx mn : List α),
    List.zipWith (fun a b => a / b) (List.zipWith (fun a b => a - b) x mn) (List.zipWith (fun a b => a - b) mx mn)
      = normRow x mx mn
  | [], _, _ => by simp [normRow]
  | _ :: _, [], _ => by simp [normRow]
  | _ :: _, _ :: _, [] => by simp [normRow]
  | x :: xs, m :: ms, n :: ns => by simp [normRow, normRow_eq_zip xs ms ns]

theorem denormRow_eq_zip : ∀ (y mx mn : List α),
    List.zipWith (fun a b => a + b) (List.zipWith (fun a b => a * b) y (List.zipWith (fun a b => a - b) mx mn)) mn
      = denormRow y mx mn
  | [], _, _ => by simp [denormRow]
  | _ :: _, [], _ => by simp [denormRow]
  | _ :: _, _ :: _, [] => by simp [denormRow]
  | y :: ys, m :: ms, n :: ns => by simp [denormRow, denormRow_eq_zip ys ms ns]

/-- `utils.normalize` with both bounds remembered -/
theorem normalize_some {X : Mat α} {d : Nat} {mx mn : List α} (hX : Rect X d) (h1 : mx.length = d)
    (h2 : mn.length = d) :
    Gen.Prep.normalize X (some mx) (some mn) = .ok (normWith mx mn X, mx, mn) := by
  have e1 := bcast2_row_ok (fun a b : α => a - b) (X := X) (v := mn) (fun r hr => by rw [hX r hr, h2])
  have e2 := bcast1_ok (fun a b : α => a - b) (x := mx) (y := mn) (by rw [h1, h2])
  have e3 := bcast2_row_ok (fun a b : α => a / b)
    (X := X.map (fun r => List.zipWith (fun a b => a - b) r mn))
    (v := List.zipWith (fun a b => a - b) mx mn) (by
      intro r hr
      simp only [List.mem_map] at hr
      obtain ⟨q, hq, rfl⟩ := hr
      simp [hX q hq, h1, h2])
  simp only [Gen.Prep.normalize, bind, Except.bind, pure, Except.pure, e1, e2, e3]
  simp only [normWith, List.map_map, Function.comp_def, normRow_eq_zip]

theorem normalize_none_max {X : Mat α} (hne : X ≠ []) (dmin? : Option (List α)) :
    Gen.Prep.normalize X none dmin? = Gen.Prep.normalize X (some (colMax X)) dmin? := by
  simp only [Gen.Prep.normalize, bind, Except.bind, pure, Except.pure, reduceAxis0_max hne]

theorem normalize_none_min {X : Mat α} (hne : X ≠ []) (dmax? : Option (List α)) :
    Gen.Prep.normalize X dmax? none = Gen.Prep.normalize X dmax? (some (colMin X)) := by
  simp only [Gen.Prep.normalize, bind, Except.bind, pure, Except.pure, reduceAxis0_min hne]

/-- **`utils.normalize` = the model's `normalize`** on a non-empty rectangular matrix, with or without remembered
bounds (of the data's width). -/
theorem normalize_spec (X : Mat α) (dmax? dmin? : Option (List α)) (d : Nat) (hX : Rect X d) (hne : X ≠ [])
    (h1 : ∀ m, dmax? = some m → m.length = d) (h2 : ∀ m, dmin? = some m → m.length = d) :
    Gen.Prep.normalize X dmax? dmin? = .ok (Art.normalize X dmax? dmin?) := by
  have cmx := (colMax_spec hX hne).1
  have cmn := (colMin_spec hX hne).1
  cases dmax? with
  | none =>
    rw [normalize_none_max hne]
    cases dmin? with
    | none => rw [normalize_none_min hne, normalize_some hX cmx cmn]; rfl
    | some mn => rw [normalize_some hX cmx (h2 mn rfl)]; rfl
  | some mx =>
    cases dmin? with
    | none => rw [normalize_none_min hne, normalize_some hX (h1 mx rfl) cmn]; rfl
    | some mn => rw [normalize_some hX (h1 mx rfl) (h2 mn rfl)]; rfl

/-- zero rows and a bound to compute: `np.min(axis=0)` raises (the model's `colMin [] = []` is outside numpy) -/
theorem normalize_empty_raises (dmax? : Option (List α)) :
    Gen.Prep.normalize ([] : Mat α) dmax? none = .error .value := by
  simp [Gen.Prep.normalize, reduceAxis0, bind, Except.bind]

/-- **`utils.de_normalize` = the model's `deNormalize`** -/
theorem de_normalize_spec (Y : Mat α) (dmax dmin : List α) (d : Nat) (hY : Rect Y d) (h1 : dmax.length = d)
    (h2 : dmin.length = d) :
    Gen.Prep.de_normalize Y dmax dmin = .ok (deNormalize Y dmax dmin) := by
  have e2 := bcast1_ok (fun a b : α => a - b) (x := dmax) (y := dmin) (by rw [h1, h2])
  have e1 := bcast2_row_ok (fun a b : α => a * b) (X := Y) (v := List.zipWith (fun a b => a - b) dmax dmin)
    (fun r hr => by simp [hY r hr, h1, h2])
  have e3 := bcast2_row_ok (fun a b : α => a + b)
    (X := Y.map (fun r => List.zipWith (fun a b => a * b) r (List.zipWith (fun a b => a - b) dmax dmin)))
    (v := dmin) (by
      intro r hr
      simp only [List.mem_map] at hr
      obtain ⟨q, hq, rfl⟩ := hr
      simp [hY q hq, h1, h2])
  simp only [Gen.Prep.de_normalize, bind, Except.bind, pure, Except.pure, e1, e2, e3]
  simp only [deNormalize, List.map_map, Function.comp_def, denormRow_eq_zip]

theorem zipWith_append_map {β : Type} (f : List β → List β) : ∀ (X : List (List β)),
    List.zipWith (· ++ ·) X (X.map f) = X.map (fun r => r ++ f r)
  | [] => rfl
  | r :: X => by simp [zipWith_append_map f X]

/-- **`utils.compliment_code` = the model's `complementCode`**, for every matrix (it cannot raise) -/
theorem compliment_code_spec (X : Mat α) : Gen.Prep.compliment_code X = .ok (complementCode X) := by
  simp only [Gen.Prep.compliment_code, hstack, ew2, List.foldlM_cons, List.foldlM_nil, List.length_map, if_true,
    bind, Except.bind, pure, Except.pure, zipWith_append_map]
  rfl

/-- one row of the generated `de_compliment_code`, `m` = half the width -/
theorem deccRow_gen (r : List α) (m : Nat) (hm : m = r.length / 2) :
    List.map (fun x => x / ((2 : Nat) : α))
      (List.zipWith (fun a b => a + b) ((r.take m).drop 0) ((r.drop m).map (fun x => (1 : α) - x))) = deccRow r := by
  subst hm
  simp only [deccRow, List.drop_zero, List.zipWith_map_right, List.map_zipWith, Nat.cast_ofNat, one_add_one_eq_two]

/-- **`utils.de_compliment_code` = the model's `deComplementCode`** on a rectangular matrix: the assertion
"The number of columns must be even" fails exactly when the model answers `none`. -/
theorem de_compliment_code_spec (X : Mat α) (d : Nat) (hX : Rect X d) :
    Gen.Prep.de_compliment_code X =
      (match deComplementCode X with
        | some Z => .ok Z
        | none => .error .assertion) := by
  cases X with
  | nil =>
    simp [Gen.Prep.de_compliment_code, deComplementCode, shape, Np.assert, cols, ew2, bcast2, bzip, zipE, bind,
      Except.bind, pure, Except.pure]
  | cons r0 X' =>
    have hw : (shape (r0 :: X')).2 = d := by simp [shape, hX r0 (by simp)]
    have hall : (r0 :: X').all (fun r => r.length % 2 == 0) = (d % 2 == 0) := by
      rw [Bool.eq_iff_iff]
      simp only [List.all_eq_true]
      constructor
      · intro h; simpa [hX r0 (by simp)] using h r0 (by simp)
      · intro h r hr; rw [hX r hr]; exact h
    by_cases hev : d % 2 = 0
    · have hlen : ∀ r ∈ r0 :: X', ((r.take (d / 2)).drop 0).length = ((r.drop (d / 2)).map (fun x => (1 : α) - x)).length := by
        intro r hr
        simp [hX r hr]; omega
      have e1 := bcast2_map_ok (fun a b : α => a + b) (r0 :: X') (fun r => (r.take (d / 2)).drop 0)
        (fun r => (r.drop (d / 2)).map (fun x => (1 : α) - x)) hlen
      have hev' : (d % 2 == 0) = true := by simpa using hev
      have hrows : (r0 :: X').map (fun r => List.map (fun x => x / ((2 : Nat) : α))
          (List.zipWith (fun a b => a + b) ((r.take (d / 2)).drop 0) ((r.drop (d / 2)).map (fun x => (1 : α) - x))))
          = (r0 :: X').map deccRow :=
        List.map_congr_left (fun r hr => deccRow_gen r (d / 2) (by rw [hX r hr]))
      simp only [Gen.Prep.de_compliment_code, deComplementCode, hw, hall, hev', Np.assert, cols, ew2, List.map_map,
        Function.comp_def, bind, Except.bind, pure, Except.pure, if_true] at e1 ⊢
      rw [e1]
      simp only [List.map_map, Function.comp_def]
      exact congrArg _ hrows
    · have hodd : (d % 2 == 0) = false := by simpa using hev
      simp [Gen.Prep.de_compliment_code, deComplementCode, hw, hall, hodd, Np.assert, bind, Except.bind]

theorem sum1_eq_vsum : ∀ (v : List α), sum1 v = vsum v
  | [] => rfl
  | x :: xs => by
    have ih := sum1_eq_vsum xs
    simp only [sum1, List.foldr_cons, vsum] at ih ⊢
    rw [ih]

theorem npabs_eq_abs (x : α) : Np.abs x = |x| := by
  unfold Np.abs
  split
  · rename_i h; exact (abs_of_nonneg h).symm
  · rename_i h; rw [zero_sub, abs_of_neg (not_le.mp h)]

/-- **`utils.l1norm`** = `Σ |xᵢ|`, the expression `ktrans` uses for a call of `l1norm` in a kernel -/
theorem l1norm_spec (x : List α) : Gen.Prep.l1norm x = .ok (vsum (x.map (fun t => |t|))) := by
  simp only [Gen.Prep.l1norm, pure, Except.pure, sum1_eq_vsum, ew1]
  congr 2
  exact List.map_congr_left (fun t _ => npabs_eq_abs t)

/-- **`utils.l2norm2`** = `x · x` (`Art.l2sq`), the expression `ktrans` uses for `l2norm2` -/
theorem l2norm2_spec (x : List α) : Gen.Prep.l2norm2 x = .ok (l2sq x) := by
  simp only [Gen.Prep.l2norm2, matmul1, if_true, sum1_eq_vsum]
  rfl

/-- **`utils.fuzzy_and`** = `Art.vmin` on vectors of equal length (numpy raises or stretches otherwise) -/
theorem fuzzy_and_spec (x y : List α) (h : x.length = y.length) : Gen.Prep.fuzzy_and x y = .ok (vmin x y) := by
  simp only [Gen.Prep.fuzzy_and, bcast1_ok _ h]
  rfl

end Utils

/-! ### `prepare_data` / `restore_data` -/

section Methods
variable {α : Type} [Field α] [LinearOrder α] [IsStrictOrderedRing α]

/-- the remembered bounds of the generated attribute record, as the model's `PrepState` -/
def toPrep (s : Self α) : PrepState α := { dmax := s.d_max_, dmin := s.d_min_ }

/-- remembered bounds, when present, have the width `d` -/
def BoundsFit (s : Self α) (d : Nat) : Prop :=
  (∀ m, s.d_max_ = some m → m.length = d) ∧ (∀ m, s.d_min_ = some m → m.length = d)

/-- **`BaseART.prepare_data` = the model's `prepareBase`**: the value returned and the two attributes written;
`dim_` / `dim_original` are not touched. -/
theorem prepare_base_spec (s : Self α) (X : Mat α) (d : Nat) (hX : Rect X d) (hne : X ≠ []) (hb : BoundsFit s d) :
    BaseART.prepare_data X s =
      (.ok (prepareBase (toPrep s) X).1,
        { s with d_max_ := (prepareBase (toPrep s) X).2.dmax, d_min_ := (prepareBase (toPrep s) X).2.dmin }) := by
  have h := normalize_spec X s.d_max_ s.d_min_ d hX hne hb.1 hb.2
  simp only [BaseART.prepare_data, bind, Py.bind, pure, Py.pure, Py.get, Py.lift, Py.modify, h, prepareBase, toPrep]

/-- **`BaseART.restore_data` = the model's `restoreBase`**: `TypeError` exactly when a bound is still `None`; no
attribute is written. -/
theorem restore_base_spec (s : Self α) (Y : Mat α) (d : Nat) (hY : Rect Y d) (hb : BoundsFit s d) :
    BaseART.restore_data Y s =
      ((match restoreBase (toPrep s) Y with
        | some Z => .ok Z
        | none => .error .type), s) := by
  obtain ⟨mx?, mn?, dim, dorig⟩ := s
  cases mx? with
  | none => simp [BaseART.restore_data, bind, Py.bind, Py.get, Py.lift, notNone, restoreBase, toPrep]
  | some mx =>
    cases mn? with
    | none => simp [BaseART.restore_data, bind, Py.bind, Py.get, Py.lift, notNone, restoreBase, toPrep]
    | some mn =>
      have h := de_normalize_spec Y mx mn d hY (hb.1 mx rfl) (hb.2 mn rfl)
      simp [BaseART.restore_data, bind, Py.bind, Py.get, Py.lift, notNone, restoreBase, toPrep, h]

/-- **`FuzzyART.prepare_data` = the model's `prepareFuzzy`** -/
theorem prepare_fuzzy_spec (s : Self α) (X : Mat α) (d : Nat) (hX : Rect X d) (hne : X ≠ []) (hb : BoundsFit s d) :
    FuzzyART.prepare_data X s =
      (.ok (prepareFuzzy (toPrep s) X).1,
        { s with d_max_ := (prepareFuzzy (toPrep s) X).2.dmax, d_min_ := (prepareFuzzy (toPrep s) X).2.dmin }) := by
  have h := normalize_spec X s.d_max_ s.d_min_ d hX hne hb.1 hb.2
  simp only [FuzzyART.prepare_data, bind, Py.bind, pure, Py.pure, Py.get, Py.lift, Py.modify, h, prepareFuzzy,
    prepareBase, toPrep, compliment_code_spec]

theorem deccRow_length (r : List α) : (deccRow r).length = r.length / 2 := by
  simp [deccRow]; omega

/-- **`FuzzyART.restore_data` = the model's `restoreFuzzy`**: `AssertionError` when the width is odd, `TypeError`
when a bound is still `None`; no attribute is written. -/
theorem restore_fuzzy_spec (s : Self α) (Y : Mat α) (w : Nat) (hY : Rect Y w) (hb : BoundsFit s (w / 2)) :
    FuzzyART.restore_data Y s =
      ((match deComplementCode Y with
        | none => .error .assertion
        | some Z =>
          match restoreBase (toPrep s) Z with
          | some W => .ok W
          | none => .error .type), s) := by
  have h := de_compliment_code_spec Y w hY
  cases hd : deComplementCode Y with
  | none =>
    rw [hd] at h
    simp [FuzzyART.restore_data, bind, Py.bind, Py.lift, h]
  | some Z =>
    rw [hd] at h
    have hZ : Rect Z (w / 2) := by
      unfold deComplementCode at hd
      split at hd
      · cases hd
        intro r hr
        simp only [List.mem_map] at hr
        obtain ⟨q, hq, rfl⟩ := hr
        rw [deccRow_length, hY q hq]
      · cases hd
    simp [FuzzyART.restore_data, bind, Py.bind, Py.lift, pure, Py.pure, h, restore_base_spec s Z (w / 2) hZ hb]

/-- the generated `restore_data` answers a value exactly when the model's `restoreFuzzy` does, and then the same one -/
theorem restore_fuzzy_value (s : Self α) (Y : Mat α) (w : Nat) (hY : Rect Y w) (hb : BoundsFit s (w / 2)) :
    (FuzzyART.restore_data Y s).1.toOption = restoreFuzzy (toPrep s) Y := by
  rw [restore_fuzzy_spec s Y w hY hb]
  unfold restoreFuzzy
  cases deComplementCode Y with
  | none => rfl
  | some Z => cases h : restoreBase (toPrep s) Z <;> simp [h, Except.toOption]

end Methods

/-! ### `validate_data` / `check_dimensions` -/

section Validate
variable {α : Type} [Field α] [LinearOrder α] [IsStrictOrderedRing α]

/-- what a validator returns: nothing, or `AssertionError` -/
def okIf (b : Bool) : Except PyErr Unit := if b then .ok () else .error .assertion

/-- the two range assertions together are the model's `inUnit` -/
theorem inUnit_gen (X : Mat α) :
    (all2 (ew2 (fun x => decide (x ≥ (0 : α))) X) && all2 (ew2 (fun x => decide (x ≤ (1 : α))) X)) = inUnit X := by
  rw [Bool.eq_iff_iff]
  simp only [all2, ew2, inUnit, List.all_map, List.all_eq_true, Bool.and_eq_true, Function.comp_def, id,
    decide_eq_true_eq, ge_iff_le]
  constructor
  · rintro ⟨h0, h1⟩ r hr v hv; exact ⟨h0 r hr v hv, h1 r hr v hv⟩
  · intro h; exact ⟨fun r hr v hv => (h r hr v hv).1, fun r hr v hv => (h r hr v hv).2⟩

/-- **`BaseART.check_dimensions`**: the first call records the width, later calls compare with it -/
theorem check_dimensions_base_spec (s : Self α) (X : Mat α) :
    BaseART.check_dimensions X s =
      (okIf (widthOk s.dim_ X),
        match s.dim_ with
        | none => { s with dim_ := some (width X) }
        | some _ => s) := by
  obtain ⟨mx, mn, dim, dorig⟩ := s
  cases dim <;>
    simp [BaseART.check_dimensions, bind, Py.bind, Py.get, Py.modify, Py.assert, Py.attr, shape_snd, okIf, widthOk]

/-- **`BaseART.validate_data` = the model's `runValidate validBase`**: the answer and every attribute after the call -/
theorem validate_base_spec (s : Self α) (X : Mat α) :
    BaseART.validate_data X s =
      (okIf (runValidate validBase ⟨s.dim_⟩ X).2, { s with dim_ := (runValidate validBase ⟨s.dim_⟩ X).1.dim }) := by
  obtain ⟨mx, mn, dim, dorig⟩ := s
  simp only [runValidate, validBase, ← inUnit_gen, BaseART.validate_data, bind, Py.bind, Py.assert]
  generalize all2 (ew2 (fun x => decide (x ≥ (0 : α))) X) = a
  generalize all2 (ew2 (fun x => decide (x ≤ (1 : α))) X) = b
  cases a <;> cases b <;> cases dim <;>
    simp [BaseART.validate_data, BaseART.check_dimensions, bind, Py.bind, Py.get, Py.modify, Py.assert, Py.attr,
      shape_snd, okIf, widthOk] <;>
    split_ifs <;> simp_all

/-- on an even width the generated row-sum assertion (`abs(Σ row - w / 2) <= 0.01`, true division) is the model's
`rowSumsOk` (floor division, two one-sided tests) -/
theorem rowSums_gen (X : Mat α) (hev : width X % 2 = 0) :
    all1 (ew1 (fun x => decide (x ≤ ((1 : α) / ((100 : Nat) : α))))
      (ew1 Np.abs (ew1 (fun x => x - (((width X : Nat) : α) / ((2 : Nat) : α))) (sumAxis1 X)))) = rowSumsOk X := by
  have hd : ((width X : Nat) : α) / ((2 : Nat) : α) = ((width X / 2 : Nat) : α) := by
    obtain ⟨k, hk⟩ := Nat.dvd_of_mod_eq_zero hev
    have h2 : ((2 : Nat) : α) ≠ 0 := by norm_num
    rw [hk, Nat.mul_div_cancel_left k (by norm_num : 0 < 2), Nat.cast_mul]
    field_simp
  rw [Bool.eq_iff_iff]
  simp only [all1, ew1, sumAxis1, rowSumsOk, ccTol, List.all_map, List.all_eq_true, Function.comp_def, id,
    decide_eq_true_eq, Bool.and_eq_true, hd, npabs_eq_abs, sum1_eq_vsum, abs_sub_le_iff]
  simp

/-- **`FuzzyART.validate_data` = the model's `runValidate validFuzzy`**; the accepting first call also records
`dim_original = dim_ // 2` (an attribute the model does not carry) -/
theorem validate_fuzzy_spec (s : Self α) (X : Mat α) :
    FuzzyART.validate_data X s =
      (okIf (runValidate validFuzzy ⟨s.dim_⟩ X).2,
        { s with dim_ := (runValidate validFuzzy ⟨s.dim_⟩ X).1.dim,
                 dim_original := if (runValidate validFuzzy ⟨s.dim_⟩ X).2 && s.dim_.isNone then some (width X / 2)
                                 else s.dim_original }) := by
  obtain ⟨mx, mn, dim, dorig⟩ := s
  by_cases hev : width X % 2 = 0
  · have hr := rowSums_gen X hev
    simp only [runValidate, validFuzzy, ← inUnit_gen, ← hr, FuzzyART.validate_data, bind, Py.bind, Py.assert, shape_snd]
    generalize all2 (ew2 (fun x => decide (x ≥ (0 : α))) X) = a
    generalize all2 (ew2 (fun x => decide (x ≤ (1 : α))) X) = b
    generalize all1 _ = c
    cases a <;> cases b <;> cases c <;> cases dim <;>
      simp [FuzzyART.check_dimensions, bind, Py.bind, Py.get, Py.modify, Py.assert, Py.attr,
        shape_snd, okIf, widthOk, hev] <;>
      split_ifs <;> simp_all
  · have hodd : (width X % 2 == 0) = false := by simpa using hev
    simp [runValidate, validFuzzy, FuzzyART.validate_data, bind, Py.bind, Py.assert, shape_snd, hodd, okIf]

/-- the generated `np.array_equal(X, X.astype(bool))` is the model's `isBinary` -/
theorem isBinary_gen : ∀ (X : Mat α), arrayEqualNB X (astypeBool X) = isBinary X
  | [] => by simp [arrayEqualNB, astypeBool, ew2, isBinary]
  | r :: X => by
    have ih := isBinary_gen X
    have hrow : (List.zipWith (fun v c => decide (v = ofBool c)) r (r.map (fun v => !decide (v = 0)))).all id
        = r.all (fun v => decide (v = 0) || decide (v = 1)) := by
      induction r with
      | nil => rfl
      | cons v r ihr =>
        simp only [List.map_cons, List.zipWith_cons_cons, List.all_cons, ihr]
        congr 1
        by_cases h0 : v = 0 <;> simp [h0, ofBool]
    simp only [astypeBool, ew2, List.map_cons, arrayEqualNB, List.length_map, beq_self_eq_true, Bool.true_and] at ih ⊢
    rw [ih, hrow]
    simp [isBinary]

/-- **`ART1.validate_data` = the model's `runValidate validART1`** -/
theorem validate_art1_spec (s : Self α) (X : Mat α) :
    ART1.validate_data X s =
      (okIf (runValidate validART1 ⟨s.dim_⟩ X).2, { s with dim_ := (runValidate validART1 ⟨s.dim_⟩ X).1.dim }) := by
  obtain ⟨mx, mn, dim, dorig⟩ := s
  simp only [runValidate, validART1, ← isBinary_gen, ART1.validate_data, bind, Py.bind, Py.assert]
  generalize arrayEqualNB X (astypeBool X) = a
  cases a <;> cases dim <;>
    simp [ART1.check_dimensions, bind, Py.bind, Py.get, Py.modify, Py.assert, Py.attr, shape_snd, okIf, widthOk] <;>
    split_ifs <;> simp_all

/-- what is assumed of numpy's `sqrt` (a parameter of the generated `ART2A.check_dimensions`, not translated) at the
data width: a positive square root -/
def SqrtOk (sqrt : α → α) (w : Nat) : Prop := 0 < sqrt (w : α) ∧ sqrt (w : α) * sqrt (w : α) = (w : α)

/-- `alpha <= 1 / np.sqrt(w)` is the model's square-root-free `alpha·alpha·w ≤ 1` for `alpha ≥ 0` -/
theorem art2_alpha_gen (alpha : α) (sqrt : α → α) (w : Nat) (hs : SqrtOk sqrt w) (ha : 0 ≤ alpha) :
    decide (alpha ≤ (1 : α) / sqrt ((w : Nat) : α)) = art2AlphaOk alpha w := by
  unfold art2AlphaOk
  rw [decide_eq_decide, le_div_iff₀ hs.1]
  have ht : 0 ≤ alpha * sqrt (w : α) := mul_nonneg ha hs.1.le
  have he : alpha * alpha * (w : α) = (alpha * sqrt (w : α)) * (alpha * sqrt (w : α)) := by
    have := hs.2
    calc alpha * alpha * (w : α) = alpha * alpha * (sqrt (w : α) * sqrt (w : α)) := by rw [this]
      _ = _ := by ring
  rw [he]
  constructor
  · intro h; nlinarith
  · intro h; by_contra hc; have hc := not_le.mp hc; nlinarith

/-- **`ART2A.validate_data`** (BaseART's body with ART2A's `check_dimensions`) **= the model's `runValidateART2A`** -/
theorem validate_art2a_spec (alpha : α) (sqrt : α → α) (s : Self α) (X : Mat α)
    (hs : s.dim_ = none → SqrtOk sqrt (width X)) (ha : 0 ≤ alpha) :
    ART2A.validate_data alpha sqrt X s =
      (okIf (runValidateART2A alpha ⟨s.dim_⟩ X).2, { s with dim_ := (runValidateART2A alpha ⟨s.dim_⟩ X).1.dim }) := by
  obtain ⟨mx, mn, dim, dorig⟩ := s
  simp only [runValidateART2A, ← inUnit_gen, ART2A.validate_data, bind, Py.bind, Py.assert]
  generalize all2 (ew2 (fun x => decide (x ≥ (0 : α))) X) = a
  generalize all2 (ew2 (fun x => decide (x ≤ (1 : α))) X) = b
  cases dim with
  | none =>
    have hg := art2_alpha_gen alpha sqrt (width X) (hs rfl) ha
    cases a <;> cases b <;>
      simp only [ART2A.check_dimensions, bind, Py.bind, Py.get, Py.modify, Py.assert, Py.attr, shape_snd, okIf, hg] <;>
      generalize art2AlphaOk alpha (width X) = c <;> cases c <;> simp [Py.bind, Py.assert, Py.modify]
  | some d =>
    cases a <;> cases b <;>
      simp [ART2A.check_dimensions, bind, Py.bind, Py.get, Py.modify, Py.assert, Py.attr, shape_snd, okIf]

end Validate

/-! ### C18 for the generated code -/

section C18
variable {α : Type} [Field α] [LinearOrder α] [IsStrictOrderedRing α]

theorem boundsFit_fresh (s : Self α) (d : Nat) (h : s.d_max_ = none ∧ s.d_min_ = none) : BoundsFit s d :=
  ⟨fun m hm => (by rw [h.1] at hm; cases hm), fun m hm => (by rw [h.2] at hm; cases hm)⟩

/-- **C18 round trip, generated `BaseART` pair** (transport of `C18.restore_prepare_base`, `C18.normalize_in_unit`):
on an estimator that has not prepared data yet, `prepare_data(X)` returns without raising, remembers the column
maxima and minima, its values lie in [0,1], and `restore_data` of them returns exactly `X` and writes nothing. -/
theorem gen_restore_prepare_base (s : Self α) (hs : s.d_max_ = none ∧ s.d_min_ = none) (X : Mat α) (d : Nat)
    (hX : Rect X d) (hne : X ≠ []) (hc : NonConst X) :
    let Y := normWith (colMax X) (colMin X) X
    let s' : Self α := { s with d_max_ := some (colMax X), d_min_ := some (colMin X) }
    BaseART.prepare_data X s = (.ok Y, s') ∧ (∀ r ∈ Y, ∀ v ∈ r, 0 ≤ v ∧ v ≤ 1) ∧
      BaseART.restore_data Y s' = (.ok X, s') := by
  intro Y s'
  have hp := prepare_base_spec s X d hX hne (boundsFit_fresh s d hs)
  have hmx := (colMax_spec hX hne).1
  have hmn := (colMin_spec hX hne).1
  have hY : Rect Y d := normWith_rect hX hmx hmn
  have hb' : BoundsFit s' d :=
    ⟨fun m hm => (by cases hm; exact hmx), fun m hm => (by cases hm; exact hmn)⟩
  have hrt := C18.restore_prepare_base X d hX hne hc
  refine ⟨?_, (C18.normalize_in_unit X d hX hc).2, ?_⟩
  · rw [hp]; simp only [toPrep, hs.1, hs.2, prepareBase, Art.normalize]; rfl
  · rw [restore_base_spec s' Y d hY hb']
    have : restoreBase (toPrep s') Y = some X := hrt
    rw [this]

/-- **later calls re-use the first call's bounds** (transport of `C18.bounds_reused` and
`C18.restore_prepare_base_later`): with remembered bounds of the right width, `prepare_data(X₂)` maps `X₂` with those
bounds, writes the same bounds back (no attribute changes), and the pair still round-trips when no divisor is zero. -/
theorem gen_bounds_reused (s : Self α) (mx mn : List α) (hmx : s.d_max_ = some mx) (hmn : s.d_min_ = some mn)
    (X₂ : Mat α) (d : Nat) (hX : Rect X₂ d) (hne : X₂ ≠ []) (h1 : mx.length = d) (h2 : mn.length = d) :
    BaseART.prepare_data X₂ s = (.ok (normWith mx mn X₂), s) ∧
      (List.Forall₂ (· ≠ ·) mx mn → BaseART.restore_data (normWith mx mn X₂) s = (.ok X₂, s)) := by
  have hb : BoundsFit s d :=
    ⟨fun m hm => (by rw [hmx] at hm; cases hm; exact h1), fun m hm => (by rw [hmn] at hm; cases hm; exact h2)⟩
  refine ⟨?_, fun hne' => ?_⟩
  · rw [prepare_base_spec s X₂ d hX hne hb]
    obtain ⟨a, b, c, e⟩ := s
    simp only at hmx hmn
    subst hmx hmn
    rfl
  · rw [restore_base_spec s _ d (normWith_rect hX h1 h2) hb]
    have := C18.restore_prepare_base_later X₂ d mx mn hX ⟨h1, hne'⟩
    simp only [prepareBase, Art.normalize] at this
    have hs : toPrep s = { dmax := some mx, dmin := some mn } := by simp [toPrep, hmx, hmn]
    rw [hs, this]

/-- **C18 round trip, generated `FuzzyART` pair** (transport of `C18.restore_prepare_fuzzy`,
`C18.prepare_passes_validate_fuzzy`): the prepared matrix is the complement-coded normalisation, `restore_data` returns
exactly `X`, and the generated `FuzzyART.validate_data` accepts the prepared matrix, recording `dim_ = 2d` and
`dim_original = d`. -/
theorem gen_restore_prepare_fuzzy (s : Self α) (hs : s.d_max_ = none ∧ s.d_min_ = none) (X : Mat α) (d : Nat)
    (hX : Rect X d) (hne : X ≠ []) (hc : NonConst X) :
    let Y := complementCode (normWith (colMax X) (colMin X) X)
    let s' : Self α := { s with d_max_ := some (colMax X), d_min_ := some (colMin X) }
    FuzzyART.prepare_data X s = (.ok Y, s') ∧ FuzzyART.restore_data Y s' = (.ok X, s') ∧
      (s.dim_ = none →
        FuzzyART.validate_data Y s' = (.ok (), { s' with dim_ := some (2 * d), dim_original := some d })) := by
  intro Y s'
  have hp := prepare_fuzzy_spec s X d hX hne (boundsFit_fresh s d hs)
  have hmx := (colMax_spec hX hne).1
  have hmn := (colMin_spec hX hne).1
  have hN : Rect (normWith (colMax X) (colMin X) X) d := normWith_rect hX hmx hmn
  have hY : Rect Y (2 * d) := complementCode_rect hN
  have hb' : BoundsFit s' (2 * d / 2) := by
    rw [Nat.mul_div_cancel_left d (by norm_num : 0 < 2)]
    exact ⟨fun m hm => (by cases hm; exact hmx), fun m hm => (by cases hm; exact hmn)⟩
  have hrt : restoreFuzzy (toPrep s') Y = some X := C18.restore_prepare_fuzzy X d hX hne hc
  have hv := C18.prepare_passes_validate_fuzzy X d hX hne hc
  have hYne : Y ≠ [] := by simpa [Y, complementCode, normWith] using hne
  have hw : width Y = 2 * d := width_of_rect hY hYne
  refine ⟨?_, ?_, ?_⟩
  · rw [hp]; simp only [toPrep, hs.1, hs.2, prepareFuzzy, prepareBase, Art.normalize]; rfl
  · have h := restore_fuzzy_spec s' Y (2 * d) hY hb'
    unfold restoreFuzzy at hrt
    rw [h]
    cases hd : deComplementCode Y with
    | none => rw [hd] at hrt; cases hrt
    | some Z =>
      rw [hd] at hrt
      simp only at hrt ⊢
      rw [hrt]
  · intro hdim
    have hacc : runValidate validFuzzy ({} : DimState) Y = ({ dim := some (2 * d) }, true) := hv.2.2
    rw [validate_fuzzy_spec s' Y]
    have hd' : s'.dim_ = none := hdim
    simp only [hd']
    have : (⟨none⟩ : DimState) = {} := rfl
    rw [this, hacc, hw]
    simp [okIf]

/-- **the prepared data passes the generated `BaseART.validate_data`** (transport of
`C18.prepare_passes_validate_base`), which records `dim_ = d` -/
theorem gen_prepare_passes_validate_base (s : Self α) (hdim : s.dim_ = none) (X : Mat α) (d : Nat) (hX : Rect X d)
    (hne : X ≠ []) (hc : NonConst X) :
    BaseART.validate_data (normWith (colMax X) (colMin X) X) s = (.ok (), { s with dim_ := some d }) := by
  have hv := (C18.prepare_passes_validate_base X d hX hne hc).2.2
  rw [validate_base_spec, hdim]
  have : (⟨none⟩ : DimState) = {} := rfl
  rw [this]
  have hv' : runValidate validBase ({} : DimState) (normWith (colMax X) (colMin X) X) = ({ dim := some d }, true) := hv
  rw [hv']
  simp [okIf]

/-- the shape shared by the four validator specs: the answer and `dim_` are those of a model validator `v`
(everything else about the record is whatever `rest` says) -/
theorem unchanged_of_reject (v : DimState → Mat α → DimState × Bool) (hp : PureOnReject v) (s : Self α) (X : Mat α)
    (hrej : (v ⟨s.dim_⟩ X).2 = false) : ({ s with dim_ := (v ⟨s.dim_⟩ X).1.dim } : Self α) = s := by
  rw [hp ⟨s.dim_⟩ X hrej]

/-- **validation is atomic, generated `BaseART.validate_data`** (transport of `C18.validate_pure_on_reject`): when it
raises, *no attribute* of the estimator has changed — `dim_`, and also the remembered bounds and `dim_original`. -/
theorem gen_validate_base_atomic (s : Self α) (X : Mat α) (hrej : (BaseART.validate_data X s).1 ≠ .ok ()) :
    BaseART.validate_data X s = (.error .assertion, s) := by
  rw [validate_base_spec] at hrej ⊢
  cases hv : (runValidate validBase ⟨s.dim_⟩ X).2 with
  | true => simp [hv, okIf] at hrej
  | false => rw [unchanged_of_reject _ (C18.validate_pure_on_reject validBase) s X hv]; simp [okIf]

/-- the same for the generated `FuzzyART.validate_data` -/
theorem gen_validate_fuzzy_atomic (s : Self α) (X : Mat α) (hrej : (FuzzyART.validate_data X s).1 ≠ .ok ()) :
    FuzzyART.validate_data X s = (.error .assertion, s) := by
  rw [validate_fuzzy_spec] at hrej ⊢
  cases hv : (runValidate validFuzzy ⟨s.dim_⟩ X).2 with
  | true => simp [hv, okIf] at hrej
  | false =>
    have := unchanged_of_reject _ (C18.validate_pure_on_reject validFuzzy) s X hv
    simp only [Bool.false_and, Bool.false_eq_true, if_false, okIf]
    exact congrArg _ this

/-- the same for the generated `ART1.validate_data` -/
theorem gen_validate_art1_atomic (s : Self α) (X : Mat α) (hrej : (ART1.validate_data X s).1 ≠ .ok ()) :
    ART1.validate_data X s = (.error .assertion, s) := by
  rw [validate_art1_spec] at hrej ⊢
  cases hv : (runValidate validART1 ⟨s.dim_⟩ X).2 with
  | true => simp [hv, okIf] at hrej
  | false => rw [unchanged_of_reject _ (C18.validate_pure_on_reject validART1) s X hv]; simp [okIf]

/-- the same for the generated `ART2A.validate_data` (transport of `C18.validate_art2a_eq`): the `alpha` assertion
comes before the assignment of `dim_` in the source, so a rejecting first call leaves no `dim_` behind -/
theorem gen_validate_art2a_atomic (alpha : α) (sqrt : α → α) (s : Self α) (X : Mat α)
    (hs : s.dim_ = none → SqrtOk sqrt (width X)) (ha : 0 ≤ alpha)
    (hrej : (ART2A.validate_data alpha sqrt X s).1 ≠ .ok ()) :
    ART2A.validate_data alpha sqrt X s = (.error .assertion, s) := by
  rw [validate_art2a_spec alpha sqrt s X hs ha] at hrej ⊢
  have hp : PureOnReject (runValidateART2A alpha (α := α)) := by
    intro s' X' h
    rw [C18.validate_art2a_eq] at h ⊢
    exact C18.validate_pure_on_reject (validART2A alpha) s' X' h
  cases hv : (runValidateART2A alpha ⟨s.dim_⟩ X).2 with
  | true => simp [hv, okIf] at hrej
  | false => rw [unchanged_of_reject _ hp s X hv]; simp [okIf]

/-- **entry points** (transport of `C18.reject_is_noop_elementary` / `C18.malformed_is_rejected`): `validate_data(X)`
followed by *any* body: a matrix with an entry outside [0,1], or of a width other than the remembered one, raises
`AssertionError` and the body never runs — the attribute record is the one the call was given. -/
theorem gen_entry_rejects_base {ρ : Type} (body : Py (Self α) ρ) (s : Self α) (X : Mat α)
    (hbad : (∃ r ∈ X, ∃ v ∈ r, v < 0 ∨ 1 < v) ∨ (∃ d, s.dim_ = some d ∧ width X ≠ d)) :
    (do BaseART.validate_data X; body) s = (.error .assertion, s) := by
  have hm := C18.malformed_is_rejected s.dim_ X
  have hrej : validBase s.dim_ X = false := by
    rcases hbad with h | h
    · exact (hm.1 h).1
    · exact (hm.2.1 h).1
  have hv : (BaseART.validate_data X s).1 ≠ .ok () := by
    rw [validate_base_spec]; simp [runValidate, hrej, okIf]
  simp only [bind, Py.bind, gen_validate_base_atomic s X hv]

/-- the same for FuzzyART: additionally an odd width, or a row whose sum is off by more than 0.01 -/
theorem gen_entry_rejects_fuzzy {ρ : Type} (body : Py (Self α) ρ) (s : Self α) (X : Mat α)
    (hbad : (∃ r ∈ X, ∃ v ∈ r, v < 0 ∨ 1 < v) ∨ (∃ d, s.dim_ = some d ∧ width X ≠ d) ∨ width X % 2 = 1 ∨
      (∃ r ∈ X, ccTol < vsum r - ((width X / 2 : Nat) : α) ∨ ccTol < ((width X / 2 : Nat) : α) - vsum r)) :
    (do FuzzyART.validate_data X; body) s = (.error .assertion, s) := by
  have hm := C18.malformed_is_rejected s.dim_ X
  have hrej : validFuzzy s.dim_ X = false := by
    rcases hbad with h | h | h | h
    · exact (hm.1 h).2
    · exact (hm.2.1 h).2.1
    · exact hm.2.2.2.1 h
    · exact hm.2.2.2.2 h
  have hv : (FuzzyART.validate_data X s).1 ≠ .ok () := by
    rw [validate_fuzzy_spec]; simp [runValidate, hrej, okIf]
  simp only [bind, Py.bind, gen_validate_fuzzy_atomic s X hv]

end C18

/-! ### non-vacuity: the generated code runs -/

section Examples

/-- the 3×2 matrix of `ArtProps/C18.lean` -/
def X₀ : Mat Rat := [[1, -2], [3, 4], [-1, 0]]

example : Gen.Prep.normalize X₀ none none = .ok ([[1/2, 0], [1, 1], [0, 1/3]], [3, 4], [-1, -2]) := by
  decide +kernel

example : FuzzyART.prepare_data X₀ {} =
    (.ok [[1/2, 0, 1/2, 1], [1, 1, 0, 0], [0, 1/3, 1, 2/3]], { d_max_ := some [3, 4], d_min_ := some [-1, -2] }) := by
  decide +kernel

/-- the round trip, executed: prepare on a fresh FuzzyART, then restore with the attributes it left -/
example : FuzzyART.restore_data [[1/2, 0, 1/2, 1], [1, 1, 0, 0], [0, 1/3, 1, 2/3]]
      ({ d_max_ := some [3, 4], d_min_ := some [-1, -2] } : Self Rat) =
    (.ok X₀, { d_max_ := some [3, 4], d_min_ := some [-1, -2] }) := by
  decide +kernel

/-- second call: `[[2, 2], [0, 1]]` is mapped with the bounds of `X₀`, not its own -/
example : BaseART.prepare_data [[2, 2], [0, 1]] ({ d_max_ := some [3, 4], d_min_ := some [-1, -2] } : Self Rat) =
    (.ok [[3/4, 2/3], [1/4, 1/2]], { d_max_ := some [3, 4], d_min_ := some [-1, -2] }) := by
  decide +kernel

/-- the accepting first `FuzzyART.validate_data` records `dim_ = 4`, `dim_original = 2` -/
example : FuzzyART.validate_data [[1/2, 0, 1/2, 1], [1, 1, 0, 0], [0, 1/3, 1, 2/3]] ({} : Self Rat) =
    (.ok (), { dim_ := some 4, dim_original := some 2 }) := by
  decide +kernel

/-- a row that is in range and of even width but not complement coded (sum 3/2 ≠ 1): rejected, nothing written -/
example : FuzzyART.validate_data [[1/2, 1]] ({} : Self Rat) = (.error .assertion, {}) := by
  decide +kernel

/-- a rejected call on a trained estimator: the record comes back as it was -/
example : BaseART.validate_data [[1/2, 3/2]] ({ dim_ := some 2, d_max_ := some [7, 8], d_min_ := some [0, 0] } : Self Rat) =
    (.error .assertion, { dim_ := some 2, d_max_ := some [7, 8], d_min_ := some [0, 0] }) := by
  decide +kernel

/-- wrong width after the first call -/
example : BaseART.validate_data [[1/2, 1, 0]] ({ dim_ := some 2 } : Self Rat) = (.error .assertion, { dim_ := some 2 }) := by
  decide +kernel

/-- ART1: a non-binary entry is rejected; a binary matrix is accepted and its width recorded -/
example : ART1.validate_data [[1, 0], [1/2, 1]] ({} : Self Rat) = (.error .assertion, {}) ∧
    ART1.validate_data [[1, 0], [0, 1]] ({} : Self Rat) = (.ok (), { dim_ := some 2 }) := by
  decide +kernel

/-- ART2A on a fresh estimator, width 4 (`sqrt 4 = 2`): `alpha = 9/10 > 1/2` is rejected and `dim_` stays absent,
`alpha = 1/2` (the boundary) is accepted -/
example : ART2A.validate_data (9/10 : Rat) (fun _ => 2) [[1/2, 1, 0, 0]] {} = (.error .assertion, {}) ∧
    ART2A.validate_data (1/2 : Rat) (fun _ => 2) [[1/2, 1, 0, 0]] {} = (.ok (), { dim_ := some 4 }) := by
  decide +kernel

/-- the errors that are not assertions: `restore_data` before any `prepare_data` (arithmetic on `None`), bounds of
the wrong width (broadcasting), `np.min` of zero rows, an odd width in `de_compliment_code` -/
example : BaseART.restore_data [[1/2, 1]] ({} : Self Rat) = (.error .type, {}) ∧
    Gen.Prep.de_normalize [[1/2, 1, 0]] [3, 4] [(0 : Rat), 0] = .error .value ∧
    Gen.Prep.normalize ([] : Mat Rat) none none = .error .value ∧
    Gen.Prep.de_compliment_code [[(1 : Rat), 0, 1]] = .error .assertion := by
  decide +kernel

/-- numpy stretches an axis of length 1: bounds given as one number apply to every column -/
example : Gen.Prep.de_normalize [[1/2, 1, 0]] [3] [(1 : Rat)] = .ok [[2, 3, 1]] := by
  decide +kernel

end Examples

end Art.GenSpec.Prep
