/-
ArtGenProofs.ControlSpec — the search loop of `BaseART.step_fit`, as translated from the Python source by
`harness/artv/ctrans.py` (ArtGen/Control.lean), computes the model's `Art.stepFit` — for every state, sample,
reset function, match-tracking mode and epsilon, under the kernel contract stated as hypotheses.
-/
import Mathlib.Order.Basic
import Mathlib.Order.Defs.LinearOrder
import ArtGen.Control
import ArtProofs.Order
import ArtProofs.Search
import ArtProofs.Fit
import ArtGenProofs.GenSpec
import Mathlib.Algebra.Order.Field.Rat

namespace Art.GenSpec.Control

open Art Art.Imp

variable {X Wt P C α μ θ : Type} [LinearOrder α]

/-- `any(~isnan(T))` is the guard under which `nanargmax` is defined -/
theorem any_isSome_iff (T : List (Option α)) : T.any Option.isSome = true ↔ ∃ c, nanargmax T = some c := by
  constructor
  · intro h
    cases hn : nanargmax T with
    | some c => exact ⟨c, rfl⟩
    | none =>
      have := nanargmax_eq_none_iff.mp hn
      simp only [List.any_eq_true] at h
      obtain ⟨t, ht, hs⟩ := h
      rw [this t ht] at hs
      simp at hs
  · rintro ⟨c, hc⟩
    obtain ⟨v, hv⟩ := nanargmax_isSome_at hc
    simp only [List.any_eq_true]
    exact ⟨some v, List.mem_of_getElem? hv, rfl⟩

/-- what one iteration of the loop body does, in the model's vocabulary -/
structure BodySpec {R S : Type} (cfg : SearchCfg μ θ) (M : Nat → μ) (veto : Nat → Bool) (th : P → θ)
    (pack : P → List (Option α) → S) (res : Nat → R) (body : S → Flow R S) (L : Nat) : Prop where
  step : ∀ (p : P) (T : List (Option α)) (c : Nat), T.length = L → nanargmax T = some c →
    let m := cfg.passes (th p) (M c)
    let ok := cfg.tilde || !veto c
    if m && ok then body (pack p T) = .ret (res c)
    else if m && !ok then
      ∃ p1, th p1 = cfg.track (th p) (M c) ∧
        body (pack p T) = .next (pack p1 (if cfg.keep then T.set c none else (T.set c none).map (fun _ => none)))
    else body (pack p T) = .next (pack p (T.set c none))

theorem all_none_nanargmax (T : List (Option α)) : nanargmax (T.map (fun _ => (none : Option α))) = none := by
  rw [nanargmax_eq_none_iff]
  intro t ht
  simp only [List.mem_map] at ht
  obtain ⟨_, _, rfl⟩ := ht
  rfl

/-- the translated `while` loop follows the model's `search` -/
theorem loop_follows_search {R S : Type} (cfg : SearchCfg μ θ) (M : Nat → μ) (veto : Nat → Bool) (th : P → θ)
    (pack : P → List (Option α) → S) (res : Nat → R) (cond : S → Bool) (body : S → Flow R S)
    (hcond : ∀ p T, cond (pack p T) = T.any Option.isSome)
    (L : Nat) (hbody : BodySpec cfg M veto th pack res body L) :
    ∀ (fuel : Nat) (p : P) (T : List (Option α)), T.length = L →
      match (search cfg M veto fuel T (th p)).winner with
      | some c => whileFuel cond body fuel (pack p T) = .ret (res c)
      | none => ∃ p' T', whileFuel cond body fuel (pack p T) = .next (pack p' T') := by
  intro fuel
  induction fuel with
  | zero =>
    intro p T _
    simp only [search, whileFuel]
    exact ⟨p, T, rfl⟩
  | succ n ih =>
    intro p T hL
    simp only [search, whileFuel, hcond]
    cases hn : nanargmax T with
    | none =>
      have : T.any Option.isSome = false := by
        cases h : T.any Option.isSome with
        | false => rfl
        | true =>
          obtain ⟨c, hc⟩ := (any_isSome_iff T).mp h
          rw [hn] at hc; cases hc
      simp only [this]
      exact ⟨p, T, by simp⟩
    | some c =>
      have hany : T.any Option.isSome = true := (any_isSome_iff T).mpr ⟨c, hn⟩
      simp only [hany, if_true]
      have hs := hbody.step p T c hL hn
      simp only at hs
      by_cases h1 : (cfg.passes (th p) (M c) && (cfg.tilde || !veto c)) = true
      · simp only [h1, if_true] at hs ⊢
        simp [hs]
      · simp only [h1] at hs ⊢
        simp only [Bool.not_eq_true] at h1
        by_cases h2 : (cfg.passes (th p) (M c) && !(cfg.tilde || !veto c)) = true
        · simp only [h2, if_true] at hs ⊢
          obtain ⟨p1, hp1, hb⟩ := hs
          rw [hb]
          cases hk : cfg.keep with
          | true =>
            simp only [hk, if_true] at hb ⊢
            have := ih p1 (T.set c none) (by simp [hL])
            rw [hp1] at this
            simp only [SearchResult.cons]
            exact this
          | false =>
            simp only [hk] at hb ⊢
            simp only [Bool.false_eq_true, if_false]
            -- the model stops; the code blanks T and the next guard fails
            cases n with
            | zero => exact ⟨p1, (T.set c none).map (fun _ => none), rfl⟩
            | succ k =>
              refine ⟨p1, (T.set c none).map (fun _ => none), ?_⟩
              have hblank : ((T.set c none).map (fun _ => (none : Option α))).any Option.isSome = false := by
                rw [List.any_eq_false]
                intro t ht
                simp only [List.mem_map] at ht
                obtain ⟨_, _, rfl⟩ := ht
                simp
              show whileFuel cond body (k + 1) (pack p1 ((T.set c none).map (fun _ => none))) = _
              rw [whileFuel, hcond, hblank]
              rfl
        · simp only [h2] at hs ⊢
          rw [hs]
          have := ih p (T.set c none) (by simp [hL])
          simp only [SearchResult.cons]
          exact this

end Art.GenSpec.Control

namespace Art.GenSpec.Control

open Art Art.Imp

variable {X Wt P C α μ θ : Type} [LinearOrder α]

/-- The kernel contract: how the abstract methods called by `step_fit` (fields of `E`) relate to the model's
kernel `K` and search configuration `cfg`.  `th` reads the vigilance state out of a `params` dictionary. -/
structure Contract (K : Kernel X Wt α μ) (cfg : SearchCfg μ θ) (E : Ext X Wt P C α) (th : P → θ)
    (W : List Wt) (x : X) (p0 : P) (is_none : Bool) (reset : X → Wt → Nat → P → C → Bool)
    (veto : Nat → Bool) (mt : MT) (eps : α) : Prop where
  /-- activations are computed with the configured parameters -/
  choice : ∀ w, (E.category_choice W x w p0).1 = K.choice W x w
  /-- the binary match test depends on `params` only through the vigilance state -/
  passes : ∀ w p c, (E.match_criterion_bin x w p c (E.operator mt)).1 = cfg.passes (th p) (K.matchv x w)
  /-- `_match_tracking` reads the match value from the cache `match_criterion_bin` returned -/
  track : ∀ w p c, th (E.match_tracking (E.match_criterion_bin x w p c (E.operator mt)).2 eps p mt).2
            = cfg.track (th p) (K.matchv x w)
  keep : ∀ c p, (E.match_tracking c eps p mt).1 = cfg.keep
  /-- learning does not depend on the vigilance state or the cache contents beyond the kernel's own rule -/
  update : ∀ w p c, E.update x w p c = K.update x w
  newW : ∀ p, E.new_weight x p = K.newW x
  /-- `cfg.tilde` says the mode is MT~ (without a reset function nothing is vetoed, so it is then irrelevant) -/
  tilde : cfg.tilde = [MT.tilde].contains mt
  veto_none : is_none = true → ∀ c, veto c = false
  /-- the reset function's answer for category `c` does not depend on `params` / `cache` -/
  veto_some : is_none = false → ∀ c w p ch, W[c]? = some w → reset x w c p ch = !veto c

variable [Inhabited Wt] [Inhabited C]

/-- one iteration of the translated loop body, in the model's vocabulary -/
theorem body_spec (K : Kernel X Wt α μ) (cfg : SearchCfg μ θ) (E : Ext X Wt P C α) (th : P → θ)
    (W : List Wt) (cnt : List Nat) (n : Nat) (lab : List Nat) (hw : Bool) (p0 : P) (x : X) (is_none : Bool)
    (reset : X → Wt → Nat → P → C → Bool) (veto : Nat → Bool) (mt : MT) (eps : α) (Tc : List C)
    (hC : Contract K cfg E th W x p0 is_none reset veto mt eps) :
    BodySpec cfg (matchAt K W x) veto th (fun p T => (cnt, W, p, T))
      (fun c => (({ W := W.set c (K.update x W[c]!), cnt := cnt.set c (cnt[c]! + 1), n := n, params := p0,
                    labels := lab, hasW := hw } : Self Wt P), c))
      (Art.Gen.BaseART.step_fit_loop1_body E n lab hw x mt eps p0 (E.operator mt) Tc is_none reset) W.length := by
  constructor
  intro p T c hL hn
  have hc : c < W.length := hL ▸ nanargmax_lt_length hn
  have hWc : W[c]? = some W[c] := List.getElem?_eq_getElem hc
  have hget : W[c]! = W[c] := by simp [hc]
  have hM : matchAt K W x c = K.matchv x W[c] := by simp [matchAt, hWc]
  unfold Art.Gen.BaseART.step_fit_loop1_body
  simp only [hn, Option.getD_some, hget, hM]
  -- the veto, as the model names it (whatever cache the reset function is shown)
  have hok : ∀ ch : C, (if ([MT.tilde].contains mt && !is_none) = true then true
              else (is_none || reset x W[c] c p ch)) = (cfg.tilde || !veto c) := by
    intro ch
    rw [hC.tilde]
    cases hn' : is_none with
    | true => simp [hC.veto_none hn' c]
    | false =>
      have := hC.veto_some hn' c W[c] p ch hWc
      cases ht : [MT.tilde].contains mt <;> simp [this]
  simp only [hC.passes, hC.update, hC.keep, hok]
  cases hm : cfg.passes (th p) (K.matchv x W[c]) <;> cases ho : (cfg.tilde || !veto c)
  · simp
  · simp
  · simp only [Bool.and_false, Bool.false_eq_true, if_false, Bool.not_false, Bool.and_true, if_true]
    refine ⟨_, hC.track W[c] p Tc[c]!, ?_⟩
    cases cfg.keep <;> simp
  · simp

omit [Inhabited Wt] [Inhabited C] in
/-- the activation vector computed before the loop (with the MT~ pre-pass) is the model's -/
theorem activations_spec (K : Kernel X Wt α μ) (cfg : SearchCfg μ θ) (E : Ext X Wt P C α) (th : P → θ)
    (W : List Wt) (p0 : P) (x : X) (is_none : Bool) (reset : X → Wt → Nat → P → C → Bool) (veto : Nat → Bool)
    (mt : MT) (eps : α) (hC : Contract K cfg E th W x p0 is_none reset veto mt eps) :
    (if ([MT.tilde].contains mt && !is_none) = true then
        ((List.zipIdx W).map (fun wc => if reset x wc.1 wc.2 p0 E.noneC then E.category_choice W x wc.1 p0 else (none, E.noneC))).map Prod.fst
      else (W.map (fun w => E.category_choice W x w p0)).map Prod.fst)
    = strikeVetoed cfg.tilde veto (activations K W x) := by
  apply List.ext_getElem?
  intro j
  rw [strikeVetoed_getElem?]
  simp only [activations, hC.tilde]
  by_cases ht : ([MT.tilde].contains mt && !is_none) = true
  · simp only [ht, if_true, List.getElem?_map, List.getElem?_zipIdx]
    have hnn : is_none = false := by
      cases is_none <;> simp_all
    have hmt : [MT.tilde].contains mt = true := by
      cases h : [MT.tilde].contains mt <;> simp_all
    cases hj : W[j]? with
    | none => simp
    | some w =>
      simp only [Option.map_some, Nat.zero_add, hmt, Bool.true_and]
      have := hC.veto_some hnn j w p0 E.noneC hj
      rw [this]
      cases hv : veto j <;> simp [hC.choice]
  · have ht' : ([MT.tilde].contains mt && !is_none) = false := by
      cases h : ([MT.tilde].contains mt && !is_none) <;> simp_all
    have hv : ([MT.tilde].contains mt && veto j) = false := by
      cases hn' : is_none with
      | true => simp [hC.veto_none hn' j]
      | false => simp [hn'] at ht'; simp [ht']
    simp only [ht', hv, List.getElem?_map]
    cases hj : W[j]? with
    | none => simp [hj]
    | some w => simp [hj, hC.choice]

/-- **The translated `BaseART.step_fit` computes the model's `stepFit`** — weights, counters, sample counter,
returned label — and leaves `params` exactly as it found them, for every state, sample, reset function, mode
and epsilon that satisfy the kernel contract.  `fuel = len(W)` iterations suffice. -/
theorem step_fit_refines (K : Kernel X Wt α μ) (cfg : SearchCfg μ θ) (E : Ext X Wt P C α) (th : P → θ)
    (self : Self Wt P) (x : X) (is_none : Bool) (reset : X → Wt → Nat → P → C → Bool)
    (veto : Nat → Bool) (mt : MT) (eps : α)
    (hC : Contract K cfg E th self.W x self.params is_none reset veto mt eps) :
    Art.Gen.BaseART.step_fit E self.W.length self x is_none reset mt eps =
      (let r := stepFit K cfg (th self.params) veto ⟨self.W, self.cnt, self.n, self.labels⟩ x
       (⟨r.1.W, r.1.cnt, r.1.n, self.params, self.labels, self.hasW⟩, r.2)) := by
  unfold Art.Gen.BaseART.step_fit stepFit
  by_cases hW : self.W = []
  · simp [hW, applyWinner, hC.newW]
  · have hlen : (self.W.length == 0) = false := by simp [hW]
    have hemp : self.W.isEmpty = false := by simp [hW]
    simp only [hlen, hemp, Bool.false_eq_true, if_false]
    have key := activations_spec K cfg E th self.W self.params x is_none reset veto mt eps hC
    simp only [apply_ite Prod.fst, key]
    have hTlen : (strikeVetoed cfg.tilde veto (activations K self.W x)).length = self.W.length := by
      rw [strikeVetoed_length, activations_length]
    have hloop := fun Tc => loop_follows_search cfg (matchAt K self.W x) veto th
      (fun p T => (self.cnt, self.W, p, T))
      (fun c => (({ W := self.W.set c (K.update x self.W[c]!), cnt := self.cnt.set c (self.cnt[c]! + 1),
                    n := self.n + 1, params := self.params, labels := self.labels, hasW := self.hasW } : Self Wt P), c))
      (Art.Gen.BaseART.step_fit_loop1_cond E)
      (Art.Gen.BaseART.step_fit_loop1_body E (self.n + 1) self.labels self.hasW x mt eps self.params (E.operator mt) Tc is_none reset)
      (by intro p T; rfl) self.W.length
      (body_spec K cfg E th self.W self.cnt (self.n + 1) self.labels self.hasW self.params x is_none reset veto mt eps Tc hC)
      self.W.length self.params (strikeVetoed cfg.tilde veto (activations K self.W x)) hTlen
    unfold stepSearch
    simp only [hTlen]
    cases hw : (search cfg (matchAt K self.W x) veto self.W.length
        (strikeVetoed cfg.tilde veto (activations K self.W x)) (th self.params)).winner with
    | none =>
      have h1 := hloop
      simp only [hw] at h1
      obtain ⟨p', T', h2⟩ := h1 _
      rw [h2]
      simp [applyWinner, hC.newW]
    | some c =>
      have h1 := hloop
      simp only [hw] at h1
      rw [h1 _]
      have hcl : c < self.W.length := by
        have := (search_winner_sound (cfg := cfg) (M := matchAt K self.W x) (veto := veto) self.W.length _ (th self.params)
          (hTlen ▸ liveCount_le_length _) c hw).1
        obtain ⟨v, hv⟩ := this
        have := (List.getElem?_eq_some_iff.mp hv).1
        rwa [hTlen] at this
      have hWc : self.W[c]? = some self.W[c] := List.getElem?_eq_getElem hcl
      simp [applyWinner, hcl]

/-- **Hyper-parameters are invariant under one training step** (C07 for the generic loop): whatever match tracking
did to `params` during the search, the translated `step_fit` hands back the dictionary it was given. -/
theorem step_fit_restores_params (K : Kernel X Wt α μ) (cfg : SearchCfg μ θ) (E : Ext X Wt P C α) (th : P → θ)
    (self : Self Wt P) (x : X) (is_none : Bool) (reset : X → Wt → Nat → P → C → Bool)
    (veto : Nat → Bool) (mt : MT) (eps : α)
    (hC : Contract K cfg E th self.W x self.params is_none reset veto mt eps) :
    (Art.Gen.BaseART.step_fit E self.W.length self x is_none reset mt eps).1.params = self.params := by
  rw [step_fit_refines K cfg E th self x is_none reset veto mt eps hC]

/-- the sample counter advances by one and every sample is counted in exactly one category -/
theorem step_fit_counts (K : Kernel X Wt α μ) (cfg : SearchCfg μ θ) (E : Ext X Wt P C α) (th : P → θ)
    (self : Self Wt P) (x : X) (is_none : Bool) (reset : X → Wt → Nat → P → C → Bool)
    (veto : Nat → Bool) (mt : MT) (eps : α)
    (hC : Contract K cfg E th self.W x self.params is_none reset veto mt eps) :
    (Art.Gen.BaseART.step_fit E self.W.length self x is_none reset mt eps).1.n = self.n + 1 := by
  rw [step_fit_refines K cfg E th self x is_none reset veto mt eps hC]
  simp only [stepFit]
  split
  · simp [applyWinner]
  · cases (stepSearch K cfg (th self.params) veto self.W x).winner with
    | none => simp [applyWinner]
    | some c =>
      simp only [applyWinner]
      split <;> simp

end Art.GenSpec.Control

/-! ### The contract is met by every module with a scalar vigilance, with the decision tables taken from the
GENERATED `_match_tracking`, `_match_tracking_operator` and `match_criterion_bin` (ArtGen/Kernels.lean) -/

namespace Art.GenSpec.Control

open Art Art.Imp

section Scalar
variable {X Wt β : Type} [Field β] [LinearOrder β] [IsStrictOrderedRing β]

/-- externals of an elementary module: the numeric kernel `K`, and for the decisions the generated tables.
`params` is abstracted to the vigilance value, a cache to the match value it carries. -/
def scalarExt (K : Kernel X Wt β β) (inf : β) : Ext X Wt β β β where
  category_choice := fun W x w _ => (K.choice W x w, K.matchv x w)
  match_criterion_bin := fun x w rho _ strict =>
    (Gen.BaseART.match_bin (fun a b => if strict then decide (b < a) else decide (b ≤ a)) (K.matchv x w) rho, K.matchv x w)
  update := fun x w _ _ => K.update x w
  new_weight := fun x _ => K.newW x
  match_tracking := fun M eps rho mt =>
    ((Gen.BaseART.match_tracking inf mt M eps rho).2, (Gen.BaseART.match_tracking inf mt M eps rho).1)
  operator := Gen.BaseART.strict
  noneC := 0

theorem scalar_contract (K : Kernel X Wt β β) (W : List Wt) (inf rho eps : β) (x : X) (mt : MT)
    (is_none : Bool) (veto : Nat → Bool) (hv : is_none = true → ∀ c, veto c = false) :
    Contract K (scalarCfg mt false (· + eps) (· - eps) inf) (scalarExt K inf) id W x rho is_none
      (fun _ _ c _ _ => !veto c) veto mt eps where
  choice := fun _ => rfl
  passes := fun w p _ => by
    simp only [scalarExt, id]
    exact base_match_bin mt (K.matchv x w) p
  track := fun w p _ => by
    simp only [scalarExt, id, base_match_tracking]
  keep := fun _ p => by
    simp only [scalarExt, base_match_tracking]
  update := fun _ _ _ => rfl
  newW := fun _ => rfl
  tilde := by cases mt <;> rfl
  veto_none := hv
  veto_some := fun _ _ _ _ _ _ => rfl

/-- **`BaseART.step_fit`, as translated from the source and with the decision tables as translated from the source,
is the model's `stepFit` under the scalar configuration** — for every elementary module with a scalar,
non-inverted vigilance, every state, sample, veto pattern, mode and epsilon. -/
theorem scalar_step_fit [Inhabited Wt] (K : Kernel X Wt β β) (inf eps : β) (self : Self Wt β) (x : X) (mt : MT)
    (is_none : Bool) (veto : Nat → Bool) (hv : is_none = true → ∀ c, veto c = false) :
    letI : Inhabited β := ⟨0⟩
    Art.Gen.BaseART.step_fit (scalarExt K inf) self.W.length self x is_none (fun _ _ c _ _ => !veto c) mt eps =
      (let r := stepFit K (scalarCfg mt false (· + eps) (· - eps) inf) self.params veto ⟨self.W, self.cnt, self.n, self.labels⟩ x
       (⟨r.1.W, r.1.cnt, r.1.n, self.params, self.labels, self.hasW⟩, r.2)) := by
  letI : Inhabited β := ⟨0⟩
  exact step_fit_refines K _ (scalarExt K inf) id self x is_none _ veto mt eps
    (scalar_contract K self.W inf self.params eps x mt is_none veto hv)

end Scalar

end Art.GenSpec.Control

/-! ### The hypotheses are satisfiable: a concrete Fuzzy ART state over ℚ, a vetoing reset function, MT+ -/

namespace Art.GenSpec.Control

open Art Art.Imp

private def exSelf : Self (List ℚ) ℚ :=
  { W := [[1/2, 1/2, 1/2, 1/2], [1, 0, 0, 1]], cnt := [1, 1], n := 2, params := 1/2 }

/-- the translated code, run on that state: category 1 is vetoed, category 0 resonates and learns -/
example :
    letI : Inhabited ℚ := ⟨0⟩
    (Art.Gen.BaseART.step_fit (scalarExt (fuzzyKernel (1/100 : ℚ) 1 2) 1000) 2 exSelf
      [3/4, 1/4, 1/4, 3/4] false (fun _ _ c _ _ => !(c == 1)) MT.plus (1/1000)).2 = 0 := by
  decide +kernel

/-- and the contract holds for it (so `scalar_step_fit` applies) -/
example : Contract (fuzzyKernel (1/100 : ℚ) 1 2) (scalarCfg MT.plus false (· + 1/1000) (· - 1/1000) 1000)
    (scalarExt (fuzzyKernel (1/100 : ℚ) 1 2) 1000) id exSelf.W [3/4, 1/4, 1/4, 3/4] exSelf.params false
    (fun _ _ c _ _ => !(c == 1)) (fun c => c == 1) MT.plus (1/1000) :=
  scalar_contract _ _ _ _ _ _ _ _ _ (by simp)

end Art.GenSpec.Control
