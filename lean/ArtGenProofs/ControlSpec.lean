/-
ArtGenProofs.ControlSpec — the search loop of `BaseART.step_fit`, as translated from the Python source by
`harness/artv/ctrans.py` (ArtGen/Control.lean), computes the model's `Art.stepFit` — for every state, sample,
reset function, match-tracking mode and epsilon, under the kernel contract stated as hypotheses.
-/
import Mathlib.Order.Basic
import Mathlib.Order.Defs.LinearOrder
import ArtGen.Control
import ArtProofs.Order
import ArtProofs.Search

namespace Art.GenSpec.Control

open Art Art.Imp

variable {X Wt P C α μ θ : Type} [LinearOrder α]

/-- `any(~isnan(T))` is the guard under which `nanargmax` is defined -/
theorem any_isSome_iff (T : List (Option α)) : T.any Option.isSome = true ↔ ∃ c, nanargmax T = some c := by
  constructor
  · intro h
    cases hn : nanargmax T with
    | some c => exact ⟨c, rfl⟩
    | none =>
      have := nanargmax_eq_none_iff.mp hn
      simp only [List.any_eq_true] at h
      obtain ⟨t, ht, hs⟩ := h
      rw [this t ht] at hs
      simp at hs
  · rintro ⟨c, hc⟩
    obtain ⟨v, hv⟩ := nanargmax_isSome_at hc
    simp only [List.any_eq_true]
    exact ⟨some v, List.mem_of_getElem? hv, rfl⟩

/-- what one iteration of the loop body does, in the model's vocabulary -/
structure BodySpec {R S : Type} (cfg : SearchCfg μ θ) (M : Nat → μ) (veto : Nat → Bool) (th : P → θ)
    (pack : P → List (Option α) → S) (res : Nat → R) (body : S → Flow R S) : Prop where
  step : ∀ (p : P) (T : List (Option α)) (c : Nat), nanargmax T = some c →
    let m := cfg.passes (th p) (M c)
    let ok := cfg.tilde || !veto c
    if m && ok then body (pack p T) = .ret (res c)
    else if m && !ok then
      ∃ p1, th p1 = cfg.track (th p) (M c) ∧
        body (pack p T) = .next (pack p1 (if cfg.keep then T.set c none else (T.set c none).map (fun _ => none)))
    else body (pack p T) = .next (pack p (T.set c none))

theorem all_none_nanargmax (T : List (Option α)) : nanargmax (T.map (fun _ => (none : Option α))) = none := by
  rw [nanargmax_eq_none_iff]
  intro t ht
  simp only [List.mem_map] at ht
  obtain ⟨_, _, rfl⟩ := ht
  rfl

/-- the translated `while` loop follows the model's `search` -/
theorem loop_follows_search {R S : Type} (cfg : SearchCfg μ θ) (M : Nat → μ) (veto : Nat → Bool) (th : P → θ)
    (pack : P → List (Option α) → S) (res : Nat → R) (cond : S → Bool) (body : S → Flow R S)
    (hcond : ∀ p T, cond (pack p T) = T.any Option.isSome)
    (hbody : BodySpec cfg M veto th pack res body) :
    ∀ (fuel : Nat) (p : P) (T : List (Option α)),
      match (search cfg M veto fuel T (th p)).winner with
      | some c => whileFuel cond body fuel (pack p T) = .ret (res c)
      | none => ∃ p' T', whileFuel cond body fuel (pack p T) = .next (pack p' T') := by
  intro fuel
  induction fuel with
  | zero =>
    intro p T
    simp only [search, whileFuel]
    exact ⟨p, T, rfl⟩
  | succ n ih =>
    intro p T
    simp only [search, whileFuel, hcond]
    cases hn : nanargmax T with
    | none =>
      have : T.any Option.isSome = false := by
        cases h : T.any Option.isSome with
        | false => rfl
        | true =>
          obtain ⟨c, hc⟩ := (any_isSome_iff T).mp h
          rw [hn] at hc; cases hc
      simp only [this]
      exact ⟨p, T, by simp⟩
    | some c =>
      have hany : T.any Option.isSome = true := (any_isSome_iff T).mpr ⟨c, hn⟩
      simp only [hany, if_true]
      have hs := hbody.step p T c hn
      simp only at hs
      by_cases h1 : (cfg.passes (th p) (M c) && (cfg.tilde || !veto c)) = true
      · simp only [h1, if_true] at hs ⊢
        simp [hs]
      · simp only [h1] at hs ⊢
        simp only [Bool.not_eq_true] at h1
        by_cases h2 : (cfg.passes (th p) (M c) && !(cfg.tilde || !veto c)) = true
        · simp only [h2, if_true] at hs ⊢
          obtain ⟨p1, hp1, hb⟩ := hs
          rw [hb]
          cases hk : cfg.keep with
          | true =>
            simp only [hk, if_true] at hb ⊢
            have := ih p1 (T.set c none)
            rw [hp1] at this
            simp only [SearchResult.cons]
            exact this
          | false =>
            simp only [hk] at hb ⊢
            simp only [Bool.false_eq_true, if_false]
            -- the model stops; the code blanks T and the next guard fails
            cases n with
            | zero => exact ⟨p1, (T.set c none).map (fun _ => none), rfl⟩
            | succ k =>
              refine ⟨p1, (T.set c none).map (fun _ => none), ?_⟩
              have hblank : ((T.set c none).map (fun _ => (none : Option α))).any Option.isSome = false := by
                rw [List.any_eq_false]
                intro t ht
                simp only [List.mem_map] at ht
                obtain ⟨_, _, rfl⟩ := ht
                simp
              show whileFuel cond body (k + 1) (pack p1 ((T.set c none).map (fun _ => none))) = _
              rw [whileFuel, hcond, hblank]
              rfl
        · simp only [h2] at hs ⊢
          rw [hs]
          have := ih p (T.set c none)
          simp only [SearchResult.cons]
          exact this

end Art.GenSpec.Control
