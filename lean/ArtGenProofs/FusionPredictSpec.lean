/-
ArtGenProofs.FusionPredictSpec — the rest of FusionART (prediction with skipped channels, regression, join / split,
prepare / restore, centre accessors), as translated from the Python source by `harness/artv/ftrans2.py`
(ArtGen/FusionPredict.lean), computes the definitions of `ArtModel/Fusion.lean` that the C10 / C11 property theorems
are stated about — for every number of channels, every layout of widths, every weight list, every query / array and
every list of skipped channels (positive or negative indices).  The nested estimators are abstract objects (`ModOps`
of ArtGen/Fusion.lean, `ModOps2` here); what is assumed of them is stated as hypotheses of each theorem (the
hypotheses of `Art.GenSpec.fusion_category_choice`, plus: `get_cluster_centers` maps `centre k` over the module's
weights, `prepare_data` / `restore_data` act row by row), and section `Example` instantiates everything with two
FuzzyART channels over ℚ and runs the generated code.  The model works on one row; the code on 2-d arrays: the
array-level statements are "row `r` of the result = the model's function of row `r` of the arguments".

  step_pred_spec                 step_pred(x, skip_channels) = Fusion.stepPredSkip   (argmax of choiceSkip over the W property)
  predict_spec                   predict(X, skip_channels) = allSome (Fusion.predictSkip …)   (indices normalised once)
  gen_skip_independent, gen_skip_is_argmax_of_rest, gen_skip_index_normalised     C11's theorems for the generated predict
  join_channel_data_spec / _rows join_channel_data = Fusion.joinRow row by row; raises iff too few arrays are supplied
  split_channel_data_spec / _rows split_channel_data = Fusion.splitRow row by row; never raises
  gen_split_join                 C11.split_join for the generated code: split ∘ join = id on the supplied arrays
  get_channel_centers_spec       get_channel_centers(k) = Fusion.channelCentres
  predict_regression_spec        predict_regression = Fusion.predictRegression row by row, in the shape the code returns
  gen_regression_target_centres  C11.regression_multi_is_target_centres for the generated code
  prepare_data_spec              prepare_data = Fusion.prepareRow row by row
  restore_data_spec              restore_data = Fusion.restoreRow row by row; never raises
  gen_restore_prepare            C11.restore_prepare for the generated code: restore ∘ prepare = id on the supplied arrays
  n_clusters_spec, get_cluster_centers_spec     the first module's count; centre i = concatenation of the modules' i-th centres
-/
import ArtGen.FusionPredict
import ArtGenProofs.FusionSpec
import ArtProps.C11

set_option linter.unusedSectionVars false
set_option linter.unusedVariables false

namespace Art.GenSpec.FusionPredict
open Art Art.Fusion Art.Imp Art.ImpFusion2 Art.Gen.FusionART Art.Gen.FusionARTPredict Art.GenSpec

/-! ### basics -/
section Basics
variable {β γ : Type}

/-- the skip-index normalisation `[self.n + k if k < 0 else k for k in skip_channels]` is `map (normIdx n)` -/
theorem norm_mapM (n : Nat) (ks : List Int) :
    ks.mapM (fun k => do pure (← if (decide (k < (Int.ofNat 0))) then (do pure ((Int.ofNat n) + k)) else (do pure k)))
      = some (ks.map (normIdx n)) := by
  apply mapM_some_of_forall
  intro k _
  by_cases hk : k < 0 <;> simp [normIdx, hk]

theorem natsOf_contains (l : List Int) (j : Nat) : (natsOf l).contains j = l.contains (j : Int) := by
  rw [Bool.eq_iff_iff]
  simp only [List.contains_iff_mem, natsOf, List.mem_filterMap]
  constructor
  · rintro ⟨k, hk, h⟩
    by_cases hk0 : k < 0
    · simp [hk0] at h
    · simp [hk0] at h
      have : k = (j : Int) := by omega
      exact this ▸ hk
  · intro h
    exact ⟨j, h, by simp⟩

/-- a comprehension of pairs whose first components are known -/
theorem mapM_fst {δ : Type} (l : List γ) (f : γ → Option (β × δ)) (g : γ → β)
    (h : ∀ a ∈ l, (f a).map (·.1) = some (g a)) :
    ∃ r, l.mapM f = some r ∧ r.map (·.1) = l.map g := by
  induction l with
  | nil => exact ⟨[], rfl, rfl⟩
  | cons a l ih =>
    obtain ⟨r, hr, hm⟩ := ih (fun b hb => h b (by simp [hb]))
    have ha := h a (by simp)
    cases hfa : f a with
    | none => simp [hfa] at ha
    | some p =>
      rw [hfa] at ha
      simp only [Option.map_some, Option.some.injEq] at ha
      refine ⟨p :: r, ?_, by simp [ha, hm]⟩
      rw [List.mapM_cons, hfa, hr]
      rfl

theorem allSome_cons_some (a : β) (l : List (Option β)) : allSome (some a :: l) = (allSome l).map (a :: ·) := rfl

/-- `y = np.zeros(len(X)); for i, x in enumerate(X): y[i] = f(x)`: the list of the `f x`, or the first exception -/
theorem foldlM_setItem (f : γ → Option β) (body : List β → γ × Nat → Option (List β))
    (hbody : ∀ y x i, body y (x, i) = (f x).bind (fun c => pySetItem y i c))
    (X : List γ) (pre rest : List β) (h : X.length ≤ rest.length) :
    (X.zipIdx pre.length).foldlM body (pre ++ rest)
      = (allSome (X.map f)).map (fun cs => pre ++ cs ++ rest.drop X.length) := by
  induction X generalizing pre rest with
  | nil => simp [allSome]
  | cons x X ih =>
    cases rest with
    | nil => simp at h
    | cons r rest =>
      rw [List.zipIdx_cons, List.foldlM_cons, hbody]
      cases hfx : f x with
      | none => simp [allSome, hfx]
      | some c =>
        have hs : pySetItem (pre ++ r :: rest) pre.length c = some ((pre ++ [c]) ++ rest) := by
          simp [pySetItem]
        have hl : pre.length + 1 = (pre ++ [c]).length := by simp
        simp only [Option.bind_some, hs, Option.bind_eq_bind, List.map_cons, hfx, allSome_cons_some]
        rw [hl, ih (pre ++ [c]) rest (by simpa using h)]
        cases allSome (X.map f) <;> simp

theorem foldlM_setItem0 (f : γ → Option β) (body : List β → γ × Nat → Option (List β))
    (hbody : ∀ y x i, body y (x, i) = (f x).bind (fun c => pySetItem y i c)) (X : List γ) (d : β) :
    X.zipIdx.foldlM body (List.replicate X.length d) = allSome (X.map f) := by
  have h := foldlM_setItem f body hbody X [] (List.replicate X.length d) (by simp)
  simp only [List.length_nil, List.nil_append] at h
  rw [h]
  cases allSome (X.map f) <;> simp

end Basics

/-! ### `step_pred` / `predict` with skipped channels -/
section Predict
variable {M P C Op α : Type} [Add α] [Mul α] [Div α] [Zero α] [One α] [LT α] [DecidableRel (α := α) (· < ·)]

/-- **`FusionART.step_pred(x, skip_channels)` = `Fusion.stepPredSkip`**: the `np.argmax` over the categories of the `W`
property of the gamma-weighted activations in which a skipped channel contributes `1·gamma`.  (`step_pred` itself does
not normalise negative indices: an entry of `skip_channels` that is not a channel number skips nothing.) -/
theorem step_pred_spec (ops : ModOps M α P C Op) (chans : List (Chan α)) (modules : List M) (n : Nat)
    (chIdx wIdx : List (Nat × Nat)) (gamma_values : List α) (dictEmpty : C)
    (L : Layout chans modules n chIdx wIdx gamma_values) (W : List (List α))
    (hWg : W_get ops modules n = some W)
    (hW : ∀ (k : Nat) m, modules[k]? = some m → ops.W m = W.map (slice (wlens chans) k))
    (hK : ∀ (k : Nat) m (c : Chan α), modules[k]? = some m → chans[k]? = some c → ∀ xi wi,
      (ops.category_choice m xi wi (ops.params m)).1 = c.K.choice (ops.W m) xi wi)
    (x : List α) (skip : List Int) :
    step_pred ops modules n chIdx wIdx gamma_values dictEmpty x skip
      = stepPredSkip chans (fun j => skip.contains (j : Int)) W x := by
  unfold step_pred
  obtain ⟨r, hr, hm⟩ := mapM_fst W
    (fun w => category_choice ops modules n chIdx wIdx gamma_values dictEmpty x w (natsOf skip))
    (fun w => choiceSkip chans (fun j => skip.contains (j : Int)) W x w)
    (by
      intro w _
      have := fusion_category_choice ops chans modules n chIdx wIdx gamma_values dictEmpty L W hW hK x w (natsOf skip)
      rw [show (fun k => (natsOf skip).contains k) = (fun j : Nat => skip.contains (j : Int)) from
        funext (natsOf_contains skip)] at this
      exact this)
  have hr' : W.mapM (fun w => do
      pure (← category_choice ops modules n chIdx wIdx gamma_values dictEmpty x w (natsOf skip))) = some r := by
    rw [← hr]
  simp only [hWg, Option.bind_eq_bind, Option.bind_some, pyAssert, Nat.zero_le, ge_iff_le, decide_true, if_true, hr', hm]
  unfold stepPredSkip
  cases argmaxNp (W.map (choiceSkip chans (fun j => skip.contains (j : Int)) W x)) <;> rfl

/-- **`FusionART.predict(X, skip_channels)` = `Fusion.predictSkip`** (negative indices normalised once; one exception
aborts the whole call) -/
theorem predict_spec (ops : ModOps M α P C Op) (chans : List (Chan α)) (modules : List M) (n : Nat)
    (chIdx wIdx : List (Nat × Nat)) (gamma_values : List α) (dictEmpty : C)
    (L : Layout chans modules n chIdx wIdx gamma_values) (W : List (List α))
    (hWg : W_get ops modules n = some W)
    (hW : ∀ (k : Nat) m, modules[k]? = some m → ops.W m = W.map (slice (wlens chans) k))
    (hK : ∀ (k : Nat) m (c : Chan α), modules[k]? = some m → chans[k]? = some c → ∀ xi wi,
      (ops.category_choice m xi wi (ops.params m)).1 = c.K.choice (ops.W m) xi wi)
    (X : List (List α)) (ks : List Int) :
    Gen.FusionARTPredict.predict ops modules n chIdx wIdx gamma_values dictEmpty X ks = allSome (predictSkip chans ks W X) := by
  have hn : n = chans.length := by rw [L.n_eq, L.len]
  subst hn
  unfold Gen.FusionARTPredict.predict
  rw [norm_mapM]
  simp only [Option.bind_eq_bind, Option.bind_some]
  rw [foldlM_setItem0 (f := fun x => stepPredSkip chans (skipSet chans.length ks) W x)]
  · unfold predictSkip
    cases allSome (X.map (stepPredSkip chans (skipSet chans.length ks) W)) <;> rfl
  · intro y x i
    show (step_pred ops modules chans.length chIdx wIdx gamma_values dictEmpty x (ks.map (normIdx chans.length))).bind _ = _
    rw [step_pred_spec ops chans modules chans.length chIdx wIdx gamma_values dictEmpty L W hWg hW hK]
    show (stepPredSkip chans (skipSet chans.length ks) W x).bind _ = _
    congr 1; funext c
    cases pySetItem y i c <;> rfl

end Predict

/-! ### the C11 prediction theorems, for the generated `predict` -/
section PredictProps
variable {M P C Op α : Type} [Field α] [LinearOrder α] [IsStrictOrderedRing α]

/-- **C11 `skip_independent`, for the generated code**: two queries that agree on every channel that is not skipped
are given the same category by the translated `predict` — whatever stands in the skipped columns. -/
theorem gen_skip_independent (ops : ModOps M α P C Op) (chans : List (Chan α)) (modules : List M) (n : Nat)
    (chIdx wIdx : List (Nat × Nat)) (gamma_values : List α) (dictEmpty : C)
    (L : Layout chans modules n chIdx wIdx gamma_values) (W : List (List α))
    (hWg : W_get ops modules n = some W)
    (hW : ∀ (k : Nat) m, modules[k]? = some m → ops.W m = W.map (slice (wlens chans) k))
    (hK : ∀ (k : Nat) m (c : Chan α), modules[k]? = some m → chans[k]? = some c → ∀ xi wi,
      (ops.category_choice m xi wi (ops.params m)).1 = c.K.choice (ops.W m) xi wi)
    (ks : List Int) (x x' : List α)
    (h : ∀ k, skipSet chans.length ks k = false → slice (widths chans) k x = slice (widths chans) k x') :
    Gen.FusionARTPredict.predict ops modules n chIdx wIdx gamma_values dictEmpty [x] ks
      = Gen.FusionARTPredict.predict ops modules n chIdx wIdx gamma_values dictEmpty [x'] ks := by
  rw [predict_spec ops chans modules n chIdx wIdx gamma_values dictEmpty L W hWg hW hK,
    predict_spec ops chans modules n chIdx wIdx gamma_values dictEmpty L W hWg hW hK,
    C11.skip_independent chans ks W x x' h]

/-- **C11 `skip_is_argmax_of_rest`, for the generated code**: the category the translated `predict` returns is the
first arg-max of the gamma-weighted activations of the remaining channels (`none` = the call raises: no category). -/
theorem gen_skip_is_argmax_of_rest (ops : ModOps M α P C Op) (chans : List (Chan α)) (modules : List M) (n : Nat)
    (chIdx wIdx : List (Nat × Nat)) (gamma_values : List α) (dictEmpty : C)
    (L : Layout chans modules n chIdx wIdx gamma_values) (W : List (List α))
    (hWg : W_get ops modules n = some W)
    (hW : ∀ (k : Nat) m, modules[k]? = some m → ops.W m = W.map (slice (wlens chans) k))
    (hK : ∀ (k : Nat) m (c : Chan α), modules[k]? = some m → chans[k]? = some c → ∀ xi wi,
      (ops.category_choice m xi wi (ops.params m)).1 = c.K.choice (ops.W m) xi wi)
    (ks : List Int) (x : List α) :
    Gen.FusionARTPredict.predict ops modules n chIdx wIdx gamma_values dictEmpty [x] ks
      = (argmaxNp (W.map (restChoice chans (skipSet chans.length ks) W x))).map (fun c => [c]) := by
  rw [predict_spec ops chans modules n chIdx wIdx gamma_values dictEmpty L W hWg hW hK,
    C11.skip_is_argmax_of_rest chans ks W x]
  cases argmaxNp (W.map (restChoice chans (skipSet chans.length ks) W x)) <;> rfl

/-- **C11 `skip_index_normalised`, for the generated code**: skipping channel `-(m+1)` or channel `n-(m+1)` is the
same call. -/
theorem gen_skip_index_normalised (ops : ModOps M α P C Op) (chans : List (Chan α)) (modules : List M) (n : Nat)
    (chIdx wIdx : List (Nat × Nat)) (gamma_values : List α) (dictEmpty : C)
    (L : Layout chans modules n chIdx wIdx gamma_values) (W : List (List α))
    (hWg : W_get ops modules n = some W)
    (hW : ∀ (k : Nat) m, modules[k]? = some m → ops.W m = W.map (slice (wlens chans) k))
    (hK : ∀ (k : Nat) m (c : Chan α), modules[k]? = some m → chans[k]? = some c → ∀ xi wi,
      (ops.category_choice m xi wi (ops.params m)).1 = c.K.choice (ops.W m) xi wi)
    (m : Nat) (hm : m < chans.length) (ks : List Int) (X : List (List α)) :
    Gen.FusionARTPredict.predict ops modules n chIdx wIdx gamma_values dictEmpty X (-((m : Int) + 1) :: ks)
      = Gen.FusionARTPredict.predict ops modules n chIdx wIdx gamma_values dictEmpty X
          (((chans.length - (m + 1) : Nat) : Int) :: ks) := by
  rw [predict_spec ops chans modules n chIdx wIdx gamma_values dictEmpty L W hWg hW hK,
    predict_spec ops chans modules n chIdx wIdx gamma_values dictEmpty L W hWg hW hK,
    (C11.skip_index_normalised chans m hm ks W X).2]

end PredictProps

/-! ### `join_channel_data` / `split_channel_data`

The model (`joinRow`, `splitRow`) works on one row; the code works on whole 2-d arrays.  `fmtFrom` / `splitMat` are
the array-level recursions the two `for` loops compute; row `r` of their results is the model's function of row `r`
of the arguments. -/
section JoinSplit
variable {β : Type}

/-- row `r` of a 2-d array (`[]` beyond the last row) -/
def row (r : Nat) (A : List (List β)) : List β := A.getD r []

/-- the list `formatted_channel_data` that the loop of `join_channel_data` builds from channel `k` on: the next
supplied array for a kept channel, a filler block for a skipped one; `none` = `channel_data[i]` out of range -/
def fmtFrom (fill : Nat → List (List β)) (skip : Nat → Bool) :
    Nat → List Nat → List (List (List β)) → Option (List (List (List β)))
  | _, [], _ => some []
  | k, w :: ws, data =>
    if skip k then (fmtFrom fill skip (k + 1) ws data).map (fill w :: ·)
    else match data with
      | [] => none
      | d :: ds => (fmtFrom fill skip (k + 1) ws ds).map (d :: ·)

/-- the list `channel_data` that the loop of `split_channel_data` builds from channel `k` / column `col` on -/
def splitMat (skip : Nat → Bool) (X : List (List β)) : Nat → List Nat → Nat → List (List (List β))
  | _, [], _ => []
  | k, w :: ws, col =>
    if skip k then splitMat skip X (k + 1) ws (col + w)
    else npCols X col (col + w) :: splitMat skip X (k + 1) ws (col + w)

/-- `join_channel_data` on whole arrays with `R` rows, row by row through the model's `joinRow` -/
def joinMat (ws : List Nat) (skip : Nat → Bool) (filler : β) (R : Nat) (cd : List (List (List β))) :
    Option (List (List β)) :=
  allSome ((List.range R).map (fun r => joinRow ws skip filler (cd.map (row r))))

theorem range_map_getD (ws : List Nat) : (List.range' 0 ws.length).map (fun k => ws.getD k 0) = ws := by
  rw [← List.range_eq_range']
  apply List.ext_getElem?
  intro k
  by_cases hk : k < ws.length
  · simp [hk, List.getD_eq_getElem?_getD]
  · simp [hk]

/-- the loop of `join_channel_data` computes `fmtFrom` (and counts the supplied arrays it used) -/
theorem foldlM_fmt (n : Nat) (body : List (List (List β)) × Nat → Nat → Option (List (List (List β)) × Nat))
    (fill : Nat → List (List β)) (skip : Nat → Bool) (cd : List (List (List β))) (wd : Nat → Nat)
    (hbody : ∀ acc i k, k < n → body (acc, i) k =
      if skip k then some (acc ++ [fill (wd k)], i) else (cd[i]?).map (fun d => (acc ++ [d], i + 1)))
    (m k : Nat) (hk : k + m ≤ n) (acc : List (List (List β))) (i : Nat) :
    (List.range' k m).foldlM body (acc, i)
      = (fmtFrom fill skip k ((List.range' k m).map wd) (cd.drop i)).map
          (fun l => (acc ++ l, i + ((List.range' k m).filter (fun j => !skip j)).length)) := by
  induction m generalizing k acc i with
  | zero => simp [fmtFrom]
  | succ m ih =>
    rw [List.range'_succ, List.foldlM_cons, hbody acc i k (by omega)]
    simp only [List.map_cons, fmtFrom, List.filter_cons]
    by_cases hs : skip k
    · simp only [hs, if_true, Option.bind_eq_bind, Option.bind_some, Bool.not_true, Bool.false_eq_true, if_false]
      rw [ih (k + 1) (by omega)]
      cases fmtFrom fill skip (k + 1) ((List.range' (k + 1) m).map wd) (cd.drop i) <;> simp
    · simp only [hs, Bool.false_eq_true, if_false, Bool.not_false, if_true]
      cases hc : cd[i]? with
      | none =>
        have : cd.drop i = [] := List.drop_eq_nil_of_le (by simpa using hc)
        simp [this]
      | some d =>
        obtain ⟨hi, hd⟩ := List.getElem?_eq_some_iff.1 hc
        have : cd.drop i = d :: cd.drop (i + 1) := by rw [List.drop_eq_getElem_cons hi, hd]
        simp only [this, Option.map_some, Option.bind_eq_bind, Option.bind_some]
        rw [ih (k + 1) (by omega)]
        cases fmtFrom fill skip (k + 1) ((List.range' (k + 1) m).map wd) (cd.drop (i + 1)) <;> simp
        omega

theorem fmtFrom_length (fill : Nat → List (List β)) (skip : Nat → Bool) (k : Nat) (ws : List Nat)
    (data F : List (List (List β))) (h : fmtFrom fill skip k ws data = some F) : F.length = ws.length := by
  induction ws generalizing k data F with
  | nil => simp [fmtFrom] at h; simp [← h]
  | cons w ws ih =>
    simp only [fmtFrom] at h
    by_cases hs : skip k
    · simp only [hs, if_true, Option.map_eq_some_iff] at h
      obtain ⟨F', hF', rfl⟩ := h
      simp [ih _ _ _ hF']
    · cases data with
      | nil => simp [hs] at h
      | cons d ds =>
        simp only [hs, Bool.false_eq_true, if_false, Option.map_eq_some_iff] at h
        obtain ⟨F', hF', rfl⟩ := h
        simp [ih _ _ _ hF']

theorem fmtFrom_all (Pr : List (List β) → Prop) (fill : Nat → List (List β)) (hfill : ∀ w, Pr (fill w))
    (skip : Nat → Bool) (k : Nat) (ws : List Nat) (data F : List (List (List β))) (hdata : ∀ A ∈ data, Pr A)
    (h : fmtFrom fill skip k ws data = some F) : ∀ A ∈ F, Pr A := by
  induction ws generalizing k data F with
  | nil => simp only [fmtFrom, Option.some.injEq] at h; subst h; intro A hA; cases hA
  | cons w ws ih =>
    simp only [fmtFrom] at h
    by_cases hs : skip k
    · simp only [hs, if_true, Option.map_eq_some_iff] at h
      obtain ⟨F', hF', rfl⟩ := h
      intro A hA
      rcases List.mem_cons.1 hA with rfl | hA
      · exact hfill w
      · exact ih _ _ _ hdata hF' A hA
    · cases data with
      | nil => simp [hs] at h
      | cons d ds =>
        simp only [hs, Bool.false_eq_true, if_false, Option.map_eq_some_iff] at h
        obtain ⟨F', hF', rfl⟩ := h
        intro A hA
        rcases List.mem_cons.1 hA with rfl | hA
        · exact hdata _ (by simp)
        · exact ih _ _ _ (fun B hB => hdata B (by simp [hB])) hF' A hA

/-- row `r` of the formatted arrays, concatenated, is the model's `joinFrom` of row `r` of the supplied arrays -/
theorem joinFrom_rows (filler : β) (fill : Nat → List (List β)) (skip : Nat → Bool) (r : Nat)
    (hfill : ∀ w, row r (fill w) = List.replicate w filler) (k : Nat) (ws : List Nat) (data : List (List (List β))) :
    joinFrom filler skip k ws (data.map (row r))
      = (fmtFrom fill skip k ws data).map (fun F => (F.map (row r)).flatten) := by
  induction ws generalizing k data with
  | nil => simp [joinFrom, fmtFrom]
  | cons w ws ih =>
    by_cases hs : skip k
    · simp only [joinFrom, fmtFrom, hs, if_true, ih]
      cases fmtFrom fill skip (k + 1) ws data <;> simp [hfill]
    · cases data with
      | nil => simp [joinFrom, fmtFrom, hs]
      | cons d ds =>
        simp only [joinFrom, fmtFrom, hs, Bool.false_eq_true, if_false, List.map_cons, ih]
        cases fmtFrom fill skip (k + 1) ws ds <;> simp

theorem zipSame_eq {γ δ : Type} (f : β → γ → δ) (a : List β) (b : List γ) (h : a.length = b.length) :
    zipSame f a b = some (List.zipWith f a b) := by
  induction a generalizing b with
  | nil => cases b with
    | nil => rfl
    | cons _ _ => simp at h
  | cons x a ih => cases b with
    | nil => simp at h
    | cons y b => simp [zipSame, ih b (by simpa using h)]

theorem eq_range_map_row (A : List (List β)) : A = (List.range A.length).map (fun r => row r A) := by
  apply List.ext_getElem?
  intro i
  by_cases hi : i < A.length
  · simp [hi, row, List.getD_eq_getElem?_getD]
  · simp [hi]

/-- `np.hstack` of arrays with `R` rows each: row `r` of the result is the concatenation of their rows `r` -/
theorem npHstack_rows (R : Nat) (F : List (List (List β))) (hne : F ≠ []) (hR : ∀ A ∈ F, A.length = R) :
    npHstack F = some ((List.range R).map (fun r => (F.map (row r)).flatten)) := by
  induction F with
  | nil => exact absurd rfl hne
  | cons A F ih =>
    have hA : A.length = R := hR A (by simp)
    cases F with
    | nil =>
      simp only [npHstack, List.map_cons, List.map_nil, List.flatten_cons, List.flatten_nil, List.append_nil]
      rw [← hA]; exact congrArg some (eq_range_map_row A)
    | cons B F =>
      have ih' := ih (by simp) (fun A' hA' => hR A' (by simp [hA']))
      simp only [npHstack] at ih' ⊢
      rw [ih']
      simp only []
      rw [zipSame_eq _ _ _ (by simp [hA])]
      congr 1
      conv_lhs => rw [eq_range_map_row A, hA]
      rw [List.zipWith_map, List.zipWith_self]
      simp

theorem allSome_replicate_none (l : List Nat) (hl : l ≠ []) (g : Nat → Option β) (hg : ∀ r ∈ l, g r = none) :
    allSome (l.map g) = none := by
  cases l with
  | nil => exact absurd rfl hl
  | cons a l => simp [allSome, hg a (by simp)]

theorem allSome_eq_some_iff (l : List (Option β)) (X : List β) : allSome l = some X ↔ l = X.map some := by
  induction l generalizing X with
  | nil => cases X <;> simp [allSome]
  | cons a l ih =>
    cases a with
    | none => cases X <;> simp [allSome]
    | some a =>
      cases X with
      | nil => simp [allSome]
      | cons x X => simp [allSome, ih, Option.map_eq_some_iff]; constructor <;> (rintro ⟨rfl, rfl⟩; exact ⟨rfl, rfl⟩)

end JoinSplit

section JoinGen
variable {α : Type} [Add α] [Mul α] [Div α] [Zero α] [One α] [LT α] [DecidableRel (α := α) (· < ·)]

/-- the value `0.5 * np.ones(...)` fills a skipped channel with -/
def fillerVal (α : Type) [Add α] [Mul α] [Div α] [One α] : α := ((1 : α) / ((1 : α) + (1 : α))) * (1 : α)

theorem row_fill (R w r : Nat) (hr : r < R) :
    row r (npSMul ((1 : α) / ((1 : α) + (1 : α))) (npOnes R w)) = List.replicate w (fillerVal α) := by
  simp [row, npSMul, npOnes, fillerVal, List.getD_eq_getElem?_getD, hr]

/-- **`FusionART.join_channel_data(channel_data, skip_channels)` = `Fusion.joinRow`, row by row**, for supplied
arrays of `R > 0` rows each (`channel_data[0]` exists): every row of the result is the model's join of the
corresponding rows — the supplied rows in order, a block of `0.5 * 1` for each skipped channel; the call raises
exactly when fewer arrays are supplied than channels are kept. -/
theorem join_channel_data_spec (ws : List Nat) (n : Nat) (chIdx : List (Nat × Nat)) (hn : n = ws.length)
    (hpos : 0 < ws.length) (hch : chIdx = positions ws) (A0 : List (List α)) (cd' : List (List (List α))) (R : Nat)
    (hR : ∀ A ∈ A0 :: cd', A.length = R) (hR0 : 0 < R) (ks : List Int) :
    join_channel_data n chIdx (A0 :: cd') ks = joinMat ws (skipSet n ks) (fillerVal α) R (A0 :: cd') := by
  subst hn hch
  have hA0 : A0.length = R := hR A0 (by simp)
  unfold join_channel_data
  rw [norm_mapM]
  simp only [Option.bind_eq_bind, Option.bind_some, List.getElem?_cons_zero, hA0]
  rw [List.range_eq_range',
    foldlM_fmt ws.length _ (fun w => npSMul ((1 : α) / ((1 : α) + (1 : α))) (npOnes R w)) (skipSet ws.length ks)
      (A0 :: cd') (fun k => ws.getD k 0) ?hbody ws.length 0 (by omega) [] 0]
  case hbody =>
    intro acc i k hk
    have hp := positions_getElem? ws k hk
    by_cases hs : skipSet ws.length ks k
    · have hs' : (ks.map (normIdx ws.length)).contains (Int.ofNat k) = true := hs
      rw [hs', hs]
      simp [hp, natSub]
    · have hs2 : skipSet ws.length ks k = false := by simpa using hs
      have hs' : (ks.map (normIdx ws.length)).contains (Int.ofNat k) = false := hs2
      rw [hs', hs2]
      cases hc : (A0 :: cd')[i]? <;> simp
  rw [range_map_getD, List.drop_zero]
  unfold joinMat joinRow
  have hrows : ∀ r, r < R → joinFrom (fillerVal α) (skipSet ws.length ks) 0 ws ((A0 :: cd').map (row r))
      = (fmtFrom (fun w => npSMul ((1 : α) / ((1 : α) + (1 : α))) (npOnes R w)) (skipSet ws.length ks) 0 ws
          (A0 :: cd')).map (fun F => (F.map (row r)).flatten) :=
    fun r hr => joinFrom_rows _ _ _ r (fun w => row_fill R w r hr) 0 ws _
  cases hF : fmtFrom (fun w => npSMul ((1 : α) / ((1 : α) + (1 : α))) (npOnes R w)) (skipSet ws.length ks) 0 ws
      (A0 :: cd') with
  | none =>
    rw [allSome_replicate_none _ (by simp; omega) _ (fun r hr => by rw [hrows r (List.mem_range.1 hr), hF]; rfl)]
    rfl
  | some F =>
    have hFl := fmtFrom_length _ _ _ _ _ _ hF
    have hFR := fmtFrom_all (fun A => A.length = R) _ (fun w => by simp [npSMul, npOnes]) _ _ _ _ _ hR hF
    have e : (List.range R).map (fun r => joinFrom (fillerVal α) (skipSet ws.length ks) 0 ws ((A0 :: cd').map (row r)))
        = ((List.range R).map (fun r => (F.map (row r)).flatten)).map some := by
      rw [List.map_map]
      apply List.map_congr_left
      intro r hr
      rw [hrows r (List.mem_range.1 hr), hF]; rfl
    rw [e, allSome_map_some]
    simp only [Option.map_some, Option.bind_some, List.nil_append]
    rw [npHstack_rows R F (by intro h; rw [h] at hFl; simp at hFl; omega) hFR]
    rfl

/-- … read row by row: when the call returns `X`, `X` has `R` rows and row `r` is `joinRow` of the rows `r` -/
theorem join_channel_data_rows (ws : List Nat) (n : Nat) (chIdx : List (Nat × Nat)) (hn : n = ws.length)
    (hpos : 0 < ws.length) (hch : chIdx = positions ws) (A0 : List (List α)) (cd' : List (List (List α))) (R : Nat)
    (hR : ∀ A ∈ A0 :: cd', A.length = R) (hR0 : 0 < R) (ks : List Int) (X : List (List α))
    (hX : join_channel_data n chIdx (A0 :: cd') ks = some X) :
    X.length = R ∧ ∀ r, r < R →
      joinRow ws (skipSet n ks) (fillerVal α) ((A0 :: cd').map (row r)) = some (row r X) := by
  rw [join_channel_data_spec ws n chIdx hn hpos hch A0 cd' R hR hR0 ks, joinMat, allSome_eq_some_iff] at hX
  have hl : X.length = R := by simpa using (congrArg List.length hX).symm
  refine ⟨hl, fun r hr => ?_⟩
  have := congrArg (fun l => l[r]?) hX
  simp only [List.getElem?_map, List.getElem?_range hr, Option.map_some] at this
  rw [List.getElem?_eq_getElem (by omega)] at this
  simp only [Option.map_some, Option.some.injEq] at this
  rw [this]
  simp [row, List.getD_eq_getElem?_getD, List.getElem?_eq_getElem (show r < X.length by omega)]

end JoinGen

section SplitGen
variable {β : Type}

/-- the loop of `split_channel_data` computes `splitMat` (and advances `current_col` by every channel's width) -/
theorem foldlM_split (n : Nat) (body : List (List (List β)) × Nat → Nat → Option (List (List (List β)) × Nat))
    (skip : Nat → Bool) (X : List (List β)) (wd : Nat → Nat)
    (hbody : ∀ acc col k, k < n → body (acc, col) k =
      some (if skip k then (acc, col + wd k) else (acc ++ [npCols X col (col + wd k)], col + wd k)))
    (m k : Nat) (hk : k + m ≤ n) (acc : List (List (List β))) (col : Nat) :
    (List.range' k m).foldlM body (acc, col)
      = some (acc ++ splitMat skip X k ((List.range' k m).map wd) col, col + ((List.range' k m).map wd).sum) := by
  induction m generalizing k acc col with
  | zero => simp [splitMat]
  | succ m ih =>
    rw [List.range'_succ, List.foldlM_cons, hbody acc col k (by omega)]
    simp only [Option.bind_eq_bind, Option.bind_some, List.map_cons, splitMat, List.sum_cons]
    by_cases hs : skip k
    · simp only [hs, if_true]
      rw [ih (k + 1) (by omega)]
      simp [Nat.add_assoc]
    · simp only [hs, Bool.false_eq_true, if_false]
      rw [ih (k + 1) (by omega)]
      simp [Nat.add_assoc]

theorem row_npCols (r : Nat) (X : List (List β)) (a b : Nat) : row r (npCols X a b) = pySlice (row r X) a b := by
  unfold row npCols
  rw [List.getD_eq_getElem?_getD, List.getD_eq_getElem?_getD, List.getElem?_map]
  cases X[r]? <;> simp [pySlice]

/-- row `r` of the arrays `split_channel_data` returns = the model's `splitFrom` of row `r` -/
theorem splitMat_rows (skip : Nat → Bool) (X : List (List β)) (r : Nat) (k : Nat) (ws : List Nat) (col : Nat) :
    (splitMat skip X k ws col).map (row r) = splitFrom skip k ws ((row r X).drop col) := by
  induction ws generalizing k col with
  | nil => rfl
  | cons w ws ih =>
    have e : ((row r X).drop col).drop w = (row r X).drop (col + w) := by rw [List.drop_drop]
    by_cases hs : skip k
    · simp only [splitMat, splitFrom, hs, if_true, ih, e]
    · simp only [splitMat, splitFrom, hs, Bool.false_eq_true, if_false, List.map_cons, ih, e, row_npCols]
      congr 1
      rw [pySlice, List.drop_take, Nat.add_sub_cancel_left]

theorem splitMat_rowcount (skip : Nat → Bool) (X : List (List β)) (k : Nat) (ws : List Nat) (col : Nat) :
    ∀ A ∈ splitMat skip X k ws col, A.length = X.length := by
  induction ws generalizing k col with
  | nil => intro A hA; cases hA
  | cons w ws ih =>
    intro A hA
    simp only [splitMat] at hA
    by_cases hs : skip k
    · simp only [hs, if_true] at hA; exact ih _ _ A hA
    · simp only [hs, Bool.false_eq_true, if_false, List.mem_cons] at hA
      rcases hA with rfl | hA
      · simp [npCols]
      · exact ih _ _ A hA

/-- **`FusionART.split_channel_data(joined_data, skip_channels)`**: the column blocks of the channels that are not
skipped, in order (`splitMat`) … -/
theorem split_channel_data_spec (ws : List Nat) (n : Nat) (chIdx : List (Nat × Nat)) (hn : n = ws.length)
    (hch : chIdx = positions ws) (X : List (List β)) (ks : List Int) :
    split_channel_data n chIdx X ks = some (splitMat (skipSet n ks) X 0 ws 0) := by
  subst hn hch
  unfold split_channel_data
  rw [norm_mapM]
  simp only [Option.bind_eq_bind, Option.bind_some]
  rw [List.range_eq_range',
    foldlM_split ws.length _ (skipSet ws.length ks) X (fun k => ws.getD k 0) ?hbody ws.length 0 (by omega) [] 0]
  case hbody =>
    intro acc col k hk
    have hp := positions_getElem? ws k hk
    by_cases hs : skipSet ws.length ks k
    · have hs' : (ks.map (normIdx ws.length)).contains (Int.ofNat k) = true := hs
      rw [hs', hs]
      simp [hp, natSub]
    · have hs2 : skipSet ws.length ks k = false := by simpa using hs
      have hs' : (ks.map (normIdx ws.length)).contains (Int.ofNat k) = false := hs2
      rw [hs', hs2]
      simp [hp, natSub]
  rw [range_map_getD]
  rfl

/-- … **= `Fusion.splitRow`, row by row**: row `r` of the returned arrays is the model's split of row `r` of the
joined array, and every returned array has as many rows as the joined array. -/
theorem split_channel_data_rows (ws : List Nat) (n : Nat) (chIdx : List (Nat × Nat)) (hn : n = ws.length)
    (hch : chIdx = positions ws) (X : List (List β)) (ks : List Int) :
    ∃ S, split_channel_data n chIdx X ks = some S ∧ (∀ A ∈ S, A.length = X.length) ∧
      ∀ r, S.map (row r) = splitRow ws (skipSet n ks) (row r X) :=
  ⟨_, split_channel_data_spec ws n chIdx hn hch X ks, splitMat_rowcount _ _ _ _ _,
    fun r => by rw [splitMat_rows, List.drop_zero]; rfl⟩

/-- two lists of 2-d arrays with `R > 0` rows each that agree row by row are equal -/
theorem cube_ext (R : Nat) (hR0 : 0 < R) (S S' : List (List (List β))) (hS : ∀ A ∈ S, A.length = R)
    (hS' : ∀ A ∈ S', A.length = R) (h : ∀ r, r < R → S.map (row r) = S'.map (row r)) : S = S' := by
  have hl : S.length = S'.length := by simpa using congrArg List.length (h 0 hR0)
  apply List.ext_getElem hl
  intro j hj hj'
  have h1 := hS _ (List.getElem_mem hj)
  have h2 := hS' _ (List.getElem_mem hj')
  apply List.ext_getElem (by rw [h1, h2])
  intro r hr hr'
  have := congrArg (fun l => l[j]?) (h r (by omega))
  simp only [List.getElem?_map, List.getElem?_eq_getElem hj, List.getElem?_eq_getElem hj', Option.map_some,
    Option.some.injEq, row, List.getD_eq_getElem?_getD, List.getElem?_eq_getElem hr, List.getElem?_eq_getElem hr',
    Option.getD_some] at this
  exact this

theorem row_range_map (R : Nat) (g : Nat → List β) (r : Nat) (hr : r < R) : row r ((List.range R).map g) = g r := by
  simp [row, List.getD_eq_getElem?_getD, List.getElem?_range hr]

end SplitGen

section SplitJoin
variable {α : Type} [Add α] [Mul α] [Div α] [Zero α] [One α] [LT α] [DecidableRel (α := α) (· < ·)]

/-- **C11 `split_join`, for the generated code: `split_channel_data ∘ join_channel_data = id` on the supplied
channels.**  Arrays of `R > 0` rows whose rows have the widths of the kept channels are joined without an exception,
the joined array has `R` rows of the full width, and splitting it with the same `skip_channels` returns exactly the
supplied arrays — whatever set of channels is skipped, with positive or negative indices. -/
theorem gen_split_join (ws : List Nat) (n : Nat) (chIdx : List (Nat × Nat)) (hn : n = ws.length)
    (hpos : 0 < ws.length) (hch : chIdx = positions ws) (A0 : List (List α)) (cd' : List (List (List α))) (R : Nat)
    (hR : ∀ A ∈ A0 :: cd', A.length = R) (hR0 : 0 < R) (ks : List Int)
    (hfit : ∀ r, r < R → Fit (keptWidths (skipSet n ks) 0 ws) ((A0 :: cd').map (row r))) :
    ∃ X, join_channel_data n chIdx (A0 :: cd') ks = some X ∧ X.length = R ∧ (∀ v ∈ X, v.length = ws.sum) ∧
      split_channel_data n chIdx X ks = some (A0 :: cd') := by
  have hsj := fun r hr => C11.split_join (fillerVal α) (skipSet n ks) ws ((A0 :: cd').map (row r)) (hfit r hr)
  have hj : join_channel_data n chIdx (A0 :: cd') ks
      = some ((List.range R).map (fun r =>
          (joinRow ws (skipSet n ks) (fillerVal α) ((A0 :: cd').map (row r))).getD [])) := by
    rw [join_channel_data_spec ws n chIdx hn hpos hch A0 cd' R hR hR0 ks, joinMat, allSome_eq_some_iff, List.map_map]
    apply List.map_congr_left
    intro r hr
    obtain ⟨v, hv, -, -⟩ := hsj r (List.mem_range.1 hr)
    simp only [Function.comp_apply, hv, Option.getD_some]
  refine ⟨_, hj, by simp, ?_, ?_⟩
  · intro v hv
    simp only [List.mem_map, List.mem_range] at hv
    obtain ⟨r, hr, rfl⟩ := hv
    obtain ⟨v, hv, -, hl⟩ := hsj r hr
    simp only [hv, Option.getD_some, hl]
  · obtain ⟨S, hS, hrc, hrows⟩ := split_channel_data_rows ws n chIdx hn hch
      ((List.range R).map (fun r => (joinRow ws (skipSet n ks) (fillerVal α) ((A0 :: cd').map (row r))).getD [])) ks
    rw [hS]
    congr 1
    apply cube_ext R hR0 S (A0 :: cd') (fun A hA => by simpa using hrc A hA) hR
    intro r hr
    rw [hrows r]
    obtain ⟨v, hv, hsp, -⟩ := hsj r hr
    have : row r ((List.range R).map (fun r =>
        (joinRow ws (skipSet n ks) (fillerVal α) ((A0 :: cd').map (row r))).getD [])) = v := by
      rw [row_range_map _ _ _ hr, hv]; rfl
    rw [this, hsp]

end SplitJoin

/-! ### `get_channel_centers` / `predict_regression` -/
section Regression
variable {β γ : Type}

theorem pyIndex_nonneg (xs : List β) (t : Int) (h : 0 ≤ t) : pyIndex xs t = xs[t.toNat]? := by
  unfold pyIndex
  simp [Int.not_lt.2 h]

/-- rows whose prediction exists and determines the row's value -/
theorem allSome_map_of_bind (f : γ → Option Nat) (PR : γ → Option β) (g : Nat → β)
    (h1 : ∀ x c, f x = some c → PR x = some (g c)) (h0 : ∀ x, f x = none → PR x = none) (X : List γ) :
    allSome (X.map PR) = (allSome (X.map f)).map (List.map g) := by
  induction X with
  | nil => rfl
  | cons x X ih =>
    cases hf : f x with
    | none => simp [allSome, hf, h0 x hf]
    | some c =>
      simp only [List.map_cons, hf, h1 x c hf, allSome_cons_some, ih]
      cases allSome (X.map f) <;> rfl

/-- the shape `predict_regression` returns: one target → the 2-d array of the rows' single centres; several → one 2-d
array per target (the model's per-row lists, transposed) -/
def regrShape (t : Nat) (rows : List (List (List β))) : (List (List β)) ⊕ (List (List (List β))) :=
  if t = 1 then Sum.inl (rows.map (fun r => r.headD []))
  else Sum.inr ((List.range t).map (fun j => rows.map (fun r => r.getD j [])))

end Regression

section RegressionGen
variable {M P C Op α : Type} [Add α] [Mul α] [Div α] [Zero α] [One α] [LinearOrder α]

/-- **`FusionART.get_channel_centers(k)` = `Fusion.channelCentres`** (for a channel number `0 ≤ k < n`; a negative `k`
would count from the end, Python's `modules[k]`) -/
theorem get_channel_centers_spec (ops : ModOps M α P C Op) (ops2 : ModOps2 M α) (chans : List (Chan α))
    (modules : List M) (centre : Nat → List α → List α) (W : List (List α))
    (hW : ∀ (k : Nat) m, modules[k]? = some m → ops.W m = W.map (slice (wlens chans) k))
    (hC : ∀ (k : Nat) m, modules[k]? = some m → ops2.get_cluster_centers m = (ops.W m).map (centre k))
    (t : Int) (h0 : 0 ≤ t) (h1 : t.toNat < modules.length) :
    get_channel_centers ops2 modules t = some (channelCentres chans centre W t.toNat) := by
  unfold get_channel_centers
  have hm : modules[t.toNat]? = some modules[t.toNat] := List.getElem?_eq_getElem h1
  simp only [pyIndex_nonneg _ _ h0, hm, Option.bind_eq_bind, Option.bind_some, pure, hC _ _ hm, hW _ _ hm,
    channelCentres, List.map_map]
  rfl

/-- **`FusionART.predict_regression(X, target_channels)` = `Fusion.predictRegression`, row by row** — for target
channels that denote channels (`0 ≤ normalised index < n`): the rows' values are the model's, arranged in the shape
the code returns (`regrShape`); one exception (no category) aborts the call. -/
theorem predict_regression_spec (ops : ModOps M α P C Op) (ops2 : ModOps2 M α) (chans : List (Chan α))
    (modules : List M) (n : Nat) (chIdx wIdx : List (Nat × Nat)) (gamma_values : List α) (dictEmpty : C)
    (L : Layout chans modules n chIdx wIdx gamma_values) (W : List (List α))
    (hWg : W_get ops modules n = some W)
    (hW : ∀ (k : Nat) m, modules[k]? = some m → ops.W m = W.map (slice (wlens chans) k))
    (hK : ∀ (k : Nat) m (c : Chan α), modules[k]? = some m → chans[k]? = some c → ∀ xi wi,
      (ops.category_choice m xi wi (ops.params m)).1 = c.K.choice (ops.W m) xi wi)
    (centre : Nat → List α → List α)
    (hC : ∀ (k : Nat) m, modules[k]? = some m → ops2.get_cluster_centers m = (ops.W m).map (centre k))
    (X : List (List α)) (targets : List Int)
    (hnn : ∀ t ∈ targets, 0 ≤ normIdx chans.length t ∧ normIdx chans.length t < chans.length) :
    predict_regression ops ops2 modules n chIdx wIdx gamma_values dictEmpty X targets
      = (allSome (X.map (predictRegression chans centre targets W))).map (regrShape targets.length) := by
  have hn : n = chans.length := by rw [L.n_eq, L.len]
  have hlen := L.len
  subst hn
  -- the model, row by row
  have hsk := skipSet_normIdx chans.length targets (fun t ht => (hnn t ht).1)
  have hrow := allSome_map_of_bind (stepPredSkip chans (skipSet chans.length targets) W)
    (predictRegression chans centre targets W)
    (fun c => (targets.map (normIdx chans.length)).map
      (fun k => centre k.toNat (slice (wlens chans) k.toNat (W.getD c []))))
    (by
      intro x c hc
      obtain ⟨w, hw, h⟩ := predictRegression_eq chans centre targets W x (fun t ht => (hnn t ht).1) c hc
      rw [h]; simp [List.getD_eq_getElem?_getD, hw])
    (by
      intro x hx
      unfold predictRegression
      simp only [hsk, hx])
    X
  rw [hrow]
  -- the code
  unfold predict_regression
  rw [norm_mapM]
  simp only [Option.bind_eq_bind, Option.bind_some]
  rw [predict_spec ops chans modules chans.length chIdx wIdx gamma_values dictEmpty L W hWg hW hK, predictSkip, hsk]
  rw [mapM_some_of_forall (g := fun k : Int => channelCentres chans centre W k.toNat)]
  rotate_left
  · intro k hk
    simp only [List.mem_map] at hk
    obtain ⟨t, ht, rfl⟩ := hk
    have := hnn t ht
    rw [get_channel_centers_spec ops ops2 chans modules centre W hW hC _ this.1 (by omega)]
  simp only [Option.bind_some, List.length_map]
  cases hcs : allSome (X.map (stepPredSkip chans (skipSet chans.length targets) W)) with
  | none => rfl
  | some Cs =>
    have hlt : ∀ c ∈ Cs, c < W.length := by
      intro c hc
      rw [allSome_eq_some_iff] at hcs
      have : some c ∈ X.map (stepPredSkip chans (skipSet chans.length targets) W) := by
        rw [hcs]; exact List.mem_map_of_mem hc
      obtain ⟨x, _, hx⟩ := List.mem_map.1 this
      simpa [stepPredSkip] using argmaxNp_lt_length hx
    have hget : ∀ c ∈ Cs, ∀ k : Int, (channelCentres chans centre W k.toNat)[c]?
        = some (centre k.toNat (slice (wlens chans) k.toNat (W.getD c []))) := by
      intro c hc k
      have := hlt c hc
      rw [channelCentres_getElem?, List.getElem?_eq_getElem this]
      simp [List.getD_eq_getElem?_getD, List.getElem?_eq_getElem this]
    simp only [Option.bind_some, Option.map_some]
    by_cases h1 : targets.length = 1
    · obtain ⟨t0, rfl⟩ : ∃ t0, targets = [t0] := by
        match targets, h1 with
        | [t0], _ => exact ⟨t0, rfl⟩
      simp only [List.length_singleton, decide_true, if_true, List.map_cons, List.map_nil, List.getElem?_cons_zero,
        Option.bind_some]
      rw [mapM_some_of_forall (g := fun c => centre (normIdx chans.length t0).toNat
        (slice (wlens chans) (normIdx chans.length t0).toNat (W.getD c [])))]
      · simp [regrShape, pure]
      · intro c hc
        simp [hget c hc]
    · simp only [h1, decide_false, Bool.false_eq_true, if_false]
      rw [mapM_some_of_forall (g := fun j => Cs.map (fun c => centre ((targets.map (normIdx chans.length)).getD j 0).toNat
        (slice (wlens chans) ((targets.map (normIdx chans.length)).getD j 0).toNat (W.getD c []))))]
      · simp only [Option.bind_some, pure, regrShape, h1, if_false, Option.some.injEq, Sum.inr.injEq, List.map_map]
        apply List.map_congr_left
        intro j hj
        have hj' : j < targets.length := List.mem_range.1 hj
        apply List.map_congr_left
        intro c _
        simp [List.getD_eq_getElem?_getD, hj']
      · intro j hj
        have hj' : j < targets.length := List.mem_range.1 hj
        rw [mapM_some_of_forall (g := fun c => centre ((targets.map (normIdx chans.length)).getD j 0).toNat
          (slice (wlens chans) ((targets.map (normIdx chans.length)).getD j 0).toNat (W.getD c [])))]
        intro c hc
        simp [List.getD_eq_getElem?_getD, hj', hget c hc]

end RegressionGen

section RegressionProps
variable {M P C Op α : Type} [Field α] [LinearOrder α] [IsStrictOrderedRing α]

/-- **C11 `regression_multi_is_target_centres`, for the generated code**: when the translated `predict` (targets
skipped) gives a row the category `c`, the translated `predict_regression` returns for that row exactly the centres of
category `c` in the target channels, in the order the targets were given. -/
theorem gen_regression_target_centres (ops : ModOps M α P C Op) (ops2 : ModOps2 M α) (chans : List (Chan α))
    (modules : List M) (n : Nat) (chIdx wIdx : List (Nat × Nat)) (gamma_values : List α) (dictEmpty : C)
    (L : Layout chans modules n chIdx wIdx gamma_values) (W : List (List α))
    (hWg : W_get ops modules n = some W)
    (hW : ∀ (k : Nat) m, modules[k]? = some m → ops.W m = W.map (slice (wlens chans) k))
    (hK : ∀ (k : Nat) m (c : Chan α), modules[k]? = some m → chans[k]? = some c → ∀ xi wi,
      (ops.category_choice m xi wi (ops.params m)).1 = c.K.choice (ops.W m) xi wi)
    (centre : Nat → List α → List α)
    (hC : ∀ (k : Nat) m, modules[k]? = some m → ops2.get_cluster_centers m = (ops.W m).map (centre k))
    (x : List α) (targets : List Int)
    (hnn : ∀ t ∈ targets, 0 ≤ normIdx chans.length t ∧ normIdx chans.length t < chans.length) (c : Nat)
    (hc : Gen.FusionARTPredict.predict ops modules n chIdx wIdx gamma_values dictEmpty [x] targets = some [c]) :
    ∃ w, W[c]? = some w ∧
      predict_regression ops ops2 modules n chIdx wIdx gamma_values dictEmpty [x] targets
        = some (regrShape targets.length [(targets.map (normIdx chans.length)).map
            (fun k => centre k.toNat (slice (wlens chans) k.toNat w))]) := by
  rw [predict_spec ops chans modules n chIdx wIdx gamma_values dictEmpty L W hWg hW hK, allSome_eq_some_iff] at hc
  obtain ⟨w, hw, h⟩ := C11.regression_multi_is_target_centres chans centre targets W x
    (fun t ht => (hnn t ht).1) c (by simpa using hc)
  refine ⟨w, hw, ?_⟩
  rw [predict_regression_spec ops ops2 chans modules n chIdx wIdx gamma_values dictEmpty L W hWg hW hK centre hC
    [x] targets hnn]
  simp [h, allSome]

end RegressionProps

/-! ### `prepare_data` / `restore_data`, `get_cluster_centers`, `n_clusters` -/
section PrepBasics
variable {β γ : Type}

theorem mapM_eq_allSome (l : List γ) (f : γ → Option β) : l.mapM f = allSome (l.map f) := by
  induction l with
  | nil => rfl
  | cons a l ih =>
    rw [List.mapM_cons, ih, List.map_cons]
    cases f a with
    | none => rfl
    | some b => simp only [allSome_cons_some]; cases allSome (l.map f) <;> rfl

theorem allSome_none_of_mem (l : List (Option β)) (h : none ∈ l) : allSome l = none := by
  induction l with
  | nil => cases h
  | cons a l ih =>
    cases a with
    | none => rfl
    | some a =>
      have : none ∈ l := by simpa using h
      simp [allSome, ih this]

theorem row_map (r : Nat) (A : List (List β)) (f : List β → List β) (hr : r < A.length) :
    row r (A.map f) = f (row r A) := by
  simp [row, List.getD_eq_getElem?_getD, List.getElem?_eq_getElem hr]

end PrepBasics

section PrepGen
variable {M α : Type} [Add α] [Mul α] [Div α] [Zero α] [One α] [LT α] [DecidableRel (α := α) (· < ·)]

/-- **`FusionART.prepare_data(channel_data, skip_channels)` = `Fusion.prepareRow`, row by row** (`channel_data` holds
arrays of `R > 0` rows; module `i`'s `prepare_data` acts row by row as `prep i`; the indices in `skip_channels` denote
channels or are non-negative; at least one channel is kept — otherwise the code reads `channel_data[0]` of an empty
list and raises, which the row model cannot express). -/
theorem prepare_data_spec (ops2 : ModOps2 M α) (modules : List M) (ws : List Nat) (n : Nat) (chIdx : List (Nat × Nat))
    (hn : n = ws.length) (hm : modules.length = n) (hch : chIdx = positions ws) (prep : Nat → List α → List α)
    (hP : ∀ (i : Nat) m, modules[i]? = some m → ∀ A, ops2.prepare_data m A = A.map (prep i))
    (cd : List (List (List α))) (R : Nat) (hR : ∀ A ∈ cd, A.length = R) (hR0 : 0 < R) (ks : List Int)
    (hnn : ∀ k ∈ ks, 0 ≤ normIdx n k) (hkept : kept n (skipSet n ks) ≠ []) :
    prepare_data ops2 modules n chIdx cd ks
      = allSome ((List.range R).map (fun r =>
          prepareRow prep ws (skipSet n ks) (fillerVal α) (cd.map (row r)))) := by
  have hpos : 0 < ws.length := by
    cases hw : ws with
    | nil => subst hn; simp [hw, kept] at hkept
    | cons _ _ => simp
  have hsk := skipSet_normIdx n ks hnn
  unfold prepare_data
  rw [norm_mapM]
  simp only [Option.bind_eq_bind, Option.bind_some]
  have hf : (List.range n).filter (fun i => !((ks.map (normIdx n)).contains (Int.ofNat i))) = kept n (skipSet n ks) := rfl
  rw [hf, mapM_eq_allSome]
  have hmem : ∀ i ∈ kept n (skipSet n ks), i < n := by
    intro i hi
    simp only [kept, List.mem_filter, List.mem_range] at hi
    exact hi.1
  have hmap : (kept n (skipSet n ks)).map (fun i => (modules[i]?).bind fun m => (cd[i]?).bind fun A =>
        pure (ops2.prepare_data m A))
      = (kept n (skipSet n ks)).map (fun i => (cd[i]?).map (fun A => A.map (prep i))) := by
    apply List.map_congr_left
    intro i hi
    have hlt' : i < modules.length := by have := hmem i hi; omega
    have him : modules[i]? = some (modules[i]'hlt') := List.getElem?_eq_getElem hlt'
    rw [him]
    cases cd[i]? <;> simp [hP i _ him]
  rw [hmap]
  by_cases hall : ∀ i ∈ kept n (skipSet n ks), i < cd.length
  · -- every kept channel has its array
    have hP' : (kept n (skipSet n ks)).map (fun i => (cd[i]?).map (fun A => A.map (prep i)))
        = ((kept n (skipSet n ks)).map (fun i => (cd.getD i []).map (prep i))).map some := by
      rw [List.map_map]
      apply List.map_congr_left
      intro i hi
      simp [List.getD_eq_getElem?_getD, List.getElem?_eq_getElem (hall i hi)]
    rw [hP', allSome_map_some]
    simp only [Option.bind_some]
    obtain ⟨A0, rest, hcons⟩ : ∃ A0 rest, (kept n (skipSet n ks)).map (fun i => (cd.getD i []).map (prep i)) = A0 :: rest := by
      cases hk : kept n (skipSet n ks) with
      | nil => exact absurd hk hkept
      | cons a l => exact ⟨_, _, rfl⟩
    have hPR : ∀ A ∈ (kept n (skipSet n ks)).map (fun i => (cd.getD i []).map (prep i)), A.length = R := by
      intro A hA
      obtain ⟨i, hi, rfl⟩ := List.mem_map.1 hA
      have hlt := hall i hi
      simp only [List.length_map, List.getD_eq_getElem?_getD, List.getElem?_eq_getElem hlt, Option.getD_some]
      exact hR _ (List.getElem_mem hlt)
    rw [hcons] at hPR ⊢
    have hj := join_channel_data_spec ws n chIdx hn hpos hch A0 rest R hPR hR0 (ks.map (normIdx n))
    rw [hj, hsk, joinMat, ← hcons]
    congr 1
    apply List.map_congr_left
    intro r hr
    have hr' : r < R := List.mem_range.1 hr
    unfold prepareRow
    have : (kept ws.length (skipSet n ks)).map (fun i => ((cd.map (row r))[i]?).map (prep i))
        = (((kept n (skipSet n ks)).map (fun i => (cd.getD i []).map (prep i))).map (row r)).map some := by
      rw [← hn, List.map_map, List.map_map]
      apply List.map_congr_left
      intro i hi
      have hlt := hall i hi
      have hl : (cd.getD i []).length = R := by
        simp only [List.getD_eq_getElem?_getD, List.getElem?_eq_getElem hlt, Option.getD_some]
        exact hR _ (List.getElem_mem hlt)
      simp only [Function.comp_apply, List.getElem?_map, List.getElem?_eq_getElem hlt, Option.map_some]
      rw [row_map r _ _ (by omega)]
      simp [List.getD_eq_getElem?_getD, List.getElem?_eq_getElem hlt]
    rw [this, allSome_map_some]
    rfl
  · -- an array is missing: the comprehension raises, and so does every row of the model
    have hex : ∃ i, i ∈ kept n (skipSet n ks) ∧ cd.length ≤ i := by
      by_contra hc
      exact hall (fun i hi => by
        by_contra hlt
        exact hc ⟨i, hi, by omega⟩)
    obtain ⟨i, hi, hle⟩ := hex
    rw [allSome_none_of_mem _ (by
      apply List.mem_map.2
      exact ⟨i, hi, by simp [List.getElem?_eq_none hle]⟩)]
    simp only [Option.bind_none]
    symm
    apply allSome_replicate_none _ (by simp; omega)
    intro r _
    unfold prepareRow
    rw [allSome_none_of_mem _ (by
      apply List.mem_map.2
      exact ⟨i, by rw [← hn]; exact hi, by simp [List.getElem?_eq_none hle]⟩)]
    rfl

theorem splitMat_length {β : Type} (skip : Nat → Bool) (X : List (List β)) (k : Nat) (ws : List Nat) (col : Nat) :
    (splitMat skip X k ws col).length = (keptWidths skip k ws).length := by
  induction ws generalizing k col with
  | nil => rfl
  | cons w ws ih =>
    by_cases hs : skip k
    · simp [splitMat, keptWidths, hs, ih]
    · simp [splitMat, keptWidths, hs, ih]

theorem keptWidths_length (skip : Nat → Bool) (ws : List Nat) :
    (keptWidths skip 0 ws).length = (kept ws.length skip).length := by
  rw [keptWidths_eq]
  simp [kept]

/-- **`FusionART.restore_data(X, skip_channels)` = `Fusion.restoreRow`, row by row**: the call never raises, and row
`r` of the returned arrays is the model's restore of row `r` of `X` (kept channel `i` is paired with its position in
the split list; module `i`'s `restore_data` acts row by row as `rest i`). -/
theorem restore_data_spec (ops2 : ModOps2 M α) (modules : List M) (ws : List Nat) (n : Nat) (chIdx : List (Nat × Nat))
    (hn : n = ws.length) (hm : modules.length = n) (hch : chIdx = positions ws) (rest : Nat → List α → List α)
    (hRs : ∀ (i : Nat) m, modules[i]? = some m → ∀ A, ops2.restore_data m A = A.map (rest i))
    (X : List (List α)) (ks : List Int) (hnn : ∀ k ∈ ks, 0 ≤ normIdx n k) :
    ∃ Rs, restore_data ops2 modules n chIdx X ks = some Rs ∧ (∀ A ∈ Rs, A.length = X.length) ∧
      ∀ r, r < X.length → restoreRow rest ws (skipSet n ks) (row r X) = some (Rs.map (row r)) := by
  have hsk := skipSet_normIdx n ks hnn
  have hmem : ∀ i ∈ kept n (skipSet n ks), i < n := by
    intro i hi
    simp only [kept, List.mem_filter, List.mem_range] at hi
    exact hi.1
  have hSl : (splitMat (skipSet n ks) X 0 ws 0).length = (kept n (skipSet n ks)).length := by
    rw [splitMat_length, keptWidths_length, hn]
  refine ⟨(kept n (skipSet n ks)).zipIdx.map (fun ip =>
    ((splitMat (skipSet n ks) X 0 ws 0).getD ip.2 []).map (rest ip.1)), ?_, ?_, ?_⟩
  rotate_left
  · intro A hA
    obtain ⟨ip, hip, rfl⟩ := List.mem_map.1 hA
    have hpos : ip.2 < (kept n (skipSet n ks)).length := by
      have := List.snd_lt_of_mem_zipIdx hip
      simpa using this
    have hps : ip.2 < (splitMat (skipSet n ks) X 0 ws 0).length := by omega
    simp only [List.length_map, List.getD_eq_getElem?_getD, List.getElem?_eq_getElem hps, Option.getD_some]
    exact splitMat_rowcount _ _ _ _ _ _ (List.getElem_mem hps)
  rotate_left
  · unfold restore_data
    rw [norm_mapM]
    simp only [Option.bind_eq_bind, Option.bind_some]
    rw [split_channel_data_spec ws n chIdx hn hch X (ks.map (normIdx n)), hsk]
    have hf : (List.range n).filter (fun i => !((ks.map (normIdx n)).contains (Int.ofNat i))) = kept n (skipSet n ks) := rfl
    rw [hf, mapM_some_of_forall (g := fun i => i) (by intro a _; rfl)]
    simp only [Option.bind_some, List.map_id']
    rw [mapM_some_of_forall (g := fun ip : Nat × Nat =>
      ((splitMat (skipSet n ks) X 0 ws 0).getD ip.2 []).map (rest ip.1))]
    · rfl
    · intro ip hip
      obtain ⟨i, pos⟩ := ip
      have hi : i ∈ kept n (skipSet n ks) := by
        have := List.fst_mem_of_mem_zipIdx hip
        simpa using this
      have hpos : pos < (kept n (skipSet n ks)).length := by
        have := List.snd_lt_of_mem_zipIdx hip
        simpa using this
      have hlt' : i < modules.length := by have := hmem i hi; omega
      have him : modules[i]? = some (modules[i]'hlt') := List.getElem?_eq_getElem hlt'
      have hps : pos < (splitMat (skipSet n ks) X 0 ws 0).length := by omega
      simp [him, List.getElem?_eq_getElem hps, hRs i _ him, List.getD_eq_getElem?_getD]
  · intro r hr
    unfold restoreRow splitRow
    simp only []
    have hsr : splitFrom (skipSet n ks) 0 ws (row r X) = (splitMat (skipSet n ks) X 0 ws 0).map (row r) := by
      rw [splitMat_rows]; simp
    rw [← hn, hsr]
    rw [List.map_map, ← allSome_map_some, List.map_map]
    congr 1
    apply List.map_congr_left
    intro ip hip
    have hpos : ip.2 < (kept n (skipSet n ks)).length := by
      have := List.snd_lt_of_mem_zipIdx hip
      simpa using this
    have hps : ip.2 < (splitMat (skipSet n ks) X 0 ws 0).length := by omega
    have hl : ((splitMat (skipSet n ks) X 0 ws 0)[ip.2]).length = X.length :=
      splitMat_rowcount _ _ _ _ _ _ (List.getElem_mem hps)
    simp only [Function.comp_apply, List.getElem?_map, List.getElem?_eq_getElem hps, Option.map_some,
      List.getD_eq_getElem?_getD, Option.getD_some]
    rw [row_map r _ _ (by omega)]

/-- **C11 `restore_prepare`, for the generated code: `restore_data ∘ prepare_data = id` on the supplied channels**, for
any set of skipped channels: when every kept module's row-wise `restore_data` inverts its `prepare_data` (`hinv`, C18)
and prepared rows have the channel width, `restore_data(prepare_data(data, skip), skip)` returns the supplied arrays of
the kept channels, in order. -/
theorem gen_restore_prepare (ops2 : ModOps2 M α) (modules : List M) (ws : List Nat) (n : Nat) (chIdx : List (Nat × Nat))
    (hn : n = ws.length) (hm : modules.length = n) (hch : chIdx = positions ws) (prep rest : Nat → List α → List α)
    (hP : ∀ (i : Nat) m, modules[i]? = some m → ∀ A, ops2.prepare_data m A = A.map (prep i))
    (hRs : ∀ (i : Nat) m, modules[i]? = some m → ∀ A, ops2.restore_data m A = A.map (rest i))
    (cd : List (List (List α))) (hd : cd.length = ws.length) (R : Nat) (hR : ∀ A ∈ cd, A.length = R) (hR0 : 0 < R)
    (ks : List Int) (hnn : ∀ k ∈ ks, 0 ≤ normIdx n k) (hkept : kept n (skipSet n ks) ≠ [])
    (hwid : ∀ i, i < ws.length → skipSet n ks i = false → ∀ r, r < R →
      (prep i (row r (cd.getD i []))).length = ws.getD i 0)
    (hinv : ∀ i, i < ws.length → skipSet n ks i = false → ∀ r, r < R →
      rest i (prep i (row r (cd.getD i []))) = row r (cd.getD i [])) :
    ∃ X, prepare_data ops2 modules n chIdx cd ks = some X ∧
      restore_data ops2 modules n chIdx X ks = some ((kept n (skipSet n ks)).map (fun i => cd.getD i [])) := by
  have hgd : ∀ r i, (cd.map (row r)).getD i [] = row r (cd.getD i []) := by
    intro r i
    simp only [List.getD_eq_getElem?_getD, List.getElem?_map]
    cases cd[i]? <;> simp [row]
  have hrp := fun r (hr : r < R) => C11.restore_prepare prep rest ws (skipSet n ks) (fillerVal α) (cd.map (row r))
    (by simpa using hd) (fun i hi hs => by rw [hgd]; exact hwid i hi hs r hr)
    (fun i hi hs => by rw [hgd]; exact hinv i hi hs r hr)
  have hprep : prepare_data ops2 modules n chIdx cd ks = some ((List.range R).map (fun r =>
      (prepareRow prep ws (skipSet n ks) (fillerVal α) (cd.map (row r))).getD [])) := by
    rw [prepare_data_spec ops2 modules ws n chIdx hn hm hch prep hP cd R hR hR0 ks hnn hkept, allSome_eq_some_iff,
      List.map_map]
    apply List.map_congr_left
    intro r hr
    obtain ⟨v, hv, -⟩ := hrp r (List.mem_range.1 hr)
    simp only [Function.comp_apply, hv, Option.getD_some]
  refine ⟨_, hprep, ?_⟩
  obtain ⟨Rs, hRs1, hRs2, hRs3⟩ := restore_data_spec ops2 modules ws n chIdx hn hm hch rest hRs
    ((List.range R).map (fun r => (prepareRow prep ws (skipSet n ks) (fillerVal α) (cd.map (row r))).getD [])) ks hnn
  rw [hRs1]
  congr 1
  apply cube_ext R hR0 Rs _ (fun A hA => by simpa using hRs2 A hA)
  · intro A hA
    obtain ⟨i, hi, rfl⟩ := List.mem_map.1 hA
    have hlt : i < cd.length := by
      simp only [kept, List.mem_filter, List.mem_range] at hi
      omega
    simp only [List.getD_eq_getElem?_getD, List.getElem?_eq_getElem hlt, Option.getD_some]
    exact hR _ (List.getElem_mem hlt)
  · intro r hr
    obtain ⟨v, hv, hres⟩ := hrp r hr
    have h3 := hRs3 r (by simpa using hr)
    rw [row_range_map _ _ _ hr, hv, Option.getD_some, hres, ← hn] at h3
    have := Option.some.inj h3
    rw [← this, List.map_map]
    apply List.map_congr_left
    intro i _
    exact hgd r i

end PrepGen

section Centres
variable {M P C Op α : Type} [Add α] [Mul α] [Div α] [Zero α] [One α] [LT α] [DecidableRel (α := α) (· < ·)]

/-- **`FusionART.n_clusters`** = the first module's `n_clusters` (raises without modules) -/
theorem n_clusters_spec (ops : ModOps M α P C Op) (modules : List M) :
    n_clusters ops modules = (modules[0]?).map ops.n_clusters := by
  unfold n_clusters
  cases modules[0]? <;> rfl

/-- **`FusionART.get_cluster_centers`**: centre `i` of the fused estimator is the concatenation, over the channels, of
the modules' `i`-th centres (the same shape as the `W` property, `Art.GenSpec.fusion_W_get`) -/
theorem get_cluster_centers_spec (ops : ModOps M α P C Op) (ops2 : ModOps2 M α) (modules : List M) (n : Nat)
    (hn : n = modules.length) (m0 : M) (h0 : modules[0]? = some m0)
    (hlen : ∀ m ∈ modules, ops.n_clusters m0 ≤ (ops2.get_cluster_centers m).length) :
    get_cluster_centers ops ops2 modules n
      = some ((List.range (ops.n_clusters m0)).map (fun i =>
          (modules.map (fun m => (ops2.get_cluster_centers m).getD i [])).flatten)) := by
  subst hn
  unfold get_cluster_centers n_clusters
  rw [mapM_some_of_forall (g := ops2.get_cluster_centers) (by intro a _; rfl)]
  simp only [Option.bind_eq_bind, h0, Option.bind_some, pure]
  rw [mapM_some_of_forall (g := fun i => (modules.map (fun m => (ops2.get_cluster_centers m).getD i [])).flatten)]
  · rfl
  · intro i hi
    have hi' : i < ops.n_clusters m0 := List.mem_range.1 hi
    rw [mapM_some_of_forall (g := fun k => ((modules[k]?).map (fun m => (ops2.get_cluster_centers m).getD i [])).getD [])]
    · simp only [Option.bind_some]
      congr 2
      apply List.ext_getElem?
      intro k
      by_cases hk : k < modules.length
      · simp [hk]
      · simp [hk]
    · intro k hk
      have hk' : k < modules.length := List.mem_range.1 hk
      have hm : modules[k]? = some modules[k] := List.getElem?_eq_getElem hk'
      have hl := hlen modules[k] (List.getElem_mem hk')
      have : i < (ops2.get_cluster_centers modules[k]).length := by omega
      simp [hm, this]

end Centres

/-! ### the hypotheses are satisfiable, and the generated code runs: two FuzzyART channels over ℚ, two categories -/
section Example

/-- module objects = weight lists (see `Art.GenSpec.exOps`): category 0 and category 1 of each channel -/
def exMods : List (List (List ℚ)) :=
  [[[1/2, 1/4, 1/2, 3/4], [1, 0, 0, 1]], [[1/4, 1/4, 3/4, 3/4], [0, 1, 1, 0]]]

def exOps2 : ModOps2 (List (List ℚ)) ℚ :=
  { get_cluster_centers := fun m => m.map fuzzyCentre
    prepare_data := fun _ A => A.map (fun v => v ++ vcompl v)
    restore_data := fun _ A => A.map fuzzyCentre }

def exIdx : List (Nat × Nat) := get_channel_position_tuples [4, 4]

/-- the fused weight list the `W` property assembles -/
def exW : List (List ℚ) := [[1/2, 1/4, 1/2, 3/4, 1/4, 1/4, 3/4, 3/4], [1, 0, 0, 1, 0, 1, 1, 0]]

example : W_get exOps exMods 2 = some exW := by decide +kernel

/-- the hypotheses of the `*_spec` theorems hold for this instance -/
example : Layout exChans exMods 2 exIdx exIdx [1/4, 3/4] :=
  ⟨rfl, rfl, by rw [exIdx, fusion_positions]; rfl, by rw [exIdx, fusion_positions]; rfl, rfl⟩
example : ∀ (k : Nat) m, exMods[k]? = some m → exOps.W m = exW.map (slice (wlens exChans) k) := by
  intro k m h
  match k, h with
  | 0, h => simp [exMods] at h; subst h; decide +kernel
  | 1, h => simp [exMods] at h; subst h; decide +kernel
  | k + 2, h => simp [exMods] at h

/-- the generated `predict`: all channels; the last channel withheld (index -1, any values in its columns);
channel 0 withheld -/
example : Gen.FusionARTPredict.predict exOps exMods 2 exIdx exIdx [1/4, 3/4] false
    [[1/2, 1/4, 1/2, 3/4, 0, 1, 1, 0], [1, 0, 0, 1, 1/4, 1/4, 3/4, 3/4]] [] = some [1, 0] := by decide +kernel
example : Gen.FusionARTPredict.predict exOps exMods 2 exIdx exIdx [1/4, 3/4] false
    [[1/2, 1/4, 1/2, 3/4, 0, 1, 1, 0], [1, 0, 0, 1, 7, 7, 7, 7]] [-1] = some [0, 1] := by decide +kernel
example : Gen.FusionARTPredict.predict exOps exMods 2 exIdx exIdx [1/4, 3/4] false
    [[1/2, 1/4, 1/2, 3/4, 0, 1, 1, 0]] [0] = some [1] := by decide +kernel
/-- the generated `predict_regression`: default target `[-1]` (one 2-d array), two targets (one array per target) -/
example : predict_regression exOps exOps2 exMods 2 exIdx exIdx [1/4, 3/4] false
    [[1/2, 1/4, 1/2, 3/4, 0, 0, 0, 0], [1, 0, 0, 1, 0, 0, 0, 0]] [-1] = some (Sum.inl [[1/4, 1/4], [0, 1]]) := by
  decide +kernel
example : predict_regression exOps exOps2 exMods 2 exIdx exIdx [1/4, 3/4] false
    [[1/2, 1/4, 1/2, 3/4, 0, 0, 0, 0]] [1, 0] = some (Sum.inr [[[1/4, 1/4]], [[1/2, 1/4]]]) := by
  decide +kernel
/-- the generated `join_channel_data` / `split_channel_data` with the middle channel of three withheld -/
example : join_channel_data 3 (get_channel_position_tuples [2, 2, 2]) [[[0, 1], [1, 0]], [[1/4, 3/4], [3/4, 1/4]]] [1]
    = some [[0, 1, (1/2 : ℚ), 1/2, 1/4, 3/4], [1, 0, 1/2, 1/2, 3/4, 1/4]] := by decide +kernel
example : split_channel_data 3 (get_channel_position_tuples [2, 2, 2])
    [[0, 1, (1/2 : ℚ), 1/2, 1/4, 3/4], [1, 0, 1/2, 1/2, 3/4, 1/4]] [-2]
    = some [[[0, 1], [1, 0]], [[1/4, 3/4], [3/4, 1/4]]] := by decide +kernel
/-- the generated `prepare_data` / `restore_data` (complement coding / its inverse per channel), channel 0 withheld -/
example : prepare_data exOps2 exMods 2 (get_channel_position_tuples [2, 2]) [[], [[1/4], [3/4]]] [0]
    = some [[1/2, 1/2, 1/4, 3/4], [1/2, 1/2, 3/4, 1/4]] := by decide +kernel
example : restore_data exOps2 exMods 2 (get_channel_position_tuples [2, 2])
    [[1/2, 1/2, 1/4, 3/4], [1/2, 1/2, 3/4, 1/4]] [-2] = some [[[1/4], [3/4]]] := by decide +kernel
/-- the generated `get_cluster_centers` / `get_channel_centers` / `n_clusters` -/
example : get_cluster_centers exOps exOps2 exMods 2 = some [[1/2, 1/4, 1/4, 1/4], [1, 0, 0, 1]] := by decide +kernel
example : get_channel_centers exOps2 exMods (-1) = some [[1/4, 1/4], [0, 1]] := by decide +kernel
example : n_clusters exOps exMods = some 2 := by decide +kernel
/-- too few arrays supplied: the call raises -/
example : join_channel_data 3 (get_channel_position_tuples [2, 2, 2]) [[[(0 : ℚ), 1]]] [1] = none := by decide +kernel

end Example

end Art.GenSpec.FusionPredict
