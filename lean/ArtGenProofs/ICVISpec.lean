/-
ArtGenProofs.ICVISpec — the incremental Calinski-Harabasz index `iCVI_CH`, as translated from the Python source by
`harness/artv/itrans.py` (ArtGen/ICVI.lean), computes the definitions of `ArtModel/ICVI.lean` that the C15 property
theorems are stated about — for every dimension, every state, every sample and label, no bounds.

The generated code keeps its data the way the Python does: `self.CD` is an association list label -> string-keyed
dict, the candidate parameters are a string-keyed dict of `Imp.Val`.  The model uses records.  The tie is therefore
stated through the encoding `RepState` / `RepCD` / `RepClu` / `RepCand` ("this dict, read at these keys, is that
record"; the order of the string keys inside one dict is left free because the Python code inserts them in different
orders in different methods and never iterates over them; the order of the *labels* in `self.CD` is pinned):

  delta_add_spec / delta_remove_spec   the two helpers = deltaAdd / deltaRemove
  init_spec             iCVI_CH(x) represents `init (len x)`
  add_sample_spec       RepState s st  ->  add_sample s x l returns a dict representing `addSample st x l`
  remove_sample_spec    … remove_sample … `removeSample st x l` (on states with n_samples ≥ 1, see the theorem)
  remove_sample_core    the cluster part of remove_sample = `cluRemove`, on every state
  switch_label_spec     … switch_label … `switchLabel st x lo ln` whenever the model returns a record
  switch_label_none     … and raises (`none`) whenever the model says the Python raises
  update_spec           committing a dict that represents `c` yields a state representing `update st c`
  genReach_rep          any permitted history run on the GENERATED functions stays in the encoding of the same
                        history run on the model (`Reach`)
  gen_criterion_eq_batch / gen_add_candidate_eq_batch / gen_switch_defined / gen_tracks_online
                        C15's "incremental = batch" theorems, stated about folds of the generated functions

Proof method: a small symbolic executor (`Good`, `istep`) runs each generated `do` block from the head, statement by
statement; dict reads are discharged from the encoding hypotheses, the `SEP` loops by `good_foldlM`, and the final
dict is compared with the model's record by `simp`.  Division is α's `/` on both sides (a total function of the field;
float division by zero and rounding are outside these theorems, as in C15).
-/
import Mathlib.Algebra.Order.Field.Rat
import Mathlib.Tactic.NormNum
import Mathlib.Tactic.Ring
import Mathlib.Tactic.Push
import ArtGen.ICVI
import ArtProofs.ICVI
import ArtProps.C15

set_option linter.unusedSectionVars false
set_option linter.unusedVariables false
set_option linter.unusedSimpArgs false

namespace Art.GenSpec.ICVI
open Art Art.ICVI Art.Imp

/-! ### the encoding -/

section Rep
variable {α : Type}

/-- a `{"n", "v", "CP", "G"}` dict represents the model's `Clu` record -/
def RepClu [NatCast α] (d : Imp.Dict α) (c : Clu α) : Prop :=
  Imp.aget d "n" = some (.int c.n) ∧ Imp.aget d "v" = some (.vec c.v) ∧
    Imp.aget d "CP" = some (.num c.CP) ∧ Imp.aget d "G" = some (.vec c.G)

/-- `self.CD`: same labels in the same order, entry by entry -/
def RepCD [NatCast α] : List (Nat × Imp.Dict α) → List (Nat × Clu α) → Prop
  | [], [] => True
  | (k, d) :: g, (l, c) :: m => k = l ∧ RepClu d c ∧ RepCD g m
  | _, _ => False

/-- the attributes of the object -/
structure RepState [NatCast α] (s : Gen.ICVI.Self α) (st : State α) : Prop where
  dim : s.dim = st.dim
  n : s.n_samples = st.n
  mu : s.mu = st.mu
  cd : RepCD s.CD st.CD
  nodup : (st.CD.map (·.1)).Nodup
  wgss : s.WGSS = st.WGSS
  crit : s.criterion_value = st.crit

/-- the candidate-parameter dict `newP` -/
def RepCand [NatCast α] (p : Imp.Dict α) (c : Cand α) : Prop :=
  Imp.aget p "label" = some (.key c.label) ∧ Imp.aget p "n_samples" = some (.int c.n) ∧
  Imp.aget p "mu" = some (.vec c.mu) ∧ (∃ d, Imp.aget p "CD" = some (.dict d) ∧ RepClu d c.CD) ∧
  Imp.aget p "CP_diff" = some (.num c.CPdiff) ∧ Imp.aget p "criterion_value" = some (.num c.crit) ∧
  match c.second with
  | none => Imp.ahas p "label2" = false
  | some (l2, c2, d2) =>
    Imp.ahas p "label2" = true ∧ Imp.aget p "label2" = some (.key l2) ∧
      (∃ d, Imp.aget p "CD2" = some (.dict d) ∧ RepClu d c2) ∧ Imp.aget p "CP_diff2" = some (.num d2)

end Rep

/-! ### association lists -/

section Assoc
variable {α : Type} [NatCast α]

theorem repCD_length : ∀ {g : List (Nat × Imp.Dict α)} {m : List (Nat × Clu α)}, RepCD g m → g.length = m.length
  | [], [], _ => rfl
  | (_, _) :: g, (_, _) :: m, h => by simp [repCD_length h.2.2]
  | [], _ :: _, h => h.elim
  | _ :: _, [], h => h.elim

theorem repCD_keys : ∀ {g : List (Nat × Imp.Dict α)} {m : List (Nat × Clu α)}, RepCD g m →
    Imp.akeys g = m.map (·.1)
  | [], [], _ => rfl
  | (_, _) :: g, (_, _) :: m, h => by
    have := repCD_keys h.2.2
    simp only [Imp.akeys] at this
    simp [Imp.akeys, h.1, this]
  | [], _ :: _, h => h.elim
  | _ :: _, [], h => h.elim

theorem repCD_none : ∀ {g : List (Nat × Imp.Dict α)} {m : List (Nat × Clu α)} {l : Nat}, RepCD g m →
    lookup m l = none → Imp.ahas g l = false ∧ Imp.aget g l = none
  | [], [], _, _, _ => ⟨rfl, rfl⟩
  | (k, _) :: g, (k', _) :: m, l, h, hl => by
    obtain ⟨rfl, _, h3⟩ := h
    simp only [lookup] at hl
    by_cases hk : k = l
    · simp [hk] at hl
    · simp only [hk, if_false] at hl
      simpa [Imp.ahas, Imp.aget, hk] using repCD_none h3 hl
  | [], _ :: _, _, h, _ => h.elim
  | _ :: _, [], _, h, _ => h.elim

theorem repCD_some : ∀ {g : List (Nat × Imp.Dict α)} {m : List (Nat × Clu α)} {l : Nat} {c : Clu α}, RepCD g m →
    lookup m l = some c → Imp.ahas g l = true ∧ ∃ d, Imp.aget g l = some d ∧ RepClu d c
  | [], [], _, _, _, hl => by simp [lookup] at hl
  | (k, d) :: g, (k', c') :: m, l, c, h, hl => by
    obtain ⟨rfl, h2, h3⟩ := h
    simp only [lookup] at hl
    by_cases hk : k = l
    · simp only [hk, if_true, Option.some.injEq] at hl
      subst hl
      exact ⟨by simp [Imp.ahas, hk], d, by simp [Imp.aget, hk], h2⟩
    · simp only [hk, if_false] at hl
      simpa [Imp.ahas, Imp.aget, hk] using repCD_some h3 hl
  | [], _ :: _, _, _, h, _ => h.elim
  | _ :: _, [], _, _, h, _ => h.elim

theorem repCD_set : ∀ {g : List (Nat × Imp.Dict α)} {m : List (Nat × Clu α)} (l : Nat) {d : Imp.Dict α} {c : Clu α},
    RepCD g m → RepClu d c → RepCD (Imp.aset g l d) (setCD m l c)
  | [], [], _, _, _, _, hd => ⟨rfl, hd, trivial⟩
  | (k, _) :: g, (k', _) :: m, l, _, _, h, hd => by
    obtain ⟨rfl, h2, h3⟩ := h
    by_cases hk : k = l
    · simp only [Imp.aset, setCD, hk, if_true]; exact ⟨rfl, hd, h3⟩
    · simp only [Imp.aset, setCD, hk, if_false]; exact ⟨rfl, h2, repCD_set l h3 hd⟩
  | [], _ :: _, _, _, _, h, _ => h.elim
  | _ :: _, [], _, _, _, h, _ => h.elim

theorem setCD_keys {β : Type} (m : List (Nat × Clu β)) (l : Nat) (c : Clu β) :
    (setCD m l c).map (·.1) = if l ∈ m.map (·.1) then m.map (·.1) else m.map (·.1) ++ [l] := by
  induction m with
  | nil => simp [setCD]
  | cons e m ih =>
    obtain ⟨k, c0⟩ := e
    by_cases hk : k = l
    · simp [setCD, hk]
    · have hk' : ¬ l = k := fun h => hk h.symm
      simp only [setCD, hk, if_false, List.map_cons, ih, List.mem_cons, hk', false_or]
      split <;> simp

theorem setCD_nodup {β : Type} {m : List (Nat × Clu β)} (h : (m.map (·.1)).Nodup) (l : Nat) (c : Clu β) :
    ((setCD m l c).map (·.1)).Nodup := by
  rw [setCD_keys]
  split
  · exact h
  · rename_i hl
    exact List.Nodup.append h (by simp) (by simpa using hl)

theorem lookup_of_mem {β : Type} {m : List (Nat × Clu β)} (h : (m.map (·.1)).Nodup) {e : Nat × Clu β}
    (he : e ∈ m) : lookup m e.1 = some e.2 := by
  induction m with
  | nil => simp at he
  | cons a m ih =>
    obtain ⟨k, c0⟩ := a
    simp only [List.map_cons, List.nodup_cons] at h
    rcases List.mem_cons.mp he with rfl | he
    · simp [lookup]
    · have : k ≠ e.1 := fun hk => h.1 (hk ▸ List.mem_map.mpr ⟨e, he, rfl⟩)
      simp [lookup, this, ih h.2 he]

/-- the shape of every `SEP` loop: each iteration appends one term -/
theorem foldlM_keys {β γ : Type} (m : List (Nat × γ)) (body : List β → Nat → Option (List β)) (F : Nat × γ → β)
    (h : ∀ e ∈ m, ∀ acc, body acc e.1 = some (acc ++ [F e])) (acc : List β) :
    (m.map (·.1)).foldlM body acc = some (acc ++ m.map F) := by
  induction m generalizing acc with
  | nil => simp
  | cons e m ih =>
    simp only [List.map_cons, List.foldlM_cons, h e (by simp), Option.bind_eq_bind, Option.bind_some]
    rw [ih (fun e' he' => h e' (by simp [he']))]
    simp

end Assoc

/-! ### numbers -/

section Num
variable {α : Type} [Field α]

theorem foldl_add (l : List α) (a : α) : l.foldl (· + ·) a = a + vsum l := by
  induction l generalizing a with
  | nil => simp [vsum]
  | cons b l ih => simp [vsum, ih, add_assoc]

theorem pySum_eq (l : List α) : Imp.pySum l = vsum l := by simp [Imp.pySum, foldl_add]

theorem pySum_vsq (v : List α) : Imp.pySum (Imp.vsq v) = l2sq v := by
  rw [pySum_eq, l2sq, dot, vmul, List.zipWith_self]; rfl

theorem vdivs_eq (v : List α) (c : α) : Imp.vdivs v c = Art.ICVI.vdivs v c := rfl

theorem npZeros_nat (d : Nat) : (Imp.npZeros (d : Int) : Option (List α)) = some (vzero d) := by
  simp [Imp.npZeros, vzero]

end Num

/-! ### a small symbolic executor for the generated `Option` programs

`Good R o` = the computation `o` returns a value satisfying `R`.  The rules below run a generated `do` block from the
head (continuation-passing: the post-condition of a bound computation is "the rest of the block is `Good`"), so a
proof follows the Python control flow statement by statement. -/

section Good
variable {β γ : Type}

/-- the computation returns (does not raise) and its value satisfies `R` -/
def Good (R : β → Prop) (o : Option β) : Prop := ∃ p, o = some p ∧ R p

theorem good_bind {R : γ → Prop} {X : Option β} {f : β → Option γ}
    (h : Good (fun v => Good R (f v)) X) : Good R (X >>= f) := by
  obtain ⟨v, rfl, p, hp, hR⟩ := h
  exact ⟨p, hp, hR⟩

theorem good_pure {R : β → Prop} {v : β} (h : R v) : Good R (pure v) := ⟨v, rfl, h⟩

theorem good_eq {R : β → Prop} {X : Option β} (v : β) (hX : X = some v) (h : R v) : Good R X := ⟨v, hX, h⟩

theorem good_ite_pos {R : β → Prop} {c : Prop} [Decidable c] {A B : Option β} (hc : c) (h : Good R A) :
    Good R (ite c A B) := by rw [if_pos hc]; exact h

theorem good_ite_neg {R : β → Prop} {c : Prop} [Decidable c] {A B : Option β} (hc : ¬ c) (h : Good R B) :
    Good R (ite c A B) := by rw [if_neg hc]; exact h

theorem good_ite {R : β → Prop} {c : Prop} [Decidable c] {A B : Option β} (h1 : c → Good R A)
    (h2 : ¬ c → Good R B) : Good R (ite c A B) := by
  by_cases hc : c
  · rw [if_pos hc]; exact h1 hc
  · rw [if_neg hc]; exact h2 hc

theorem eq_of_good {X : Option β} {w : β} (h : Good (fun v => v = w) X) : X = some w := by
  obtain ⟨p, hp, rfl⟩ := h; exact hp

theorem good_mono {R R' : β → Prop} {X : Option β} (h : Good R X) (hR : ∀ v, R v → R' v) : Good R' X := by
  obtain ⟨p, hp, hr⟩ := h; exact ⟨p, hp, hR p hr⟩

theorem good_foldlM {R : List β → Prop} {m : List (Nat × γ)} {keys : List Nat}
    {body : List β → Nat → Option (List β)} {init : List β}
    (hkeys : keys = m.map (·.1)) (F : Nat × γ → β)
    (hbody : ∀ e ∈ m, ∀ acc, Good (fun v => v = acc ++ [F e]) (body acc e.1))
    (h : R (init ++ m.map F)) : Good R (List.foldlM body init keys) :=
  ⟨_, by rw [hkeys]; exact foldlM_keys m body F (fun e he acc => eq_of_good (hbody e he acc)) init, h⟩

theorem bind_of_eq {X : Option β} {f : β → Option γ} {v : β} (h : X = some v) : (X >>= f) = f v := by
  rw [h]; rfl

end Good

section Eval
variable {α : Type}

@[simp] theorem asVec_vec (v : List α) : (Val.vec v : Val α).asVec = some v := rfl
@[simp] theorem asInt_int (v : Int) : (Val.int v : Val α).asInt = some v := rfl
@[simp] theorem asNum_num (v : α) : (Val.num v : Val α).asNum = some v := rfl
@[simp] theorem asKey_key (v : Nat) : (Val.key v : Val α).asKey = some v := rfl
@[simp] theorem asDict_dict (v : Imp.Dict α) : (Val.dict v : Val α).asDict = some v := rfl

variable [Field α] [DecidableEq α]

theorem delta_add_eval (avg x : List α) (i : Int) :
    Gen.ICVI.delta_add_sample_to_average avg x i = some (Art.ICVI.vdivs (vsub x avg) (i : α)) := rfl

theorem delta_remove_eval (avg x : List α) (i : Int) :
    Gen.ICVI.delta_remove_sample_from_average avg x i
      = some (Art.ICVI.vdivs (vsub avg x) (((i - 1 : Int)) : α)) := rfl

theorem vsum_vsq (v : List α) : vsum (Imp.vsq v) = l2sq v := by rw [← pySum_eq, pySum_vsq]

end Eval

/-- evaluate one atomic computation (a dict read, a projection, a translated helper) -/
macro "ieval" : tactic => `(tactic| first
  | assumption
  | (simp only [Imp.aget, Imp.aset, Imp.ahas, String.reduceEq, if_true, if_false, asVec_vec, asInt_int, asNum_num,
      asKey_key, asDict_dict, delta_add_eval, delta_remove_eval, npZeros_nat, *] <;> rfl))

/-- one step of the executor; a conditional is decided when its condition (or its negation) is a hypothesis -/
macro "istep" : tactic => `(tactic| first
  | refine good_bind ?_
  | refine good_pure ?_
  | refine good_ite_pos (by assumption) ?_
  | refine good_ite_neg (by assumption) ?_
  | refine good_eq _ (by ieval) ?_)

section Add
variable {α : Type} [Field α] [DecidableEq α]

set_option hygiene false in
/-- the tail of every path through `add_sample`: compare the final dict with the model's record -/
macro "add_close" : tactic => `(tactic| (
  dsimp only at hk hw ⊢
  rw [hlen] at hk
  norm_cast at hk
  try simp [addSample, hl, hm, cluAdd, deltaAdd, vdivs_eq, one_add_one_eq_two] at hw
  simp only [Imp.aset, String.reduceEq, if_true, if_false]
  simp [RepCand, RepClu, Imp.aget, Imp.ahas, addSample, hl, cluAdd, deltaAdd, chValue, vdivs_eq, hk, hm, hw, hlen,
    one_add_one_eq_two, vzero, pySum_eq, vsum_vsq, vsum]))

set_option hygiene false in
/-- every path through `add_sample`; `F` = the model's `SEP` term of one `self.CD` entry -/
macro "add_script" F:term : tactic => `(tactic| (
  (have hmz := hm
   rw [← List.length_eq_zero_iff, ← Int.natCast_eq_zero] at hmz
   repeat istep
   refine good_ite (fun hk => ?_) (fun hk => ?_)
   · repeat istep
     have hw := trivial
     add_close
   · repeat istep
     refine good_foldlM hkeys $F (fun e he acc => ?_) ?_
     · obtain ⟨d', hd', hn', hv', hle⟩ := hent e he
       refine good_ite (fun hc => ?_) (fun hc => ?_)
       · first
         | (exfalso; rw [hc, hl] at hle; cases hle; done)
         | (repeat istep
            dsimp only
            simp [hc, addSample, hl, hm, sepTerm, pySum_vsq, cluAdd, deltaAdd, vdivs_eq])
       · repeat istep
         dsimp only
         simp [hc, addSample, hl, hm, sepTerm, pySum_vsq, cluAdd, deltaAdd, vdivs_eq]
     · repeat istep
       refine good_ite (fun hw => ?_) (fun hw => ?_) <;>
       (repeat istep
        add_close))))

theorem entries_of_rep {sCD : List (Nat × Imp.Dict α)} {m : List (Nat × Clu α)} (hcd : RepCD sCD m)
    (hnd : (m.map (·.1)).Nodup) :
    ∀ e ∈ m, ∃ d, Imp.aget sCD e.1 = some d ∧ Imp.aget d "n" = some (.int e.2.n) ∧
      Imp.aget d "v" = some (.vec e.2.v) ∧ lookup m e.1 = some e.2 := by
  intro e he
  obtain ⟨_, d, hd, hn', hv', _, _⟩ := repCD_some hcd (lookup_of_mem hnd he)
  exact ⟨d, hd, hn', hv', lookup_of_mem hnd he⟩

theorem add_sample_new {sCD : List (Nat × Imp.Dict α)} {st : State α} (hcd : RepCD sCD st.CD)
    (hnd : (st.CD.map (·.1)).Nodup) (x : List α) (l : Nat) (hl : lookup st.CD l = none) :
    Good (fun p => RepCand p (addSample st x l))
      (Gen.ICVI.add_sample ⟨st.dim, st.n, st.mu, sCD, st.WGSS, st.crit⟩ x l) := by
  have hlen := repCD_length hcd
  have hkeys := repCD_keys hcd
  have hent := entries_of_rep hcd hnd
  unfold Gen.ICVI.add_sample
  dsimp only
  obtain ⟨hhas0, hget⟩ := repCD_none hcd hl
  have hhas : ¬ (ahas sCD l = true) := by simp [hhas0]
  by_cases hm : st.mu = []
  · add_script (fun e => sepTerm (addSample st x l).mu e.2.n e.2.v)
  · add_script (fun e => sepTerm (addSample st x l).mu e.2.n e.2.v)

theorem add_sample_old1 {sCD : List (Nat × Imp.Dict α)} {st : State α} (hcd : RepCD sCD st.CD)
    (hnd : (st.CD.map (·.1)).Nodup) (x : List α) (l : Nat) (data : Clu α) (hl : lookup st.CD l = some data)
    (hm : st.mu = []) :
    Good (fun p => RepCand p (addSample st x l))
      (Gen.ICVI.add_sample ⟨st.dim, st.n, st.mu, sCD, st.WGSS, st.crit⟩ x l) := by
  have hlen := repCD_length hcd
  have hkeys := repCD_keys hcd
  have hent := entries_of_rep hcd hnd
  unfold Gen.ICVI.add_sample
  dsimp only
  obtain ⟨hhas0, d, hget, hdn, hdv, hdcp, hdg⟩ := repCD_some hcd hl
  have hhas : ¬ ¬ (ahas sCD l = true) := not_not.mpr hhas0
  add_script (fun e => if e.1 = l then
    sepTerm (addSample st x l).mu (addSample st x l).CD.n (addSample st x l).CD.v
    else sepTerm (addSample st x l).mu e.2.n e.2.v)

theorem add_sample_old2 {sCD : List (Nat × Imp.Dict α)} {st : State α} (hcd : RepCD sCD st.CD)
    (hnd : (st.CD.map (·.1)).Nodup) (x : List α) (l : Nat) (data : Clu α) (hl : lookup st.CD l = some data)
    (hm : ¬ st.mu = []) :
    Good (fun p => RepCand p (addSample st x l))
      (Gen.ICVI.add_sample ⟨st.dim, st.n, st.mu, sCD, st.WGSS, st.crit⟩ x l) := by
  have hlen := repCD_length hcd
  have hkeys := repCD_keys hcd
  have hent := entries_of_rep hcd hnd
  unfold Gen.ICVI.add_sample
  dsimp only
  obtain ⟨hhas0, d, hget, hdn, hdv, hdcp, hdg⟩ := repCD_some hcd hl
  have hhas : ¬ ¬ (ahas sCD l = true) := not_not.mpr hhas0
  add_script (fun e => if e.1 = l then
    sepTerm (addSample st x l).mu (addSample st x l).CD.n (addSample st x l).CD.v
    else sepTerm (addSample st x l).mu e.2.n e.2.v)

/-- **`add_sample` = the model's `addSample`**, on every state, sample and label (new or existing): the generated
code does not raise and the dict it returns represents the model's candidate record. -/
theorem add_sample_spec {s : Gen.ICVI.Self α} {st : State α} (h : RepState s st) (x : List α) (l : Nat) :
    ∃ p, Gen.ICVI.add_sample s x l = some p ∧ RepCand p (addSample st x l) := by
  obtain ⟨sdim, sn, smu, sCD, sW, sc⟩ := s
  obtain ⟨hdim, hn, hmu, hcd, hnd, hw, hcr⟩ := h
  simp only at hdim hn hmu hcd hw hcr
  subst hdim hn hmu hw hcr
  cases hl : lookup st.CD l with
  | none => exact add_sample_new hcd hnd x l hl
  | some data =>
    by_cases hm : st.mu = []
    · exact add_sample_old1 hcd hnd x l data hl hm
    · exact add_sample_old2 hcd hnd x l data hl hm

end Add

section Remove
variable {α : Type} [Field α] [DecidableEq α]

/-- `chValue` with the sample count as the Python int it is in `remove_sample` (`self.n_samples - 1`) -/
def chValueZ (bgss wgss : α) (n : ℤ) (k : Nat) : α :=
  if k < 2 then 0
  else if wgss = 0 then 0
  else ((bgss / wgss) * ((n : α) - (k : α))) / ((k : α) - 1)

theorem chValueZ_nat (bgss wgss : α) (n k : Nat) : chValueZ bgss wgss (n : ℤ) k = chValue bgss wgss n k := by
  simp [chValueZ, chValue]

/-- what `remove_sample(x, l)` returns on a state whose entry for `l` is `data` (with more than one member): the
model's record, except that `n_samples` is the Python int `self.n_samples - 1` (no truncation at 0). -/
def RemPost (st : State α) (x : List α) (l : Nat) (data : Clu α) (p : Imp.Dict α) : Prop :=
  Imp.aget p "label" = some (.key l) ∧ Imp.aget p "n_samples" = some (.int ((st.n : ℤ) - 1)) ∧
  Imp.aget p "mu" = some (.vec (vsub st.mu (deltaRemove st.mu x st.n))) ∧
  (∃ d, Imp.aget p "CD" = some (.dict d) ∧ RepClu d (cluRemove data x).1) ∧
  Imp.aget p "CP_diff" = some (.num (cluRemove data x).2) ∧
  Imp.aget p "criterion_value" = some (.num (chValueZ
    (vsum (st.CD.map (fun e =>
      if e.1 = l then sepTerm (vsub st.mu (deltaRemove st.mu x st.n)) (cluRemove data x).1.n (cluRemove data x).1.v
      else sepTerm (vsub st.mu (deltaRemove st.mu x st.n)) e.2.n e.2.v)))
    (st.WGSS + (cluRemove data x).2) ((st.n : ℤ) - 1) st.CD.length)) ∧
  Imp.ahas p "label2" = false

set_option hygiene false in
macro "rem_close" : tactic => `(tactic| (
  try dsimp only at hk hw ⊢
  rw [hlen] at hk
  norm_cast at hk
  try simp [cluRemove, deltaRemove, vdivs_eq, one_add_one_eq_two, Nat.cast_pred hpos] at hw
  simp only [Imp.aset, String.reduceEq, if_true, if_false]
  simp [RemPost, RepClu, Imp.aget, Imp.ahas, cluRemove, deltaRemove, chValueZ, vdivs_eq, hk, hw, hlen,
    one_add_one_eq_two, pySum_eq, vsum_vsq, vsum, Nat.cast_pred hpos, hcast]))

theorem remove_sample_exec {sCD : List (Nat × Imp.Dict α)} {st : State α} (hcd : RepCD sCD st.CD)
    (hnd : (st.CD.map (·.1)).Nodup) (x : List α) (l : Nat) (data : Clu α) (hl : lookup st.CD l = some data)
    (hn1 : ¬ data.n ≤ 1) :
    Good (RemPost st x l data)
      (Gen.ICVI.remove_sample ⟨st.dim, st.n, st.mu, sCD, st.WGSS, st.crit⟩ x l) := by
  have hlen := repCD_length hcd
  have hkeys := repCD_keys hcd
  have hent := entries_of_rep hcd hnd
  have hpos : 0 < data.n := by omega
  have hcast : ((data.n - 1 : ℕ) : ℤ) = (data.n : ℤ) - 1 := by omega
  have hgt : ¬ ((data.n : ℤ) ≤ 1) := by omega
  unfold Gen.ICVI.remove_sample
  dsimp only
  obtain ⟨hhas0, d, hget, hdn, hdv, hdcp, hdg⟩ := repCD_some hcd hl
  repeat istep
  refine good_ite (fun hk => ?_) (fun hk => ?_)
  · repeat istep
    have hw := trivial
    rem_close
  · repeat istep
    refine good_foldlM hkeys (fun e =>
      if e.1 = l then sepTerm (vsub st.mu (deltaRemove st.mu x st.n)) (cluRemove data x).1.n (cluRemove data x).1.v
      else sepTerm (vsub st.mu (deltaRemove st.mu x st.n)) e.2.n e.2.v) (fun e he acc => ?_) ?_
    · obtain ⟨d', hd', hn', hv', hle⟩ := hent e he
      refine good_ite (fun hc => ?_) (fun hc => ?_)
      · repeat istep
        dsimp only
        simp [hc, sepTerm, pySum_vsq, cluRemove, deltaRemove, vdivs_eq, Nat.cast_pred hpos]
      · repeat istep
        dsimp only
        simp [hc, sepTerm, pySum_vsq, cluRemove, deltaRemove, vdivs_eq]
    · repeat istep
      refine good_ite (fun hw => ?_) (fun hw => ?_) <;>
      (repeat istep
       rem_close)

end Remove

section Switch
variable {α : Type} [Field α] [DecidableEq α]

/-- the part of `remove_sample`'s answer that `switch_label` uses (the new entry of the old cluster and its
`CP_diff`) is the model's `cluRemove` — on every state, also one whose `n_samples` is 0 -/
theorem remove_sample_core {s : Gen.ICVI.Self α} {st : State α} (h : RepState s st) (x : List α) (l : Nat)
    (data : Clu α) (hl : lookup st.CD l = some data) (hn1 : ¬ data.n ≤ 1) :
    ∃ p, Gen.ICVI.remove_sample s x l = some p ∧ ∃ d, Imp.aget p "CD" = some (.dict d) ∧
      RepClu d (cluRemove data x).1 ∧ Imp.aget p "CP_diff" = some (.num (cluRemove data x).2) := by
  obtain ⟨sdim, sn, smu, sCD, sW, sc⟩ := s
  obtain ⟨hdim, hn, hmu, hcd, hnd, hw, hcr⟩ := h
  simp only at hdim hn hmu hcd hw hcr
  subst hdim hn hmu hw hcr
  obtain ⟨p, hp, _, _, _, ⟨d, hd, hr⟩, h5, _, _⟩ := remove_sample_exec hcd hnd x l data hl hn1
  exact ⟨p, hp, d, hd, hr, h5⟩

/-- **`remove_sample` = the model's `removeSample`** wherever the model returns a record, on a state with at least
one sample (`n_samples - 1` is a Python int; the model's `Nat` subtraction agrees with it from 1 on) -/
theorem remove_sample_spec {s : Gen.ICVI.Self α} {st : State α} (h : RepState s st) (x : List α) (l : Nat)
    (c : Cand α) (hc : removeSample st x l = some c) (hpos : 0 < st.n) :
    ∃ p, Gen.ICVI.remove_sample s x l = some p ∧ RepCand p c := by
  obtain ⟨sdim, sn, smu, sCD, sW, sc⟩ := s
  obtain ⟨hdim, hn, hmu, hcd, hnd, hw, hcr⟩ := h
  simp only at hdim hn hmu hcd hw hcr
  subst hdim hn hmu hw hcr
  unfold removeSample at hc
  cases hl : lookup st.CD l with
  | none => simp [hl] at hc
  | some data =>
    simp only [hl] at hc
    by_cases hn1 : data.n ≤ 1
    · simp [hn1] at hc
    · simp only [hn1, if_false, Option.some.injEq] at hc
      obtain ⟨p, hp, h1, h2, h3, h4, h5, h6, h7⟩ := remove_sample_exec hcd hnd x l data hl hn1
      refine ⟨p, hp, ?_⟩
      subst hc
      have hz : ((st.n : ℤ) - 1) = ((st.n - 1 : ℕ) : ℤ) := by omega
      rw [hz] at h2 h6
      rw [chValueZ_nat] at h6
      exact ⟨h1, h2, h3, h4, h5, h6, h7⟩

set_option hygiene false in
macro "sw_close" : tactic => `(tactic| (
  try dsimp only at hk hw ⊢
  rw [hlen] at hk
  norm_cast at hk
  try simp at hw
  simp only [Imp.aset, String.reduceEq, if_true, if_false]
  simp [RepCand, Imp.aget, Imp.ahas, chValue, hk, hw, hlen, hRr, hRa, hln, pySum_eq, vsum_vsq, vsum]))

set_option hygiene false in
macro "sw_script" F:term : tactic => `(tactic| (
  repeat istep
  refine good_ite (fun hk => ?_) (fun hk => ?_)
  · repeat istep
    have hw := trivial
    sw_close
  · repeat istep
    refine good_foldlM hkeys $F (fun e he acc => ?_) ?_
    · obtain ⟨d', hd', hn', hv', hle⟩ := hent e he
      refine good_ite (fun hc1 => ?_) (fun hc1 => ?_)
      · repeat istep
        dsimp only
        simp [hc1, heq, sepTerm, pySum_vsq]
      · refine good_bind ?_
        refine good_ite (fun hc2 => ?_) (fun hc2 => ?_)
        · repeat istep
          dsimp only
          simp [hc1, hc2, heq, sepTerm, pySum_vsq]
        · repeat istep
          dsimp only
          simp [hc1, hc2, heq, sepTerm, pySum_vsq]
    · repeat istep
      refine good_ite (fun hw => ?_) (fun hw => ?_) <;>
      (repeat istep
       sw_close)))

attribute [local irreducible] Gen.ICVI.remove_sample Gen.ICVI.add_sample in
theorem switch_label_ne {sCD : List (Nat × Imp.Dict α)} {st : State α} (hcd : RepCD sCD st.CD)
    (hnd : (st.CD.map (·.1)).Nodup) (x : List α) (lo ln : Nat) (cOld : Clu α) (heq : ¬ ln = lo)
    (hl : lookup st.CD lo = some cOld) (hn1 : ¬ cOld.n ≤ 1) :
    Good (fun p => RepCand p ⟨lo, st.n, st.mu, (cluRemove cOld x).1, (cluRemove cOld x).2,
        chValue (vsum ((if (lookup st.CD ln).isNone then [l2sq (vsub x st.mu)] else []) ++ st.CD.map (fun e =>
            if e.1 = lo then sepTerm st.mu (cluRemove cOld x).1.n (cluRemove cOld x).1.v
            else if e.1 = ln then sepTerm st.mu (addSample st x ln).CD.n (addSample st x ln).CD.v
            else sepTerm st.mu e.2.n e.2.v)))
          ((st.WGSS + (cluRemove cOld x).2) + (addSample st x ln).CPdiff) st.n
          (if (lookup st.CD ln).isNone then st.CD.length + 1 else st.CD.length),
        some (ln, (addSample st x ln).CD, (addSample st x ln).CPdiff)⟩)
      (Gen.ICVI.switch_label ⟨st.dim, st.n, st.mu, sCD, st.WGSS, st.crit⟩ x lo ln) := by
  have hlen := repCD_length hcd
  have hkeys := repCD_keys hcd
  have hent := entries_of_rep hcd hnd
  have hgt : ¬ ((cOld.n : ℤ) ≤ 1) := by omega
  have hst : RepState (⟨st.dim, st.n, st.mu, sCD, st.WGSS, st.crit⟩ : Gen.ICVI.Self α) st :=
    ⟨rfl, rfl, rfl, hcd, hnd, rfl, rfl⟩
  obtain ⟨pr, hpr, dr, hprCD, hRr, hprCP⟩ := remove_sample_core hst x lo cOld hl hn1
  obtain ⟨pa, hpa, _, _, _, ⟨da, hpaCD, hRa⟩, hpaCP, _, _⟩ := add_sample_spec hst x ln
  obtain ⟨hrn, hrv, _, _⟩ := id hRr
  obtain ⟨han, hav, _, _⟩ := id hRa
  obtain ⟨hhas0, d, hget, hdn, hdv, hdcp, hdg⟩ := repCD_some hcd hl
  unfold Gen.ICVI.switch_label
  dsimp only
  cases hln : lookup st.CD ln with
  | none =>
    have hhas : ¬ (ahas sCD ln = true) := by simp [(repCD_none hcd hln).1]
    sw_script (fun e => if e.1 = lo then sepTerm st.mu (cluRemove cOld x).1.n (cluRemove cOld x).1.v
            else if e.1 = ln then sepTerm st.mu (addSample st x ln).CD.n (addSample st x ln).CD.v
            else sepTerm st.mu e.2.n e.2.v)
  | some cNew =>
    have hhas : ¬ ¬ (ahas sCD ln = true) := not_not.mpr (repCD_some hcd hln).1
    sw_script (fun e => if e.1 = lo then sepTerm st.mu (cluRemove cOld x).1.n (cluRemove cOld x).1.v
            else if e.1 = ln then sepTerm st.mu (addSample st x ln).CD.n (addSample st x ln).CD.v
            else sepTerm st.mu e.2.n e.2.v)

end Switch

section Switch2
variable {α : Type} [Field α] [DecidableEq α]

theorem switch_label_eq {sCD : List (Nat × Imp.Dict α)} {st : State α} (hcd : RepCD sCD st.CD)
    (x : List α) (lo : Nat) (c0 : Clu α) (hl : lookup st.CD lo = some c0) :
    Good (fun p => RepCand p ⟨lo, st.n, st.mu, ⟨c0.n, c0.v, c0.CP, c0.G⟩, 0, st.crit, none⟩)
      (Gen.ICVI.switch_label ⟨st.dim, st.n, st.mu, sCD, st.WGSS, st.crit⟩ x lo lo) := by
  obtain ⟨hhas0, d, hget, hdn, hdv, hdcp, hdg⟩ := repCD_some hcd hl
  have heq : lo = lo := rfl
  unfold Gen.ICVI.switch_label
  dsimp only
  repeat istep
  simp [RepCand, RepClu, Imp.aget, Imp.ahas]

/-- **`switch_label` = the model's `switchLabel`** wherever the model returns a record (same label, an existing new
label, a new label), on every state -/
theorem switch_label_spec {s : Gen.ICVI.Self α} {st : State α} (h : RepState s st) (x : List α) (lo ln : Nat)
    (c : Cand α) (hc : switchLabel st x lo ln = some c) :
    ∃ p, Gen.ICVI.switch_label s x lo ln = some p ∧ RepCand p c := by
  obtain ⟨sdim, sn, smu, sCD, sW, sc⟩ := s
  obtain ⟨hdim, hn, hmu, hcd, hnd, hw, hcr⟩ := h
  simp only at hdim hn hmu hcd hw hcr
  subst hdim hn hmu hw hcr
  unfold switchLabel at hc
  by_cases heq : ln = lo
  · subst heq
    simp only [if_true] at hc
    cases hl : lookup st.CD ln with
    | none => simp [hl] at hc
    | some c0 =>
      simp only [hl, Option.some.injEq] at hc
      subst hc
      exact switch_label_eq hcd x ln c0 hl
  · simp only [heq, if_false] at hc
    cases hl : lookup st.CD lo with
    | none => simp [hl] at hc
    | some cOld =>
      simp only [hl] at hc
      by_cases hn1 : cOld.n ≤ 1
      · simp [hn1] at hc
      · simp only [hn1, if_false, removeSample, hl, Option.some.injEq] at hc
        subst hc
        exact switch_label_ne hcd hnd x lo ln cOld heq hl hn1

theorem bind_none {β γ : Type} {X : Option β} {f : β → Option γ} (h : X = none) : (X >>= f) = none := by
  rw [h]; rfl

/-- where the model says the Python raises (`KeyError` on the old label, "Can't remove a value from a cluster of 1"),
the generated `switch_label` raises -/
theorem switch_label_none {s : Gen.ICVI.Self α} {st : State α} (h : RepState s st) (x : List α) (lo ln : Nat)
    (hc : switchLabel st x lo ln = none) : Gen.ICVI.switch_label s x lo ln = none := by
  obtain ⟨hdim, hn, hmu, hcd, hnd, hw, hcr⟩ := h
  unfold switchLabel at hc
  unfold Gen.ICVI.switch_label
  dsimp only
  cases hl : lookup st.CD lo with
  | none =>
    have hget := (repCD_none hcd hl).2
    by_cases heq : ln = lo
    · rw [if_pos heq]; exact bind_none hget
    · rw [if_neg heq]; exact bind_none hget
  | some cOld =>
    obtain ⟨_, d, hget, hdn, _⟩ := repCD_some hcd hl
    by_cases heq : ln = lo
    · simp [heq, hl] at hc
    · simp only [heq, if_false, hl] at hc
      by_cases hn1 : cOld.n ≤ 1
      · rw [if_neg heq]
        refine (bind_of_eq hget).trans ?_
        refine (bind_of_eq hdn).trans ?_
        refine (bind_of_eq (asInt_int _)).trans ?_
        exact if_pos (by omega)
      · simp [hn1, removeSample, hl] at hc

/-- **`update` = the model's `update`**: committing a candidate dict that represents the record `c` yields the state
that represents `update st c` (one or two entries written, insertion order kept) -/
theorem update_spec {s : Gen.ICVI.Self α} {st : State α} (h : RepState s st) {p : Imp.Dict α} {c : Cand α}
    (hp : RepCand p c) : ∃ s', Gen.ICVI.update s p = some s' ∧ RepState s' (update st c) := by
  obtain ⟨hdim, hn, hmu, hcd, hnd, hw, hcr⟩ := h
  obtain ⟨h1, h2, h3, ⟨d1, h4, hR1⟩, h5, h6, hsec⟩ := hp
  unfold Gen.ICVI.update
  dsimp only
  cases hs : c.second with
  | none =>
    rw [hs] at hsec
    have hno : ¬ (Imp.ahas p "label2" = true) := by simp [hsec]
    repeat istep
    unfold update
    simp only [hs]
    exact ⟨hdim, rfl, rfl, repCD_set _ hcd hR1, setCD_nodup hnd _ _, by simp [hw], rfl⟩
  | some t =>
    obtain ⟨l2, c2, d2⟩ := t
    rw [hs] at hsec
    obtain ⟨hyes, h7, ⟨dd2, h8, hR2⟩, h9⟩ := hsec
    repeat istep
    unfold update
    simp only [hs]
    exact ⟨hdim, rfl, rfl, repCD_set _ (repCD_set _ hcd hR1) hR2, setCD_nodup (setCD_nodup hnd _ _) _ _,
      by simp [hw], rfl⟩

end Switch2

section Spec
variable {α : Type} [Field α] [DecidableEq α]

/-- `delta_add_sample_to_average` = the model's `deltaAdd` -/
theorem delta_add_spec (avg x : List α) (n : Nat) :
    Gen.ICVI.delta_add_sample_to_average avg x (n : Int) = some (deltaAdd avg x n) := by
  simp [Gen.ICVI.delta_add_sample_to_average, deltaAdd, vdivs_eq]

/-- `delta_remove_sample_from_average` = the model's `deltaRemove` -/
theorem delta_remove_spec (avg x : List α) (n : Nat) :
    Gen.ICVI.delta_remove_sample_from_average avg x (n : Int) = some (deltaRemove avg x n) := by
  simp [Gen.ICVI.delta_remove_sample_from_average, deltaRemove, vdivs_eq]

/-- `iCVI_CH(x)` = the model's `init (len x)` -/
theorem init_spec (x : List α) :
    ∃ s, Gen.ICVI.init x = some s ∧ RepState s (init x.length) := by
  refine ⟨_, rfl, ?_⟩
  constructor <;> simp [init, RepCD]

end Spec

/-! ### the C15 theorems, transported to the generated definitions -/

section Transport
variable {α : Type} [Field α] [LinearOrder α] [IsStrictOrderedRing α] {d : Nat}

/-- The histories the API permits, run on the **generated** code: `iCVI_CH(x0)`; then `add_sample(x, l)` + `update`
adds the labelled point `(x, l)`; `switch_label(x, lo, ln)` + `update` relabels one occurrence of `(x, lo)` (permitted
when, for `lo ≠ ln`, its cluster has at least two members).  Every step is a call of the translated Python that
returned (did not raise). -/
inductive GenReach (d : Nat) : Gen.ICVI.Self α → List (List α × Nat) → Prop
  | init (x0 : List α) (s : Gen.ICVI.Self α) : x0.length = d → Gen.ICVI.init x0 = some s → GenReach d s []
  | add {s : Gen.ICVI.Self α} {D : List (List α × Nat)} (x : List α) (l : Nat) (p : Imp.Dict α)
      (s' : Gen.ICVI.Self α) : GenReach d s D → x.length = d → Gen.ICVI.add_sample s x l = some p →
      Gen.ICVI.update s p = some s' → GenReach d s' ((x, l) :: D)
  | switch {s : Gen.ICVI.Self α} {D₁ D₂ : List (List α × Nat)} (x : List α) (lo ln : Nat) (p : Imp.Dict α)
      (s' : Gen.ICVI.Self α) : GenReach d s (D₁ ++ (x, lo) :: D₂) →
      (lo ≠ ln → 2 ≤ (members (D₁ ++ (x, lo) :: D₂) lo).length) →
      Gen.ICVI.switch_label s x lo ln = some p → Gen.ICVI.update s p = some s' →
      GenReach d s' (D₁ ++ (x, ln) :: D₂)

/-- every state the generated code reaches represents a state the model reaches with the same history -/
theorem genReach_rep {s : Gen.ICVI.Self α} {D : List (List α × Nat)} (h : GenReach d s D) :
    ∃ st : State α, RepState s st ∧ Reach d st D := by
  induction h with
  | init x0 s hx hs =>
    obtain ⟨s0, h0, hr⟩ := init_spec x0
    rw [hs] at h0
    cases h0
    rw [hx] at hr
    exact ⟨_, hr, Reach.init⟩
  | add x l p s' _ hx hp hs' ih =>
    obtain ⟨st, hr, hR⟩ := ih
    obtain ⟨p', hp', hc⟩ := add_sample_spec hr x l
    rw [hp] at hp'
    cases hp'
    obtain ⟨s'', hs'', hr'⟩ := update_spec hr hc
    rw [hs'] at hs''
    cases hs''
    exact ⟨_, hr', Reach.add x l hR hx⟩
  | switch x lo ln p s' _ hpre hp hs' ih =>
    obtain ⟨st, hr, hR⟩ := ih
    obtain ⟨hwf, hI⟩ := reach_inv hR
    obtain ⟨c, hc, _⟩ := switch_inv hwf hI hpre
    obtain ⟨p', hp', hrc⟩ := switch_label_spec hr x lo ln c hc
    rw [hp] at hp'
    cases hp'
    obtain ⟨s'', hs'', hr'⟩ := update_spec hr hrc
    rw [hs'] at hs''
    cases hs''
    exact ⟨_, hr', Reach.switch x lo ln c hR hpre hc⟩

/-- **C15 `criterion_eq_batch` for the generated code.**  After any permitted sequence of generated
`add_sample` / `switch_label` / `update` calls, the object's `criterion_value` is the Calinski-Harabasz index of the
current labelled data. -/
theorem gen_criterion_eq_batch {s : Gen.ICVI.Self α} {D : List (List α × Nat)} (h : GenReach d s D) :
    s.criterion_value = chBatch D := by
  obtain ⟨st, hr, hR⟩ := genReach_rep h
  rw [hr.crit]
  exact Art.C15.criterion_eq_batch hR

/-- C15 `add_candidate_eq_batch`: the generated `add_sample` does not raise, and the `criterion_value` of the dict it
returns (before any `update`) is the batch index of the data with the sample added -/
theorem gen_add_candidate_eq_batch {s : Gen.ICVI.Self α} {D : List (List α × Nat)} (h : GenReach d s D)
    {x : List α} (hx : x.length = d) (l : Nat) :
    ∃ p, Gen.ICVI.add_sample s x l = some p ∧
      Imp.aget p "criterion_value" = some (.num (chBatch ((x, l) :: D))) := by
  obtain ⟨st, hr, hR⟩ := genReach_rep h
  obtain ⟨p, hp, hc⟩ := add_sample_spec hr x l
  refine ⟨p, hp, ?_⟩
  rw [← Art.C15.add_candidate_eq_batch hR hx l]
  exact hc.2.2.2.2.2.1

/-- C15 `switch_preserves_inv` / `switch_candidate_eq_batch`: under the API's precondition the generated
`switch_label` and `update` do not raise, the returned `criterion_value` is the batch index of the relabelled data,
and the history stays permitted -/
theorem gen_switch_defined {s : Gen.ICVI.Self α} {D₁ D₂ : List (List α × Nat)} {x : List α} {lo ln : Nat}
    (h : GenReach d s (D₁ ++ (x, lo) :: D₂))
    (hpre : lo ≠ ln → 2 ≤ (members (D₁ ++ (x, lo) :: D₂) lo).length) :
    ∃ p s', Gen.ICVI.switch_label s x lo ln = some p ∧ Gen.ICVI.update s p = some s' ∧
      Imp.aget p "criterion_value" = some (.num (chBatch (D₁ ++ (x, ln) :: D₂))) ∧
      GenReach d s' (D₁ ++ (x, ln) :: D₂) := by
  obtain ⟨st, hr, hR⟩ := genReach_rep h
  obtain ⟨hwf, hI⟩ := reach_inv hR
  obtain ⟨c, hc, _⟩ := switch_inv hwf hI hpre
  obtain ⟨p, hp, hrc⟩ := switch_label_spec hr x lo ln c hc
  obtain ⟨s', hs', _⟩ := update_spec hr hrc
  refine ⟨p, s', hp, hs', ?_, GenReach.switch x lo ln p s' h hpre hp hs'⟩
  rw [← Art.C15.switch_candidate_eq_batch hR hpre hc]
  exact hrc.2.2.2.2.2.1

/-- `iCVIFuzzyART`'s online tracking on the generated code: construct the object, then `add_sample(x_i, c_i)` +
`update` per sample (a left fold of the **generated** functions) -/
def genOnline (x0 : List α) (X : List (List α)) (cs : List Nat) : Option (Gen.ICVI.Self α) := do
  let s ← Gen.ICVI.init x0
  (X.zip cs).foldlM (fun s p => do
    let q ← Gen.ICVI.add_sample s p.1 p.2
    Gen.ICVI.update s q) s

theorem gen_fold_rep (L : List (List α × Nat)) :
    ∀ {s : Gen.ICVI.Self α} {st : State α}, RepState s st →
      ∃ s', L.foldlM (fun s p => do
          let q ← Gen.ICVI.add_sample s p.1 p.2
          Gen.ICVI.update s q) s = some s' ∧
        RepState s' (L.foldl (fun st p => update st (addSample st p.1 p.2)) st) := by
  induction L with
  | nil => intro s st h; exact ⟨s, rfl, h⟩
  | cons a L ih =>
    intro s st h
    obtain ⟨p, hp, hc⟩ := add_sample_spec h a.1 a.2
    obtain ⟨s1, hs1, hr1⟩ := update_spec h hc
    obtain ⟨s', hs', hr'⟩ := ih hr1
    refine ⟨s', ?_, hr'⟩
    rw [List.foldlM_cons, hp]
    simp only [Option.bind_eq_bind, Option.bind_some, hs1]
    exact hs'

/-- **C15 `icvifuzzy_tracks_online` for the generated code.**  Whatever labels the search returned, the fold of the
generated `add_sample` + `update` over the samples does not raise and ends with `criterion_value` = the batch
Calinski-Harabasz index of `(X, labels_)`. -/
theorem gen_tracks_online (x0 : List α) (X : List (List α)) (cs : List Nat) (hx0 : x0.length = d)
    (hX : Rows d X) : ∃ s, genOnline x0 X cs = some s ∧ s.criterion_value = chBatch (X.zip cs) := by
  obtain ⟨s0, h0, hr0⟩ := init_spec x0
  rw [hx0] at hr0
  obtain ⟨s, hs, hr⟩ := gen_fold_rep (X.zip cs) hr0
  refine ⟨s, ?_, ?_⟩
  · simp only [genOnline, h0, Option.bind_eq_bind, Option.bind_some]
    exact hs
  · rw [hr.crit]
    exact Art.C15.icvifuzzy_tracks_online X cs hX

end Transport

/-! ### non-vacuity: the generated code runs -/

section Example

/-- the generated code, executed: two clusters on the line, `{0, 1}` and `{4, 6}` — index `81/5` -/
example : (genOnline (α := ℚ) [0] [[0], [1], [4], [6]] [0, 0, 1, 1]).map (·.criterion_value) = some (81 / 5) := by
  decide +kernel

/-- one generated operation followed by the generated `update` -/
def genAdd (s : Gen.ICVI.Self ℚ) (x : List ℚ) (l : Nat) : Option (Gen.ICVI.Self ℚ) := do
  let q ← Gen.ICVI.add_sample s x l
  Gen.ICVI.update s q
def genSwitch (s : Gen.ICVI.Self ℚ) (x : List ℚ) (lo ln : Nat) : Option (Gen.ICVI.Self ℚ) := do
  let q ← Gen.ICVI.switch_label s x lo ln
  Gen.ICVI.update s q

/-- offline style: everything in cluster 0, then `4` and `6` are switched to a new / an existing cluster 1 -/
def exOffline : Option (Gen.ICVI.Self ℚ) := do
  let s ← Gen.ICVI.init [0]
  let s ← genAdd s [0] 0
  let s ← genAdd s [1] 0
  let s ← genAdd s [4] 0
  let s ← genAdd s [6] 0
  let s ← genSwitch s [4] 0 1
  genSwitch s [6] 0 1

example : exOffline.map (fun s => (s.n_samples, s.criterion_value, s.WGSS, Imp.akeys s.CD)) =
    some (4, 81 / 5, 5 / 2, [0, 1]) := by
  decide +kernel

/-- the explicit `raise` is `none`: the only member of cluster 1 cannot be switched away -/
example : (do
    let s ← Gen.ICVI.init [0]
    let s ← genAdd s [0] 0
    let s ← genAdd s [1] 0
    let s ← genAdd s [4] 1
    genSwitch s [4] 1 0) = none := by
  decide +kernel

end Example

end Art.GenSpec.ICVI
