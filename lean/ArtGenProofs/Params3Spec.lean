/-
ArtGenProofs.Params3Spec — the parameter protocol and the constructors of BARTMAP, FusionART, DeepARTMAP, FALCON and
TD_FALCON regenerated from the Python source by `harness/artv/q3trans.py` (`ArtGen/Params3.lean`) equal the reference
semantics of `ArtModel/Params3.lean`, for all instance dicts, call logs, keyword lists and nested estimators; and the
clauses of C19 proved on the generated definitions.
-/
import ArtGen.Params3
import ArtModel.Params3
import ArtGenProofs.Params2Spec
import Lean

set_option linter.unusedSimpArgs false
set_option linter.unusedVariables false

namespace Art.GenSpec.Params3
open Art Art.Params Art.Params2 Art.Params3 Art.Gen.Params3
open Art.GenSpec.Params (bind_apply pure_apply dget_eq dhas_eq dset_eq partition_eq toWorld toSelf vpOf ofSetRes
  dget_attrs outcome)
open Art.GenSpec.Params2 (dupdate_eq ddset2_eq_ginsert route_loop route_body errOf extOf objs fz half)

open Lean Elab Tactic Meta in
/-- `decide` by the kernel alone, for closed propositions: the proof `of_decide_eq_true (Eq.refl true)` is handed to the
kernel as an auxiliary theorem (`addDecl`: the kernel type-checks it, nothing is trusted); when the kernel rejects it the
tactic fails at once.  (`decide +kernel` does the same on success, but on FAILURE it falls back to evaluating the
`Decidable` instance in the elaborator to explain itself, which on these terms runs for minutes and tens of GB — a changed
source must break the build quickly.) -/
elab "kernel_decide" : tactic => do
  let g ← getMainGoal
  let p ← instantiateMVars (← g.getType)
  if p.hasExprMVar || p.hasFVar then throwError "kernel_decide: the goal is not closed"
  let inst ← synthInstance (mkApp (mkConst ``Decidable) p)
  let pf := mkApp3 (mkConst ``of_decide_eq_true) p inst
    (mkApp2 (mkConst ``Eq.refl [Level.one]) (mkConst ``Bool) (mkConst ``Bool.true))
  let name ← mkAuxDeclName `kdecide
  addDecl (.thmDecl { name, levelParams := [], type := p, value := pf })
  g.assign (mkConst name)

/-! ## BARTMAP -/

/-! ### `__getattr__` / `__setattr__` / `validate_params` / `__init__` -/

/-- BARTMAP's own `__getattr__` / `__setattr__` are, statement for statement, BaseART's: the generated definitions
coincide, so every theorem of `ParamsSpec` about them (`getattr_spec`, `setattr_spec`, `pyGetattr_spec`,
`gen_attr_mirrors`, `gen_attr_write_mirrors`) holds for BARTMAP -/
theorem BARTMAP_getattr_eq : BARTMAP.__getattr__ = Art.Gen.Params.BaseART.__getattr__ := rfl
theorem BARTMAP_setattr_eq : BARTMAP.__setattr__ = Art.Gen.Params.BaseART.__setattr__ := rfl

/-- C19 `attr_mirrors` (ArtProps/C19.lean) transported to BARTMAP: reading a parameter name as an attribute (`__dict__`,
then the generated `BARTMAP.__getattr__`) gives the value the parameter store holds; nothing is written -/
theorem BARTMAP_attr_mirrors (e : Est) (hwf : e.WF) (c : List (Nat × Store)) (k : String)
    (hk : k ∈ keys (getParams e)) (hkp : k ≠ "params") :
    ∃ v, get? (getParams e) k = some v ∧
      Q.pyGetattr BARTMAP.__getattr__ k (toWorld e c) = (.ok (.val v), toWorld e c) := by
  obtain ⟨v, hv, ha⟩ := C19.attr_mirrors e hwf k hk
  refine ⟨v, hv, ?_⟩
  rw [BARTMAP_getattr_eq, Art.GenSpec.Params.pyGetattr_spec e c k hkp, ha]

/-- C19 `attr_write_mirrors` transported: `setattr(est, k, v)` through the generated `BARTMAP.__setattr__` is the
model's `setAttr` — a parameter name writes `params[k]`, any other name the instance `__dict__` -/
theorem BARTMAP_attr_write_mirrors (e : Est) (c : List (Nat × Store)) (k : String) (v : Val) (hk : k ≠ "params") :
    BARTMAP.__setattr__ k (.val v) (toWorld e c) = (.ok (), toWorld (setAttr e k v) c) := by
  rw [BARTMAP_setattr_eq]; exact Art.GenSpec.Params.setattr_spec e c k v (Or.inl hk)

theorem BARTMAP_validate (p : Store) : BARTMAP.validate_params p = vpOf bartmapChecks p := by
  simp only [BARTMAP.validate_params, bartmapChecks]; validate_tac

/-- what a constructor call leaves behind: the reference object, or (rejected) the instance without attributes -/
abbrev ofConstruct := @Art.GenSpec.Params.ofConstruct

/-- **`BARTMAP.__init__`, generated = reference**: validation first (a rejected `eta` leaves an instance without
any attribute), then `params`, `module_a`, `module_b` -/
theorem BARTMAP_init_spec (a b eta : Val) (c : List (Nat × Store)) :
    BARTMAP.__init__ a b eta ⟨[], c⟩ = ofConstruct (constructBartmap a b eta) c := by
  simp only [BARTMAP.__init__, bind_apply, Q.Py.lift, BARTMAP_validate, vpOf, constructBartmap, ofConstruct,
    Art.GenSpec.Params.ofConstruct]
  cases validate bartmapChecks [("eta", eta)] with
  | some x => rfl
  | none =>
    simp only [BARTMAP_setattr_eq, Art.GenSpec.Params.setattr_params_empty "BARTMAP"]
    rw [Art.GenSpec.Params.setattr_fresh _ _ _ _ (by decide) (by simp [get?])]
    simp only []
    rw [Art.GenSpec.Params.setattr_fresh _ _ _ _ (by decide) (by simp [get?])]
    rfl

/-! ### `get_params` -/

theorem selfParams_of (w : Q.World) (p : Store) (hp : Q.dget w.self "params" = some (.dict p)) :
    Q.selfParams w = (.ok p, w) := by
  simp [Q.selfParams, hp]

theorem selfAttrB_of (w : Q.World) (k : String) (v : Val) (h : Q.dget w.self k = some (.val v)) :
    Q2.selfAttrB BARTMAP.__getattr__ k w = (.ok v, w) := by
  simp [Q2.selfAttrB, Q.pyGetattr, h, Q.asVal]

/-- **`BARTMAP.get_params`, generated = reference** (`getParamsFlat`): a copy of `params`, then per module its
parameters as `module_x__k` and the module itself — and the object is NOT touched (the state returned is the state
given: `self.params` in particular is what it was — the former defect F43).  For every instance `__dict__` that holds a
params dict and the two modules, every nested estimator whose `get_params()` returns, whatever `deep`. -/
theorem BARTMAP_get_params_spec (ext : Q2.Ext) (w : Q.World) (p : Store) (a b : Val) (da db : Store) (deep : Bool)
    (hp : Q.dget w.self "params" = some (.dict p))
    (ha : Q.dget w.self "module_a" = some (.val a)) (hb : Q.dget w.self "module_b" = some (.val b))
    (hga : ext.get_params a w = (.ok da, w)) (hgb : ext.get_params b w = (.ok db, w)) :
    BARTMAP.get_params ext deep w
      = (.ok (getParamsFlat p [⟨"module_a", a, da⟩, ⟨"module_b", b, db⟩]), w) := by
  simp [BARTMAP.get_params, bind_apply, pure_apply, selfParams_of w p hp, selfAttrB_of w _ a ha, selfAttrB_of w _ b hb,
    hga, hgb, getParamsFlat, dupdate_eq, dset_eq, prefixed, Q.items]

/-- a method that never writes: the state it returns is the state it was given, also when it raises -/
def ReadOnly {β : Type} (m : Q.M β) : Prop := ∀ w, (m w).2 = w

theorem ReadOnly.bind {β γ : Type} {m : Q.M β} {f : β → Q.M γ} (hm : ReadOnly m) (hf : ∀ b, ReadOnly (f b)) :
    ReadOnly (m >>= f) := by
  intro w
  rw [bind_apply]
  have h := hm w
  rcases hmw : m w with ⟨r | r, w'⟩
  · rw [hmw] at h; exact h
  · rw [hmw] at h; simp only [] at h ⊢; rw [h]; exact hf r w

theorem ReadOnly.pure {β : Type} (b : β) : ReadOnly (pure b : Q.M β) := fun _ => rfl
theorem ReadOnly.lift {β : Type} (x : Except Err β) : ReadOnly (Q.Py.lift x : Q.M β) := fun _ => rfl
theorem ReadOnly.raise {β : Type} (x : Err) : ReadOnly (Q.Py.raise x : Q.M β) := fun _ => rfl
theorem ReadOnly.selfParams : ReadOnly Q.selfParams := fun _ => rfl

theorem ReadOnly.getattr (k : String) : ReadOnly (BARTMAP.__getattr__ k) := by
  unfold BARTMAP.__getattr__
  refine ReadOnly.bind ReadOnly.selfParams (fun p => ?_)
  split
  · exact ReadOnly.bind ReadOnly.selfParams (fun _ => ReadOnly.lift _)
  · exact ReadOnly.raise _

theorem ReadOnly.selfAttrB (k : String) : ReadOnly (Q2.selfAttrB BARTMAP.__getattr__ k) := by
  intro w
  simp only [Q2.selfAttrB, Q.pyGetattr]
  cases Q.dget w.self k with
  | some s => rfl
  | none =>
    have h := ReadOnly.getattr k w
    rcases hg : BARTMAP.__getattr__ k w with ⟨r | r, w'⟩ <;> rw [hg] at h <;> exact h

/-- C19 (d), in full generality: **`BARTMAP.get_params` writes nothing** — for EVERY state (also one in which it
raises: no params dict, a missing module) and every nested estimator whose own `get_params()` writes nothing, the state
after the call is the state before it.  (F43, fixed by `out = dict(self.params)`: with `out = self.params` the
translator renders the writes `Q3.paramsUpdate` / `Q.paramsSetitem` on the live dict and this proof fails.) -/
theorem BARTMAP_get_params_readonly (ext : Q2.Ext) (hext : ∀ v, ReadOnly (ext.get_params v)) (deep : Bool) :
    ReadOnly (BARTMAP.get_params ext deep) := by
  unfold BARTMAP.get_params
  refine ReadOnly.bind ReadOnly.selfParams (fun _ => ?_)
  refine ReadOnly.bind (ReadOnly.selfAttrB _) (fun _ => ?_)
  refine ReadOnly.bind (hext _) (fun _ => ?_)
  refine ReadOnly.bind (ReadOnly.selfAttrB _) (fun _ => ?_)
  refine ReadOnly.bind (ReadOnly.selfAttrB _) (fun _ => ?_)
  refine ReadOnly.bind (hext _) (fun _ => ?_)
  refine ReadOnly.bind (ReadOnly.selfAttrB _) (fun _ => ?_)
  exact ReadOnly.pure _

/-! ### `set_params`: generated = `bSetParams` -/

/-- `(local_params, plain_params, nested_params)` -/
abbrev Carried := Store × Store × List (String × Store)

/-- what one pass of the collecting loop does -/
def BStep (valid : Store) (body : String × Val → Carried → Q.M Carried) : Prop :=
  ∀ key v loc plain nested (w : Q.World), body (key, v) (loc, plain, nested) w =
    if (get? valid (partitionKey key).1).isSome then
      match (partitionKey key).2 with
      | some sub => (.ok (loc, plain, Q.ddset2 nested (partitionKey key).1 sub v), w)
      | none => (.ok (if (get? loc (partitionKey key).1).isSome then Q.dset loc (partitionKey key).1 v else loc,
          Q.dset plain (partitionKey key).1 v, nested), w)
    else (.error .value, w)

theorem b_loop1 (valid : Store) (body : String × Val → Carried → Q.M Carried) (hb : BStep valid body) (w : Q.World) :
    ∀ (kvs : List (String × Val)) (loc plain : Store) (nested : List (String × Store)),
    Q.Py.forEach kvs (loc, plain, nested) body w =
      match bLoop valid ⟨loc, nested, plain⟩ kvs with
      | (st, none) => (.ok (st.loc, st.plain, st.nested), w)
      | (_, some x) => (.error x, w) := by
  intro kvs
  induction kvs with
  | nil => intro loc plain nested; rfl
  | cons kv rest ih =>
    intro loc plain nested
    obtain ⟨key, v⟩ := kv
    simp only [Q.Py.forEach, Q.Py.bind, hb key v, bLoop]
    by_cases hk : (get? valid (partitionKey key).1).isSome
    · simp only [hk, if_true]
      cases hs : (partitionKey key).2 with
      | some sub =>
        simp only [ddset2_eq_ginsert]
        exact ih loc plain _
      | none =>
        simp only []
        rw [dset_eq plain]
        by_cases hl : (get? loc (partitionKey key).1).isSome
        · simp only [hl, if_true]; rw [dset_eq loc]; exact ih _ _ nested
        · simp only [hl]; exact ih _ _ nested
    · simp only [hk, if_false]
      rfl

/-- the assigning loop: `setattr(self, k, v)` (the generated `BARTMAP.__setattr__`), `valid_params[k] = v` -/
theorem b_loop2 (c : List (Nat × Store)) (body : String × Val → Store → Q.M Store)
    (hb : ∀ (e : Est) k v valid, k ≠ "params" →
      body (k, v) valid (toWorld e c) = (.ok (Q.dset valid k v), toWorld (setAttr e k v) c)) :
    ∀ (kvs : List (String × Val)) (e : Est) (valid : Store), (∀ kv ∈ kvs, kv.1 ≠ "params") →
    Q.Py.forEach kvs valid body (toWorld e c) = (.ok (upsertAll valid kvs), toWorld (assignAll e kvs) c) := by
  intro kvs
  induction kvs with
  | nil => intro e valid _; rfl
  | cons kv rest ih =>
    intro e valid h
    obtain ⟨k, v⟩ := kv
    have hk := h (k, v) List.mem_cons_self
    simp only [Q.Py.forEach, Q.Py.bind, hb e k v valid hk, assignAll, List.foldl_cons, upsertAll, dset_eq]
    exact ih _ _ (fun kv' hm => h kv' (List.mem_cons_of_mem _ hm))

theorem keys_upsert_sub (p : Store) (k : String) (v : Val) (k' : String) (h : k' ∈ keys (upsert p k v)) :
    k' ∈ keys p ∨ k' = k := by
  by_cases hk : k' = k
  · right; exact hk
  · left
    have := Art.Params.get?_isSome_iff.mpr h
    rw [Art.Params.get?_upsert_other v hk] at this
    exact Art.Params.get?_isSome_iff.mp this

/-- every name in `plain_params` is a key of `valid_params` -/
theorem bLoop_plain_known (valid : Store) (kvs : List (String × Val)) (st : DynSt) :
    ∀ k ∈ keys (bLoop valid st kvs).1.plain, k ∈ keys st.plain ∨ (get? valid k).isSome := by
  induction kvs generalizing st with
  | nil => intro k hk; left; exact hk
  | cons kv r ih =>
    obtain ⟨key, v⟩ := kv
    simp only [bLoop]
    split
    · rename_i hknown
      split
      · intro k hk; have h := ih _ k hk; exact h
      · intro k hk
        have h0 := ih _ k hk
        rcases h0 with h | h
        · rcases keys_upsert_sub _ _ _ _ h with h | h
          · left; exact h
          · right; rw [h]; exact hknown
        · right; exact h
    · intro k hk; left; exact hk

theorem setattr_step (c : List (Nat × Store)) (e : Est) (k : String) (v : Val) (valid : Store) (hk : k ≠ "params") :
    (do BARTMAP.__setattr__ k (Q.Slot.val v)
        let valid_params := Q.dset valid k v
        pure valid_params : Q.M Store) (toWorld e c)
      = (.ok (Q.dset valid k v), toWorld (setAttr e k v) c) := by
  simp only [bind_apply, BARTMAP_setattr_eq, Art.GenSpec.Params.setattr_spec e c k v (Or.inl hk), pure_apply]

/-- **`BARTMAP.set_params`, generated = reference** (`bSetParams`), for every estimator object (`params` dict and other
attributes), every call log, every keyword list, every nested estimator: whenever `self.get_params(deep=True)` returns
`gp` (see `BARTMAP_get_params_spec`) and `params` itself is not one of the names it lists. -/
theorem BARTMAP_set_params_spec (ext : Q2.Ext) (gp : Store) (e : Est) (c : List (Nat × Store))
    (kvs : List (String × Val))
    (hgp : BARTMAP.get_params ext true (toWorld e c) = (.ok gp, toWorld e c)) (hnp : get? gp "params" = none) :
    BARTMAP.set_params ext Q.logSetParams kvs (toWorld e c)
      = ofSetRes (bSetParams (validate bartmapChecks) gp e kvs) c := by
  cases hkvs : kvs with
  | nil => simp [BARTMAP.set_params, Q.dictTruth, bSetParams, ofSetRes, pure_apply]
  | cons kv0 rest0 =>
    rw [← hkvs]
    have hne : kvs.isEmpty = false := by rw [hkvs]; rfl
    simp only [BARTMAP.set_params, Q.dictTruth, hne, Bool.not_false, Bool.not_true, Bool.false_eq_true, if_false,
      bind_apply, hgp, Art.GenSpec.Params.selfParams_toWorld, Q.items, bSetParams, ofSetRes]
    have h1 := fun body hb => b_loop1 gp body hb (toWorld e c) kvs e.params [] []
    rw [h1]
    · have hpk := bLoop_plain_known gp kvs ⟨e.params, [], []⟩
      generalize bLoop gp ⟨e.params, [], []⟩ kvs = L at hpk ⊢
      obtain ⟨st, err⟩ := L
      cases err with
      | some x => simp
      | none =>
        simp only [Q.Py.lift, BARTMAP_validate, vpOf]
        cases hv : validate bartmapChecks st.loc with
        | some x => simp
        | none =>
          simp only []
          have hplain : ∀ kv ∈ st.plain, kv.1 ≠ "params" := by
            intro kv hm hkp
            have : kv.1 ∈ keys st.plain := List.mem_map.mpr ⟨kv, hm, rfl⟩
            rcases hpk kv.1 this with h | h
            · simp [keys] at h
            · rw [hkp, hnp] at h; cases h
          rw [b_loop2 c _ (fun e k v valid hk => setattr_step c e k v valid hk) st.plain e gp hplain]
          simp only [toWorld]
          rw [route_loop _ _ (route_body _) _ st.nested c]
          simp only [pure_apply]
          cases (route (upsertAll gp st.plain) st.nested).2 <;> simp [errOf]
    · intro key v loc plain nested w
      simp only [partition_eq, bind_apply, dhas_eq]
      cases hk : (get? gp (partitionKey key).1).isSome with
      | false => simp [Q.Py.raise]
      | true =>
        cases hs : (partitionKey key).2 with
        | some sub => simp [Q.strTruth, pure_apply]
        | none =>
          cases hl : (get? loc (partitionKey key).1).isSome <;> simp [Q.strTruth, pure_apply, bind_apply, hl]

/-! ### the C19 clauses on the generated `BARTMAP.set_params` -/

theorem bLoop_unknown (valid : Store) (kvs : List (String × Val)) (st : DynSt)
    (h : ∃ kv ∈ kvs, get? valid (partitionKey kv.1).1 = none) : (bLoop valid st kvs).2 = some .value := by
  induction kvs generalizing st with
  | nil => obtain ⟨kv, hm, _⟩ := h; cases hm
  | cons kv r ih =>
    obtain ⟨key, v⟩ := kv
    simp only [bLoop]
    split
    · rename_i hknown
      have h' : ∃ kv ∈ r, get? valid (partitionKey kv.1).1 = none := by
        obtain ⟨kv, hm, hu⟩ := h
        rcases List.mem_cons.mp hm with rfl | hm
        · rw [hu] at hknown; cases hknown
        · exact ⟨kv, hm, hu⟩
      split
      · exact ih _ h'
      · exact ih _ h'
    · rfl

/-- C19 (c): **an unknown name anywhere in the call makes the generated `BARTMAP.set_params` raise `ValueError`, and
nothing is assigned, nothing is delegated** (the names are only collected before the first assignment) -/
theorem BARTMAP_unknown_rejected (ext : Q2.Ext) (gp : Store) (e : Est) (c : List (Nat × Store))
    (kvs : List (String × Val))
    (hgp : BARTMAP.get_params ext true (toWorld e c) = (.ok gp, toWorld e c)) (hnp : get? gp "params" = none)
    (h : ∃ kv ∈ kvs, get? gp (partitionKey kv.1).1 = none) :
    BARTMAP.set_params ext Q.logSetParams kvs (toWorld e c) = (.error .value, toWorld e c) := by
  rw [BARTMAP_set_params_spec ext gp e c kvs hgp hnp]
  have hne : kvs.isEmpty = false := by
    obtain ⟨kv, hm, _⟩ := h
    cases kvs with
    | nil => cases hm
    | cons _ _ => rfl
  have hu := bLoop_unknown gp kvs ⟨e.params, [], []⟩ h
  simp only [bSetParams, hne, Bool.false_eq_true, if_false]
  generalize bLoop gp ⟨e.params, [], []⟩ kvs = L at hu
  obtain ⟨st, err⟩ := L
  simp only [] at hu
  subst hu
  simp [ofSetRes]

/-- C19 (c'), validate before assign: **a call whose merged own parameters `validate_params` rejects raises that
exception and nothing is assigned, nothing is delegated** — whatever else the call names (a new module, nested keys) -/
theorem BARTMAP_invalid_rejected (ext : Q2.Ext) (gp : Store) (e : Est) (c : List (Nat × Store))
    (kvs : List (String × Val)) (x : Err)
    (hgp : BARTMAP.get_params ext true (toWorld e c) = (.ok gp, toWorld e c)) (hnp : get? gp "params" = none)
    (hne : kvs ≠ []) (hl : (bLoop gp ⟨e.params, [], []⟩ kvs).2 = none)
    (hv : validate bartmapChecks (bLoop gp ⟨e.params, [], []⟩ kvs).1.loc = some x) :
    BARTMAP.set_params ext Q.logSetParams kvs (toWorld e c) = (.error x, toWorld e c) := by
  rw [BARTMAP_set_params_spec ext gp e c kvs hgp hnp]
  have hemp : kvs.isEmpty = false := by
    cases kvs with
    | nil => exact absurd rfl hne
    | cons _ _ => rfl
  simp only [bSetParams, hemp, Bool.false_eq_true, if_false]
  generalize bLoop gp ⟨e.params, [], []⟩ kvs = L at hl hv
  obtain ⟨st, err⟩ := L
  simp only [] at hl hv
  subst hl
  simp [hv, ofSetRes]

/-- C19 (b): **a call that both replaces a module and names one of that module's parameters delivers the nested value
to the NEW module**: `set_params(module_b=<new>, module_b__rho=v)` stores the new object (`setattr`) and then calls
`<new>.set_params(rho=v)` — exactly one delegated call, to the object `n` just stored (`valid_params[key] = value`
precedes the nested routing).  For every estimator, module name `m`, nested name `k = m__sub`, value. -/
theorem BARTMAP_new_module_gets_nested (ext : Q2.Ext) (gp : Store) (e : Est) (c : List (Nat × Store))
    (m k sub : String) (n : Nat) (v : Val)
    (hgp : BARTMAP.get_params ext true (toWorld e c) = (.ok gp, toWorld e c)) (hnp : get? gp "params" = none)
    (hm : partitionKey m = (m, none)) (hk : partitionKey k = (m, some sub)) (hmk : (get? gp m).isSome)
    (hown : get? e.params m = none) (hv : validate bartmapChecks e.params = none) :
    BARTMAP.set_params ext Q.logSetParams [(m, .mod n), (k, v)] (toWorld e c)
      = (.ok (), toWorld (setAttr e m (.mod n)) (c ++ [(n, [(sub, v)])])) := by
  rw [BARTMAP_set_params_spec ext gp e c _ hgp hnp]
  have hnil : ∀ (k : String) (x : Val), upsert [] k x = [(k, x)] := fun _ _ => rfl
  simp [bSetParams, bLoop, hm, hk, hmk, hown, hv, route, upsertAll, Art.Params.get?_upsert_same, ginsert, assignAll,
    ofSetRes, hnil]

/-! #### C19 (a): `set_params(**get_params())` changes no observable parameter -/

/-- `getattr(e, k)` is `v`: the parameter store has it, or no parameter is called `k` and the attribute holds it -/
def Fixes (e : Est) (k : String) (v : Val) : Prop :=
  get? e.params k = some v ∨ (get? e.params k = none ∧ get? e.attrs k = some v)

theorem setAttr_fix {e : Est} {k : String} {v : Val} (h : Fixes e k v) : setAttr e k v = e := by
  rcases h with h | ⟨h1, h2⟩
  · simp [setAttr, h, Art.Params.assign_of_get h]
  · have hk : k ∈ keys e.attrs := Art.Params.get?_isSome_iff.mp (by rw [h2]; rfl)
    simp [setAttr, h1, Art.Params.upsert_of_mem v hk, Art.Params.assign_of_get h2]

theorem assignAll_fix (e : Est) (kvs : List (String × Val)) (h : ∀ kv ∈ kvs, Fixes e kv.1 kv.2) :
    assignAll e kvs = e := by
  induction kvs with
  | nil => rfl
  | cons kv r ih =>
    simp only [assignAll, List.foldl_cons]
    rw [setAttr_fix (h kv List.mem_cons_self)]
    exact ih (fun kv' hm => h kv' (List.mem_cons_of_mem _ hm))

theorem mem_assign (p : Store) (k : String) (v : Val) (kv : String × Val) (h : kv ∈ assign p k v) :
    kv ∈ p ∨ kv = (k, v) := by
  induction p with
  | nil => cases h
  | cons x r ih =>
    obtain ⟨k', v'⟩ := x
    simp only [assign] at h
    split at h
    · rename_i hk
      rcases List.mem_cons.mp h with h | h
      · right; rw [h, hk]
      · left; exact List.mem_cons_of_mem _ h
    · rcases List.mem_cons.mp h with h | h
      · left; rw [h]; exact List.mem_cons_self
      · rcases ih h with h | h
        · left; exact List.mem_cons_of_mem _ h
        · right; exact h

theorem mem_upsert (p : Store) (k : String) (v : Val) (kv : String × Val) (h : kv ∈ upsert p k v) :
    kv ∈ p ∨ kv = (k, v) := by
  simp only [upsert] at h
  split at h
  · exact mem_assign p k v kv h
  · rcases List.mem_append.mp h with h | h
    · left; exact h
    · right; simpa using h

theorem mem_upsertAll (p : Store) (kvs : List (String × Val)) (kv : String × Val) (h : kv ∈ upsertAll p kvs) :
    kv ∈ p ∨ kv ∈ kvs := by
  induction kvs generalizing p with
  | nil => left; exact h
  | cons x r ih =>
    have h' : kv ∈ upsertAll (upsert p x.1 x.2) r := h
    rcases ih _ h' with h1 | h1
    · rcases mem_upsert p x.1 x.2 kv h1 with h2 | h2
      · left; exact h2
      · right; rw [h2]; exact List.mem_cons_self
    · right; exact List.mem_cons_of_mem _ h1

/-- the collecting loop on keyword arguments that only repeat what the estimator holds: `local_params` stays the
parameter store, and every collected plain name repeats its current value -/
theorem bLoop_fixed (valid : Store) (e : Est) (kvs : List (String × Val)) (st : DynSt)
    (hloc : st.loc = e.params) (hplain : ∀ kv ∈ st.plain, Fixes e kv.1 kv.2)
    (hk : ∀ kv ∈ kvs, (partitionKey kv.1).2 = none → Fixes e (partitionKey kv.1).1 kv.2) :
    (bLoop valid st kvs).1.loc = e.params ∧ ∀ kv ∈ (bLoop valid st kvs).1.plain, Fixes e kv.1 kv.2 := by
  induction kvs generalizing st with
  | nil => exact ⟨hloc, hplain⟩
  | cons x r ih =>
    obtain ⟨key, v⟩ := x
    have hr : ∀ kv ∈ r, (partitionKey kv.1).2 = none → Fixes e (partitionKey kv.1).1 kv.2 :=
      fun kv hm => hk kv (List.mem_cons_of_mem _ hm)
    simp only [bLoop]
    split
    · cases hs : (partitionKey key).2 with
      | some sub => exact ih _ hloc hplain hr
      | none =>
        have hf : Fixes e (partitionKey key).1 v := hk (key, v) List.mem_cons_self hs
        simp only []
        apply ih _ _ _ hr
        · simp only [hloc]
          rcases hf with h | ⟨h1, _⟩
          · have hm : (partitionKey key).1 ∈ keys e.params := Art.Params.get?_isSome_iff.mp (by rw [h]; rfl)
            simp [h, Art.Params.upsert_of_mem v hm, Art.Params.assign_of_get h]
          · simp [h1]
        · intro kv hm
          rcases mem_upsert _ _ _ _ hm with h | h
          · exact hplain kv h
          · rw [h]; exact hf
    · exact ⟨hloc, hplain⟩

/-- `bSetParams` with keyword arguments that only repeat what the estimator holds leaves the estimator as it is -/
theorem bSetParams_fixed (vd : Store → Option Err) (gp : Store) (e : Est) (kvs : List (String × Val))
    (hk : ∀ kv ∈ kvs, (partitionKey kv.1).2 = none → Fixes e (partitionKey kv.1).1 kv.2) :
    (bSetParams vd gp e kvs).est = e := by
  simp only [bSetParams]
  split
  · rfl
  · have := bLoop_fixed gp e kvs ⟨e.params, [], []⟩ rfl (fun _ h => by cases h) hk
    generalize bLoop gp ⟨e.params, [], []⟩ kvs = L at this
    obtain ⟨st, err⟩ := L
    cases err with
    | some x => rfl
    | none =>
      simp only []
      cases vd st.loc with
      | some x => rfl
      | none => exact assignAll_fix e st.plain this.2

theorem plain_fst {k : String} (h : Plain k) : (partitionKey k).1 = k ∧ (partitionKey k).2 = none := by
  unfold Plain at h; rw [h]; exact ⟨rfl, rfl⟩

/-- every entry of `getParamsFlat own kids` is an own parameter, a child object under its name, or a `name__sub` key -/
theorem mem_getParamsFlat (kids : List KidView) : ∀ (own : Store) (kv : String × Val),
    kv ∈ getParamsFlat own kids →
      kv ∈ own ∨ (∃ k ∈ kids, kv = (k.name, k.obj)) ∨ (∃ k ∈ kids, ∃ s v, kv = ((k.name ++ "__") ++ s, v)) := by
  induction kids with
  | nil => intro own kv h; left; exact h
  | cons k r ih =>
    intro own kv h
    have h' : kv ∈ getParamsFlat (upsert (upsertAll own (prefixed k.name k.deep)) k.name k.obj) r := h
    rcases ih _ kv h' with h1 | ⟨k', hk', e⟩ | ⟨k', hk', s, v, e⟩
    · rcases mem_upsert _ _ _ _ h1 with h2 | h2
      · rcases mem_upsertAll _ _ _ h2 with h3 | h3
        · left; exact h3
        · right; right
          obtain ⟨x, hx, rfl⟩ := List.mem_map.mp h3
          exact ⟨k, List.mem_cons_self, x.1, x.2, rfl⟩
      · right; left; exact ⟨k, List.mem_cons_self, h2⟩
    · right; left; exact ⟨k', List.mem_cons_of_mem _ hk', e⟩
    · right; right; exact ⟨k', List.mem_cons_of_mem _ hk', s, v, e⟩

theorem nested_module_a (s : String) : (partitionKey (("module_a" ++ "__") ++ s)).2 ≠ none := by
  have : (("module_a" ++ "__") ++ s).toList = 'm' :: 'o' :: 'd' :: 'u' :: 'l' :: 'e' :: '_' :: 'a' :: '_' :: '_' :: s.toList := by
    rw [String.toList_append]; rfl
  simp [partitionKey, this, Art.Params.partitionChars]

theorem nested_module_b (s : String) : (partitionKey (("module_b" ++ "__") ++ s)).2 ≠ none := by
  have : (("module_b" ++ "__") ++ s).toList = 'm' :: 'o' :: 'd' :: 'u' :: 'l' :: 'e' :: '_' :: 'b' :: '_' :: '_' :: s.toList := by
    rw [String.toList_append]; rfl
  simp [partitionKey, this, Art.Params.partitionChars]

/-- C19 (a), in general: **`est.set_params(**est.get_params())` on the generated code changes no observable parameter
of a BARTMAP** — the instance `__dict__` (the `params` dict and the two modules) after the call is the one before it,
whatever the call returns.  For every well-formed estimator object (`params` a dict of `__`-free, distinct names that no
attribute shadows), all modules `a`, `b` held in the attributes `module_a` / `module_b`, and all nested estimators whose
`get_params()` returns (`da`, `db` arbitrary).  What is delegated is `module.set_params(**module.get_params())` for each
module, which `Art.GenSpec.Params.gen_set_get_noop` shows to be a no-op on an elementary module. -/
theorem BARTMAP_set_get_noop (ext : Q2.Ext) (e : Est) (hwf : e.WF) (c : List (Nat × Store)) (a b : Val)
    (da db : Store)
    (ha : get? e.attrs "module_a" = some a) (hb : get? e.attrs "module_b" = some b)
    (hpa : get? e.params "module_a" = none) (hpb : get? e.params "module_b" = none)
    (hpp : get? e.params "params" = none)
    (hga : ext.get_params a (toWorld e c) = (.ok da, toWorld e c))
    (hgb : ext.get_params b (toWorld e c) = (.ok db, toWorld e c)) :
    ∃ ps, BARTMAP.get_params ext true (toWorld e c) = (.ok ps, toWorld e c) ∧
      (BARTMAP.set_params ext Q.logSetParams ps (toWorld e c)).2.self = (toWorld e c).self := by
  have hne : ∀ k : String, k ≠ "params" → Q.dget (toWorld e c).self k = (get? e.attrs k).map Q.Slot.val := by
    intro k hk
    have : ¬ ("params" = k) := fun h => hk h.symm
    simp [toWorld, toSelf, Q.dget, this, dget_attrs]
  have hgp := BARTMAP_get_params_spec ext (toWorld e c) e.params a b da db true
    (by simp [toWorld, toSelf, Q.dget]) (by rw [hne _ (by decide), ha]; rfl) (by rw [hne _ (by decide), hb]; rfl) hga hgb
  refine ⟨_, hgp, ?_⟩
  have hcls := mem_getParamsFlat [⟨"module_a", a, da⟩, ⟨"module_b", b, db⟩] e.params
  have hnp : get? (getParamsFlat e.params [⟨"module_a", a, da⟩, ⟨"module_b", b, db⟩]) "params" = none := by
    apply Art.Params.get?_eq_none_iff.mpr
    intro hm
    obtain ⟨kv, hkv, hk⟩ := List.mem_map.mp hm
    rcases hcls kv hkv with h | ⟨k, hk', e'⟩ | ⟨k, hk', s, v, e'⟩
    · have : kv.1 ∈ keys e.params := List.mem_map.mpr ⟨kv, h, rfl⟩
      rw [hk] at this
      exact absurd (Art.Params.get?_eq_none_iff.mp hpp) (fun h => h this)
    · simp only [List.mem_cons, List.mem_nil_iff, or_false] at hk'
      rcases hk' with rfl | rfl <;> (rw [e'] at hk; simp at hk)
    · simp only [List.mem_cons, List.mem_nil_iff, or_false] at hk'
      have hpl : (partitionKey "params").2 = none := by decide
      rcases hk' with rfl | rfl
      · rw [e'] at hk; simp only [] at hk; rw [← hk] at hpl; exact absurd hpl (nested_module_a s)
      · rw [e'] at hk; simp only [] at hk; rw [← hk] at hpl; exact absurd hpl (nested_module_b s)
  rw [BARTMAP_set_params_spec ext _ e c _ hgp hnp]
  simp only [ofSetRes, toWorld]
  rw [bSetParams_fixed]
  intro kv hkv hs
  rcases hcls kv hkv with h | ⟨k, hk', e'⟩ | ⟨k, hk', s, v, e'⟩
  · have hmem : kv.1 ∈ keys e.params := List.mem_map.mpr ⟨kv, h, rfl⟩
    rw [(plain_fst (hwf.plain _ hmem)).1]
    left
    exact Art.Params.get?_of_mem_nodup hwf.nodup (by cases kv; exact h)
  · simp only [List.mem_cons, List.mem_nil_iff, or_false] at hk'
    rcases hk' with rfl | rfl
    · rw [e']; right
      have : (partitionKey "module_a").1 = "module_a" := by decide
      simp only [this]; exact ⟨hpa, ha⟩
    · rw [e']; right
      have : (partitionKey "module_b").1 = "module_b" := by decide
      simp only [this]; exact ⟨hpb, hb⟩
  · simp only [List.mem_cons, List.mem_nil_iff, or_false] at hk'
    rcases hk' with rfl | rfl
    · rw [e'] at hs; exact absurd hs (nested_module_a s)
    · rw [e'] at hs; exact absurd hs (nested_module_b s)

/-! #### on a concrete BARTMAP (non-vacuity: the generated code run on data) -/

/-- `BARTMAP(FuzzyART(0.5, 0.0, 1.0) #7, FuzzyART(0.5, 0.0, 1.0) #9, eta=0.5)`, by the generated constructor -/
def bW : Q.World := (BARTMAP.__init__ (.mod 7) (.mod 9) (.flt half) ⟨[], []⟩).2

abbrev bExt := extOf (objs half half)
abbrev bSet := BARTMAP.set_params bExt Q.logSetParams

/-- the constructor: the object; an `int` eta is rejected and nothing is stored -/
theorem BARTMAP_init_example :
    outcome (BARTMAP.__init__ (.mod 7) (.mod 9) (.flt half) ⟨[], []⟩)
      = (none, ⟨[("params", .dict [("eta", .flt half)]), ("module_a", .val (.mod 7)), ("module_b", .val (.mod 9))], []⟩) ∧
    outcome (BARTMAP.__init__ (.mod 7) (.mod 9) (.int 1) ⟨[], []⟩) = (some .assert, ⟨[], []⟩) := by kernel_decide

/-- `get_params()` on it: own parameter, then per module its parameters and the module; `bW` is untouched -/
theorem BARTMAP_get_params_example :
    (BARTMAP.get_params bExt true bW).1.toOption
      = some [("eta", .flt half), ("module_a__rho", .flt half), ("module_a__alpha", .flt 0), ("module_a__beta", .flt 1),
          ("module_a", .mod 7), ("module_b__rho", .flt half), ("module_b__alpha", .flt 0), ("module_b__beta", .flt 1),
          ("module_b", .mod 9)] ∧ (BARTMAP.get_params bExt true bW).2 = bW := by kernel_decide

/-- C19 (a) on this object: `est.set_params(**est.get_params())` returns normally, leaves the BARTMAP exactly as it
is, and hands each module exactly its own parameters (for which `BaseART.set_params` is a no-op:
`Art.GenSpec.Params.gen_set_get_noop`). -/
theorem BARTMAP_set_get_example :
    ∃ ps, (BARTMAP.get_params bExt true bW).1.toOption = some ps ∧
      outcome (bSet ps bW) = (none, { bW with calls := [(7, (fz half).params), (9, (fz half).params)] }) :=
  ⟨_, BARTMAP_get_params_example.1, by kernel_decide⟩

/-- (b), (c), attribute mirroring and rejection on this object, all on the generated code -/
theorem BARTMAP_set_examples :
    -- (b) the nested value goes to the new module #3, not to the replaced #9
    outcome (bSet [("module_b", .mod 3), ("module_b__rho", .flt 1)] bW)
      = (none, ⟨[("params", .dict [("eta", .flt half)]), ("module_a", .val (.mod 7)), ("module_b", .val (.mod 3))],
          [(3, [("rho", .flt 1)])]⟩) ∧
    -- the same with the nested key first
    outcome (bSet [("module_b__rho", .flt 1), ("module_b", .mod 3)] bW)
      = (none, ⟨[("params", .dict [("eta", .flt half)]), ("module_a", .val (.mod 7)), ("module_b", .val (.mod 3))],
          [(3, [("rho", .flt 1)])]⟩) ∧
    -- a new eta equals constructing with it
    outcome (bSet [("eta", .flt 1)] bW) = outcome (BARTMAP.__init__ (.mod 7) (.mod 9) (.flt 1) ⟨[], []⟩) ∧
    -- (c) unknown names, also after valid ones: ValueError, nothing assigned
    outcome (bSet [("eta", .flt 1), ("module_a", .mod 3), ("zz", .flt 1)] bW) = (some .value, bW) ∧
    outcome (bSet [("module_c__rho", .flt 1)] bW) = (some .value, bW) ∧
    -- an int eta is rejected before the new module is stored
    outcome (bSet [("module_a", .mod 3), ("eta", .int 1)] bW) = (some .assert, bW) := by kernel_decide

/-- attribute access mirrors the parameters (`__dict__` first, then the generated `__getattr__`) -/
theorem BARTMAP_attr_examples :
    (Q.pyGetattr BARTMAP.__getattr__ "eta" bW).1 = .ok (.val (.flt half)) ∧
    (Q.pyGetattr BARTMAP.__getattr__ "module_a" bW).1 = .ok (.val (.mod 7)) ∧
    (Q.pyGetattr BARTMAP.__getattr__ "nope" bW).1 = .error .attr ∧
    outcome (BARTMAP.__setattr__ "eta" (.val (.flt 1)) bW)
      = (none, ⟨[("params", .dict [("eta", .flt 1)]), ("module_a", .val (.mod 7)), ("module_b", .val (.mod 9))], []⟩) :=
  ⟨rfl, rfl, rfl, by kernel_decide⟩

/-! ## FusionART (on the wide world `Q3.World`) -/

theorem bind3 {β γ : Type} (m : Q3.M β) (f : β → Q3.M γ) (w : Q3.World) :
    (m >>= f) w = match m w with
      | (.ok b, w') => f b w'
      | (.error e, w') => (.error e, w') := by
  show Q.Py.bind m f w = _
  unfold Q.Py.bind
  rcases m w with ⟨r | r, w'⟩ <;> rfl

theorem pure3 {β : Type} (b : β) (w : Q3.World) : (pure b : Q3.M β) w = (.ok b, w) := rfl

/-! ### `get_channel_position_tuples` -/

theorem positions_loop (body : Rat → List (Rat × Rat) × Rat → Q3.M (List (Rat × Rat) × Rat))
    (hb : ∀ d pos s w, body d (pos, s) w = (.ok (pos ++ [(s, s + d)], s + d), w)) (w : Q3.World) :
    ∀ (l : List Rat) (pos : List (Rat × Rat)) (s : Rat),
    Q.Py.forEach l (pos, s) body w = (.ok (pos ++ channelRanges s l, l.foldl (· + ·) s), w) := by
  intro l
  induction l with
  | nil => intro pos s; simp [Q.Py.forEach, Q.Py.pure, channelRanges]
  | cons d r ih =>
    intro pos s
    simp only [Q.Py.forEach, Q.Py.bind, hb, ih, channelRanges, List.foldl_cons, List.append_assoc, List.cons_append,
      List.nil_append]

/-- **`get_channel_position_tuples`, generated = reference**: a list or an array of widths gives
`channelRanges 0 widths`, anything else is not iterable (`TypeError`); nothing is written -/
theorem get_channel_position_tuples_spec (v : Val) (w : Q3.World) :
    get_channel_position_tuples v w
      = (match Q3.iterNums v with
          | .ok l => .ok (channelRanges 0 l)
          | .error e => .error e, w) := by
  simp only [get_channel_position_tuples, bind3, Q.Py.lift]
  cases Q3.iterNums v with
  | error e => rfl
  | ok l =>
    simp only []
    rw [positions_loop _ (fun d pos s w => by simp [bind3, pure3]) w l [] 0]
    simp [pure3]

/-- the k-th range: it starts at the sum of the widths before it and ends one width later — consecutive, half-open,
starting at `s` -/
theorem channelRanges_get (l : List Rat) : ∀ (s : Rat) (k : Nat) (h : k < l.length),
    (channelRanges s l)[k]? = some (s + (l.take k).sum, s + (l.take k).sum + l[k]) := by
  induction l with
  | nil => intro s k h; cases h
  | cons d r ih =>
    intro s k h
    cases k with
    | zero => simp [channelRanges, Rat.add_zero]
    | succ k =>
      have h' : k < r.length := by simpa using h
      simp only [channelRanges, List.getElem?_cons_succ, ih (s + d) k h', List.take_succ_cons, List.sum_cons,
        List.getElem_cons_succ, Rat.add_assoc]

theorem channelRanges_length (l : List Rat) (s : Rat) : (channelRanges s l).length = l.length := by
  induction l generalizing s with
  | nil => rfl
  | cons d r ih => simp [channelRanges, ih]

theorem sum_take_succ (l : List Rat) (k : Nat) (h : k < l.length) :
    (l.take (k + 1)).sum = (l.take k).sum + l[k] := by
  induction l generalizing k with
  | nil => cases h
  | cons d r ih =>
    cases k with
    | zero => simp [Rat.add_zero, Rat.zero_add]
    | succ k =>
      have h' : k < r.length := by simpa using h
      simp only [List.take_succ_cons, List.sum_cons, ih k h', List.getElem_cons_succ, Rat.add_assoc]

/-- each range starts where the previous one ends -/
theorem channelRanges_consecutive (l : List Rat) (s : Rat) (k : Nat) (h : k + 1 < l.length) :
    ∃ a b c, (channelRanges s l)[k]? = some (a, b) ∧ (channelRanges s l)[k + 1]? = some (b, c) := by
  have h0 : k < l.length := by omega
  refine ⟨s + (l.take k).sum, s + (l.take k).sum + l[k], s + (l.take (k + 1)).sum + l[k + 1],
    channelRanges_get l s k h0, ?_⟩
  rw [channelRanges_get l s (k + 1) h, sum_take_succ l k h0]
  simp only [Rat.add_assoc]

/-! ### `FusionART.validate_params` -/

/-- **`FusionART.validate_params`, generated = reference** for every dict and every `sum`: present, iterable, every
entry in `[0, 1]`, the sum `== 1`; the last assert (`isinstance(…, (np.ndarray, list))`) can no longer fail -/
theorem FusionART_validate_spec (num : Q3.Num) (p : Store) :
    FusionART.validate_params num p = fusionValidate num.sum p := by
  simp only [FusionART.validate_params, fusionValidate, Q.assert, dhas_eq, Q.getitem, dget_eq]
  cases hg : get? p "gamma_values" with
  | none => rfl
  | some g =>
    have key : ∀ (l : List Rat) (g : Val), Q3.iterNums g = .ok l →
        ((Q.isinstance g Q.PyType.ndarray) || (Q3.isList g)) = true →
        (do Q.assert (List.all (List.map (fun g => (decide (g ≤ (1 : Rat)) && decide ((0 : Rat) ≤ g))) (← Q3.iterNums g)) id)
            Q.assert (decide ((← num.sum g) = (1 : Rat)))
            let t1__ ← (Except.ok g : Except Err Val)
            Q.assert ((Q.isinstance t1__ Q.PyType.ndarray) || (Q3.isList t1__))
            pure () : Except Err Unit)
          = (match Q3.iterNums g with
            | .error e => .error e
            | .ok l =>
              if l.all (fun x => decide (x ≤ 1) && decide (0 ≤ x)) then
                match num.sum g with
                | .error e => .error e
                | .ok s => if s = 1 then .ok () else .error .assert
              else .error .assert) := by
      intro l g hl hi
      rw [hl]
      simp only [bind, Except.bind, pure, Except.pure, Q.assert, List.all_map, Function.comp_def, hi, id]
      cases hall : l.all (fun x => decide (x ≤ 1) && decide (0 ≤ x)) with
      | false => simp [hall]
      | true =>
        simp only [hall, if_true]
        cases num.sum g with
        | error e => rfl
        | ok s => by_cases hs : s = 1 <;> simp [hs]
    cases g with
    | lst l => exact key l (.lst l) rfl rfl
    | arr l => exact key l (.arr l) rfl rfl
    | _ => rfl

/-! ### `FusionART.__init__` -/

/-- an attribute store through the generated (wide) `BaseART.__setattr__` on an instance whose `params` dict does not
have the name: `object.__setattr__` -/
theorem setattr3_fresh (p : Store) (rest : List (String × Q3.Slot)) (k : String) (s : Q3.Slot)
    (c : List (Nat × Store)) (h : List (List (String × Q3.Slot)))
    (hk : Q.dhas p k = false) (hkp : k ≠ "params") :
    BaseART.__setattr__ k s ⟨("params", .dict p) :: rest, c, h⟩
      = (.ok (), ⟨("params", .dict p) :: Q.dset rest k s, c, h⟩) := by
  have hkp' : ¬ ("params" = k) := fun e => hkp e.symm
  simp [BaseART.__setattr__, bind3, pure3, Q3.selfDict, Q.Py.lift, Q3.slotHas, Q.dgetD, Q.dget, hk, Q3.objectSetattr,
    Q.dset, hkp']

theorem setattr3_params (p : Store) (c : List (Nat × Store)) (h : List (List (String × Q3.Slot))) :
    BaseART.__setattr__ "params" (.dict p) ⟨[], c, h⟩ = (.ok (), ⟨[("params", .dict p)], c, h⟩) := by
  simp [BaseART.__setattr__, bind3, pure3, Q3.selfDict, Q.Py.lift, Q3.slotHas, Q.dgetD, Q.dget, Q.dhas,
    Q3.objectSetattr, Q.dset]

theorem dhas_gamma (g : Val) (k : String) (hk : k ≠ "gamma_values") :
    Q.dhas ([("gamma_values", g)] : Store) k = false := by
  have : ¬ ("gamma_values" = k) := fun e => hk e.symm
  simp [Q.dhas, Q.dget, this]

/-- the part of the constructor after the length assert, for a `channel_dims` that iterates as `l` -/
theorem FusionART_init_tail (num : Q3.Num) (modules : List Val) (g dimsV : Val) (l : List Rat)
    (hi : Q3.iterNums dimsV = .ok l) (c : List (Nat × Store)) (h : List (List (String × Q3.Slot))) :
    (do let params := ([("gamma_values", g)] : Store)
        BaseART.__init__ (fun p => Q.Py.lift (FusionART.validate_params num p)) params
        BaseART.__setattr__ "modules" (Q3.Slot.vals modules)
        BaseART.__setattr__ "n" (Q3.Slot.num (((List.length (← Q3.selfVals BaseART.__getattr__ "modules")) : Nat) : Rat))
        BaseART.__setattr__ "channel_dims" (Q3.Slot.val dimsV)
        BaseART.__setattr__ "_channel_indices" (Q3.Slot.ranges (← get_channel_position_tuples (← Q3.selfAttrB BaseART.__getattr__ "channel_dims")))
        BaseART.__setattr__ "_weight_indices" (Q3.Slot.ranges (← Q3.selfRanges BaseART.__getattr__ "_channel_indices"))
        BaseART.__setattr__ "dim_" (Q3.Slot.num (← Q.Py.lift (num.sum dimsV)))
        pure () : Q3.M Unit) ⟨[], c, h⟩
      = (match fusionValidate num.sum [("gamma_values", g)] with
          | .error e => (.error e, ⟨[], c, h⟩)
          | .ok () =>
            match num.sum dimsV with
            | .ok total => (.ok (), ⟨fusionDict modules g dimsV l total, c, h⟩)
            | .error e => (.error e, ⟨fusionDictCore modules g dimsV l, c, h⟩)) := by
  simp only [BaseART.__init__, bind3, Q.Py.lift, FusionART_validate_spec]
  cases fusionValidate num.sum [("gamma_values", g)] with
  | error e => rfl
  | ok u =>
    cases u
    simp only [setattr3_params]
    cases hs : num.sum dimsV with
    | error e =>
      simp [setattr3_fresh, Q.dhas, Q.dget, Q.dset, bind3, pure3, Q3.selfVals, Q3.selfAttrB, Q3.selfRanges,
        Q3.pyGetattr, Q3.asVal, get_channel_position_tuples_spec, hi, hs, fusionDictCore]
    | ok total =>
      simp [setattr3_fresh, Q.dhas, Q.dget, Q.dset, bind3, pure3, Q3.selfVals, Q3.selfAttrB, Q3.selfRanges,
        Q3.pyGetattr, Q3.asVal, get_channel_position_tuples_spec, hi, hs, fusionDict, fusionDictCore]

/-- **`FusionART.__init__`, generated = reference** (`constructFusion`), for every list of modules, every
`gamma_values` / `channel_dims` value, every `sum`, call log and heap: the outcome and the instance `__dict__` when the
call ends; the call log and the heap are untouched — the constructor has no access to any member of the modules (the
generated definition takes no `ext`): it does not touch their attributes. -/
theorem FusionART_init_spec (num : Q3.Num) (modules : List Val) (g dimsV : Val) (c : List (Nat × Store))
    (h : List (List (String × Q3.Slot))) :
    FusionART.__init__ num modules g dimsV ⟨[], c, h⟩
      = ((constructFusion num.sum modules g dimsV).1, ⟨(constructFusion num.sum modules g dimsV).2, c, h⟩) := by
  have tail := fun l hi => FusionART_init_tail num modules g dimsV l hi c h
  simp only [bind3, pure3, Q.Py.lift] at tail
  simp only [FusionART.__init__, constructFusion, bind3, pure3, Q.Py.lift]
  cases hg : Q3.lenVal g with
  | error e => rfl
  | ok ng =>
    simp only []
    by_cases hlen : modules.length = ng
    · simp only [hlen, if_true, bind3, pure3, Q.Py.lift]
      cases dimsV with
      | lst l =>
        simp only [Q3.lenVal, Q3.iterNums]
        by_cases hnd : ng = l.length
        · simp only [hnd, decide_true, Q.assert, if_true]
          rw [tail l rfl]
          cases fusionValidate num.sum [("gamma_values", g)] with
          | error e => rfl
          | ok u => cases u; cases num.sum (.lst l) <;> rfl
        · simp [hnd, Q.assert]
      | arr l =>
        simp only [Q3.lenVal, Q3.iterNums]
        by_cases hnd : ng = l.length
        · simp only [hnd, decide_true, Q.assert, if_true]
          rw [tail l rfl]
          cases fusionValidate num.sum [("gamma_values", g)] with
          | error e => rfl
          | ok u => cases u; cases num.sum (.arr l) <;> rfl
        · simp [hnd, Q.assert]
      | _ => rfl
    · simp only [hlen, if_false]; rfl

/-- the successful case, spelled out: `_channel_indices` (= `_weight_indices`) are the consecutive half-open ranges of
`channel_dims` (`channelRanges_get`, `channelRanges_consecutive`), `dim_` is Python's `sum(channel_dims)`, `n` the
number of modules, and nothing but the eleven attributes exists -/
theorem FusionART_init_ok (num : Q3.Num) (modules : List Val) (g : Val) (l : List Rat) (total : Rat)
    (c : List (Nat × Store)) (h : List (List (String × Q3.Slot)))
    (hlg : Q3.lenVal g = .ok modules.length) (hll : modules.length = l.length)
    (hv : fusionValidate num.sum [("gamma_values", g)] = .ok ()) (hs : num.sum (.lst l) = .ok total) :
    FusionART.__init__ num modules g (.lst l) ⟨[], c, h⟩
      = (.ok (), ⟨fusionDict modules g (.lst l) l total, c, h⟩) := by
  rw [FusionART_init_spec]
  simp only [constructFusion, hlg]
  simp [Q3.lenVal, Q3.iterNums, hll, hv, hs]

/-- `dim_` is the end of the last range when `sum` is exact on `channel_dims` (a list of ints) -/
theorem channelRanges_last (l : List Rat) (s : Rat) (hne : l ≠ []) :
    ((channelRanges s l).getLast?).map (·.2) = some (s + l.sum) := by
  induction l generalizing s with
  | nil => exact absurd rfl hne
  | cons d r ih =>
    cases r with
    | nil => simp [channelRanges, Rat.add_zero]
    | cons d' r' =>
      have := ih (s + d) (by simp)
      simp only [channelRanges] at this ⊢
      rw [List.getLast?_cons_cons, this]
      simp [Rat.add_assoc]

/-! ### `FusionART.get_params` -/

theorem fusion_gp_loop (ext : Q3.Ext) (deep : Val → Store) (w : Q3.World)
    (body : Nat × Val → Store → Q3.M Store)
    (hb : ∀ i m out, ext.get_params m w = (.ok (deep m), w) →
      body (i, m) out w = (.ok (upsert (upsertAll out (prefixed (Q2.moduleName i) (deep m))) (Q2.moduleName i) m), w)) :
    ∀ (ms : List Val) (n : Nat) (out : Store), (∀ m ∈ ms, ext.get_params m w = (.ok (deep m), w)) →
    Q.Py.forEach (Q2.enumerate.go n ms) out body w
      = (.ok (((Q2.enumerate.go n ms).map (fun im => (⟨Q2.moduleName im.1, im.2, deep im.2⟩ : KidView))).foldl
          (fun out k => upsert (upsertAll out (prefixed k.name k.deep)) k.name k.obj) out), w) := by
  intro ms
  induction ms with
  | nil => intro n out _; rfl
  | cons m r ih =>
    intro n out h
    simp only [Q2.enumerate.go, Q.Py.forEach, Q.Py.bind, hb n m out (h m List.mem_cons_self), List.map_cons,
      List.foldl_cons]
    exact ih (n + 1) _ (fun m' hm => h m' (List.mem_cons_of_mem _ hm))

/-- **`FusionART.get_params`, generated = reference**: `getParamsFlat params (fusionKids deep modules)` — a copy of
`params`, then for module `i` its parameters as `module_i__k` and the module itself as `module_i` — and the object is NOT
touched (`self.params` is what it was: the FusionART half of the former defect F43).  For every instance `__dict__`
holding a params dict and a module list, every nested estimator whose `get_params()` returns, whatever `deep`. -/
theorem FusionART_get_params_spec (ext : Q3.Ext) (deep : Val → Store) (w : Q3.World) (p : Store) (ms : List Val)
    (dp : Bool) (hp : Q.dget w.self "params" = some (.dict p)) (hm : Q.dget w.self "modules" = some (.vals ms))
    (hext : ∀ m ∈ ms, ext.get_params m w = (.ok (deep m), w)) :
    FusionART.get_params ext dp w = (.ok (getParamsFlat p (fusionKids deep ms)), w) := by
  have h1 : Q3.selfParams w = (.ok p, w) := by simp [Q3.selfParams, hp]
  have h2 : Q3.selfVals BaseART.__getattr__ "modules" w = (.ok ms, w) := by simp [Q3.selfVals, Q3.pyGetattr, hm]
  simp only [FusionART.get_params, bind3, h1, h2, Q2.enumerate]
  rw [fusion_gp_loop ext deep w _ _ ms 0 p hext]
  · simp [pure3, getParamsFlat, fusionKids, Q2.enumerate]
  · intro i m out hg
    simp [bind3, pure3, hg, Q.items, dupdate_eq, dset_eq, prefixed, Q2.moduleName]

/-! ## DeepARTMAP, FALCON, TD_FALCON: the constructors -/

/-- **`DeepARTMAP.__init__`, generated = reference**: at least one module (else `AssertionError`, nothing stored),
then `modules`, `layers = []`, `is_supervised = None`; no member of a module is read or written -/
theorem DeepARTMAP_init_spec (modules : List Val) (c : List (Nat × Store)) (h : List (List (String × Q3.Slot))) :
    DeepARTMAP.__init__ modules ⟨[], c, h⟩
      = if modules = [] then (.error .assert, ⟨[], c, h⟩) else (.ok (), ⟨deepDict modules, c, h⟩) := by
  cases modules with
  | nil => rfl
  | cons m r =>
    simp [DeepARTMAP.__init__, bind3, pure3, Q.Py.lift, Q.assert, Q3.objectSetattr, Q.dset, deepDict]

/-- **`FALCON.__init__`, generated = reference**: it constructs ONE new object — a FusionART over the modules
`[state_art, action_art, reward_art]` IN THIS ORDER with the given `gamma_values` and `channel_dims` — puts it on the
heap and stores the reference as `fusion_art`; when that constructor raises, the exception propagates and the FALCON has
no attribute.  For all arguments, call logs and heaps. -/
theorem FALCON_init_spec (num : Q3.Num) (s a r g d : Val) (c : List (Nat × Store))
    (h : List (List (String × Q3.Slot))) :
    FALCON.__init__ num s a r g d ⟨[], c, h⟩
      = match constructFusion num.sum [s, a, r] g d with
        | (.ok (), obj) => (.ok (), ⟨[("fusion_art", .ref h.length)], c, h ++ [obj]⟩)
        | (.error e, _) => (.error e, ⟨[], c, h⟩) := by
  simp only [FALCON.__init__, bind3, pure3, Q3.newObject, FusionART_init_spec]
  rcases constructFusion num.sum [s, a, r] g d with ⟨x | u, obj⟩
  · rfl
  · cases u; simp [Q3.objectSetattr, Q.dset]

/-- **`TD_FALCON.__init__`, generated = reference**: `td_alpha` and `td_lambda` are stored under their own names
FIRST, then FALCON's constructor runs (same FusionART, same module order); when it raises, the two td parameters are
already stored. -/
theorem TD_FALCON_init_spec (num : Q3.Num) (s a r g d ta tl : Val) (c : List (Nat × Store))
    (h : List (List (String × Q3.Slot))) :
    TD_FALCON.__init__ num s a r g d ta tl ⟨[], c, h⟩
      = match constructFusion num.sum [s, a, r] g d with
        | (.ok (), obj) =>
          (.ok (), ⟨[("td_alpha", .val ta), ("td_lambda", .val tl), ("fusion_art", .ref h.length)], c, h ++ [obj]⟩)
        | (.error e, _) => (.error e, ⟨[("td_alpha", .val ta), ("td_lambda", .val tl)], c, h⟩) := by
  simp only [TD_FALCON.__init__, FALCON.__init__, bind3, pure3, Q3.newObject, FusionART_init_spec, Q3.objectSetattr,
    Q.dset]
  rcases constructFusion num.sum [s, a, r] g d with ⟨x | u, obj⟩
  · simp
  · cases u; simp [Q.dset]

/-- FALCON over a valid configuration, spelled out: the heap object is the FusionART `__dict__` with
`modules = [state, action, reward]`, `n = 3`, the ranges of `channel_dims` and `dim_` -/
theorem FALCON_init_ok (num : Q3.Num) (s a r g : Val) (l : List Rat) (total : Rat) (c : List (Nat × Store))
    (h : List (List (String × Q3.Slot)))
    (hlg : Q3.lenVal g = .ok 3) (hll : l.length = 3)
    (hv : fusionValidate num.sum [("gamma_values", g)] = .ok ()) (hs : num.sum (.lst l) = .ok total) :
    FALCON.__init__ num s a r g (.lst l) ⟨[], c, h⟩
      = (.ok (), ⟨[("fusion_art", .ref h.length)], c, h ++ [fusionDict [s, a, r] g (.lst l) l total]⟩) := by
  rw [FALCON_init_spec]
  simp only [constructFusion, hlg]
  simp [Q3.lenVal, Q3.iterNums, hll, hv, hs]

/-! ### non-vacuity: the generated wide-world code run on data -/

/-- a `sum` that is exact (what Python's `sum` is on ints, and on floats whose partial sums are representable) -/
def exactNum : Q3.Num := ⟨fun v => match Q3.iterNums v with | .ok l => .ok l.sum | .error e => .error e⟩

/-- the exception raised (if any) and the final state -/
def outcome3 (r : Except Err Unit × Q3.World) : Option Err × Q3.World :=
  (match r.1 with
    | .ok _ => none
    | .error x => some x, r.2)

def quarter : Rat := mkRat 1 4

/-- `FusionART([m7, m9], [0.5, 0.5], [2, 3])`, and what the constructor rejects: a length mismatch, a gamma outside
`[0, 1]`, gammas that do not sum to 1, a `channel_dims` that is no list — nothing is stored in any of these cases -/
theorem FusionART_init_example :
    outcome3 (FusionART.__init__ exactNum [.mod 7, .mod 9] (.lst [half, half]) (.lst [2, 3]) ⟨[], [], []⟩)
      = (none, ⟨[("params", .dict [("gamma_values", .lst [half, half])]), ("sample_counter_", .val (.int 0)),
          ("weight_sample_counter_", .val (.lst [])), ("d_min_", .val .non), ("d_max_", .val .non),
          ("modules", .vals [.mod 7, .mod 9]), ("n", .num 2), ("channel_dims", .val (.lst [2, 3])),
          ("_channel_indices", .ranges [(0, 2), (2, 5)]), ("_weight_indices", .ranges [(0, 2), (2, 5)]),
          ("dim_", .num 5)], [], []⟩) ∧
    outcome3 (FusionART.__init__ exactNum [.mod 7] (.lst [half, half]) (.lst [2, 3]) ⟨[], [], []⟩)
      = (some .assert, ⟨[], [], []⟩) ∧
    outcome3 (FusionART.__init__ exactNum [.mod 7, .mod 9] (.lst [2, -1]) (.lst [2, 3]) ⟨[], [], []⟩)
      = (some .assert, ⟨[], [], []⟩) ∧
    outcome3 (FusionART.__init__ exactNum [.mod 7, .mod 9] (.lst [half, quarter]) (.lst [2, 3]) ⟨[], [], []⟩)
      = (some .assert, ⟨[], [], []⟩) ∧
    outcome3 (FusionART.__init__ exactNum [.mod 7, .mod 9] (.lst [half, half]) (.int 5) ⟨[], [], []⟩)
      = (some .type, ⟨[], [], []⟩) := by kernel_decide

/-- FALCON / TD_FALCON / DeepARTMAP on data: module order state, action, reward; td parameters under their names -/
theorem FALCON_init_example :
    outcome3 (TD_FALCON.__init__ exactNum (.mod 1) (.mod 2) (.mod 3) (.arr [quarter, quarter, half]) (.lst [4, 2, 1])
        (.flt 1) (.flt half) ⟨[], [], []⟩)
      = (none, ⟨[("td_alpha", .val (.flt 1)), ("td_lambda", .val (.flt half)), ("fusion_art", .ref 0)], [],
          [[("params", .dict [("gamma_values", .arr [quarter, quarter, half])]), ("sample_counter_", .val (.int 0)),
            ("weight_sample_counter_", .val (.lst [])), ("d_min_", .val .non), ("d_max_", .val .non),
            ("modules", .vals [.mod 1, .mod 2, .mod 3]), ("n", .num 3), ("channel_dims", .val (.lst [4, 2, 1])),
            ("_channel_indices", .ranges [(0, 4), (4, 6), (6, 7)]), ("_weight_indices", .ranges [(0, 4), (4, 6), (6, 7)]),
            ("dim_", .num 7)]]⟩) ∧
    outcome3 (FALCON.__init__ exactNum (.mod 1) (.mod 2) (.mod 3) (.arr [quarter, quarter, half]) (.lst [4, 2])
        ⟨[], [], []⟩) = (some .assert, ⟨[], [], []⟩) ∧
    outcome3 (DeepARTMAP.__init__ [] ⟨[], [], []⟩) = (some .assert, ⟨[], [], []⟩) ∧
    outcome3 (DeepARTMAP.__init__ [.mod 4, .mod 5] ⟨[], [], []⟩)
      = (none, ⟨[("modules", .vals [.mod 4, .mod 5]), ("layers", .val (.lst [])), ("is_supervised", .val .non)], [], []⟩)
    := by kernel_decide

/-- the default `gamma_values` of FALCON, `np.array([0.33, 0.33, 0.34])`: the EXACT sum of the three doubles is
`1 + 2^-54`, not 1 — Python's float `sum` rounds it to `1.0` and the assert passes.  This is why `sum` is a parameter of
the generated definitions and not the exact rational sum. -/
theorem FALCON_default_gamma_sum :
    (match FALCON.defaults with
      | [(_, .arr l)] => l.sum
      | _ => 0) = 1 + mkRat 1 18014398509481984 := by kernel_decide

end Art.GenSpec.Params3
