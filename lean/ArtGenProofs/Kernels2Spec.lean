/-
ArtGenProofs.Kernels2Spec — the definitions *generated from the Python source on every run*
(`ArtGen/Kernels2.lean`, written by `harness/artv/k2trans.py`) are equal, for ALL arguments, to

* the published rules of Bayesian ART and Quadratic Neuron ART in `ArtModel/Kernels2.lean`
  (the non-algebraic primitives `sqrt`, `exp`, `det`, `inv`, `π` are the same parameters on both sides), and
* the geometry accessors `fuzzyBBox`, `fuzzyShrink`, `fuzzyCentre`, `sphCentre`, `ellCentre`, `gaussMean` of
  `ArtModel/Kernels.lean` that the C03 accessor theorems are about.

Hyper-parameters (`p_<key>`) and cache entries (`c_<key>`) are passed to the generated definitions **by name**: which
key of `params` / `cache` a function reads is part of what is proved (reading `cache["s"]` where the code read
`cache["activation"]` renames the binder and the statement no longer elaborates).

The second half proves that `ArtModel/Kernels2.lean` *is* the published rule (running mean, count, covariance
entry formula and symmetry, prior sums to one; quadratic-neuron gradient step) and transports the C03 accessor
theorems to the generated code.
-/
import Mathlib.Algebra.Order.Field.Basic
import Mathlib.Tactic.Ring
import Mathlib.Tactic.NormNum
import Mathlib.Tactic.FieldSimp
import Mathlib.Tactic.Linarith
import ArtGen.Kernels2
import ArtModel.Kernels2
import ArtModel.Prep
import ArtProps.C03
import ArtGenProofs.PrepSpec

namespace Art.GenSpec.K2

set_option linter.unusedSectionVars false

variable {α : Type} [Field α] [LinearOrder α] [IsStrictOrderedRing α]

/-! ### shape lemmas, proved once -/

theorem two_eq : (2 : α) = 1 + 1 := by norm_num

/-- a loop that only appends is a `map` -/
theorem foldl_append_map {β γ : Type} (f : β → γ) (l : List β) (a : List γ) :
    List.foldl (fun acc x => acc ++ [f x]) a l = a ++ l.map f := by
  induction l generalizing a with
  | nil => simp
  | cons x l ih => simp [ih]

/-- a loop that appends to two lists is two `map`s -/
theorem foldl_append_map2 {β γ δ : Type} (f : β → γ) (g : β → δ) (l : List β) (a : List γ) (b : List δ) :
    List.foldl (fun (acc : List γ × List δ) x => (acc.1 ++ [f x], acc.2 ++ [g x])) (a, b) l =
      (a ++ l.map f, b ++ l.map g) := by
  induction l generalizing a b with
  | nil => simp
  | cons x l ih => simp [ih]

theorem map_getD_range (w : List α) (n : Nat) (hn : n ≤ w.length) :
    (List.range n).map (fun i => w.getD i 0) = w.take n := by
  apply List.ext_getElem
  · simp [hn]
  · intro i h1 h2
    simp at h1
    simp [List.getD_eq_getElem?_getD, List.getElem?_eq_getElem (show i < w.length by omega)]

section Transcendental
variable [Transc α] [LinAlg α]

theorem powNat_eq (a : α) (n : Nat) : powNat a n = a ^ n := by
  induction n with
  | zero => simp [powNat]
  | succ n ih => simp [powNat, ih, pow_succ]

/-! ### Bayesian ART: generated = published rule -/

/-- activation = Gaussian density × prior -/
theorem bayes_choice (dim : Nat) (allW : List (List α)) (x w : List α) :
    Gen2.BayesianART.category_choice Transc.sqrt Transc.exp LinAlg.det LinAlg.inv LinAlg.pi allW dim x w =
      bayesChoice dim allW x w := by
  unfold Gen2.BayesianART.category_choice Gen2.BayesianART.pi2 bayesChoice bayesLik bayesPrior bayesMean bayesCov
    bayesCount
  simp only [two_eq, powNat_eq, mul_comm (LinAlg.pi : α) (1 + 1)]
  rfl

/-- the cache entries `cov`, `det_cov` are the stored covariance and its determinant -/
theorem bayes_choice_cache (dim : Nat) (allW : List (List α)) (x w : List α) :
    Gen2.BayesianART.category_choice_cache_cov Transc.sqrt Transc.exp LinAlg.det LinAlg.inv LinAlg.pi allW dim x w =
        bayesCov dim w ∧
    Gen2.BayesianART.category_choice_cache_det_cov Transc.sqrt Transc.exp LinAlg.det LinAlg.inv LinAlg.pi allW dim x w =
        LinAlg.det (bayesCov dim w) := ⟨rfl, rfl⟩

/-- the learning rule (no cached `new_w`) -/
theorem bayes_update (dim : Nat) (x w : List α) :
    Gen2.BayesianART.update dim (c_new_w := none) x w = bayesUpdate dim x w := by
  unfold Gen2.BayesianART.update bayesUpdate bayesCovStep runningMean bayesMean bayesCov bayesCount vsub
  simp only [List.zipWith_map]

/-- with a cached `new_w` the update returns it … -/
theorem bayes_update_some (dim : Nat) (v x w : List α) :
    Gen2.BayesianART.update dim (c_new_w := some v) x w = v := rfl

/-- the match value: `det` of the covariance the category would have after learning the sample -/
theorem bayes_match (dim : Nat) (x w : List α) :
    Gen2.BayesianART.match_criterion LinAlg.det dim (c_new_w := none) x w = bayesMatch dim x w := by
  unfold Gen2.BayesianART.match_criterion bayesMatch bayesCov
  simp only [bayes_update]

/-- … and what `match_criterion` caches is the updated weight: `update` after `match_criterion` is the rule -/
theorem bayes_update_cached (dim : Nat) (x w : List α) :
    Gen2.BayesianART.update dim
        (c_new_w := some (Gen2.BayesianART.match_criterion_cache_new_w LinAlg.det dim (c_new_w := none) x w)) x w =
      bayesUpdate dim x w := by
  rw [bayes_update_some]
  unfold Gen2.BayesianART.match_criterion_cache_new_w
  simp only [bayes_update]

theorem bayes_new (covInit : List (List α)) (x : List α) :
    Gen2.BayesianART.new_weight (p_cov_init := covInit) x = bayesNew covInit x := rfl

/-! ### Quadratic Neuron ART: generated = published rule -/

theorem qn_choice (dim : Nat) (x w : List α) :
    Gen2.QuadraticNeuronART.category_choice Transc.exp dim x w = qnAct dim x w := by
  unfold Gen2.QuadraticNeuronART.category_choice qnAct qnZ qnW qnB qnS l2sq vsub
  simp only [neg_mul]

/-- the match value is the cached activation -/
theorem qn_match (dim : Nat) (x w : List α) :
    Gen2.QuadraticNeuronART.match_criterion
        (c_activation := Gen2.QuadraticNeuronART.category_choice_cache_activation Transc.exp dim x w) x w = qnAct dim x w := by
  unfold Gen2.QuadraticNeuronART.match_criterion
  exact qn_choice dim x w

/-- the gradient step, fed with the six cache entries that `category_choice` writes -/
theorem qn_update (lrB lrW lrS : α) (dim : Nat) (x w : List α) :
    Gen2.QuadraticNeuronART.update (p_lr_b := lrB) (p_lr_w := lrW) (p_lr_s := lrS)
        (c_s := Gen2.QuadraticNeuronART.category_choice_cache_s Transc.exp dim x w)
        (c_w := Gen2.QuadraticNeuronART.category_choice_cache_w Transc.exp dim x w)
        (c_b := Gen2.QuadraticNeuronART.category_choice_cache_b Transc.exp dim x w)
        (c_z := Gen2.QuadraticNeuronART.category_choice_cache_z Transc.exp dim x w)
        (c_activation := Gen2.QuadraticNeuronART.category_choice_cache_activation Transc.exp dim x w)
        (c_l2norm2_z_b := Gen2.QuadraticNeuronART.category_choice_cache_l2norm2_z_b Transc.exp dim x w) x w =
      qnUpdate lrB lrW lrS dim x w := by
  have hT : Gen2.QuadraticNeuronART.category_choice_cache_activation Transc.exp dim x w = qnAct dim x w :=
    qn_choice dim x w
  rw [hT]
  unfold Gen2.QuadraticNeuronART.update Gen2.QuadraticNeuronART.category_choice_cache_s
    Gen2.QuadraticNeuronART.category_choice_cache_w Gen2.QuadraticNeuronART.category_choice_cache_b
    Gen2.QuadraticNeuronART.category_choice_cache_z Gen2.QuadraticNeuronART.category_choice_cache_l2norm2_z_b
    qnUpdate qnStepW qnStepB qnStepS qnZ qnW qnB qnS l2sq vsub vadd Art.smul
  simp only [two_eq]
  congr 2
  ring

theorem qn_new (sInit : α) (dim : Nat) (x : List α) :
    Gen2.QuadraticNeuronART.new_weight dim (p_s_init := sInit) x = qnNew sInit dim x := rfl

end Transcendental

/-! ### Geometry accessors: generated = the accessor definitions of `ArtModel/Kernels.lean` -/

section Accessors

/-- `get_cluster_centers` of the six classes whose centre is a slice of the stored weight -/
theorem art1_centres (dim : Nat) (allW : List (List α)) :
    Gen2.ART1.get_cluster_centers allW dim = allW.map (fun w => w.drop dim) := rfl

theorem art2_centres (allW : List (List α)) : Gen2.ART2A.get_cluster_centers allW = allW := rfl

theorem ell_centres (dim : Nat) (allW : List (List α)) :
    Gen2.EllipsoidART.get_cluster_centers allW dim = allW.map (ellCentre dim) := rfl

section
variable [Transc α]

theorem sph_centres (allW : List (List α)) :
    Gen2.HypersphereART.get_cluster_centers allW = allW.map sphCentre := rfl

theorem gauss_centres (dim : Nat) (allW : List (List α)) :
    Gen2.GaussianART.get_cluster_centers allW dim = allW.map (gaussMean dim) := rfl

variable [LinAlg α]

theorem bayes_centres (dim : Nat) (allW : List (List α)) :
    Gen2.BayesianART.get_cluster_centers allW dim = allW.map (bayesMean dim) := rfl

theorem qn_centres (dim : Nat) (allW : List (List α)) :
    Gen2.QuadraticNeuronART.get_cluster_centers allW dim = allW.map (qnB dim) := rfl

end

/-- the module function `get_bounding_box(w, n)`, under its own assertion `n <= len(w)/2` -/
theorem fuzzy_bbox (w : List α) (n : Nat) (hn : n ≤ w.length / 2) :
    Gen2.FuzzyART.get_bounding_box w (some n) = fuzzyBBox w n := by
  unfold Gen2.FuzzyART.get_bounding_box fuzzyBBox
  simp only
  have h := foldl_append_map2 (fun i => w.getD i 0)
    (fun i => (1 : α) - w.getD (i + w.length / 2) 0 - w.getD i 0) (List.range n) [] []
  simp only [List.nil_append] at h
  rw [show (List.foldl (fun (x : List α × List α) i_ =>
        match x with
        | (ref_point_, widths_) =>
          (ref_point_ ++ [w.getD i_ 0], widths_ ++ [1 - w.getD (i_ + w.length / 2) 0 - w.getD i_ 0]))
      ([], []) (List.range n)) = _ from h]
  simp only
  rw [map_getD_range w n (by omega)]
  congr 1
  apply List.ext_getElem
  · simp; omega
  · intro i h1 h2
    simp at h1
    have e1 : w[i]? = some (w[i]'(by omega)) := List.getElem?_eq_getElem (by omega)
    have e2 : w[i + w.length / 2]? = some (w[i + w.length / 2]'(by omega)) := List.getElem?_eq_getElem (by omega)
    simp [e1, e2, Nat.add_comm]

/-- `n = None`: all `len(w)/2` dimensions -/
theorem fuzzy_bbox_none (w : List α) :
    Gen2.FuzzyART.get_bounding_box w none = fuzzyBBox w (w.length / 2) := by
  rw [← fuzzy_bbox w (w.length / 2) (le_refl _)]
  rfl

/-- `get_bounding_boxes(n)`: one box per category -/
theorem fuzzy_bboxes (allW : List (List α)) (n : Nat) (hn : ∀ w ∈ allW, n ≤ w.length / 2) :
    Gen2.FuzzyART.get_bounding_boxes allW (some n) = allW.map (fun w => fuzzyBBox w n) := by
  unfold Gen2.FuzzyART.get_bounding_boxes
  exact List.map_congr_left (fun w hw => fuzzy_bbox w n (hn w hw))

/-- one weight of `shrink_clusters`: the two in-place slice additions on the fresh copy are the model's
`fuzzyShrink` (both halves move by `width · ratio`) -/
theorem shrink_one (r : α) (w : List α) :
    Art.Mat.sliceAdd
        (Art.Mat.sliceAdd w 0 (some (w.length / 2))
          (List.map (fun t => t * r) (List.zipWith (fun s t => s - t)
            (List.map (fun t => (1 : α) - t) (List.drop (w.length / 2) w)) (List.take (w.length / 2) w))))
        (w.length / 2) none
        (List.map (fun t => t * r) (List.zipWith (fun s t => s - t)
          (List.map (fun t => (1 : α) - t) (List.drop (w.length / 2) w)) (List.take (w.length / 2) w))) =
      fuzzyShrink r w := by
  have hδ : List.map (fun t => t * r) (List.zipWith (fun s t => s - t)
        (List.map (fun t => (1 : α) - t) (List.drop (w.length / 2) w)) (List.take (w.length / 2) w)) =
      smul r (List.zipWith (fun a b => (1 - b) - a) (List.take (w.length / 2) w) (List.drop (w.length / 2) w)) := by
    unfold smul
    rw [List.zipWith_map_left, List.zipWith_comm]
    exact List.map_congr_left (fun t _ => mul_comm t r)
  rw [hδ]
  generalize hδ' : smul r (List.zipWith (fun a b => (1 - b) - a) (List.take (w.length / 2) w)
    (List.drop (w.length / 2) w)) = δ
  have hlen : δ.length = w.length / 2 := by
    rw [← hδ']; simp [smul]; omega
  have h1 : Art.Mat.sliceAdd w 0 (some (w.length / 2)) δ =
      vadd (List.take (w.length / 2) w) δ ++ List.drop (w.length / 2) w := by
    simp [Art.Mat.sliceAdd, vadd]
  have hA : (vadd (List.take (w.length / 2) w) δ).length = w.length / 2 := by
    simp [vadd, hlen]; omega
  rw [h1]
  unfold fuzzyShrink
  simp only [hδ']
  unfold Art.Mat.sliceAdd
  simp only [Option.getD_none, List.take_length, List.drop_length, List.append_nil]
  rw [List.take_append_of_le_length (by omega), List.take_of_length_le (by omega),
    List.drop_append_of_le_length (by omega), List.drop_of_length_le (by omega)]
  simp [vadd]

/-- `shrink_clusters(ratio)`: the value stored to `self.W`, when all weights have the length of the first one
(the code takes `dim` from `self.W[0]`) -/
theorem fuzzy_shrink (r : α) (allW : List (List α)) (hlen : ∀ w ∈ allW, w.length = (allW.headD []).length) :
    Gen2.FuzzyART.shrink_clusters allW r = allW.map (fuzzyShrink r) := by
  unfold Gen2.FuzzyART.shrink_clusters
  simp only
  rw [foldl_append_map, List.nil_append]
  apply List.map_congr_left
  intro w hw
  rw [← hlen w hw]
  exact shrink_one r w

/-- `FuzzyART.get_cluster_centers`: every weight is passed to `restore_data` as a one-row matrix.  With the
model's `restoreFuzzy` (= de-complement-code, then de-normalise with the remembered bounds; proved equal to the
generated `FuzzyART.restore_data` in `PrepSpec.restore_fuzzy_value`) the centre of an even-length weight is the
de-normalised `fuzzyCentre`. -/
theorem fuzzy_centres (mx mn : List α) (allW : List (List α)) (hev : ∀ w ∈ allW, w.length % 2 = 0) :
    Gen2.FuzzyART.get_cluster_centers
        (fun X => (restoreFuzzy { dmax := some mx, dmin := some mn } X).getD []) allW =
      allW.map (fun w => denormRow (fuzzyCentre w) mx mn) := by
  unfold Gen2.FuzzyART.get_cluster_centers
  apply List.map_congr_left
  intro w hw
  have : deComplementCode [w] = some [deccRow w] := by
    simp [deComplementCode, hev w hw]
  simp only [restoreFuzzy, this, restoreBase, deNormalize, List.map_cons, List.map_nil, Option.getD_some,
    List.flatten_cons, List.flatten_nil, List.append_nil]
  rfl

open Art.GenSpec.Prep in
/-- the same with the binder `restore_data` instantiated by the *generated* `FuzzyART.restore_data` of
`ArtGen/Prep.lean` (written by ptrans), run on an estimator whose remembered bounds `mx`, `mn` have the data
width `d`: the translated accessor composed with the translated `restore_data` is the de-normalised `fuzzyCentre` -/
theorem fuzzy_centres_gen (s : Gen.Prep.Self α) (mx mn : List α) (d : Nat) (hmx : s.d_max_ = some mx)
    (hmn : s.d_min_ = some mn) (h1 : mx.length = d) (h2 : mn.length = d) (allW : List (List α))
    (hlen : ∀ w ∈ allW, w.length = 2 * d) :
    Gen2.FuzzyART.get_cluster_centers
        (fun X => ((Gen.Prep.FuzzyART.restore_data X s).1.toOption).getD []) allW =
      allW.map (fun w => denormRow (fuzzyCentre w) mx mn) := by
  have hb : BoundsFit s (2 * d / 2) := by
    constructor
    · intro m hm; rw [hmx] at hm; cases hm; omega
    · intro m hm; rw [hmn] at hm; cases hm; omega
  have hs : toPrep s = { dmax := some mx, dmin := some mn } := by simp [toPrep, hmx, hmn]
  rw [← fuzzy_centres mx mn allW (fun w hw => by rw [hlen w hw]; omega)]
  unfold Gen2.FuzzyART.get_cluster_centers
  apply List.map_congr_left
  intro w hw
  have hY : Rect [w] (2 * d) := by intro r hr; simp at hr; rw [hr]; exact hlen w hw
  simp only []
  rw [restore_fuzzy_value s [w] (2 * d) hY hb, hs]

end Accessors

/-! ### `ArtModel/Kernels2.lean` is the published rule (not a copy of the code) -/

section Published
variable [Transc α] [LinAlg α]

/-- the count increases by one -/
theorem bayes_update_count (dim : Nat) (x w : List α) :
    bayesCount (bayesUpdate dim x w) = bayesCount w + 1 := by
  simp [bayesUpdate, bayesCount]

/-- the mean block of the updated weight is the running mean of the old mean and the sample -/
theorem bayes_update_mean (dim : Nat) (x w : List α) (hw : dim ≤ w.length) (hx : dim ≤ x.length) :
    bayesMean dim (bayesUpdate dim x w) = runningMean (bayesCount w) (bayesMean dim w) x := by
  unfold bayesUpdate bayesMean
  simp only [List.append_assoc]
  rw [List.take_append_of_le_length (by simp [runningMean]; omega)]
  apply List.take_of_length_le
  simp [runningMean]

/-- … which is the *exact* mean of `n + 1` values: if the old mean is `S / n` (sum of the `n` samples absorbed
so far over their number), the new mean is `(S + x) / (n + 1)`, coordinate by coordinate -/
theorem runningMean_exact (n : α) (hn : 0 < n) (S x : List α) :
    runningMean n (S.map (fun s => s / n)) x = List.zipWith (fun s xi => (s + xi) / (n + 1)) S x := by
  unfold runningMean
  rw [List.zipWith_map_left]
  congr 1
  funext s xi
  exact C03.gaussian_update_is_running_mean n s xi hn

/-- the covariance step, entry by entry: `Σ'ᵢⱼ = n/(n+1) Σᵢⱼ + dᵢ dⱼ / (n+1)` with `d = x − μ'` -/
theorem bayesCovStep_zip (n : α) (cov : List (List α)) (d : List α) :
    bayesCovStep n cov d =
      List.zipWith (fun row a => List.zipWith (fun s b => n / (n + 1) * s + 1 / (n + 1) * (a * b)) row d) cov d := by
  unfold bayesCovStep Mat.add Mat.smul Mat.outer
  rw [List.map_map, List.zipWith_map]
  congr 1
  funext row a
  simp only [Function.comp, List.map_map, List.zipWith_map]

theorem bayesCovStep_entry (n : α) (cov : List (List α)) (d : List α) (i j : Nat) :
    Mat.entry (bayesCovStep n cov d) i j =
      (Mat.entry cov i j).bind (fun s => d[i]?.bind (fun a => d[j]?.bind (fun b =>
        some (n / (n + 1) * s + 1 / (n + 1) * (a * b))))) := by
  rw [bayesCovStep_zip]
  unfold Mat.entry
  rw [List.getElem?_zipWith]
  cases h1 : cov[i]? with
  | none => simp
  | some row =>
    cases h2 : d[i]? with
    | none =>
      cases h3 : row[j]? <;> simp
    | some a =>
      simp only [Option.bind_some, List.getElem?_zipWith]
      cases h3 : row[j]? <;> cases h4 : d[j]? <;> simp

/-- a symmetric covariance stays symmetric -/
theorem bayesCovStep_symm (n : α) (cov : List (List α)) (d : List α)
    (hs : ∀ i j, Mat.entry cov i j = Mat.entry cov j i) (i j : Nat) :
    Mat.entry (bayesCovStep n cov d) i j = Mat.entry (bayesCovStep n cov d) j i := by
  rw [bayesCovStep_entry, bayesCovStep_entry, hs j i]
  cases Mat.entry cov i j <;> cases d[i]? <;> cases d[j]? <;> simp [mul_comm]

theorem vsum_map_div {β : Type} (f : β → α) (T : α) (l : List β) :
    vsum (l.map (fun w => f w / T)) = vsum (l.map f) / T := by
  induction l with
  | nil => simp [vsum]
  | cons a l ih => simp [vsum, ih, add_div]

/-- the priors of all categories sum to one -/
theorem bayes_prior_sum (allW : List (List α)) (h : vsum (allW.map bayesCount) ≠ 0) :
    vsum (allW.map (bayesPrior allW)) = 1 := by
  unfold bayesPrior
  rw [vsum_map_div, div_self h]

/-- vector step with rate zero -/
theorem vadd_smul_zero (b v : List α) (h : b.length ≤ v.length) : vadd b (smul 0 v) = b := by
  unfold vadd smul
  induction b generalizing v with
  | nil => simp
  | cons a b ih =>
    cases v with
    | nil => simp at h
    | cons c v =>
      simp only [List.length_cons, Nat.add_le_add_iff_right] at h
      have := ih v h
      simp only [zero_mul] at this
      simp only [List.map_cons, List.zipWith_cons_cons, zero_mul, add_zero, this]

/-- with learning rate 0 the bias does not move -/
theorem qnStepB_zero (s T : α) (b e : List α) (h : b.length ≤ e.length) : qnStepB 0 s T b e = b := by
  unfold qnStepB
  exact vadd_smul_zero b _ (by simpa [smul] using h)

theorem qnStepS_zero (s T nrm : α) : qnStepS 0 s T nrm = s := by simp [qnStepS]

/-- with learning rate 0 the matrix does not move -/
theorem qnStepW_zero (s T : α) (W : List (List α)) (e x : List α) (h : W.length ≤ e.length)
    (hr : ∀ row ∈ W, row.length ≤ x.length) : qnStepW 0 s T W e x = W := by
  unfold qnStepW Mat.add Mat.smul Mat.outer
  induction W generalizing e with
  | nil => simp
  | cons row W ih =>
    cases e with
    | nil => simp at h
    | cons a e =>
      simp only [List.length_cons, Nat.add_le_add_iff_right] at h
      simp only [List.map_cons, List.zipWith_cons_cons]
      rw [ih e h (fun r hr' => hr r (by simp [hr']))]
      congr 1
      have := vadd_smul_zero row (List.map (fun t => -((1 + 1) * s * s * T) * t) (List.map (fun b => a * b) x))
        (by simpa using hr row (by simp))
      simpa [vadd, smul] using this

/-- the step on `b` is along `z − b`: `b' = b + c · (z − b)` with the single factor `c = lr_b · 2 s² T` … -/
theorem qnStepB_along (lrB s T : α) (b e : List α) :
    qnStepB lrB s T b e = List.zipWith (fun bi ei => bi + lrB * ((1 + 1) * s * s * T) * ei) b e := by
  unfold qnStepB vadd smul
  rw [List.map_map, List.zipWith_map_right]
  congr 1
  funext bi ei
  simp [Function.comp, mul_assoc]

/-- … which is non-negative: the bias moves *towards* `z = W x` (gradient ascent on `T`) -/
theorem qnStepB_factor_nonneg (lrB s T : α) (hl : 0 ≤ lrB) (hT : 0 ≤ T) : 0 ≤ lrB * ((1 + 1) * s * s * T) := by
  have : 0 ≤ s * s := mul_self_nonneg s
  have h2 : (0 : α) ≤ 1 + 1 := by norm_num
  have : 0 ≤ (1 + 1) * s * s := by rw [mul_assoc]; exact mul_nonneg h2 this
  exact mul_nonneg hl (mul_nonneg this hT)

/-- `s' − s = −lr_s · 2 s T ‖z − b‖²`: for `s, T ≥ 0` the sharpness never increases -/
theorem qnStepS_le (lrS s T nrm : α) (hl : 0 ≤ lrS) (hs : 0 ≤ s) (hT : 0 ≤ T) (hn : 0 ≤ nrm) :
    qnStepS lrS s T nrm ≤ s := by
  unfold qnStepS
  have h2 : (0 : α) ≤ 1 + 1 := by norm_num
  have : 0 ≤ lrS * ((1 + 1) * s * T * nrm) := mul_nonneg hl (mul_nonneg (mul_nonneg (mul_nonneg h2 hs) hT) hn)
  linarith

end Published

/-! ### C03 accessor theorems, transported to the generated code -/

section Transport

/-- C03 `bounding_box_agrees` holds of the generated `get_bounding_box` -/
theorem gen_bounding_box_agrees (w : List α) (d n i : Nat) (hw : w.length = 2 * d) (hn : n ≤ d) (hi : i < n) :
    (Gen2.FuzzyART.get_bounding_box w (some n)).1[i]? = w[i]? ∧
    (Gen2.FuzzyART.get_bounding_box w (some n)).2[i]? = some ((1 - w[d + i]'(by omega)) - w[i]'(by omega)) := by
  rw [fuzzy_bbox w n (by omega)]
  exact C03.bounding_box_agrees w d n i hw hn hi

/-- coordinates `i` and `d + i` of a shrunk weight -/
theorem fuzzyShrink_coord (r : α) (w : List α) (d i : Nat) (hw : w.length = 2 * d) (hi : i < d) :
    (fuzzyShrink r w)[i]? = some (w[i]'(by omega) + r * ((1 - w[d + i]'(by omega)) - w[i]'(by omega))) ∧
    (fuzzyShrink r w)[d + i]? = some (w[d + i]'(by omega) + r * ((1 - w[d + i]'(by omega)) - w[i]'(by omega))) := by
  have hd : w.length / 2 = d := by omega
  have e1 : w[i]? = some (w[i]'(by omega)) := List.getElem?_eq_getElem (by omega)
  have e2 : w[d + i]? = some (w[d + i]'(by omega)) := List.getElem?_eq_getElem (by omega)
  have hA : (vadd (List.take d w) (smul r (List.zipWith (fun a b => (1 - b) - a) (List.take d w) (List.drop d w)))).length = d := by
    simp [vadd, smul]; omega
  unfold fuzzyShrink
  simp only [hd]
  constructor
  · rw [List.getElem?_append_left (by omega)]
    simp [vadd, smul, List.getElem?_zipWith, hi, e1, e2]
  · rw [List.getElem?_append_right (by omega), hA]
    simp [vadd, smul, List.getElem?_zipWith, hi, e1, e2]

/-- C03 `shrink_coordinate` holds of the generated `shrink_clusters`: in every category `k` and coordinate `i`
the shrunk box has the same centre, lies inside the old box and is still a box. -/
theorem gen_shrink_same_centre_contained (r : α) (hr0 : 0 ≤ r) (hr : r ≤ 1 / (1 + 1)) (allW : List (List α))
    (d k i : Nat) (hlen : ∀ w ∈ allW, w.length = 2 * d) (hk : k < allW.length) (hi : i < d)
    (hbox : (allW[k])[i]'(by rw [hlen _ (List.getElem_mem hk)]; omega) ≤
      1 - (allW[k])[d + i]'(by rw [hlen _ (List.getElem_mem hk)]; omega)) :
    ∃ u' vc', Mat.entry (Gen2.FuzzyART.shrink_clusters allW r) k i = some u' ∧
      Mat.entry (Gen2.FuzzyART.shrink_clusters allW r) k (d + i) = some vc' ∧
      (u' + (1 - vc')) / (1 + 1) =
        ((allW[k])[i]'(by rw [hlen _ (List.getElem_mem hk)]; omega) +
          (1 - (allW[k])[d + i]'(by rw [hlen _ (List.getElem_mem hk)]; omega))) / (1 + 1) ∧
      (allW[k])[i]'(by rw [hlen _ (List.getElem_mem hk)]; omega) ≤ u' ∧
      1 - vc' ≤ 1 - (allW[k])[d + i]'(by rw [hlen _ (List.getElem_mem hk)]; omega) ∧
      u' ≤ 1 - vc' := by
  have hhead : ∀ w ∈ allW, w.length = (allW.headD []).length := by
    intro w hw
    cases allW with
    | nil => simp at hk
    | cons w0 rest => simp [hlen w hw, hlen w0 (by simp)]
  rw [fuzzy_shrink r allW hhead]
  have hwk := hlen _ (List.getElem_mem hk)
  obtain ⟨c1, c2⟩ := fuzzyShrink_coord r allW[k] d i hwk hi
  obtain ⟨s1, s2, s3, s4⟩ := C03.shrink_coordinate ((allW[k])[i]'(by omega)) ((allW[k])[d + i]'(by omega)) r hr0 hr hbox
  refine ⟨_, _, ?_, ?_, s1, s2, s3, s4⟩
  · simp only [Mat.entry, List.getElem?_map, List.getElem?_eq_getElem hk, Option.map_some, Option.bind_some]
    exact c1
  · simp only [Mat.entry, List.getElem?_map, List.getElem?_eq_getElem hk, Option.map_some, Option.bind_some]
    exact c2

section
variable [Transc α] [LinAlg α]

/-- the accessor agrees with the stored weight: the centre of a fresh hypersphere / Bayesian / quadratic-neuron
category is the sample -/
theorem gen_centre_of_new (x : List α) (covInit : List (List α)) :
    Gen2.HypersphereART.get_cluster_centers [sphNew x] = [x] ∧
    Gen2.BayesianART.get_cluster_centers [bayesNew covInit x] x.length = [x] := by
  constructor
  · simp [Gen2.HypersphereART.get_cluster_centers, sphNew]
  · simp [Gen2.BayesianART.get_cluster_centers, bayesNew]

/-- C03 `gaussian_update_is_running_mean` holds of the generated Bayesian `update` as read by the generated
`get_cluster_centers`: if the stored mean is `S / n`, the centre after learning `x` is `(S + x) / (n + 1)` -/
theorem gen_bayes_centre_running_mean (dim : Nat) (x w S : List α) (hw : dim ≤ w.length) (hx : dim ≤ x.length)
    (hn : 0 < bayesCount w) (hS : bayesMean dim w = S.map (fun s => s / bayesCount w)) :
    Gen2.BayesianART.get_cluster_centers [Gen2.BayesianART.update dim (c_new_w := none) x w] dim =
      [List.zipWith (fun s xi => (s + xi) / (bayesCount w + 1)) S x] := by
  rw [bayes_update, bayes_centres]
  simp only [List.map_cons, List.map_nil]
  rw [bayes_update_mean dim x w hw hx, hS, runningMean_exact _ hn]

end

end Transport

/-! ### the reshape helper, and the quadratic-neuron step with all learning rates zero -/

section Reshape

theorem reshape_length (r c : Nat) (v : List α) : (Mat.reshape r c v).length = r := by
  induction r generalizing v with
  | zero => simp [Mat.reshape]
  | succ r ih => simp [Mat.reshape, ih]

/-- flattening a reshaped vector gives the vector back (its first `r·c` entries) -/
theorem flatten_reshape (r c : Nat) (v : List α) : (Mat.reshape r c v).flatten = v.take (r * c) := by
  induction r generalizing v with
  | zero => simp [Mat.reshape]
  | succ r ih =>
    simp only [Mat.reshape, List.flatten_cons, ih]
    rw [show (r + 1) * c = c + r * c by ring, List.take_add]

theorem reshape_rows (r c : Nat) (v : List α) (h : r * c ≤ v.length) :
    ∀ row ∈ Mat.reshape r c v, row.length = c := by
  induction r generalizing v with
  | zero => simp [Mat.reshape]
  | succ r ih =>
    have h' : c + r * c ≤ v.length := by rw [show (r + 1) * c = c + r * c by ring] at h; exact h
    intro row hrow
    simp only [Mat.reshape, List.mem_cons] at hrow
    rcases hrow with rfl | hrow
    · simp; omega
    · exact ih (v.drop c) (by simp; omega) row hrow

variable [Transc α] [LinAlg α]

/-- **with all learning rates 0 the weight is unchanged** (for a weight of the stored shape `dim² + dim + 1`
and a sample of length `dim`) -/
theorem qn_update_zero_rates (dim : Nat) (x w : List α) (hw : w.length = dim * dim + dim + 1)
    (hx : x.length = dim) : qnUpdate 0 0 0 dim x w = w := by
  have hWl : (qnW dim w).length = dim := reshape_length _ _ _
  have hWr : ∀ row ∈ qnW dim w, row.length = dim :=
    reshape_rows dim dim _ (by simp; omega)
  have hb : (qnB dim w).length = dim := by simp [qnB]; omega
  have he : (vsub (qnZ dim x w) (qnB dim w)).length = dim := by
    simp [vsub, qnZ, Mat.mulVec, hWl, hb]
  unfold qnUpdate
  simp only
  rw [qnStepW_zero _ _ _ _ _ (by omega) (fun row hrow => by rw [hWr row hrow, hx]),
    qnStepB_zero _ _ _ _ (by omega), qnStepS_zero]
  unfold qnW qnB qnS
  rw [flatten_reshape, List.take_take, Nat.min_self]
  have hne : List.drop (dim * dim) w ≠ [] := by
    intro h0
    have := congrArg List.length h0
    simp at this; omega
  have hlast : w.getLastD 0 = (List.drop (dim * dim) w).getLast hne := by
    rw [List.getLast_drop]
    cases w with
    | nil => simp at hw
    | cons a w => rfl
  rw [List.append_assoc, hlast, List.dropLast_append_getLast, List.take_append_drop]

end Reshape

/-! ### Non-vacuity: the generated code runs on concrete data (ℚ; `det` of a 2×2 matrix, `exp t := t + 2` as stand-ins) -/

section Examples

/-- the determinant of a 2×2 matrix -/
def det2 (M : List (List ℚ)) : ℚ :=
  match M with
  | [[a, b], [c, d]] => a * d - b * c
  | _ => 0

/-- Bayesian ART, `dim = 2`: mean `(0,0)`, covariance `I`, one sample so far; learning `(2,0)` gives mean `(1,0)`,
covariance `diag(1, 1/2)`, count 2 -/
example : Gen2.BayesianART.update 2 (c_new_w := none) [(2 : ℚ), 0] [0, 0, 1, 0, 0, 1, 1] = [1, 0, 1, 0, 0, 1 / 2, 2] := by
  decide +kernel

example : Gen2.BayesianART.match_criterion det2 2 (c_new_w := none) [(2 : ℚ), 0] [0, 0, 1, 0, 0, 1, 1] = 1 / 2 := by
  decide +kernel

example : Gen2.BayesianART.get_cluster_centers [[(0 : ℚ), 0, 1, 0, 0, 1, 1], [5, 7, 1, 0, 0, 1, 3]] 2 = [[0, 0], [5, 7]] := by
  decide +kernel

/-- Quadratic Neuron ART, `dim = 2`: `W = I`, `b = 0`, `s = 1`, sample `(1,0)`: `z − b = (1,0)`, `T = 1` (stand-in exp),
rates `1/2, 1/4, 1/8` -/
example :
    let x : List ℚ := [1, 0]
    let w : List ℚ := [1, 0, 0, 1, 0, 0, 1]
    let ex : ℚ → ℚ := fun t => t + 2
    Gen2.QuadraticNeuronART.update (p_lr_b := 1 / 2) (p_lr_w := 1 / 4) (p_lr_s := 1 / 8)
      (c_s := Gen2.QuadraticNeuronART.category_choice_cache_s ex 2 x w)
      (c_w := Gen2.QuadraticNeuronART.category_choice_cache_w ex 2 x w)
      (c_b := Gen2.QuadraticNeuronART.category_choice_cache_b ex 2 x w)
      (c_z := Gen2.QuadraticNeuronART.category_choice_cache_z ex 2 x w)
      (c_activation := Gen2.QuadraticNeuronART.category_choice_cache_activation ex 2 x w)
      (c_l2norm2_z_b := Gen2.QuadraticNeuronART.category_choice_cache_l2norm2_z_b ex 2 x w) x w =
    [1 / 2, 0, 0, 1, 1, 0, 3 / 4] := by
  decide +kernel

example : Gen2.QuadraticNeuronART.new_weight 2 (p_s_init := 1 / 2) [(3 : ℚ), 4] = [1, 0, 0, 1, 3, 4, 1 / 2] := by
  decide +kernel

/-- the C03 examples, on the generated accessors -/
example : Gen2.FuzzyART.get_bounding_box [(1 : ℚ) / 4, 1 / 2, 3 / 8, 1 / 8] (some 1) = ([1 / 4], [3 / 8]) := by
  decide +kernel

example : Gen2.FuzzyART.get_bounding_boxes [[(1 : ℚ) / 4, 1 / 2, 3 / 8, 1 / 8]] none = [([1 / 4, 1 / 2], [3 / 8, 3 / 8])] := by
  decide +kernel

example : Gen2.FuzzyART.shrink_clusters [[(0 : ℚ), 0, 0, 0], [1 / 4, 1 / 2, 3 / 8, 1 / 8]] (1 / 4) =
    [[1 / 4, 1 / 4, 1 / 4, 1 / 4], [11 / 32, 19 / 32, 15 / 32, 7 / 32]] := by
  decide +kernel

end Examples

end Art.GenSpec.K2
