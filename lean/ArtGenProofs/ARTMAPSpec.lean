/-
ArtGenProofs.ARTMAPSpec — the definitions that `harness/artv/atrans.py` generates from `ARTMAP.py`, from the accessors
and `predict_ab` of `SimpleARTMAP.py`, from `BaseARTMAP.map_a2b` and from `BaseART.n_clusters` (ArtGen/ARTMAP.lean)
compute the SimpleARTMAP / ARTMAP model of ArtModel/ARTMAP.lean (`artmapFit`, `artmapPartialFit`, `smapPredict`,
`smapPredictAB`, `mapA2B`, `mapGet`) — for all estimators, batches, modes, epsilons and numbers of epochs — and the
C09 theorems (map functional and total, `map_a2b(labels_a) = labels_b`, prediction = map of the A-side prediction)
hold for the generated code.

`ARTMAP.partial_fit` (after fix F48) empties the B-side module on the HOST's first batch (`labels_` does not exist yet),
as `fit` does and as the inherited `SimpleARTMAP.partial_fit` does for the A-side: the model of that call is
`artmapPartialFitHost` below (= `artmapPartialFit` of ArtModel/ARTMAP.lean from a state whose B-side was emptied when the
batch is the first one).  `partial_fit_first_batch_indep` / `partial_fit_first_batch_eq_fit` state the point of the fix
(C06: the first batch does not see the past of a pre-used `module_b`; it is one `fit`), `partial_fit_later_batch` that
later batches continue the B-side.
-/
import ArtGen.ARTMAP
import ArtGenProofs.ControlFit
import ArtProps.C09

set_option linter.unusedSectionVars false
set_option linter.style.haveILetI false

namespace Art.GenSpec.ARTMAP

open Art Art.Imp Art.ImpARTMAP Art.GenSpec.Control

/-! ### The numpy helpers of `map_a2b` -/

theorem mem_insertU (a x : Nat) (l : List Nat) : a ∈ insertU x l ↔ a = x ∨ a ∈ l := by
  induction l with
  | nil => simp [insertU]
  | cons y ys ih =>
    unfold insertU
    split
    · simp
    · split
      · rename_i h; subst h; simp
      · simp [ih]; tauto

theorem mem_npUniqueVals (a : Nat) (v : List Nat) : a ∈ npUniqueVals v ↔ a ∈ v := by
  unfold npUniqueVals
  induction v with
  | nil => simp
  | cons x xs ih => simp [List.foldr_cons, mem_insertU, ih]

theorem mapM_some_map {β γ : Type} (f : β → γ) (l : List β) : l.mapM (fun x => some (f x)) = some (l.map f) := by
  induction l with
  | nil => rfl
  | cons a l ih => simp [List.mapM_cons, ih]

theorem mapM_congr_mem {β γ : Type} (f g : β → Option γ) (l : List β) (h : ∀ x ∈ l, f x = g x) : l.mapM f = l.mapM g := by
  induction l with
  | nil => rfl
  | cons a l ih =>
    simp only [List.mapM_cons]
    rw [h a (by simp), ih (fun x hx => h x (by simp [hx]))]

theorem mapM_none_of_mem {β γ : Type} (f : β → Option γ) (l : List β) (x : β) (hx : x ∈ l) (hf : f x = none) :
    l.mapM f = none := by
  induction l with
  | nil => simp at hx
  | cons a l ih =>
    simp only [List.mapM_cons]
    rcases List.mem_cons.mp hx with rfl | h
    · simp [hf]
    · rw [ih h]; cases f a <;> rfl

/-- **`np.unique(v, return_inverse=True)` followed by fancy indexing**: `np.array([f(x) for x in u])[inv]` is
`[f(x) for x in v]` -/
theorem npUnique_take {β : Type} (f : Nat → β) (v : List Nat) :
    npTake ((npUnique v).1.map f) (npUnique v).2 = some (v.map f) := by
  unfold npTake npUnique
  simp only
  rw [List.mapM_map]
  rw [← mapM_some_map]
  apply mapM_congr_mem
  intro x hx
  have hm : x ∈ npUniqueVals v := (mem_npUniqueVals x v).mpr hx
  have hlt : (npUniqueVals v).idxOf x < (npUniqueVals v).length := List.idxOf_lt_length_of_mem hm
  simp [List.getElem?_map, List.getElem?_eq_getElem hlt]

/-- Python `v[-n:]` drops all but the last `n` entries when `0 < n ≤ len(v)` -/
theorem pyLastN_drop {β : Type} (v : List β) (n k : Nat) (hn : 0 < n) (hk : v.length = k + n) :
    pyLastN v n = v.drop k := by
  unfold pyLastN
  have : n ≠ 0 := by omega
  simp only [this, if_false]
  congr 1; omega


theorem mapM_eq_some_iff_map {β γ : Type} (g : β → Option γ) (l : List β) (r : List γ) :
    l.mapM g = some r ↔ l.map g = r.map some := by
  induction l generalizing r with
  | nil => cases r <;> simp
  | cons a l ih =>
    simp only [List.mapM_cons, List.map_cons]
    cases ha : g a with
    | none => cases r <;> simp
    | some b =>
      cases hl : l.mapM g with
      | none =>
        cases r with
        | nil => simp
        | cons c r =>
          have := (ih r).not.mp (by simp [hl])
          simp [this]
      | some r' =>
        have h' := (ih r').mp hl
        cases r with
        | nil => simp
        | cons c r =>
          simp only [bind_pure_comp, Option.bind_eq_bind, Option.bind_some, Option.some.injEq,
            List.cons.injEq, List.map_cons, h']
          have hinj : List.map some r' = List.map some r ↔ r' = r :=
            ⟨fun h => List.map_injective_iff.mpr (Option.some_injective _) h, fun h => by rw [h]⟩
          rw [hinj]
          simp

/-! ### `BaseARTMAP.map_a2b` -/

section MapA2B
variable {Wt P : Type}

/-- `map_a2b(c)` on an integer is the dict lookup `self.map[c]` (a KeyError is `none`) -/
theorem map_a2b_int_spec (self : SMapSelf Wt P) (c : Nat) :
    Art.Gen.ARTMAP.BaseARTMAP.map_a2b self (.int c) = (mapGet self.map c).map IntOrArr.int := by
  unfold Art.Gen.ARTMAP.BaseARTMAP.map_a2b
  cases h : mapGet self.map c <;> simp [h]

/-- **`map_a2b(y_a)` on an array — `np.unique`, the lookup of the distinct labels, fancy indexing by the inverse and the
reshape, as translated — is the element-wise lookup**; it raises iff some label is not a key of `self.map` -/
theorem map_a2b_arr_spec (self : SMapSelf Wt P) (ya : List Nat) :
    Art.Gen.ARTMAP.BaseARTMAP.map_a2b self (.arr ya) = (ya.mapM (mapGet self.map)).map IntOrArr.arr := by
  unfold Art.Gen.ARTMAP.BaseARTMAP.map_a2b
  by_cases hall : ∀ x ∈ ya, (mapGet self.map x).isSome
  · have hf : ∀ l : List Nat, (∀ x ∈ l, x ∈ ya) →
        l.mapM (mapGet self.map) = some (l.map (fun x => (mapGet self.map x).getD 0)) := by
      intro l hl
      rw [← mapM_some_map]
      apply mapM_congr_mem
      intro x hx
      have := hall x (hl x hx)
      cases h : mapGet self.map x <;> simp_all
    have hu := hf (npUnique ya).1 (fun x hx => (mem_npUniqueVals x ya).mp hx)
    have hy := hf ya (fun x hx => hx)
    have ht := npUnique_take (fun x => (mapGet self.map x).getD 0) ya
    simp [hu, hy, ht, npReshapeLike]
  · simp only [not_forall] at hall
    obtain ⟨x, hx, hn⟩ := hall
    have hn' : mapGet self.map x = none := by cases h : mapGet self.map x <;> simp_all
    have hu := mapM_none_of_mem (mapGet self.map) (npUnique ya).1 x ((mem_npUniqueVals x ya).mpr hx) hn'
    have hy := mapM_none_of_mem (mapGet self.map) ya x hx hn'
    simp [hu, hy]

/-- the generated `map_a2b` and the model's `mapA2B` (a list of optional classes): the call succeeds with `r` iff
every model entry is defined and `r` lists them -/
theorem map_a2b_model (self : SMapSelf Wt P) (ya r : List Nat) :
    Art.Gen.ARTMAP.BaseARTMAP.map_a2b self (.arr ya) = some (.arr r) ↔ mapA2B self.map ya = r.map some := by
  rw [map_a2b_arr_spec, mapA2B, ← mapM_eq_some_iff_map]
  cases ya.mapM (mapGet self.map) <;> simp

end MapA2B

/-! ### The accessors -/

section Accessors
variable {WtA PA WtB PB : Type}

/-- `labels_a`, `labels_b`, `labels_ab` of SimpleARTMAP and of ARTMAP read the attributes they are named after:
A = the A-side module's `labels_`; B = `self.labels_` (SimpleARTMAP) resp. the B-side module's `labels_` (ARTMAP) -/
theorem accessors_spec (s : SMapSelf WtA PA) (self : ImpARTMAP.Self WtA PA WtB PB) :
    Art.Gen.ARTMAP.SimpleARTMAP.labels_a s = some s.a.labels ∧
    Art.Gen.ARTMAP.SimpleARTMAP.labels_b s = some s.labelsB ∧
    Art.Gen.ARTMAP.SimpleARTMAP.labels_ab s = some (s.a.labels, s.labelsB) ∧
    Art.Gen.ARTMAP.labels_a self = some self.smap.a.labels ∧
    Art.Gen.ARTMAP.labels_b self = some self.module_b.labels ∧
    Art.Gen.ARTMAP.labels_ab self = some (self.smap.a.labels, self.module_b.labels) :=
  ⟨rfl, rfl, rfl, rfl, rfl, rfl⟩

/-- `n_clusters` (BaseART, SimpleARTMAP) and `n_clusters_a` are the number of A-side weights, `0` before the first
training call created `W` -/
theorem n_clusters_spec (b : Imp.Self WtA PA) (s : SMapSelf WtA PA) :
    Art.Gen.ARTMAP.BaseART.n_clusters b = some (if b.hasW then b.W.length else 0) ∧
    Art.Gen.ARTMAP.SimpleARTMAP.n_clusters s = some (if s.a.hasW then s.a.W.length else 0) ∧
    Art.Gen.ARTMAP.SimpleARTMAP.n_clusters_a s = some (if s.a.hasW then s.a.W.length else 0) := by
  have h : ∀ b : Imp.Self WtA PA, Art.Gen.ARTMAP.BaseART.n_clusters b = some (if b.hasW then b.W.length else 0) := by
    intro b; unfold Art.Gen.ARTMAP.BaseART.n_clusters; cases b.hasW <;> rfl
  refine ⟨h b, ?_, ?_⟩
  · simp [Art.Gen.ARTMAP.SimpleARTMAP.n_clusters, h]
  · simp [Art.Gen.ARTMAP.SimpleARTMAP.n_clusters_a, Art.Gen.ARTMAP.SimpleARTMAP.n_clusters, h]

theorem mem_dictValues (m : List (Option Nat)) (y : Nat) : y ∈ dictValues m ↔ ∃ c, mapGet m c = some y := by
  unfold dictValues mapGet
  simp only [List.mem_filterMap, id]
  constructor
  · rintro ⟨o, ho, rfl⟩
    obtain ⟨c, hc, hget⟩ := List.getElem_of_mem ho
    exact ⟨c, by simp [List.getElem?_eq_getElem hc, hget]⟩
  · rintro ⟨c, hc⟩
    cases h : m[c]? with
    | none => simp [h] at hc
    | some o =>
      simp [h] at hc
      exact ⟨o, List.mem_of_getElem? h, hc⟩

/-- `n_clusters_b` counts the distinct classes in the image of the map (`dictValues`: exactly the classes some
A-category is mapped to, `mem_dictValues`) -/
theorem n_clusters_b_spec (s : SMapSelf WtA PA) :
    Art.Gen.ARTMAP.SimpleARTMAP.n_clusters_b s = some (dictValues s.map).eraseDups.length ∧
    ∀ y, y ∈ dictValues s.map ↔ ∃ c, mapGet s.map c = some y := by
  refine ⟨?_, mem_dictValues s.map⟩
  unfold Art.Gen.ARTMAP.SimpleARTMAP.n_clusters_b
  have := mapM_some_map (fun c : Nat => c) (dictValues s.map)
  simp only [List.map_id'] at this
  simp [this]

end Accessors

/-! ### Prediction -/

/-- a SimpleARTMAP object as a state of the model -/
def viewS {Wt P : Type} (s : SMapSelf Wt P) : SMapState Wt :=
  { a := ⟨s.a.W, s.a.cnt, s.a.n, s.a.labels⟩, map := s.map, labelsB := s.labelsB }

section Predict
variable {X Wt WtB PB Ctr β : Type} [Field β] [LinearOrder β] [IsStrictOrderedRing β]

/-- the A-side category the model predicts for `x` (0 where `step_pred` has no category) -/
def predA (K : Kernel X Wt β β) (s : SMapSelf Wt β) (x : X) : Nat := (stepPred K s.a.W x).getD 0
/-- its class -/
def predB (K : Kernel X Wt β β) (s : SMapSelf Wt β) (x : X) : Nat := (mapGet s.map (predA K s x)).getD 0

theorem foldl_set_pair {A : Type} (fa fb : A → Nat) (l : List (A × Nat)) (ya yb : List Nat) :
    l.foldl (fun (p : List Nat × List Nat) (q : A × Nat) => (p.1.set q.2 (fa q.1), p.2.set q.2 (fb q.1))) (ya, yb) =
      (l.foldl (fun y (q : A × Nat) => y.set q.2 (fa q.1)) ya, l.foldl (fun y (q : A × Nat) => y.set q.2 (fb q.1)) yb) := by
  induction l generalizing ya yb with
  | nil => rfl
  | cons a l ih => simp only [List.foldl_cons]; exact ih _ _

/-- **`SimpleARTMAP.predict_ab` is row-wise (A-side arg-max, `map[arg-max]`) and returns the estimator unchanged** -/
theorem smap_predict_ab_spec [Inhabited Wt] (K : Kernel X Wt β β) (inf : β) (self : SMapSelf Wt β) (Xs : List X) :
    letI : Inhabited β := ⟨0⟩
    Art.Gen.ARTMAP.SimpleARTMAP.predict_ab (scalarExt K inf) self Xs =
      (self, (Xs.map (predA K self), Xs.map (predB K self))) := by
  letI : Inhabited β := ⟨0⟩
  unfold Art.Gen.ARTMAP.SimpleARTMAP.predict_ab
  simp only
  let pk : List Nat × List Nat → Self Wt β × List (Option Nat) × List Nat × Bool × List Nat × List Nat :=
    fun y => (self.a, self.map, self.labelsB, self.hasLabels, y.1, y.2)
  have hloop := forEach_next_inv (R := SMapSelf Wt β × List Nat × List Nat)
    (I := fun s => ∃ y, s = pk y)
    (g := fun s (p : X × Nat) => pk (s.2.2.2.2.1.set p.2 (predA K self p.1), s.2.2.2.2.2.set p.2 (predB K self p.1)))
    (body := Art.Gen.ARTMAP.SimpleARTMAP.predict_ab_loop1_body (scalarExt K inf)) (as := List.zipIdx Xs)
    (by
      rintro s ⟨x, i⟩ _ ⟨y, rfl⟩
      refine ⟨?_, ⟨_, rfl⟩⟩
      unfold Art.Gen.ARTMAP.SimpleARTMAP.predict_ab_loop1_body
      have hs : ({ a := self.a, map := self.map, labelsB := self.labelsB, hasLabels := self.hasLabels } : SMapSelf Wt β) = self := rfl
      simp only [pk, smap_step_pred_spec K inf self x, predA, predB])
    (pk (List.replicate Xs.length 0, List.replicate Xs.length 0)) ⟨_, rfl⟩
  obtain ⟨h1, _⟩ := hloop
  simp only [pk] at h1
  rw [h1]
  have hfold : ∀ (l : List (X × Nat)) (y : List Nat × List Nat),
      (l.foldl (fun s (p : X × Nat) => pk (s.2.2.2.2.1.set p.2 (predA K self p.1), s.2.2.2.2.2.set p.2 (predB K self p.1))) (pk y)) =
        pk (l.foldl (fun (y : List Nat × List Nat) (p : X × Nat) => (y.1.set p.2 (predA K self p.1), y.2.set p.2 (predB K self p.1))) y) := by
    intro l
    induction l with
    | nil => intro y; rfl
    | cons a l ih => intro y; simp only [List.foldl_cons]; exact ih _
  have h2 := hfold (List.zipIdx Xs) (List.replicate Xs.length 0, List.replicate Xs.length 0)
  simp only [pk] at h2
  rw [h2, foldl_set_pair]
  have h3 := foldl_set_zipIdx (predA K self) Xs 0 [] rfl (List.replicate Xs.length 0) (by simp)
  have h4 := foldl_set_zipIdx (predB K self) Xs 0 [] rfl (List.replicate Xs.length 0) (by simp)
  simp only [List.nil_append] at h3 h4
  rw [h3, h4]

/-- on a state that satisfies the map invariant and has a category, the model's `smapStepPred` is defined and is
(`predA`, `predB`) -/
theorem smapStepPred_eq [Inhabited Wt] (K : Kernel X Wt β β) (self : SMapSelf Wt β) (hinv : MapInv (viewS self))
    (hne : self.a.W ≠ []) (x : X) :
    smapStepPred K (viewS self) x = some (predA K self x, predB K self x) := by
  have hs := stepPred_isSome K self.a.W x hne
  obtain ⟨c, hc⟩ := Option.isSome_iff_exists.mp hs
  obtain ⟨y, hy⟩ := hinv.total c (stepPred_lt K self.a.W x c hc)
  have hy' : mapGet self.map c = some y := hy
  have hc' : stepPred K (viewS self).a.W x = some c := hc
  simp [smapStepPred, predA, predB, hc, hy', viewS]

/-- **the generated `predict_ab` against the model's `smapPredictAB`** (a list of optional pairs): on a trained state
every model entry is defined and the two generated vectors list them -/
theorem smap_predict_ab_model [Inhabited Wt] (K : Kernel X Wt β β) (inf : β) (self : SMapSelf Wt β) (Xs : List X)
    (hinv : MapInv (viewS self)) (hne : self.a.W ≠ []) :
    letI : Inhabited β := ⟨0⟩
    smapPredictAB K (viewS self) Xs =
      (List.zip (Art.Gen.ARTMAP.SimpleARTMAP.predict_ab (scalarExt K inf) self Xs).2.1
                (Art.Gen.ARTMAP.SimpleARTMAP.predict_ab (scalarExt K inf) self Xs).2.2).map some := by
  letI : Inhabited β := ⟨0⟩
  rw [smap_predict_ab_spec]
  simp only [smapPredictAB, List.zip_map', List.map_map]
  apply List.map_congr_left
  intro x _
  exact smapStepPred_eq K self hinv hne x

/-- **`ARTMAP.predict` (= the inherited `SimpleARTMAP.predict`) is row-wise `map[arg-max]`; the estimator is unchanged** -/
theorem predict_spec [Inhabited Wt] (K : Kernel X Wt β β) (inf : β) (self : ImpARTMAP.Self Wt β WtB PB) (Xs : List X) :
    letI : Inhabited β := ⟨0⟩
    Art.Gen.ARTMAP.predict (scalarExt K inf) self Xs = some (self, Xs.map (predB K self.smap)) := by
  letI : Inhabited β := ⟨0⟩
  unfold Art.Gen.ARTMAP.predict
  simp only [smap_predict_spec K inf self.smap Xs]
  rfl

/-- the generated `predict` against the model's `smapPredict` -/
theorem predict_model [Inhabited Wt] (K : Kernel X Wt β β) (inf : β) (self : ImpARTMAP.Self Wt β WtB PB) (Xs : List X)
    (hinv : MapInv (viewS self.smap)) (hne : self.smap.a.W ≠ []) :
    letI : Inhabited β := ⟨0⟩
    (Art.Gen.ARTMAP.predict (scalarExt K inf) self Xs).map (fun r => r.2.map some) =
      some (smapPredict K (viewS self.smap) Xs) := by
  letI : Inhabited β := ⟨0⟩
  rw [predict_spec]
  simp only [Option.map_some, smapPredict, List.map_map, Option.some.injEq]
  apply List.map_congr_left
  intro x _
  simp [smapStepPred_eq K self.smap hinv hne x]

/-- `ARTMAP.predict_ab` (= the inherited, translated `SimpleARTMAP.predict_ab`) -/
theorem predict_ab_spec [Inhabited Wt] (K : Kernel X Wt β β) (inf : β) (self : ImpARTMAP.Self Wt β WtB PB) (Xs : List X) :
    letI : Inhabited β := ⟨0⟩
    Art.Gen.ARTMAP.predict_ab (scalarExt K inf) self Xs =
      some (self, (Xs.map (predA K self.smap), Xs.map (predB K self.smap))) := by
  letI : Inhabited β := ⟨0⟩
  unfold Art.Gen.ARTMAP.predict_ab
  simp only [smap_predict_ab_spec K inf self.smap Xs]
  rfl

/-- **`ARTMAP.predict_regression` returns, row by row, the B-side centre of the predicted class** (it raises when a
predicted class has no centre); the estimator is unchanged -/
theorem predict_regression_spec [Inhabited Wt] (K : Kernel X Wt β β) (inf : β) (OB : ModuleOps WtB PB Ctr)
    (self : ImpARTMAP.Self Wt β WtB PB) (Xs : List X) (ctrs : List Ctr)
    (hc : OB.get_cluster_centers self.module_b = some ctrs) :
    letI : Inhabited β := ⟨0⟩
    Art.Gen.ARTMAP.predict_regression (scalarExt K inf) OB self Xs =
      (Xs.mapM (fun x => ctrs[predB K self.smap x]?)).map (fun r => (self, r)) := by
  letI : Inhabited β := ⟨0⟩
  unfold Art.Gen.ARTMAP.predict_regression
  rw [predict_spec]
  simp only [Option.bind_eq_bind, Option.bind_some, hc, List.mapM_map, Function.comp_def]
  cases Xs.mapM (fun x => ctrs[predB K self.smap x]?) <;> rfl

end Predict

/-! ### Training: abstraction of the objects to the model's states -/

/-- a nested estimator as a state of the model (`W` does not exist before the first training call) -/
def absB {Wt P : Type} (b : Imp.Self Wt P) : ArtState Wt :=
  if b.hasW then ⟨b.W, b.cnt, b.n, b.labels⟩ else ⟨[], b.cnt, b.n, []⟩

/-- a SimpleARTMAP object as a state of the model (`labels_` does not exist before the first training call, and the
first `partial_fit` then empties the A-side) -/
def absS {Wt P : Type} (s : SMapSelf Wt P) : SMapState Wt :=
  if s.hasLabels then { a := ⟨s.a.W, s.a.cnt, s.a.n, s.a.labels⟩, map := s.map, labelsB := s.labelsB }
  else { a := ⟨[], [], 0, []⟩, map := s.map, labelsB := [] }

/-- an ARTMAP object as a state of the model -/
def absState {WtA PA WtB PB : Type} (self : ImpARTMAP.Self WtA PA WtB PB) : ArtmapState WtA WtB :=
  ⟨absB self.module_b, absS self.smap⟩

/-- a model state as an ARTMAP object with hyper-parameters `pA`, `pB` -/
def conc {WtA PA WtB PB : Type} (pA : PA) (pB : PB) (hwA : Bool) (st : ArtmapState WtA WtB) : ImpARTMAP.Self WtA PA WtB PB :=
  { module_b := ⟨st.b.W, st.b.cnt, st.b.n, pB, st.b.labels, true⟩
    smap := ⟨⟨st.s.a.W, st.s.a.cnt, st.s.a.n, pA, st.s.a.labels, hwA⟩, st.s.map, st.s.labelsB, true⟩ }

section Generic
variable {X Wt α μ θ : Type} [LinearOrder α]

theorem fitEpochs_labels_length (K : Kernel X Wt α μ) (cfg : SearchCfg μ θ) (th0 : θ)
    (veto : ArtState Wt → X → Nat → Bool) (epochs : Nat) (xs : List X) :
    (fitEpochs K cfg th0 veto epochs xs).labels.length = xs.length := by
  unfold fitEpochs
  have inner : ∀ (q : List (X × Nat)) (s : ArtState Wt),
      (q.foldl (epochStep K cfg th0 veto) s).labels.length = s.labels.length := by
    intro q
    induction q with
    | nil => intro s; rfl
    | cons a q ihq =>
      intro s
      simp only [List.foldl_cons]
      rw [ihq]
      obtain ⟨_, hl, _⟩ := stepFit_frame K cfg th0 (veto s a.1) s a.1
      simp [epochStep, hl]
  suffices h : ∀ (l : List Nat) (s : ArtState Wt), s.labels.length = xs.length →
      (l.foldl (fun s _ => (xs.zipIdx).foldl (epochStep K cfg th0 veto) s) s).labels.length = xs.length from
    h _ _ (by simp)
  intro l
  induction l with
  | nil => intro s hs; simpa using hs
  | cons _ l ih =>
    intro s hs
    simp only [List.foldl_cons]
    apply ih
    rw [inner]; exact hs

/-- the labels a `partialFit` starts from are a prefix of the labels it ends with -/
theorem partialFit_labels_take (K : Kernel X Wt α μ) (cfg : SearchCfg μ θ) (th0 : θ)
    (veto : ArtState Wt → X → Nat → Bool) (s : ArtState Wt) (xs : List X) :
    (partialFit K cfg th0 veto s xs).labels.take s.labels.length = s.labels := by
  unfold partialFit
  induction xs generalizing s with
  | nil => simp
  | cons x xs ih =>
    simp only [List.foldl_cons]
    have h1 := ih (trainStep K cfg th0 veto s x)
    obtain ⟨_, hl, _⟩ := stepFit_frame K cfg th0 (veto s x) s x
    have h2 : (trainStep K cfg th0 veto s x).labels = s.labels ++ [(stepFit K cfg th0 (veto s x) s x).2] := by
      simp [trainStep, hl]
    rw [h2] at h1
    have := congrArg (List.take s.labels.length) h1
    simpa [List.take_take] using this

theorem smapFitEpochs_one (K : Kernel X Wt α μ) (cfg : SearchCfg μ θ) (th0 : θ) (s : SMapState Wt) (xys : List (X × Nat)) :
    smapFitEpochs K cfg th0 1 xys = smapFit K cfg th0 s xys := by
  simp [smapFitEpochs, smapFit, List.range_one]

/-- after `k + 1` epochs the stored targets are those of the stream (the last epoch re-records them) -/
theorem smapFitEpochs_labelsB (K : Kernel X Wt α μ) (cfg : SearchCfg μ θ) (th0 : θ) (k : Nat) (xys : List (X × Nat)) :
    (smapFitEpochs K cfg th0 (k + 1) xys).labelsB = xys.map (·.2) := by
  unfold smapFitEpochs
  rw [List.range_succ, List.foldl_append]
  simp only [List.foldl_cons, List.foldl_nil]
  rw [smapPartialFit_labelsB]
  simp

end Generic

/-! ### `ARTMAP.fit` and `ARTMAP.partial_fit` -/

section Train
variable {XA XB WtA WtB β : Type} [Field β] [LinearOrder β] [IsStrictOrderedRing β] [Inhabited WtA] [Inhabited WtB]

/-- **`ARTMAP.fit(X, y, max_iter = k + 1)`**, translated statement by statement, with the nested `module_b.fit` and the
inherited `SimpleARTMAP.fit` as generated from their own sources: the B-side is the model's `fitEpochs` on the targets
(no reset function), the A-side the model's `smapFitEpochs` on `zip X (B-side labels)`; `labels_` is the B-side label
vector; the hyper-parameters of both modules are handed back unchanged. -/
theorem fit_spec (KA : Kernel XA WtA β β) (KB : Kernel XB WtB β β) (infA infB eps : β) (mt : MT)
    (self : ImpARTMAP.Self WtA β WtB β) (Xs : List XA) (Ys : List XB) (hxy : Xs.length = Ys.length) (k : Nat) (v : Bool) :
    letI : Inhabited β := ⟨0⟩
    Art.Gen.ARTMAP.fit (scalarExt KA infA) (scalarExt KB infB) self Xs Ys (k + 1) mt eps v =
      (let b := fitEpochs KB (scalarCfg mt false (· + eps) (· - eps) infB) self.module_b.params noVeto (k + 1) Ys
       let s := smapFitEpochs KA (scalarCfg mt false (· + eps) (· - eps) infA) self.smap.a.params (k + 1) (Xs.zip b.labels)
       some (conc self.smap.a.params self.module_b.params true ⟨b, { s with labelsB := b.labels }⟩, ())) := by
  letI : Inhabited β := ⟨0⟩
  unfold Art.Gen.ARTMAP.fit
  have hB := scalar_fit KB infB eps mt true (fun _ _ => false) (fun _ _ _ => rfl) self.module_b Ys (k + 1) false
  simp only [Bool.not_false] at hB
  simp only [hB]
  have hlen := fitEpochs_labels_length KB (scalarCfg mt false (· + eps) (· - eps) infB) self.module_b.params
    (fun _ _ _ => false) (k + 1) Ys
  have hA := smap_fit_spec KA infA eps mt self.smap Xs
    (fitEpochs KB (scalarCfg mt false (· + eps) (· - eps) infB) self.module_b.params (fun _ _ _ => false) (k + 1) Ys).labels
    (by omega) k v
  simp only at hA
  simp only [hA]
  rfl

/-- **`ARTMAP.fit` with the default `max_iter = 1` is the model's `artmapFit`** (the definition the C09 theorems use) -/
theorem fit_model (KA : Kernel XA WtA β β) (KB : Kernel XB WtB β β) (infA infB eps : β) (mt : MT)
    (self : ImpARTMAP.Self WtA β WtB β) (Xs : List XA) (Ys : List XB) (hxy : Xs.length = Ys.length) (v : Bool)
    (st0 : ArtmapState WtA WtB) :
    letI : Inhabited β := ⟨0⟩
    Art.Gen.ARTMAP.fit (scalarExt KA infA) (scalarExt KB infB) self Xs Ys 1 mt eps v =
      some (conc self.smap.a.params self.module_b.params true
              (artmapFit KA KB (scalarCfg mt false (· + eps) (· - eps) infA) (scalarCfg mt false (· + eps) (· - eps) infB)
                self.smap.a.params self.module_b.params st0 Xs Ys), ()) := by
  letI : Inhabited β := ⟨0⟩
  have h := fit_spec KA KB infA infB eps mt self Xs Ys hxy 0 v
  simp only [Nat.zero_add] at h
  rw [h]
  have h1 : fitEpochs KB (scalarCfg mt false (· + eps) (· - eps) infB) self.module_b.params noVeto 1 Ys =
      Art.fit KB (scalarCfg mt false (· + eps) (· - eps) infB) self.module_b.params noVeto {} Ys :=
    fitEpochs_one KB _ self.module_b.params (fun _ _ => false) {} Ys
  simp only [h1, artmapFit]
  rw [smapFitEpochs_one KA _ self.smap.a.params {}]
  have hlen : (Art.fit KB (scalarCfg mt false (· + eps) (· - eps) infB) self.module_b.params noVeto {} Ys).labels.length = Ys.length := by
    unfold Art.fit; rw [partialFit_labels_length]; simp
  have hLB : (smapFit KA (scalarCfg mt false (· + eps) (· - eps) infA) self.smap.a.params {}
      (Xs.zip (Art.fit KB (scalarCfg mt false (· + eps) (· - eps) infB) self.module_b.params noVeto {} Ys).labels)).labelsB =
      (Art.fit KB (scalarCfg mt false (· + eps) (· - eps) infB) self.module_b.params noVeto {} Ys).labels := by
    unfold smapFit
    rw [smapPartialFit_labelsB]
    simp only [List.nil_append]
    have := List.map_snd_zip (l₁ := Xs)
      (l₂ := (Art.fit KB (scalarCfg mt false (· + eps) (· - eps) infB) self.module_b.params noVeto {} Ys).labels) (by omega)
    simpa using this
  simp only [conc, hLB]

/-! #### `partial_fit`: the reset of the B-side on the host's first batch, then the training calls -/

/-- what the conditional at the head of `ARTMAP.partial_fit` does to the object: on the host's first batch (`labels_`
does not exist yet) the B-side module gets an empty `W` (which now exists), empty counters and an empty label vector;
its hyper-parameters stay.  On later batches nothing happens. -/
def firstBatchReset {WtA PA WtB PB : Type} (self : ImpARTMAP.Self WtA PA WtB PB) : ImpARTMAP.Self WtA PA WtB PB :=
  if self.smap.hasLabels then self
  else { self with module_b := ⟨[], [], 0, self.module_b.params, [], true⟩ }

/-- the statements of `ARTMAP.partial_fit` after the conditional (the B-side sees the new targets, the A-side is
supervised by the B-labels of this batch) — an intermediate of the proofs only; `partial_fit_split` ties it to the
generated definition -/
def partialFitTail {XtA WtA PA CA XtB WtB PB CB α : Type} [LT α] [DecidableRel (α := α) (· < ·)]
    [Inhabited WtA] [Inhabited CA] [Inhabited WtB] [Inhabited CB]
    (EA : Ext XtA WtA PA CA α) (EB : Ext XtB WtB PB CB α) (self : ImpARTMAP.Self WtA PA WtB PB)
    (X : List XtA) (y : List XtB) (mt : MT) (eps : α) : Option (ImpARTMAP.Self WtA PA WtB PB × Unit) :=
  let b := (Art.Gen.BaseART.partial_fit EB self.module_b y true (fun _ _ _ _ _ => true) mt eps).1
  let s := (Art.Gen.SimpleARTMAP.partial_fit EA self.smap X (pyLastN b.labels X.length) mt eps).1
  some (⟨b, s⟩, ())

/-- **the generated `ARTMAP.partial_fit` = the reset of the B-side on the host's first batch, then the two training
calls** — for any kernels (`EA`, `EB` abstract), any object, any batch -/
theorem partial_fit_split {XtA WtA PA CA XtB WtB PB CB α : Type} [LT α] [DecidableRel (α := α) (· < ·)]
    [Inhabited WtA] [Inhabited CA] [Inhabited WtB] [Inhabited CB]
    (EA : Ext XtA WtA PA CA α) (EB : Ext XtB WtB PB CB α) (self : ImpARTMAP.Self WtA PA WtB PB)
    (X : List XtA) (y : List XtB) (mt : MT) (eps : α) :
    Art.Gen.ARTMAP.partial_fit EA EB self X y mt eps = partialFitTail EA EB (firstBatchReset self) X y mt eps := by
  unfold Art.Gen.ARTMAP.partial_fit partialFitTail firstBatchReset
  cases h : self.smap.hasLabels <;> rfl

/-- **the point of fix F48 (C06), for any kernels: on the host's first batch the result of `partial_fit` does not depend
on what the B-side module holds** — two hosts that differ only in `module_b.W`, `weight_sample_counter_`,
`sample_counter_`, `labels_` and in whether `module_b.W` exists at all give the same object -/
theorem partial_fit_first_batch_indep {XtA WtA PA CA XtB WtB PB CB α : Type} [LT α] [DecidableRel (α := α) (· < ·)]
    [Inhabited WtA] [Inhabited CA] [Inhabited WtB] [Inhabited CB]
    (EA : Ext XtA WtA PA CA α) (EB : Ext XtB WtB PB CB α) (self₁ self₂ : ImpARTMAP.Self WtA PA WtB PB)
    (X : List XtA) (y : List XtB) (mt : MT) (eps : α)
    (hfirst : self₁.smap.hasLabels = false) (hs : self₁.smap = self₂.smap)
    (hp : self₁.module_b.params = self₂.module_b.params) :
    Art.Gen.ARTMAP.partial_fit EA EB self₁ X y mt eps = Art.Gen.ARTMAP.partial_fit EA EB self₂ X y mt eps := by
  rw [partial_fit_split, partial_fit_split]
  congr 1
  have h2 : self₂.smap.hasLabels = false := hs ▸ hfirst
  simp only [firstBatchReset, h2, hs, hp]
  rfl

/-- the model of the repaired `ARTMAP.partial_fit`: `artmapPartialFit` (ArtModel/ARTMAP.lean), from a state whose
B-side is the empty module when the batch is the host's first one -/
def artmapPartialFitHost {XA XB WtA WtB α μ θ : Type} [LT α] [DecidableRel (α := α) (· < ·)]
    (KA : Kernel XA WtA α μ) (KB : Kernel XB WtB α μ) (cfgA cfgB : SearchCfg μ θ) (thA thB : θ)
    (first : Bool) (st : ArtmapState WtA WtB) (xs : List XA) (ys : List XB) : ArtmapState WtA WtB :=
  artmapPartialFit KA KB cfgA cfgB thA thB (if first then { st with b := {} } else st) xs ys

theorem absState_firstBatchReset {WtA PA WtB PB : Type} (self : ImpARTMAP.Self WtA PA WtB PB) :
    absState (firstBatchReset self) =
      (if !self.smap.hasLabels then { absState self with b := {} } else absState self) := by
  unfold firstBatchReset
  cases h : self.smap.hasLabels
  · simp only [Bool.false_eq_true, if_false, Bool.not_false, if_true, absState, absB]
  · simp only [if_true, Bool.not_true, Bool.false_eq_true, if_false]

/-- the two training calls against the model's `artmapPartialFit` (the statement `partial_fit_model` had before F48,
now about the tail) -/
theorem partialFitTail_model (KA : Kernel XA WtA β β) (KB : Kernel XB WtB β β) (infA infB eps : β) (mt : MT)
    (self : ImpARTMAP.Self WtA β WtB β) (Xs : List XA) (Ys : List XB) (hxy : Xs.length = Ys.length) (hpos : 0 < Xs.length)
    (hinv : self.smap.hasLabels = true → self.smap.a.labels.length = self.smap.labelsB.length) :
    letI : Inhabited β := ⟨0⟩
    partialFitTail (scalarExt KA infA) (scalarExt KB infB) self Xs Ys mt eps =
      some (conc self.smap.a.params self.module_b.params (if self.smap.hasLabels then self.smap.a.hasW else true)
              (artmapPartialFit KA KB (scalarCfg mt false (· + eps) (· - eps) infA) (scalarCfg mt false (· + eps) (· - eps) infB)
                self.smap.a.params self.module_b.params (absState self) Xs Ys), ()) := by
  letI : Inhabited β := ⟨0⟩
  unfold partialFitTail
  have hB := scalar_partial_fit KB infB eps mt true (fun _ _ => false) (fun _ _ _ => rfl) self.module_b Ys
  simp only [Bool.not_false] at hB
  simp only [hB]
  have hlen := partialFit_labels_length KB (scalarCfg mt false (· + eps) (· - eps) infB) self.module_b.params
    (fun _ _ _ => false) (absB self.module_b) Ys
  have hdrop := pyLastN_drop
    (partialFit KB (scalarCfg mt false (· + eps) (· - eps) infB) self.module_b.params (fun _ _ _ => false) (absB self.module_b) Ys).labels
    Xs.length (absB self.module_b).labels.length hpos (by omega)
  have hA := smap_partial_fit_spec KA infA eps mt self.smap Xs
    ((partialFit KB (scalarCfg mt false (· + eps) (· - eps) infB) self.module_b.params (fun _ _ _ => false) (absB self.module_b) Ys).labels.drop
      (absB self.module_b).labels.length)
    (by simp only [List.length_drop]; omega) hinv
  simp only at hA
  simp only [absB] at hdrop hA
  simp only [hdrop, hA]
  rfl

/-- **`ARTMAP.partial_fit` is the model's `artmapPartialFit`, started from an empty B-side on the host's first batch**
(`artmapPartialFitHost`) on the abstraction of the object: the B-side sees the new targets, the A-side is supervised by
the B-labels of this batch — the slice `labels_b[-n:]` is the model's `drop (old length)` for a non-empty batch. -/
theorem partial_fit_model (KA : Kernel XA WtA β β) (KB : Kernel XB WtB β β) (infA infB eps : β) (mt : MT)
    (self : ImpARTMAP.Self WtA β WtB β) (Xs : List XA) (Ys : List XB) (hxy : Xs.length = Ys.length) (hpos : 0 < Xs.length)
    (hinv : self.smap.hasLabels = true → self.smap.a.labels.length = self.smap.labelsB.length) :
    letI : Inhabited β := ⟨0⟩
    Art.Gen.ARTMAP.partial_fit (scalarExt KA infA) (scalarExt KB infB) self Xs Ys mt eps =
      some (conc self.smap.a.params self.module_b.params (if self.smap.hasLabels then self.smap.a.hasW else true)
              (artmapPartialFitHost KA KB (scalarCfg mt false (· + eps) (· - eps) infA) (scalarCfg mt false (· + eps) (· - eps) infB)
                self.smap.a.params self.module_b.params (!self.smap.hasLabels) (absState self) Xs Ys), ()) := by
  letI : Inhabited β := ⟨0⟩
  have hs : (firstBatchReset self).smap = self.smap := by unfold firstBatchReset; split <;> rfl
  have hp : (firstBatchReset self).module_b.params = self.module_b.params := by unfold firstBatchReset; split <;> rfl
  rw [partial_fit_split, partialFitTail_model KA KB infA infB eps mt (firstBatchReset self) Xs Ys hxy hpos (by rw [hs]; exact hinv),
    absState_firstBatchReset, hs, hp]
  rfl

/-- **later batches continue the B-side (no reset)**: once the host has `labels_`, `partial_fit` is the model's
`artmapPartialFit` from the object's own B-side state — weights, counters and labels of `module_b` carry over -/
theorem partial_fit_later_batch (KA : Kernel XA WtA β β) (KB : Kernel XB WtB β β) (infA infB eps : β) (mt : MT)
    (self : ImpARTMAP.Self WtA β WtB β) (Xs : List XA) (Ys : List XB) (hxy : Xs.length = Ys.length) (hpos : 0 < Xs.length)
    (hlater : self.smap.hasLabels = true) (hinv : self.smap.a.labels.length = self.smap.labelsB.length) :
    letI : Inhabited β := ⟨0⟩
    Art.Gen.ARTMAP.partial_fit (scalarExt KA infA) (scalarExt KB infB) self Xs Ys mt eps =
      some (conc self.smap.a.params self.module_b.params self.smap.a.hasW
              (artmapPartialFit KA KB (scalarCfg mt false (· + eps) (· - eps) infA) (scalarCfg mt false (· + eps) (· - eps) infB)
                self.smap.a.params self.module_b.params (absState self) Xs Ys), ()) := by
  letI : Inhabited β := ⟨0⟩
  rw [partial_fit_model KA KB infA infB eps mt self Xs Ys hxy hpos (fun _ => hinv)]
  simp only [hlater, if_true, artmapPartialFitHost, Bool.not_true, Bool.false_eq_true, if_false]

/-- **C06 for the host's first batch: `partial_fit` on a host that has not been trained (`labels_` does not exist, the
map is the empty dict of the constructor) is `fit` with one epoch** — whatever `module_a` and `module_b` hold from an
earlier life (both are emptied), for every `verbose` -/
theorem partial_fit_first_batch_eq_fit (KA : Kernel XA WtA β β) (KB : Kernel XB WtB β β) (infA infB eps : β) (mt : MT)
    (self : ImpARTMAP.Self WtA β WtB β) (Xs : List XA) (Ys : List XB) (hxy : Xs.length = Ys.length) (hpos : 0 < Xs.length)
    (hfirst : self.smap.hasLabels = false) (hmap : self.smap.map = []) (v : Bool) :
    letI : Inhabited β := ⟨0⟩
    Art.Gen.ARTMAP.partial_fit (scalarExt KA infA) (scalarExt KB infB) self Xs Ys mt eps =
      Art.Gen.ARTMAP.fit (scalarExt KA infA) (scalarExt KB infB) self Xs Ys 1 mt eps v := by
  letI : Inhabited β := ⟨0⟩
  rw [partial_fit_model KA KB infA infB eps mt self Xs Ys hxy hpos (by simp [hfirst]),
    fit_model KA KB infA infB eps mt self Xs Ys hxy v {}]
  simp only [hfirst, Bool.false_eq_true, if_false, Bool.not_false, if_true, artmapPartialFitHost, artmapPartialFit, artmapFit,
    absState, absS, hmap, smapFit, Art.fit]
  rfl

end Train

/-! ### The C09 theorems, for the generated code -/

section C09
variable {XA XB WtA WtB β : Type} [Field β] [LinearOrder β] [IsStrictOrderedRing β] [Inhabited WtA] [Inhabited WtB]

theorem absS_map {Wt P : Type} (s : SMapSelf Wt P) : (absS s).map = s.map := by
  unfold absS; split <;> rfl

/-- on an object whose map satisfies the invariant, the generated `map_a2b` sends the stored A-side labels to the
stored targets -/
theorem map_a2b_of_inv {Wt P : Type} (s : SMapSelf Wt P) (h : MapInv (viewS s)) :
    Art.Gen.ARTMAP.BaseARTMAP.map_a2b s (.arr s.a.labels) = some (.arr s.labelsB) :=
  (map_a2b_model s s.a.labels s.labelsB).mpr (mapInv_mapA2B h)

theorem viewS_conc {WtA' PA' WtB' PB' : Type} (pA : PA') (pB : PB') (hw : Bool) (b : ArtState WtB') (s : SMapState WtA')
    (L : List Nat) (h : s.labelsB = L) :
    viewS (conc pA pB hw ⟨b, { s with labelsB := L }⟩ : ImpARTMAP.Self WtA' PA' WtB' PB').smap = s := by
  subst h; rfl

/-- **C09 `map_inv_fit_epochs` for the generated `ARTMAP.fit`, any `max_iter = k + 1`**: the call succeeds; afterwards
the map has exactly one, defined entry per A-side category and sends every stored A-side label to its target, the
targets of the A-side are the B-side labels, one per row. -/
theorem gen_fit_map_inv (KA : Kernel XA WtA β β) (KB : Kernel XB WtB β β) (infA infB eps : β) (mt : MT)
    (self : ImpARTMAP.Self WtA β WtB β) (Xs : List XA) (Ys : List XB) (hxy : Xs.length = Ys.length) (k : Nat) (v : Bool) :
    letI : Inhabited β := ⟨0⟩
    ∃ self', Art.Gen.ARTMAP.fit (scalarExt KA infA) (scalarExt KB infB) self Xs Ys (k + 1) mt eps v = some (self', ()) ∧
      MapInv (viewS self'.smap) ∧ self'.smap.labelsB = self'.module_b.labels ∧ self'.module_b.labels.length = Ys.length := by
  letI : Inhabited β := ⟨0⟩
  rw [fit_spec KA KB infA infB eps mt self Xs Ys hxy k v]
  have hlen := fitEpochs_labels_length KB (scalarCfg mt false (· + eps) (· - eps) infB) self.module_b.params noVeto (k + 1) Ys
  refine ⟨_, rfl, ?_, rfl, hlen⟩
  have hLB := smapFitEpochs_labelsB KA (scalarCfg mt false (· + eps) (· - eps) infA) self.smap.a.params k
    (Xs.zip (fitEpochs KB (scalarCfg mt false (· + eps) (· - eps) infB) self.module_b.params noVeto (k + 1) Ys).labels)
  have hz := List.map_snd_zip (l₁ := Xs)
    (l₂ := (fitEpochs KB (scalarCfg mt false (· + eps) (· - eps) infB) self.module_b.params noVeto (k + 1) Ys).labels) (by omega)
  have hI := C09.map_inv_fit_epochs KA (scalarCfg mt false (· + eps) (· - eps) infA) self.smap.a.params (k + 1)
    (Xs.zip (fitEpochs KB (scalarCfg mt false (· + eps) (· - eps) infB) self.module_b.params noVeto (k + 1) Ys).labels)
  rw [show (fun (x : XA × Nat) => x.2) = Prod.snd from rfl, hz] at hLB
  rw [viewS_conc _ _ _ _ _ _ hLB]
  exact hI

/-- **C09 `map_a2b_reproduces_targets` for the generated `ARTMAP.fit`**: mapping the A-side labels (`labels_a`) with the
generated `map_a2b` gives the B-side labels (`labels_b`), for any `max_iter`. -/
theorem gen_fit_map_a2b_labels (KA : Kernel XA WtA β β) (KB : Kernel XB WtB β β) (infA infB eps : β) (mt : MT)
    (self : ImpARTMAP.Self WtA β WtB β) (Xs : List XA) (Ys : List XB) (hxy : Xs.length = Ys.length) (k : Nat) (v : Bool) :
    letI : Inhabited β := ⟨0⟩
    ∃ self' la lb, Art.Gen.ARTMAP.fit (scalarExt KA infA) (scalarExt KB infB) self Xs Ys (k + 1) mt eps v = some (self', ()) ∧
      Art.Gen.ARTMAP.labels_a self' = some la ∧ Art.Gen.ARTMAP.labels_b self' = some lb ∧ lb.length = Ys.length ∧
      Art.Gen.ARTMAP.BaseARTMAP.map_a2b self'.smap (.arr la) = some (.arr lb) := by
  letI : Inhabited β := ⟨0⟩
  obtain ⟨self', hf, hI, hL, hlen⟩ := gen_fit_map_inv KA KB infA infB eps mt self Xs Ys hxy k v
  refine ⟨self', self'.smap.a.labels, self'.module_b.labels, hf, rfl, rfl, hlen, ?_⟩
  rw [← hL]
  exact map_a2b_of_inv self'.smap hI

/-- **C09 `map_inv_partial_fit` for the generated `ARTMAP.partial_fit`**: from any object whose map satisfies the
invariant the call succeeds, the invariant holds afterwards, and no entry of the map was overwritten (each A-side
category keeps one class for the whole history). -/
theorem gen_partial_fit_map_inv (KA : Kernel XA WtA β β) (KB : Kernel XB WtB β β) (infA infB eps : β) (mt : MT)
    (self : ImpARTMAP.Self WtA β WtB β) (Xs : List XA) (Ys : List XB) (hxy : Xs.length = Ys.length) (hpos : 0 < Xs.length)
    (hI : MapInv (absS self.smap)) :
    letI : Inhabited β := ⟨0⟩
    ∃ self', Art.Gen.ARTMAP.partial_fit (scalarExt KA infA) (scalarExt KB infB) self Xs Ys mt eps = some (self', ()) ∧
      MapInv (viewS self'.smap) ∧
      (∀ c y, mapGet self.smap.map c = some y → mapGet self'.smap.map c = some y) := by
  letI : Inhabited β := ⟨0⟩
  have hinv : self.smap.hasLabels = true → self.smap.a.labels.length = self.smap.labelsB.length := by
    intro hh
    have := hI.agree.length_eq
    simpa [absS, hh] using this
  rw [partial_fit_model KA KB infA infB eps mt self Xs Ys hxy hpos hinv]
  have hS : ∀ b : ArtState WtB, (if (!self.smap.hasLabels) = true then { absState self with b := b } else absState self).s =
      absS self.smap := by intro b; split <;> rfl
  refine ⟨_, rfl, ?_, ?_⟩
  · simp only [conc, viewS, artmapPartialFitHost, artmapPartialFit, hS]
    exact (C09.map_inv_partial_fit KA _ self.smap.a.params (absS self.smap) _ hI).1
  · intro c y hc
    simp only [conc, artmapPartialFitHost, artmapPartialFit, hS]
    exact (C09.map_inv_partial_fit KA (scalarCfg mt false (· + eps) (· - eps) infA) self.smap.a.params (absS self.smap)
      _ hI).2 c y (by rw [absS_map]; exact hc)

/-- … and `map_a2b(labels_a) = labels_b` is kept by `partial_fit`: if the stored targets of the A-side were the B-side
labels before the call, they are afterwards, and the generated `map_a2b` sends the A-side labels to them. -/
theorem gen_partial_fit_map_a2b_labels (KA : Kernel XA WtA β β) (KB : Kernel XB WtB β β) (infA infB eps : β) (mt : MT)
    (self : ImpARTMAP.Self WtA β WtB β) (Xs : List XA) (Ys : List XB) (hxy : Xs.length = Ys.length) (hpos : 0 < Xs.length)
    (hI : MapInv (absS self.smap)) (hA : self.smap.hasLabels = true) (hB : self.module_b.hasW = true)
    (hL : self.smap.labelsB = self.module_b.labels) :
    letI : Inhabited β := ⟨0⟩
    ∃ self', Art.Gen.ARTMAP.partial_fit (scalarExt KA infA) (scalarExt KB infB) self Xs Ys mt eps = some (self', ()) ∧
      self'.smap.labelsB = self'.module_b.labels ∧
      self'.module_b.labels.length = self.module_b.labels.length + Ys.length ∧
      Art.Gen.ARTMAP.BaseARTMAP.map_a2b self'.smap (.arr self'.smap.a.labels) = some (.arr self'.module_b.labels) := by
  letI : Inhabited β := ⟨0⟩
  obtain ⟨self', hf, hI', _⟩ := gen_partial_fit_map_inv KA KB infA infB eps mt self Xs Ys hxy hpos hI
  have hinv : self.smap.hasLabels = true → self.smap.a.labels.length = self.smap.labelsB.length := by
    intro hh
    have := hI.agree.length_eq
    simpa [absS, hh] using this
  have hm := partial_fit_later_batch KA KB infA infB eps mt self Xs Ys hxy hpos hA (hinv hA)
  have hf' := hf
  rw [hm] at hf'
  have hself : self' = _ := (Prod.mk.inj (Option.some.inj hf')).1.symm
  have hlen := partialFit_labels_length KB (scalarCfg mt false (· + eps) (· - eps) infB) self.module_b.params noVeto (absB self.module_b) Ys
  have htake := partialFit_labels_take KB (scalarCfg mt false (· + eps) (· - eps) infB) self.module_b.params noVeto (absB self.module_b) Ys
  have hb0 : (absB self.module_b).labels = self.module_b.labels := by simp [absB, hB]
  have hs0 : (absS self.smap).labelsB = self.smap.labelsB := by simp [absS, hA]
  have hLB : self'.smap.labelsB = self'.module_b.labels := by
    rw [hself]
    simp only [conc, artmapPartialFit, absState]
    rw [smapPartialFit_labelsB, hs0, hL]
    have hz := List.map_snd_zip (l₁ := Xs)
      (l₂ := (partialFit KB (scalarCfg mt false (· + eps) (· - eps) infB) self.module_b.params noVeto (absB self.module_b) Ys).labels.drop
        (absB self.module_b).labels.length) (by simp only [List.length_drop]; omega)
    rw [show (fun (x : XA × Nat) => x.2) = Prod.snd from rfl, hz]
    have hta := List.take_append_drop (absB self.module_b).labels.length
      (partialFit KB (scalarCfg mt false (· + eps) (· - eps) infB) self.module_b.params noVeto (absB self.module_b) Ys).labels
    rw [htake, hb0] at hta
    rw [hb0]
    exact hta
  refine ⟨self', hf, hLB, ?_, ?_⟩
  · rw [hself]
    simp only [conc, artmapPartialFit, absState]
    rw [hlen, hb0]
  · rw [← hLB]
    exact map_a2b_of_inv self'.smap hI'

/-- the class of the predicted A-side category, on a state that satisfies the invariant -/
theorem mapGet_predA (K : Kernel XA WtA β β) (s : SMapSelf WtA β) (hinv : MapInv (viewS s)) (hne : s.a.W ≠ []) (x : XA) :
    mapGet s.map (predA K s x) = some (predB K s x) := by
  have hs := stepPred_isSome K s.a.W x hne
  obtain ⟨c, hc⟩ := Option.isSome_iff_exists.mp hs
  obtain ⟨y, hy⟩ := hinv.total c (stepPred_lt K s.a.W x c hc)
  have hy' : mapGet s.map c = some y := hy
  simp [predA, predB, hc, hy']

/-- **C09 `predict_eq_map_of_predict_a` for the generated code**: `predict(X)` is `map_a2b` of the A-side prediction
(`predict_ab(X)[0]`), and `predict_ab(X)[1]` is `predict(X)`; neither call changes the estimator. -/
theorem gen_predict_eq_map_of_predict_a (K : Kernel XA WtA β β) (inf : β) {WtB' PB' : Type}
    (self : ImpARTMAP.Self WtA β WtB' PB') (Xs : List XA) (hinv : MapInv (viewS self.smap)) (hne : self.smap.a.W ≠ []) :
    letI : Inhabited β := ⟨0⟩
    ∃ ya yb, Art.Gen.ARTMAP.predict_ab (scalarExt K inf) self Xs = some (self, (ya, yb)) ∧
      Art.Gen.ARTMAP.predict (scalarExt K inf) self Xs = some (self, yb) ∧
      Art.Gen.ARTMAP.BaseARTMAP.map_a2b self.smap (.arr ya) = some (.arr yb) := by
  letI : Inhabited β := ⟨0⟩
  refine ⟨_, _, predict_ab_spec K inf self Xs, predict_spec K inf self Xs, ?_⟩
  rw [map_a2b_model]
  simp only [mapA2B, List.map_map]
  apply List.map_congr_left
  intro x _
  exact mapGet_predA K self.smap hinv hne x

end C09

/-! ### Non-vacuity: the generated code run on a Fuzzy ART pair over ℚ

A-side vigilance 1/4, B-side 9/10, MT+, epsilon 1/1000.  The third row is close to the first but has another target:
category 0 is vetoed, match tracking raises the vigilance, a third category is committed.  The second batch repeats
the first row with the *other* target: a fourth category (contradictory labels never overwrite the map).
The same calls on the real `ARTMAP(FuzzyART, FuzzyART)` give the same map, labels and predictions. -/

private def exEA : Ext (List ℚ) (List ℚ) ℚ ℚ ℚ := scalarExt (fuzzyKernel (1/100 : ℚ) 1 2) 1000
private def exEB : Ext (List ℚ) (List ℚ) ℚ ℚ ℚ := scalarExt (fuzzyKernel (1/100 : ℚ) 1 1) 1000
private def ex0 : ImpARTMAP.Self (List ℚ) ℚ (List ℚ) ℚ :=
  { module_b := ⟨[], [], 0, 9/10, [], false⟩, smap := ⟨⟨[], [], 0, 1/4, [], false⟩, [], [], false⟩ }
private def exX : List (List ℚ) := [[1/4, 1/4, 3/4, 3/4], [3/4, 3/4, 1/4, 1/4], [1/4, 1/2, 3/4, 1/2]]
private def exY : List (List ℚ) := [[0, 1], [1, 0], [1, 0]]
private def exOB : ModuleOps (List ℚ) ℚ (List ℚ) := ⟨fun b => some b.W⟩
/-- the object after `fit(exX, exY)` and after the further `partial_fit([exX[0]], [[1, 0]])` -/
private def ex2 : ImpARTMAP.Self (List ℚ) ℚ (List ℚ) ℚ :=
  { module_b := ⟨[[0, 1], [1, 0]], [1, 3], 4, 9/10, [0, 1, 1, 1], true⟩
    smap := ⟨⟨[[1/4, 1/4, 3/4, 3/4], [3/4, 3/4, 1/4, 1/4], [1/4, 1/2, 3/4, 1/2], [1/4, 1/4, 3/4, 3/4]], [1, 1, 1, 1], 4, 1/4,
              [0, 1, 2, 3], true⟩, [some 0, some 1, some 1, some 1], [0, 1, 1, 1], true⟩ }

example :
    letI : Inhabited ℚ := ⟨0⟩
    (Art.Gen.ARTMAP.fit exEA exEB ex0 exX exY 1 MT.plus (1/1000) false).map
        (fun r => (r.1.smap.map, r.1.smap.a.labels, r.1.module_b.labels, r.1.smap.labelsB)) =
      some ([some 0, some 1, some 1], [0, 1, 2], [0, 1, 1], [0, 1, 1]) := by
  decide +kernel

example :
    letI : Inhabited ℚ := ⟨0⟩
    ((Art.Gen.ARTMAP.fit exEA exEB ex0 exX exY 1 MT.plus (1/1000) false).bind
        (fun r => Art.Gen.ARTMAP.partial_fit exEA exEB r.1 [[1/4, 1/4, 3/4, 3/4]] [[1, 0]] MT.plus (1/1000))).map
        (fun r => (r.1.smap.map, r.1.smap.a.labels, r.1.module_b.labels, r.1.smap.labelsB)) =
      some (ex2.smap.map, ex2.smap.a.labels, ex2.module_b.labels, ex2.smap.labelsB) := by
  decide +kernel

/-- F48: a host that has never been trained, constructed around the USED B-side module of `ex2` (two categories, four
labels, counters [1, 3]) and a used A-side module -/
private def ex0used : ImpARTMAP.Self (List ℚ) ℚ (List ℚ) ℚ :=
  { module_b := ex2.module_b, smap := ⟨ex2.smap.a, [], [], false⟩ }

/-- its first `partial_fit` gives what `fit` gives on a fresh pair (first example): three B-labels, not seven; the B-side
counters count this batch only -/
example :
    letI : Inhabited ℚ := ⟨0⟩
    (Art.Gen.ARTMAP.partial_fit exEA exEB ex0used exX exY MT.plus (1/1000)).map
        (fun r => (r.1.smap.map, r.1.smap.a.labels, r.1.module_b.labels, r.1.smap.labelsB, r.1.module_b.cnt, r.1.module_b.n)) =
      some ([some 0, some 1, some 1], [0, 1, 2], [0, 1, 1], [0, 1, 1], [1, 2], 3) := by
  decide +kernel

/-- the hypotheses of `partial_fit_first_batch_indep` are satisfiable: the used B-side module against the untrained one -/
example :
    letI : Inhabited ℚ := ⟨0⟩
    Art.Gen.ARTMAP.partial_fit exEA exEB ex0used exX exY MT.plus (1/1000) =
      Art.Gen.ARTMAP.partial_fit exEA exEB { ex0used with module_b := ex0.module_b } exX exY MT.plus (1/1000) :=
  letI : Inhabited ℚ := ⟨0⟩
  partial_fit_first_batch_indep exEA exEB ex0used { ex0used with module_b := ex0.module_b } exX exY MT.plus (1/1000) rfl rfl rfl

example : letI : Inhabited ℚ := ⟨0⟩
    (Art.Gen.ARTMAP.predict exEA ex2 exX).map (·.2) = some [0, 1, 1] := by decide +kernel
example : letI : Inhabited ℚ := ⟨0⟩
    (Art.Gen.ARTMAP.predict_ab exEA ex2 exX).map (·.2) = some ([0, 1, 2], [0, 1, 1]) := by decide +kernel
example : letI : Inhabited ℚ := ⟨0⟩
    (Art.Gen.ARTMAP.predict_regression exEA exOB ex2 exX).map (·.2) = some [[0, 1], [1, 0], [1, 0]] := by decide +kernel
example : Art.Gen.ARTMAP.BaseARTMAP.map_a2b ex2.smap (.arr [2, 0, 1, 0]) = some (.arr [1, 0, 1, 0]) := by decide +kernel
example : Art.Gen.ARTMAP.BaseARTMAP.map_a2b ex2.smap (.arr [2, 0, 7, 0]) = none := by decide +kernel
example : Art.Gen.ARTMAP.BaseARTMAP.map_a2b ex2.smap (.int 1) = some (.int 1) := by decide +kernel
example : Art.Gen.ARTMAP.SimpleARTMAP.n_clusters_b ex2.smap = some 2 := by decide +kernel
example : Art.Gen.ARTMAP.labels_ab ex2 = some ([0, 1, 2, 3], [0, 1, 1, 1]) := by decide +kernel
/-- the hypotheses of the transport theorems are satisfiable: this trained object satisfies the map invariant -/
example : MapInv (viewS ex2.smap) where
  map_len := by decide
  total := by
    intro c hc
    have : c < 4 := hc
    have : c = 0 ∨ c = 1 ∨ c = 2 ∨ c = 3 := by omega
    rcases this with rfl | rfl | rfl | rfl <;> exact ⟨_, rfl⟩
  agree := by
    simp only [viewS, ex2]
    repeat (first | exact List.Forall₂.nil | refine List.Forall₂.cons (by decide) ?_)

end Art.GenSpec.ARTMAP
