/-
ArtGenProofs.FusionFitSpec — FusionART *training*, as translated from the Python source by `harness/artv/ftrans3.py`
(ArtGen/FusionFit.lean: `BaseART.step_fit` / `fit` as executed on a FusionART, FusionART's own `partial_fit`,
`_set_params`, `_deep_copy_params`, the `W` setter; every kernel call inside them is the definition ftrans generates,
ArtGen/Fusion.lean), computes the model of `ArtModel/Fusion.lean` the C10 theorems are stated about.
-/
import ArtGen.FusionFit
import ArtGenProofs.FusionSpec
import ArtGenProofs.ControlSpec
import ArtProps.C10

set_option linter.unusedSectionVars false
set_option linter.unusedVariables false
set_option linter.unusedSimpArgs false

namespace Art.GenSpec.FusionFit
open Art Art.Fusion Art.Imp Art.ImpFusion3 Art.Gen.FusionART Art.Gen.FusionARTFit Art.GenSpec

/-! ### the monadic `while` loop follows the model's `search` -/
section Loop
variable {α μ θ P R S : Type} [LinearOrder α]

/-- what one iteration of the loop body does, in the model's vocabulary.  `Inv` is an invariant of the search state,
`InvT` of the activation vector, `Res c r` says that `r` is an acceptable result of resonating with `c`. -/
structure BodySpecM (cfg : SearchCfg μ θ) (Mv : Nat → μ) (veto : Nat → Bool) (th : P → θ) (Inv : P → Prop)
    (InvT : List (Option α) → Prop) (pack : P → List (Option α) → S) (Res : Nat → R → Prop)
    (body : S → Option (Flow R S)) : Prop where
  step : ∀ (p : P) (T : List (Option α)) (c : Nat), Inv p → InvT T → nanargmax T = some c →
    let m := cfg.passes (th p) (Mv c)
    let ok := cfg.tilde || !veto c
    if m && ok then ∃ r, body (pack p T) = some (.ret r) ∧ Res c r
    else if m && !ok then
      ∃ p1, Inv p1 ∧ th p1 = cfg.track (th p) (Mv c) ∧
        body (pack p T) = some (.next (pack p1 (if cfg.keep then T.set c none else (T.set c none).map (fun _ => none))))
    else body (pack p T) = some (.next (pack p (T.set c none)))

/-- the translated `while` loop (in the `Option` monad) follows the model's `search` and never raises -/
theorem whileM_follows_search (cfg : SearchCfg μ θ) (Mv : Nat → μ) (veto : Nat → Bool) (th : P → θ) (Inv : P → Prop)
    (InvT : List (Option α) → Prop) (pack : P → List (Option α) → S) (Res : Nat → R → Prop)
    (cond : S → Bool) (body : S → Option (Flow R S))
    (hcond : ∀ p T, cond (pack p T) = T.any Option.isSome)
    (hset : ∀ T c, InvT T → InvT (T.set c none))
    (hblank : ∀ T, InvT T → InvT (T.map (fun _ => none)))
    (hbody : BodySpecM cfg Mv veto th Inv InvT pack Res body) :
    ∀ (fuel : Nat) (p : P) (T : List (Option α)), Inv p → InvT T →
      match (search cfg Mv veto fuel T (th p)).winner with
      | some c => ∃ r, whileM cond body fuel (pack p T) = some (.ret r) ∧ Res c r
      | none => ∃ p' T', Inv p' ∧ whileM cond body fuel (pack p T) = some (.next (pack p' T')) := by
  intro fuel
  induction fuel with
  | zero =>
    intro p T hp _
    simp only [search, whileM]
    exact ⟨p, T, hp, rfl⟩
  | succ n ih =>
    intro p T hp hT
    simp only [search, whileM, hcond]
    cases hn : nanargmax T with
    | none =>
      have : T.any Option.isSome = false := by
        cases h : T.any Option.isSome with
        | false => rfl
        | true =>
          obtain ⟨c, hc⟩ := (Control.any_isSome_iff T).mp h
          rw [hn] at hc; cases hc
      simp only [this]
      exact ⟨p, T, hp, by simp⟩
    | some c =>
      have hany : T.any Option.isSome = true := (Control.any_isSome_iff T).mpr ⟨c, hn⟩
      simp only [hany, if_true]
      have hs := hbody.step p T c hp hT hn
      simp only at hs
      by_cases h1 : (cfg.passes (th p) (Mv c) && (cfg.tilde || !veto c)) = true
      · simp only [h1, if_true] at hs ⊢
        obtain ⟨r, hr, hres⟩ := hs
        exact ⟨r, by simp [hr], hres⟩
      · simp only [h1] at hs ⊢
        simp only [Bool.not_eq_true] at h1
        by_cases h2 : (cfg.passes (th p) (Mv c) && !(cfg.tilde || !veto c)) = true
        · simp only [h2, if_true] at hs ⊢
          obtain ⟨p1, hp1, hth, hb⟩ := hs
          rw [hb]
          cases hk : cfg.keep with
          | true =>
            simp only [hk, if_true] at hb ⊢
            have := ih p1 (T.set c none) hp1 (hset T c hT)
            rw [hth] at this
            simp only [SearchResult.cons]
            exact this
          | false =>
            simp only [hk] at hb ⊢
            simp only [Bool.false_eq_true, if_false]
            cases n with
            | zero => exact ⟨p1, (T.set c none).map (fun _ => none), hp1, rfl⟩
            | succ k =>
              refine ⟨p1, (T.set c none).map (fun _ => none), hp1, ?_⟩
              have hblank' : ((T.set c none).map (fun _ => (none : Option α))).any Option.isSome = false := by
                rw [List.any_eq_false]
                intro t ht
                simp only [List.mem_map] at ht
                obtain ⟨_, _, rfl⟩ := ht
                simp
              show whileM cond body (k + 1) (pack p1 ((T.set c none).map (fun _ => none))) = _
              rw [whileM, hcond, hblank']
              rfl
        · simp only [h2] at hs ⊢
          rw [hs]
          have := ih p (T.set c none) hp (hset T c hT)
          simp only [SearchResult.cons]
          exact this

end Loop

/-! ### the small methods: `_deep_copy_params`, `_set_params`, the `W` setter -/
section Small
variable {M P C α : Type} [Field α] [LinearOrder α] [IsStrictOrderedRing α]

theorem foldlM_modules (body : FSelf M → Nat → Option (FSelf M)) (bodyL : List M → Nat → Option (List M))
    (h : ∀ (self : FSelf M) k, body self k = (bodyL self.modules k).map (fun ms => { self with modules := ms }))
    (l : List Nat) (self : FSelf M) :
    l.foldlM body self = (l.foldlM bodyL self.modules).map (fun ms => { self with modules := ms }) := by
  induction l generalizing self with
  | nil => simp
  | cons k l ih =>
    rw [List.foldlM_cons, List.foldlM_cons, h]
    cases hb : bodyL self.modules k with
    | none => simp
    | some ms => simp [ih]

theorem deep_copy_params_spec (ops : ModOps M α P C Bool) (self : FSelf M) :
    deep_copy_params ops self = some (self.modules.map ops.params) := by
  unfold deep_copy_params
  simp only [Option.bind_eq_bind, pure]
  rw [mapM_some_of_forall (g := fun mi => ops.params mi.1) (by intro a _; rfl)]
  congr 1
  apply List.ext_getElem?
  intro k
  rw [zipIdx_map_getElem?, List.getElem?_map]

/-- the modules after `_set_params(ps)` -/
def setParamsList (fops : FitOps M α P) (mods : List M) (ps : List P) : List M :=
  mods.zipIdx.map (fun mk => match ps[mk.2]? with | some p => fops.set_params mk.1 p | none => mk.1)

theorem set_params_spec (fops : FitOps M α P) (self : FSelf M) (ps : List P) (hn : self.n = self.modules.length)
    (hl : ps.length = self.modules.length) :
    set_params fops self ps = some { self with modules := setParamsList fops self.modules ps } := by
  unfold set_params
  simp only [pure]
  rw [foldlM_modules _ (fun ms i => ms[i]?.bind fun m => ps[i]?.bind fun p => some (ms.set i (fops.set_params m p)))]
  · rw [hn, foldlM_range_set _ (fun k m => match ps[k]? with | some p => fops.set_params m p | none => m)
      self.modules.length _ self.modules rfl self.modules.length (Nat.le_refl _)]
    · simp only [Option.map_some, Option.bind_some, setParamsList]
      congr 2
      apply List.map_congr_left
      intro mk hmk
      have := List.snd_lt_of_mem_zipIdx hmk
      have h2 : mk.2 < self.modules.length := by omega
      simp [h2]
    · intro ms k m hms hm
      have hk : k < ms.length := (List.getElem?_eq_some_iff.1 hm).1
      have hp : ps[k]? = some ps[k] := List.getElem?_eq_getElem (by omega)
      simp [hm, hp]
  · intro self k
    cases self.modules[k]? <;> cases ps[k]? <;> rfl

/-- what the `W` setter does to a module when handed the empty list -/
def resetM (fops : FitOps M α P) (m : M) : M := fops.set_n (fops.set_cnt (fops.set_W m []) []) 0

theorem W_set_nil_spec (fops : FitOps M α P) (self : FSelf M) (hn : self.n = self.modules.length) :
    W_set fops self [] = some { self with modules := self.modules.map (resetM fops) } := by
  unfold W_set
  simp only [pure]
  rw [foldlM_modules _ (fun ms k => ms[k]?.bind fun m => some (ms.set k (resetM fops m)))]
  · rw [hn, foldlM_range_set _ (fun _ m => resetM fops m)
      self.modules.length _ self.modules rfl self.modules.length (Nat.le_refl _)]
    · simp only [Option.map_some]
      congr 2
      apply List.ext_getElem?
      intro k
      rw [zipIdx_map_getElem?, List.getElem?_map]
      cases hk : self.modules[k]? with
      | none => rfl
      | some m =>
        have : k < self.modules.length := (List.getElem?_eq_some_iff.1 hk).1
        simp [this]
    · intro ms k m hms hm
      simp [hm]
  · intro self k
    cases hk : self.modules[k]? with
    | none => simp
    | some m =>
      have : k < self.modules.length := (List.getElem?_eq_some_iff.1 hk).1
      simp [this, resetM]

theorem mapM_length {β γ : Type} {l : List γ} {f : γ → Option β} {r : List β} (h : l.mapM f = some r) :
    r.length = l.length := by
  induction l generalizing r with
  | nil => simp at h; subst h; rfl
  | cons a l ih =>
    rw [List.mapM_cons] at h
    cases hfa : f a with
    | none => simp [hfa] at h
    | some b =>
      cases hr : l.mapM f with
      | none => simp [hfa, hr] at h
      | some r' =>
        simp [hfa, hr] at h
        subst h
        simp [ih hr]

/-- per-channel result of the modules' own `match_criterion_bin` -/
def binAt (ops : ModOps M α P C Bool) (chans : List (Chan α)) (x w : List α) (cc : List C) (op : Bool) (dictSkip : C)
    (mk : M × Nat) : Bool × C :=
  match cc[mk.2]? with
  | some c => ops.match_criterion_bin mk.1 (slice (widths chans) mk.2 x) (slice (wlens chans) mk.2 w) (ops.params mk.1) c op
  | none => (true, dictSkip)

theorem match_criterion_bin_full (ops : ModOps M α P C Bool) (chans : List (Chan α)) (modules : List M) (n : Nat)
    (chIdx wIdx : List (Nat × Nat)) (gamma_values : List α) (dictSkip : C)
    (L : Layout chans modules n chIdx wIdx gamma_values)
    (x w : List α) (cache : List C) (hcache : cache.length = n) (op : Bool) :
    match_criterion_bin ops modules n chIdx wIdx dictSkip x w (some cache) op []
      = some (((modules.zipIdx.map (binAt ops chans x w cache op dictSkip)).map (·.1)).all id,
              (modules.zipIdx.map (binAt ops chans x w cache op dictSkip)).map (·.2)) := by
  obtain ⟨hn, hlen, hch, hw, hg⟩ := L
  subst hn hch hw hg
  unfold match_criterion_bin
  simp only [Option.bind_eq_bind, Option.bind_some]
  rw [mapM_some_of_forall (g := fun k => match modules[k]? with
      | some m => binAt ops chans x w cache op dictSkip (m, k) | none => (true, dictSkip))]
  · simp only [Option.bind_some, pure]
    have e : (List.range modules.length).map (fun k => match modules[k]? with
        | some m => binAt ops chans x w cache op dictSkip (m, k) | none => (true, dictSkip))
        = modules.zipIdx.map (binAt ops chans x w cache op dictSkip) := by
      apply range_map_eq_zipIdx_map
      intro k m hm
      simp [hm]
    rw [e]
  · intro k hk
    have hk' : k < modules.length := List.mem_range.1 hk
    have hkc : k < chans.length := hlen ▸ hk'
    have hm : modules[k]? = some modules[k] := List.getElem?_eq_getElem hk'
    have hcc : cache[k]? = some cache[k] := List.getElem?_eq_getElem (hcache ▸ hk')
    have hp1 := positions_getElem? (widths chans) k (by simpa using hkc)
    have hp2 := positions_getElem? (wlens chans) k (by simpa using hkc)
    have hs1 := pySlice_positions (widths chans) k (by simpa using hkc) x
    have hs2 := pySlice_positions (wlens chans) k (by simpa using hkc) w
    simp only [List.getD_eq_getElem?_getD] at hp1 hp2 hs1 hs2
    simp [binAt, hm, hcc, hp1, hp2, hs1, hs2]

theorem category_choice_cache_length (ops : ModOps M α P C Bool) (modules : List M) (n : Nat)
    (chIdx wIdx : List (Nat × Nat)) (gamma_values : List α) (dictEmpty : C) (x w : List α) (skip : List Nat)
    (r : Option α × List C)
    (h : category_choice ops modules n chIdx wIdx gamma_values dictEmpty x w skip = some r) : r.2.length = n := by
  unfold category_choice at h
  simp only [Option.bind_eq_bind, pure] at h
  obtain ⟨z, hz, h2⟩ := Option.bind_eq_some_iff.1 h
  obtain ⟨a, ha, h3⟩ := Option.bind_eq_some_iff.1 h2
  simp only [Option.some.injEq] at h3
  subst h3
  simp [mapM_length hz]

end Small

/-! ### the contract between the abstract nested estimators and the channels of the model -/
section Train
variable {M P C α : Type} [Field α] [LinearOrder α] [IsStrictOrderedRing α]

/-- What is assumed of the nested estimators: module `k` is an elementary ART module whose kernel methods are the
channel's `Kernel`, whose vigilance test is the scalar test of `rhoP params` with the operator
`_match_tracking_operator(mode)`, whose `_match_tracking` is the scalar rule, and whose attribute stores are lenses on
its observable state `st m` (weights, counters) and `ops.params m`.  `Dom k m` says that `m` is an object of channel
`k`'s class and configuration (e.g. "its kernel is the channel's"); the kernel clauses hold for every such object and
`Dom k` is closed under everything the training code does to `modules[k]`, so they survive match tracking,
`add_weight` / `set_weight` and `_set_params`. -/
structure Sys (ops : ModOps M α P C Bool) (fops : FitOps M α P) (chans : List (Chan α)) (mode : MT) (eps top : α)
    (st : M → ModState α) (rhoP : P → α) (Dom : Nat → M → Prop) : Prop where
  W_eq : ∀ m, ops.W m = (st m).W
  ncl : ∀ m, ops.n_clusters m = (st m).W.length
  choice : ∀ (k : Nat) (c : Chan α), chans[k]? = some c → ∀ m, Dom k m → ∀ xi wi,
    (ops.category_choice m xi wi (ops.params m)).1 = c.K.choice (ops.W m) xi wi
  bin : ∀ (k : Nat) (c : Chan α), chans[k]? = some c → ∀ m, Dom k m → ∀ xi wi cc,
    (ops.match_criterion_bin m xi wi (ops.params m) cc (match_tracking_operator mode)).1
      = passesScalar mode false (rhoP (ops.params m)) (c.K.matchv xi wi)
  bin_cache : ∀ m xi wi cc op,
    ops.cache_match_criterion_bin (ops.match_criterion_bin m xi wi (ops.params m) cc op).2
      = (ops.match_criterion_bin m xi wi (ops.params m) cc op).1
  track : ∀ (k : Nat) (c : Chan α), chans[k]? = some c → ∀ m, Dom k m → ∀ xi wi cc,
    let r := ops.match_tracking m (ops.match_criterion_bin m xi wi (ops.params m) cc (match_tracking_operator mode)).2
      eps (ops.params m) mode
    r.1 = (mode != .one) ∧
    rhoP (ops.params r.2) = trackScalar mode (· + eps) (· - eps) top (rhoP (ops.params m)) (c.K.matchv xi wi) ∧
    st r.2 = st m ∧ Dom k r.2
  update : ∀ (k : Nat) (c : Chan α), chans[k]? = some c → ∀ m, Dom k m → ∀ xi wi cc,
    ops.update m xi wi (ops.params m) cc = c.K.update xi wi
  newW : ∀ (k : Nat) (c : Chan α), chans[k]? = some c → ∀ m, Dom k m → ∀ xi,
    ops.new_weight m xi (ops.params m) = c.K.newW xi
  add_st : ∀ m v, st (ops.add_weight m v) = ⟨(st m).W ++ [v], (st m).cnt ++ [1]⟩
  add_params : ∀ m v, ops.params (ops.add_weight m v) = ops.params m
  set_st : ∀ m c v, st (ops.set_weight m c v) = ⟨(st m).W.set c v, (st m).cnt.set c ((st m).cnt.getD c 0 + 1)⟩
  set_params : ∀ m c v, ops.params (ops.set_weight m c v) = ops.params m
  setp_params : ∀ m p, ops.params (fops.set_params m p) = p
  setp_st : ∀ m p, st (fops.set_params m p) = st m
  reset_st : ∀ m, st (resetM fops m) = ⟨[], []⟩
  reset_params : ∀ m, ops.params (resetM fops m) = ops.params m
  /-- the domain of channel `k` is closed under everything the training code does to `modules[k]` -/
  dom_add : ∀ k m v, Dom k m → Dom k (ops.add_weight m v)
  dom_set : ∀ k m c v, Dom k m → Dom k (ops.set_weight m c v)
  dom_setp : ∀ k m p, Dom k m → Dom k (fops.set_params m p)
  dom_reset : ∀ k m, Dom k m → Dom k (resetM fops m)

/-- the vigilance values of the modules: the threshold vector the search tracks -/
def rhos (ops : ModOps M α P C Bool) (rhoP : P → α) (mods : List M) : List α := mods.map (fun m => rhoP (ops.params m))

/-- the invariant of the modules during one training step: as many as channels, and their observable states are the
projections of the fused state `s` -/
def InvM (chans : List (Chan α)) (st : M → ModState α) (Dom : Nat → M → Prop) (s : ArtState (List α)) (mods : List M) : Prop :=
  mods.length = chans.length ∧ mods.map st = chanStates chans s ∧ ∀ (k : Nat) (m : M), mods[k]? = some m → Dom k m

theorem InvM.st_at {chans : List (Chan α)} {st : M → ModState α} {Dom : Nat → M → Prop} {s : ArtState (List α)} {mods : List M}
    (h : InvM chans st Dom s mods) (k : Nat) (m : M) (hm : mods[k]? = some m) : st m = chanState (wlens chans) k s := by
  have hk : k < mods.length := (List.getElem?_eq_some_iff.1 hm).1
  have h1 : (mods.map st)[k]? = some (st m) := by simp [hm]
  rw [h.2.1, chanStates_getElem? chans s k (h.1 ▸ hk)] at h1
  exact (Option.some.inj h1).symm

theorem InvM.W_at {ops : ModOps M α P C Bool} {fops : FitOps M α P} {chans : List (Chan α)} {mode : MT} {eps top : α}
    {st : M → ModState α} {rhoP : P → α} {Dom : Nat → M → Prop} (S : Sys ops fops chans mode eps top st rhoP Dom)
    {s : ArtState (List α)} {mods : List M}
    (h : InvM chans st Dom s mods) (k : Nat) (m : M) (hm : mods[k]? = some m) :
    ops.W m = s.W.map (slice (wlens chans) k) := by
  rw [S.W_eq, h.st_at k m hm]; rfl

theorem InvM.W_get {ops : ModOps M α P C Bool} {fops : FitOps M α P} {chans : List (Chan α)} {mode : MT} {eps top : α}
    {st : M → ModState α} {rhoP : P → α} {Dom : Nat → M → Prop} (S : Sys ops fops chans mode eps top st rhoP Dom) (hne : chans ≠ [])
    {s : ArtState (List α)} (hs : ∀ w ∈ s.W, w.length ≤ wtotal chans) {mods : List M}
    (h : InvM chans st Dom s mods) (n : Nat) (hn : n = chans.length) : W_get ops mods n = some s.W := by
  have hpos : 0 < mods.length := by
    rw [h.1]; exact List.length_pos_of_ne_nil hne
  have h0 : mods[0]? = some mods[0] := List.getElem?_eq_getElem hpos
  rw [fusion_W_get_model ops mods n (by rw [hn, h.1]) st S.W_eq S.ncl mods[0] h0, h.2.1, fusedW_chanStates chans hne s hs]
  intro m hm
  obtain ⟨k, hk⟩ := List.getElem?_of_mem hm
  rw [h.st_at 0 _ h0, h.st_at k m hk]
  simp [chanState]

theorem InvM.layout {chans : List (Chan α)} {st : M → ModState α} {Dom : Nat → M → Prop} {s : ArtState (List α)} {mods : List M}
    (h : InvM chans st Dom s mods) (gamma_values : List α) (hg : gamma_values = chans.map (·.gamma)) :
    Layout chans mods chans.length (positions (widths chans)) (positions (wlens chans)) gamma_values :=
  ⟨h.1.symm, h.1, rfl, rfl, hg⟩

/-- one iteration of the generated loop body, as an explicit value: nothing in it raises -/
theorem body_eq {ops : ModOps M α P C Bool} {fops : FitOps M α P} {chans : List (Chan α)} {mode : MT} {eps top : α}
    {st : M → ModState α} {rhoP : P → α} {Dom : Nat → M → Prop} (S : Sys ops fops chans mode eps top st rhoP Dom) (hne : chans ≠ [])
    (gamma_values : List α) (dictEmpty dictSkip : C)
    (self0 : FSelf M) (s : ArtState (List α)) (hn : self0.n = chans.length)
    (hch : self0.chIdx = positions (widths chans)) (hwI : self0.wIdx = positions (wlens chans))
    (hgam : gamma_values = chans.map (·.gamma)) (hs : ∀ w ∈ s.W, w.length ≤ wtotal chans)
    (x : List α) (is_none : Bool) (reset : List α → List α → Nat → Option (List C) → Bool) (veto : Nat → Bool)
    (hv_none : is_none = true → ∀ c, veto c = false)
    (hv_some : is_none = false → ∀ c w ch, s.W[c]? = some w → reset x w c ch = !veto c)
    (base : List P) (hbase : base.length = chans.length) (Tv : List (Option α)) (Tc : List (Option (List C)))
    (mods : List M) (hI : InvM chans st Dom s mods) (T : List (Option α)) (hTl : T.length = s.W.length)
    (c : Nat) (hna : nanargmax T = some c) (cc : List C) (hcc : Tc[c]? = some (some cc)) (hccl : cc.length = chans.length)
    (w : List α) (hw : s.W[c]? = some w) (bins : List (Bool × C))
    (hbins : bins = mods.zipIdx.map (binAt ops chans x w cc (match_tracking_operator mode) dictSkip)) :
    step_fit_loop1_body ops fops gamma_values dictEmpty dictSkip x is_none reset mode eps base
        (match_tracking_operator mode) Tv Tc (({ self0 with modules := mods } : FSelf M), T) =
      some (
        if (bins.map (·.1)).all id && ((mode == .tilde) || !veto c) then
          .ret ({ self0 with modules := setParamsList fops (mods.zipIdx.map (fun mk =>
            ops.set_weight mk.1 c (slice (wlens chans) mk.2 (rawUpdate chans x w)))) base }, c)
        else if (bins.map (·.1)).all id && !((mode == .tilde) || !veto c) then
          .next ({ self0 with modules := mods.zipIdx.map (fun mk => (trackChan ops (bins.map (·.2)) eps mode mk).2) },
            if (mods.zipIdx.map (fun mk => (trackChan ops (bins.map (·.2)) eps mode mk).1)).all id then T.set c none
            else (T.set c none).map (fun _ => none))
        else .next ({ self0 with modules := mods }, T.set c none)) := by
  have hc : c < s.W.length := hTl ▸ nanargmax_lt_length hna
  have hWg := hI.W_get S hne hs chans.length rfl
  have L := hI.layout gamma_values hgam
  have hcl : (bins.map (·.2)).length = chans.length := by simp [hbins, hI.1]
  have hupd := fusion_update ops chans mods chans.length _ _ gamma_values L
    (fun k m c' hm hc' xi wi cc' => S.update k c' hc' m (hI.2.2 k m hm) xi wi cc') x w (bins.map (·.2)) hcl
  have hsetw := fun v => fusion_set_weight ops chans mods chans.length _ _ gamma_values L c v
  have hmt := fusion_match_tracking ops mods (bins.map (·.2)) (by rw [hcl, hI.1]) eps mode
  have hpy : pySetItem T c (none : Option α) = some (T.set c none) := by
    simp [pySetItem, hTl, hc]
  have hsp := fun (ms : List M) (hms : ms.length = chans.length) =>
    set_params_spec fops (⟨ms, chans.length, positions (widths chans), positions (wlens chans), self0.sample_counter,
      self0.cnt, self0.labels⟩ : FSelf M) base hms.symm (by simp [hbase, hms])
  have hok : ∀ ch, (if ([MT.tilde].contains mode && !is_none) = true then true else (is_none || reset x w c ch))
      = ((mode == .tilde) || !veto c) := by
    intro ch
    cases hn' : is_none with
    | true => simp [hv_none hn' c]
    | false =>
      rw [hv_some hn' c w ch hw]
      cases mode <;> simp
  unfold step_fit_loop1_body
  simp only [hna, hWg, hw, hcc, Option.bind_eq_bind, Option.bind_some, pure, hch, hwI, hn]
  rw [match_criterion_bin_full ops chans mods chans.length _ _ gamma_values dictSkip L x w cc hccl, ← hbins]
  simp only [Option.bind_some]
  have hspw := hsp (mods.zipIdx.map (fun mk => ops.set_weight mk.1 c (slice (wlens chans) mk.2 (rawUpdate chans x w))))
    (by simp [hI.1])
  by_cases ht : ([MT.tilde].contains mode && !is_none) = true
  · have hok' := hok none
    rw [if_pos ht] at hok'
    rw [if_pos ht, ← hok']
    simp only [hupd, hsetw, hpy, hmt, hspw, Option.bind_some, Bool.and_true, Bool.not_true, Bool.and_false]
    cases hb : (bins.map (·.1)).all id <;> simp
  · have hok' := hok (some (bins.map (·.2)))
    rw [if_neg ht] at hok'
    rw [if_neg ht, hok']
    simp only [hupd, hsetw, hpy, hmt, hspw, Option.bind_some]
    cases hb : (bins.map (·.1)).all id <;> cases hv : ((mode == MT.tilde) || !veto c) <;> simp
    cases hk : (mods.zipIdx.map (fun mk => (trackChan ops (bins.map (·.2)) eps mode mk).1)).all id <;> simp


theorem dom_zipIdx_map {Dom : Nat → M → Prop} (mods : List M) (f : M × Nat → M)
    (h : ∀ (k : Nat) (m : M), mods[k]? = some m → Dom k (f (m, k))) :
    ∀ (k : Nat) (m' : M), (mods.zipIdx.map f)[k]? = some m' → Dom k m' := by
  intro k m' hm'
  rw [zipIdx_map_getElem?] at hm'
  cases hm : mods[k]? with
  | none => simp [hm] at hm'
  | some m =>
    simp only [hm, Option.map_some, Option.some.injEq] at hm'
    subst hm'
    exact h k m hm

theorem matchBinSkip_noskip (mode : MT) (adjP adjM : α → α) (top : α) (rs ms : List α) :
    matchBinSkip mode (fun k => ([] : List Nat).contains k) rs ms = (fusionCfg mode adjP adjM top).passes rs ms := by
  show ((List.zip rs ms).zipIdx).all _ = (List.zip rs ms).all _
  generalize List.zip rs ms = l
  have : ∀ (k : Nat), (l.zipIdx k).all (fun tvk => ([] : List Nat).contains tvk.2 || passesScalar mode false tvk.1.1 tvk.1.2)
      = l.all (fun tv => passesScalar mode false tv.1 tv.2) := by
    induction l with
    | nil => intro k; rfl
    | cons a l ih =>
      intro k
      simp only [List.zipIdx_cons, List.all_cons, ih]
      simp
  exact this 0

theorem setParamsList_length (fops : FitOps M α P) (ms : List M) (ps : List P) :
    (setParamsList fops ms ps).length = ms.length := by simp [setParamsList]

theorem setParamsList_params {ops : ModOps M α P C Bool} {fops : FitOps M α P} {chans : List (Chan α)} {mode : MT}
    {eps top : α} {st : M → ModState α} {rhoP : P → α} {Dom : Nat → M → Prop} (S : Sys ops fops chans mode eps top st rhoP Dom)
    (ms : List M) (ps : List P) (h : ps.length = ms.length) : (setParamsList fops ms ps).map ops.params = ps := by
  apply List.ext_getElem?
  intro k
  rw [List.getElem?_map, setParamsList, zipIdx_map_getElem?]
  by_cases hk : k < ms.length
  · have hp : ps[k]? = some ps[k] := List.getElem?_eq_getElem (by omega)
    simp [List.getElem?_eq_getElem hk, hp, S.setp_params]
  · simp [List.getElem?_eq_none (Nat.le_of_not_lt hk), List.getElem?_eq_none (show ps.length ≤ k by omega)]

theorem setParamsList_dom {ops : ModOps M α P C Bool} {fops : FitOps M α P} {chans : List (Chan α)} {mode : MT}
    {eps top : α} {st : M → ModState α} {rhoP : P → α} {Dom : Nat → M → Prop} (S : Sys ops fops chans mode eps top st rhoP Dom)
    (ms : List M) (ps : List P) (h : ∀ (k : Nat) (m : M), ms[k]? = some m → Dom k m) :
    ∀ (k : Nat) (m : M), (setParamsList fops ms ps)[k]? = some m → Dom k m := by
  apply dom_zipIdx_map
  intro k m hm
  cases ps[k]? with
  | none => exact h k m hm
  | some p => exact S.dom_setp k m p (h k m hm)

theorem setParamsList_st {ops : ModOps M α P C Bool} {fops : FitOps M α P} {chans : List (Chan α)} {mode : MT}
    {eps top : α} {st : M → ModState α} {rhoP : P → α} {Dom : Nat → M → Prop} (S : Sys ops fops chans mode eps top st rhoP Dom)
    (ms : List M) (ps : List P) : (setParamsList fops ms ps).map st = ms.map st := by
  apply List.ext_getElem?
  intro k
  rw [List.getElem?_map, setParamsList, zipIdx_map_getElem?, List.getElem?_map]
  cases hm : ms[k]? with
  | none => rfl
  | some m =>
    cases hp : ps[k]? with
    | none => simp [hp]
    | some p => simp [hp, S.setp_st]

/-- **`_set_params(_deep_copy_params())` restores the modules' params and touches nothing else**: whatever happened to
the modules' params between the copy (taken from `other`, e.g. the estimator at the start of `step_fit`) and the
restore, afterwards every module has the params it had when the copy was taken, and its weights / counters are the
current ones. -/
theorem set_deep_copy {ops : ModOps M α P C Bool} {fops : FitOps M α P} {chans : List (Chan α)} {mode : MT}
    {eps top : α} {st : M → ModState α} {rhoP : P → α} {Dom : Nat → M → Prop} (S : Sys ops fops chans mode eps top st rhoP Dom)
    (self other : FSelf M) (hn : self.n = self.modules.length) (hl : other.modules.length = self.modules.length) :
    ∃ ps self', deep_copy_params ops other = some ps ∧ set_params fops self ps = some self' ∧
      self'.modules.map ops.params = other.modules.map ops.params ∧ self'.modules.map st = self.modules.map st ∧
      self'.n = self.n ∧ self'.chIdx = self.chIdx ∧ self'.wIdx = self.wIdx ∧ self'.labels = self.labels := by
  refine ⟨_, _, deep_copy_params_spec ops other, set_params_spec fops self _ hn (by simp [hl]), ?_, ?_, rfl, rfl, rfl, rfl⟩
  · exact setParamsList_params S _ _ (by simp [hl])
  · exact setParamsList_st S _ _

/-- what `_match_tracking` does when every channel's own test passed: every module tracks -/
theorem track_facts {ops : ModOps M α P C Bool} {fops : FitOps M α P} {chans : List (Chan α)} {mode : MT} {eps top : α}
    {st : M → ModState α} {rhoP : P → α} {Dom : Nat → M → Prop} (S : Sys ops fops chans mode eps top st rhoP Dom) (hne : chans ≠ [])
    (dictSkip : C) (s : ArtState (List α)) (x w : List α) (mods : List M) (hI : InvM chans st Dom s mods)
    (cc : List C) (hccl : cc.length = chans.length) (bins : List (Bool × C))
    (hbins : bins = mods.zipIdx.map (binAt ops chans x w cc (match_tracking_operator mode) dictSkip))
    (hb : (bins.map (·.1)).all id = true) :
    InvM chans st Dom s (mods.zipIdx.map (fun mk => (trackChan ops (bins.map (·.2)) eps mode mk).2)) ∧
    rhos ops rhoP (mods.zipIdx.map (fun mk => (trackChan ops (bins.map (·.2)) eps mode mk).2))
      = (fusionCfg mode (· + eps) (· - eps) top).track (rhos ops rhoP mods) (matchVec chans x w) ∧
    (mods.zipIdx.map (fun mk => (trackChan ops (bins.map (·.2)) eps mode mk).1)).all id
      = (fusionCfg mode (· + eps) (· - eps) top).keep := by
  -- channel by channel
  have key : ∀ (k : Nat) (m : M) (c : Chan α), mods[k]? = some m → chans[k]? = some c →
      (trackChan ops (bins.map (·.2)) eps mode (m, k)).1 = (mode != .one) ∧
      rhoP (ops.params (trackChan ops (bins.map (·.2)) eps mode (m, k)).2)
        = trackScalar mode (· + eps) (· - eps) top (rhoP (ops.params m))
            (c.K.matchv (slice (widths chans) k x) (slice (wlens chans) k w)) ∧
      st (trackChan ops (bins.map (·.2)) eps mode (m, k)).2 = st m ∧
      Dom k (trackChan ops (bins.map (·.2)) eps mode (m, k)).2 := by
    intro k m c hm hc
    have hk : k < mods.length := (List.getElem?_eq_some_iff.1 hm).1
    have hklt : k < cc.length := by rw [hccl, ← hI.1]; exact hk
    obtain ⟨ck, hcck⟩ : ∃ ck, cc[k]? = some ck := ⟨_, List.getElem?_eq_getElem hklt⟩
    have hbk : bins[k]? = some (ops.match_criterion_bin m (slice (widths chans) k x) (slice (wlens chans) k w)
        (ops.params m) ck (match_tracking_operator mode)) := by
      rw [hbins, zipIdx_map_getElem?, hm]
      simp [binAt, hcck]
    have hb1 : (ops.match_criterion_bin m (slice (widths chans) k x) (slice (wlens chans) k w)
        (ops.params m) ck (match_tracking_operator mode)).1 = true := by
      rw [List.all_eq_true] at hb
      apply hb
      rw [List.mem_map]
      exact ⟨_, List.mem_of_getElem? hbk, rfl⟩
    have ht := S.track k c hc m (hI.2.2 k m hm) (slice (widths chans) k x) (slice (wlens chans) k w) ck
    simp only at ht
    simp only [trackChan, List.getElem?_map, hbk, Option.map_some, S.bin_cache, hb1, if_true]
    exact ht
  have hlen : (mods.zipIdx.map (fun mk => (trackChan ops (bins.map (·.2)) eps mode mk).2)).length = chans.length := by
    simp [hI.1]
  refine ⟨⟨hlen, ?_, ?_⟩, ?_, ?_⟩
  · rw [← hI.2.1]
    apply List.ext_getElem?
    intro k
    rw [List.getElem?_map, zipIdx_map_getElem?, List.getElem?_map]
    cases hm : mods[k]? with
    | none => rfl
    | some m =>
      have hk : k < chans.length := hI.1 ▸ (List.getElem?_eq_some_iff.1 hm).1
      simp [(key k m chans[k] hm (List.getElem?_eq_getElem hk)).2.2.1]
  · apply dom_zipIdx_map
    intro k m hm
    have hk : k < chans.length := hI.1 ▸ (List.getElem?_eq_some_iff.1 hm).1
    exact (key k m chans[k] hm (List.getElem?_eq_getElem hk)).2.2.2
  · show List.map _ _ = List.map _ (List.zip _ _)
    apply List.ext_getElem?
    intro k
    rw [List.getElem?_map, zipIdx_map_getElem?, List.getElem?_map]
    cases hm : mods[k]? with
    | none =>
      have : (List.zip (rhos ops rhoP mods) (matchVec chans x w))[k]? = none := by
        apply List.getElem?_eq_none
        have := List.getElem?_eq_none_iff.1 hm
        simp [rhos]; omega
      simp [this]
    | some m =>
      have hk : k < chans.length := hI.1 ▸ (List.getElem?_eq_some_iff.1 hm).1
      have hc : chans[k]? = some chans[k] := List.getElem?_eq_getElem hk
      have hz : (List.zip (rhos ops rhoP mods) (matchVec chans x w))[k]?
          = some (rhoP (ops.params m), chans[k].K.matchv (slice (widths chans) k x) (slice (wlens chans) k w)) := by
        rw [List.getElem?_zip_eq_some]
        constructor
        · simp [rhos, hm]
        · unfold matchVec; rw [zipIdx_map_getElem?, hc]; rfl
      simp [hz, (key k m chans[k] hm hc).2.1]
  · have hall : mods.zipIdx.map (fun mk => (trackChan ops (bins.map (·.2)) eps mode mk).1)
        = List.replicate mods.length (mode != .one) := by
      apply List.ext_getElem?
      intro k
      rw [zipIdx_map_getElem?]
      by_cases hk : k < mods.length
      · have hm : mods[k]? = some mods[k] := List.getElem?_eq_getElem hk
        have hkc : k < chans.length := hI.1 ▸ hk
        have hc : chans[k]? = some chans[k] := List.getElem?_eq_getElem hkc
        simp [hm, hk, (key k mods[k] chans[k] hm hc).1]
      · simp [List.getElem?_eq_none (Nat.le_of_not_lt hk), hk]
    rw [hall]
    have hpos : 0 < mods.length := by rw [hI.1]; exact List.length_pos_of_ne_nil hne
    show _ = (mode != .one)
    obtain ⟨n, hn⟩ : ∃ n, mods.length = n + 1 := ⟨mods.length - 1, by omega⟩
    rw [hn]
    cases (mode != MT.one) <;> simp [List.replicate_succ]

/-- the conjunction of the modules' own tests is the model's `passes` on the channel match values -/
theorem bins_passes {ops : ModOps M α P C Bool} {fops : FitOps M α P} {chans : List (Chan α)} {mode : MT} {eps top : α}
    {st : M → ModState α} {rhoP : P → α} {Dom : Nat → M → Prop} (S : Sys ops fops chans mode eps top st rhoP Dom)
    (gamma_values : List α) (hgam : gamma_values = chans.map (·.gamma))
    (dictSkip : C) (s : ArtState (List α)) (x w : List α) (mods : List M) (hI : InvM chans st Dom s mods)
    (cc : List C) (hccl : cc.length = chans.length) :
    ((mods.zipIdx.map (binAt ops chans x w cc (match_tracking_operator mode) dictSkip)).map (·.1)).all id
      = (fusionCfg mode (· + eps) (· - eps) top).passes (rhos ops rhoP mods) (matchVec chans x w) := by
  have L := hI.layout gamma_values hgam
  have h1 := match_criterion_bin_full ops chans mods chans.length _ _ gamma_values dictSkip L x w cc hccl
    (match_tracking_operator mode)
  have h2 := fusion_match_bin_model ops chans mods chans.length _ _ gamma_values dictSkip L mode
    (fun m => rhoP (ops.params m)) (match_tracking_operator mode)
    (fun k m c hm hc xi wi cc' => S.bin k c hc m (hI.2.2 k m hm) xi wi cc') x w cc hccl []
  rw [h1] at h2
  simp only [Option.map_some, Option.some.injEq] at h2
  rw [h2, matchBinSkip_noskip mode (· + eps) (· - eps) top]
  rfl

/-- the modules after `set_weight(c, update(...))` followed by `_set_params(base)` -/
theorem ret_facts {ops : ModOps M α P C Bool} {fops : FitOps M α P} {chans : List (Chan α)} {mode : MT} {eps top : α}
    {st : M → ModState α} {rhoP : P → α} {Dom : Nat → M → Prop} (S : Sys ops fops chans mode eps top st rhoP Dom)
    (s : ArtState (List α)) (mods : List M) (hI : InvM chans st Dom s mods) (base : List P)
    (hbase : base.length = chans.length) (c : Nat) (v : List α) :
    (setParamsList fops (mods.zipIdx.map (fun mk => ops.set_weight mk.1 c (slice (wlens chans) mk.2 v))) base).map st
      = modsSet (wlens chans) (chanStates chans s) c v ∧
    (setParamsList fops (mods.zipIdx.map (fun mk => ops.set_weight mk.1 c (slice (wlens chans) mk.2 v))) base).map ops.params
      = base ∧
    ∀ (k : Nat) (m : M),
      (setParamsList fops (mods.zipIdx.map (fun mk => ops.set_weight mk.1 c (slice (wlens chans) mk.2 v))) base)[k]? = some m →
      Dom k m := by
  refine ⟨?_, ?_, ?_⟩
  · rw [setParamsList_st S, ← hI.2.1]
    have L := hI.layout (chans.map (·.gamma)) rfl
    have h1 := fusion_set_weight ops chans mods chans.length _ _ _ L c v
    have h2 := fusion_set_weight_model ops chans mods chans.length _ _ _ L st S.set_st c v
    rw [h1] at h2
    simpa using h2
  · exact setParamsList_params S _ _ (by simp [hbase, hI.1])
  · exact setParamsList_dom S _ _ (dom_zipIdx_map mods _ (fun k m hm => S.dom_set k m c _ (hI.2.2 k m hm)))

theorem body_spec {ops : ModOps M α P C Bool} {fops : FitOps M α P} {chans : List (Chan α)} {mode : MT} {eps top : α}
    {st : M → ModState α} {rhoP : P → α} {Dom : Nat → M → Prop} (S : Sys ops fops chans mode eps top st rhoP Dom) (hne : chans ≠ [])
    (gamma_values : List α) (dictEmpty dictSkip : C)
    (self0 : FSelf M) (s : ArtState (List α)) (hn : self0.n = chans.length)
    (hch : self0.chIdx = positions (widths chans)) (hwI : self0.wIdx = positions (wlens chans))
    (hgam : gamma_values = chans.map (·.gamma)) (hs : ∀ w ∈ s.W, w.length ≤ wtotal chans)
    (x : List α) (is_none : Bool) (reset : List α → List α → Nat → Option (List C) → Bool) (veto : Nat → Bool)
    (hv_none : is_none = true → ∀ c, veto c = false)
    (hv_some : is_none = false → ∀ c w ch, s.W[c]? = some w → reset x w c ch = !veto c)
    (base : List P) (hbase : base.length = chans.length) (Tv : List (Option α)) (Tc : List (Option (List C))) :
    BodySpecM (fusionCfg mode (· + eps) (· - eps) top) (matchAt (fusionKernel chans) s.W x) veto (rhos ops rhoP)
      (InvM chans st Dom s)
      (fun T => T.length = s.W.length ∧
        ∀ (c : Nat) (v : α), T[c]? = some (some v) → ∃ cc : List C, Tc[c]? = some (some cc) ∧ cc.length = chans.length)
      (fun mods T => (({ self0 with modules := mods } : FSelf M), T))
      (fun c r => r.2 = c ∧ ∃ ms, r.1 = { self0 with modules := ms } ∧
        ms.map st = modsSet (wlens chans) (chanStates chans s) c (rawUpdate chans x (s.W.getD c [])) ∧
        ms.map ops.params = base ∧ ∀ (k : Nat) (m : M), ms[k]? = some m → Dom k m)
      (step_fit_loop1_body ops fops gamma_values dictEmpty dictSkip x is_none reset mode eps base
        (match_tracking_operator mode) Tv Tc) := by
  constructor
  intro mods T c hI hT hna
  obtain ⟨hTl, hTc⟩ := hT
  have hc : c < s.W.length := hTl ▸ nanargmax_lt_length hna
  have hWc : s.W[c]? = some s.W[c] := List.getElem?_eq_getElem hc
  have hgetD : s.W.getD c [] = s.W[c] := by simp [List.getD_eq_getElem?_getD, hWc]
  obtain ⟨v, hv⟩ := nanargmax_isSome_at hna
  obtain ⟨cc, hcc, hccl⟩ := hTc c v hv
  have hM : matchAt (fusionKernel chans) s.W x c = matchVec chans x s.W[c] := by simp [matchAt, hWc, fusionKernel]
  have hbe := body_eq S hne gamma_values dictEmpty dictSkip self0 s hn hch hwI hgam hs x is_none reset veto hv_none hv_some
    base hbase Tv Tc mods hI T hTl c hna cc hcc hccl s.W[c] hWc _ rfl
  have hb := bins_passes S gamma_values hgam dictSkip s x s.W[c] mods hI cc hccl
  have htil : (fusionCfg mode (· + eps) (· - eps) top).tilde = (mode == MT.tilde) := rfl
  simp only [hM, hgetD]
  rw [hbe, hb, ← htil]
  by_cases h1 : ((fusionCfg mode (· + eps) (· - eps) top).passes (rhos ops rhoP mods) (matchVec chans x s.W[c]) &&
      ((fusionCfg mode (· + eps) (· - eps) top).tilde || !veto c)) = true
  · simp only [h1, if_true]
    refine ⟨_, rfl, rfl, _, rfl, ?_⟩
    exact ret_facts S s mods hI base hbase c _
  · simp only [h1]
    by_cases h2 : ((fusionCfg mode (· + eps) (· - eps) top).passes (rhos ops rhoP mods) (matchVec chans x s.W[c]) &&
        !((fusionCfg mode (· + eps) (· - eps) top).tilde || !veto c)) = true
    · simp only [h2, if_true, Bool.false_eq_true, if_false]
      have hbt : ((mods.zipIdx.map (binAt ops chans x s.W[c] cc (match_tracking_operator mode) dictSkip)).map (·.1)).all id
          = true := by
        rw [hb]; simp only [Bool.and_eq_true] at h2; exact h2.1
      obtain ⟨f1, f2, f3⟩ := track_facts S hne dictSkip s x s.W[c] mods hI cc hccl _ rfl hbt
      refine ⟨_, f1, f2, ?_⟩
      rw [f3]
    · simp only [h2, Bool.false_eq_true, if_false]

/-! ### one training step -/

theorem mapM_spec {β γ : Type} {l : List γ} {f : γ → Option β} (Q : γ → β → Prop)
    (h : ∀ a ∈ l, ∃ b, f a = some b ∧ Q a b) : ∃ r, l.mapM f = some r ∧ List.Forall₂ Q l r := by
  induction l with
  | nil => exact ⟨[], rfl, List.Forall₂.nil⟩
  | cons a l ih =>
    obtain ⟨r, hr, hq⟩ := ih (fun b hb => h b (by simp [hb]))
    obtain ⟨b, hb, hqb⟩ := h a (by simp)
    refine ⟨b :: r, ?_, List.Forall₂.cons hqb hq⟩
    rw [List.mapM_cons, hb, hr]
    rfl

theorem forall₂_getElem? {β γ : Type} {Q : γ → β → Prop} {l : List γ} {r : List β} (h : List.Forall₂ Q l r)
    (k : Nat) (a : γ) (ha : l[k]? = some a) : ∃ b, r[k]? = some b ∧ Q a b := by
  induction h generalizing k with
  | nil => simp at ha
  | cons hq _ ih =>
    cases k with
    | zero => simp at ha; subst ha; exact ⟨_, rfl, hq⟩
    | succ k => simpa using ih k (by simpa using ha)

theorem fit_map_length {β : Type} {ws : List Nat} {ps : List (List β)} (h : Fit ws ps) : ps.map List.length = ws := by
  induction h with
  | nil => rfl
  | cons hp _ ih => simp [hp, ih]

/-- the invariant of the FusionART object between training steps: its layout is the channels', its modules are the
projections of the fused model state `s`, and `_weight_indices` is the table of the modules' weight lengths as soon as
there is a category -/
structure Good (chans : List (Chan α)) (st : M → ModState α) (Dom : Nat → M → Prop) (gamma_values : List α) (obj : FSelf M)
    (s : ArtState (List α)) : Prop where
  n_eq : obj.n = chans.length
  inv : InvM chans st Dom s obj.modules
  ch : obj.chIdx = positions (widths chans)
  gam : gamma_values = chans.map (·.gamma)
  hs : ∀ w ∈ s.W, w.length ≤ wtotal chans
  wI : s.W ≠ [] → obj.wIdx = positions (wlens chans)

/-- `new_weight` followed by `add_weight` (the new `_weight_indices` are used for the cut) -/
theorem new_add_facts {ops : ModOps M α P C Bool} {fops : FitOps M α P} {chans : List (Chan α)} {mode : MT} {eps top : α}
    {st : M → ModState α} {rhoP : P → α} {Dom : Nat → M → Prop} (S : Sys ops fops chans mode eps top st rhoP Dom)
    (hl : ∀ c ∈ chans, c.LenOK) (s : ArtState (List α)) (mods : List M) (hI : InvM chans st Dom s mods)
    (wIdx : List (Nat × Nat)) (x : List α) (hx : x.length = total chans) :
    new_weight ops mods chans.length (positions (widths chans)) wIdx x = some (positions (wlens chans), rawNew chans x) ∧
    ∃ ms, add_weight ops mods chans.length (positions (wlens chans)) (rawNew chans x) = some ms ∧
      ms.map st = modsAdd (wlens chans) (chanStates chans s) (rawNew chans x) ∧
      ms.map ops.params = mods.map ops.params ∧ ∀ (k : Nat) (m : M), ms[k]? = some m → Dom k m := by
  have L := hI.layout (chans.map (·.gamma)) rfl
  constructor
  · have h := fusion_new_weight ops chans mods chans.length _ _ _ L
      (fun k m c hm hc xi => S.newW k c hc m (hI.2.2 k m hm) xi) x
    rw [fit_map_length (newPieces_fit chans hl x hx)] at h
    exact h
  · have h1 := fusion_add_weight ops chans mods chans.length _ _ _ L (rawNew chans x)
    have h2 := fusion_add_weight_model ops chans mods chans.length _ _ _ L st S.add_st (rawNew chans x)
    refine ⟨_, h1, ?_, ?_, ?_⟩
    · rw [h1, hI.2.1] at h2
      simpa using h2
    · apply List.ext_getElem?
      intro k
      rw [List.getElem?_map, zipIdx_map_getElem?, List.getElem?_map]
      cases mods[k]? <;> simp [S.add_params]
    · exact dom_zipIdx_map mods _ (fun k m hm => S.dom_add k m _ (hI.2.2 k m hm))

/-- `FusionART.category_choice` on the current modules: the fused activation and one cache per channel -/
theorem choice_full {ops : ModOps M α P C Bool} {fops : FitOps M α P} {chans : List (Chan α)} {mode : MT} {eps top : α}
    {st : M → ModState α} {rhoP : P → α} {Dom : Nat → M → Prop} (S : Sys ops fops chans mode eps top st rhoP Dom)
    (gamma_values : List α) (hgam : gamma_values = chans.map (·.gamma)) (dictEmpty : C)
    (s : ArtState (List α)) (mods : List M) (hI : InvM chans st Dom s mods) (x w : List α) :
    ∃ cs : List C, category_choice ops mods chans.length (positions (widths chans)) (positions (wlens chans))
        gamma_values dictEmpty x w [] = some ((fusionKernel chans).choice s.W x w, cs) ∧ cs.length = chans.length := by
  have L := hI.layout gamma_values hgam
  have h := fusion_category_choice ops chans mods chans.length _ _ gamma_values dictEmpty L s.W
    (fun k m hm => hI.W_at S k m hm) (fun k m c hm hc xi wi => S.choice k c hc m (hI.2.2 k m hm) xi wi) x w []
  have e : (fun k => ([] : List Nat).contains k) = noSkip := by funext k; simp [noSkip]
  rw [e] at h
  cases hcc : category_choice ops mods chans.length (positions (widths chans)) (positions (wlens chans))
      gamma_values dictEmpty x w [] with
  | none => simp [hcc] at h
  | some r =>
    rw [hcc] at h
    simp only [Option.map_some, Option.some.injEq] at h
    refine ⟨r.2, ?_, category_choice_cache_length ops mods _ _ _ gamma_values dictEmpty x w [] r hcc⟩
    show some r = some (choiceSkip chans noSkip s.W x w, r.2)
    rw [← h]

/-- the activation vector and the caches computed before the loop (no MT~ pre-pass) -/
theorem prepass_plain {X' Wt μ : Type} (cch : Wt → Option (Option α × List C)) (K : Kernel X' Wt α μ) (W : List Wt) (x : X')
    (n : Nat) (hc : ∀ w, ∃ cs, cch w = some (K.choice W x w, cs) ∧ cs.length = n) :
    ∃ r : List (Option α × Option (List C)),
      W.mapM (fun w => (cch w).bind fun a => some (someSnd a)) = some r ∧
      r.map (·.1) = activations K W x ∧
      ∀ (c : Nat) (v : α), (r.map (·.1))[c]? = some (some v) → ∃ cc : List C, (r.map (·.2))[c]? = some (some cc) ∧ cc.length = n := by
  obtain ⟨r, hr, hq⟩ := mapM_spec (l := W) (f := fun w => (cch w).bind fun a => some (someSnd a))
    (fun w p => p.1 = K.choice W x w ∧ ∃ cc : List C, p.2 = some cc ∧ cc.length = n)
    (by
      intro w _
      obtain ⟨cs, h1, h2⟩ := hc w
      exact ⟨_, by rw [h1]; rfl, rfl, cs, rfl, h2⟩)
  have hlen : r.length = W.length := mapM_length hr
  refine ⟨r, hr, ?_, ?_⟩
  · apply List.ext_getElem?
    intro k
    simp only [activations, List.getElem?_map]
    cases hw : W[k]? with
    | none => simp [List.getElem?_eq_none (show r.length ≤ k by rw [hlen]; exact List.getElem?_eq_none_iff.1 hw)]
    | some w =>
      obtain ⟨b, hb, hqb⟩ := forall₂_getElem? hq k w hw
      simp [hb, hqb.1]
  · intro c v hv
    simp only [List.getElem?_map] at hv ⊢
    cases hrc : r[c]? with
    | none => simp [hrc] at hv
    | some p =>
      have hc' : c < W.length := by rw [← hlen]; exact (List.getElem?_eq_some_iff.1 hrc).1
      obtain ⟨b, hb, hqb⟩ := forall₂_getElem? hq c W[c] (List.getElem?_eq_getElem hc')
      rw [hrc] at hb
      cases hb
      obtain ⟨cc, h1, h2⟩ := hqb.2
      exact ⟨cc, by simp [h1], h2⟩

/-- the same with the MT~ pre-pass: vetoed categories get a NaN activation and no cache -/
theorem prepass_tilde {X' Wt μ : Type} (cch : Wt → Option (Option α × List C)) (K : Kernel X' Wt α μ) (W : List Wt) (x : X')
    (n : Nat) (reset' : Wt → Nat → Bool) (veto : Nat → Bool)
    (hc : ∀ w, ∃ cs, cch w = some (K.choice W x w, cs) ∧ cs.length = n)
    (hr : ∀ c w, W[c]? = some w → reset' w c = !veto c) :
    ∃ r : List (Option α × Option (List C)),
      W.zipIdx.mapM (fun wc => if reset' wc.1 wc.2 = true then ((cch wc.1).bind fun a => some (someSnd a)).bind (fun a => some a)
        else some (none, none)) = some r ∧
      r.map (·.1) = strikeVetoed true veto (activations K W x) ∧
      ∀ (c : Nat) (v : α), (r.map (·.1))[c]? = some (some v) → ∃ cc : List C, (r.map (·.2))[c]? = some (some cc) ∧ cc.length = n := by
  obtain ⟨r, hr', hq⟩ := mapM_spec (l := W.zipIdx)
    (f := fun wc => if reset' wc.1 wc.2 = true then ((cch wc.1).bind fun a => some (someSnd a)).bind (fun a => some a)
        else some (none, none))
    (fun wc p => p.1 = (if veto wc.2 then none else K.choice W x wc.1) ∧
      ∀ v : α, p.1 = some v → ∃ cc : List C, p.2 = some cc ∧ cc.length = n)
    (by
      intro wc hwc
      have hw : W[wc.2]? = some wc.1 := by
        obtain ⟨j, hj⟩ := List.getElem?_of_mem hwc
        rw [List.getElem?_zipIdx] at hj
        cases hW : W[j]? with
        | none => simp [hW] at hj
        | some w => simp [hW] at hj; subst hj; simpa using hW
      rw [hr wc.2 wc.1 hw]
      obtain ⟨cs, h1, h2⟩ := hc wc.1
      cases hv : veto wc.2 with
      | true => exact ⟨(none, none), by simp, by simp, by simp⟩
      | false =>
        refine ⟨(K.choice W x wc.1, some cs), by simp [h1, someSnd], by simp, ?_⟩
        intro v _
        exact ⟨cs, rfl, h2⟩)
  have hlen : r.length = W.length := by rw [mapM_length hr', List.length_zipIdx]
  refine ⟨r, hr', ?_, ?_⟩
  · apply List.ext_getElem?
    intro k
    rw [strikeVetoed_getElem?]
    simp only [activations, List.getElem?_map]
    cases hw : W[k]? with
    | none => simp [List.getElem?_eq_none (show r.length ≤ k by rw [hlen]; exact List.getElem?_eq_none_iff.1 hw)]
    | some w =>
      obtain ⟨b, hb, hqb⟩ := forall₂_getElem? hq k (w, k) (by simp [List.getElem?_zipIdx, hw])
      simp only [hb, Option.map_some, hqb.1, Bool.true_and]
  · intro c v hv
    simp only [List.getElem?_map] at hv ⊢
    cases hrc : r[c]? with
    | none => simp [hrc] at hv
    | some p =>
      have hc' : c < W.length := by rw [← hlen]; exact (List.getElem?_eq_some_iff.1 hrc).1
      obtain ⟨b, hb, hqb⟩ := forall₂_getElem? hq c (W[c], c) (by simp [List.getElem?_zipIdx, hc'])
      rw [hrc] at hb hv
      cases hb
      simp only [Option.map_some, Option.some.injEq] at hv
      obtain ⟨cc, h1, h2⟩ := hqb.2 v hv
      exact ⟨cc, by simp [h1], h2⟩

/-- **One training step of a FusionART, as generated from the source, is the model's step on the module states.**
`BaseART.step_fit` executed on a FusionART whose modules are the projections of the fused state `s` never raises,
returns the label of `modsStep` and leaves modules whose observable states are `modsStep`'s; the modules' params
are restored, `sample_counter_` advances by one, `_weight_indices` is the table of the modules' weight lengths. -/
theorem step_fit_spec {ops : ModOps M α P C Bool} {fops : FitOps M α P} {chans : List (Chan α)} {mode : MT} {eps top : α}
    {st : M → ModState α} {rhoP : P → α} {Dom : Nat → M → Prop} (S : Sys ops fops chans mode eps top st rhoP Dom) (hne : chans ≠ [])
    (hl : ∀ c ∈ chans, c.LenOK) (gamma_values : List α) (dictEmpty dictSkip : C)
    (self : FSelf M) (s : ArtState (List α)) (G : Good chans st Dom gamma_values self s)
    (x : List α) (hx : x.length = total chans)
    (is_none : Bool) (reset : List α → List α → Nat → Option (List C) → Bool) (veto : Nat → Bool)
    (hv_none : is_none = true → ∀ c, veto c = false)
    (hv_some : is_none = false → ∀ c w ch, s.W[c]? = some w → reset x w c ch = !veto c) :
    ∃ r, step_fit ops fops gamma_values dictEmpty dictSkip s.W.length self x is_none reset mode eps = some r ∧
      (r.1.modules.map st, r.2) = modsStep chans (fusionCfg mode (· + eps) (· - eps) top)
        (rhos ops rhoP self.modules) veto (chanStates chans s) x ∧
      r.1.modules.map ops.params = self.modules.map ops.params ∧
      (∀ (k : Nat) (m : M), r.1.modules[k]? = some m → Dom k m) ∧
      r.1.n = self.n ∧ r.1.chIdx = self.chIdx ∧ r.1.wIdx = positions (wlens chans) ∧
      r.1.sample_counter = self.sample_counter + 1 ∧ r.1.cnt = self.cnt ∧ r.1.labels = self.labels := by
  obtain ⟨hn, hI, hch, hgam, hs, hwI⟩ := G
  have hWg := hI.W_get S hne hs chans.length rfl
  have hfW : fusedW (chanStates chans s) = s.W := fusedW_chanStates chans hne s hs
  have hbase : (self.modules.map ops.params).length = chans.length := by simp [hI.1]
  obtain ⟨hnw, ms, hadd, hms_st, hms_p, hms_d⟩ := new_add_facts S hl s self.modules hI self.wIdx x hx
  have hsp := fun (mods : List M) (hm : mods.length = chans.length) =>
    set_params_spec fops (⟨mods, chans.length, positions (widths chans), positions (wlens chans), self.sample_counter + 1,
      self.cnt, self.labels⟩ : FSelf M) (self.modules.map ops.params) hm.symm (by simp [hm, hI.1])
  unfold step_fit modsStep
  simp only [deep_copy_params_spec, hfW, hn, hch, hWg, Option.bind_eq_bind, Option.bind_some, pure]
  by_cases hW : s.W = []
  · simp only [hW, List.length_nil, beq_self_eq_true, if_true, List.isEmpty_nil, hnw, Option.bind_some, hadd]
    exact ⟨_, rfl, by rw [hms_st], hms_p, hms_d, rfl, rfl, rfl, rfl, rfl, rfl⟩
  · have hlen0 : (s.W.length == 0) = false := by simp [hW]
    have hemp : s.W.isEmpty = false := by simp [hW]
    simp only [hlen0, hemp, Bool.false_eq_true, if_false, hwI hW]
    -- the activation phase, in either branch, yields the model's activation vector and usable caches
    have hact : ∃ r : List (Option α × Option (List C)),
        (if ([MT.tilde].contains mode && !is_none) = true then
          (List.mapM (fun x_1 : List α × Nat =>
              if reset x x_1.1 x_1.2 none = true then
                ((category_choice ops self.modules chans.length (positions (widths chans)) (positions (wlens chans))
                    gamma_values dictEmpty x x_1.1 []).bind fun a => some (someSnd a)).bind fun a => some a
              else some (none, none)) s.W.zipIdx)
        else
          (List.mapM (fun w =>
              (category_choice ops self.modules chans.length (positions (widths chans)) (positions (wlens chans))
                  gamma_values dictEmpty x w []).bind fun a => some (someSnd a)) s.W)) = some r ∧
        r.map (·.1) = strikeVetoed (fusionCfg mode (· + eps) (· - eps) top).tilde veto (activations (fusionKernel chans) s.W x) ∧
        ∀ (c : Nat) (v : α), (r.map (·.1))[c]? = some (some v) →
          ∃ cc : List C, (r.map (·.2))[c]? = some (some cc) ∧ cc.length = chans.length := by
      have hcf := fun w => choice_full S gamma_values hgam dictEmpty s self.modules hI x w
      by_cases ht : ([MT.tilde].contains mode && !is_none) = true
      · have hnn : is_none = false := by cases is_none <;> simp_all
        have hmt : (fusionCfg mode (· + eps) (· - eps) top).tilde = true := by
          show (mode == MT.tilde) = true
          cases mode <;> simp_all
        rw [if_pos ht, hmt]
        exact prepass_tilde _ (fusionKernel chans) s.W x chans.length (fun w c => reset x w c none) veto hcf
          (fun c w hw => hv_some hnn c w none hw)
      · rw [if_neg ht]
        obtain ⟨r, h1, h2, h3⟩ := prepass_plain _ (fusionKernel chans) s.W x chans.length hcf
        refine ⟨r, h1, ?_, h3⟩
        rw [h2]
        unfold strikeVetoed
        split
        · rename_i htl
          have hmt : [MT.tilde].contains mode = true := by
            have : (mode == MT.tilde) = true := htl
            cases mode <;> simp_all
          have hnn : is_none = true := by cases is_none <;> simp_all
          apply List.ext_getElem?
          intro k
          simp [List.getElem?_zipIdx, hv_none hnn]
        · rfl
    obtain ⟨r0, hr0, hT0, hTc0⟩ := hact
    have hT0len : (r0.map (·.1)).length = s.W.length := by
      rw [hT0, strikeVetoed_length, activations_length]
    have hloop := whileM_follows_search (fusionCfg mode (· + eps) (· - eps) top) (matchAt (fusionKernel chans) s.W x) veto
      (rhos ops rhoP) (InvM chans st Dom s)
      (fun T => T.length = s.W.length ∧ ∀ (c : Nat) (v : α), T[c]? = some (some v) →
        ∃ cc : List C, (r0.map (·.2))[c]? = some (some cc) ∧ cc.length = chans.length)
      (fun mods T => ((⟨mods, chans.length, positions (widths chans), positions (wlens chans), self.sample_counter + 1,
        self.cnt, self.labels⟩ : FSelf M), T))
      _
      (step_fit_loop1_cond ops fops gamma_values dictEmpty dictSkip x is_none reset mode eps
        (self.modules.map ops.params) (match_tracking_operator mode) (r0.map (·.1)) (r0.map (·.2)))
      (step_fit_loop1_body ops fops gamma_values dictEmpty dictSkip x is_none reset mode eps
        (self.modules.map ops.params) (match_tracking_operator mode) (r0.map (·.1)) (r0.map (·.2)))
      (by intro p T; rfl)
      (by
        intro T c ⟨h1, h2⟩
        refine ⟨by simp [h1], ?_⟩
        intro c' v hv
        apply h2 c' v
        rw [List.getElem?_set] at hv
        split at hv
        · simp at hv
        · exact hv)
      (by
        intro T ⟨h1, h2⟩
        refine ⟨by simp [h1], ?_⟩
        intro c' v hv
        simp only [List.getElem?_map] at hv
        cases hT : T[c']? <;> simp [hT] at hv)
      (body_spec S hne gamma_values dictEmpty dictSkip
        (⟨self.modules, chans.length, positions (widths chans), positions (wlens chans), self.sample_counter + 1,
          self.cnt, self.labels⟩ : FSelf M) s rfl rfl rfl hgam hs x is_none reset veto hv_none hv_some
        (self.modules.map ops.params) hbase (r0.map (·.1)) (r0.map (·.2)))
      s.W.length self.modules (r0.map (·.1)) hI ⟨hT0len, hTc0⟩
    have hss : (stepSearch (fusionKernel chans) (fusionCfg mode (· + eps) (· - eps) top) (rhos ops rhoP self.modules)
        veto s.W x) = search (fusionCfg mode (· + eps) (· - eps) top) (matchAt (fusionKernel chans) s.W x) veto s.W.length
        (r0.map (·.1)) (rhos ops rhoP self.modules) := by
      unfold stepSearch
      simp only [← hT0, hT0len]
    rw [hss]
    split_ifs at hr0 ⊢ with ht
    all_goals
      rw [hr0]
      simp only [Option.bind_some]
      cases hw : (search (fusionCfg mode (· + eps) (· - eps) top) (matchAt (fusionKernel chans) s.W x) veto s.W.length
          (r0.map (·.1)) (rhos ops rhoP self.modules)).winner with
      | some c =>
        simp only [hw] at hloop
        obtain ⟨r, hr, hrc, ms', hrm, hst', hp', hd'⟩ := hloop
        rw [hr]
        refine ⟨r, rfl, ?_, ?_, ?_, ?_⟩
        · simp only [hrm, hst', hrc]
        · rw [hrm]; exact hp'
        · rw [hrm]; exact hd'
        · rw [hrm]; exact ⟨rfl, rfl, rfl, rfl, rfl, rfl⟩
      | none =>
        simp only [hw] at hloop
        obtain ⟨p', T', hp', hwm⟩ := hloop
        rw [hwm]
        obtain ⟨hnw', ms', hadd', hms_st', hms_p', hms_d'⟩ := new_add_facts S hl s p' hp' (positions (wlens chans)) x hx
        have hlen' : ms'.length = chans.length := by
          have := congrArg List.length hms_st'
          simpa [modsAdd, chanStates_length] using this
        simp only [Option.bind_some, hp'.W_get S hne hs chans.length rfl, hnw', hadd', hsp ms' hlen']
        refine ⟨_, rfl, ?_, ?_, ?_, rfl, rfl, rfl, rfl, rfl, rfl⟩
        · simp only [setParamsList_st S, hms_st']
        · exact setParamsList_params S _ _ (by simp [hlen', hI.1])
        · exact setParamsList_dom S _ _ hms_d'

/-- **The same step against the fused model**: the generated `step_fit` on a FusionART whose modules are the
projections of the fused state `s` leaves modules that are the projections of `stepFit (fusionKernel chans)` — the model
step the C10 theorems are about — and returns its label. -/
theorem step_fit_refines_stepFit {ops : ModOps M α P C Bool} {fops : FitOps M α P} {chans : List (Chan α)} {mode : MT}
    {eps top : α} {st : M → ModState α} {rhoP : P → α} {Dom : Nat → M → Prop} (S : Sys ops fops chans mode eps top st rhoP Dom) (hne : chans ≠ [])
    (hl : ∀ c ∈ chans, c.LenOK) (gamma_values : List α) (dictEmpty dictSkip : C)
    (self : FSelf M) (s : ArtState (List α)) (G : Good chans st Dom gamma_values self s)
    (x : List α) (hx : x.length = total chans)
    (is_none : Bool) (reset : List α → List α → Nat → Option (List C) → Bool) (veto : Nat → Bool)
    (hv_none : is_none = true → ∀ c, veto c = false)
    (hv_some : is_none = false → ∀ c w ch, s.W[c]? = some w → reset x w c ch = !veto c) :
    ∃ r, step_fit ops fops gamma_values dictEmpty dictSkip s.W.length self x is_none reset mode eps = some r ∧
      Good chans st Dom gamma_values r.1
        (stepFit (fusionKernel chans) (fusionCfg mode (· + eps) (· - eps) top) (rhos ops rhoP self.modules) veto s x).1 ∧
      r.2 = (stepFit (fusionKernel chans) (fusionCfg mode (· + eps) (· - eps) top) (rhos ops rhoP self.modules) veto s x).2 ∧
      r.1.modules.map ops.params = self.modules.map ops.params ∧
      r.1.sample_counter = self.sample_counter + 1 ∧ r.1.cnt = self.cnt ∧ r.1.labels = self.labels := by
  obtain ⟨r, hr, hm, hp, hd, h1, h2, h3, h4, h5, h6⟩ :=
    step_fit_spec S hne hl gamma_values dictEmpty dictSkip self s G x hx is_none reset veto hv_none hv_some
  obtain ⟨m1, m2⟩ := modsStep_chanStates chans hne (fusionCfg mode (· + eps) (· - eps) top) (rhos ops rhoP self.modules)
    veto s G.hs x
  rw [← hm] at m1 m2
  simp only at m1 m2
  refine ⟨r, hr, ⟨h1.trans G.n_eq, ⟨?_, m1, hd⟩, h2.trans G.ch, G.gam, ?_, fun _ => h3⟩, m2, hp, h4, h5, h6⟩
  · have := congrArg List.length m1
    simpa [chanStates_length] using this
  · exact trainStep_W_inv (fusionKernel chans) (fusionCfg mode (· + eps) (· - eps) top) (rhos ops rhoP self.modules)
      (fun _ _ => veto) (fun w => w.length ≤ wtotal chans) s x (fun w _ => stored_length_le _ _) (stored_length_le _ _) G.hs

/-! ### `partial_fit` -/

theorem Good.congr {chans : List (Chan α)} {st : M → ModState α} {Dom : Nat → M → Prop} {gamma_values : List α} {obj obj' : FSelf M}
    {s s' : ArtState (List α)} (G : Good chans st Dom gamma_values obj s) (hW : s'.W = s.W) (hc : s'.cnt = s.cnt)
    (h1 : obj'.modules = obj.modules) (h2 : obj'.n = obj.n) (h3 : obj'.chIdx = obj.chIdx) (h4 : obj'.wIdx = obj.wIdx) :
    Good chans st Dom gamma_values obj' s' := by
  obtain ⟨a, b, c, d, e, f⟩ := G
  have hcs : chanStates chans s' = chanStates chans s := by
    simp [chanStates, chanState, hW, hc]
  exact ⟨h2 ▸ a, ⟨h1 ▸ b.1, by rw [h1, hcs]; exact b.2.1, h1 ▸ b.2.2⟩, h3 ▸ c, d, hW ▸ e, fun h => h4 ▸ f (hW ▸ h)⟩

theorem rhos_congr {ops : ModOps M α P C Bool} {rhoP : P → α} {ms' ms : List M}
    (h : ms'.map ops.params = ms.map ops.params) : rhos ops rhoP ms' = rhos ops rhoP ms := by
  have := congrArg (List.map rhoP) h
  simpa [rhos, List.map_map, Function.comp_def] using this

/-- the training loop of `partial_fit`: labels are written into the zero-padded tail of `labels_` -/
theorem pf_loop {ops : ModOps M α P C Bool} {fops : FitOps M α P} {chans : List (Chan α)} {mode : MT}
    {eps top : α} {st : M → ModState α} {rhoP : P → α} {Dom : Nat → M → Prop} (S : Sys ops fops chans mode eps top st rhoP Dom) (hne : chans ≠ [])
    (hl : ∀ c ∈ chans, c.LenOK) (gamma_values : List α) (dictEmpty dictSkip : C)
    (is_none : Bool) (reset : List α → List α → Nat → Option (List C) → Bool) (veto : List α → Nat → Bool)
    (hv_none : is_none = true → ∀ x c, veto x c = false)
    (hv_some : is_none = false → ∀ x w c ch, reset x w c ch = !veto x c)
    (j : Nat) (th0 : List α) (body : FSelf M → List α × Nat → Option (FSelf M))
    (hbody : ∀ self x i, body self (x, i) = (W_get ops self.modules self.n).bind fun W =>
      (step_fit ops fops gamma_values dictEmpty dictSkip W.length self x is_none reset mode eps).bind fun r =>
        (pySetItem r.1.labels (i + j) r.2).bind fun L => some { r.1 with labels := L }) :
    ∀ (rest : List (List α)) (i : Nat) (self : FSelf M) (s : ArtState (List α)),
      (∀ x ∈ rest, x.length = total chans) → Good chans st Dom gamma_values self s → rhos ops rhoP self.modules = th0 →
      self.labels = s.labels ++ List.replicate rest.length 0 → s.labels.length = i + j →
      ∃ self', (rest.zipIdx i).foldlM body self = some self' ∧
        Good chans st Dom gamma_values self'
          (partialFit (fusionKernel chans) (fusionCfg mode (· + eps) (· - eps) top) th0 (fun _ x c => veto x c) s rest) ∧
        self'.labels = (partialFit (fusionKernel chans) (fusionCfg mode (· + eps) (· - eps) top) th0
          (fun _ x c => veto x c) s rest).labels ∧
        self'.modules.map ops.params = self.modules.map ops.params ∧
        self'.sample_counter = self.sample_counter + rest.length ∧ self'.cnt = self.cnt := by
  intro rest
  induction rest with
  | nil =>
    intro i self s _ G _ hlab _
    exact ⟨self, rfl, G, by simpa [partialFit] using hlab, rfl, rfl, rfl⟩
  | cons x rest ih =>
    intro i self s hxs G hth hlab hlen
    have hWg := G.inv.W_get S hne G.hs self.n G.n_eq
    obtain ⟨r, hr, G', hc, hp, hsc, hcnt, hlb⟩ := step_fit_refines_stepFit S hne hl gamma_values dictEmpty dictSkip self s G x
      (hxs x (by simp)) is_none reset (veto x) (fun h c => hv_none h x c) (fun h c w ch _ => hv_some h x w c ch)
    rw [hth] at G' hc
    have hset : pySetItem r.1.labels (i + j) r.2 = some (s.labels ++ [r.2] ++ List.replicate rest.length 0) := by
      rw [hlb, hlab, pySetItem, ← hlen]
      simp [List.replicate_succ]
    rw [List.zipIdx_cons, List.foldlM_cons, hbody, hWg]
    simp only [Option.bind_some, hr, hset]
    have hfr := stepFit_frame (fusionKernel chans) (fusionCfg mode (· + eps) (· - eps) top) th0 (veto x) s x
    obtain ⟨self', h1, h2, h3, h4, h5, h6⟩ := ih (i + 1)
      ({ r.1 with labels := s.labels ++ [r.2] ++ List.replicate rest.length 0 })
      (trainStep (fusionKernel chans) (fusionCfg mode (· + eps) (· - eps) top) th0 (fun _ x c => veto x c) s x)
      (fun x' hx' => hxs x' (by simp [hx']))
      (G'.congr rfl rfl rfl rfl rfl rfl)
      (by show rhos ops rhoP r.1.modules = th0
          rw [← hth]; exact rhos_congr hp)
      (by show s.labels ++ [r.2] ++ List.replicate rest.length 0 = _
          rw [hc]
          show _ = ((stepFit _ _ th0 (veto x) s x).1.labels ++ [_]) ++ _
          rw [hfr.2.1]
          rfl)
      (by show ((stepFit _ _ th0 (veto x) s x).1.labels ++ [_]).length = _
          rw [hfr.2.1]; simp; omega)
    refine ⟨self', h1, h2, h3, h4.trans hp, ?_, h6.trans hcnt⟩
    rw [h5]
    show r.1.sample_counter + rest.length = _
    rw [hsc]; simp; omega

/-- **`FusionART.partial_fit` on an estimator that was trained before** (its modules have a `W`): the batch is
presented sample by sample, the modules stay the projections of the fused model run `partialFit (fusionKernel chans)`,
`labels_` is extended by the labels of that run, the modules' params are the ones found. -/
theorem partial_fit_spec {ops : ModOps M α P C Bool} {fops : FitOps M α P} {chans : List (Chan α)} {mode : MT}
    {eps top : α} {st : M → ModState α} {rhoP : P → α} {Dom : Nat → M → Prop} (S : Sys ops fops chans mode eps top st rhoP Dom) (hne : chans ≠ [])
    (hl : ∀ c ∈ chans, c.LenOK) (gamma_values : List α) (dictEmpty dictSkip : C)
    (self : FSelf M) (s : ArtState (List α)) (G : Good chans st Dom gamma_values self s) (hlab : self.labels = s.labels)
    (hhas : ∀ m, self.modules[0]? = some m → fops.hasW m = true)
    (X : List (List α)) (hX : ∀ x ∈ X, x.length = total chans)
    (is_none : Bool) (reset : List α → List α → Nat → Option (List C) → Bool) (veto : List α → Nat → Bool)
    (hv_none : is_none = true → ∀ x c, veto x c = false)
    (hv_some : is_none = false → ∀ x w c ch, reset x w c ch = !veto x c) :
    ∃ self', partial_fit ops fops gamma_values dictEmpty dictSkip self X is_none reset mode eps = some self' ∧
      Good chans st Dom gamma_values self'
        (partialFit (fusionKernel chans) (fusionCfg mode (· + eps) (· - eps) top) (rhos ops rhoP self.modules)
          (fun _ x c => veto x c) s X) ∧
      self'.labels = (partialFit (fusionKernel chans) (fusionCfg mode (· + eps) (· - eps) top) (rhos ops rhoP self.modules)
          (fun _ x c => veto x c) s X).labels ∧
      self'.modules.map ops.params = self.modules.map ops.params ∧
      self'.sample_counter = self.sample_counter + X.length ∧ self'.cnt = self.cnt := by
  have hpos : 0 < self.modules.length := by rw [G.inv.1]; exact List.length_pos_of_ne_nil hne
  have h0 : self.modules[0]? = some self.modules[0] := List.getElem?_eq_getElem hpos
  unfold partial_fit
  simp only [h0, hhas _ h0, Option.bind_eq_bind, Option.bind_some, pure, Bool.not_true, Bool.false_eq_true, if_false]
  have key := fun body hbody => pf_loop S hne hl gamma_values dictEmpty dictSkip is_none reset veto hv_none hv_some
    self.labels.length (rhos ops rhoP self.modules) body hbody X 0
    ({ self with labels := self.labels ++ List.replicate X.length 0 }) s hX
    (G.congr rfl rfl rfl rfl rfl rfl) rfl (by simp [hlab]) (by simp [hlab])
  exact key _ (fun _ _ _ => rfl)

/-- **`FusionART.partial_fit` on a fresh estimator** (`hasattr(self.modules[0], "W")` is false): the `W` setter empties
every module, then the batch is presented; the modules end as the projections of the fused model run from the empty
state, `labels_` are its labels. -/
theorem partial_fit_fresh {ops : ModOps M α P C Bool} {fops : FitOps M α P} {chans : List (Chan α)} {mode : MT}
    {eps top : α} {st : M → ModState α} {rhoP : P → α} {Dom : Nat → M → Prop} (S : Sys ops fops chans mode eps top st rhoP Dom) (hne : chans ≠ [])
    (hl : ∀ c ∈ chans, c.LenOK) (gamma_values : List α) (dictEmpty dictSkip : C)
    (self : FSelf M) (hn : self.n = chans.length) (hlen : self.modules.length = chans.length)
    (hch : self.chIdx = positions (widths chans)) (hgam : gamma_values = chans.map (·.gamma))
    (hdom : ∀ (k : Nat) (m : M), self.modules[k]? = some m → Dom k m)
    (hhas : ∀ m, self.modules[0]? = some m → fops.hasW m = false)
    (X : List (List α)) (hX : ∀ x ∈ X, x.length = total chans)
    (is_none : Bool) (reset : List α → List α → Nat → Option (List C) → Bool) (veto : List α → Nat → Bool)
    (hv_none : is_none = true → ∀ x c, veto x c = false)
    (hv_some : is_none = false → ∀ x w c ch, reset x w c ch = !veto x c) :
    ∃ self', partial_fit ops fops gamma_values dictEmpty dictSkip self X is_none reset mode eps = some self' ∧
      Good chans st Dom gamma_values self'
        (partialFit (fusionKernel chans) (fusionCfg mode (· + eps) (· - eps) top) (rhos ops rhoP self.modules)
          (fun _ x c => veto x c) {} X) ∧
      self'.labels = (partialFit (fusionKernel chans) (fusionCfg mode (· + eps) (· - eps) top) (rhos ops rhoP self.modules)
          (fun _ x c => veto x c) {} X).labels ∧
      self'.modules.map ops.params = self.modules.map ops.params ∧
      self'.sample_counter = self.sample_counter + X.length ∧ self'.cnt = self.cnt := by
  have hpos : 0 < self.modules.length := by rw [hlen]; exact List.length_pos_of_ne_nil hne
  have h0 : self.modules[0]? = some self.modules[0] := List.getElem?_eq_getElem hpos
  have hpar : (self.modules.map (resetM fops)).map ops.params = self.modules.map ops.params := by
    simp [List.map_map, Function.comp_def, S.reset_params]
  have G0 : Good chans st Dom gamma_values
      ({ self with modules := self.modules.map (resetM fops), labels := List.replicate X.length 0 } : FSelf M) {} := by
    refine ⟨hn, ⟨by simp [hlen], ?_, ?_⟩, hch, hgam, by simp, by simp⟩
    · apply List.ext_getElem?
      intro k
      simp only [List.map_map, List.getElem?_map, chanStates, Function.comp_def]
      by_cases hk : k < chans.length
      · simp [List.getElem?_eq_getElem (hlen ▸ hk), List.getElem?_range hk, S.reset_st, chanState]
      · simp [List.getElem?_eq_none (show self.modules.length ≤ k by omega), hk]
    · intro k m' hm'
      simp only [List.getElem?_map] at hm'
      cases hm : self.modules[k]? with
      | none => simp [hm] at hm'
      | some m =>
        simp only [hm, Option.map_some, Option.some.injEq] at hm'
        subst hm'
        exact S.dom_reset k m (hdom k m hm)
  unfold partial_fit
  simp only [h0, hhas _ h0, Option.bind_eq_bind, Option.bind_some, pure, Bool.not_false, if_true,
    W_set_nil_spec fops self (hn.trans hlen.symm)]
  have key := fun body hbody => pf_loop S hne hl gamma_values dictEmpty dictSkip is_none reset veto hv_none hv_some
    0 (rhos ops rhoP self.modules) body hbody X 0 _ {} hX G0 (rhos_congr hpar) (by simp) (by simp)
  rw [← hpar]
  exact key _ (fun _ _ _ => rfl)

/-! ### `fit` -/

theorem epoch_labels_length {X' Wt μ θ : Type} (K : Kernel X' Wt α μ) (cfg : SearchCfg μ θ) (th0 : θ)
    (veto : ArtState Wt → X' → Nat → Bool) (zs : List (X' × Nat)) (s : ArtState Wt) :
    (zs.foldl (epochStep K cfg th0 veto) s).labels.length = s.labels.length := by
  induction zs generalizing s with
  | nil => rfl
  | cons z zs ih =>
    rw [List.foldl_cons, ih]
    show ((stepFit K cfg th0 (veto s z.1) s z.1).1.labels.set z.2 _).length = _
    rw [List.length_set, (stepFit_frame K cfg th0 (veto s z.1) s z.1).2.1]

/-- one epoch of `fit`: the label of presentation `i` overwrites `labels_[i]` -/
theorem fit_loop {ops : ModOps M α P C Bool} {fops : FitOps M α P} {chans : List (Chan α)} {mode : MT}
    {eps top : α} {st : M → ModState α} {rhoP : P → α} {Dom : Nat → M → Prop} (S : Sys ops fops chans mode eps top st rhoP Dom) (hne : chans ≠ [])
    (hl : ∀ c ∈ chans, c.LenOK) (gamma_values : List α) (dictEmpty dictSkip : C)
    (is_none : Bool) (reset : List α → List α → Nat → Option (List C) → Bool) (veto : List α → Nat → Bool)
    (hv_none : is_none = true → ∀ x c, veto x c = false)
    (hv_some : is_none = false → ∀ x w c ch, reset x w c ch = !veto x c)
    (th0 : List α) (body : FSelf M → List α × Nat → Option (FSelf M))
    (hbody : ∀ self x i, body self (x, i) = (W_get ops self.modules self.n).bind fun W =>
      (step_fit ops fops gamma_values dictEmpty dictSkip W.length self x is_none reset mode eps).bind fun r =>
        (pySetItem r.1.labels i r.2).bind fun L => some { r.1 with labels := L }) :
    ∀ (rest : List (List α)) (i : Nat) (self : FSelf M) (s : ArtState (List α)),
      (∀ x ∈ rest, x.length = total chans) → Good chans st Dom gamma_values self s → rhos ops rhoP self.modules = th0 →
      self.labels = s.labels → i + rest.length ≤ s.labels.length →
      ∃ self', (rest.zipIdx i).foldlM body self = some self' ∧
        Good chans st Dom gamma_values self'
          ((rest.zipIdx i).foldl (epochStep (fusionKernel chans) (fusionCfg mode (· + eps) (· - eps) top) th0
            (fun _ x c => veto x c)) s) ∧
        self'.labels = ((rest.zipIdx i).foldl (epochStep (fusionKernel chans) (fusionCfg mode (· + eps) (· - eps) top) th0
            (fun _ x c => veto x c)) s).labels ∧
        self'.modules.map ops.params = self.modules.map ops.params ∧
        self'.sample_counter = self.sample_counter + rest.length ∧ self'.cnt = self.cnt := by
  intro rest
  induction rest with
  | nil =>
    intro i self s _ G _ hlab _
    exact ⟨self, rfl, G, hlab, rfl, rfl, rfl⟩
  | cons x rest ih =>
    intro i self s hxs G hth hlab hlen
    have hWg := G.inv.W_get S hne G.hs self.n G.n_eq
    obtain ⟨r, hr, G', hc, hp, hsc, hcnt, hlb⟩ := step_fit_refines_stepFit S hne hl gamma_values dictEmpty dictSkip self s G x
      (hxs x (by simp)) is_none reset (veto x) (fun h c => hv_none h x c) (fun h c w ch _ => hv_some h x w c ch)
    rw [hth] at G' hc
    have hilt : i < s.labels.length := by simp at hlen; omega
    have hset : pySetItem r.1.labels i r.2 = some (s.labels.set i r.2) := by
      rw [hlb, hlab, pySetItem]
      simp [hilt]
    rw [List.zipIdx_cons, List.foldlM_cons, List.foldl_cons, hbody, hWg]
    simp only [Option.bind_some, hr, hset]
    have hfr := stepFit_frame (fusionKernel chans) (fusionCfg mode (· + eps) (· - eps) top) th0 (veto x) s x
    have hes : (epochStep (fusionKernel chans) (fusionCfg mode (· + eps) (· - eps) top) th0 (fun _ x c => veto x c) s (x, i)).labels
        = s.labels.set i r.2 := by
      show ((stepFit _ _ th0 (veto x) s x).1.labels.set i _) = _
      rw [hfr.2.1, hc]
      rfl
    obtain ⟨self', h1, h2, h3, h4, h5, h6⟩ := ih (i + 1)
      ({ r.1 with labels := s.labels.set i r.2 })
      (epochStep (fusionKernel chans) (fusionCfg mode (· + eps) (· - eps) top) th0 (fun _ x c => veto x c) s (x, i))
      (fun x' hx' => hxs x' (by simp [hx']))
      (G'.congr rfl rfl rfl rfl rfl rfl)
      (by show rhos ops rhoP r.1.modules = th0
          rw [← hth]; exact rhos_congr hp)
      hes.symm
      (by rw [hes]; simp at hlen ⊢; omega)
    refine ⟨self', h1, h2, h3, h4.trans hp, ?_, h6.trans hcnt⟩
    rw [h5]
    show r.1.sample_counter + rest.length = _
    rw [hsc]; simp; omega

/-- **`BaseART.fit` executed on a FusionART**: the `W` setter empties every module, the counters and labels are reset,
then `max_iter` epochs present the whole batch; the modules end as the projections of the fused model's `fitEpochs`,
`labels_` are its labels, the modules' params are the ones found. -/
theorem fit_spec {ops : ModOps M α P C Bool} {fops : FitOps M α P} {chans : List (Chan α)} {mode : MT}
    {eps top : α} {st : M → ModState α} {rhoP : P → α} {Dom : Nat → M → Prop} (S : Sys ops fops chans mode eps top st rhoP Dom) (hne : chans ≠ [])
    (hl : ∀ c ∈ chans, c.LenOK) (gamma_values : List α) (dictEmpty dictSkip : C)
    (self : FSelf M) (hn : self.n = chans.length) (hlen : self.modules.length = chans.length)
    (hch : self.chIdx = positions (widths chans)) (hgam : gamma_values = chans.map (·.gamma))
    (hdom : ∀ (k : Nat) (m : M), self.modules[k]? = some m → Dom k m)
    (X : List (List α)) (hX : ∀ x ∈ X, x.length = total chans)
    (is_none : Bool) (reset : List α → List α → Nat → Option (List C) → Bool) (veto : List α → Nat → Bool)
    (hv_none : is_none = true → ∀ x c, veto x c = false)
    (hv_some : is_none = false → ∀ x w c ch, reset x w c ch = !veto x c) (max_iter : Nat) (verbose : Bool) :
    ∃ self', Art.Gen.FusionARTFit.fit ops fops gamma_values dictEmpty dictSkip self X is_none reset max_iter mode eps verbose = some self' ∧
      Good chans st Dom gamma_values self'
        (fitEpochs (fusionKernel chans) (fusionCfg mode (· + eps) (· - eps) top) (rhos ops rhoP self.modules)
          (fun _ x c => veto x c) max_iter X) ∧
      self'.labels = (fitEpochs (fusionKernel chans) (fusionCfg mode (· + eps) (· - eps) top) (rhos ops rhoP self.modules)
          (fun _ x c => veto x c) max_iter X).labels ∧
      self'.modules.map ops.params = self.modules.map ops.params ∧
      self'.sample_counter = max_iter * X.length ∧ self'.cnt = [] := by
  have hpar : (self.modules.map (resetM fops)).map ops.params = self.modules.map ops.params := by
    simp [List.map_map, Function.comp_def, S.reset_params]
  have G0 : Good chans st Dom gamma_values
      (⟨self.modules.map (resetM fops), self.n, self.chIdx, self.wIdx, 0, [], List.replicate X.length 0⟩ : FSelf M)
      { W := [], cnt := [], n := 0, labels := List.replicate X.length 0 } := by
    refine ⟨hn, ⟨by simp [hlen], ?_, ?_⟩, hch, hgam, by simp, by simp⟩
    · apply List.ext_getElem?
      intro k
      simp only [List.map_map, List.getElem?_map, chanStates, Function.comp_def]
      by_cases hk : k < chans.length
      · simp [List.getElem?_eq_getElem (hlen ▸ hk), List.getElem?_range hk, S.reset_st, chanState]
      · simp [List.getElem?_eq_none (show self.modules.length ≤ k by omega), hk]
    · intro k m' hm'
      simp only [List.getElem?_map] at hm'
      cases hm : self.modules[k]? with
      | none => simp [hm] at hm'
      | some m =>
        simp only [hm, Option.map_some, Option.some.injEq] at hm'
        subst hm'
        exact S.dom_reset k m (hdom k m hm)
  -- the epochs
  have hep : ∀ (body : FSelf M → List α × Nat → Option (FSelf M)),
      (∀ self x i, body self (x, i) = (W_get ops self.modules self.n).bind fun W =>
        (step_fit ops fops gamma_values dictEmpty dictSkip W.length self x is_none reset mode eps).bind fun r =>
          (pySetItem r.1.labels i r.2).bind fun L => some { r.1 with labels := L }) →
      ∀ (l : List Nat) (self1 : FSelf M) (s : ArtState (List α)), Good chans st Dom gamma_values self1 s →
      rhos ops rhoP self1.modules = rhos ops rhoP self.modules → self1.labels = s.labels → s.labels.length = X.length →
      ∃ self', l.foldlM (fun self2 (_ : Nat) => (X.zipIdx 0).foldlM body self2) self1 = some self' ∧
        Good chans st Dom gamma_values self'
          (l.foldl (fun s _ => (X.zipIdx).foldl (epochStep (fusionKernel chans) (fusionCfg mode (· + eps) (· - eps) top)
            (rhos ops rhoP self.modules) (fun _ x c => veto x c)) s) s) ∧
        self'.labels = (l.foldl (fun s _ => (X.zipIdx).foldl (epochStep (fusionKernel chans)
            (fusionCfg mode (· + eps) (· - eps) top) (rhos ops rhoP self.modules) (fun _ x c => veto x c)) s) s).labels ∧
        self'.modules.map ops.params = self1.modules.map ops.params ∧
        self'.sample_counter = self1.sample_counter + l.length * X.length ∧ self'.cnt = self1.cnt := by
    intro body hbody l
    induction l with
    | nil => intro self1 s G _ hlab _; exact ⟨self1, rfl, G, hlab, rfl, by simp, rfl⟩
    | cons e l ih =>
      intro self1 s G hth hlab hlen'
      obtain ⟨self2, h1, h2, h3, h4, h5, h6⟩ := fit_loop S hne hl gamma_values dictEmpty dictSkip is_none reset veto hv_none
        hv_some (rhos ops rhoP self.modules) body hbody X 0 self1 s hX G hth hlab (by simp [hlen'])
      have hlen2 : ((X.zipIdx).foldl (epochStep (fusionKernel chans) (fusionCfg mode (· + eps) (· - eps) top)
          (rhos ops rhoP self.modules) (fun _ x c => veto x c)) s).labels.length = X.length := by
        rw [← hlen']
        exact epoch_labels_length _ _ _ _ _ _
      obtain ⟨self', k1, k2, k3, k4, k5, k6⟩ := ih self2 _ h2 ((rhos_congr h4).trans hth) h3 hlen2
      refine ⟨self', ?_, k2, k3, k4.trans h4, ?_, k6.trans h6⟩
      · rw [List.foldlM_cons, h1]; exact k1
      · rw [k5, h5]; simp [Nat.succ_mul]; omega
  unfold Art.Gen.FusionARTFit.fit
  simp only [Option.bind_eq_bind, Option.bind_some, pure, W_set_nil_spec fops self (hn.trans hlen.symm), ite_self]
  have key := fun body hbody => hep body hbody (List.range max_iter) _ _ G0 (rhos_congr hpar) rfl (by simp)
  rw [← hpar]
  have e0 : max_iter * X.length = 0 + (List.range max_iter).length * X.length := by simp
  rw [e0]
  exact key _ (fun _ _ _ => rfl)

/-! ### the C10 theorems, for the generated training code -/

/-- the generated `partial_fit` of a fresh FusionART = the training loop of the model as the code runs it on the module
states (`modsRun`, the object of `C10.fusion_modules_are_projections` / `fusion_counts_equal`) -/
theorem gen_partial_fit_modsRun {ops : ModOps M α P C Bool} {fops : FitOps M α P} {chans : List (Chan α)} {mode : MT}
    {eps top : α} {st : M → ModState α} {rhoP : P → α} {Dom : Nat → M → Prop} (S : Sys ops fops chans mode eps top st rhoP Dom) (hne : chans ≠ [])
    (hl : ∀ c ∈ chans, c.LenOK) (gamma_values : List α) (dictEmpty dictSkip : C)
    (self : FSelf M) (hn : self.n = chans.length) (hlen : self.modules.length = chans.length)
    (hch : self.chIdx = positions (widths chans)) (hgam : gamma_values = chans.map (·.gamma))
    (hdom : ∀ (k : Nat) (m : M), self.modules[k]? = some m → Dom k m)
    (hhas : ∀ m, self.modules[0]? = some m → fops.hasW m = false)
    (X : List (List α)) (hX : ∀ x ∈ X, x.length = total chans)
    (is_none : Bool) (reset : List α → List α → Nat → Option (List C) → Bool) (veto : List α → Nat → Bool)
    (hv_none : is_none = true → ∀ x c, veto x c = false)
    (hv_some : is_none = false → ∀ x w c ch, reset x w c ch = !veto x c) :
    ∃ self', partial_fit ops fops gamma_values dictEmpty dictSkip self X is_none reset mode eps = some self' ∧
      (self'.modules.map st, self'.labels) = modsRun chans (fusionCfg mode (· + eps) (· - eps) top)
        (rhos ops rhoP self.modules) veto (chanStates chans {}, []) X := by
  obtain ⟨self', h1, G, h3, _⟩ := partial_fit_fresh S hne hl gamma_values dictEmpty dictSkip self hn hlen hch hgam hdom hhas X hX
    is_none reset veto hv_none hv_some
  refine ⟨self', h1, ?_⟩
  rw [C10.fusion_modules_are_projections chans hne, G.inv.2.1, h3]

/-- **All channels always hold the same number of categories** — after any history executed by the generated
`partial_fit` (any mode, epsilon, reset function): every module has exactly as many weights and as many counters as
the fused model has categories, and there is one module per channel. -/
theorem gen_counts_equal {ops : ModOps M α P C Bool} {fops : FitOps M α P} {chans : List (Chan α)} {mode : MT}
    {eps top : α} {st : M → ModState α} {rhoP : P → α} {Dom : Nat → M → Prop} (S : Sys ops fops chans mode eps top st rhoP Dom) (hne : chans ≠ [])
    (hl : ∀ c ∈ chans, c.LenOK) (gamma_values : List α) (dictEmpty dictSkip : C)
    (self : FSelf M) (hn : self.n = chans.length) (hlen : self.modules.length = chans.length)
    (hch : self.chIdx = positions (widths chans)) (hgam : gamma_values = chans.map (·.gamma))
    (hdom : ∀ (k : Nat) (m : M), self.modules[k]? = some m → Dom k m)
    (hhas : ∀ m, self.modules[0]? = some m → fops.hasW m = false)
    (X : List (List α)) (hX : ∀ x ∈ X, x.length = total chans)
    (is_none : Bool) (reset : List α → List α → Nat → Option (List C) → Bool) (veto : List α → Nat → Bool)
    (hv_none : is_none = true → ∀ x c, veto x c = false)
    (hv_some : is_none = false → ∀ x w c ch, reset x w c ch = !veto x c) :
    ∃ self', partial_fit ops fops gamma_values dictEmpty dictSkip self X is_none reset mode eps = some self' ∧
      self'.modules.length = chans.length ∧
      ∀ m ∈ self'.modules,
        (st m).W.length = (partialFit (fusionKernel chans) (fusionCfg mode (· + eps) (· - eps) top)
          (rhos ops rhoP self.modules) (fun _ x c => veto x c) {} X).W.length ∧
        (st m).cnt.length = (partialFit (fusionKernel chans) (fusionCfg mode (· + eps) (· - eps) top)
          (rhos ops rhoP self.modules) (fun _ x c => veto x c) {} X).W.length := by
  obtain ⟨self', h1, h2⟩ := gen_partial_fit_modsRun S hne hl gamma_values dictEmpty dictSkip self hn hlen hch hgam hdom hhas X hX
    is_none reset veto hv_none hv_some
  obtain ⟨c1, c2⟩ := C10.fusion_counts_equal chans hne (fusionCfg mode (· + eps) (· - eps) top)
    (rhos ops rhoP self.modules) veto X
  rw [← h2] at c1 c2
  simp only [List.length_map] at c1
  exact ⟨self', h1, c1, fun m hm => c2 (st m) (List.mem_map_of_mem hm)⟩

/-- **Every channel module stores exactly what its own rule computes on its slices** — for the generated
`partial_fit`: category `j` of module `k` is module `k`'s rule folded over the channel-`k` slices of the samples the
generated code labelled `j` (and it does not exist iff no sample got that label). -/
theorem gen_channel_states {ops : ModOps M α P C Bool} {fops : FitOps M α P} {chans : List (Chan α)} {mode : MT}
    {eps top : α} {st : M → ModState α} {rhoP : P → α} {Dom : Nat → M → Prop} (S : Sys ops fops chans mode eps top st rhoP Dom) (hne : chans ≠ [])
    (hl : ∀ c ∈ chans, c.LenOK) (gamma_values : List α) (dictEmpty dictSkip : C)
    (self : FSelf M) (hn : self.n = chans.length) (hlen : self.modules.length = chans.length)
    (hch : self.chIdx = positions (widths chans)) (hgam : gamma_values = chans.map (·.gamma))
    (hdom : ∀ (k : Nat) (m : M), self.modules[k]? = some m → Dom k m)
    (hhas : ∀ m, self.modules[0]? = some m → fops.hasW m = false)
    (X : List (List α)) (hX : ∀ x ∈ X, x.length = total chans)
    (is_none : Bool) (reset : List α → List α → Nat → Option (List C) → Bool) (veto : List α → Nat → Bool)
    (hv_none : is_none = true → ∀ x c, veto x c = false)
    (hv_some : is_none = false → ∀ x w c ch, reset x w c ch = !veto x c) :
    ∃ self', partial_fit ops fops gamma_values dictEmpty dictSkip self X is_none reset mode eps = some self' ∧
      ∀ (k : Nat) (c : Chan α) (m : M), chans[k]? = some c → self'.modules[k]? = some m → ∀ j : Nat,
        (st m).W[j]? = foldMembers c.K (members (X.map (slice (widths chans) k)) self'.labels j) := by
  obtain ⟨self', h1, G, h3, _⟩ := partial_fit_fresh S hne hl gamma_values dictEmpty dictSkip self hn hlen hch hgam hdom hhas X hX
    is_none reset veto hv_none hv_some
  refine ⟨self', h1, ?_⟩
  intro k c m hc hm j
  rw [G.inv.st_at k m hm, h3]
  exact C10.fusion_channel_states chans hl _ _ _ X hX k c hc j

/-- **The fused `W` is the concatenation of the channel weights** — for the generated code: after the generated
`partial_fit`, the generated `W` property returns, category by category, the concatenation of the modules' weights,
and that list is the fused model's weight list. -/
theorem gen_W_concat {ops : ModOps M α P C Bool} {fops : FitOps M α P} {chans : List (Chan α)} {mode : MT}
    {eps top : α} {st : M → ModState α} {rhoP : P → α} {Dom : Nat → M → Prop} (S : Sys ops fops chans mode eps top st rhoP Dom) (hne : chans ≠ [])
    (hl : ∀ c ∈ chans, c.LenOK) (gamma_values : List α) (dictEmpty dictSkip : C)
    (self : FSelf M) (hn : self.n = chans.length) (hlen : self.modules.length = chans.length)
    (hch : self.chIdx = positions (widths chans)) (hgam : gamma_values = chans.map (·.gamma))
    (hdom : ∀ (k : Nat) (m : M), self.modules[k]? = some m → Dom k m)
    (hhas : ∀ m, self.modules[0]? = some m → fops.hasW m = false)
    (X : List (List α)) (hX : ∀ x ∈ X, x.length = total chans)
    (is_none : Bool) (reset : List α → List α → Nat → Option (List C) → Bool) (veto : List α → Nat → Bool)
    (hv_none : is_none = true → ∀ x c, veto x c = false)
    (hv_some : is_none = false → ∀ x w c ch, reset x w c ch = !veto x c) :
    ∃ self', partial_fit ops fops gamma_values dictEmpty dictSkip self X is_none reset mode eps = some self' ∧
      W_get ops self'.modules self'.n = some (fusedW (self'.modules.map st)) ∧
      fusedW (self'.modules.map st) = (partialFit (fusionKernel chans) (fusionCfg mode (· + eps) (· - eps) top)
          (rhos ops rhoP self.modules) (fun _ x c => veto x c) {} X).W := by
  obtain ⟨self', h1, G, h3, _⟩ := partial_fit_fresh S hne hl gamma_values dictEmpty dictSkip self hn hlen hch hgam hdom hhas X hX
    is_none reset veto hv_none hv_some
  have hc := C10.fusion_W_concat chans hne (fusionCfg mode (· + eps) (· - eps) top) (rhos ops rhoP self.modules)
    (fun _ x c => veto x c) X
  refine ⟨self', h1, ?_, ?_⟩
  · rw [G.inv.2.1, hc]
    exact G.inv.W_get S hne G.hs self'.n G.n_eq
  · rw [G.inv.2.1, hc]

/-- **One channel with gamma 1 behaves as the bare module** — for the generated code: the generated `partial_fit` of a
FusionART with a single channel of weight 1 leaves a `W` property, labels and counters that are exactly those of the
bare module's own training run (`partialFit c.K` under the scalar vigilance configuration). -/
theorem gen_single_channel {ops : ModOps M α P C Bool} {fops : FitOps M α P} (c : Chan α) {mode : MT}
    {eps top : α} {st : M → ModState α} {rhoP : P → α} {Dom : Nat → M → Prop} (S : Sys ops fops [c] mode eps top st rhoP Dom)
    (hγ : c.gamma = 1) (hl : c.LenOK) (gamma_values : List α) (dictEmpty dictSkip : C)
    (self : FSelf M) (m0 : M) (hmods : self.modules = [m0]) (hn : self.n = 1)
    (hch : self.chIdx = positions [c.width]) (hgam : gamma_values = [c.gamma]) (hdom : Dom 0 m0)
    (hhas : fops.hasW m0 = false)
    (X : List (List α)) (hX : ∀ x ∈ X, x.length = c.width)
    (is_none : Bool) (reset : List α → List α → Nat → Option (List C) → Bool) (veto : List α → Nat → Bool)
    (hv_none : is_none = true → ∀ x c, veto x c = false)
    (hv_some : is_none = false → ∀ x w c ch, reset x w c ch = !veto x c) :
    ∃ self', partial_fit ops fops gamma_values dictEmpty dictSkip self X is_none reset mode eps = some self' ∧
      W_get ops self'.modules self'.n = some (partialFit c.K (scalarCfg mode false (· + eps) (· - eps) top)
        (rhoP (ops.params m0)) (fun _ x c => veto x c) {} X).W ∧
      self'.labels = (partialFit c.K (scalarCfg mode false (· + eps) (· - eps) top)
        (rhoP (ops.params m0)) (fun _ x c => veto x c) {} X).labels ∧
      ∀ m ∈ self'.modules, (st m).cnt = (partialFit c.K (scalarCfg mode false (· + eps) (· - eps) top)
        (rhoP (ops.params m0)) (fun _ x c => veto x c) {} X).cnt := by
  have htot : total [c] = c.width := by simp [total, widths]
  obtain ⟨self', h1, G, h3, _⟩ := partial_fit_fresh S (by simp) (by simpa using hl) gamma_values dictEmpty dictSkip self
    (by simpa using hn) (by simp [hmods]) (by simpa [widths] using hch) (by simpa using hgam)
    (by
      intro k m hm
      rw [hmods] at hm
      cases k with
      | zero => simp at hm; subst hm; exact hdom
      | succ k => simp at hm)
    (by intro m hm; rw [hmods] at hm; simp at hm; subst hm; exact hhas) X (by simpa [htot] using hX)
    is_none reset veto hv_none hv_some
  have hrho : rhos ops rhoP self.modules = [rhoP (ops.params m0)] := by simp [rhos, hmods]
  have hsc := C10.fusion_single_channel c hγ hl mode (· + eps) (· - eps) top (rhoP (ops.params m0))
    (fun _ x c => veto x c) {} X (by simp) hX
  rw [hrho, hsc] at G h3
  refine ⟨self', h1, G.inv.W_get S (by simp) G.hs self'.n G.n_eq, h3, ?_⟩
  intro m hm
  obtain ⟨k, hk⟩ := List.getElem?_of_mem hm
  rw [G.inv.st_at k m hk]
  rfl

end Train

/-! ### the contract is met by elementary modules with a scalar vigilance, with the decision tables taken from the
GENERATED `_match_tracking` / `match_criterion_bin` of ktrans (ArtGen/Kernels.lean); every channel may have its own kernel -/
section Scalar
variable {β : Type} [Field β] [LinearOrder β] [IsStrictOrderedRing β]

/-- an elementary module as an object: its kernel (class + hyper-parameters other than the vigilance), weights,
counters, the vigilance `rho` (= its `params`), and whether the attribute `W` exists -/
structure SMod (β : Type) where
  K : Kernel (List β) (List β) β β
  W : List (List β)
  cnt : List Nat
  rho : β
  hasW : Bool

/-- the methods FusionART calls on such a module; a cache is (match value, result of the binary test) -/
def sOps (inf : β) : ModOps (SMod β) β β (β × Bool) Bool where
  category_choice := fun m xi wi _ => (m.K.choice m.W xi wi, (0, false))
  match_criterion_bin := fun m xi wi rho _ strict =>
    let b := Gen.BaseART.match_bin (fun a b => if strict then decide (b < a) else decide (b ≤ a)) (m.K.matchv xi wi) rho
    (b, (m.K.matchv xi wi, b))
  update := fun m xi wi _ _ => m.K.update xi wi
  new_weight := fun m xi _ => m.K.newW xi
  match_tracking := fun m cache eps rho mt =>
    ((Gen.BaseART.match_tracking inf mt cache.1 eps rho).2, { m with rho := (Gen.BaseART.match_tracking inf mt cache.1 eps rho).1 })
  add_weight := fun m v => { m with W := m.W ++ [v], cnt := m.cnt ++ [1] }
  set_weight := fun m c v => { m with W := m.W.set c v, cnt := m.cnt.set c (m.cnt.getD c 0 + 1) }
  params := fun m => m.rho
  W := fun m => m.W
  n_clusters := fun m => m.W.length
  cache_match_criterion_bin := fun c => c.2

def sFops : FitOps (SMod β) β β where
  set_params := fun m p => { m with rho := p }
  set_W := fun m ws => { m with W := ws, hasW := true }
  set_cnt := fun m cs => { m with cnt := cs }
  set_n := fun m _ => m
  hasW := fun m => m.hasW

/-- **The contract holds** for every list of channels, mode, epsilon: module `k` is any object whose kernel is channel `k`'s -/
theorem scalar_sys (chans : List (Chan β)) (mode : MT) (eps inf : β) :
    Sys (sOps inf) sFops chans mode eps inf (fun m => ⟨m.W, m.cnt⟩) id
      (fun k m => ∃ c, chans[k]? = some c ∧ m.K = c.K) where
  W_eq := fun _ => rfl
  ncl := fun _ => rfl
  choice := by
    intro k c hc m ⟨c', hc', hK⟩ xi wi
    rw [hc] at hc'; cases hc'
    simp [sOps, hK]
  bin := by
    intro k c hc m ⟨c', hc', hK⟩ xi wi cc
    rw [hc] at hc'; cases hc'
    simp only [sOps, hK, id]
    cases mode <;> simp [Gen.BaseART.match_bin, match_tracking_operator, passesScalar, mtStrict]
  bin_cache := fun _ _ _ _ _ => rfl
  track := by
    intro k c hc m ⟨c', hc', hK⟩ xi wi cc
    rw [hc] at hc'; cases hc'
    refine ⟨?_, ?_, rfl, c, hc, hK⟩
    · simp only [sOps, base_match_tracking]; rfl
    · simp only [sOps, id, base_match_tracking, hK]; rfl
  update := by
    intro k c hc m ⟨c', hc', hK⟩ xi wi cc
    rw [hc] at hc'; cases hc'
    simp [sOps, hK]
  newW := by
    intro k c hc m ⟨c', hc', hK⟩ xi
    rw [hc] at hc'; cases hc'
    simp [sOps, hK]
  add_st := fun _ _ => rfl
  add_params := fun _ _ => rfl
  set_st := fun _ _ _ => rfl
  set_params := fun _ _ _ => rfl
  setp_params := fun _ _ => rfl
  setp_st := fun _ _ => rfl
  reset_st := fun _ => rfl
  reset_params := fun _ => rfl
  dom_add := fun _ _ _ h => h
  dom_set := fun _ _ _ _ h => h
  dom_setp := fun _ _ _ h => h
  dom_reset := fun _ _ h => h

end Scalar

/-! ### the generated code runs: two FuzzyART channels over ℚ, a fresh FusionART, `partial_fit` with MT+ -/
section Example

private def exK : Kernel (List ℚ) (List ℚ) ℚ ℚ := fuzzyKernel (1/100 : ℚ) 1 2

private def exChans : List (Chan ℚ) := [⟨exK, 4, 1/4, 4⟩, ⟨exK, 4, 3/4, 4⟩]

/-- a FusionART straight out of its constructor: no module has a `W` yet, `_weight_indices = _channel_indices` -/
private def exSelf : FSelf (SMod ℚ) :=
  { modules := [⟨exK, [], [], 1/2, false⟩, ⟨exK, [], [], 3/4, false⟩], n := 2,
    chIdx := get_channel_position_tuples [4, 4], wIdx := get_channel_position_tuples [4, 4] }

private def exX : List (List ℚ) :=
  [[1/2, 1/2, 1/2, 1/2, 1/4, 1/2, 3/4, 1/2], [1/2, 1/4, 1/2, 3/4, 1, 0, 0, 1], [1/2, 1/2, 1/2, 1/2, 1/4, 1/2, 3/4, 1/2]]

/-- the generated `partial_fit`, run on that object: three presentations, two categories, the labels, and every module
ends with two weights (its slices) -/
example : ((partial_fit (sOps (1000 : ℚ)) sFops [1/4, 3/4] (0, false) (0, false) exSelf exX true (fun _ _ _ _ => true)
    MT.plus (1/1000)).map (fun o => (o.labels, o.sample_counter, o.modules.map (·.W.length), o.modules.map (·.cnt))))
    = some ([0, 1, 0], 3, [2, 2], [[2, 1], [2, 1]]) := by
  decide +kernel

/-- … and the hypotheses of `partial_fit_fresh` / the C10 transports hold for it -/
example : ∃ self', partial_fit (sOps (1000 : ℚ)) sFops [1/4, 3/4] (0, false) (0, false) exSelf exX true
      (fun _ _ _ _ => true) MT.plus (1/1000) = some self' ∧
    self'.modules.length = exChans.length ∧
    ∀ m ∈ self'.modules,
      m.W.length = (partialFit (fusionKernel exChans) (fusionCfg MT.plus (· + (1/1000 : ℚ)) (· - 1/1000) 1000)
        [1/2, 3/4] (fun _ _ _ => false) {} exX).W.length ∧
      m.cnt.length = (partialFit (fusionKernel exChans) (fusionCfg MT.plus (· + (1/1000 : ℚ)) (· - 1/1000) 1000)
        [1/2, 3/4] (fun _ _ _ => false) {} exX).W.length :=
  gen_counts_equal (scalar_sys exChans MT.plus (1/1000) 1000) (by simp [exChans])
    (by
      intro c hc
      simp only [exChans, List.mem_cons, List.not_mem_nil, or_false] at hc
      rcases hc with rfl | rfl <;> exact C10.fuzzy_LenOK _ _ _ _ _)
    [1/4, 3/4] (0, false) (0, false) exSelf rfl rfl (by show get_channel_position_tuples [4, 4] = _; rw [fusion_positions]; rfl) rfl
    (by
      intro k m hm
      match k, hm with
      | 0, hm => simp [exSelf] at hm; subst hm; exact ⟨_, rfl, rfl⟩
      | 1, hm => simp [exSelf] at hm; subst hm; exact ⟨_, rfl, rfl⟩
      | k + 2, hm => simp [exSelf] at hm)
    (by intro m hm; simp [exSelf] at hm; subst hm; rfl)
    exX (by intro x hx; simp only [exX, List.mem_cons, List.not_mem_nil, or_false] at hx; rcases hx with rfl | rfl | rfl <;> rfl)
    true (fun _ _ _ _ => true) (fun _ _ => false) (fun _ _ _ => rfl) (by simp)

end Example

end Art.GenSpec.FusionFit
