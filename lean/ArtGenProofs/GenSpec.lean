/-
ArtGenProofs.GenSpec — the definitions *generated from the Python source on every
run* (`ArtGen/Kernels.lean`, written by `harness/artv/ktrans.py`) are equal, for
ALL arguments, to the published rules of `ArtModel/Kernels.lean` that every
theorem of this project is about.  If a formula in the source changes, the
regenerated definition changes and one of these theorems stops checking.

Binder names are part of the statement: a hyper-parameter `params["k"]` is the
binder `p_k` of the generated definition, a cache entry `cache["k"]` the binder
`c_k`, an attribute `self.dim_` the binder `s_dim_`, and every application below
passes them BY NAME.  A kernel that reads another key of the same type has a
differently named binder, and the application no longer elaborates.  Only the
Python positional parameters (`i`, `w`, …) are positional here.

Hypotheses: the Python kernels apply `abs` inside `l1norm`; the published rules
are stated for non-negative vectors (data in [0,1], weights ≥ 0), so the
equalities carry `NonNeg` hypotheses exactly where `l1norm` is used.
-/
import Mathlib.Algebra.Order.Field.Basic
import Mathlib.Algebra.Order.Ring.Abs
import Mathlib.Tactic.Ring
import Mathlib.Tactic.NormNum
import ArtGen.Kernels
import ArtModel.ARTMAP

namespace Art.GenSpec

set_option linter.unusedSectionVars false

variable {α : Type} [Field α] [LinearOrder α] [IsStrictOrderedRing α]

/-- all entries are non-negative -/
def NonNeg (v : List α) : Prop := ∀ t ∈ v, 0 ≤ t

theorem map_abs_of_nonneg {v : List α} (h : NonNeg v) : List.map (fun t => |t|) v = v := by
  induction v with
  | nil => rfl
  | cons a v ih =>
    simp only [List.map_cons]
    rw [abs_of_nonneg (h a (by simp)), ih (fun t ht => h t (by simp [ht]))]

theorem nonneg_vmin {x w : List α} (hx : NonNeg x) (hw : NonNeg w) : NonNeg (vmin x w) := by
  induction x generalizing w with
  | nil => intro t ht; simp [vmin] at ht
  | cons a x ih =>
    cases w with
    | nil => intro t ht; simp [vmin] at ht
    | cons b w =>
      intro t ht
      simp only [vmin, List.zipWith_cons_cons, List.mem_cons] at ht
      rcases ht with rfl | ht
      · exact le_min (hx a (by simp)) (hw b (by simp))
      · exact ih (fun s hs => hx s (by simp [hs])) (fun s hs => hw s (by simp [hs])) t ht

theorem nonneg_band (x w : List α) : NonNeg (band' x w) := by
  induction x generalizing w with
  | nil => intro t ht; simp [band'] at ht
  | cons a x ih =>
    cases w with
    | nil => intro t ht; simp [band'] at ht
    | cons b w =>
      intro t ht
      simp only [band', List.zipWith_cons_cons, List.mem_cons] at ht
      rcases ht with rfl | ht
      · split <;> [exact le_rfl; (split <;> [exact le_rfl; exact zero_le_one])]
      · exact ih w t ht

/-! ### Fuzzy ART -/

theorem fuzzy_choice (alpha : α) (x w : List α) (hx : NonNeg x) (hw : NonNeg w) :
    Gen.FuzzyART.category_choice (p_alpha := alpha) x w = fuzzyChoice alpha x w := by
  unfold Gen.FuzzyART.category_choice fuzzyChoice
  rw [map_abs_of_nonneg (nonneg_vmin hx hw), map_abs_of_nonneg hw]

theorem fuzzy_match (d : Nat) (x w : List α) (hx : NonNeg x) (hw : NonNeg w) :
    Gen.FuzzyART.match_criterion (s_dim_original := d) x w = fuzzyMatch (d : α) x w := by
  unfold Gen.FuzzyART.match_criterion fuzzyMatch
  rw [map_abs_of_nonneg (nonneg_vmin hx hw)]

theorem fuzzy_update (beta : α) (x w : List α) :
    Gen.FuzzyART.update (p_beta := beta) x w = fuzzyUpdate beta x w := rfl

theorem fuzzy_new (x : List α) : Gen.FuzzyART.new_weight x = fuzzyNew x := rfl

/-! ### ART1 -/

theorem art1_choice (dim : Nat) (x w : List α) :
    Gen.ART1.category_choice (s_dim_ := dim) x w = art1Choice dim x w := rfl

theorem art1_match (dim : Nat) (x w : List α) (hx : NonNeg x) :
    Gen.ART1.match_criterion (s_dim_ := dim) x w = art1Match dim x w := by
  unfold Gen.ART1.match_criterion art1Match
  simp only
  rw [map_abs_of_nonneg (nonneg_band _ _), map_abs_of_nonneg hx]

theorem art1_update (L : α) (dim : Nat) (x w : List α) :
    Gen.ART1.update (s_dim_ := dim) (p_L := L) x w = art1Update L dim x w := by
  unfold Gen.ART1.update art1Update
  simp only
  rw [map_abs_of_nonneg (nonneg_band _ _)]
  rfl

theorem art1_new (L : α) (x : List α) (hx : NonNeg x) :
    Gen.ART1.new_weight (p_L := L) x = art1New L x := by
  unfold Gen.ART1.new_weight art1New
  simp only
  rw [map_abs_of_nonneg hx]
  rfl

/-! ### ART2-A -/

theorem art2_choice (x w : List α) : Gen.ART2A.category_choice x w = art2Choice x w := rfl

/-- the match rule, fed with the cache entry `activation` that `category_choice` writes -/
theorem art2_match (alpha : α) (x w : List α) :
    Gen.ART2A.match_criterion (p_alpha := alpha) (c_activation := Gen.ART2A.category_choice_cache_activation x w) x w =
      art2Match alpha x w := by
  unfold Gen.ART2A.match_criterion Gen.ART2A.category_choice_cache_activation art2Match
  simp only
  split <;> simp

theorem art2_update (beta : α) (x w : List α) : Gen.ART2A.update (p_beta := beta) x w = art2Update beta x w := rfl

theorem art2_new (x : List α) : Gen.ART2A.new_weight x = x := rfl

/-! ### Hypersphere ART (with the model's `Transc.sqrt` as the square root) -/

variable [Transc α]

theorem sph_distance (x w : List α) :
    Gen.HypersphereART.category_distance (sqrt := Transc.sqrt) x (sphCentre w) = sphDist x w := rfl

theorem sph_choice (alpha rhat : α) (x w : List α) :
    Gen.HypersphereART.category_choice (sqrt := Transc.sqrt) (p_r_hat := rhat) (p_alpha := alpha) x w = sphChoice alpha rhat x w := rfl

/-- the match rule, fed with the cache entry `max_radius` that `category_choice` writes -/
theorem sph_match (alpha rhat : α) (x w : List α) :
    Gen.HypersphereART.match_criterion (p_r_hat := rhat)
        (c_max_radius := Gen.HypersphereART.category_choice_cache_max_radius (sqrt := Transc.sqrt) (p_r_hat := rhat) (p_alpha := alpha) x w) x w =
      sphMatch rhat x w := rfl

/-- the update rule, fed with the cache entries that `category_choice` writes -/
theorem sph_update (alpha beta rhat : α) (x w : List α) :
    Gen.HypersphereART.update (p_beta := beta)
        (c_max_radius := Gen.HypersphereART.category_choice_cache_max_radius (sqrt := Transc.sqrt) (p_r_hat := rhat) (p_alpha := alpha) x w)
        (c_i_radius := Gen.HypersphereART.category_choice_cache_i_radius (sqrt := Transc.sqrt) (p_r_hat := rhat) (p_alpha := alpha) x w) x w =
      sphUpdate beta x w := by
  unfold Gen.HypersphereART.update Gen.HypersphereART.category_choice_cache_max_radius
    Gen.HypersphereART.category_choice_cache_i_radius sphUpdate
  simp only
  have h2 : (2 : α) = 1 + 1 := by norm_num
  have hd : Gen.HypersphereART.category_distance (sqrt := Transc.sqrt) x (List.dropLast w) = sphDist x w := rfl
  rw [hd, h2]
  congr 1
  · unfold vadd smul vsub sphCentre sphRadius
    congr 1
    rw [List.map_map, List.map_map]
    apply List.map_congr_left
    intro t _
    simp only [Function.comp]
    by_cases hpos : 0 < sphDist x w
    · simp only [gt_iff_lt, hpos, if_true, sphRadius]; ring
    · simp only [gt_iff_lt, hpos, if_false]; ring

theorem sph_new (x : List α) : Gen.HypersphereART.new_weight x = sphNew x := rfl

/-! ### Ellipsoid ART -/

theorem ell_distance (mu : α) (x c axis : List α) :
    Gen.EllipsoidART.category_distance (sqrt := Transc.sqrt) (p_mu := mu) x c axis = ellDist mu x c axis := by
  unfold Gen.EllipsoidART.category_distance ellDist
  simp only
  split <;> rfl

theorem ell_choice (alpha mu rhat : α) (dim : Nat) (x w : List α) :
    Gen.EllipsoidART.category_choice (sqrt := Transc.sqrt) (s_dim_ := dim) (p_mu := mu) (p_r_hat := rhat) (p_alpha := alpha) x w = ellChoice alpha mu rhat dim x w := by
  unfold Gen.EllipsoidART.category_choice ellChoice
  simp only
  rw [ell_distance]
  have h2 : (2 : α) = 1 + 1 := by norm_num
  rw [h2]
  rfl

/-- the match rule, fed with the cache entry `dist` that `category_choice` writes -/
theorem ell_match (alpha mu rhat : α) (dim : Nat) (x w : List α) :
    Gen.EllipsoidART.match_criterion (p_r_hat := rhat)
        (c_dist := Gen.EllipsoidART.category_choice_cache_dist (sqrt := Transc.sqrt) (s_dim_ := dim) (p_mu := mu) (p_r_hat := rhat) (p_alpha := alpha) x w) x w =
      ellMatch mu rhat dim x w := by
  unfold Gen.EllipsoidART.match_criterion Gen.EllipsoidART.category_choice_cache_dist ellMatch
  simp only
  rw [ell_distance]
  rfl

/-- the update rule, fed with the cache entry `dist` that `category_choice` writes -/
theorem ell_update (alpha beta mu rhat : α) (dim : Nat) (x w : List α) :
    Gen.EllipsoidART.update (sqrt := Transc.sqrt) (s_dim_ := dim) (p_beta := beta)
        (c_dist := Gen.EllipsoidART.category_choice_cache_dist (sqrt := Transc.sqrt) (s_dim_ := dim) (p_mu := mu) (p_r_hat := rhat) (p_alpha := alpha) x w) x w =
      ellUpdate beta mu dim x w := by
  unfold Gen.EllipsoidART.update Gen.EllipsoidART.category_choice_cache_dist ellUpdate
  simp only
  rw [ell_distance]
  have h2 : (2 : α) = 1 + 1 := by norm_num
  rw [h2]
  -- the centre: `t * shrink` (generated) vs `f * t` (model)
  have hc : ∀ (f : α) (c v : List α),
      List.zipWith (fun s t => s + t) c (List.map (fun t => t * f) (List.map (fun t => beta / (1 + 1) * t) v)) =
        vadd c (smul f (smul (beta / (1 + 1)) v)) := by
    intro f c v
    unfold vadd smul
    congr 1
    rw [List.map_map, List.map_map]
    apply List.map_congr_left
    intro t _
    simp only [Function.comp]; ring
  simp only [gt_iff_lt, hc]
  rfl

theorem ell_new (x : List α) : Gen.EllipsoidART.new_weight x = ellNew x := rfl

/-! ### Decision logic: match tracking, comparison operator, supervised veto -/

/-! ### Gaussian ART (with the model's `Transc.exp` / `Transc.sqrt`) -/

theorem gauss_lik (alpha : α) (dim : Nat) (allW : List (List α)) (x w : List α) :
    Gen.GaussianART.category_choice_cache_exp_dist_sig_dist (exp := Transc.exp) (allW := allW) (s_dim_ := dim) (p_alpha := alpha) x w =
      gaussLik dim x w := by
  unfold Gen.GaussianART.category_choice_cache_exp_dist_sig_dist gaussLik gaussMean gaussInv
  have h2 : (2 : α) = 1 + 1 := by norm_num
  have hd : 3 * dim - 2 * dim = dim := by omega
  simp only [h2, hd]

/-- activation: likelihood over `(alpha + sqrt det)` times the prior `n / sum of all counts` -/
theorem gauss_choice (alpha : α) (dim : Nat) (allW : List (List α)) (x w : List α) :
    Gen.GaussianART.category_choice (exp := Transc.exp) (allW := allW) (s_dim_ := dim) (p_alpha := alpha) x w =
      gaussChoice alpha dim allW x w := by
  unfold Gen.GaussianART.category_choice gaussChoice gaussLik gaussMean gaussInv gaussSqrtDet gaussCount
  have h2 : (2 : α) = 1 + 1 := by norm_num
  have hd : 3 * dim - 2 * dim = dim := by omega
  simp only [h2, hd]

/-- the match value is the cached likelihood term -/
theorem gauss_match (alpha : α) (dim : Nat) (allW : List (List α)) (x w : List α) :
    Gen.GaussianART.match_criterion
        (c_exp_dist_sig_dist := Gen.GaussianART.category_choice_cache_exp_dist_sig_dist (exp := Transc.exp) (allW := allW) (s_dim_ := dim) (p_alpha := alpha) x w) x w =
      gaussLik dim x w := by
  unfold Gen.GaussianART.match_criterion
  exact gauss_lik alpha dim allW x w

theorem gauss_update (dim : Nat) (x w : List α) :
    Gen.GaussianART.update (sqrt := Transc.sqrt) (s_dim_ := dim) x w = gaussUpdate dim x w := by
  unfold Gen.GaussianART.update gaussUpdate gaussMean gaussSigma gaussCount
  have hd : 2 * dim - dim = dim := by omega
  simp only [hd]

theorem gauss_new (sigmaInit x : List α) :
    Gen.GaussianART.new_weight (sqrt := Transc.sqrt) (p_sigma_init := sigmaInit) x = gaussNew sigmaInit x := rfl

section Logic
variable {β : Type} [Field β] [LinearOrder β] [IsStrictOrderedRing β]

/-- `BaseART._match_tracking` is the model's `trackScalar` / `keep` for every mode
(also the verbatim copies in DualVigilanceART, TopoART and CVIART). -/
theorem base_match_tracking (inf : β) (mode : MT) (M eps rho : β) :
    Gen.BaseART.match_tracking inf mode M eps rho =
      ((scalarCfg mode false (· + eps) (· - eps) inf).track rho M,
       (scalarCfg (α := β) mode false (· + eps) (· - eps) inf).keep) := by
  cases mode <;> rfl

theorem dual_match_tracking (inf : β) (mode : MT) (M eps rho : β) :
    Gen.DualVigilanceART.match_tracking inf mode M eps rho = Gen.BaseART.match_tracking inf mode M eps rho := by
  cases mode <;> rfl

theorem topo_match_tracking (inf : β) (mode : MT) (M eps rho : β) :
    Gen.TopoART.match_tracking inf mode M eps rho = Gen.BaseART.match_tracking inf mode M eps rho := by
  cases mode <;> rfl

theorem cviart_match_tracking (inf : β) (mode : MT) (M eps rho : β) :
    Gen.CVIART.match_tracking inf mode M eps rho = Gen.BaseART.match_tracking inf mode M eps rho := by
  cases mode <;> rfl

/-- BayesianART tracks the other way round (its vigilance is an upper bound on det cov):
`M - eps` for MT+, `M + eps` for MT-, `-inf` for MT1. -/
theorem bayes_match_tracking (inf : β) (mode : MT) (M eps rho : β) :
    Gen.BayesianART.match_tracking inf mode M eps rho =
      ((scalarCfg mode true (· - eps) (· + eps) (-inf)).track rho M,
       (scalarCfg (α := β) mode true (· - eps) (· + eps) (-inf)).keep) := by
  cases mode <;> rfl

/-- `_match_tracking_operator`: `>` exactly for MT0 and MT~ -/
theorem operator_strict (mode : MT) : Gen.BaseART.strict mode = mtStrict mode := by
  cases mode <;> rfl

/-- `match_criterion_bin` applied to the operator of the mode is the model's `passesScalar` -/
theorem base_match_bin (mode : MT) (M rho : β) :
    Gen.BaseART.match_bin (fun a b => if Gen.BaseART.strict mode then decide (b < a) else decide (b ≤ a)) M rho =
      passesScalar mode false rho M := by
  cases mode <;> simp [Gen.BaseART.match_bin, Gen.BaseART.strict, passesScalar, mtStrict]

theorem bayes_match_bin (mode : MT) (M rho : β) :
    Gen.BayesianART.match_bin (fun a b => if Gen.BaseART.strict mode then decide (b < a) else decide (b ≤ a)) M rho =
      passesScalar mode true rho M := by
  cases mode <;> simp [Gen.BayesianART.match_bin, Gen.BaseART.strict, passesScalar, mtStrict]

/-- `SimpleARTMAP.match_reset_func` allows a category unless it is mapped to another class:
the negation of the model's `mapVeto`. -/
theorem smap_match_reset (m : List (Option Nat)) (a b : Nat) :
    Gen.SimpleARTMAP.match_reset (mapGet m) a b = !mapVeto m b a := by
  unfold Gen.SimpleARTMAP.match_reset mapVeto
  cases h : mapGet m a with
  | none => simp
  | some y =>
    by_cases e : y = b
    · subst e; simp
    · simp [e]

end Logic

end Art.GenSpec
